import GraafVerif.Proof.DijkstraBasic
/-!
# The run invariant of the Dijkstra model and its preservation

`out` = entries emitted so far (ghost), `todo` = out-arcs `(u, x, w)` of the vertex being
scanned that are not relaxed yet (empty between two rounds of `run`).
-/
namespace GraafVerif.Dijkstra
open GraafVerif

abbrev Todo := List (Nat × Nat × Int)

/-- The two tag functions in use (`fun _ => none` and `some`) satisfy this. -/
def TagOK (tag : Nat → Option Nat) : Prop := ∀ u p, tag u = some p → p = u

/-- Facts about the emitted prefix alone. -/
structure OutOK (g : WGraph) (S : List Nat) (out : List Entry) : Prop where
  sorted : out.Pairwise (fun a b => a.d ≤ b.d)
  nodup : (out.map (·.v)).Nodup
  minimal : ∀ e ∈ out, ∀ wt, SrcWalk g S e.v wt → e.d ≤ wt
  /-- the recorded predecessor was emitted earlier -/
  predBefore : ∀ pre e post, out = pre ++ e :: post → ∀ u, e.p = some u → ∃ eu ∈ pre, eu.v = u

structure Inv (g : WGraph) (S : List Nat) (tag : Nat → Option Nat) (out : List Entry) (todo : Todo)
    (st : State) : Prop where
  len : st.dist.length = g.n
  /-- every finite `dist` value is the weight of a walk from a source -/
  sound : ∀ v d, dOf st.dist v = some d → SrcWalk g S v d
  src : ∀ s ∈ S, dOf st.dist s = some 0
  /-- (J1) heap keys are ≥ the current `dist` of their vertex -/
  heapKey : ∀ e ∈ st.heap, ∃ d', dOf st.dist e.v = some d' ∧ d' ≤ e.d
  /-- (J2) every reached, not yet emitted vertex has its fresh entry in the heap -/
  fresh : ∀ v d, dOf st.dist v = some d → v ∉ out.map (·.v) → ∃ e ∈ st.heap, e.v = v ∧ e.d = d
  /-- (J4) emitted vertices are final … -/
  final : ∀ e ∈ out, dOf st.dist e.v = some e.d
  /-- … and all their out-arcs are relaxed (except those still to do) -/
  relaxed : ∀ e ∈ out, ∀ xw ∈ g.out e.v,
    (e.v, xw.1, xw.2) ∈ todo ∨ ∃ dx, dOf st.dist xw.1 = some dx ∧ dx ≤ e.d + xw.2
  /-- (J3) emitted keys are ≤ every heap key -/
  mono : ∀ e ∈ out, ∀ e' ∈ st.heap, e.d ≤ e'.d
  keyNodup : (st.heap.map (fun e => (e.d, e.v))).Nodup
  notEmitted : ∀ e ∈ st.heap, dOf st.dist e.v = some e.d → e.v ∉ out.map (·.v)
  predSome : ∀ e ∈ st.heap ++ out, ∀ u, e.p = some u →
    ∃ eu ∈ out, eu.v = u ∧ ∃ w, (e.v, w) ∈ g.out u ∧ e.d = eu.d + w
  predNone : (∀ u, tag u ≠ none) → ∀ e ∈ st.heap ++ out, e.p = none → e.v ∈ S ∧ e.d = 0
  srcNone : ∀ e ∈ st.heap ++ out, e.v ∈ S → e.p = none

variable {g : WGraph} {S : List Nat} {tag : Nat → Option Nat}

/-- One iteration of the relaxation loop preserves the invariant and discharges one `todo`. -/
theorem relax_inv (hwf : g.WF) (hnn : g.NonNeg) (htag : TagOK tag)
    {out : List Entry} {todo : Todo} {st : State} {e : Entry} {x : Nat} {w : Int}
    (ok : OutOK g S out) (he : e ∈ out) (hmax : ∀ e' ∈ out, e'.d ≤ e.d) (harc : (x, w) ∈ g.out e.v)
    (inv : Inv g S tag out ((e.v, x, w) :: todo) st) :
    Inv g S tag out todo (relax tag e.v e.d st (x, w)) := by
  have hx : x < g.n := (hwf _ _ _ harc).2
  have hxl : x < st.dist.length := by rw [inv.len]; exact hx
  have hd0 : 0 ≤ e.d := SrcWalk.nonneg hnn (inv.sound _ _ (inv.final e he))
  have hw0 : 0 ≤ w := hnn _ _ _ harc
  have heq : ∀ e'' ∈ out, e''.v = e.v → e'' = e := fun e'' he'' hv =>
    eq_of_nodup_map (·.v) out ok.nodup he'' he hv
  by_cases himp : improves (e.d + w) (dOf st.dist x) = true
  · -- the arc improves `dist[x]`: write and push
    have himp' := (improves_iff _ _).mp himp
    have hxout : x ∉ out.map (·.v) := by
      intro hm
      obtain ⟨ex, hex, hexv⟩ := List.mem_map.mp hm
      have h1 := inv.final ex hex
      have hexv : ex.v = x := hexv
      rw [hexv] at h1
      have := himp' _ h1
      have := hmax ex hex
      omega
    have hxS : x ∉ S := by
      intro hs
      have := himp' _ (inv.src x hs)
      omega
    have hrel : relax tag e.v e.d st (x, w) =
        ⟨st.dist.set x (some (e.d + w)), ⟨e.d + w, tag e.v, x⟩ :: st.heap⟩ := by
      simp [relax, himp]
    rw [hrel]
    have hdx : dOf (st.dist.set x (some (e.d + w))) x = some (e.d + w) := dOf_set_eq _ _ _ hxl
    have hdne : ∀ y, y ≠ x → dOf (st.dist.set x (some (e.d + w))) y = dOf st.dist y :=
      fun y hy => dOf_set_ne _ _ _ _ hy
    refine { len := ?_, sound := ?_, src := ?_, heapKey := ?_, fresh := ?_, final := ?_, relaxed := ?_,
             mono := ?_, keyNodup := ?_, notEmitted := ?_, predSome := ?_, predNone := ?_, srcNone := ?_ }
    · simp [inv.len]
    · intro v d hv
      dsimp only at hv
      by_cases hvx : v = x
      · subst hvx
        rw [hdx] at hv
        injection hv with hv
        subst hv
        exact (inv.sound _ _ (inv.final e he)).snoc harc
      · rw [hdne v hvx] at hv; exact inv.sound v d hv
    · intro s hs
      dsimp only
      have : s ≠ x := fun h => hxS (h ▸ hs)
      rw [hdne s this]; exact inv.src s hs
    · intro e' he'
      dsimp only at he' ⊢
      rcases List.mem_cons.mp he' with rfl | he'
      · exact ⟨e.d + w, hdx, Int.le_refl _⟩
      · obtain ⟨d', h1, h2⟩ := inv.heapKey e' he'
        by_cases hvx : e'.v = x
        · rw [hvx] at h1 ⊢
          have := himp' _ h1
          exact ⟨e.d + w, hdx, by omega⟩
        · exact ⟨d', by rw [hdne _ hvx]; exact h1, h2⟩
    · intro v d hv hvo
      dsimp only at hv ⊢
      by_cases hvx : v = x
      · subst hvx
        rw [hdx] at hv
        injection hv with hv
        exact ⟨⟨e.d + w, tag e.v, v⟩, by simp, rfl, hv⟩
      · rw [hdne v hvx] at hv
        obtain ⟨e', h1, h2, h3⟩ := inv.fresh v d hv hvo
        exact ⟨e', List.mem_cons_of_mem _ h1, h2, h3⟩
    · intro e' he'
      dsimp only
      have : e'.v ≠ x := fun h => hxout (List.mem_map.mpr ⟨e', he', h⟩)
      rw [hdne _ this]; exact inv.final e' he'
    · intro e' he' xw hxw
      dsimp only
      rcases inv.relaxed e' he' xw hxw with h | ⟨dx, h1, h2⟩
      · rcases List.mem_cons.mp h with h | h
        · right
          simp only [Prod.mk.injEq] at h
          have e'eq := heq e' he' h.1
          rw [e'eq, h.2.1, h.2.2]
          exact ⟨e.d + w, hdx, Int.le_refl _⟩
        · exact Or.inl h
      · right
        by_cases hvx : xw.1 = x
        · rw [hvx] at h1 ⊢
          have := himp' _ h1
          exact ⟨e.d + w, hdx, by omega⟩
        · exact ⟨dx, by rw [hdne _ hvx]; exact h1, h2⟩
    · intro e' he' e'' he''
      dsimp only at he''
      rcases List.mem_cons.mp he'' with rfl | he''
      · have := hmax e' he'; simp only; omega
      · exact inv.mono e' he' e'' he''
    · dsimp only
      simp only [List.map_cons, List.nodup_cons]
      refine ⟨?_, inv.keyNodup⟩
      intro hm
      obtain ⟨e', he', hk⟩ := List.mem_map.mp hm
      simp only [Prod.mk.injEq] at hk
      obtain ⟨d', h1, h2⟩ := inv.heapKey e' he'
      rw [hk.2] at h1
      have := himp' _ h1
      omega
    · intro e' he' hd
      dsimp only at he' hd
      rcases List.mem_cons.mp he' with rfl | he'
      · exact hxout
      · by_cases hvx : e'.v = x
        · rw [hvx]; exact hxout
        · rw [hdne _ hvx] at hd; exact inv.notEmitted e' he' hd
    · intro e' he' u hu
      dsimp only at he'
      simp only [List.cons_append, List.mem_cons] at he'
      rcases he' with rfl | he'
      · simp only at hu
        have := htag _ _ hu
        subst this
        exact ⟨e, he, rfl, w, harc, rfl⟩
      · exact inv.predSome e' he' u hu
    · intro hne e' he' hp
      dsimp only at he'
      simp only [List.cons_append, List.mem_cons] at he'
      rcases he' with rfl | he'
      · exact absurd hp (hne _)
      · exact inv.predNone hne e' he' hp
    · intro e' he' hs
      dsimp only at he'
      simp only [List.cons_append, List.mem_cons] at he'
      rcases he' with rfl | he'
      · exact absurd hs hxS
      · exact inv.srcNone e' he' hs
  · -- no improvement: `dist[x] ≤ d + w` already
    have hrel : relax tag e.v e.d st (x, w) = st := by simp [relax, himp]
    rw [hrel]
    have hdx : ∃ dx, dOf st.dist x = some dx ∧ dx ≤ e.d + w := by
      cases hdo : dOf st.dist x with
      | none => simp [improves, hdo] at himp
      | some dx =>
        refine ⟨dx, rfl, ?_⟩
        simp [improves, hdo] at himp
        exact himp
    refine { len := inv.len, sound := inv.sound, src := inv.src, heapKey := inv.heapKey, fresh := inv.fresh,
             final := inv.final, relaxed := ?_, mono := inv.mono, keyNodup := inv.keyNodup,
             notEmitted := inv.notEmitted, predSome := inv.predSome, predNone := inv.predNone,
             srcNone := inv.srcNone }
    intro e' he' xw hxw
    rcases inv.relaxed e' he' xw hxw with h | h
    · rcases List.mem_cons.mp h with h | h
      · right
        simp only [Prod.mk.injEq] at h
        have e'eq := heq e' he' h.1
        rw [e'eq, h.2.1, h.2.2]
        exact hdx
      · exact Or.inl h
    · exact Or.inr h

theorem relax_heap_len (tag : Nat → Option Nat) (u : Nat) (d : Int) (st : State) (xw : Nat × Int) :
    (relax tag u d st xw).heap.length ≤ st.heap.length + 1 := by
  unfold relax; split <;> simp

theorem foldl_relax_heap_len (tag : Nat → Option Nat) (u : Nat) (d : Int) (row : List (Nat × Int)) (st : State) :
    (row.foldl (relax tag u d) st).heap.length ≤ st.heap.length + row.length := by
  induction row generalizing st with
  | nil => simp
  | cons a row ih =>
    simp only [List.foldl_cons, List.length_cons]
    have h1 := ih (relax tag u d st a)
    have h2 := relax_heap_len tag u d st a
    omega

/-- The whole relaxation scan. -/
theorem foldl_relax_inv (hwf : g.WF) (hnn : g.NonNeg) (htag : TagOK tag)
    {out : List Entry} {e : Entry} (ok : OutOK g S out) (he : e ∈ out) (hmax : ∀ e' ∈ out, e'.d ≤ e.d)
    (row : List (Nat × Int)) (hrow : ∀ xw ∈ row, xw ∈ g.out e.v) (todo : Todo) (st : State)
    (inv : Inv g S tag out (row.map (fun xw => (e.v, xw.1, xw.2)) ++ todo) st) :
    Inv g S tag out todo (row.foldl (relax tag e.v e.d) st) := by
  induction row generalizing st with
  | nil => simpa using inv
  | cons a row ih =>
    obtain ⟨x, w⟩ := a
    simp only [List.foldl_cons]
    apply ih (fun xw h => hrow xw (List.mem_cons_of_mem _ h))
    exact relax_inv hwf hnn htag ok he hmax (hrow (x, w) (by simp)) (by simpa using inv)

end GraafVerif.Dijkstra
