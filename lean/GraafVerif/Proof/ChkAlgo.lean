import GraafVerif.Model.ChkAlgo
import GraafVerif.Proof.ChkReprA
import GraafVerif.Proof.ChkMatrix
/-! `DistanceMatrix::new`, `BellmanFordMoore`, `FloydWarshall`, `Xoshiro256StarStar` — C13, P1 -/
namespace GraafVerif.Chk

/-! ### `DistanceMatrix::new`: `set_len(n)` is followed by exactly `n` writes -/

theorem fill_spec (site : String) (x : Option Nat) :
    ∀ (n a : Nat) (buf : List (Option Nat)), a + n = buf.length → (∀ j, j < a → buf[j]? = some x) →
      NoUB ((List.range' a n).foldlM (fun (b : List (Option Nat)) i => wr site b i x) buf) ∧
      ∀ r, (List.range' a n).foldlM (fun (b : List (Option Nat)) i => wr site b i x) buf = .ok r →
        r.length = buf.length ∧ ∀ j, j < a + n → r[j]? = some x := by
  intro n
  induction n with
  | zero =>
    intro a buf _ hinit
    refine ⟨noUB_pure _, ?_⟩
    intro r h
    cases h
    exact ⟨rfl, by intro j hj; exact hinit j (by omega)⟩
  | succ n ih =>
    intro a buf hlen hinit
    rw [List.range'_succ, List.foldlM_cons]
    have ha : a < buf.length := by omega
    have hstep : wr site buf a x = .ok (buf.set a x) := by unfold wr; rw [if_pos ha]
    have ih' := ih (a + 1) (buf.set a x) (by simp; omega)
      (by
        intro j hj
        by_cases hja : j = a
        · subst hja; simp [ha]
        · rw [List.getElem?_set_ne (by omega)]; exact hinit j (by omega))
    constructor
    · rw [hstep]; exact ih'.1
    · intro r h
      rw [hstep] at h
      obtain ⟨h1, h2⟩ := ih'.2 r h
      refine ⟨by simpa using h1, ?_⟩
      intro j hj
      exact h2 j (by omega)

/-- `DistanceMatrix::new` for EVERY order: no UB, and when it returns every one of the `order²`
slots has been written (none is left uninitialised after `set_len`). -/
theorem dmNew_spec (order inf : Nat) :
    NoUB (dmNew order inf) ∧
    ∀ r, dmNew order inf = .ok r → r.length = order * order ∧ ∀ j, j < order * order → r[j]? = some (some inf) := by
  unfold dmNew
  constructor
  · apply noUB_bind (noUB_assert _); intro _ _
    split
    · exact noUB_throw_panic
    · dsimp only
      split
      · exact noUB_throw_panic
      · apply noUB_bind (noUB_chkOff (by simp)); intro _ _
        unfold forRange
        exact (fill_spec _ (some inf) (order * order - 0) 0 _ (by simp) (by intro j hj; omega)).1
  · intro r h
    obtain ⟨_, _, h⟩ := bind_ok h
    split at h
    · cases h
    · dsimp only at h
      split at h
      · cases h
      · obtain ⟨_, _, h⟩ := bind_ok h
        unfold forRange at h
        obtain ⟨h1, h2⟩ := (fill_spec _ (some inf) (order * order - 0) 0 _ (by simp) (by intro j hj; omega)).2 r h
        exact ⟨by simpa using h1, fun j hj => h2 j (by omega)⟩

/-! ### `BellmanFordMoore` -/

theorem bfmNew_spec (order s : Nat) :
    NoUB (bfmNew order s) ∧ ∀ d, bfmNew order s = .ok d → d.length = order := by
  unfold bfmNew
  constructor
  · apply noUB_bind (noUB_assert _); intro _ h
    exact noUB_wr (by simpa using assert_ok h)
  · intro d h
    obtain ⟨_, _, h⟩ := bind_ok h
    rw [wr_length h]; simp

theorem rd_mem {α : Type} {site : String} {l : List α} {i : Nat} {a : α} (h : rd site l i = .ok a) : a ∈ l := by
  unfold rd at h
  split at h
  · rename_i x hx; cases h; exact List.mem_of_getElem? hx
  · cases h

theorem bfmRelax_spec (order : Nat) (arcs : List (Nat × Nat × Int)) (hwf : ArcsWF order arcs) (dist : List Int)
    (hd : dist.length = order) (i : Nat) (hi : i < arcs.length) :
    NoUB (bfmRelax arcs dist i) ∧ ∀ r, bfmRelax arcs dist i = .ok r → r.1.length = order := by
  unfold bfmRelax
  constructor
  · apply noUB_bind (noUB_rd hi); intro a ha
    obtain ⟨hu, hv⟩ := hwf a (rd_mem ha)
    apply noUB_bind (noUB_rd (by rw [hd]; exact hu)); intro _ _
    split
    · apply noUB_bind (noUB_rd (by rw [hd]; exact hv)); intro _ _
      split
      · exact noUB_bind (noUB_wr (by rw [hd]; exact hv)) (fun _ _ => noUB_pure _)
      · exact noUB_pure _
    · exact noUB_pure _
  · intro r h
    obtain ⟨a, ha, h⟩ := bind_ok h
    obtain ⟨_, _, h⟩ := bind_ok h
    split at h
    · obtain ⟨_, _, h⟩ := bind_ok h
      split at h
      · obtain ⟨d, hw, h⟩ := bind_ok h
        cases h
        show d.length = order
        rw [wr_length hw]; exact hd
      · cases h; exact hd
    · cases h; exact hd

theorem bfmRelaxIf_spec (order : Nat) (arcs : List (Nat × Nat × Int)) (hwf : ArcsWF order arcs) (dist : List Int)
    (hd : dist.length = order) (i : Nat) :
    NoUB (bfmRelaxIf arcs dist i) ∧ ∀ r, bfmRelaxIf arcs dist i = .ok r → r.1.length = order := by
  unfold bfmRelaxIf
  split
  · rename_i hi; exact bfmRelax_spec order arcs hwf dist hd i hi
  · exact ⟨noUB_pure _, by intro r h; cases h; exact hd⟩

theorem bfmPass_spec (order : Nat) (arcs : List (Nat × Nat × Int)) (hwf : ArcsWF order arcs) :
    ∀ (fuel i : Nat) (dist : List Int) (upd : Bool), dist.length = order →
      NoUB (bfmPass arcs fuel i dist upd) ∧ ∀ r, bfmPass arcs fuel i dist upd = .ok r → r.1.length = order := by
  intro fuel
  induction fuel with
  | zero =>
    intro i dist upd hd
    unfold bfmPass
    exact ⟨noUB_pure _, by intro r h; cases h; exact hd⟩
  | succ fuel ih =>
    intro i dist upd hd
    unfold bfmPass
    split
    · rename_i hi
      obtain ⟨a1, b1⟩ := bfmRelax_spec order arcs hwf dist hd i hi
      constructor
      · apply noUB_bind a1; intro r1 h1
        obtain ⟨a2, b2⟩ := bfmRelaxIf_spec order arcs hwf r1.1 (b1 r1 h1) (i + 1)
        apply noUB_bind a2; intro r2 h2
        obtain ⟨a3, b3⟩ := bfmRelaxIf_spec order arcs hwf r2.1 (b2 r2 h2) (i + 2)
        apply noUB_bind a3; intro r3 h3
        obtain ⟨a4, b4⟩ := bfmRelaxIf_spec order arcs hwf r3.1 (b3 r3 h3) (i + 3)
        apply noUB_bind a4; intro r4 h4
        exact (ih _ _ _ (b4 r4 h4)).1
      · intro r h
        obtain ⟨r1, h1, h⟩ := bind_ok h
        obtain ⟨a2, b2⟩ := bfmRelaxIf_spec order arcs hwf r1.1 (b1 r1 h1) (i + 1)
        obtain ⟨r2, h2, h⟩ := bind_ok h
        obtain ⟨a3, b3⟩ := bfmRelaxIf_spec order arcs hwf r2.1 (b2 r2 h2) (i + 2)
        obtain ⟨r3, h3, h⟩ := bind_ok h
        obtain ⟨a4, b4⟩ := bfmRelaxIf_spec order arcs hwf r3.1 (b3 r3 h3) (i + 3)
        obtain ⟨r4, h4, h⟩ := bind_ok h
        exact (ih _ _ _ (b4 r4 h4)).2 r h
    · exact ⟨noUB_pure _, by intro r h; cases h; exact hd⟩

theorem bfmRounds_spec (order : Nat) (arcs : List (Nat × Nat × Int)) (hwf : ArcsWF order arcs) :
    ∀ (n : Nat) (dist : List Int), dist.length = order →
      NoUB (bfmRounds arcs n dist) ∧ ∀ r, bfmRounds arcs n dist = .ok r → r.length = order := by
  intro n
  induction n with
  | zero =>
    intro dist hd
    unfold bfmRounds
    exact ⟨noUB_pure _, by intro r h; cases h; exact hd⟩
  | succ n ih =>
    intro dist hd
    unfold bfmRounds
    obtain ⟨a, b⟩ := bfmPass_spec order arcs hwf (arcs.length + 1) 0 dist false hd
    constructor
    · apply noUB_bind a; intro r hr
      split
      · exact (ih _ (b r hr)).1
      · exact noUB_pure _
    · intro res h
      obtain ⟨r, hr, h⟩ := bind_ok h
      split at h
      · exact (ih _ (b r hr)).2 res h
      · cases h; exact b r hr

/-- `BellmanFordMoore::new` + `distances` for every source and every valid weighted arc list. -/
theorem bfm_noUB (order s : Nat) (arcs : List (Nat × Nat × Int)) (hwf : ArcsWF order arcs) :
    NoUB (bfmNew order s >>= bfmDistances order arcs) := by
  obtain ⟨a, b⟩ := bfmNew_spec order s
  apply noUB_bind a; intro dist hdist
  unfold bfmDistances
  obtain ⟨c, d⟩ := bfmRounds_spec order arcs hwf (order - 1) dist (b dist hdist)
  apply noUB_bind c; intro d1 hd1
  have hl := d d1 hd1
  refine noUB_bind ?_ (fun _ _ => noUB_pure _)
  unfold bfmCheck
  refine (foldlM_inv_mem (fun _ => True) _ _ ?_ false trivial).1
  intro neg i hi _
  have hi' := (mem_forRange hi).2
  refine ⟨?_, fun _ _ => trivial⟩
  apply noUB_bind (noUB_rd hi'); intro x hx
  obtain ⟨hu, hv⟩ := hwf x (rd_mem hx)
  apply noUB_bind (noUB_rd (by rw [hl]; exact hu)); intro _ _
  exact noUB_bind (noUB_rd (by rw [hl]; exact hv)) (fun _ _ => noUB_pure _)

/-! ### `FloydWarshall::distances` -/

theorem wr_inv_spec {α : Type} (site : String) (n : Nat) (d : List α) (i : Nat) (x : α) (hd : d.length = n) (hi : i < n) :
    NoUB (wr site d i x) ∧ ∀ d', wr site d i x = .ok d' → d'.length = n :=
  ⟨noUB_wr (by rw [hd]; exact hi), fun d' h => by rw [wr_length h]; exact hd⟩

/-- `FloydWarshall::distances` on the `order²` matrix `DistanceMatrix::new` built, for every valid arc list. -/
theorem fwDistances_noUB (order : Nat) (arcs : List (Nat × Nat × Int)) (hwf : ArcsWF order arcs) (dist : List Int)
    (hd : dist.length = order * order) : NoUB (fwDistances order arcs dist) := by
  unfold fwDistances
  have h1 := foldlM_inv_mem (fun (d : List Int) => d.length = order * order)
    (fun (d : List Int) (a : Nat × Nat × Int) =>
      wr "floyd_warshall.rs:distances:*dist_ptr.add(u * order + v)" d (a.1 * order + a.2.1) a.2.2) arcs
    (by
      intro d a ha hdl
      obtain ⟨hu, hv⟩ := hwf a ha
      exact wr_inv_spec _ _ d _ _ hdl (mx_cell_lt hu hv)) dist hd
  apply noUB_bind h1.1; intro d1 hd1
  have hl1 := h1.2 d1 hd1
  have h2 := foldlM_inv_mem (fun (d : List Int) => d.length = order * order)
    (fun (d : List Int) i => wr "floyd_warshall.rs:distances:*dist_ptr.add(i * order + i)" d (i * order + i) 0)
    (forRange 0 order)
    (by
      intro d i hi hdl
      have := (mem_forRange hi).2
      exact wr_inv_spec _ _ d _ _ hdl (mx_cell_lt this this)) d1 hl1
  apply noUB_bind h2.1; intro d2 hd2
  have hl2 := h2.2 d2 hd2
  refine (foldlM_inv_mem (fun (d : List Int) => d.length = order * order) _ _ ?_ d2 hl2).1
  intro d i hi hdl
  have hi' := (mem_forRange hi).2
  refine foldlM_inv_mem (fun (d : List Int) => d.length = order * order) _ _ ?_ d hdl
  intro d j hj hdl
  have hj' := (mem_forRange hj).2
  constructor
  · apply noUB_bind (noUB_rd (by rw [hdl]; exact mx_cell_lt hj' hi')); intro a _
    split
    · exact noUB_pure _
    · refine (foldlM_inv_mem (fun (d : List Int) => d.length = order * order) _ _ ?_ d hdl).1
      intro d k hk hdl
      have hk' := (mem_forRange hk).2
      constructor
      · apply noUB_bind (noUB_rd (by rw [hdl]; exact mx_cell_lt hi' hk')); intro _ _
        split
        · exact noUB_pure _
        · apply noUB_bind (noUB_rd (by rw [hdl]; exact mx_cell_lt hj' hk')); intro _ _
          split
          · exact noUB_wr (by rw [hdl]; exact mx_cell_lt hj' hk')
          · exact noUB_pure _
      · intro d' h
        obtain ⟨_, _, h⟩ := bind_ok h
        split at h
        · cases h; exact hdl
        · obtain ⟨_, _, h⟩ := bind_ok h
          split at h
          · rw [wr_length h]; exact hdl
          · cases h; exact hdl
  · intro d' h
    obtain ⟨a, _, h⟩ := bind_ok h
    split at h
    · cases h; exact hdl
    · refine (foldlM_inv_mem (fun (d : List Int) => d.length = order * order) _ _ ?_ d hdl).2 d' h
      intro d k hk hdl
      have hk' := (mem_forRange hk).2
      constructor
      · apply noUB_bind (noUB_rd (by rw [hdl]; exact mx_cell_lt hi' hk')); intro _ _
        split
        · exact noUB_pure _
        · apply noUB_bind (noUB_rd (by rw [hdl]; exact mx_cell_lt hj' hk')); intro _ _
          split
          · exact noUB_wr (by rw [hdl]; exact mx_cell_lt hj' hk')
          · exact noUB_pure _
      · intro d' h
        obtain ⟨_, _, h⟩ := bind_ok h
        split at h
        · cases h; exact hdl
        · obtain ⟨_, _, h⟩ := bind_ok h
          split at h
          · rw [wr_length h]; exact hdl
          · cases h; exact hdl

theorem xoshiroTouch_noUB (state : List Nat) (h : state.length = 4) : NoUB (xoshiroTouch state) := by
  unfold xoshiroTouch
  apply noUB_bind (noUB_chkIdx (by omega)); intro _ _
  apply noUB_bind (noUB_chkIdx (by omega)); intro _ _
  apply noUB_bind (noUB_chkIdx (by omega)); intro _ _
  exact noUB_chkIdx (by omega)

end GraafVerif.Chk
