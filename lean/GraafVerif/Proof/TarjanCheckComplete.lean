import GraafVerif.Proof.TarjanCheck
/-!
# Completeness of the executable SCC-partition checker (no false alarms)

`g.Closed → IsSCCPartition g cs → sccCheck g cs = true`.

The only non-trivial part is that the worklist `closure` finishes within `closureFuel g` steps
and then is closed under out-neighbours.  Potential: `|todo| + Σ_{x ∈ verts, x ∉ seen} (1 + |out x|)`;
popping an already seen vertex lowers it by 1, expanding a new one by 2.
-/
namespace GraafVerif.Tarjan
open GraafVerif

/-- Weight still to be spent on the vertices that are not yet expanded. -/
def restWeight (g : VGraph) (seen : List Nat) : List Nat → Nat
  | [] => 0
  | a :: l => (if seen.contains a then 0 else 1 + (g.out a).length) + restWeight g seen l

theorem contains_cons_of (seen : List Nat) (x a : Nat) :
    (x :: seen).contains a = (decide (a = x) || seen.contains a) := by
  simp

theorem restWeight_cons_seen (g : VGraph) (seen l : List Nat) (x : Nat) :
    restWeight g (x :: seen) l ≤ restWeight g seen l := by
  induction l with
  | nil => simp [restWeight]
  | cons a l ih =>
    simp only [restWeight, contains_cons_of]
    by_cases ha : seen.contains a = true
    · simp only [ha, Bool.or_true, if_true]; omega
    · by_cases hax : a = x
      · simp only [hax, decide_true, Bool.true_or, if_true]; omega
      · simp only [ha, hax, decide_false, Bool.false_or]; omega

theorem restWeight_expand (g : VGraph) (seen l : List Nat) (x : Nat) (hx : x ∈ l)
    (hs : seen.contains x = false) :
    restWeight g (x :: seen) l + (1 + (g.out x).length) ≤ restWeight g seen l := by
  induction l with
  | nil => simp at hx
  | cons a l ih =>
    simp only [restWeight, contains_cons_of]
    by_cases hax : a = x
    · subst hax
      have := restWeight_cons_seen g seen l a
      simp only [hs, decide_true, Bool.true_or, if_true, Bool.false_eq_true, if_false]
      omega
    · have hxl : x ∈ l := by
        rcases List.mem_cons.mp hx with h | h
        · exact absurd h.symm hax
        · exact h
      have ih' := ih hxl
      simp only [hax, decide_false, Bool.false_or]
      omega

theorem restWeight_nil_seen (g : VGraph) (l : List Nat) :
    restWeight g [] l = l.length + (l.map (fun u => (g.out u).length)).sum := by
  induction l with
  | nil => simp [restWeight]
  | cons a l ih =>
    simp only [restWeight, List.contains_nil, Bool.false_eq_true, if_false, List.map_cons, List.sum_cons,
      List.length_cons, ih]
    omega

/-- With enough fuel the worklist empties, and the result contains `seen`, `todo` and is closed. -/
theorem closure_complete (g : VGraph) (hclosed : g.Closed) :
    ∀ (fuel : Nat) (todo seen : List Nat),
      todo.length + restWeight g seen g.verts < fuel →
      (∀ x ∈ todo, x ∈ g.verts) →
      (∀ x ∈ seen, ∀ y ∈ g.out x, y ∈ seen ∨ y ∈ todo) →
      (∀ x ∈ seen, x ∈ closure g fuel todo seen) ∧ (∀ x ∈ todo, x ∈ closure g fuel todo seen) ∧
        closedB g (closure g fuel todo seen) = true := by
  intro fuel
  induction fuel with
  | zero => intro todo seen h; omega
  | succ fuel ih =>
    intro todo seen hfuel hv hinv
    cases todo with
    | nil =>
      simp only [closure]
      refine ⟨fun x hx => hx, by simp, ?_⟩
      simp only [closedB, List.all_eq_true, List.contains_eq_mem, decide_eq_true_eq]
      intro x hx y hy
      rcases hinv x hx y hy with h | h
      · exact h
      · simp at h
    | cons x todo =>
      simp only [closure]
      by_cases hs : seen.contains x = true
      · simp only [hs, if_true]
        have hxs : x ∈ seen := by simpa using hs
        obtain ⟨h1, h2, h3⟩ := ih todo seen (by simp only [List.length_cons] at hfuel; omega)
          (fun z hz => hv z (List.mem_cons_of_mem _ hz))
          (by
            intro a ha y hy
            rcases hinv a ha y hy with h | h
            · exact Or.inl h
            · rcases List.mem_cons.mp h with h | h
              · exact Or.inl (h ▸ hxs)
              · exact Or.inr h)
        refine ⟨h1, ?_, h3⟩
        intro z hz
        rcases List.mem_cons.mp hz with h | h
        · rw [h]; exact h1 x hxs
        · exact h2 z h
      · have hs' : seen.contains x = false := by simpa using hs
        simp only [hs', Bool.false_eq_true, if_false]
        have hxv : x ∈ g.verts := hv x List.mem_cons_self
        have hw := restWeight_expand g seen g.verts x hxv hs'
        obtain ⟨h1, h2, h3⟩ := ih (g.out x ++ todo) (x :: seen)
          (by simp only [List.length_cons, List.length_append] at hfuel ⊢; omega)
          (by
            intro z hz
            rcases List.mem_append.mp hz with h | h
            · exact hclosed x hxv z h
            · exact hv z (List.mem_cons_of_mem _ h))
          (by
            intro a ha y hy
            rcases List.mem_cons.mp ha with h | h
            · subst h; exact Or.inr (List.mem_append_left _ hy)
            · rcases hinv a h y hy with h' | h'
              · exact Or.inl (List.mem_cons_of_mem _ h')
              · rcases List.mem_cons.mp h' with h'' | h''
                · exact Or.inl (h'' ▸ List.mem_cons_self)
                · exact Or.inr (List.mem_append_right _ h''))
        refine ⟨fun z hz => h1 z (List.mem_cons_of_mem _ hz), ?_, h3⟩
        intro z hz
        rcases List.mem_cons.mp hz with h | h
        · rw [h]; exact h1 x List.mem_cons_self
        · exact h2 z (List.mem_append_right _ h)

theorem reachOf_row (g : VGraph) (hclosed : g.Closed) (u : Nat) (hu : u ∈ g.verts) :
    u ∈ reachOf g u ∧ closedB g (reachOf g u) = true := by
  have := closure_complete g hclosed (closureFuel g) [u] []
    (by rw [restWeight_nil_seen]; simp [closureFuel]; omega)
    (by intro x hx; simp at hx; subst hx; exact hu) (by simp)
  exact ⟨this.2.1 u (by simp), this.2.2⟩

theorem reachOf_exact (g : VGraph) (hclosed : g.Closed) (u : Nat) (hu : u ∈ g.verts) (v : Nat) :
    v ∈ reachOf g u ↔ VReach g u v :=
  ⟨reachOf_sound g u v, closed_complete g _ (reachOf_row g hclosed u hu).2 u v (reachOf_row g hclosed u hu).1⟩

theorem disjointB_complete : ∀ cs : List (List Nat),
    cs.Pairwise (fun c d => ∀ x ∈ c, x ∉ d) → disjointB cs = true := by
  intro cs
  induction cs with
  | nil => intro _; rfl
  | cons c cs ih =>
    intro h
    rw [List.pairwise_cons] at h
    simp only [disjointB, Bool.and_eq_true, List.all_eq_true]
    refine ⟨?_, ih h.2⟩
    intro d hd x hx
    have := h.1 d hd x hx
    simpa using this

theorem nodupB_complete : ∀ c : List Nat, c.Nodup → nodupB c = true := by
  intro c
  induction c with
  | nil => intro _; rfl
  | cons x xs ih =>
    intro h
    rw [List.nodup_cons] at h
    simp only [nodupB, Bool.and_eq_true]
    exact ⟨by simpa using h.1, ih h.2⟩

/-- The checker accepts every correct answer: no false alarm is possible on a closed digraph. -/
theorem sccCheck_complete (g : VGraph) (hclosed : g.Closed) (cs : List (List Nat))
    (h : IsSCCPartition g cs) : sccCheck g cs = true := by
  simp only [sccCheck, Bool.and_eq_true]
  refine ⟨⟨⟨⟨⟨⟨?_, ?_⟩, disjointB_complete cs h.disjoint⟩, ?_⟩, ?_⟩, ?_⟩, ?_⟩
  · rw [List.all_eq_true]
    intro c hc
    have := h.nonempty c hc
    cases c with
    | nil => exact absurd rfl this
    | cons _ _ => rfl
  · rw [List.all_eq_true]
    intro c hc
    exact nodupB_complete c (h.nodup c hc)
  · rw [List.all_eq_true]
    intro c hc
    rw [List.all_eq_true]
    intro x hx
    have := (h.cover x).mpr ⟨c, hc, hx⟩
    simpa using this
  · rw [List.all_eq_true]
    intro v hv
    obtain ⟨c, hc, hvc⟩ := (h.cover v).mp hv
    rw [List.any_eq_true]
    exact ⟨c, hc, by simpa using hvc⟩
  · rw [List.all_eq_true]
    intro r hr
    obtain ⟨u, hu, rfl⟩ := List.mem_map.mp hr
    have := reachOf_row g hclosed u hu
    simp only [Bool.and_eq_true, List.contains_eq_mem, decide_eq_true_eq]
    exact this
  · rw [List.all_eq_true]
    intro u hu
    rw [List.all_eq_true]
    intro v hv
    rw [lookup_table (reachOf g) g.verts u hu, lookup_table (reachOf g) g.verts v hv]
    simp only [Option.getD_some, beq_iff_eq]
    rw [Bool.eq_iff_iff, sameBlock_iff, h.scc u hu v hv]
    simp only [Bool.and_eq_true, List.contains_eq_mem, decide_eq_true_eq]
    rw [reachOf_exact g hclosed u hu v, reachOf_exact g hclosed v hv u]

end GraafVerif.Tarjan
