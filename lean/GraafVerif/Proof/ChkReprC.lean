import GraafVerif.Proof.ChkReprB
/-!
# `AdjacencyMap::{out_neighbors, find_partition, union}` — C13, P1 (part C)

Spatial safety of `union` holds for ARBITRARY key vectors (sorted or not): `find_partition`
returns a point of `[0, n1] × [0, n2]`, every worker reads below its chunk's end.
Linearity (every entry `ptr::read` exactly once, so that `set_len(0)` neither leaks nor double
frees) is proved from the monotonicity of the boundaries (`BoundariesOK`).
-/
namespace GraafVerif.Chk

theorem amOutNeighbors_noUB (m : List (Nat × List Nat)) (u : Nat) : NoUB (amOutNeighbors m u) := by
  unfold amOutNeighbors
  apply noUB_bind (noUB_assert _)
  intro _ h
  have := assert_ok h
  cases hl : m.lookup u with
  | none => rw [hl] at this; cases this
  | some x => exact noUB_ok _

/-! ### `find_partition` -/

theorem findPartitionLoop_spec (r : Nat) (lhs rhs : List Nat) :
    ∀ (fuel lo hi : Nat), hi ≤ lhs.length →
      NoUB (findPartitionLoop r lhs rhs fuel lo hi) ∧
      ∀ res, findPartitionLoop r lhs rhs fuel lo hi = .ok res → lo ≤ res.1 ∧ (lo ≤ hi → res.1 ≤ hi) ∧ res.2 = r - res.1 := by
  intro fuel
  induction fuel with
  | zero =>
    intro lo hi _
    unfold findPartitionLoop
    refine ⟨noUB_pure _, ?_⟩
    intro res h; cases h
    exact ⟨Nat.le_refl _, fun h => h, rfl⟩
  | succ fuel ih =>
    intro lo hi hhi
    unfold findPartitionLoop
    split
    · rename_i hlt
      have hmid : (lo + hi) >>> 1 < hi ∧ lo ≤ (lo + hi) >>> 1 := by
        rw [Nat.shiftRight_eq_div_pow]; omega
      have hgt : NoUB (fpProbe r lhs rhs ((lo + hi) >>> 1)) := by
        unfold fpProbe
        split
        · rename_i hj
          apply noUB_bind (noUB_rd (by omega)); intro _ _
          exact noUB_bind (noUB_rd hj) (fun _ _ => noUB_pure _)
        · exact noUB_pure _
      constructor
      · apply noUB_bind hgt
        intro gt _
        split
        · exact (ih lo _ (by omega)).1
        · exact (ih _ hi hhi).1
      · intro res h
        obtain ⟨gt, _, h⟩ := bind_ok h
        split at h
        · obtain ⟨h1, h2, h3⟩ := (ih lo _ (by omega)).2 res h
          exact ⟨h1, fun _ => by have := h2 hmid.2; omega, h3⟩
        · obtain ⟨h1, h2, h3⟩ := (ih _ hi hhi).2 res h
          exact ⟨by omega, fun _ => h2 (by omega), h3⟩
    · refine ⟨noUB_pure _, ?_⟩
      intro res h; cases h
      exact ⟨Nat.le_refl _, fun h => h, rfl⟩

/-- `find_partition(r, lhs, rhs)` for arbitrary vectors and every `r`: no UB; for
`r ≤ n1 + n2` the result is a point `(i, j)` with `i ≤ n1`, `j ≤ n2`, `i + j = r`. -/
theorem findPartition_spec (r : Nat) (lhs rhs : List Nat) :
    NoUB (findPartition r lhs rhs) ∧
    ∀ res, findPartition r lhs rhs = .ok res → r ≤ lhs.length + rhs.length →
      res.1 ≤ lhs.length ∧ res.2 ≤ rhs.length ∧ res.1 + res.2 = r := by
  unfold findPartition
  have hhi : (if r < lhs.length then r else lhs.length) ≤ lhs.length := by split <;> omega
  obtain ⟨h1, h2⟩ := findPartitionLoop_spec r lhs rhs (lhs.length + 1) (r - rhs.length) _ hhi
  refine ⟨h1, ?_⟩
  intro res h hr
  obtain ⟨a, b, c⟩ := h2 res h
  have hle : r - rhs.length ≤ (if r < lhs.length then r else lhs.length) := by split <;> omega
  have hb := b hle
  have : (if r < lhs.length then r else lhs.length) ≤ r := by split <;> omega
  refine ⟨by omega, by omega, by omega⟩

/-! ### the workers of `union` -/

theorem unionChunk_noUB (lhs rhs : List Nat) (iEnd jEnd : Nat) (hi : iEnd ≤ lhs.length) (hj : jEnd ≤ rhs.length) :
    ∀ (fuel i j : Nat) (rl rr : List Nat), NoUB (unionChunk lhs rhs iEnd jEnd fuel i j rl rr) := by
  intro fuel
  induction fuel with
  | zero => intro i j rl rr; unfold unionChunk; exact noUB_pure _
  | succ fuel ih =>
    intro i j rl rr
    unfold unionChunk
    split
    · split
      · rename_i hc
        simp only [Bool.and_eq_true, decide_eq_true_eq] at hc
        apply noUB_bind (noUB_rd (by omega)); intro _ _
        apply noUB_bind (noUB_rd (by omega)); intro _ _
        split
        · exact ih _ _ _ _
        · split
          · exact ih _ _ _ _
          · exact ih _ _ _ _
      · split
        · rename_i hi'
          exact noUB_bind (noUB_rd (by omega)) (fun _ _ => ih _ _ _ _)
        · rename_i hor hand hni
          have hj' : j < jEnd := by
            simp only [Bool.or_eq_true, decide_eq_true_eq] at hor
            omega
          exact noUB_bind (noUB_rd (by omega)) (fun _ _ => ih _ _ _ _)
    · exact noUB_pure _

theorem amBoundaries_spec (lhs rhs : List Nat) (t : Nat) (_ht : 0 < t) :
    NoUB (amBoundaries lhs rhs t) ∧
    ∀ bs, amBoundaries lhs rhs t = .ok bs →
      bs.length = t + 1 ∧ ∀ b ∈ bs, b.1 ≤ lhs.length ∧ b.2 ≤ rhs.length := by
  unfold amBoundaries
  have := mapM_inv (fun k => findPartition (k * (lhs.length + rhs.length) / t) lhs rhs)
    (fun b => b.1 ≤ lhs.length ∧ b.2 ≤ rhs.length) (List.range (t + 1))
    (by
      intro k hk
      rw [List.mem_range] at hk
      obtain ⟨h1, h2⟩ := findPartition_spec (k * (lhs.length + rhs.length) / t) lhs rhs
      refine ⟨h1, ?_⟩
      intro b hb
      have hr : k * (lhs.length + rhs.length) / t ≤ lhs.length + rhs.length := by
        apply Nat.div_le_of_le_mul
        exact Nat.mul_le_mul_right _ (by omega)
      obtain ⟨a, b', _⟩ := h2 b hb hr
      exact ⟨a, b'⟩)
  refine ⟨this.1, ?_⟩
  intro bs h
  obtain ⟨hp, hl⟩ := this.2 bs h
  exact ⟨by simpa using hl, hp⟩

theorem amUnionWorkers_noUB (lhs rhs : List Nat) (bs : List (Nat × Nat)) (t : Nat) (hl : bs.length = t + 1)
    (hb : ∀ b ∈ bs, b.1 ≤ lhs.length ∧ b.2 ≤ rhs.length) : NoUB (amUnionWorkers lhs rhs bs t) := by
  unfold amUnionWorkers
  refine (foldlM_inv_mem (fun _ => True) _ _ ?_ _ trivial).1
  intro acc k hk _
  rw [List.mem_range] at hk
  refine ⟨?_, fun _ _ => trivial⟩
  apply noUB_bind (noUB_rd (by omega)); intro s _
  apply noUB_bind (noUB_rd (by omega)); intro e he
  have hmem : e ∈ bs := by
    unfold rd at he
    split at he
    · rename_i a hget
      cases he
      exact List.mem_of_getElem? hget
    · cases he
  exact unionChunk_noUB lhs rhs e.1 e.2 (hb e hmem).1 (hb e hmem).2 _ _ _ _ _

/-- `AdjacencyMap::union` (everything up to `set_len(0)`) for ARBITRARY key vectors and EVERY
thread count: no unchecked access out of range. -/
theorem amUnionReads_noUB (lhs rhs : List Nat) (t0 : Nat) : NoUB (amUnionReads lhs rhs t0) := by
  unfold amUnionReads
  simp only []
  split
  · exact noUB_pure _
  · apply noUB_bind (noUB_assert _); intro _ ht
    have ht : 0 < min (lhs.length + rhs.length) t0 := by simpa using assert_ok ht
    obtain ⟨h1, h2⟩ := amBoundaries_spec lhs rhs _ ht
    apply noUB_bind h1
    intro bs hbs
    obtain ⟨hl, hb⟩ := h2 bs hbs
    exact amUnionWorkers_noUB lhs rhs bs _ hl hb

end GraafVerif.Chk
