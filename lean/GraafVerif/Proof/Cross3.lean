import GraafVerif.Thm.C19
/-!
# Rooted predecessor vectors: what C19's search does on an ACYCLIC tree (tag `Cross3`)

`isRoot` is the predicate `|_, b| b.is_none()` that `BfsPred::shortest_path` and
`DijkstraPred::shortest_path` hand to `PredecessorTree::search_by`.  `RootPath pred v p` says that
this search, started at `v`, returns `p`.  From C19 (`statement_holds`, used as a black box, plus
the chain lemmas of `Proof/PredTreeFull.lean`) we derive, for an in-range vector:

* the chain of predecessor links from `v` is `p`, ends in a root `r` (`pred[r] = None`), stops
  there (`chain (k+1) = none`) and never repeats a vertex — **the "already visited" `break` of
  `search_by` cannot fire**;
* `search(v, r)` (target = that root) returns the same `p`;
* for EVERY predicate the search from `v` returns `None` iff no vertex of `p` is a target — a
  `None` is never caused by a revisit.
-/
namespace GraafVerif.Cross3
open GraafVerif GraafVerif.PredTree

/-- The predicate `|_, b| b.is_none()`. -/
def isRoot : Nat → Option Nat → Bool := fun _ b => b.isNone

/-- `search_by(v, |_, b| b.is_none())` returns `p`. -/
def RootPath (pred : Pred) (v : Nat) (p : List Nat) : Prop := searchBy pred v isRoot = .ret (some p)

/-- A vertex whose entry is `None` is its own root path. -/
theorem rootPath_of_none {pred : Pred} {v : Nat} (h : pred[v]? = some none) : RootPath pred v [v] := by
  unfold RootPath searchBy searchByFuel
  simp [h, isRoot]

/-- Shape of a root path. -/
structure RootShape (pred : Pred) (v : Nat) (p : List Nat) (k r : Nat) : Prop where
  path : p = chainPath pred v k
  last : chain pred v k = some r
  root : pred[r]? = some none
  stop : chain pred v (k + 1) = none
  distinct : ∀ i j, i < j → j ≤ k → chain pred v i ≠ chain pred v j
  inner : ∀ j, j < k → ∀ y, chain pred v j = some y → ∃ z, pred[y]? = some (some z)
  head : p.head? = some v
  getLast : p.getLast? = some r
  nodup : p.Nodup
  links : ∀ i a b, p[i]? = some a → p[i+1]? = some b → pred[a]? = some (some b)

theorem rootShape {pred : Pred} (hr : InRange pred) {v : Nat} (hv : v < pred.length) {p : List Nat}
    (h : RootPath pred v p) : ∃ k r, RootShape pred v p k r := by
  obtain ⟨_, _, _, _, hb, _⟩ := C19.statement_holds pred v isRoot hr hv
  obtain ⟨k, hp, ⟨r, hrk, htr⟩, hmin, hhead, ⟨r', hlast, _⟩, _, hlinks, hnd⟩ := hb p h
  have hrlt : r < pred.length := chain_lt hr hv k r hrk
  have hroot : pred[r]? = some none := by
    have hget : pred[r]? = some pred[r] := List.getElem?_eq_getElem hrlt
    unfold target isRoot at htr
    rw [hget] at htr
    cases hpr : pred[r] with
    | none => rw [hget, hpr]
    | some z => rw [hpr] at htr; simp at htr
  have hlast' : p.getLast? = some r := by
    have : p = chainPath pred v k := hp
    rw [this]; exact chainPath_last hrk
  refine ⟨k, r, hp, hrk, hroot, ?_, chain_distinct_before_first hrk htr hmin, ?_, hhead, hlast', hnd, hlinks⟩
  · rw [chain, hrk]; simp [hroot]
  · intro j hj y hy
    have hylt : y < pred.length := chain_lt hr hv j y hy
    have hget : pred[y]? = some pred[y] := List.getElem?_eq_getElem hylt
    have hf := hmin j hj y hy
    unfold target isRoot at hf
    rw [hget] at hf
    cases hpy : pred[y] with
    | none => rw [hpy] at hf; simp at hf
    | some z => exact ⟨z, by rw [hget, hpy]⟩

/-- Members of a root path = the vertices of the chain. -/
theorem mem_rootPath_iff {pred : Pred} {v : Nat} {p : List Nat} {k r : Nat}
    (hs : RootShape pred v p k r) (x : Nat) : x ∈ p ↔ ∃ j, chain pred v j = some x := by
  rw [hs.path]
  constructor
  · intro hx
    obtain ⟨i, hi⟩ := List.getElem?_of_mem hx
    rw [chainPath_getElem? hs.last] at hi
    split at hi
    · exact ⟨i, hi⟩
    · cases hi
  · rintro ⟨j, hj⟩
    have hjk : j ≤ k := by
      apply Classical.byContradiction
      intro hnot
      have := chain_none_add hs.stop (j - (k + 1))
      rw [show k + 1 + (j - (k + 1)) = j by omega, hj] at this
      cases this
    apply List.mem_of_getElem? (i := j)
    rw [chainPath_getElem? hs.last, if_pos hjk, hj]

/-- `search(v, r)` with the root as target returns the root path. -/
theorem search_root_eq {pred : Pred} (hr : InRange pred) {v : Nat} (hv : v < pred.length)
    {p : List Nat} {k r : Nat} (hs : RootShape pred v p k r) : search pred v r = .ret (some p) := by
  obtain ⟨_, _, ha, _, hb, _⟩ := C19.statement_holds pred v (fun x _ => x == r) hr hv
  have htr : target pred (fun x _ => x == r) r = true := by simp [target]
  obtain ⟨p', hp'⟩ := ha.mpr ⟨k, r, hs.last, htr⟩
  obtain ⟨k', hpk', ⟨x, hxk', htx⟩, hmin', _⟩ := hb p' hp'
  have hxr : x = r := by simpa [target] using htx
  rw [hxr] at hxk'
  have hkk : k' = k := by
    rcases Nat.lt_trichotomy k' k with hlt | heq | hgt
    · exact absurd (hxk'.trans hs.last.symm) (hs.distinct k' k hlt (Nat.le_refl _))
    · exact heq
    · have := hmin' k hgt r hs.last
      rw [htr] at this; cases this
  rw [C19.search_eq, hp', hpk', hkk, hs.path]
  rfl

/-- For every predicate: `None` iff no vertex of the root path is a target. -/
theorem searchBy_none_iff {pred : Pred} (hr : InRange pred) {v : Nat} (hv : v < pred.length)
    {p : List Nat} {k r : Nat} (hs : RootShape pred v p k r) (isT : Nat → Option Nat → Bool) :
    searchBy pred v isT = .ret none ↔ ∀ x ∈ p, target pred isT x = false := by
  obtain ⟨⟨res, hres⟩, _, ha, _⟩ := C19.statement_holds pred v isT hr hv
  constructor
  · intro hnone x hx
    cases htx : target pred isT x with
    | false => rfl
    | true =>
      obtain ⟨j, hj⟩ := (mem_rootPath_iff hs x).mp hx
      obtain ⟨p', hp'⟩ := ha.mpr ⟨j, x, hj, htx⟩
      rw [hnone] at hp'; cases hp'
  · intro hall
    cases res with
    | none => exact hres
    | some p' =>
      obtain ⟨j, x, hj, htx⟩ := ha.mp ⟨p', hres⟩
      have := hall x ((mem_rootPath_iff hs x).mpr ⟨j, hj⟩)
      rw [htx] at this; cases this

/-- … and `Some` iff some vertex of the root path is a target; the result is then a prefix of
the root path (the chain up to the first target). -/
theorem searchBy_some_prefix {pred : Pred} (hr : InRange pred) {v : Nat} (hv : v < pred.length)
    {p : List Nat} {k r : Nat} (hs : RootShape pred v p k r) (isT : Nat → Option Nat → Bool)
    {q : List Nat} (hq : searchBy pred v isT = .ret (some q)) : q <+: p := by
  obtain ⟨_, _, _, _, hb, _⟩ := C19.statement_holds pred v isT hr hv
  obtain ⟨k', hqk, ⟨x, hxk', _⟩, _⟩ := hb q hq
  have hk'k : k' ≤ k := by
    apply Classical.byContradiction
    intro hnot
    have := chain_none_add hs.stop (k' - (k + 1))
    rw [show k + 1 + (k' - (k + 1)) = k' by omega, hxk'] at this
    cases this
  rw [hqk, hs.path]
  show (List.range (k' + 1)).map _ <+: (List.range (k + 1)).map _
  have : List.range (k' + 1) <+: List.range (k + 1) := by
    refine ⟨(List.range (k - k')).map (k' + 1 + ·), ?_⟩
    rw [← List.range_add]
    congr 1; omega
  obtain ⟨t, ht⟩ := this
  exact ⟨t.map _, by rw [← List.map_append, ht]⟩

end GraafVerif.Cross3
