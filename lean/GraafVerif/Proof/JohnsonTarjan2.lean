import GraafVerif.Proof.JohnsonTarjan
/-!
# The Tarjan model: emitted components are closed under arcs (in emission order) and disjoint

`GI` is the classical bundle of Tarjan invariants (stack ↔ on_stack, stack indices increasing,
indexed = stack ∪ popped, low ≤ index on the stack, every prefix of the emitted components is
closed under out-arcs, components pairwise disjoint).  `connect_post` proves that `connect`
preserves it when the fuel exceeds the number of unindexed vertices (so the recursion is never
cut short).  `Proof/JohnsonTarjan3.lean` derives `TarjanCovers` from it.
-/
set_option linter.unusedVariables false
namespace GraafVerif.Johnson
open GraafVerif

def TState.idxOf (st : TState) (x : Nat) : Nat := (st.index.lookup x).getD 0
def TState.indexed (st : TState) (x : Nat) : Prop := (st.index.lookup x).isSome = true
def PoppedIn (cs : List (List Nat)) (x : Nat) : Prop := ∃ c ∈ cs, x ∈ c
def TState.Popped (st : TState) (x : Nat) : Prop := PoppedIn st.comps x

theorem lookup_cons_eq (x k v : Nat) (l : List (Nat × Nat)) :
    List.lookup x ((k, v) :: l) = if x = k then some v else List.lookup x l := by
  by_cases h : x = k
  · subst h; simp
  · have : (x == k) = false := by simp [h]
    simp [List.lookup_cons, this, h]

/-- All out-neighbours of a finished vertex are indexed, and its low-link is at most the index
of every out-neighbour that is on the stack. -/
def Fin (a : AM) (st : TState) (q : Nat) : Prop :=
  ∀ y ∈ a.out q, st.indexed y ∧ (y ∈ st.stack → st.lowOf q ≤ st.idxOf y)

structure GI (a : AM) (st : TState) : Prop where
  on : ∀ x, x ∈ st.onStack ↔ x ∈ st.stack
  nd : st.stack.Nodup
  ix : ∀ x ∈ st.stack, st.indexed x
  lt : ∀ x k, st.index.lookup x = some k → k < st.i
  ord : List.Pairwise (fun x y => st.idxOf y < st.idxOf x) st.stack
  cov : ∀ x, st.indexed x → x ∈ st.stack ∨ st.Popped x
  dis : ∀ x ∈ st.stack, ¬ st.Popped x
  pix : ∀ x, st.Popped x → st.indexed x
  low : ∀ x ∈ st.stack, st.lowOf x ≤ st.idxOf x
  clp : ∀ pre post, st.comps = pre ++ post → ∀ q, PoppedIn pre q → ∀ y ∈ a.out q, PoppedIn pre y
  disj : ∀ pre c post, st.comps = pre ++ c :: post → ∀ x ∈ c, ¬ PoppedIn pre x

/-! ### `popUntil` on a duplicate-free stack -/

theorem popUntil_exact (u : Nat) (S : List Nat) : ∀ (X on comp : List Nat), u ∉ X →
    (popUntil u (X ++ u :: S) on comp).2.1 = S ∧
    (∀ x, x ∈ (popUntil u (X ++ u :: S) on comp).1 ↔ x ∈ comp ∨ x ∈ X ∨ x = u) ∧
    (∀ x, x ∈ (popUntil u (X ++ u :: S) on comp).2.2 ↔ x ∈ on ∧ x ∉ X ∧ x ≠ u)
  | [], on, comp, _ => by
    have e : ([] : List Nat) ++ u :: S = u :: S := rfl
    rw [e, popUntil_cons, if_pos rfl]
    refine ⟨rfl, ?_, ?_⟩
    · intro x; rw [mem_insertAsc']; simp; constructor
      · rintro (h | h) <;> simp [h]
      · rintro (h | h) <;> simp [h]
    · intro x; simp [List.mem_filter]
  | y :: X, on, comp, hu => by
    have e : (y :: X) ++ u :: S = y :: (X ++ u :: S) := rfl
    have huy : u ≠ y := fun h => hu (by simp [h])
    have huX : u ∉ X := fun h => hu (by simp [h])
    rw [e, popUntil_cons]
    simp only [huy, if_false]
    obtain ⟨h1, h2, h3⟩ := popUntil_exact u S X (on.filter (· != y)) (insertAsc y comp) huX
    refine ⟨h1, ?_, ?_⟩
    · intro x; rw [h2, mem_insertAsc']; simp
      constructor
      · rintro ((h | h) | h | h) <;> simp [h]
      · rintro (h | (h | h) | h) <;> simp [h]
    · intro x; rw [h3]; simp [List.mem_filter]
      constructor
      · rintro ⟨⟨h1, h2⟩, h3, h4⟩; exact ⟨h1, ⟨h2, h3⟩, h4⟩
      · rintro ⟨h1, ⟨h2, h3⟩, h4⟩; exact ⟨⟨h1, h2⟩, h3, h4⟩

/-- The number of vertices of `a` not yet indexed. -/
def unidx (a : AM) (st : TState) : Nat := (a.verts.filter (fun x => (st.index.lookup x).isNone)).length

theorem unidx_mono (a : AM) (st st' : TState)
    (h : ∀ x k, st.index.lookup x = some k → st'.index.lookup x = some k) : unidx a st' ≤ unidx a st := by
  unfold unidx
  have : ∀ (l : List Nat), (l.filter (fun x => (st'.index.lookup x).isNone)).length ≤
      (l.filter (fun x => (st.index.lookup x).isNone)).length := by
    intro l
    induction l with
    | nil => simp
    | cons y l ih =>
      simp only [List.filter_cons]
      cases hy : st.index.lookup y with
      | none =>
        simp only [Option.isNone_none, if_true]
        split
        · simp; exact ih
        · simp; omega
      | some k =>
        rw [h y k hy]
        simpa using ih
  exact this _

theorem unidx_push_lt (a : AM) (st : TState) (u : Nat) (hu : u ∈ a.verts) (hn : st.index.lookup u = none) :
    unidx a (st.push u) < unidx a st := by
  unfold unidx
  have : ∀ (l : List Nat), u ∈ l → (l.filter (fun x => ((st.push u).index.lookup x).isNone)).length <
      (l.filter (fun x => (st.index.lookup x).isNone)).length := by
    intro l
    induction l with
    | nil => intro h; simp at h
    | cons y l ih =>
      intro hul
      have hmono : (l.filter (fun x => ((st.push u).index.lookup x).isNone)).length ≤
          (l.filter (fun x => (st.index.lookup x).isNone)).length := by
        have := unidx_mono ⟨l, a.out⟩ st (st.push u) (by
          intro x k hx
          show List.lookup x ((u, st.i) :: st.index) = some k
          rw [lookup_cons_eq]
          split
          · rename_i e; subst e; rw [hn] at hx; simp at hx
          · exact hx)
        exact this
      simp only [List.filter_cons]
      by_cases hyu : y = u
      · subst hyu
        have h1 : ((st.push y).index.lookup y).isNone = false := by
          show (List.lookup y ((y, st.i) :: st.index)).isNone = false
          rw [lookup_cons_eq]; simp
        simp only [h1, hn, Option.isNone_none, if_true, Bool.false_eq_true, if_false, List.length_cons]
        omega
      · have hul' : u ∈ l := by
          rcases List.mem_cons.1 hul with h | h
          · exact absurd h.symm hyu
          · exact h
        have h1 : ((st.push u).index.lookup y) = st.index.lookup y := by
          show List.lookup y ((u, st.i) :: st.index) = _
          rw [lookup_cons_eq]; simp [hyu]
        rw [h1]
        split
        · simp; exact ih hul'
        · exact ih hul'
  exact this _ hu

/-! ### specification of `connect` and the invariant of its neighbour loop -/

structure CPost (a : AM) (st : TState) (u : Nat) (st' : TState) : Prop where
  gi : GI a st'
  ix : ∀ x k, st.index.lookup x = some k → st'.index.lookup x = some k
  lw : ∀ x, st.indexed x → st'.lowOf x = st.lowOf x
  cmp : ∃ new, st'.comps = st.comps ++ new
  uix : st'.indexed u
  shape : (st'.stack = st.stack) ∨
    (∃ T, st'.stack = T ++ u :: st.stack ∧
      ∀ q ∈ T ++ [u], st.index.lookup q = none ∧ Fin a st' q ∧ st'.lowOf u ≤ st'.lowOf q)

structure LI (a : AM) (st : TState) (u : Nat) (cur : TState) : Prop where
  gi : GI a cur
  ix : ∀ x k, st.index.lookup x = some k → cur.index.lookup x = some k
  lw : ∀ x, st.indexed x → cur.lowOf x = st.lowOf x
  cmp : ∃ new, cur.comps = st.comps ++ new
  uix : cur.index.lookup u = some st.i
  stk : ∃ X, cur.stack = X ++ u :: st.stack ∧
    ∀ q ∈ X, st.index.lookup q = none ∧ q ≠ u ∧ Fin a cur q ∧ cur.lowOf u ≤ cur.lowOf q

/-- What the loop of `connect(u)` has established for an already scanned neighbour `y`. -/
def Scanned (u : Nat) (cur : TState) (y : Nat) : Prop :=
  cur.indexed y ∧ (y ∈ cur.stack → cur.lowOf u ≤ cur.idxOf y)

/-- `cur'` is a later state of the same loop of `connect(u)`. -/
structure Mono (u : Nat) (cur cur' : TState) : Prop where
  mix : ∀ x k, cur.index.lookup x = some k → cur'.index.lookup x = some k
  mlow : cur'.lowOf u ≤ cur.lowOf u
  mlw : ∀ x, cur.indexed x → x ≠ u → cur'.lowOf x = cur.lowOf x
  mstk : ∀ y, cur.indexed y → y ∈ cur'.stack → y ∈ cur.stack

theorem Mono.refl (u : Nat) (cur : TState) : Mono u cur cur :=
  ⟨fun _ _ h => h, Nat.le_refl _, fun _ _ _ => rfl, fun _ _ h => h⟩

theorem indexed_iff {st : TState} {x : Nat} : st.indexed x ↔ ∃ k, st.index.lookup x = some k := by
  unfold TState.indexed
  cases st.index.lookup x <;> simp

theorem Mono.indexed {u : Nat} {cur cur' : TState} (h : Mono u cur cur') {x : Nat} (hx : cur.indexed x) :
    cur'.indexed x := by
  obtain ⟨k, hk⟩ := indexed_iff.1 hx
  exact indexed_iff.2 ⟨k, h.mix x k hk⟩

theorem Mono.idxOf {u : Nat} {cur cur' : TState} (h : Mono u cur cur') {x : Nat} (hx : cur.indexed x) :
    cur'.idxOf x = cur.idxOf x := by
  obtain ⟨k, hk⟩ := indexed_iff.1 hx
  simp [TState.idxOf, hk, h.mix x k hk]

theorem Mono.trans {u : Nat} {c1 c2 c3 : TState} (h1 : Mono u c1 c2) (h2 : Mono u c2 c3) : Mono u c1 c3 :=
  ⟨fun x k h => h2.mix x k (h1.mix x k h), Nat.le_trans h2.mlow h1.mlow,
   fun x hx hxu => by rw [h2.mlw x (h1.indexed hx) hxu, h1.mlw x hx hxu],
   fun y hy hys => h1.mstk y hy (h2.mstk y (h1.indexed hy) hys)⟩

theorem Scanned.mono {u : Nat} {cur cur' : TState} {y : Nat} (h : Scanned u cur y) (hm : Mono u cur cur') :
    Scanned u cur' y := by
  refine ⟨hm.indexed h.1, fun hy => ?_⟩
  have := h.2 (hm.mstk y h.1 hy)
  rw [hm.idxOf h.1]
  exact Nat.le_trans hm.mlow this

theorem Fin.mono {a : AM} {u : Nat} {cur cur' : TState} {q : Nat} (h : Fin a cur q) (hq : cur.indexed q)
    (hqu : q ≠ u) (hm : Mono u cur cur') : Fin a cur' q := by
  intro y hy
  obtain ⟨h1, h2⟩ := h y hy
  refine ⟨hm.indexed h1, fun hys => ?_⟩
  rw [hm.mlw q hq hqu, hm.idxOf h1]
  exact h2 (hm.mstk y h1 hys)

theorem lowOf_update (st : TState) (u val x : Nat) :
    ({ st with low := (u, val) :: st.low } : TState).lowOf x = if x = u then val else st.lowOf x := by
  simp only [TState.lowOf, lookup_cons_eq]
  split <;> simp

theorem GI.lowUpdate {a : AM} {st : TState} (h : GI a st) (u val : Nat) (hv : val ≤ st.lowOf u) :
    GI a { st with low := (u, val) :: st.low } := by
  refine ⟨h.on, h.nd, h.ix, h.lt, h.ord, h.cov, h.dis, h.pix, ?_, h.clp, h.disj⟩
  intro x hx
  rw [lowOf_update]
  split
  · rename_i e; subst e
    exact Nat.le_trans hv (h.low x hx)
  · exact h.low x hx

/-- Hypothesis on the recursive call inside the loop. -/
def RecT (a : AM) (fuel : Nat) (rec : TState → Nat → TState) : Prop :=
  ∀ st v, GI a st → st.index.lookup v = none → v ∈ a.verts → unidx a st < fuel → CPost a st v (rec st v)

theorem mono_lowUpdate (u : Nat) (st : TState) (val : Nat) (hv : val ≤ st.lowOf u) :
    Mono u st { st with low := (u, val) :: st.low } := by
  refine ⟨fun _ _ h => h, ?_, ?_, fun _ _ h => h⟩
  · rw [lowOf_update]; simp [hv]
  · intro x _ hxu; rw [lowOf_update]; simp [hxu]

theorem connectStep_LI (a : AM) (hcl : ∀ u ∈ a.verts, ∀ v ∈ a.out u, v ∈ a.verts) (fuel : Nat)
    (rec : TState → Nat → TState) (hrec : RecT a fuel rec) (st : TState) (u : Nat) (cur : TState) (y : Nat)
    (hu : u ∈ a.verts) (hy : y ∈ a.out u) (hstu : st.index.lookup u = none)
    (hli : LI a st u cur) (hfu : unidx a cur < fuel) :
    LI a st u (connectStep rec u cur y) ∧ Mono u cur (connectStep rec u cur y) ∧
      Scanned u (connectStep rec u cur y) y ∧ unidx a (connectStep rec u cur y) ≤ unidx a cur := by
  obtain ⟨X, hX, hXq⟩ := hli.stk
  have huix : cur.indexed u := indexed_iff.2 ⟨_, hli.uix⟩
  have hstne : ∀ x, st.indexed x → x ≠ u := by
    intro x hx e; subst e
    obtain ⟨k, hk⟩ := indexed_iff.1 hx
    rw [hstu] at hk; simp at hk
  -- LI after lowering `low[u]` in a state `c2` that is `Mono`-later than `cur` with the same stack shape
  unfold connectStep
  cases hlk : cur.index.lookup y with
  | some w =>
    simp only []
    by_cases hon : cur.onStack.contains y = true
    · simp only [hon, if_true]
      have hval : min (cur.lowOf u) w ≤ cur.lowOf u := Nat.min_le_left _ _
      have hm := mono_lowUpdate u cur (min (cur.lowOf u) w) hval
      refine ⟨⟨hli.gi.lowUpdate u _ hval, hli.ix, ?_, hli.cmp, hli.uix, X, hX, ?_⟩, hm, ?_, Nat.le_refl _⟩
      · intro x hx
        rw [lowOf_update]; simp [hstne x hx, hli.lw x hx]
      · intro q hq
        obtain ⟨h1, h2, h3, h4⟩ := hXq q hq
        have hqi : cur.indexed q := hli.gi.ix q (by rw [hX]; simp [hq])
        refine ⟨h1, h2, h3.mono hqi h2 hm, ?_⟩
        rw [hm.mlw q hqi h2]
        exact Nat.le_trans hm.mlow h4
      · refine ⟨indexed_iff.2 ⟨w, hlk⟩, fun _ => ?_⟩
        rw [lowOf_update]
        simp only [if_true]
        have : ({ cur with low := (u, min (cur.lowOf u) w) :: cur.low } : TState).idxOf y = w := by
          simp [TState.idxOf, hlk]
        rw [this]
        exact Nat.min_le_right _ _
    · simp only [hon, Bool.false_eq_true, if_false]
      refine ⟨hli, Mono.refl u cur, ⟨indexed_iff.2 ⟨w, hlk⟩, fun hys => ?_⟩, Nat.le_refl _⟩
      exfalso
      apply hon
      have := (hli.gi.on y).2 hys
      simpa using this
  | none =>
    simp only []
    have hpost := hrec cur y hli.gi hlk (hcl u hu y hy) hfu
    have hm1 : Mono u cur (rec cur y) := by
      refine ⟨hpost.ix, by rw [hpost.lw u huix]; exact Nat.le_refl _, fun x hx _ => hpost.lw x hx, ?_⟩
      intro z hz hzs
      rcases hpost.shape with hs | ⟨T, hs, hT⟩
      · rw [hs] at hzs; exact hzs
      · rw [hs] at hzs
        have : z ∈ T ++ [y] ∨ z ∈ cur.stack := by
          simp at hzs ⊢
          rcases hzs with h | h | h
          · exact Or.inl (Or.inl h)
          · exact Or.inl (Or.inr h)
          · exact Or.inr h
        rcases this with h | h
        · obtain ⟨k, hk⟩ := indexed_iff.1 hz
          rw [(hT z h).1] at hk; simp at hk
        · exact h
    have hval : min ((rec cur y).lowOf u) ((rec cur y).lowOf y) ≤ (rec cur y).lowOf u := Nat.min_le_left _ _
    have hm2 := mono_lowUpdate u (rec cur y) _ hval
    have hm := hm1.trans hm2
    have hlowy : ({ rec cur y with low := (u, min ((rec cur y).lowOf u) ((rec cur y).lowOf y)) :: (rec cur y).low } :
        TState).lowOf u ≤ (rec cur y).lowOf y := by
      rw [lowOf_update]; simp only [if_true]; exact Nat.min_le_right _ _
    obtain ⟨new1, hnew1⟩ := hli.cmp
    obtain ⟨new2, hnew2⟩ := hpost.cmp
    refine ⟨⟨hpost.gi.lowUpdate u _ hval, fun x k h => hpost.ix x k (hli.ix x k h), ?_,
      ⟨new1 ++ new2, by show (rec cur y).comps = _; rw [hnew2, hnew1]; simp⟩,
      hpost.ix u _ hli.uix, ?_⟩, hm, ?_, unidx_mono a cur _ hpost.ix⟩
    · intro x hx
      have hxc : cur.indexed x := by
        obtain ⟨k, hk⟩ := indexed_iff.1 hx
        exact indexed_iff.2 ⟨k, hli.ix x k hk⟩
      rw [hm.mlw x hxc (hstne x hx)]
      exact hli.lw x hx
    · -- the stack shape
      have hold : ∀ q ∈ X, st.index.lookup q = none ∧ q ≠ u ∧
          Fin a ({ rec cur y with low := (u, min ((rec cur y).lowOf u) ((rec cur y).lowOf y)) :: (rec cur y).low } : TState) q ∧
          ({ rec cur y with low := (u, min ((rec cur y).lowOf u) ((rec cur y).lowOf y)) :: (rec cur y).low } : TState).lowOf u ≤
          ({ rec cur y with low := (u, min ((rec cur y).lowOf u) ((rec cur y).lowOf y)) :: (rec cur y).low } : TState).lowOf q := by
        intro q hq
        obtain ⟨h1, h2, h3, h4⟩ := hXq q hq
        have hqi : cur.indexed q := hli.gi.ix q (by rw [hX]; simp [hq])
        refine ⟨h1, h2, h3.mono hqi h2 hm, ?_⟩
        rw [hm.mlw q hqi h2]
        exact Nat.le_trans hm.mlow h4
      rcases hpost.shape with hs | ⟨T, hs, hT⟩
      · exact ⟨X, by show (rec cur y).stack = _; rw [hs, hX], hold⟩
      · refine ⟨T ++ y :: X, by show (rec cur y).stack = _; rw [hs, hX]; simp, ?_⟩
        intro q hq
        have : q ∈ T ++ [y] ∨ q ∈ X := by
          simp at hq ⊢
          rcases hq with h | h | h
          · exact Or.inl (Or.inl h)
          · exact Or.inl (Or.inr h)
          · exact Or.inr h
        rcases this with h | h
        · obtain ⟨h1, h2, h3⟩ := hT q h
          have hqu : q ≠ u := by
            intro e; subst e; rw [hli.uix] at h1; simp at h1
          have hqi : (rec cur y).indexed q := hpost.gi.ix q (by
            rw [hs]
            simp at h ⊢
            rcases h with h | h
            · exact Or.inl h
            · exact Or.inr (Or.inl h))
          refine ⟨?_, hqu, h2.mono hqi hqu hm2, ?_⟩
          · cases hsq : st.index.lookup q with
            | none => rfl
            | some k => rw [hli.ix q k hsq] at h1; simp at h1
          · rw [hm2.mlw q hqi hqu]
            exact Nat.le_trans hlowy h3
        · exact hold q h
    · refine ⟨hpost.uix, fun hys => ?_⟩
      have hys' : y ∈ (rec cur y).stack := hys
      have h1 := hpost.gi.low y hys'
      exact Nat.le_trans hlowy h1

theorem fold_LI (a : AM) (hcl : ∀ u ∈ a.verts, ∀ v ∈ a.out u, v ∈ a.verts) (fuel : Nat)
    (rec : TState → Nat → TState) (hrec : RecT a fuel rec) (st : TState) (u : Nat)
    (hu : u ∈ a.verts) (hstu : st.index.lookup u = none) :
    ∀ (vs : List Nat) (cur : TState), (∀ y ∈ vs, y ∈ a.out u) → LI a st u cur → unidx a cur < fuel →
      LI a st u (vs.foldl (connectStep rec u) cur) ∧ Mono u cur (vs.foldl (connectStep rec u) cur) ∧
      (∀ y ∈ vs, Scanned u (vs.foldl (connectStep rec u) cur) y) ∧
      unidx a (vs.foldl (connectStep rec u) cur) ≤ unidx a cur
  | [], cur, _, hli, _ => ⟨hli, Mono.refl u cur, by simp, Nat.le_refl _⟩
  | y :: vs, cur, hvs, hli, hfu => by
    obtain ⟨h1, h2, h3, h4⟩ := connectStep_LI a hcl fuel rec hrec st u cur y hu (hvs y (by simp)) hstu hli hfu
    obtain ⟨i1, i2, i3, i4⟩ := fold_LI a hcl fuel rec hrec st u hu hstu vs (connectStep rec u cur y)
      (fun z hz => hvs z (by simp [hz])) h1 (by omega)
    simp only [List.foldl_cons]
    refine ⟨i1, h2.trans i2, ?_, by omega⟩
    intro z hz
    rcases List.mem_cons.1 hz with rfl | hz
    · exact h3.mono i2
    · exact i3 z hz

theorem LI.init (a : AM) (st : TState) (u : Nat) (h : GI a st) (hstu : st.index.lookup u = none) :
    LI a st u (st.push u) := by
  have hus : u ∉ st.stack := by
    intro hm
    obtain ⟨k, hk⟩ := indexed_iff.1 (h.ix u hm)
    rw [hstu] at hk; simp at hk
  have hlk : ∀ x, (st.push u).index.lookup x = if x = u then some st.i else st.index.lookup x := by
    intro x; show List.lookup x ((u, st.i) :: st.index) = _; rw [lookup_cons_eq]
  have hidx : ∀ x, x ≠ u → (st.push u).idxOf x = st.idxOf x := by
    intro x hx; simp [TState.idxOf, hlk, hx]
  have hidxu : (st.push u).idxOf u = st.i := by simp [TState.idxOf, hlk]
  have hlow : ∀ x, (st.push u).lowOf x = if x = u then st.i else st.lowOf x := by
    intro x
    show ((List.lookup x ((u, st.i) :: st.low)).getD 0) = _
    rw [lookup_cons_eq]; split <;> simp [TState.lowOf]
  have hne : ∀ x ∈ st.stack, x ≠ u := fun x hx e => hus (e ▸ hx)
  refine ⟨⟨?_, ?_, ?_, ?_, ?_, ?_, ?_, ?_, ?_, h.clp, h.disj⟩, ?_, ?_, ⟨[], by simp [TState.push]⟩, ?_,
    ⟨[], rfl, by simp⟩⟩
  · intro x
    show x ∈ u :: st.onStack ↔ x ∈ u :: st.stack
    simp [h.on x]
  · show (u :: st.stack).Nodup
    exact List.nodup_cons.2 ⟨hus, h.nd⟩
  · intro x hx
    apply indexed_iff.2
    rw [hlk]
    split
    · exact ⟨_, rfl⟩
    · have : x ∈ st.stack := by
        rcases List.mem_cons.1 hx with e | hx
        · rename_i hne'; exact absurd e hne'
        · exact hx
      exact indexed_iff.1 (h.ix x this)
  · intro x k hk
    rw [hlk] at hk
    show k < st.i + 1
    split at hk
    · simp at hk; omega
    · have := h.lt x k hk; omega
  · show List.Pairwise _ (u :: st.stack)
    refine List.pairwise_cons.2 ⟨?_, ?_⟩
    · intro y hy
      rw [hidx y (hne y hy), hidxu]
      obtain ⟨k, hk⟩ := indexed_iff.1 (h.ix y hy)
      have := h.lt y k hk
      simp [TState.idxOf, hk]; exact this
    · refine List.Pairwise.imp_of_mem ?_ h.ord
      intro x y hx hy hr
      rw [hidx x (hne x hx), hidx y (hne y hy)]
      exact hr
  · intro x hx
    by_cases hxu : x = u
    · left; show x ∈ u :: st.stack; simp [hxu]
    · have : st.indexed x := by
        obtain ⟨k, hk⟩ := indexed_iff.1 hx
        rw [hlk] at hk; simp [hxu] at hk
        exact indexed_iff.2 ⟨k, hk⟩
      rcases h.cov x this with h1 | h1
      · left; show x ∈ u :: st.stack; simp [h1]
      · right; exact h1
  · intro x hx hp
    rcases List.mem_cons.1 hx with e | hx
    · subst e
      obtain ⟨k, hk⟩ := indexed_iff.1 (h.pix x hp)
      rw [hstu] at hk; simp at hk
    · exact h.dis x hx hp
  · intro x hp
    obtain ⟨k, hk⟩ := indexed_iff.1 (h.pix x hp)
    apply indexed_iff.2
    rw [hlk]
    split
    · exact ⟨_, rfl⟩
    · exact ⟨k, hk⟩
  · intro x hx
    rcases List.mem_cons.1 hx with e | hx
    · subst e; rw [hlow, hidxu]; simp
    · rw [hlow, hidx x (hne x hx)]; simp [hne x hx]; exact h.low x hx
  · intro x k hk
    rw [hlk]
    split
    · rename_i e; subst e; rw [hstu] at hk; simp at hk
    · exact hk
  · intro x hx
    have hxu : x ≠ u := by
      intro e; subst e
      obtain ⟨k, hk⟩ := indexed_iff.1 hx
      rw [hstu] at hk; simp at hk
    rw [hlow]; simp [hxu]
  · rw [hlk]; simp

theorem append_singleton_eq_append {α : Type} {l : List α} {z : α} {pre post : List α}
    (h : l ++ [z] = pre ++ post) :
    (post = [] ∧ pre = l ++ [z]) ∨ ∃ post', post = post' ++ [z] ∧ l = pre ++ post' := by
  rcases List.eq_nil_or_concat post with rfl | ⟨post', b, rfl⟩
  · left; simp at h; exact ⟨rfl, h.symm⟩
  · right
    have h' : l ++ [z] = (pre ++ post') ++ [b] := by simpa using h
    have := List.append_inj' h' rfl
    simp at this
    exact ⟨post', by simp [this.2], this.1⟩

theorem connectFinish_post (a : AM) (st : TState) (u : Nat) (fin : TState)
    (hstu : st.index.lookup u = none) (hli : LI a st u fin) (hsc : ∀ y ∈ a.out u, Scanned u fin y) :
    CPost a st u (connectFinish u fin) := by
  obtain ⟨X, hX, hXq⟩ := hli.stk
  have hfinu : Fin a fin u := hsc
  have huix : fin.indexed u := indexed_iff.2 ⟨_, hli.uix⟩
  have hidxu : fin.idxOf u = st.i := by simp [TState.idxOf, hli.uix]
  unfold connectFinish
  split
  · -- a component is popped
    rename_i heq
    have hlowu : fin.lowOf u = fin.idxOf u := by
      simp only [TState.lowOf, TState.idxOf, heq]
    have hnd := hli.gi.nd
    rw [hX] at hnd
    have hndA := List.nodup_append.1 hnd
    have huX : u ∉ X := fun hm => hndA.2.2 u hm u (by simp) rfl
    have hndS : (u :: st.stack).Nodup := hndA.2.1
    have huS : u ∉ st.stack := (List.nodup_cons.1 hndS).1
    have hXS : ∀ x ∈ X, x ∉ st.stack := fun x hx hs => hndA.2.2 x hx x (by simp [hs]) rfl
    obtain ⟨p1, p2, p3⟩ := popUntil_exact u st.stack X fin.onStack [] huX
    rw [← hX] at p1 p2 p3
    simp only []
    have hQ : ∀ x, x ∈ (popUntil u fin.stack fin.onStack []).1 ↔ x ∈ X ∨ x = u := by
      intro x; rw [p2]; simp
    have hQstk : ∀ x, (x ∈ X ∨ x = u) → x ∈ fin.stack := by
      intro x hx; rw [hX]; rcases hx with h | h <;> simp [h]
    have hfinQ : ∀ q, (q ∈ X ∨ q = u) → Fin a fin q ∧ fin.lowOf u ≤ fin.lowOf q := by
      intro q hq
      rcases hq with h | h
      · exact ⟨(hXq q h).2.2.1, (hXq q h).2.2.2⟩
      · subst h; exact ⟨hfinu, Nat.le_refl _⟩
    have hpop : ∀ x, PoppedIn (fin.comps ++ [(popUntil u fin.stack fin.onStack []).1]) x ↔
        fin.Popped x ∨ x ∈ X ∨ x = u := by
      intro x
      constructor
      · rintro ⟨c, hc, hxc⟩
        rcases List.mem_append.1 hc with hc | hc
        · exact Or.inl ⟨c, hc, hxc⟩
        · simp at hc; subst hc; exact Or.inr ((hQ x).1 hxc)
      · rintro (⟨c, hc, hxc⟩ | h)
        · exact ⟨c, by simp [hc], hxc⟩
        · exact ⟨_, by simp, (hQ x).2 h⟩
    -- closure of the whole new component list
    have hclosed : ∀ q, PoppedIn (fin.comps ++ [(popUntil u fin.stack fin.onStack []).1]) q →
        ∀ y ∈ a.out q, PoppedIn (fin.comps ++ [(popUntil u fin.stack fin.onStack []).1]) y := by
      intro q hq y hy
      rcases (hpop q).1 hq with hq | hq
      · exact (hpop y).2 (Or.inl (hli.gi.clp fin.comps [] (by simp) q hq y hy))
      · obtain ⟨hfq, hlq⟩ := hfinQ q hq
        obtain ⟨hyi, hyl⟩ := hfq y hy
        rcases hli.gi.cov y hyi with hys | hyp
        · have hys' := hys
          rw [hX] at hys'
          rcases List.mem_append.1 hys' with h | h
          · exact (hpop y).2 (Or.inr (Or.inl h))
          · rcases List.mem_cons.1 h with h | h
            · exact (hpop y).2 (Or.inr (Or.inr h))
            · -- `y` below `u` on the stack: impossible, `low[u] = index[u]`
              exfalso
              have h1 := hyl hys
              have hord := hli.gi.ord
              rw [hX] at hord
              have h2 := (List.pairwise_append.1 hord).2.1
              have h3 := (List.pairwise_cons.1 h2).1 y h
              omega
        · exact (hpop y).2 (Or.inl hyp)
    obtain ⟨new1, hnew1⟩ := hli.cmp
    refine ⟨⟨?_, ?_, ?_, hli.gi.lt, ?_, ?_, ?_, ?_, ?_, ?_, ?_⟩, hli.ix, hli.lw,
      ⟨new1 ++ [(popUntil u fin.stack fin.onStack []).1], by simp [hnew1]⟩, huix, Or.inl p1⟩
    · intro x
      show x ∈ (popUntil u fin.stack fin.onStack []).2.2 ↔ x ∈ (popUntil u fin.stack fin.onStack []).2.1
      rw [p3, p1, hli.gi.on x, hX]
      constructor
      · rintro ⟨h1, h2, h3⟩
        rcases List.mem_append.1 h1 with h | h
        · exact absurd h h2
        · rcases List.mem_cons.1 h with h | h
          · exact absurd h h3
          · exact h
      · intro h
        exact ⟨by simp [h], fun hx => hXS x hx h, fun e => huS (e ▸ h)⟩
    · show (popUntil u fin.stack fin.onStack []).2.1.Nodup
      rw [p1]; exact (List.nodup_cons.1 hndS).2
    · intro x hx
      have hx' : x ∈ st.stack := by rw [← p1]; exact hx
      exact hli.gi.ix x (by rw [hX]; simp [hx'])
    · show List.Pairwise _ (popUntil u fin.stack fin.onStack []).2.1
      rw [p1]
      have hord := hli.gi.ord
      rw [hX] at hord
      exact (List.pairwise_cons.1 (List.pairwise_append.1 hord).2.1).2
    · intro x hx
      rcases hli.gi.cov x hx with h | h
      · rw [hX] at h
        rcases List.mem_append.1 h with h | h
        · exact Or.inr ((hpop x).2 (Or.inr (Or.inl h)))
        · rcases List.mem_cons.1 h with h | h
          · exact Or.inr ((hpop x).2 (Or.inr (Or.inr h)))
          · left; show x ∈ (popUntil u fin.stack fin.onStack []).2.1; rw [p1]; exact h
      · exact Or.inr ((hpop x).2 (Or.inl h))
    · intro x hx hp
      have hx' : x ∈ st.stack := by rw [← p1]; exact hx
      rcases (hpop x).1 hp with h | h | h
      · exact hli.gi.dis x (by rw [hX]; simp [hx']) h
      · exact hXS x h hx'
      · exact huS (h ▸ hx')
    · intro x hp
      rcases (hpop x).1 hp with h | h
      · exact hli.gi.pix x h
      · exact hli.gi.ix x (hQstk x h)
    · intro x hx
      have hx' : x ∈ st.stack := by rw [← p1]; exact hx
      exact hli.gi.low x (by rw [hX]; simp [hx'])
    · intro pre post hpp q hq y hy
      rcases append_singleton_eq_append hpp with ⟨_, rfl⟩ | ⟨post', _, hfc⟩
      · exact hclosed q hq y hy
      · exact hli.gi.clp pre post' hfc q hq y hy
    · intro pre c post hpp x hx hp
      have hpp' : fin.comps ++ [(popUntil u fin.stack fin.onStack []).1] = (pre ++ [c]) ++ post := by
        simpa using hpp
      rcases append_singleton_eq_append hpp' with ⟨_, hwhole⟩ | ⟨post', _, hfc⟩
      · have := List.append_inj' hwhole rfl
        simp at this
        obtain ⟨h1, h2⟩ := this
        subst h1
        rw [h2] at hx
        have hxs := hQstk x ((hQ x).1 hx)
        exact hli.gi.dis x hxs hp
      · exact hli.gi.disj pre c post' (by simpa using hfc) x hx hp
  · -- nothing is popped
    refine ⟨hli.gi, hli.ix, hli.lw, hli.cmp, huix, Or.inr ⟨X, hX, ?_⟩⟩
    intro q hq
    rcases List.mem_append.1 hq with h | h
    · exact ⟨(hXq q h).1, (hXq q h).2.2.1, (hXq q h).2.2.2⟩
    · simp at h; subst h
      exact ⟨hstu, hfinu, Nat.le_refl _⟩

/-- `connect` with enough fuel meets its specification. -/
theorem connect_post (a : AM) (hcl : ∀ u ∈ a.verts, ∀ v ∈ a.out u, v ∈ a.verts) :
    ∀ fuel, RecT a fuel (connect a fuel)
  | 0 => by intro st v _ _ _ h; omega
  | fuel+1 => by
    intro st u hgi hstu hu hfu
    rw [connect_succ]
    have h0 := LI.init a st u hgi hstu
    have hlt := unidx_push_lt a st u hu hstu
    obtain ⟨h1, _, h3, _⟩ := fold_LI a hcl fuel (connect a fuel) (connect_post a hcl fuel) st u hu hstu
      (a.out u) (st.push u) (fun _ h => h) h0 (by omega)
    exact connectFinish_post a st u _ hstu h1 h3

end GraafVerif.Johnson
