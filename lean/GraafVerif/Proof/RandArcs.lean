import GraafVerif.Proof.RandPairs
import GraafVerif.Spec.Rand
/-! Arcs-level validity: what the arc lists produced by the generators look like, for every stream. -/
namespace GraafVerif.Rand

/-- every arc joins two distinct vertices of `0..n` -/
def SimpleArcs (n : Nat) (arcs : List (Nat × Nat)) : Prop := ∀ a ∈ arcs, a.1 < n ∧ a.2 < n ∧ a.1 ≠ a.2

theorem Realizes.simple {d : View} {n : Nat} {arcs : List (Nat × Nat)}
    (h : Realizes d n arcs) (hs : SimpleArcs n arcs) : IsSimpleOn n d :=
  ⟨h.1, h.2.1, fun u v huv => hs (u, v) ((h.2.2 u v).1 huv)⟩

/-! ### tournaments -/

theorem Orients.simple {n : Nat} {arcs : List (Nat × Nat)} (h : Orients arcs (pairs n)) : SimpleArcs n arcs := by
  intro a ha
  rcases h.mem_or a ha with hm | hm
  · have := (mem_pairs n a.1 a.2).1 hm; omega
  · have := (mem_pairs n a.2 a.1).1 hm; omega

theorem Orients.exactly_one_arc {n : Nat} {arcs : List (Nat × Nat)} (h : Orients arcs (pairs n))
    (u v : Nat) (hu : u < n) (hv : v < n) (huv : u ≠ v) : (u, v) ∈ arcs ↔ (v, u) ∉ arcs := by
  rcases Nat.lt_or_gt_of_ne huv with hlt | hlt
  · have hp : (u, v) ∈ pairs n := (mem_pairs n u v).2 ⟨hlt, hv⟩
    rcases h.exactly_one (pairs_nodup n) (pairs_lt n) (u, v) hp with ⟨h1, h2⟩ | ⟨h1, h2⟩
    · exact ⟨fun _ => h2, fun _ => h1⟩
    · exact ⟨fun x => absurd x h2, fun x => absurd h1 x⟩
  · have hp : (v, u) ∈ pairs n := (mem_pairs n v u).2 ⟨hlt, hu⟩
    rcases h.exactly_one (pairs_nodup n) (pairs_lt n) (v, u) hp with ⟨h1, h2⟩ | ⟨h1, h2⟩
    · exact ⟨fun x => absurd x h2, fun x => absurd h1 x⟩
    · exact ⟨fun _ => h2, fun _ => h1⟩

theorem Realizes.tournament {d : View} {n : Nat} {arcs : List (Nat × Nat)}
    (h : Realizes d n arcs) (ho : Orients arcs (pairs n)) : IsTournament n d := by
  refine ⟨h.simple ho.simple, fun u v hu hv huv => ?_⟩
  rw [h.2.2 u v, ho.exactly_one_arc u v hu hv huv]
  rw [← h.2.2 v u]; simp

theorem tournamentArcs_orients (s : Stream) (n : Nat) : Orients (tournamentArcs s n) (pairs n) :=
  orients_zipIdx_orient s (pairs n) 0

/-- for every thread count: the concatenated worker programs orient `pairs n` -/
theorem tournamentProgs_orients (streams : Nat → Stream) (n t : Nat) (hn : 0 < n) (ht : 0 < t) :
    Orients (tournamentProgs streams n t).flatten (pairs n) := by
  rw [← workerPairs_tile n t hn ht]
  unfold tournamentProgs
  rw [← List.flatMap_def]
  exact Orients.flatMap _ _ _ fun rk _ => orients_zipIdx_orient _ _ 0

/-! ### recursive trees -/

theorem mem_rrtParents (s : Stream) (n u v : Nat) :
    (u, v) ∈ rrtParents s n ↔ 1 ≤ u ∧ u < n ∧ v = (s (u - 1)).toNat % u := by
  simp only [rrtParents, List.mem_map, List.mem_range'_1, Prod.mk.injEq]
  constructor
  · rintro ⟨a, ha, rfl, rfl⟩; exact ⟨ha.1, by omega, rfl⟩
  · rintro ⟨h1, h2, rfl⟩; exact ⟨u, by omega, rfl, rfl⟩

theorem rrtParents_simple (s : Stream) (n : Nat) : SimpleArcs n (rrtParents s n) := by
  intro a ha
  have := (mem_rrtParents s n a.1 a.2).1 ha
  have hlt : (s (a.1 - 1)).toNat % a.1 < a.1 := Nat.mod_lt _ (by omega)
  omega

theorem Realizes.recursiveTree {d : View} {n : Nat} {s : Stream}
    (h : Realizes d n (rrtParents s n)) : IsRecursiveTree n d := by
  refine ⟨h.simple (rrtParents_simple s n), fun v => ?_, fun u hu hun => ?_⟩
  · cases hv : d.has 0 v with
    | false => rfl
    | true => have := (mem_rrtParents s n 0 v).1 ((h.2.2 0 v).1 hv); omega
  · refine ⟨(s (u - 1)).toNat % u, Nat.mod_lt _ (by omega), fun v => ?_⟩
    rw [h.2.2 u v, mem_rrtParents]
    exact ⟨fun x => x.2.2, fun x => ⟨hu, hun, x⟩⟩

/-! ### Erdős–Rényi rows -/

theorem mem_erRow (s : Stream) (p : F64) (base : Nat) (cands : List Nat) (v : Nat) :
    v ∈ erRow s p base cands → v ∈ cands := by
  unfold erRow
  simp only [List.mem_map, List.mem_filter]
  rintro ⟨⟨x, i⟩, ⟨hm, _⟩, rfl⟩
  exact (List.mem_zipIdx hm).2.2 ▸ List.getElem_mem _

theorem f64lt_zero (w : UInt64) : f64lt w F64.zero = false := by
  simp only [f64lt, F64.zero, decide_eq_false_iff_not, Int.not_lt]
  exact Int.mul_nonneg (Int.natCast_nonneg _) (by decide)

theorem mant_lt (w : UInt64) : mant w < 2^52 := by
  unfold mant
  have : (w &&& 0xFFFFFFFFFFFFF).toNat = w.toNat &&& 0xFFFFFFFFFFFFF := by simp
  rw [this]
  exact Nat.lt_of_le_of_lt Nat.and_le_right (by decide)

theorem f64lt_one (w : UInt64) : f64lt w F64.one = true := by
  simp only [f64lt, F64.one, decide_eq_true_eq]
  have h := mant_lt w
  have : ((mant w : Nat) : Int) < 2^52 := by exact_mod_cast h
  have h2 : (2:Int)^1074 = 2^52 * 2^1022 := by rw [← Int.pow_add]
  rw [h2]
  exact Int.mul_lt_mul_of_pos_right this (Int.pow_pos (by decide))

theorem erRow_zero (s : Stream) (base : Nat) (cands : List Nat) : erRow s F64.zero base cands = [] := by
  unfold erRow
  simp [f64lt_zero]

theorem erRow_one (s : Stream) (base : Nat) (cands : List Nat) : erRow s F64.one base cands = cands := by
  unfold erRow
  have : (List.filter (fun vi : Nat × Nat => f64lt (s vi.2) F64.one) (cands.zipIdx base)) = cands.zipIdx base :=
    List.filter_eq_self.2 fun a _ => f64lt_one _
  rw [this]
  exact List.zipIdx_map_fst base cands

theorem mem_othersChain (n u v : Nat) (hu : u < n) : v ∈ othersChain n u ↔ v < n ∧ v ≠ u := by
  simp only [othersChain, List.mem_append, List.mem_range, List.mem_range'_1]; omega

theorem mem_othersFilter (n u v : Nat) : v ∈ othersFilter n u ↔ v < n ∧ v ≠ u := by
  simp only [othersFilter, List.mem_filter, List.mem_range, bne_iff_ne, ne_eq]
  constructor
  · rintro ⟨h1, h2⟩; exact ⟨h1, fun e => h2 e.symm⟩
  · rintro ⟨h1, h2⟩; exact ⟨h1, fun e => h2 e.symm⟩

/-- candidates lists of the sequential and threaded generators -/
def GoodCands (cands : Nat → Nat → List Nat) : Prop :=
  ∀ n u v, u < n → (v ∈ cands n u ↔ v < n ∧ v ≠ u)

theorem goodCands_chain : GoodCands othersChain := fun n u v hu => mem_othersChain n u v hu
theorem goodCands_filter : GoodCands othersFilter := fun n u v _ => mem_othersFilter n u v

theorem mem_erArcs (s : Stream) (p : F64) (n : Nat) (cands : Nat → Nat → List Nat) (u v : Nat) :
    (u, v) ∈ erArcs s p n cands ↔ u < n ∧ v ∈ erRow s p (u * (n - 1)) (cands n u) := by
  simp only [erArcs, List.mem_flatMap, List.mem_range, List.mem_map, Prod.mk.injEq]
  constructor
  · rintro ⟨a, ha, b, hb, rfl, rfl⟩; exact ⟨ha, hb⟩
  · rintro ⟨h1, h2⟩; exact ⟨u, h1, v, h2, rfl, rfl⟩

theorem erArcs_simple (s : Stream) (p : F64) (n : Nat) {cands : Nat → Nat → List Nat} (hc : GoodCands cands) :
    SimpleArcs n (erArcs s p n cands) := by
  intro a ha
  have := (mem_erArcs s p n cands a.1 a.2).1 ha
  have h2 := (hc n a.1 a.2 this.1).1 (mem_erRow _ _ _ _ _ this.2)
  exact ⟨this.1, h2.1, fun e => h2.2 e.symm⟩

theorem erArcs_zero (s : Stream) (n : Nat) (cands : Nat → Nat → List Nat) (a : Nat × Nat) :
    a ∉ erArcs s F64.zero n cands := by
  intro ha
  have := (mem_erArcs s F64.zero n cands a.1 a.2).1 ha
  rw [erRow_zero] at this; simp at this

theorem erArcs_one (s : Stream) (n : Nat) {cands : Nat → Nat → List Nat} (hc : GoodCands cands) (u v : Nat)
    (hu : u < n) (hv : v < n) (huv : u ≠ v) : (u, v) ∈ erArcs s F64.one n cands := by
  rw [mem_erArcs, erRow_one]
  exact ⟨hu, (hc n u v hu).2 ⟨hv, fun e => huv e.symm⟩⟩

end GraafVerif.Rand
