import GraafVerif.Proof.ComposeRel
import GraafVerif.Proof.ComposeDfs
import GraafVerif.Thm.C03
import GraafVerif.Thm.C04
import GraafVerif.Thm.C05
import GraafVerif.Thm.C05Dijkstra
import GraafVerif.Thm.C06
import GraafVerif.Thm.C07
import GraafVerif.Thm.C08
import GraafVerif.Thm.C09
import GraafVerif.Thm.C10
/-!
# Compose — the algorithm statements (C03 … C10) over a bare arc relation

For each algorithm property `Cxx` the predicate `…Holds A n S g` below is the conclusion of
`Cxx`'s `Statement`, word for word, except that every declarative notion (`ReachFrom`,
`IsHopDist`, `IsWalk`, `IsMinDist`, …) is the RELATIONAL one of `Proof/ComposeRel.lean` over a
given arc relation `A` (resp. weighted relation `W`) and every `g.n` is a given order `n`.
The `Graph` / `WGraph` argument `g` is used ONLY to name the outputs of the algorithm model
(`bfs g S`, `dijkstraDist g S`, …), never on the specification side.

`…_of` transports `Cxx`'s theorem along `∀ u v, g.A u v ↔ A u v`: whatever `Graph` an algorithm
is run on, if its arc relation is `A` then the outputs satisfy the property w.r.t. `A`.
-/
namespace GraafVerif.Compose
open GraafVerif

/-! ## C04 — BFS -/

/-- C04's conclusions (`C04.Holds`) over the arc relation `A` and the order `n`. -/
def BfsHolds (A : Rel) (n : Nat) (S : List Nat) (g : Graph) : Prop :=
    -- Bfs: each reachable vertex exactly once, no other vertex, non-decreasing hop distance
    (∃ out, Bfs.bfs g S = .ok out ∧ out.Nodup ∧ (∀ v, v ∈ out ↔ RReachFrom A S v) ∧
      out.Pairwise (fun u v => ∀ du dv, RIsHopDist A S u du → RIsHopDist A S v dv → du ≤ dv)) ∧
    -- BfsDist: the same vertices in the same order, each paired with its exact hop distance
    (∃ out, Bfs.bfsDist g S = .ok out ∧ Bfs.bfs g S = .ok (out.map (·.1)) ∧
      ∀ p ∈ out, RIsHopDist A S p.1 p.2) ∧
    -- distances(): the full hop-distance vector, usize::MAX exactly at the unreachable vertices
    (∀ inf, n ≤ inf → ∃ d, Bfs.distances g S inf = .ok d ∧ d.length = n ∧
      (∀ v k, RIsHopDist A S v k → d[v]? = some k) ∧
      (∀ v, v < n → (d[v]? = some inf ↔ ¬ RReachFrom A S v)))

theorem bfsHolds_of {g : Graph} {A : Rel} (hA : ∀ u v, g.A u v ↔ A u v) {S : List Nat}
    (hg : g.WF) (hS : ∀ s ∈ S, s < g.n) (hnd : S.Nodup) : BfsHolds A g.n S g := by
  obtain rfl : g.A = A := rel_ext hA
  have h := C04.c04 g S hg hS hnd
  unfold BfsHolds
  rw [← reachFrom_eq g, ← isHopDist_eq g]
  exact h

/-! ## C05 (BFS half) — predecessor tree, shortest path, cycles -/

/-- A vertex list that is an elementary cycle of `A`. -/
def RIsElemCycle (A : Rel) (c : List Nat) : Prop :=
  c ≠ [] ∧ c.Nodup ∧ RIsWalk A c ∧ ∃ a z, c.head? = some a ∧ c.getLast? = some z ∧ A z a

theorem isElemCycle_eq (g : Graph) : Bfs.IsElemCycle g = RIsElemCycle g.A := by
  funext c; simp only [Bfs.IsElemCycle, RIsElemCycle, isWalk_eq]

/-- `C05.Holds` over the arc relation `A` and the order `n`. -/
def BfsPredHolds (A : Rel) (n : Nat) (S : List Nat) (g : Graph) : Prop :=
    (∃ pred, Bfs.predecessors g S = .ok pred ∧ pred.length = n ∧
      (∀ s ∈ S, pred[s]? = some none) ∧
      (∀ v, v < n → ¬ RReachFrom A S v → pred[v]? = some none) ∧
      (∀ v, RReachFrom A S v → v ∉ S →
        ∃ u d, pred[v]? = some (some u) ∧ A u v ∧ RIsHopDist A S u d ∧ RIsHopDist A S v (d + 1)) ∧
      (∀ v d, RIsHopDist A S v d →
        ∃ cs, PredTree.searchBy pred v (fun _ b => b.isNone) = .ret (some cs) ∧ cs.length = d + 1 ∧
          RIsWalk A cs.reverse ∧ (∃ s ∈ S, cs.getLast? = some s) ∧ cs.head? = some v)) ∧
    (∀ isT : Nat → Bool, ∃ r, Bfs.shortestPath g S isT = .ok r ∧
      (r = none ↔ ¬ ∃ v, RReachFrom A S v ∧ isT v = true) ∧
      (∀ p, r = some p → ∃ s t, p.head? = some s ∧ p.getLast? = some t ∧ s ∈ S ∧ isT t = true ∧
        RIsWalk A p ∧ RIsHopDist A S t (p.length - 1) ∧
        ∀ t' d', isT t' = true → RIsHopDist A S t' d' → p.length - 1 ≤ d')) ∧
    (∃ cs, Bfs.cycles g S = .ok cs ∧ ∀ c ∈ cs, RIsElemCycle A c)

theorem bfsPredHolds_of {g : Graph} {A : Rel} (hA : ∀ u v, g.A u v ↔ A u v) {S : List Nat}
    (hg : g.WF) (hn : 0 < g.n) (hS : ∀ s ∈ S, s < g.n) (hnd : S.Nodup) : BfsPredHolds A g.n S g := by
  obtain rfl : g.A = A := rel_ext hA
  have h := C05.c05_bfs g S hg hn hS hnd
  unfold BfsPredHolds
  rw [← reachFrom_eq g, ← isHopDist_eq g, ← isWalk_eq g, ← isElemCycle_eq g]
  exact h

/-! ## C06 — DFS -/

/-- Exactly the vertices reachable in `A`, once each. -/
def RExact (A : Rel) (S : List Nat) (xs : List Nat) : Prop := xs.Nodup ∧ ∀ v, v ∈ xs ↔ RReachFrom A S v

theorem exact_eq (g : Graph) : Dfs.Exact g = RExact g.A := by
  funext S xs; simp only [Dfs.Exact, RExact, reachFrom_eq]

/-- What C06 proves of TODAY's code (`C06.dfs_partial` + `C06.dfs_valid_prefix`), over `A`:
termination, the three iterators agree, no vertex twice, only reachable vertices, all of them
when the run ends on an empty stack; what is yielded is a valid depth-first preorder prefix with
the prescribed predecessors and depths.  (`ValidDfsPreorder` / `annotate` are the executable
reading of "depth-first preorder" of `Spec/Dfs.lean`; they consult the out-neighbour rows of
`g` only through MEMBERSHIP, i.e. through the arc relation.) -/
def DfsTodayHolds (A : Rel) (S : List Nat) (g : Graph) : Prop :=
    C06.Terminated (Dfs.dfs g S).ending ∧
    (Dfs.dfsDist g S).verts = (Dfs.dfs g S).verts ∧ (Dfs.dfsPred g S).verts = (Dfs.dfs g S).verts ∧
    (Dfs.dfsDist g S).ending = (Dfs.dfs g S).ending ∧ (Dfs.dfsPred g S).ending = (Dfs.dfs g S).ending ∧
    (Dfs.dfs g S).verts.Nodup ∧
    (∀ v ∈ (Dfs.dfs g S).verts, RReachFrom A S v) ∧
    ((Dfs.dfs g S).ending = .done → ∀ v, RReachFrom A S v → v ∈ (Dfs.dfs g S).verts) ∧
    Dfs.ValidDfsPreorder g S (Dfs.dfs g S).verts ∧
    ∃ ann, Dfs.annotate g S (Dfs.dfs g S).verts = some ann ∧
      (Dfs.dfsDist g S).items = ann.map (fun a => (a.1, a.2.2)) ∧
      (Dfs.dfsPred g S).items = ann.map (fun a => (a.1, a.2.1)) ∧
      Dfs.predecessors g S = Dfs.forestOf g.n ann

theorem dfsTodayHolds_of {g : Graph} {A : Rel} (hA : ∀ u v, g.A u v ↔ A u v) {S : List Nat}
    (hg : g.WF) (hS : ∀ s ∈ S, s < g.n) (hnd : S.Nodup) : DfsTodayHolds A S g := by
  obtain rfl : g.A = A := rel_ext hA
  have hi : C06.Inputs g S := ⟨hg, hnd, hS⟩
  obtain ⟨h1, h2, h3, h4, h5, h6, h7, h8⟩ := C06.dfs_partial g S hi
  obtain ⟨p1, p2⟩ := C06.dfs_valid_prefix g S hi
  unfold DfsTodayHolds
  rw [← reachFrom_eq g]
  exact ⟨h1, h2, h3, h4, h5, h6, h7, h8, p1, p2⟩

/-- C06 in full for the corrected variant (`C06.StatementFixed`), with the exactness clauses
over `A`. -/
def DfsFixedHolds (A : Rel) (S : List Nat) (g : Graph) : Prop :=
    ((Dfs.dfsFixed g S).ending = .done ∧ RExact A S (Dfs.dfsFixed g S).verts ∧
      Dfs.ValidDfsPreorder g S (Dfs.dfsFixed g S).verts) ∧
    ((Dfs.dfsDistFixed g S).ending = .done ∧ RExact A S ((Dfs.dfsDistFixed g S).items.map (·.1)) ∧
      ∃ ann, Dfs.annotate g S ((Dfs.dfsDistFixed g S).items.map (·.1)) = some ann ∧
        (Dfs.dfsDistFixed g S).items = ann.map (fun a => (a.1, a.2.2))) ∧
    ((Dfs.dfsPredFixed g S).ending = .done ∧ RExact A S ((Dfs.dfsPredFixed g S).items.map (·.1)) ∧
      ∃ ann, Dfs.annotate g S ((Dfs.dfsPredFixed g S).items.map (·.1)) = some ann ∧
        (Dfs.dfsPredFixed g S).items = ann.map (fun a => (a.1, a.2.1)) ∧
        Dfs.predecessorsFixed g S = Dfs.forestOf g.n ann)

theorem dfsFixedHolds_of {g : Graph} {A : Rel} (hA : ∀ u v, g.A u v ↔ A u v) {S : List Nat}
    (hg : g.WF) (hS : ∀ s ∈ S, s < g.n) (hnd : S.Nodup) : DfsFixedHolds A S g := by
  obtain rfl : g.A = A := rel_ext hA
  have hi : C06.Inputs g S := ⟨hg, hnd, hS⟩
  obtain ⟨⟨_, a1, a2⟩, ⟨_, b1, b2⟩, ⟨_, c1, c2⟩⟩ := C06.statement_fixed g S hi
  obtain ⟨⟨e1, _⟩, ⟨e2, _⟩, ⟨e3, _⟩⟩ := C06.dfsFixed_reachable g S hi
  unfold DfsFixedHolds
  rw [← exact_eq g]
  exact ⟨⟨e1, a1, a2⟩, ⟨e2, b1, b2⟩, ⟨e3, c1, c2⟩⟩

/-- The preorder clause of C06 for TODAY's code, entirely over the relation `A` and the order `n`
(`RIsDfsPreorder`, `Proof/ComposeDfs.lean`): what `Dfs` yields is a depth-first preorder prefix of
the digraph `A` from `S`; `DfsDist` / `DfsPred` report exactly the prescribed depths / parents;
`predecessors()` is the forest of the annotation. -/
def DfsPreorderTodayR (A : Rel) (n : Nat) (S : List Nat) (g : Graph) : Prop :=
  ∃ ann, RIsDfsPreorder A S (Dfs.dfs g S).verts ann ∧
    (Dfs.dfsDist g S).items = ann.map (fun a => (a.1, a.2.2)) ∧
    (Dfs.dfsPred g S).items = ann.map (fun a => (a.1, a.2.1)) ∧
    Dfs.predecessors g S = Dfs.forestOf n ann

theorem dfsPreorderTodayR_of {g : Graph} {A : Rel} (hA : ∀ u v, g.A u v ↔ A u v) {S : List Nat}
    (hg : g.WF) (hS : ∀ s ∈ S, s < g.n) (hnd : S.Nodup) : DfsPreorderTodayR A g.n S g := by
  obtain rfl : g.A = A := rel_ext hA
  obtain ⟨_, ann, h1, h2, h3, h4⟩ := C06.dfs_valid_prefix g S ⟨hg, hnd, hS⟩
  exact ⟨ann, (annotate_iff g S _ ann).1 h1, h2, h3, h4⟩

/-- C06 in full for the corrected variant, entirely over `A` and `n`: termination on an empty
stack, exactly the reachable vertices once each, in a depth-first preorder, with the prescribed
depths (`DfsDist`), parents (`DfsPred`) and forest (`predecessors()`). -/
def DfsFixedHoldsR (A : Rel) (n : Nat) (S : List Nat) (g : Graph) : Prop :=
    ((Dfs.dfsFixed g S).ending = .done ∧ RExact A S (Dfs.dfsFixed g S).verts ∧
      ∃ ann, RIsDfsPreorder A S (Dfs.dfsFixed g S).verts ann) ∧
    ((Dfs.dfsDistFixed g S).ending = .done ∧ RExact A S ((Dfs.dfsDistFixed g S).items.map (·.1)) ∧
      ∃ ann, RIsDfsPreorder A S ((Dfs.dfsDistFixed g S).items.map (·.1)) ann ∧
        (Dfs.dfsDistFixed g S).items = ann.map (fun a => (a.1, a.2.2))) ∧
    ((Dfs.dfsPredFixed g S).ending = .done ∧ RExact A S ((Dfs.dfsPredFixed g S).items.map (·.1)) ∧
      ∃ ann, RIsDfsPreorder A S ((Dfs.dfsPredFixed g S).items.map (·.1)) ann ∧
        (Dfs.dfsPredFixed g S).items = ann.map (fun a => (a.1, a.2.1)) ∧
        Dfs.predecessorsFixed g S = Dfs.forestOf n ann)

theorem dfsFixedHoldsR_of {g : Graph} {A : Rel} (hA : ∀ u v, g.A u v ↔ A u v) {S : List Nat}
    (hg : g.WF) (hS : ∀ s ∈ S, s < g.n) (hnd : S.Nodup) : DfsFixedHoldsR A g.n S g := by
  obtain ⟨⟨e1, x1, v1⟩, ⟨e2, x2, a2, p2, q2⟩, ⟨e3, x3, a3, p3, q3, r3⟩⟩ := dfsFixedHolds_of hA hg hS hnd
  obtain rfl : g.A = A := rel_ext hA
  exact ⟨⟨e1, x1, (validDfsPreorder_iff g S _).1 v1⟩,
    ⟨e2, x2, a2, (annotate_iff g S _ a2).1 p2, q2⟩,
    ⟨e3, x3, a3, (annotate_iff g S _ a3).1 p3, q3, r3⟩⟩

/-! ## C09 — Tarjan (any finite vertex-id set) -/

/-- `cs` is the partition of `verts` into the strongly connected components of `A`. -/
structure RIsSCCPartition (verts : List Nat) (A : Rel) (cs : List (List Nat)) : Prop where
  nonempty : ∀ c ∈ cs, c ≠ []
  disjoint : cs.Pairwise (fun c d => ∀ x ∈ c, x ∉ d)
  nodup : ∀ c ∈ cs, c.Nodup
  cover : ∀ v, v ∈ verts ↔ ∃ c ∈ cs, v ∈ c
  scc : ∀ u ∈ verts, ∀ v ∈ verts, (∃ c ∈ cs, u ∈ c ∧ v ∈ c) ↔ (RReach A u v ∧ RReach A v u)

theorem isSCCPartition_iff (g : Tarjan.VGraph) (cs : List (List Nat)) :
    Tarjan.IsSCCPartition g cs ↔ RIsSCCPartition g.verts g.toGraph.A cs := by
  constructor
  · intro h
    refine ⟨h.nonempty, h.disjoint, h.nodup, h.cover, ?_⟩
    intro u hu v hv
    have := h.scc u hu v hv
    simp only [Tarjan.VReach, reach_eq] at this
    exact this
  · intro h
    refine ⟨h.nonempty, h.disjoint, h.nodup, h.cover, ?_⟩
    intro u hu v hv
    have := h.scc u hu v hv
    simp only [Tarjan.VReach, reach_eq]
    exact this

/-- C09 over the vertex list `verts` and the arc relation `A`; also: every block ascending. -/
def TarjanHolds (verts : List Nat) (A : Rel) (g : Tarjan.VGraph) : Prop :=
  ∃ cs, Tarjan.components g = .ret cs ∧ RIsSCCPartition verts A cs ∧ ∀ c ∈ cs, c.Pairwise (· < ·)

theorem tarjanHolds_of {g : Tarjan.VGraph} {A : Rel} (hA : ∀ u v, v ∈ g.out u ↔ A u v)
    (hcl : g.Closed) : TarjanHolds g.verts A g := by
  obtain rfl : g.toGraph.A = A := rel_ext hA
  obtain ⟨cs, hcs, hp⟩ := C09.tarjan_scc g hcl
  exact ⟨cs, hcs, (isSCCPartition_iff g cs).1 hp, C09.tarjan_sets_ascending g hcl cs hcs⟩

/-! ## C10 — Johnson -/

/-- `c = s :: rest` is an elementary circuit of `A` written from its smallest vertex. -/
def RIsCanonicalElemCircuit (A : Rel) (c : List Nat) : Prop :=
  ∃ s rest, c = s :: rest ∧ rest ≠ [] ∧ c.Nodup ∧ RIsWalk A c ∧
    A ((s :: rest).getLast (List.cons_ne_nil _ _)) s ∧ ∀ x ∈ rest, s < x

theorem isCanonicalElemCircuit_eq (g : Graph) :
    Johnson.IsCanonicalElemCircuit g = RIsCanonicalElemCircuit g.A := by
  funext c; simp only [Johnson.IsCanonicalElemCircuit, RIsCanonicalElemCircuit, isWalk_eq]

/-- `C10.Statement`'s conclusion over `A`. -/
def JohnsonHolds (A : Rel) (g : Graph) : Prop :=
  (Johnson.circuits g).Nodup ∧ ∀ c, c ∈ Johnson.circuits g ↔ RIsCanonicalElemCircuit A c

theorem johnsonHolds_of {g : Graph} {A : Rel} (hA : ∀ u v, g.A u v ↔ A u v)
    (hg : g.WF) (hl : Johnson.NoLoops g) (hr : Johnson.RowsNodup g) : JohnsonHolds A g := by
  obtain rfl : g.A = A := rel_ext hA
  have h := C10.statement g hg hl hr
  unfold JohnsonHolds
  rw [← isCanonicalElemCircuit_eq g]
  exact h

/-! ## C03 — Dijkstra -/

/-- `C03.Statement`'s conclusion over the weighted relation `W` and the order `n`. -/
def DijkstraHolds (W : WRel) (n : Nat) (S : List Nat) (g : WGraph) : Prop :=
    ((Dijkstra.dijkstraDist g S).map (·.1)).Nodup ∧
    (∀ v, v ∈ (Dijkstra.dijkstraDist g S).map (·.1) ↔ RWReachFrom W S v) ∧
    (∀ p ∈ Dijkstra.dijkstraDist g S, RIsMinDist W S p.1 p.2) ∧
    ((Dijkstra.dijkstraDist g S).map (·.2)).Pairwise (· ≤ ·) ∧
    Dijkstra.dijkstra g S = (Dijkstra.dijkstraDist g S).map (·.1) ∧
    (Dijkstra.distances g S).length = n ∧
    (∀ v, v < n → ∀ d, (Dijkstra.distances g S)[v]? = some (some d) ↔ RIsMinDist W S v d) ∧
    (∀ v, v < n → ((Dijkstra.distances g S)[v]? = some none ↔ ¬ RWReachFrom W S v)) ∧
    (∀ f, Dijkstra.fuel g S ≤ f →
      Dijkstra.run g (fun _ => none) f (Dijkstra.init n S) = Dijkstra.entries g (fun _ => none) S)

theorem dijkstraHolds_of {g : WGraph} {W : WRel} (hW : ∀ u v w, g.A u v w ↔ W u v w) {S : List Nat}
    (h : Dijkstra.Hyp g S) : DijkstraHolds W g.n S g := by
  obtain rfl : g.A = W := wrel_ext hW
  have h := C03.dijkstra_correct g S h
  unfold DijkstraHolds
  rw [← wreachFrom_eq g, ← isMinDist_eq g]
  exact h

/-! ## C05 (Dijkstra half) -/

/-- The non-empty vertex list `p` is a walk of `W` of total weight `wt`. -/
inductive RPathW (W : WRel) : List Nat → Int → Prop
  | single (u : Nat) : RPathW W [u] 0
  | cons {u v : Nat} {rest : List Nat} {w wt : Int} :
      W u v w → RPathW W (v :: rest) wt → RPathW W (u :: v :: rest) (w + wt)

theorem pathW_eq (g : WGraph) : PathW g = RPathW g.A := by
  funext p wt
  apply propext
  constructor
  · intro h; induction h with
    | single u => exact .single u
    | cons ha _ ih => exact .cons ha ih
  · intro h; induction h with
    | single u => exact .single u
    | cons ha _ ih => exact .cons ha ih

/-- `C05Dijkstra.Statement`'s conclusion over `W` and `n`. -/
def DijkstraPredHolds (W : WRel) (n : Nat) (S : List Nat) (g : WGraph) : Prop :=
    (Dijkstra.predecessors g S).length = n ∧
    (∀ v, v < n → (v ∈ S ∨ ¬ RWReachFrom W S v) → (Dijkstra.predecessors g S)[v]? = some none) ∧
    (∀ v, v < n → v ∉ S → RWReachFrom W S v → ∃ u w du dv,
      (Dijkstra.predecessors g S)[v]? = some (some u) ∧ W u v w ∧
      RIsMinDist W S u du ∧ RIsMinDist W S v dv ∧ du + w = dv) ∧
    (∀ v, RWReachFrom W S v → ∃ p d,
      PredTree.searchBy (Dijkstra.predecessors g S) v (fun _ b => b.isNone) = .ret (some p) ∧
      p.head? = some v ∧ (∃ s ∈ S, p.getLast? = some s) ∧ RPathW W p.reverse d ∧ RIsMinDist W S v d) ∧
    ∀ isT : Nat → Bool,
      (Dijkstra.shortestPath g S isT = .ret none ↔ ¬ ∃ v, RWReachFrom W S v ∧ isT v = true) ∧
      ((∃ v, RWReachFrom W S v ∧ isT v = true) → ∃ p t d,
        Dijkstra.shortestPath g S isT = .ret (some p) ∧
        (∃ s ∈ S, p.head? = some s) ∧ p.getLast? = some t ∧ isT t = true ∧
        RPathW W p d ∧ RIsMinDist W S t d ∧
        ∀ t' d', isT t' = true → RIsMinDist W S t' d' → d ≤ d')

theorem dijkstraPredHolds_of {g : WGraph} {W : WRel} (hW : ∀ u v w, g.A u v w ↔ W u v w) {S : List Nat}
    (h : Dijkstra.Hyp g S) : DijkstraPredHolds W g.n S g := by
  obtain rfl : g.A = W := wrel_ext hW
  have h := C05Dijkstra.dijkstraPred_correct g S h
  unfold DijkstraPredHolds
  rw [← wreachFrom_eq g, ← isMinDist_eq g, ← pathW_eq g]
  exact h

/-! ## C07 — Bellman-Ford-Moore -/

/-- `d` is exact for source `s` in `W` on `n` vertices. -/
def RExactDist (W : WRel) (n s : Nat) (d : List (Option Int)) : Prop :=
  d.length = n ∧
  (∀ v x, d[v]? = some (some x) → RIsMinDist W [s] v x) ∧
  (∀ v, d[v]? = some none → ¬ RWReachFrom W [s] v)

/-- A negative-weight circuit is reachable from `s`. -/
def RNegReachable (W : WRel) (s : Nat) : Prop := ∃ x, RWReachFrom W [s] x ∧ RNegCycleAt W x

theorem exactDist_eq (g : WGraph) : Bfm.Exact g = RExactDist g.A g.n := by
  funext s d; simp only [Bfm.Exact, RExactDist, isMinDist_eq, wreachFrom_eq]

theorem negReachable_eq (g : WGraph) : Bfm.NegReachable g = RNegReachable g.A := by
  funext s; simp only [Bfm.NegReachable, RNegReachable, wreachFrom_eq, negCycleAt_eq]

/-- `C07.Statement`'s conclusion over `W` and `n` (arbitrary `Int` weights). -/
def BfmHolds (W : WRel) (n : Nat) (s : Nat) (g : WGraph) : Prop :=
    (RNegReachable W s → Bfm.distances g s = .ret none) ∧
    ((∀ x, ¬ RNegCycleAt W x) → ∃ d, Bfm.distances g s = .ret (some d)) ∧
    (∀ d, Bfm.distances g s = .ret (some d) →
      RExactDist W n s d ∧ ∀ v, v < n → (d[v]? = some none ↔ ¬ RWReachFrom W [s] v)) ∧
    ((∀ u v w, W u v w → 0 ≤ w) → ∀ dj, RExactDist W n s dj → Bfm.distances g s = .ret (some dj))

theorem bfmHolds_of {g : WGraph} {W : WRel} (hW : ∀ u v w, g.A u v w ↔ W u v w) {s : Nat}
    (hg : g.WF) (hs : s < g.n) : BfmHolds W g.n s g := by
  obtain rfl : g.A = W := wrel_ext hW
  have h := C07.statement g s hg hs
  unfold BfmHolds
  rw [← wreachFrom_eq g, ← negCycleAt_eq g, ← exactDist_eq g, ← negReachable_eq g]
  exact h

/-! ## C08 — Floyd-Warshall -/

/-- `C08.Statement`'s conclusion over `W` and `n`, for the pair `(u, v)`. -/
def FwHolds (W : WRel) (n : Nat) (u v : Nat) (g : WGraph) : Prop :=
    Fw.get n (Fw.distances g) u v = ((Fw.distances g)[u * n + v]?).getD none ∧
    (∀ d, Fw.get n (Fw.distances g) u v = some d ↔ RIsMinDist W [u] v d) ∧
    (Fw.get n (Fw.distances g) u v = none ↔ ¬ RWReachFrom W [u] v) ∧
    Fw.get n (Fw.distances g) u u = some 0 ∧
    (∀ r : List (Option Int), r.length = n →
      (∀ x, x < n → ∀ d, r[x]? = some (some d) ↔ RIsMinDist W [u] x d) →
      Fw.row n (Fw.distances g) u = r)

theorem fwHolds_of {g : WGraph} {W : WRel} (hW : ∀ u v w, g.A u v w ↔ W u v w)
    (hg : g.WF) (hf : g.Functional) (hnc : ∀ x, ¬ RNegCycleAt W x) {u v : Nat} (hu : u < g.n) (hv : v < g.n) :
    FwHolds W g.n u v g := by
  obtain rfl : g.A = W := wrel_ext hW
  have hnc' : g.NoNegCycle := by
    intro x; rw [negCycleAt_eq g]; exact hnc x
  have h := C08.fw_statement g hg hf hnc' u v hu hv
  unfold FwHolds
  rw [← wreachFrom_eq g, ← isMinDist_eq g]
  exact h

/-! ## Repeated calls on the same algorithm object (`tarjan_every_call`, `johnson_repeat_statement`,
`bfm_repeat_const`, `fw_twice`) -/

/-- EVERY call of `components()` on the same `Tarjan` value returns what the first one returns:
the partition of `verts` into the strongly connected components of `A`. -/
def TarjanEveryCallHolds (verts : List Nat) (A : Rel) (g : Tarjan.VGraph) : Prop :=
  ∀ k, Tarjan.componentsAt g (k + 1) = Tarjan.components g ∧
    ∃ cs, Tarjan.componentsAt g (k + 1) = .ret cs ∧ RIsSCCPartition verts A cs

theorem tarjanEveryCallHolds_of {g : Tarjan.VGraph} {A : Rel} (hA : ∀ u v, v ∈ g.out u ↔ A u v)
    (hcl : g.Closed) : TarjanEveryCallHolds g.verts A g := by
  obtain rfl : g.toGraph.A = A := rel_ext hA
  intro k
  obtain ⟨e, cs, hcs, hp⟩ := C09.tarjan_every_call g hcl k
  exact ⟨e, cs, hcs, (isSCCPartition_iff g cs).1 hp⟩

/-- EVERY one of `k` consecutive `circuits()` calls on the same `Johnson75` value returns each
elementary circuit of `A` exactly once, in canonical form, and nothing else. -/
def JohnsonRepeatHolds (A : Rel) (g : Graph) : Prop :=
  ∀ k, (Johnson.circuitsRepeat (Johnson.AM.ofGraph g) k (Johnson.JState.new (Johnson.AM.ofGraph g))).length = k ∧
    ∀ out ∈ Johnson.circuitsRepeat (Johnson.AM.ofGraph g) k (Johnson.JState.new (Johnson.AM.ofGraph g)),
      out.Nodup ∧ ∀ c, c ∈ out ↔ RIsCanonicalElemCircuit A c

theorem johnsonRepeatHolds_of {g : Graph} {A : Rel} (hA : ∀ u v, g.A u v ↔ A u v)
    (hg : g.WF) (hl : Johnson.NoLoops g) (hr : Johnson.RowsNodup g) : JohnsonRepeatHolds A g := by
  obtain rfl : g.A = A := rel_ext hA
  intro k
  have h := C10.johnson_repeat_statement g hg hl hr k
  rw [isCanonicalElemCircuit_eq g] at h
  exact h

/-- `k` calls of `BellmanFordMoore::distances()` on the same object all return what one call
returns (which `BfmHolds` characterises). -/
def BfmRepeatHolds (s : Nat) (g : WGraph) : Prop :=
  ∀ k r, Bfm.distances g s = .ret r → Bfm.distancesRepeat g s k = some (List.replicate k r)

theorem bfmRepeatHolds_of {g : WGraph} {s : Nat} (hg : g.WF) (hs : s < g.n) : BfmRepeatHolds s g :=
  fun k r h => C07.bfm_repeat_const g hg s hs k r h

/-- A second call of `FloydWarshall::distances()` returns the same matrix (which `FwHolds`
characterises). -/
theorem fwTwice_of {g : WGraph} {W : WRel} (hW : ∀ u v w, g.A u v w ↔ W u v w)
    (hg : g.WF) (hf : g.Functional) (hnc : ∀ x, ¬ RNegCycleAt W x) : Fw.distances2 g = Fw.distances g := by
  obtain rfl : g.A = W := wrel_ext hW
  exact C08.fw_twice g hg hf (fun x => by rw [negCycleAt_eq g]; exact hnc x)

/-! ## Bundles -/

/-- Everything C04, C05 (BFS half) and C06 say about the source-based traversals of the `Graph`
`g`, w.r.t. the arc relation `A` on `n` vertices. -/
structure TraversalsHold (A : Rel) (n : Nat) (S : List Nat) (g : Graph) : Prop where
  bfs : BfsHolds A n S g
  /-- `PredecessorTree::new` asserts `order > 0` -/
  bfsPred : 0 < n → BfsPredHolds A n S g
  dfsToday : DfsTodayHolds A S g
  dfsFixed : DfsFixedHolds A S g
  /-- the preorder clauses with NOTHING on the specification side but `A`, `n`, `S` -/
  dfsTodayR : DfsPreorderTodayR A n S g
  dfsFixedR : DfsFixedHoldsR A n S g

theorem traversalsHold_of {g : Graph} {A : Rel} (hA : ∀ u v, g.A u v ↔ A u v) {S : List Nat}
    (hg : g.WF) (hS : ∀ s ∈ S, s < g.n) (hnd : S.Nodup) : TraversalsHold A g.n S g :=
  ⟨bfsHolds_of hA hg hS hnd, fun hn => bfsPredHolds_of hA hg hn hS hnd,
   dfsTodayHolds_of hA hg hS hnd, dfsFixedHolds_of hA hg hS hnd,
   dfsPreorderTodayR_of hA hg hS hnd, dfsFixedHoldsR_of hA hg hS hnd⟩

/-- Everything C03, C05 (Dijkstra half), C07, C08 say about the weighted algorithms on the
`WGraph` `g`, w.r.t. the weighted relation `W` on `n` vertices. -/
structure WeightedHold (W : WRel) (n : Nat) (g : WGraph) : Prop where
  /-- non-negative weights: Dijkstra from distinct in-range sources -/
  dijkstra : (∀ u v w, W u v w → 0 ≤ w) → ∀ S : List Nat, (∀ s ∈ S, s < n) → S.Nodup →
    DijkstraHolds W n S g ∧ DijkstraPredHolds W n S g
  /-- arbitrary `Int` weights: Bellman-Ford-Moore from an in-range source -/
  bfm : ∀ s, s < n → BfmHolds W n s g
  /-- no negative circuit: Floyd-Warshall -/
  fw : (∀ x, ¬ RNegCycleAt W x) → ∀ u v, u < n → v < n → FwHolds W n u v g
  /-- repeated calls on the same object return the same -/
  bfmRepeat : ∀ s, s < n → BfmRepeatHolds s g
  fwTwice : (∀ x, ¬ RNegCycleAt W x) → Fw.distances2 g = Fw.distances g

theorem weightedHold_of {g : WGraph} {W : WRel} (hW : ∀ u v w, g.A u v w ↔ W u v w)
    (hg : g.WF) (hf : g.Functional) : WeightedHold W g.n g := by
  refine ⟨?_, fun s hs => bfmHolds_of hW hg hs, fun hnc u v hu hv => fwHolds_of hW hg hf hnc hu hv,
    fun s hs => bfmRepeatHolds_of hg hs, fun hnc => fwTwice_of hW hg hf hnc⟩
  intro hnn S hS hnd
  have hyp : Dijkstra.Hyp g S := ⟨hg, fun u v w h => hnn u v w ((hW u v w).1 h), hS, hnd⟩
  exact ⟨dijkstraHolds_of hW hyp, dijkstraPredHolds_of hW hyp⟩

end GraafVerif.Compose
