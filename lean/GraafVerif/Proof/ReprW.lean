import GraafVerif.Proof.ReprRows
/-!
# `AdjacencyListWeighted` refines the abstract weighted digraph (C01) and is determined by it (C20)
-/
namespace GraafVerif.Repr.AdjListW
open GraafVerif.ReprSpec GraafVerif.Repr

theorem arcWeight_eq (d : AdjListW) (u v : Nat) : d.arcWeight u v = mget v (d.rows[u]?.getD []) := by
  unfold arcWeight; cases d.rows[u]? <;> simp

theorem hasArc_eq (d : AdjListW) (u v : Nat) : d.hasArc u v = (d.arcWeight u v).isSome := by
  unfold hasArc arcWeight; cases d.rows[u]? <;> simp

theorem arcsWeighted_eq (d : AdjListW) : d.arcsWeighted = flatRows 0 d.rows := by
  simp only [arcsWeighted, flatRows]

theorem empty_WF {n : Nat} {d : AdjListW} (h : empty n = some d) : d.WF := by
  unfold empty at h
  split at h
  · cases h
  · rename_i hn; cases h
    refine ⟨by simp [order]; omega, ?_⟩
    intro u row hrow
    simp only [List.getElem?_replicate] at hrow
    split at hrow
    · cases hrow; exact ⟨List.Pairwise.nil, by simp⟩
    · cases hrow

theorem abs_empty {n : Nat} {d : AdjListW} (h : empty n = some d) : d.abs = emptySpec Int n := by
  unfold empty at h
  split at h
  · cases h
  · cases h
    apply SpecState.ext
    · intro x; simp [abs, emptySpec, order]
    · intro u v
      simp only [abs, emptySpec, arcWeight_eq, List.getElem?_replicate]
      split <;> simp

theorem add_eq_none_iff (d : AdjListW) (u v : Nat) (w : Int) :
    d.addArcWeighted u v w = none ↔ rejected .fixed d.abs u v = true := by
  simp only [abs, rejected_fixed_range]
  unfold addArcWeighted
  by_cases h1 : u = v <;> by_cases h2 : u < d.order <;> by_cases h3 : v < d.order <;> simp [h1, h2, h3]

theorem add_some {d : AdjListW} {u v : Nat} (w : Int) (h : rejected .fixed d.abs u v = false) :
    d.addArcWeighted u v w = some ⟨d.rows.set u (mupsert v w (fun _ => w) (d.rows[u]?.getD []))⟩ ∧
      u ≠ v ∧ u < d.order ∧ v < d.order := by
  simp only [abs, rejected_fixed_range] at h
  unfold addArcWeighted
  by_cases h1 : u = v <;> by_cases h2 : u < d.order <;> by_cases h3 : v < d.order <;> simp_all

theorem row_set (d : AdjListW) (u a : Nat) (r : List (Nat × Int)) (hu : u < d.order) :
    (d.rows.set u r)[a]? = if a = u then some r else d.rows[a]? := by
  rw [List.getElem?_set]
  by_cases h : u = a
  · subst h; simp [order] at hu; simp [hu]
  · have : ¬ a = u := fun e => h e.symm
    simp [h, this]

theorem WF_set (d : AdjListW) (h : d.WF) (u : Nat) (r : List (Nat × Int)) (hu : u < d.order)
    (hs : SortedK r) (hr : ∀ p ∈ r, p.1 < d.order ∧ p.1 ≠ u) : WF ⟨d.rows.set u r⟩ := by
  refine ⟨by simpa [order] using h.1, ?_⟩
  intro a row hrow
  simp only [order, List.length_set]
  rw [row_set d u a r hu] at hrow
  split at hrow
  · rename_i e; subst e; cases hrow; exact ⟨hs, hr⟩
  · exact h.2 a row hrow

theorem key_mem {X : Type} {p : Nat × X} {l : List (Nat × X)} (h : p ∈ l) : p.1 ∈ l.map (·.1) :=
  List.mem_map.mpr ⟨p, h, rfl⟩

theorem step_WF (d : AdjListW) (op : Op Int) (h : d.WF) : (d.step op).1.WF := by
  cases op with
  | add u v w =>
    simp only [step]
    cases hrej : rejected .fixed d.abs u v
    · obtain ⟨e, huv, hu, hv⟩ := add_some w hrej
      rw [e, outOfOpt_some]
      cases hrow : d.rows[u]? with
      | none => simp [order] at hu; simp at hrow; omega
      | some row =>
        have hw := h.2 u row hrow
        apply WF_set d h u _ hu
        · simpa using sortedK_mupsert hw.1
        · intro p hp
          simp only [Option.getD_some] at hp
          have := key_mem hp
          rw [keys_mupsert, mem_sinsert] at this
          rcases this with e | hk
          · rw [e]; exact ⟨hv, fun e => huv e.symm⟩
          · obtain ⟨q, hq, hqe⟩ := List.mem_map.mp hk
            rw [← hqe]; exact hw.2 q hq
    · rw [(add_eq_none_iff d u v w).mpr hrej, outOfOpt_none]; exact h
  | rem u v =>
    simp only [step, removeArc]
    cases hrow : d.rows[u]? with
    | none => exact h
    | some row =>
      have hw := h.2 u row hrow
      have hu : u < d.order := by
        simp only [order]; exact (List.getElem?_eq_some_iff.mp hrow).1
      simp only [outOfRem]
      apply WF_set d h u _ hu (sortedK_merase hw.1)
      intro p hp
      have := key_mem hp
      rw [keys_merase, mem_serase ((sortedK_iff_keys row).mp hw.1)] at this
      obtain ⟨q, hq, hqe⟩ := List.mem_map.mp this.1
      rw [← hqe]; exact hw.2 q hq

theorem arcWeight_set (d : AdjListW) (u : Nat) (r : List (Nat × Int)) (hu : u < d.order) (a b : Nat) :
    (AdjListW.mk (d.rows.set u r)).arcWeight a b = if a = u then mget b r else d.arcWeight a b := by
  rw [arcWeight_eq, arcWeight_eq, row_set d u a r hu]
  split <;> simp

theorem step_refines (d : AdjListW) (op : Op Int) (h : d.WF) :
    (d.step op).1.abs = (specStep .fixed d.abs op).1 ∧ (d.step op).2 = (specStep .fixed d.abs op).2 := by
  cases op with
  | add u v w =>
    simp only [step]
    cases hrej : rejected .fixed d.abs u v
    · obtain ⟨e, huv, hu, hv⟩ := add_some w hrej
      rw [e, outOfOpt_some, specStep_add_ok _ hrej]
      refine ⟨?_, rfl⟩
      have hsr : SortedK (d.rows[u]?.getD []) := by
        cases hrow : d.rows[u]? with
        | none => exact List.Pairwise.nil
        | some row => exact (h.2 u row hrow).1
      apply SpecState.ext
      · intro x; simp only [abs, order, grow, List.length_set]; rfl
      · intro a b
        simp only [abs, setW, arcWeight_set d u _ hu, mget_mupsert hsr]
        by_cases ha : a = u
        · subst ha
          by_cases hb : b = v
          · subst hb; simp
          · simp [hb, arcWeight_eq]
        · simp [ha]
    · rw [(add_eq_none_iff d u v w).mpr hrej, outOfOpt_none, specStep_add_rej _ hrej]
      exact ⟨rfl, rfl⟩
  | rem u v =>
    simp only [step, removeArc, specStep]
    cases hrow : d.rows[u]? with
    | none =>
      simp only [outOfRem]
      have hno : ∀ b, d.arcWeight u b = none := by intro b; simp [arcWeight, hrow]
      refine ⟨?_, by simp [abs, SpecState.A, hno]⟩
      apply SpecState.ext
      · intro x; rfl
      · intro a b
        simp only [abs, setW]
        split
        · rename_i hc; obtain ⟨rfl, rfl⟩ := hc; simp [hno]
        · rfl
    | some row =>
      have hw := h.2 u row hrow
      have hu : u < d.order := by
        simp only [order]; exact (List.getElem?_eq_some_iff.mp hrow).1
      simp only [outOfRem]
      refine ⟨?_, by simp [abs, SpecState.A, arcWeight, hrow]⟩
      apply SpecState.ext
      · intro x; simp only [abs, order, List.length_set]; rfl
      · intro a b
        simp only [abs, setW, arcWeight_set d u _ hu, mget_merase hw.1]
        by_cases ha : a = u
        · subst ha
          by_cases hb : b = v
          · subst hb; simp
          · simp [hb, arcWeight_eq, hrow]
        · simp [ha]

/-- A rejected call panics and leaves the digraph unchanged. -/
theorem step_rejects (d : AdjListW) (u v : Nat) (w : Int) (h : rejected .fixed d.abs u v = true) :
    d.step (.add u v w) = (d, .panic) := by
  simp only [step, (add_eq_none_iff d u v w).mpr h, outOfOpt_none]

theorem run_refines (ops : List (Op Int)) (d : AdjListW) (h : d.WF) :
    (run step d ops).1.WF ∧ (run step d ops).1.abs = (run (specStep .fixed) d.abs ops).1 ∧
    (run step d ops).2 = (run (specStep .fixed) d.abs ops).2 :=
  run_refines_gen step (specStep .fixed) WF abs step_WF step_refines ops d h

theorem sortedK_row (d : AdjListW) (h : d.WF) : ∀ row ∈ d.rows, SortedK row := by
  intro row hrow
  obtain ⟨i, hi, rfl⟩ := List.mem_iff_getElem.mp hrow
  exact (h.2 i _ (List.getElem?_eq_getElem hi)).1

/-- `(u, v, w)` is listed by `arcs_weighted()` exactly when `w` is the weight of the arc `u → v`. -/
theorem mem_arcsWeighted (d : AdjListW) (h : d.WF) (u v : Nat) (w : Int) :
    (u, v, w) ∈ d.arcsWeighted ↔ d.abs.W u v = some w := by
  rw [arcsWeighted_eq, mem_flatRows_zero]
  simp only [abs, arcWeight]
  cases hrow : d.rows[u]? with
  | none => simp
  | some row =>
    simp only [Option.some.injEq, exists_eq_left']
    exact (mget_eq_some_iff (h.2 u row hrow).1).symm

/-- `arcs_weighted()` lists every arc exactly once, in ascending lexicographic order of `(u, v)`. -/
theorem arcsWeighted_sorted_nodup (d : AdjListW) (h : d.WF) :
    d.arcsWeighted.Pairwise (fun a b => pairLt (a.1, a.2.1) (b.1, b.2.1) = true) ∧ d.arcsWeighted.Nodup := by
  have hp : d.arcsWeighted.Pairwise (rowLex (fun p : Nat × Int => p.1)) := by
    rw [arcsWeighted_eq]
    exact pairwise_flatRows _ (sortedK_row d h)
  refine ⟨List.Pairwise.imp (fun hab => ?_) hp, rowLex_nodup _ hp⟩
  simpa [rowLex, pairLt] using hab

/-- `arcs()` of the weighted digraph: the same arcs without weights, ascending, each once. -/
theorem arcs_sorted_nodup (d : AdjListW) (h : d.WF) :
    d.arcs.Pairwise (fun a b => pairLt a b = true) ∧ d.arcs.Nodup ∧
    ∀ u v, (u, v) ∈ d.arcs ↔ d.abs.A u v = true := by
  have hp : d.arcs.Pairwise (fun a b => pairLt a b = true) := by
    simp only [arcs, List.pairwise_map]
    exact (arcsWeighted_sorted_nodup d h).1
  refine ⟨hp, sortedP_nodup hp, ?_⟩
  intro u v
  simp only [arcs, List.mem_map, Prod.mk.injEq, SpecState.A, Option.isSome_iff_exists]
  constructor
  · rintro ⟨⟨a, b, w⟩, hm, rfl, rfl⟩
    exact ⟨w, (mem_arcsWeighted d h _ _ _).mp hm⟩
  · rintro ⟨w, hw⟩
    exact ⟨(u, v, w), (mem_arcsWeighted d h _ _ _).mpr hw, rfl, rfl⟩

theorem vertices_spec (d : AdjListW) :
    d.vertices = List.range d.order ∧ ∀ x, x ∈ d.vertices ↔ d.abs.V x = true := by
  refine ⟨rfl, ?_⟩
  intro x; simp [vertices, abs]

theorem size_eq (d : AdjListW) : d.size = d.arcsWeighted.length := by
  rw [arcsWeighted_eq, length_flatRows]; rfl

theorem abs_valid (d : AdjListW) (h : d.WF) : d.abs.Valid := by
  intro u v huv
  simp only [SpecState.A, abs, Option.isSome_iff_exists] at huv
  obtain ⟨w, hw⟩ := huv
  have hm := (mem_arcsWeighted d h u v w).mpr hw
  rw [arcsWeighted_eq, mem_flatRows_zero] at hm
  obtain ⟨row, hrow, hv⟩ := hm
  have hq := (h.2 u row hrow).2 (v, w) hv
  have hu : u < d.order := by simp only [order]; exact (List.getElem?_eq_some_iff.mp hrow).1
  simp only [abs, decide_eq_true_eq]
  exact ⟨fun e => hq.2 e.symm, hu, hq.1⟩

/-- C20: a well-formed `AdjacencyListWeighted` is determined by its abstract weighted digraph. -/
theorem abs_injective (d₁ d₂ : AdjListW) (h₁ : d₁.WF) (h₂ : d₂.WF) : d₁.abs = d₂.abs ↔ d₁ = d₂ := by
  constructor
  · intro h
    have hV : d₁.order = d₂.order := lt_of_decide_lt_eq (congrArg SpecState.V h)
    have hrows : d₁.rows = d₂.rows := by
      apply List.ext_getElem?
      intro u
      by_cases hu : u < d₁.order
      · have hu2 : u < d₂.order := hV ▸ hu
        simp only [order] at hu hu2
        rw [List.getElem?_eq_getElem hu, List.getElem?_eq_getElem hu2]
        congr 1
        apply sortedK_ext (h₁.2 u _ (List.getElem?_eq_getElem hu)).1 (h₂.2 u _ (List.getElem?_eq_getElem hu2)).1
        intro v
        have := congrFun (congrFun (congrArg SpecState.W h) u) v
        simpa only [abs, arcWeight_eq, List.getElem?_eq_getElem hu, List.getElem?_eq_getElem hu2, Option.getD_some] using this
      · have hu2 : ¬ u < d₂.order := hV ▸ hu
        simp only [order] at hu hu2
        rw [List.getElem?_eq_none (by omega), List.getElem?_eq_none (by omega)]
    cases d₁; cases d₂; simp_all
  · rintro rfl; rfl

end GraafVerif.Repr.AdjListW
