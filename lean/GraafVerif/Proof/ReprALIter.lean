import GraafVerif.Model.ReprEqMxIter
import GraafVerif.Proof.ReprAL
/-!
# The literal `AdjacencyList::ArcsIterator` loop yields `AdjList.arcs`
-/
namespace GraafVerif.Repr.AdjList
open GraafVerif.Repr

def innerCells (u : Nat) : Option (List Nat) → List (Nat × Nat)
  | some r => r.map (fun v => (u - 1, v))
  | none => []

def innerLen : Option (List Nat) → Nat
  | some r => r.length
  | none => 0

def restM (rows : List (List Nat)) (u : Nat) : Nat := ((rows.drop u).map (fun r => r.length + 1)).sum

theorem restM_lt (rows : List (List Nat)) {u : Nat} (h : u < rows.length) :
    restM rows u = (rows[u]?.getD []).length + 1 + restM rows (u + 1) := by
  unfold restM
  rw [List.drop_eq_getElem_cons h]
  simp only [List.map_cons, List.sum_cons, List.getElem?_eq_getElem h, Option.getD_some]

theorem flatRows_drop_lt (rows : List (List Nat)) {u : Nat} (h : u < rows.length) :
    flatRows u (rows.drop u) = (rows[u]?.getD []).map (fun v => (u, v)) ++ flatRows (u + 1) (rows.drop (u + 1)) := by
  rw [List.drop_eq_getElem_cons h, flatRows_cons]
  simp only [List.getElem?_eq_getElem h, Option.getD_some]

theorem alDrain_eq (rows : List (List Nat)) : ∀ (fuel u : Nat) (inner : Option (List Nat)),
    innerLen inner + restM rows u < fuel →
    alDrain rows fuel u inner = innerCells u inner ++ flatRows u (rows.drop u) := by
  intro fuel
  induction fuel with
  | zero => intro u inner h; omega
  | succ fuel ih =>
    intro u inner hμ
    have hopen : (innerLen inner = 0) → alDrain rows (fuel + 1) u inner =
        (if u ≥ rows.length then [] else alDrain rows fuel (u + 1) (some (rows[u]?.getD []))) := by
      intro h0
      cases inner with
      | none => rfl
      | some r =>
        cases r with
        | nil => rfl
        | cons v rest => simp [innerLen] at h0
    cases inner with
    | some r =>
      cases r with
      | cons v rest =>
        simp only [alDrain]
        rw [ih u (some rest) (by simp only [innerLen, List.length_cons] at hμ ⊢; omega)]
        simp [innerCells]
      | nil =>
        rw [hopen rfl]
        by_cases hu : u ≥ rows.length
        · simp only [hu, if_true, innerCells, List.map_nil, List.nil_append]
          rw [List.drop_eq_nil_of_le hu]; rfl
        · have hu' : u < rows.length := by omega
          simp only [hu, if_false]
          rw [restM_lt rows hu'] at hμ
          rw [ih (u + 1) _ (by simp only [innerLen] at hμ ⊢; omega), flatRows_drop_lt rows hu']
          simp [innerCells]
    | none =>
      rw [hopen rfl]
      by_cases hu : u ≥ rows.length
      · simp only [hu, if_true, innerCells, List.nil_append]
        rw [List.drop_eq_nil_of_le hu]; rfl
      · have hu' : u < rows.length := by omega
        simp only [hu, if_false]
        rw [restM_lt rows hu'] at hμ
        rw [ih (u + 1) _ (by simp only [innerLen] at hμ ⊢; omega), flatRows_drop_lt rows hu']
        simp [innerCells]

theorem restM_zero (rows : List (List Nat)) : restM rows 0 = (rows.map List.length).sum + rows.length := by
  unfold restM
  simp only [List.drop_zero]
  induction rows with
  | nil => rfl
  | cons r rs ih => simp only [List.map_cons, List.sum_cons, List.length_cons, ih]; omega

/-- The literal hand-written iterator yields exactly `AdjList.arcs`. -/
theorem arcsIter_eq (d : AdjList) : arcsIter d = d.arcs := by
  unfold arcsIter
  rw [alDrain_eq d.rows _ 0 none (by simp only [innerLen, restM_zero, alFuel]; omega), arcs_eq]
  simp [innerCells]

/-- Fuel adequacy (termination of the loop). -/
theorem alDrain_fuel_irrelevant (rows : List (List Nat)) (u : Nat) (inner : Option (List Nat)) (f₁ f₂ : Nat)
    (h₁ : innerLen inner + restM rows u < f₁) (h₂ : innerLen inner + restM rows u < f₂) :
    alDrain rows f₁ u inner = alDrain rows f₂ u inner := by
  rw [alDrain_eq rows f₁ u inner h₁, alDrain_eq rows f₂ u inner h₂]

end GraafVerif.Repr.AdjList
