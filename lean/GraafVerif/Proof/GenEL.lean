import GraafVerif.Proof.GenAL
/-!
# C14, EdgeList: the collected arc sequences realise the defining arc sets
-/
namespace GraafVerif.Gen
open GraafVerif.Repr GraafVerif.GenSpec

namespace EL

theorem realises_of_list {l : List (Nat × Nat)} {n : Nat} {P : Nat → Nat → Prop} (hn : 0 < n)
    (hmem : ∀ u v, (u, v) ∈ l ↔ P u v) (hvalid : ∀ u v, P u v → u < n ∧ v < n ∧ u ≠ v) :
    Realises ⟨psetOf l, n⟩ n P := by
  refine ⟨⟨hn, sorted_psetOf l, ?_⟩, rfl, ?_⟩
  · intro a ha
    have : (a.1, a.2) ∈ l := mem_psetOf.mp ha
    exact hvalid a.1 a.2 ((hmem a.1 a.2).mp this)
  · intro u v
    show (u, v) ∈ psetOf l ↔ _
    rw [mem_psetOf, hmem]

theorem empty_spec {n : Nat} (hn : 1 ≤ n) : ∃ d, empty n = some d ∧ Realises d n (EmptyDef n) := by
  have h0 : n ≠ 0 := by omega
  refine ⟨⟨[], n⟩, by simp [empty, EdgeList.empty, h0], ⟨by show 0 < n; omega, by simp, by simp⟩, rfl, ?_⟩
  intro u v; simp [EmptyDef]

theorem trivial_realises {P : Nat → Nat → Prop} (hP : ∀ u v, ¬ P u v) :
    ∃ d, trivial = some d ∧ Realises d 1 P := by
  obtain ⟨d, hd, hwf, ho, harcs⟩ := empty_spec (n := 1) (Nat.le_refl 1)
  refine ⟨d, hd, hwf, ho, ?_⟩
  intro u v; rw [harcs]; simp [EmptyDef, hP]

theorem biclique_spec {m n : Nat} (hm : 1 ≤ m) (hn : 1 ≤ n) :
    ∃ d, biclique m n = some d ∧ Realises d (m + n) (BicliqueDef m n) := by
  unfold biclique
  have h0 : m ≠ 0 := by omega
  have h0' : n ≠ 0 := by omega
  simp only [h0, h0', if_false]
  refine ⟨_, rfl, realises_of_list (by omega) ?_ (fun u v h => bicliqueDef_valid h)⟩
  intro u v
  simp only [List.mem_append, List.mem_flatMap, List.mem_map, mem_rangeFT, Prod.mk.injEq, BicliqueDef]
  constructor
  · rintro (⟨a, ha, b, hb, rfl, rfl⟩ | ⟨a, ha, b, hb, rfl, rfl⟩)
    · left; omega
    · right; omega
  · rintro (h | h)
    · exact Or.inl ⟨u, by omega, v, by omega, rfl, rfl⟩
    · exact Or.inr ⟨u, by omega, v, by omega, rfl, rfl⟩

theorem claw_spec : ∃ d, claw = some d ∧ Realises d 4 (BicliqueDef 1 3) :=
  biclique_spec (Nat.le_refl 1) (by decide)
theorem utility_spec : ∃ d, utility = some d ∧ Realises d 6 (BicliqueDef 3 3) :=
  biclique_spec (by decide) (by decide)

theorem circuit_spec {n : Nat} (hn : 1 ≤ n) : ∃ d, circuit n = some d ∧ Realises d n (CircuitDef n) := by
  unfold circuit
  by_cases h1 : n = 1
  · subst h1
    simpa using trivial_realises (P := CircuitDef 1) (by intro u v h; unfold CircuitDef at h; omega)
  · have h0 : n ≠ 0 := by omega
    simp only [h0, h1, if_false]
    refine ⟨_, rfl, realises_of_list (by omega) ?_ (fun u v h => circuitDef_valid h)⟩
    intro u v
    simp only [List.mem_map, mem_rangeFT, Prod.mk.injEq, CircuitDef]
    constructor
    · rintro ⟨a, ha, rfl, rfl⟩; exact ⟨by omega, ha.2, rfl⟩
    · rintro ⟨_, hu, hv⟩; exact ⟨u, ⟨by omega, hu⟩, rfl, hv.symm⟩

theorem complete_spec {n : Nat} (hn : 1 ≤ n) : ∃ d, complete n = some d ∧ Realises d n (CompleteDef n) := by
  unfold complete
  by_cases h1 : n = 1
  · subst h1
    simpa using trivial_realises (P := CompleteDef 1) (by intro u v h; unfold CompleteDef at h; omega)
  · have h0 : n ≠ 0 := by omega
    simp only [h0, h1, if_false]
    refine ⟨_, rfl, realises_of_list (by omega) ?_ (fun u v h => completeDef_valid h)⟩
    intro u v
    simp only [List.mem_flatMap, List.mem_map, List.mem_append, mem_rangeFT, Prod.mk.injEq, CompleteDef]
    constructor
    · rintro ⟨a, ha, b, hb, rfl, rfl⟩; omega
    · rintro ⟨hu, hv, hne⟩; exact ⟨u, by omega, v, by omega, rfl, rfl⟩

theorem cycle_spec {n : Nat} (hn : 1 ≤ n) : ∃ d, cycle n = some d ∧ Realises d n (CycleDef n) := by
  unfold cycle
  by_cases h1 : n = 1
  · subst h1
    simpa using trivial_realises (P := CycleDef 1) (by intro u v h; unfold CycleDef CircuitDef at h; omega)
  · have h0 : n ≠ 0 := by omega
    simp only [h0, h1, if_false]
    refine ⟨_, rfl, realises_of_list (by omega) ?_ (fun u v h => cycleDef_valid h)⟩
    intro u v
    simp only [List.mem_flatMap, List.mem_map, List.mem_cons, List.not_mem_nil, or_false, mem_rangeFT,
      Prod.mk.injEq, CycleDef, CircuitDef]
    constructor
    · rintro ⟨a, ha, b, (rfl | rfl), rfl, rfl⟩
      · right
        have hu : a < n := ha.2
        rw [pred_mod hu]
        have hv : (if a = 0 then n - 1 else a - 1) < n := by split <;> omega
        refine ⟨by omega, hv, ?_⟩
        rw [succ_mod hv]
        split <;> split <;> omega
      · left; exact ⟨by omega, ha.2, rfl⟩
    · rintro (⟨_, hu, hv⟩ | ⟨_, hv, hu⟩)
      · exact ⟨u, ⟨by omega, hu⟩, v, Or.inr hv, rfl, rfl⟩
      · have hun : u < n := by
          rw [succ_mod hv] at hu; split at hu <;> omega
        refine ⟨u, ⟨by omega, hun⟩, v, Or.inl ?_, rfl, rfl⟩
        rw [pred_mod hun]
        rw [succ_mod hv] at hu
        split at hu <;> split <;> omega

theorem path_spec {n : Nat} (hn : 1 ≤ n) : ∃ d, path n = some d ∧ Realises d n (PathDef n) := by
  unfold path
  by_cases h1 : n = 1
  · subst h1
    simpa using trivial_realises (P := PathDef 1) (by intro u v h; unfold PathDef at h; omega)
  · have h0 : n ≠ 0 := by omega
    simp only [h0, h1, if_false]
    refine ⟨_, rfl, realises_of_list (by omega) ?_ (fun u v h => pathDef_valid h)⟩
    intro u v
    simp only [List.mem_map, mem_rangeFT, Prod.mk.injEq, PathDef]
    constructor
    · rintro ⟨a, ha, rfl, rfl⟩; omega
    · rintro ⟨h1, h2⟩; exact ⟨u, by omega, rfl, h2.symm⟩

theorem star_spec {n : Nat} (hn : 1 ≤ n) : ∃ d, star n = some d ∧ Realises d n (StarDef n) := by
  unfold star
  by_cases h1 : n = 1
  · subst h1
    simpa using trivial_realises (P := StarDef 1) (by intro u v h; unfold StarDef at h; omega)
  · have h0 : n ≠ 0 := by omega
    simp only [h0, h1, if_false]
    refine ⟨_, rfl, realises_of_list (by omega) ?_ (fun u v h => starDef_valid h)⟩
    intro u v
    simp only [List.mem_append, List.mem_map, mem_rangeFT, Prod.mk.injEq, StarDef]
    constructor
    · rintro (⟨a, ha, rfl, rfl⟩ | ⟨a, ha, rfl, rfl⟩)
      · left; omega
      · right; omega
    · rintro (h | h)
      · exact Or.inl ⟨v, by omega, h.1.symm, rfl⟩
      · exact Or.inr ⟨u, by omega, rfl, h.1.symm⟩

theorem wheel_spec {n : Nat} (hn : 4 ≤ n) : ∃ d, wheel n = some d ∧ Realises d n (WheelDef n) := by
  unfold wheel
  have h4 : ¬ ¬ n ≥ 4 := by omega
  simp only [h4, if_false]
  refine ⟨_, rfl, realises_of_list (by omega) ?_ (fun u v h => wheelDef_valid hn h)⟩
  intro u v
  simp only [List.mem_append, List.mem_flatMap, List.mem_map, List.mem_cons, List.not_mem_nil, or_false,
    mem_rangeFT, Prod.mk.injEq, WheelDef, StarDef, RimDef, rimNext]
  constructor
  · rintro (⟨a, ha, rfl, rfl⟩ | ⟨a, ha, b, (rfl | rfl | rfl), rfl, rfl⟩)
    · left; left; omega
    · left; right; omega
    · right; right
      refine ⟨by split <;> omega, by split <;> omega, ?_⟩
      split <;> split <;> omega
    · right; left; exact ⟨ha.1, ha.2, rfl⟩
  · rintro ((h | h) | (⟨h1, h2, h3⟩ | ⟨h1, h2, h3⟩))
    · exact Or.inl ⟨v, by omega, h.1.symm, rfl⟩
    · exact Or.inr ⟨u, by omega, v, Or.inl h.1, rfl, rfl⟩
    · exact Or.inr ⟨u, ⟨h1, h2⟩, v, Or.inr (Or.inr h3), rfl, rfl⟩
    · have hu : 1 ≤ u ∧ u < n := by split at h3 <;> omega
      refine Or.inr ⟨u, hu, v, Or.inr (Or.inl ?_), rfl, rfl⟩
      split at h3 <;> split <;> omega

end EL

/-! ## AdjacencyListWeighted: `Empty` only -/
namespace WL

theorem empty_spec {n : Nat} (hn : 1 ≤ n) : ∃ d, empty n = some d ∧ Realises d n (EmptyDef n) := by
  have h0 : n ≠ 0 := by omega
  refine ⟨⟨List.replicate n []⟩, by simp [empty, AdjListW.empty, h0], ?_⟩
  have hrow : ∀ (u : Nat) (row : List (Nat × Int)), (List.replicate n ([] : List (Nat × Int)))[u]? = some row → row = [] := by
    intro u row h
    rw [List.getElem?_replicate] at h
    split at h
    · exact (Option.some.inj h).symm
    · cases h
  refine ⟨⟨by simp [AdjListW.order]; omega, ?_⟩, by simp [AdjListW.order], ?_⟩
  · intro u row h
    have := hrow u row h; subst this
    simp [SortedK]
  · intro u v
    simp only [EmptyDef, iff_false]
    intro h
    unfold AdjListW.arcs AdjListW.arcsWeighted at h
    simp only [List.mem_map, List.mem_flatMap] at h
    obtain ⟨⟨a, b, w⟩, ⟨⟨row, i⟩, hmem, hx⟩, _⟩ := h
    rw [List.mem_zipIdx_iff_getElem?] at hmem
    have := hrow i row hmem; subst this
    simp at hx

end WL
end GraafVerif.Gen
