import GraafVerif.Proof.GenArcRepr
/-!
# AdjacencyMatrix: `empty` and `add_arc` at the bit level (the `ArcRepr` instance)

`cell d c` is bit `c % 64` of block `c / 64`; `arcs` lists the set cells `< order²` as
`(c / order, c % order)`.  `add_arc(u, v)` ORs `mask(u*order+v)` into block `(u*order+v) >> 6`.
-/
namespace GraafVerif.Gen
open GraafVerif.Repr

namespace MX

theorem getLsbD_mask (i j : Nat) (hj : j < 64) : (AdjMatrix.mask i).getLsbD j = decide (j = i % 64) := by
  unfold AdjMatrix.mask
  have hi : i % 64 < 64 := Nat.mod_lt _ (by decide)
  simp [hj]
  grind

theorem cell_lt {d : AdjMatrix} {c : Nat} (h : d.cell c = true) : c < 64 * d.blocks.length := by
  unfold AdjMatrix.cell at h
  by_cases hlt : c / 64 < d.blocks.length
  · omega
  · rw [List.getElem?_eq_none (by omega)] at h
    simp at h

/-- uniqueness of the row-major index -/
theorem index_inj {n u v u' v' : Nat} (hv : v < n) (hv' : v' < n) (h : u * n + v = u' * n + v') :
    u = u' ∧ v = v' := by
  have hn : 0 < n := by omega
  have h1 : (u * n + v) / n = u := by
    rw [Nat.mul_comm, Nat.mul_add_div hn, Nat.div_eq_of_lt hv]; rfl
  have h2 : (u' * n + v') / n = u' := by
    rw [Nat.mul_comm, Nat.mul_add_div hn, Nat.div_eq_of_lt hv']; rfl
  have hu : u = u' := by rw [← h1, ← h2, h]
  subst hu
  exact ⟨rfl, by omega⟩

theorem index_lt {n u v : Nat} (hu : u < n) (hv : v < n) : u * n + v < n * n := by
  have : (u + 1) * n ≤ n * n := Nat.mul_le_mul_right n hu
  rw [Nat.add_mul] at this
  omega

theorem mem_arcs {d : AdjMatrix} (hn : 0 < d.order) {u v : Nat} :
    (u, v) ∈ d.arcs ↔ u < d.order ∧ v < d.order ∧ d.cell (d.index u v) = true := by
  unfold AdjMatrix.arcs AdjMatrix.index
  simp only [List.mem_map, List.mem_filter, List.mem_range, Bool.and_eq_true, decide_eq_true_eq,
    Prod.mk.injEq]
  constructor
  · rintro ⟨c, ⟨_, hcell, hlt⟩, hu, hv⟩
    have hun : u < d.order := by rw [← hu]; exact (Nat.div_lt_iff_lt_mul hn).mpr hlt
    have hvn : v < d.order := by rw [← hv]; exact Nat.mod_lt _ hn
    refine ⟨hun, hvn, ?_⟩
    have : u * d.order + v = c := by
      rw [← hu, ← hv, Nat.mul_comm]; exact Nat.div_add_mod c d.order
    rw [this]; exact hcell
  · rintro ⟨hu, hv, hcell⟩
    refine ⟨u * d.order + v, ⟨cell_lt hcell, hcell, index_lt hu hv⟩, ?_, ?_⟩
    · rw [Nat.mul_comm, Nat.mul_add_div hn, Nat.div_eq_of_lt hv]; rfl
    · rw [Nat.mul_comm, Nat.mul_add_mod, Nat.mod_eq_of_lt hv]

/-- The cells after ORing `mask i` into block `i / 64`. -/
theorem cell_setBlock_or (d : AdjMatrix) (i c : Nat) (hi : i / 64 < d.blocks.length) :
    (d.setBlock i (· ||| AdjMatrix.mask i)).cell c = (d.cell c || decide (c = i)) := by
  unfold AdjMatrix.setBlock AdjMatrix.cell
  simp only [List.getElem?_set]
  have hc64 : c % 64 < 64 := Nat.mod_lt _ (by decide)
  by_cases hblk : i / 64 = c / 64
  · simp only [hblk, if_true]
    rw [hblk] at hi
    simp only [hi, if_true, Option.getD_some, BitVec.getLsbD_or, getLsbD_mask _ _ hc64]
    congr 1
    apply decide_eq_decide.mpr
    constructor
    · intro h; omega
    · intro h; rw [h]
  · simp only [hblk, if_false]
    have : c ≠ i := by intro h; rw [h] at hblk; exact hblk rfl
    simp [this]

theorem empty_spec {n : Nat} (hn : 1 ≤ n) (hfit : n * n < 2 ^ 64) :
    ∃ e, AdjMatrix.empty n = some e ∧ e.WF ∧ e.order = n ∧ ∀ u v, (u, v) ∉ e.arcs := by
  have h0 : n ≠ 0 := by omega
  have hge : ¬ n * n ≥ 2 ^ 64 := by omega
  refine ⟨⟨List.replicate ((n * n + 63) / 64) 0#64, n⟩, by simp [AdjMatrix.empty, h0, hge], ?_⟩
  have hcell : ∀ c, (⟨List.replicate ((n * n + 63) / 64) 0#64, n⟩ : AdjMatrix).cell c = false := by
    intro c
    unfold AdjMatrix.cell
    simp only [List.getElem?_replicate]
    split <;> simp
  refine ⟨⟨(by omega : 0 < n), by simp, fun c _ => hcell c, fun u _ => hcell _⟩, rfl, ?_⟩
  intro u v h
  rw [mem_arcs (d := ⟨List.replicate ((n * n + 63) / 64) 0#64, n⟩) (by show 0 < n; omega)] at h
  rw [hcell] at h
  exact absurd h.2.2 (by simp)

theorem addArc_spec (d : AdjMatrix) (u v : Nat) (hwf : d.WF) (huv : u ≠ v)
    (hu : u < d.order) (hv : v < d.order) :
    ∃ d', d.addArc u v = some d' ∧ d'.WF ∧ d'.order = d.order ∧
      ∀ a b, (a, b) ∈ d'.arcs ↔ (a, b) ∈ d.arcs ∨ (a = u ∧ b = v) := by
  obtain ⟨hn, hlen, hout, hdiag⟩ := hwf
  have hnu : ¬ ¬ u < d.order := by omega
  have hnv : ¬ ¬ v < d.order := by omega
  refine ⟨d.setBlock (d.index u v) (· ||| AdjMatrix.mask (d.index u v)),
    by simp [AdjMatrix.addArc, huv, hu, hv], ?_⟩
  have hidx : d.index u v < d.order * d.order := index_lt hu hv
  have hblk : d.index u v / 64 < d.blocks.length := by rw [hlen]; omega
  have hcell := fun c => cell_setBlock_or d (d.index u v) c hblk
  have hord : (d.setBlock (d.index u v) (· ||| AdjMatrix.mask (d.index u v))).order = d.order := rfl
  refine ⟨⟨by rw [hord]; exact hn, ?_, ?_, ?_⟩, hord, ?_⟩
  · rw [hord]; simp [AdjMatrix.setBlock, hlen]
  · intro c hc
    rw [hord] at hc
    rw [hcell, hout c hc]
    have : c ≠ d.index u v := by omega
    simp [this]
  · intro w hw
    rw [hord] at hw
    have : (d.setBlock (d.index u v) (· ||| AdjMatrix.mask (d.index u v))).index w w = d.index w w := rfl
    rw [this, hcell, hdiag w hw]
    have : d.index w w ≠ d.index u v := by
      intro h
      have := index_inj hw hv h
      omega
    simp [this]
  · intro a b
    rw [mem_arcs (by rw [hord]; exact hn), mem_arcs hn, hord]
    have hidx' : (d.setBlock (d.index u v) (· ||| AdjMatrix.mask (d.index u v))).index a b = d.index a b := rfl
    rw [hidx', hcell]
    simp only [Bool.or_eq_true, decide_eq_true_eq]
    constructor
    · rintro ⟨ha, hb, h | h⟩
      · exact Or.inl ⟨ha, hb, h⟩
      · exact Or.inr (index_inj hb hv h)
    · rintro (⟨ha, hb, h⟩ | ⟨rfl, rfl⟩)
      · exact ⟨ha, hb, Or.inl h⟩
      · exact ⟨hu, hv, Or.inr rfl⟩

/-- arcs of a well-formed matrix join distinct vertices of `0..order` -/
theorem arcs_valid {d : AdjMatrix} (hwf : d.WF) : ArcsValid d.order d.arcs := by
  intro a ha
  obtain ⟨hu, hv, hcell⟩ := (mem_arcs hwf.1).mp (show (a.1, a.2) ∈ d.arcs from ha)
  refine ⟨?_, hu, hv⟩
  intro e
  rw [← e, hwf.2.2.2 a.1 hu] at hcell
  cases hcell

/-- The `ArcRepr` instance of the matrix. -/
def repr : ArcRepr AdjMatrix where
  order := AdjMatrix.order
  has := fun d u v => (u, v) ∈ d.arcs
  WF := AdjMatrix.WF
  addArc := AdjMatrix.addArc
  addArc_spec := addArc_spec

end MX
end GraafVerif.Gen
