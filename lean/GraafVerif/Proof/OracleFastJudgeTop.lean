import GraafVerif.Proof.OracleFastJudge
/-!
# `forestJudgeRec` accepts exactly the complete, correctly annotated depth-first preorders

Loop level (`fjLoop_sound`, `fjLoop_complete`) and the final theorem `forestJudgeRec_iff`.
-/
namespace GraafVerif.OracleFastProof
open GraafVerif GraafVerif.OracleFast GraafVerif.Dfs GraafVerif.OracleProof

/-- "If reported, equal to": the shape of the driver's optional comparisons. -/
def OptEq {β : Type} (o : Option β) (b : β) : Prop := ∀ t, o = some t → t = b

theorem popCheck_iff {α : Type} [BEq α] [LawfulBEq α] (ds : Option (List α)) (w : α) (l : List α) :
    OptEq ds (w :: l) ↔ ∃ ds', popCheck ds w = some ds' ∧ OptEq ds' l := by
  unfold OptEq
  cases ds with
  | none =>
    constructor
    · intro _; exact ⟨none, rfl, fun t ht => by cases ht⟩
    · intro _ t ht; cases ht
  | some d =>
    cases d with
    | nil =>
      constructor
      · intro h; have := h [] rfl; cases this
      · rintro ⟨ds', h, _⟩; cases h
    | cons a r =>
      by_cases haw : a = w
      · subst haw
        constructor
        · intro h
          have := h (a :: r) rfl
          refine ⟨some r, by simp [popCheck], fun t ht => ?_⟩
          cases ht
          exact (List.cons.inj this).2
        · rintro ⟨ds', h, h2⟩ t ht
          cases ht
          simp only [popCheck, beq_self_eq_true, if_true] at h
          cases h
          rw [h2 r rfl]
      · constructor
        · intro h
          have := h (a :: r) rfl
          exact absurd (List.cons.inj this).1 haw
        · rintro ⟨ds', h, _⟩
          have : (a == w) = false := beq_eq_false_iff_ne.mpr haw
          simp only [popCheck, this, Bool.false_eq_true, if_false] at h
          cases h

theorem leftover_iff {α : Type} (ds : Option (List α)) : leftover ds = false ↔ OptEq ds [] := by
  unfold OptEq
  cases ds with
  | none => exact ⟨fun _ t ht => (by cases ht), fun _ => rfl⟩
  | some d =>
    cases d with
    | nil => exact ⟨fun _ t ht => (by cases ht; rfl), fun _ => rfl⟩
    | cons a r =>
      constructor
      · intro h; cases h
      · intro h; have := h (a :: r) rfl; cases this

theorem annotateFrom_cons (g : Graph) (S : List Nat) (s : Search) (x : Nat) (xs : List Nat) :
    annotateFrom g S s (x :: xs) =
      match expect g S s x with
      | none => none
      | some a => (annotateFrom g S (advance g s x) xs).map ((x, a) :: ·) := rfl

theorem expect_not_mem {g : Graph} {S : List Nat} {s : Search} {x : Nat} {a : Option Nat × Nat}
    (h : expect g S s x = some a) : x ∉ s.yielded := by
  unfold expect at h
  split at h
  · cases h
  · rename_i hc; simpa using hc

/-- A valid sequence never repeats a vertex. -/
theorem annotateFrom_nodup {g : Graph} {S : List Nat} : ∀ (xs : List Nat) (s : Search) (ann : List Ann),
    annotateFrom g S s xs = some ann → s.yielded.Nodup → (s.yielded ++ xs).Nodup := by
  intro xs
  induction xs with
  | nil => intro s ann _ h; simpa using h
  | cons x rest ih =>
    intro s ann h hnd
    rw [annotateFrom_cons] at h
    cases he : expect g S s x with
    | none => rw [he] at h; cases h
    | some a =>
      rw [he] at h
      simp only [] at h
      cases hr : annotateFrom g S (advance g s x) rest with
      | none => rw [hr] at h; cases h
      | some ann' =>
        have hx := expect_not_mem he
        have hnd' : (advance g s x).yielded.Nodup := by
          show (s.yielded ++ [x]).Nodup
          rw [List.nodup_append]
          refine ⟨hnd, by simp, ?_⟩
          intro a ha b hb
          rw [List.mem_singleton.mp hb]
          exact fun hh => hx (hh ▸ ha)
        have := ih _ ann' hr hnd'
        show (s.yielded ++ x :: rest).Nodup
        have e : s.yielded ++ x :: rest = (s.yielded ++ [x]) ++ rest := by simp
        rw [e]; exact this

section loop
variable {g : Graph} {S : List Nat} {par : Array (Option Nat)} {reach : Array Bool}

theorem fjLoop_sound (hF : IsForest g S par) : ∀ (xs : List Nat) (st : FjState) (s : Search)
    (ds : Option (List Nat)) (ps : Option (List (Option Nat))) (st' : FjState), FjInv g par st s →
    fjLoop g S par reach st xs ds ps = .ok st' →
    ∃ ann s', annotateFrom g S s xs = some ann ∧ OptEq ds (ann.map (·.2.2)) ∧ OptEq ps (ann.map (·.2.1)) ∧
      (∀ x ∈ xs, x < g.n ∧ reach.getD x false = true) ∧ FjInv g par st' s' ∧ s'.yielded = s.yielded ++ xs ∧
      (∀ a ∈ ann, a.2.1 = par.getD a.1 none) ∧ ann.map (·.1) = xs := by
  intro xs
  induction xs with
  | nil =>
    intro st s ds ps st' hinv h
    unfold fjLoop at h
    split at h
    · cases h
    · rename_i hl
      cases h
      simp only [Bool.or_eq_true, not_or, Bool.not_eq_true] at hl
      exact ⟨[], s, rfl, (leftover_iff ds).mp hl.1, (leftover_iff ps).mp hl.2, fun _ hx => (by cases hx), hinv,
        by simp, fun _ ha => (by cases ha), rfl⟩
  | cons x rest ih =>
    intro st s ds ps st' hinv h
    unfold fjLoop at h
    cases hstep : fjStep g S par reach st x with
    | error e => rw [hstep] at h; cases h
    | ok r =>
      obtain ⟨st1, wp, wd⟩ := r
      rw [hstep] at h
      simp only [] at h
      obtain ⟨hx, hr, hexp, hinv1, hwp⟩ := fjStep_sound hF hinv hstep
      cases hd : popCheck ds wd with
      | none => rw [hd] at h; cases h
      | some ds' =>
        rw [hd] at h
        simp only [] at h
        cases hp : popCheck ps wp with
        | none => rw [hp] at h; cases h
        | some ps' =>
          rw [hp] at h
          simp only [] at h
          obtain ⟨ann', s', hann, hds, hps, hall, hinv', hy, hpar, hfst⟩ := ih st1 _ ds' ps' st' hinv1 h
          refine ⟨(x, (wp, wd)) :: ann', s', ?_, ?_, ?_, ?_, hinv', ?_, ?_, ?_⟩
          · rw [annotateFrom_cons, hexp]; simp only []; rw [hann]; rfl
          · exact (popCheck_iff ds wd _).mpr ⟨ds', hd, hds⟩
          · exact (popCheck_iff ps wp _).mpr ⟨ps', hp, hps⟩
          · intro y hy'
            rcases List.mem_cons.mp hy' with rfl | hy'
            · exact ⟨hx, hr⟩
            · exact hall y hy'
          · rw [hy]; show (s.yielded ++ [x]) ++ rest = _; simp
          · intro a ha
            rcases List.mem_cons.mp ha with rfl | ha
            · exact hwp
            · exact hpar a ha
          · simp [hfst]

theorem fjLoop_complete (hF : IsForest g S par) : ∀ (xs : List Nat) (st : FjState) (s : Search)
    (ds : Option (List Nat)) (ps : Option (List (Option Nat))) (ann : List Ann), FjInv g par st s →
    annotateFrom g S s xs = some ann → OptEq ds (ann.map (·.2.2)) → OptEq ps (ann.map (·.2.1)) →
    (∀ x ∈ xs, x < g.n ∧ reach.getD x false = true) →
    ∃ st', fjLoop g S par reach st xs ds ps = .ok st' := by
  intro xs
  induction xs with
  | nil =>
    intro st s ds ps ann _ h hds hps _
    cases h
    unfold fjLoop
    rw [(leftover_iff ds).mpr hds, (leftover_iff ps).mpr hps]
    exact ⟨st, rfl⟩
  | cons x rest ih =>
    intro st s ds ps ann hinv h hds hps hall
    rw [annotateFrom_cons] at h
    cases he : expect g S s x with
    | none => rw [he] at h; cases h
    | some a =>
      rw [he] at h
      simp only [] at h
      cases hr : annotateFrom g S (advance g s x) rest with
      | none => rw [hr] at h; cases h
      | some ann' =>
        rw [hr] at h
        cases h
        obtain ⟨hx, hrx⟩ := hall x List.mem_cons_self
        obtain ⟨st1, hstep⟩ := fjStep_complete hF hinv hx hrx he
        obtain ⟨_, _, _, hinv1, _⟩ := fjStep_sound hF hinv hstep
        obtain ⟨ds', hd, hds'⟩ := (popCheck_iff ds a.2 _).mp hds
        obtain ⟨ps', hp, hps'⟩ := (popCheck_iff ps a.1 _).mp hps
        obtain ⟨st', hloop⟩ := ih st1 _ ds' ps' ann' hinv1 hr hds' hps'
          (fun y hy => hall y (List.mem_cons_of_mem _ hy))
        refine ⟨st', ?_⟩
        unfold fjLoop
        rw [hstep]
        simp only []
        rw [hd]
        simp only []
        rw [hp]
        simp only []
        exact hloop

end loop

/-! ## The final checks -/

/-- Pigeonhole: a duplicate-free sublist-by-membership of full length covers the list. -/
theorem subset_of_length_le {l₁ l₂ : List Nat} (hnd : l₁.Nodup) (hsub : l₁ ⊆ l₂) (hlen : l₂.length ≤ l₁.length) :
    l₂ ⊆ l₁ := by
  intro v hv
  apply Classical.byContradiction
  intro hn
  have hsub' : l₁ ⊆ l₂.erase v := by
    intro x hx
    have hxv : x ≠ v := fun h => hn (h ▸ hx)
    exact (List.mem_erase_of_ne hxv).mpr (hsub hx)
  have h1 := hnd.length_le_of_subset hsub'
  have h2 : (l₂.erase v).length = l₂.length - 1 := by rw [List.length_erase]; simp [hv]
  have h3 := List.length_pos_of_mem hv
  omega

theorem forestOf_eq (n : Nat) (ann : List Ann) (par : Array (Option Nat))
    (hpar : ∀ a ∈ ann, a.2.1 = par.getD a.1 none) (seen : Nat → Bool)
    (hseen : ∀ v, seen v = true ↔ v ∈ ann.map (·.1)) :
    forestOf n ann = (List.range n).map (fun v => if seen v then par.getD v none else none) := by
  unfold forestOf
  apply List.map_congr_left
  intro v _
  cases hf : ann.find? (fun a => a.1 == v) with
  | none =>
    have hnot : ¬ seen v = true := by
      rw [hseen v, List.mem_map]
      rintro ⟨a, ha, hav⟩
      have := List.find?_eq_none.mp hf a ha
      simp [hav] at this
    simp only []
    rw [if_neg hnot]
  | some a =>
    have ha := List.mem_of_find?_eq_some hf
    have hav : a.1 = v := by simpa using List.find?_some hf
    have : seen v = true := (hseen v).mpr (List.mem_map.mpr ⟨a, ha, hav⟩)
    simp only []
    rw [if_pos this, hpar a ha, hav]

/-- **`forestJudgeRec` accepts exactly the complete depth-first preorders with the reported
annotations.** -/
theorem forestJudgeRec_iff {g : Graph} (hwf : g.WF) {S : List Nat} {par : Array (Option Nat)}
    (hF : IsForest g S par) (xs : List Nat) (depths : Option (List Nat)) (preds : Option (List (Option Nat)))
    (tree : Option (List (Option Nat))) :
    forestJudgeRec g S par xs depths preds tree = none ↔
    ∃ ann, annotate g S xs = some ann ∧ OptEq depths (ann.map (·.2.2)) ∧ OptEq preds (ann.map (·.2.1)) ∧
      OptEq tree (forestOf g.n ann) ∧ Exact g S xs := by
  have hspec := fun v => OracleFastProof.reachFast_eq hwf hF.srcLt ▸ OracleProof.reachSetB_spec hwf hF.srcLt v
  have hlen : (reachFast g S).length = g.n := by
    rw [OracleFastProof.reachFast_eq hwf hF.srcLt]; exact OracleProof.reachSetB_length hwf S
  have hreach : ∀ v, (reachFast g S).toArray.getD v false = true ↔ ReachFrom g S v := by
    intro v
    rw [← hspec v]
    simp [Array.getD_eq_getD_getElem?]
  have hreach_lt : ∀ v, (reachFast g S).toArray.getD v false = true → v < g.n := by
    intro v hv
    have := getD_lt hv (by simp)
    simpa [hlen] using this
  -- the reachable vertices as a list
  have hL : ∀ v, v ∈ (List.range g.n).filter (fun v => (reachFast g S).toArray.getD v false) ↔ ReachFrom g S v := by
    intro v
    rw [List.mem_filter, List.mem_range, hreach v]
    exact ⟨fun h => h.2, fun h => ⟨hreach_lt v ((hreach v).mpr h), h⟩⟩
  have hLnd : ((List.range g.n).filter (fun v => (reachFast g S).toArray.getD v false)).Nodup :=
    (List.nodup_range).sublist List.filter_sublist
  unfold forestJudgeRec
  simp only []
  constructor
  · intro h
    cases hloop : fjLoop g S par (reachFast g S).toArray (fjInit g) xs depths preds with
    | error e => rw [hloop] at h; cases h
    | ok st =>
      rw [hloop] at h
      simp only [] at h
      obtain ⟨ann, s', hann, hds, hps, hall, hinv', hy, hpar, hfst⟩ :=
        fjLoop_sound hF xs _ _ depths preds st (initInv g par) hloop
      have hnd : xs.Nodup := by simpa using annotateFrom_nodup xs ⟨[], []⟩ ann hann List.nodup_nil
      split at h
      · cases h
      rename_i hcnt
      have hcnt' : ((List.range g.n).filter (fun v => (reachFast g S).toArray.getD v false)).length = xs.length := by
        simpa using hcnt
      have hsub : xs ⊆ (List.range g.n).filter (fun v => (reachFast g S).toArray.getD v false) :=
        fun x hx => (hL x).mpr ((hreach x).mp (hall x hx).2)
      have hcover := subset_of_length_le hnd hsub (by omega)
      refine ⟨ann, hann, hds, hps, ?_, hnd, fun v => ⟨fun hv => (hL v).mp (hsub hv), fun hv => hcover ((hL v).mpr hv)⟩⟩
      intro t ht
      subst ht
      simp only [] at h
      split at h
      · rename_i heq
        have heq' := eq_of_beq heq
        rw [heq']
        symm
        apply forestOf_eq g.n ann par hpar
        intro v
        rw [hinv'.seen v, hy, hfst]; simp
      · cases h
  · rintro ⟨ann, hann, hds, hps, htree, hnd, hex⟩
    have hall : ∀ x ∈ xs, x < g.n ∧ (reachFast g S).toArray.getD x false = true := by
      intro x hx
      have := (hreach x).mpr ((hex x).mp hx)
      exact ⟨hreach_lt x this, this⟩
    obtain ⟨st, hloop⟩ := fjLoop_complete hF xs _ _ depths preds ann (initInv g par) hann hds hps hall
    obtain ⟨ann2, s', hann2, _, _, _, hinv', hy, hpar, hfst⟩ :=
      fjLoop_sound hF xs _ _ depths preds st (initInv g par) hloop
    have hann' : annotateFrom g S ⟨[], []⟩ xs = some ann := hann
    rw [hann'] at hann2
    cases hann2
    rw [hloop]
    simp only []
    have hsub : xs ⊆ (List.range g.n).filter (fun v => (reachFast g S).toArray.getD v false) :=
      fun x hx => (hL x).mpr ((hex x).mp hx)
    have hsup : (List.range g.n).filter (fun v => (reachFast g S).toArray.getD v false) ⊆ xs :=
      fun v hv => (hex v).mpr ((hL v).mp hv)
    have h1 := hnd.length_le_of_subset hsub
    have h2 := hLnd.length_le_of_subset hsup
    have hcnt : ((List.range g.n).filter (fun v => (reachFast g S).toArray.getD v false)).length = xs.length := by
      omega
    rw [if_neg (by rw [hcnt]; simp)]
    cases tree with
    | none => rfl
    | some t =>
      simp only []
      have ht := htree t rfl
      have hfo := forestOf_eq g.n ann par hpar (fun v => st.seen.getD v false) (fun v => by
        rw [hinv'.seen v, hy, hfst]; simp)
      rw [if_pos (by rw [ht, hfo]; exact beq_self_eq_true _)]

/-! ## In the vocabulary of `Spec/Dfs.lean` (`DfsOK`, `DfsDistOK`, `DfsPredOK`) -/

theorem annotateFrom_fst {g : Graph} {S : List Nat} : ∀ (xs : List Nat) (s : Search) (ann : List Ann),
    annotateFrom g S s xs = some ann → ann.map (·.1) = xs := by
  intro xs
  induction xs with
  | nil => intro s ann h; cases h; rfl
  | cons x rest ih =>
    intro s ann h
    rw [annotateFrom_cons] at h
    cases he : expect g S s x with
    | none => rw [he] at h; cases h
    | some a =>
      rw [he] at h
      simp only [] at h
      cases hr : annotateFrom g S (advance g s x) rest with
      | none => rw [hr] at h; cases h
      | some ann' =>
        rw [hr] at h
        cases h
        simp [ih _ _ hr]

theorem unzip_eq {α β γ : Type} (f : γ → α) (h : γ → β) : ∀ (l : List (α × β)) (m : List γ),
    l.map Prod.fst = m.map f → l.map Prod.snd = m.map h → l = m.map (fun a => (f a, h a)) := by
  intro l
  induction l with
  | nil =>
    intro m h1 _
    cases m with
    | nil => rfl
    | cons a r => cases h1
  | cons x rest ih =>
    intro m h1 h2
    cases m with
    | nil => cases h1
    | cons a r =>
      simp only [List.map_cons, List.cons.injEq] at h1 h2 ⊢
      exact ⟨Prod.ext h1.1 h2.1, ih r h1.2 h2.2⟩

theorem optEq_none {β : Type} (b : β) : OptEq (none : Option β) b := fun _ h => by cases h

theorem optEq_some {β : Type} {a b : β} : OptEq (some a) b ↔ a = b :=
  ⟨fun h => h a rfl, fun h t ht => by cases ht; exact h⟩

section vocab
variable {g : Graph} {S : List Nat} {par : Array (Option Nat)}

/-- `Dfs` items. -/
theorem forestJudgeRec_dfs (hwf : g.WF) (hF : IsForest g S par) (xs : List Nat) :
    forestJudgeRec g S par xs none none none = none ↔ DfsOK g S xs := by
  rw [forestJudgeRec_iff hwf hF]
  unfold DfsOK ValidDfsPreorder
  constructor
  · rintro ⟨ann, hann, _, _, _, hex⟩
    exact ⟨hex, by rw [hann]; rfl⟩
  · rintro ⟨hex, hv⟩
    cases hann : annotate g S xs with
    | none => rw [hann] at hv; cases hv
    | some ann => exact ⟨ann, rfl, optEq_none _, optEq_none _, optEq_none _, hex⟩

/-- `DfsDist` items `(v, depth)`. -/
theorem forestJudgeRec_dist (hwf : g.WF) (hF : IsForest g S par) (items : List (Nat × Nat)) :
    forestJudgeRec g S par (items.map (·.1)) (some (items.map (·.2))) none none = none ↔ DfsDistOK g S items := by
  rw [forestJudgeRec_iff hwf hF]
  unfold DfsDistOK
  constructor
  · rintro ⟨ann, hann, hds, _, _, hex⟩
    refine ⟨hex, ann, hann, ?_⟩
    exact unzip_eq (fun a : Ann => a.1) (fun a : Ann => a.2.2) items ann (annotateFrom_fst _ _ _ hann).symm
      (optEq_some.mp hds)
  · rintro ⟨hex, ann, hann, hitems⟩
    refine ⟨ann, hann, optEq_some.mpr ?_, optEq_none _, optEq_none _, hex⟩
    rw [hitems]; simp

/-- `DfsPred` items `(v, pred)` and `predecessors()`. -/
theorem forestJudgeRec_pred (hwf : g.WF) (hF : IsForest g S par) (items : List (Nat × Option Nat))
    (tree : List (Option Nat)) :
    forestJudgeRec g S par (items.map (·.1)) none (some (items.map (·.2))) (some tree) = none ↔
      DfsPredOK g S items tree := by
  rw [forestJudgeRec_iff hwf hF]
  unfold DfsPredOK
  constructor
  · rintro ⟨ann, hann, _, hps, ht, hex⟩
    refine ⟨hex, ann, hann, ?_, optEq_some.mp ht⟩
    exact unzip_eq (fun a : Ann => a.1) (fun a : Ann => a.2.1) items ann (annotateFrom_fst _ _ _ hann).symm
      (optEq_some.mp hps)
  · rintro ⟨hex, ann, hann, hitems, ht⟩
    refine ⟨ann, hann, optEq_none _, optEq_some.mpr ?_, optEq_some.mpr ht, hex⟩
    rw [hitems]; simp

end vocab

end GraafVerif.OracleFastProof
