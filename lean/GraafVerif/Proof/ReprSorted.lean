import GraafVerif.Model.Repr
/-!
# Laws of the sorted-list containers of `Model/Repr.lean`

`BTreeSet<usize>` (`sinsert / serase / SortedS`), `BTreeSet<(usize,usize)>`
(`pinsert / perase / pairLt`) and `BTreeMap<usize, X>` (`mget / mupsert / merase / SortedK`).
The two set families are instances of one generic ordered insert / erase over a strict total
order given as a `Bool`-valued `lt` (`oinsert / oerase`), so every law is proved once.

Main laws: membership after insert / erase, sortedness is preserved, extensionality of
strictly sorted lists (`…_ext`: same members ⇒ same list), idempotence of insert, erase after
insert restores, lengths.
-/
namespace GraafVerif.Repr

/-! ## Generic ordered sets -/

section Generic
variable {α : Type} [DecidableEq α]

def oinsert (lt : α → α → Bool) (x : α) : List α → List α
  | [] => [x]
  | y :: ys => if lt x y then x :: y :: ys else if x = y then y :: ys else y :: oinsert lt x ys

def oerase (lt : α → α → Bool) (x : α) : List α → List α
  | [] => []
  | y :: ys => if x = y then ys else if lt x y then y :: ys else y :: oerase lt x ys

/-- `lt` is a strict total order. -/
structure StrictTotal (lt : α → α → Bool) : Prop where
  irrefl : ∀ a, lt a a = false
  trans : ∀ a b c, lt a b = true → lt b c = true → lt a c = true
  tri : ∀ a b, lt a b = false → a ≠ b → lt b a = true

abbrev OSorted (lt : α → α → Bool) (l : List α) : Prop := l.Pairwise (fun a b => lt a b = true)

variable {lt : α → α → Bool}

theorem mem_oinsert {x a : α} {l : List α} : a ∈ oinsert lt x l ↔ a = x ∨ a ∈ l := by
  induction l with
  | nil => simp [oinsert]
  | cons y ys ih =>
    simp only [oinsert]
    split
    · simp
    · split
      · rename_i h; subst h; simp
      · simp [ih]; grind

omit [DecidableEq α] in
theorem StrictTotal.asymm (st : StrictTotal lt) {a b : α} (h : lt a b = true) : lt b a = false := by
  cases hba : lt b a with
  | false => rfl
  | true => have := st.trans a b a h hba; rw [st.irrefl] at this; exact absurd this (by decide)

omit [DecidableEq α] in
theorem StrictTotal.ne (st : StrictTotal lt) {a b : α} (h : lt a b = true) : a ≠ b := by
  intro e; subst e; rw [st.irrefl] at h; exact absurd h (by decide)

theorem osorted_oinsert (st : StrictTotal lt) {x : α} {l : List α} (h : OSorted lt l) :
    OSorted lt (oinsert lt x l) := by
  induction l with
  | nil => simp [oinsert]
  | cons y ys ih =>
    simp only [oinsert]
    have hy := List.pairwise_cons.mp h
    split
    · rename_i hxy
      refine List.pairwise_cons.mpr ⟨?_, h⟩
      intro a ha
      rcases List.mem_cons.mp ha with rfl | ha
      · exact hxy
      · exact st.trans _ _ _ hxy (hy.1 a ha)
    · split
      · exact h
      · rename_i hxy hne
        refine List.pairwise_cons.mpr ⟨?_, ih hy.2⟩
        intro a ha
        rcases mem_oinsert.mp ha with rfl | ha
        · exact st.tri _ _ (Bool.eq_false_iff.mpr hxy) hne
        · exact hy.1 a ha

theorem oerase_sublist {x : α} {l : List α} : (oerase lt x l).Sublist l := by
  induction l with
  | nil => simp [oerase]
  | cons y ys ih =>
    simp only [oerase]
    split
    · exact List.sublist_cons_self _ _
    · split
      · exact List.Sublist.refl _
      · exact List.Sublist.cons_cons _ ih

theorem osorted_oerase {x : α} {l : List α} (h : OSorted lt l) : OSorted lt (oerase lt x l) :=
  List.Pairwise.sublist oerase_sublist h

theorem mem_oerase (st : StrictTotal lt) {x a : α} {l : List α} (h : OSorted lt l) :
    a ∈ oerase lt x l ↔ a ∈ l ∧ a ≠ x := by
  induction l with
  | nil => simp [oerase]
  | cons y ys ih =>
    have hy := List.pairwise_cons.mp h
    simp only [oerase]
    split
    · rename_i hxy; subst hxy
      constructor
      · intro ha; exact ⟨List.mem_cons_of_mem _ ha, st.ne (hy.1 a ha) |> Ne.symm⟩
      · rintro ⟨ha, hne⟩
        rcases List.mem_cons.mp ha with rfl | ha
        · exact absurd rfl hne
        · exact ha
    · rename_i hne
      split
      · rename_i hxy
        constructor
        · intro ha
          refine ⟨ha, ?_⟩
          rintro rfl
          rcases List.mem_cons.mp ha with rfl | ha
          · exact hne rfl
          · have := st.asymm (hy.1 a ha); rw [hxy] at this; exact absurd this (by decide)
        · exact fun h => h.1
      · simp only [List.mem_cons, ih hy.2]
        constructor
        · rintro (rfl | ⟨ha, hax⟩)
          · exact ⟨Or.inl rfl, fun e => hne e.symm⟩
          · exact ⟨Or.inr ha, hax⟩
        · rintro ⟨rfl | ha, hax⟩
          · exact Or.inl rfl
          · exact Or.inr ⟨ha, hax⟩

omit [DecidableEq α] in
/-- Extensionality: two strictly sorted lists with the same members are equal. -/
theorem osorted_ext (st : StrictTotal lt) : ∀ {l₁ l₂ : List α}, OSorted lt l₁ → OSorted lt l₂ →
    (∀ a, a ∈ l₁ ↔ a ∈ l₂) → l₁ = l₂
  | [], [], _, _, _ => rfl
  | [], y :: ys, _, _, h => absurd ((h y).mpr (List.mem_cons_self ..)) (by simp)
  | x :: xs, [], _, _, h => absurd ((h x).mp (List.mem_cons_self ..)) (by simp)
  | x :: xs, y :: ys, h₁, h₂, h => by
    have hx := List.pairwise_cons.mp h₁
    have hy := List.pairwise_cons.mp h₂
    have hxy : x = y := by
      have h1 := (h x).mp (List.mem_cons_self ..)
      have h2 := (h y).mpr (List.mem_cons_self ..)
      rcases List.mem_cons.mp h1 with e | h1
      · exact e
      · rcases List.mem_cons.mp h2 with e | h2
        · exact e.symm
        · have a := hy.1 x h1
          have b := hx.1 y h2
          have := st.asymm a; rw [b] at this; exact absurd this (by decide)
    subst hxy
    congr 1
    apply osorted_ext st hx.2 hy.2
    intro a
    constructor
    · intro ha
      have := (h a).mp (List.mem_cons_of_mem _ ha)
      rcases List.mem_cons.mp this with rfl | h'
      · have := hx.1 a ha; rw [st.irrefl] at this; exact absurd this (by decide)
      · exact h'
    · intro ha
      have := (h a).mpr (List.mem_cons_of_mem _ ha)
      rcases List.mem_cons.mp this with rfl | h'
      · have := hy.1 a ha; rw [st.irrefl] at this; exact absurd this (by decide)
      · exact h'

theorem oinsert_of_mem (st : StrictTotal lt) {x : α} {l : List α} (h : OSorted lt l) (hx : x ∈ l) :
    oinsert lt x l = l :=
  osorted_ext st (osorted_oinsert st h) h (by
    intro a; rw [mem_oinsert]; constructor
    · rintro (rfl | h) <;> assumption
    · exact Or.inr)

theorem oerase_of_not_mem (st : StrictTotal lt) {x : α} {l : List α} (h : OSorted lt l) (hx : x ∉ l) :
    oerase lt x l = l :=
  osorted_ext st (osorted_oerase h) h (by
    intro a; rw [mem_oerase st h]; constructor
    · exact fun h => h.1
    · intro ha; exact ⟨ha, fun e => hx (e ▸ ha)⟩)

/-- Removing what was just added restores the set (no residue). -/
theorem oerase_oinsert (st : StrictTotal lt) {x : α} {l : List α} (h : OSorted lt l) (hx : x ∉ l) :
    oerase lt x (oinsert lt x l) = l :=
  osorted_ext st (osorted_oerase (osorted_oinsert st h)) h (by
    intro a; rw [mem_oerase st (osorted_oinsert st h), mem_oinsert]
    constructor
    · rintro ⟨rfl | ha, hne⟩
      · exact absurd rfl hne
      · exact ha
    · intro ha; exact ⟨Or.inr ha, fun e => hx (e ▸ ha)⟩)

/-- Insertion order does not matter. -/
theorem oinsert_comm (st : StrictTotal lt) {x y : α} {l : List α} (h : OSorted lt l) :
    oinsert lt x (oinsert lt y l) = oinsert lt y (oinsert lt x l) :=
  osorted_ext st (osorted_oinsert st (osorted_oinsert st h)) (osorted_oinsert st (osorted_oinsert st h)) (by
    intro a; simp only [mem_oinsert]; constructor <;> rintro (h | h | h) <;> simp [h])

omit [DecidableEq α] in
theorem osorted_nodup (st : StrictTotal lt) {l : List α} (h : OSorted lt l) : l.Nodup :=
  List.Pairwise.imp (fun hab => st.ne hab) h

theorem length_oinsert_aux (st : StrictTotal lt) {x : α} {l : List α} (h : OSorted lt l) :
    (oinsert lt x l).length = if x ∈ l then l.length else l.length + 1 := by
  induction l with
  | nil => simp [oinsert]
  | cons y ys ih =>
    have hy := List.pairwise_cons.mp h
    simp only [oinsert]
    split
    · rename_i hxy
      have : x ∉ y :: ys := by
        intro hm
        rcases List.mem_cons.mp hm with rfl | hm
        · rw [st.irrefl] at hxy; exact absurd hxy (by decide)
        · have := st.asymm (hy.1 x hm); rw [hxy] at this; exact absurd this (by decide)
      simp [this]
    · split
      · rename_i e; subst e; simp
      · rename_i hne
        simp only [List.length_cons, ih hy.2, List.mem_cons, hne, false_or]
        split <;> rfl

theorem length_oerase_aux (st : StrictTotal lt) {x : α} {l : List α} (h : OSorted lt l) :
    (oerase lt x l).length = if x ∈ l then l.length - 1 else l.length := by
  by_cases hx : x ∈ l
  · simp only [hx, if_true]
    induction l with
    | nil => simp at hx
    | cons y ys ih =>
      have hy := List.pairwise_cons.mp h
      simp only [oerase]
      split
      · simp
      · rename_i hne
        have hx' : x ∈ ys := by
          rcases List.mem_cons.mp hx with e | h'
          · exact absurd e hne
          · exact h'
        split
        · rename_i hxy
          have := st.asymm (hy.1 x hx'); rw [hxy] at this; exact absurd this (by decide)
        · have := ih hy.2 hx'
          have hpos : 0 < ys.length := List.length_pos_of_mem hx'
          simp only [List.length_cons, this]; omega
  · simp only [hx, if_false]; rw [oerase_of_not_mem st h hx]

/-- Instance-independent forms (the `Decidable (x ∈ l)` instance is arbitrary). -/
theorem length_oinsert (st : StrictTotal lt) {x : α} {l : List α} (h : OSorted lt l)
    [inst : Decidable (x ∈ l)] :
    (oinsert lt x l).length = if x ∈ l then l.length else l.length + 1 := by
  rw [length_oinsert_aux st h]; split <;> simp [*]

theorem length_oerase (st : StrictTotal lt) {x : α} {l : List α} (h : OSorted lt l)
    [inst : Decidable (x ∈ l)] :
    (oerase lt x l).length = if x ∈ l then l.length - 1 else l.length := by
  rw [length_oerase_aux st h]; split <;> simp [*]

end Generic

/-! ## `BTreeSet<usize>` -/

def ltNat (a b : Nat) : Bool := decide (a < b)

theorem strictTotal_ltNat : StrictTotal ltNat where
  irrefl := by intro a; simp [ltNat]
  trans := by intro a b c; simp only [ltNat, decide_eq_true_eq]; omega
  tri := by intro a b; simp only [ltNat, decide_eq_true_eq, decide_eq_false_iff_not]; omega

theorem sinsert_eq (x : Nat) (l : List Nat) : sinsert x l = oinsert ltNat x l := by
  induction l with
  | nil => rfl
  | cons y ys ih => simp only [sinsert, oinsert, ltNat, decide_eq_true_eq, ih]

theorem serase_eq (x : Nat) (l : List Nat) : serase x l = oerase ltNat x l := by
  induction l with
  | nil => rfl
  | cons y ys ih => simp only [serase, oerase, ltNat, decide_eq_true_eq, ih]

theorem sortedS_iff (l : List Nat) : SortedS l ↔ OSorted ltNat l := by
  simp [SortedS, OSorted, ltNat]

theorem mem_sinsert {x a : Nat} {l : List Nat} : a ∈ sinsert x l ↔ a = x ∨ a ∈ l := by
  rw [sinsert_eq]; exact mem_oinsert

theorem sorted_sinsert {x : Nat} {l : List Nat} (h : SortedS l) : SortedS (sinsert x l) := by
  rw [sinsert_eq, sortedS_iff]; exact osorted_oinsert strictTotal_ltNat ((sortedS_iff l).mp h)

theorem mem_serase {x a : Nat} {l : List Nat} (h : SortedS l) : a ∈ serase x l ↔ a ∈ l ∧ a ≠ x := by
  rw [serase_eq]; exact mem_oerase strictTotal_ltNat ((sortedS_iff l).mp h)

theorem sorted_serase {x : Nat} {l : List Nat} (h : SortedS l) : SortedS (serase x l) := by
  rw [serase_eq, sortedS_iff]; exact osorted_oerase ((sortedS_iff l).mp h)

theorem sortedS_ext {l₁ l₂ : List Nat} (h₁ : SortedS l₁) (h₂ : SortedS l₂) (h : ∀ a, a ∈ l₁ ↔ a ∈ l₂) :
    l₁ = l₂ :=
  osorted_ext strictTotal_ltNat ((sortedS_iff _).mp h₁) ((sortedS_iff _).mp h₂) h

theorem sinsert_of_mem {x : Nat} {l : List Nat} (h : SortedS l) (hx : x ∈ l) : sinsert x l = l := by
  rw [sinsert_eq]; exact oinsert_of_mem strictTotal_ltNat ((sortedS_iff l).mp h) hx

theorem serase_of_not_mem {x : Nat} {l : List Nat} (h : SortedS l) (hx : x ∉ l) : serase x l = l := by
  rw [serase_eq]; exact oerase_of_not_mem strictTotal_ltNat ((sortedS_iff l).mp h) hx

theorem serase_sinsert {x : Nat} {l : List Nat} (h : SortedS l) (hx : x ∉ l) : serase x (sinsert x l) = l := by
  rw [sinsert_eq, serase_eq]; exact oerase_oinsert strictTotal_ltNat ((sortedS_iff l).mp h) hx

theorem sinsert_comm {x y : Nat} {l : List Nat} (h : SortedS l) :
    sinsert x (sinsert y l) = sinsert y (sinsert x l) := by
  simp only [sinsert_eq]; exact oinsert_comm strictTotal_ltNat ((sortedS_iff l).mp h)

theorem sortedS_nodup {l : List Nat} (h : SortedS l) : l.Nodup :=
  osorted_nodup strictTotal_ltNat ((sortedS_iff l).mp h)

theorem length_sinsert {x : Nat} {l : List Nat} (h : SortedS l) :
    (sinsert x l).length = if x ∈ l then l.length else l.length + 1 := by
  rw [sinsert_eq]; exact length_oinsert strictTotal_ltNat ((sortedS_iff l).mp h)

theorem length_serase {x : Nat} {l : List Nat} (h : SortedS l) :
    (serase x l).length = if x ∈ l then l.length - 1 else l.length := by
  rw [serase_eq]; exact length_oerase strictTotal_ltNat ((sortedS_iff l).mp h)

theorem contains_iff_mem {x : Nat} {l : List Nat} : l.contains x = true ↔ x ∈ l := by simp

/-! ## `BTreeSet<(usize, usize)>` -/

abbrev SortedP (l : List (Nat × Nat)) : Prop := OSorted pairLt l

theorem strictTotal_pairLt : StrictTotal pairLt where
  irrefl := by intro a; simp [pairLt]
  trans := by
    intro a b c
    simp only [pairLt, Bool.or_eq_true, decide_eq_true_eq, Bool.and_eq_true, beq_iff_eq]
    omega
  tri := by
    intro a b
    obtain ⟨a1, a2⟩ := a
    obtain ⟨b1, b2⟩ := b
    simp only [pairLt, Bool.or_eq_false_iff, decide_eq_false_iff_not, Bool.and_eq_false_iff,
      beq_eq_false_iff_ne, ne_eq, Prod.mk.injEq, Bool.or_eq_true, decide_eq_true_eq, Bool.and_eq_true, beq_iff_eq]
    omega

theorem pinsert_eq (x : Nat × Nat) (l : List (Nat × Nat)) : pinsert x l = oinsert pairLt x l := by
  induction l with
  | nil => rfl
  | cons y ys ih => simp only [pinsert, oinsert, ih]

theorem perase_eq (x : Nat × Nat) (l : List (Nat × Nat)) : perase x l = oerase pairLt x l := by
  induction l with
  | nil => rfl
  | cons y ys ih => simp only [perase, oerase, ih]

theorem mem_pinsert {x a : Nat × Nat} {l : List (Nat × Nat)} : a ∈ pinsert x l ↔ a = x ∨ a ∈ l := by
  rw [pinsert_eq]; exact mem_oinsert

theorem sorted_pinsert {x : Nat × Nat} {l : List (Nat × Nat)} (h : SortedP l) : SortedP (pinsert x l) := by
  rw [pinsert_eq]; exact osorted_oinsert strictTotal_pairLt h

theorem mem_perase {x a : Nat × Nat} {l : List (Nat × Nat)} (h : SortedP l) :
    a ∈ perase x l ↔ a ∈ l ∧ a ≠ x := by
  rw [perase_eq]; exact mem_oerase strictTotal_pairLt h

theorem sorted_perase {x : Nat × Nat} {l : List (Nat × Nat)} (h : SortedP l) : SortedP (perase x l) := by
  rw [perase_eq]; exact osorted_oerase h

theorem sortedP_ext {l₁ l₂ : List (Nat × Nat)} (h₁ : SortedP l₁) (h₂ : SortedP l₂)
    (h : ∀ a, a ∈ l₁ ↔ a ∈ l₂) : l₁ = l₂ :=
  osorted_ext strictTotal_pairLt h₁ h₂ h

theorem pinsert_of_mem {x : Nat × Nat} {l : List (Nat × Nat)} (h : SortedP l) (hx : x ∈ l) : pinsert x l = l := by
  rw [pinsert_eq]; exact oinsert_of_mem strictTotal_pairLt h hx

theorem perase_of_not_mem {x : Nat × Nat} {l : List (Nat × Nat)} (h : SortedP l) (hx : x ∉ l) : perase x l = l := by
  rw [perase_eq]; exact oerase_of_not_mem strictTotal_pairLt h hx

theorem perase_pinsert {x : Nat × Nat} {l : List (Nat × Nat)} (h : SortedP l) (hx : x ∉ l) :
    perase x (pinsert x l) = l := by
  rw [pinsert_eq, perase_eq]; exact oerase_oinsert strictTotal_pairLt h hx

theorem pinsert_comm {x y : Nat × Nat} {l : List (Nat × Nat)} (h : SortedP l) :
    pinsert x (pinsert y l) = pinsert y (pinsert x l) := by
  simp only [pinsert_eq]; exact oinsert_comm strictTotal_pairLt h

theorem sortedP_nodup {l : List (Nat × Nat)} (h : SortedP l) : l.Nodup := osorted_nodup strictTotal_pairLt h

theorem length_pinsert {x : Nat × Nat} {l : List (Nat × Nat)} (h : SortedP l) :
    (pinsert x l).length = if x ∈ l then l.length else l.length + 1 := by
  rw [pinsert_eq]; exact length_oinsert strictTotal_pairLt h

theorem length_perase {x : Nat × Nat} {l : List (Nat × Nat)} (h : SortedP l) :
    (perase x l).length = if x ∈ l then l.length - 1 else l.length := by
  rw [perase_eq]; exact length_oerase strictTotal_pairLt h

/-! ## `BTreeMap<usize, X>` -/

section Maps
variable {X : Type}
open AdjListW (merase)

theorem sortedK_iff_keys (l : List (Nat × X)) : SortedK l ↔ SortedS (l.map (·.1)) := by
  simp [SortedK, SortedS, List.pairwise_map]

@[simp] theorem mget_nil (a : Nat) : mget a ([] : List (Nat × X)) = none := rfl

theorem mget_cons (a k : Nat) (x : X) (rest : List (Nat × X)) :
    mget a ((k, x) :: rest) = if a = k then some x else if a < k then none else mget a rest := rfl

theorem mget_none_of_lt {a : Nat} {l : List (Nat × X)} (h : ∀ p ∈ l, a < p.1) : mget a l = none := by
  cases l with
  | nil => rfl
  | cons p rest =>
    obtain ⟨k, x⟩ := p
    have := h (k, x) (List.mem_cons_self ..)
    simp only [mget_cons]
    have h1 : a ≠ k := by simp at this; omega
    simp [h1]; simp at this; exact fun h' => absurd this (by omega)

theorem keys_mupsert (k : Nat) (d : X) (f : X → X) (l : List (Nat × X)) :
    (mupsert k d f l).map (·.1) = sinsert k (l.map (·.1)) := by
  induction l with
  | nil => rfl
  | cons p rest ih =>
    obtain ⟨k', x⟩ := p
    simp only [mupsert, List.map_cons, sinsert]
    split
    · rfl
    · split
      · rfl
      · simp [ih]

theorem keys_merase (k : Nat) (l : List (Nat × X)) :
    (merase k l).map (·.1) = serase k (l.map (·.1)) := by
  induction l with
  | nil => rfl
  | cons p rest ih =>
    obtain ⟨k', x⟩ := p
    simp only [merase, List.map_cons, serase]
    split
    · rfl
    · split
      · rfl
      · simp [ih]

theorem sortedK_mupsert {k : Nat} {d : X} {f : X → X} {l : List (Nat × X)} (h : SortedK l) :
    SortedK (mupsert k d f l) := by
  rw [sortedK_iff_keys, keys_mupsert]; exact sorted_sinsert ((sortedK_iff_keys l).mp h)

theorem sortedK_merase {k : Nat} {l : List (Nat × X)} (h : SortedK l) : SortedK (merase k l) := by
  rw [sortedK_iff_keys, keys_merase]; exact sorted_serase ((sortedK_iff_keys l).mp h)

theorem mget_mupsert {k a : Nat} {d : X} {f : X → X} {l : List (Nat × X)} (h : SortedK l) :
    mget a (mupsert k d f l) = if a = k then some (f ((mget k l).getD d)) else mget a l := by
  induction l with
  | nil => simp only [mupsert, mget_cons, mget_nil, Option.getD_none]; split <;> simp
  | cons p rest ih =>
    obtain ⟨k', x⟩ := p
    have hp := List.pairwise_cons.mp h
    simp only [mupsert]
    split
    · rename_i hlt
      simp only [mget_cons]
      have : k ≠ k' := by omega
      simp only [this, if_false, hlt, if_true, Option.getD_none]
      split
      · rfl
      · split
        · rename_i h1 h2
          have : ¬ a = k' := by omega
          have h3 : a < k' := by omega
          simp [this, h3]
        · rfl
    · split
      · rename_i hnlt heq
        subst heq
        simp only [mget_cons, if_true, Option.getD_some]
        split <;> rfl
      · rename_i hnlt hne
        simp only [mget_cons, ih hp.2, hne, if_false, hnlt]
        by_cases hak' : a = k'
        · have : a ≠ k := by omega
          simp [hak']; intro h; omega
        · simp only [hak', if_false]
          by_cases hlt : a < k'
          · have : a ≠ k := by omega
            simp [hlt, this]
          · simp [hlt]

theorem mget_merase {k a : Nat} {l : List (Nat × X)} (h : SortedK l) :
    mget a (merase k l) = if a = k then none else mget a l := by
  induction l with
  | nil => simp [merase]
  | cons p rest ih =>
    obtain ⟨k', x⟩ := p
    have hp := List.pairwise_cons.mp h
    have hgt : ∀ q ∈ rest, k' < q.1 := fun q hq => hp.1 q hq
    simp only [merase]
    split
    · rename_i heq; subst heq
      simp only [mget_cons]
      by_cases hak : a = k
      · subst hak; simp only [if_true]; exact mget_none_of_lt hgt
      · simp only [hak, if_false]
        by_cases hlt : a < k
        · simp only [hlt, if_true]; exact mget_none_of_lt (fun q hq => Nat.lt_trans hlt (hgt q hq))
        · simp [hlt]
    · rename_i hne
      split
      · rename_i hlt
        by_cases hak : a = k
        · subst hak
          have : a ≠ k' := hne
          simp [mget_cons, this, hlt]
        · simp [hak]
      · rename_i hnlt
        simp only [mget_cons, ih hp.2]
        by_cases hak : a = k
        · subst hak; simp [hne, hnlt]
        · simp [hak]

theorem mget_eq_some_iff {k : Nat} {x : X} {l : List (Nat × X)} (h : SortedK l) :
    mget k l = some x ↔ (k, x) ∈ l := by
  induction l with
  | nil => simp
  | cons p rest ih =>
    obtain ⟨k', x'⟩ := p
    have hp := List.pairwise_cons.mp h
    simp only [mget_cons, List.mem_cons, Prod.mk.injEq]
    by_cases hk : k = k'
    · subst hk
      simp only [if_true, Option.some.injEq, true_and]
      constructor
      · intro e; exact Or.inl e.symm
      · rintro (e | hm)
        · exact e.symm
        · have := hp.1 _ hm; simp at this
    · simp only [hk, if_false, false_and, false_or]
      by_cases hlt : k < k'
      · simp only [hlt, if_true]
        constructor
        · intro e; cases e
        · intro hm; have := hp.1 _ hm; simp at this; omega
      · simp only [hlt, if_false]; exact ih hp.2

theorem mget_isSome_iff {k : Nat} {l : List (Nat × X)} (h : SortedK l) :
    (mget k l).isSome = true ↔ k ∈ l.map (·.1) := by
  rw [Option.isSome_iff_exists]
  simp only [mget_eq_some_iff h, List.mem_map]
  constructor
  · rintro ⟨x, hx⟩; exact ⟨(k, x), hx, rfl⟩
  · rintro ⟨⟨k', x⟩, hx, rfl⟩; exact ⟨x, hx⟩

/-- Extensionality of key-sorted association lists: same lookups ⇒ same list. -/
theorem sortedK_ext : ∀ {l₁ l₂ : List (Nat × X)}, SortedK l₁ → SortedK l₂ →
    (∀ k, mget k l₁ = mget k l₂) → l₁ = l₂
  | [], [], _, _, _ => rfl
  | [], (k, x) :: r, _, _, h => by have := h k; simp [mget_cons] at this
  | (k, x) :: r, [], _, _, h => by have := h k; simp [mget_cons] at this
  | (k₁, x₁) :: r₁, (k₂, x₂) :: r₂, h₁, h₂, h => by
    have hp₁ := List.pairwise_cons.mp h₁
    have hp₂ := List.pairwise_cons.mp h₂
    have hk : k₁ = k₂ := by
      have a := h k₁
      have b := h k₂
      simp only [mget_cons, if_true] at a b
      by_cases e : k₁ = k₂
      · exact e
      · have e' : ¬ k₂ = k₁ := fun x => e x.symm
        simp only [e, e', if_false] at a b
        by_cases hlt : k₁ < k₂
        · simp [hlt] at a
        · have hlt' : k₂ < k₁ := by omega
          simp [hlt'] at b
    subst hk
    have hx : x₁ = x₂ := by
      have a := h k₁
      simp only [mget_cons, if_true, Option.some.injEq] at a
      exact a
    subst hx
    congr 1
    apply sortedK_ext hp₁.2 hp₂.2
    intro k
    by_cases hle : k ≤ k₁
    · rw [mget_none_of_lt (fun q hq => Nat.lt_of_le_of_lt hle (hp₁.1 q hq)),
        mget_none_of_lt (fun q hq => Nat.lt_of_le_of_lt hle (hp₂.1 q hq))]
    · have a := h k
      have e : ¬ k = k₁ := by omega
      have e2 : ¬ k < k₁ := by omega
      simpa only [mget_cons, e, e2, if_false] using a

theorem length_mupsert {k : Nat} {d : X} {f : X → X} {l : List (Nat × X)} (h : SortedK l) :
    (mupsert k d f l).length = if (mget k l).isSome then l.length else l.length + 1 := by
  have h1 : (mupsert k d f l).length = ((mupsert k d f l).map (·.1)).length := by simp
  rw [h1, keys_mupsert, length_sinsert ((sortedK_iff_keys l).mp h)]
  by_cases hm : k ∈ l.map (·.1)
  · simp only [hm, if_true, (mget_isSome_iff h).mpr hm, List.length_map]
  · have : (mget k l).isSome = false := by
      cases hs : (mget k l).isSome
      · rfl
      · exact absurd ((mget_isSome_iff h).mp hs) hm
    simp only [hm, if_false, this, List.length_map, Bool.false_eq_true]

theorem length_merase {k : Nat} {l : List (Nat × X)} (h : SortedK l) :
    (merase k l).length = if (mget k l).isSome then l.length - 1 else l.length := by
  have h1 : (merase k l).length = ((merase k l).map (·.1)).length := by simp
  rw [h1, keys_merase, length_serase ((sortedK_iff_keys l).mp h)]
  by_cases hm : k ∈ l.map (·.1)
  · simp only [hm, if_true, (mget_isSome_iff h).mpr hm, List.length_map]
  · have : (mget k l).isSome = false := by
      cases hs : (mget k l).isSome
      · rfl
      · exact absurd ((mget_isSome_iff h).mp hs) hm
    simp only [hm, if_false, this, List.length_map, Bool.false_eq_true]

end Maps

end GraafVerif.Repr
