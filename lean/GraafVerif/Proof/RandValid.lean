import GraafVerif.Proof.RandMap
/-! Validity of the generators, for every stream (tournament, recursive tree, sequential Erdős–Rényi). -/
namespace GraafVerif.Rand
open GraafVerif.Repr

/-- `usize`: the matrix needs `order² < 2^64` (always true for a matrix that fits in memory). -/
abbrev FitsMatrix (n : Nat) : Prop := n * n < 2^64

theorem empty_one_AL : AdjList.empty 1 = some ⟨[[]]⟩ := rfl
theorem empty_one_EL : EdgeList.empty 1 = some ⟨[], 1⟩ := rfl
theorem empty_one_AM : AdjMap.empty 1 = some ⟨[(0, [])]⟩ := rfl

theorem realizes_nil_AL : Realizes (viewAL ⟨[[]]⟩) 1 [] :=
  ⟨rfl, rfl, fun u v => by
    simp only [viewAL, AdjList.hasArc_iff]
    cases u <;> simp⟩
theorem realizes_nil_EL : Realizes (viewEL ⟨[], 1⟩) 1 [] := ⟨rfl, rfl, fun u v => by simp [viewEL, EdgeList.hasArc]⟩
theorem realizes_nil_AM : Realizes (viewAM ⟨[(0, [])]⟩) 1 [] :=
  ⟨rfl, rfl, fun u v => by
    simp only [viewAM, AdjMap.hasArc_iff, mget]
    cases u <;> simp⟩

theorem Orients.eq_nil {arcs : List (Nat × Nat)} (h : Orients arcs []) : arcs = [] := by
  cases arcs with
  | nil => rfl
  | cons a as => cases h

theorem pairs_one : pairs 1 = [] := by decide
theorem tournamentArcs_one (s : Stream) : tournamentArcs s 1 = [] := by simp [tournamentArcs, pairs_one]
theorem rrtParents_one (s : Stream) : rrtParents s 1 = [] := by simp [rrtParents]

/-! ## random_tournament -/

theorem tournamentAL_realizes (s : Stream) (n : Nat) (hn : 1 ≤ n) :
    ∃ g, tournamentAL s n = some g ∧ Realizes (viewAL g) n (tournamentArcs s n) := by
  unfold tournamentAL
  by_cases h1 : n = 1
  · subst h1; exact ⟨⟨[[]]⟩, by simp [empty_one_AL], by rw [tournamentArcs_one]; exact realizes_nil_AL⟩
  · have h0 : ¬ n = 0 := by omega
    simp only [h0, h1, if_false]
    exact ⟨_, rfl, realizes_foldl_rowInsert n _ (tournamentArcs_orients s n).simple⟩

theorem tournamentMX_realizes (s : Stream) (n : Nat) (hn : 1 ≤ n) (hb : FitsMatrix n) :
    ∃ g, tournamentMX s n = some g ∧ Realizes (viewMX g) n (tournamentArcs s n) :=
  realizes_foldlM_addArc_MX n hn hb _ (tournamentArcs_orients s n).simple

theorem tournamentEL_realizes (s : Stream) (n : Nat) (hn : 1 ≤ n) :
    ∃ g, tournamentEL s n = some g ∧ Realizes (viewEL g) n (tournamentArcs s n) := by
  unfold tournamentEL
  by_cases h1 : n = 1
  · subst h1; exact ⟨⟨[], 1⟩, by simp [empty_one_EL], by rw [tournamentArcs_one]; exact realizes_nil_EL⟩
  · simp only [h1, if_false]
    exact realizes_foldlM_addArc_EL n hn _ (tournamentArcs_orients s n).simple

theorem tournamentProgs_one (streams : Nat → Stream) (t : Nat) (ht : 1 ≤ t) :
    (tournamentProgs streams 1 t).flatten = [] := by
  have h := tournamentProgs_orients streams 1 t (by omega) ht
  rw [pairs_one] at h
  exact h.eq_nil

theorem tournamentAM_realizes (streams : Nat → Stream) (n t : Nat) (hn : 1 ≤ n) (ht : 1 ≤ t) :
    ∃ g, tournamentAM streams n t = some g ∧ Realizes (viewAM g) n (tournamentProgs streams n t).flatten := by
  unfold tournamentAM
  by_cases h1 : n = 1
  · subst h1
    exact ⟨⟨[(0, [])]⟩, by simp [empty_one_AM], by rw [tournamentProgs_one streams t ht]; exact realizes_nil_AM⟩
  · have h0 : ¬ n = 0 := by omega
    simp only [h0, h1, if_false]
    exact ⟨_, rfl, realizes_finishMap n _ (tournamentProgs_orients streams n t hn ht).simple⟩

theorem tournamentAL_valid (s : Stream) (n : Nat) (hn : 1 ≤ n) :
    ∃ g, tournamentAL s n = some g ∧ IsTournament n (viewAL g) := by
  obtain ⟨g, h1, h2⟩ := tournamentAL_realizes s n hn
  exact ⟨g, h1, h2.tournament (tournamentArcs_orients s n)⟩

theorem tournamentMX_valid (s : Stream) (n : Nat) (hn : 1 ≤ n) (hb : FitsMatrix n) :
    ∃ g, tournamentMX s n = some g ∧ IsTournament n (viewMX g) := by
  obtain ⟨g, h1, h2⟩ := tournamentMX_realizes s n hn hb
  exact ⟨g, h1, h2.tournament (tournamentArcs_orients s n)⟩

theorem tournamentEL_valid (s : Stream) (n : Nat) (hn : 1 ≤ n) :
    ∃ g, tournamentEL s n = some g ∧ IsTournament n (viewEL g) := by
  obtain ⟨g, h1, h2⟩ := tournamentEL_realizes s n hn
  exact ⟨g, h1, h2.tournament (tournamentArcs_orients s n)⟩

theorem tournamentAM_valid (streams : Nat → Stream) (n t : Nat) (hn : 1 ≤ n) (ht : 1 ≤ t) :
    ∃ g, tournamentAM streams n t = some g ∧ IsTournament n (viewAM g) := by
  obtain ⟨g, h1, h2⟩ := tournamentAM_realizes streams n t hn ht
  exact ⟨g, h1, h2.tournament (tournamentProgs_orients streams n t hn ht)⟩

/-! ## random_recursive_tree -/

theorem rrtAL_realizes (s : Stream) (n : Nat) (hn : 1 ≤ n) :
    ∃ g, rrtAL s n = some g ∧ Realizes (viewAL g) n (rrtParents s n) := by
  unfold rrtAL
  by_cases h1 : n = 1
  · subst h1; exact ⟨⟨[[]]⟩, by simp [empty_one_AL], by rw [rrtParents_one]; exact realizes_nil_AL⟩
  · have h0 : ¬ n = 0 := by omega
    simp only [h0, h1, if_false]
    refine ⟨_, rfl, ?_⟩
    -- rows = (range n).map (fun u => if u = 0 then [] else [parent u])
    let f : Nat → List Nat := fun u => if u = 0 then [] else [(s (u - 1)).toNat % u]
    have hrows : ([] :: (rrtParents s n).map fun a => [a.2]) = (List.range n).map f := by
      have hr : List.range n = 0 :: List.range' 1 (n - 1) := by
        rw [List.range_eq_range']
        have : n = (n - 1) + 1 := by omega
        conv => lhs; rw [this]
        rw [List.range'_succ]
      rw [hr]
      simp only [rrtParents, List.map_cons, List.map_map, f, if_true]
      congr 1
      apply List.map_congr_left
      intro u hu
      have := (List.mem_range'_1.1 hu).1
      have h0 : ¬ u = 0 := by omega
      simp [h0]
    rw [hrows]
    refine (realizes_rows n f).congr fun u v => ?_
    simp only [List.mem_flatMap, List.mem_range, List.mem_map, Prod.mk.injEq, mem_rrtParents]
    constructor
    · rintro ⟨a, ha, b, hb, rfl, rfl⟩
      by_cases h0 : a = 0
      · simp [f, h0] at hb
      · simp [f, h0] at hb; exact ⟨by omega, ha, hb⟩
    · rintro ⟨h1, h2, h3⟩
      have h0 : ¬ u = 0 := by omega
      exact ⟨u, h2, v, by simp [f, h0, h3], rfl, rfl⟩

theorem rrtAM_realizes (s : Stream) (n : Nat) (hn : 1 ≤ n) :
    ∃ g, rrtAM s n = some g ∧ Realizes (viewAM g) n (rrtParents s n) := by
  unfold rrtAM
  by_cases h1 : n = 1
  · subst h1; exact ⟨⟨[(0, [])]⟩, by simp [empty_one_AM], by rw [rrtParents_one]; exact realizes_nil_AM⟩
  · have h0 : ¬ n = 0 := by omega
    simp only [h0, h1, if_false]
    refine ⟨_, rfl, ?_⟩
    have hk : (((0, ([] : List Nat))) :: (rrtParents s n).map fun a => (a.1, [a.2])).map (·.1) = List.range n := by
      have hr : List.range n = 0 :: List.range' 1 (n - 1) := by
        rw [List.range_eq_range']
        have : n = (n - 1) + 1 := by omega
        conv => lhs; rw [this]
        rw [List.range'_succ]
      rw [hr]
      simp [rrtParents, List.map_map, Function.comp_def]
    refine (realizes_collectMap n _ hk).congr fun u v => ?_
    simp only [List.flatMap_cons, List.map_nil, List.nil_append, List.mem_flatMap, List.mem_map, Prod.mk.injEq]
    constructor
    · rintro ⟨_, ⟨a, ha, rfl⟩, b, hb, rfl, rfl⟩
      simp at hb; subst hb; exact ha
    · intro h; exact ⟨_, ⟨(u, v), h, rfl⟩, v, by simp, rfl, rfl⟩

theorem rrtMX_realizes (s : Stream) (n : Nat) (hn : 1 ≤ n) (hb : FitsMatrix n) :
    ∃ g, rrtMX s n = some g ∧ Realizes (viewMX g) n (rrtParents s n) := by
  unfold rrtMX
  by_cases h1 : n = 1
  · subst h1
    rw [rrtParents_one]
    have := realizes_foldlM_addArc_MX 1 (by omega) (by decide) [] (by intro a ha; simp at ha)
    simpa using this
  · simp only [h1, if_false]
    exact realizes_foldlM_addArc_MX n hn hb _ (rrtParents_simple s n)

theorem rrtEL_realizes (s : Stream) (n : Nat) (hn : 1 ≤ n) :
    ∃ g, rrtEL s n = some g ∧ Realizes (viewEL g) n (rrtParents s n) := by
  unfold rrtEL
  by_cases h1 : n = 1
  · subst h1; exact ⟨⟨[], 1⟩, by simp [empty_one_EL], by rw [rrtParents_one]; exact realizes_nil_EL⟩
  · have h0 : ¬ n = 0 := by omega
    simp only [h0, h1, if_false]
    exact ⟨_, rfl, realizes_collectSet n _⟩

theorem rrtAL_valid (s : Stream) (n : Nat) (hn : 1 ≤ n) :
    ∃ g, rrtAL s n = some g ∧ IsRecursiveTree n (viewAL g) := by
  obtain ⟨g, h1, h2⟩ := rrtAL_realizes s n hn; exact ⟨g, h1, h2.recursiveTree⟩
theorem rrtAM_valid (s : Stream) (n : Nat) (hn : 1 ≤ n) :
    ∃ g, rrtAM s n = some g ∧ IsRecursiveTree n (viewAM g) := by
  obtain ⟨g, h1, h2⟩ := rrtAM_realizes s n hn; exact ⟨g, h1, h2.recursiveTree⟩
theorem rrtMX_valid (s : Stream) (n : Nat) (hn : 1 ≤ n) (hb : FitsMatrix n) :
    ∃ g, rrtMX s n = some g ∧ IsRecursiveTree n (viewMX g) := by
  obtain ⟨g, h1, h2⟩ := rrtMX_realizes s n hn hb; exact ⟨g, h1, h2.recursiveTree⟩
theorem rrtEL_valid (s : Stream) (n : Nat) (hn : 1 ≤ n) :
    ∃ g, rrtEL s n = some g ∧ IsRecursiveTree n (viewEL g) := by
  obtain ⟨g, h1, h2⟩ := rrtEL_realizes s n hn; exact ⟨g, h1, h2.recursiveTree⟩

end GraafVerif.Rand
