import GraafVerif.Data.Value
import Std.Data.String.ToInt
/-!
# The line-protocol value syntax round-trips (token level)

`Data/Value.lean` is the parsing glue of the correspondence driver; until this module it was entirely
in the trusted base.  Here the structural half of it is proved: for every value `v` whose atoms are
printable (not a bracket, not readable as an integer), the token sequence a printer emits for `v` is
parsed back to exactly `v` by `parseToks` — for every nesting depth and every surrounding context
(`parseToks_toToks`), so a whole line of values round-trips (`parseLine_roundtrip`), and the typed
accessors invert the encoders the handlers use (`nat?_ofNat`, `listOf?_ofNats`, `pairs_roundtrip`,
`opt?_ofOptNat`, `bool?_ofBool`).

What stays trusted: the character-level tokeniser `tokens` (`String.replace` / `splitOn`), i.e. that
the text `toStr v` splits into `toToks v`.
-/
namespace GraafVerif.V

/-! ## printer to tokens -/
mutual
/-- The tokens printed for a value. -/
def toToks : V → List String
  | .i n => [toString n]
  | .a s => [s]
  | .l xs => "[" :: (toToksL xs ++ ["]"])
/-- The tokens printed for a sequence of values. -/
def toToksL : List V → List String
  | [] => []
  | x :: xs => toToks x ++ toToksL xs
end

mutual
/-- Atoms that can be printed: not a bracket and not an integer numeral. -/
def Printable : V → Prop
  | .i _ => True
  | .a s => s ≠ "[" ∧ s ≠ "]" ∧ s.toInt? = none
  | .l xs => PrintableL xs
/-- Every value of the sequence is printable. -/
def PrintableL : List V → Prop
  | [] => True
  | x :: xs => Printable x ∧ PrintableL xs
end

/-! ## `parseToks`, one token at a time -/
theorem parseToks_open (ts : List String) (stack : List (List V)) (cur : List V) :
    parseToks ("[" :: ts) stack cur = parseToks ts (cur :: stack) [] := by
  simp [parseToks]

theorem parseToks_close (ts : List String) (up : List V) (stack : List (List V)) (cur : List V) :
    parseToks ("]" :: ts) (up :: stack) cur = parseToks ts stack (V.l cur.reverse :: up) := by
  simp [parseToks]

theorem parseToks_tok (t : String) (ts : List String) (stack : List (List V)) (cur : List V)
    (h1 : t ≠ "[") (h2 : t ≠ "]") :
    parseToks (t :: ts) stack cur = parseToks ts stack (atomOrInt t :: cur) := by
  rw [parseToks]
  · exact fun h => h1 (by simpa using h)
  · intro _ _ _; exact h2
  · intro _; exact h2

theorem parseToks_unbalanced_close (ts : List String) (cur : List V) :
    parseToks ("]" :: ts) [] cur = none := by
  simp [parseToks]

theorem parseToks_unclosed (up : List V) (stack : List (List V)) (cur : List V) :
    parseToks [] (up :: stack) cur = none := by
  simp [parseToks]

/-! ## numerals are not brackets -/
theorem notInt_of_head (s : String) (c : Char) (cs : List Char) (h : s.toList = c :: cs)
    (hd : c.isDigit = false) (hu : c ≠ '_') (hm : c ≠ '-') : s.toInt? = none := by
  rw [String.toInt?_eq_none_iff]
  cases hh : s.isInt with
  | false => rfl
  | true =>
    rcases String.isInt_iff.1 hh with h1 | ⟨t, ht, _⟩
    · have := (String.isNat_iff.1 h1).2.1 c (by rw [h]; simp)
      simp [hd, hu] at this
    · have : s.toList = '-' :: t.toList := by rw [ht]; simp
      rw [h] at this; simp at this; exact absurd this.1 hm

theorem lb_notInt : "[".toInt? = none :=
  notInt_of_head _ '[' [] (by decide) (by decide) (by decide) (by decide)
theorem rb_notInt : "]".toInt? = none :=
  notInt_of_head _ ']' [] (by decide) (by decide) (by decide) (by decide)

theorem toString_int_toInt? (n : Int) : (toString n).toInt? = some n := Int.toInt?_repr n

theorem toString_int_ne_lb (n : Int) : toString n ≠ "[" := by
  intro h; have := toString_int_toInt? n; rw [h, lb_notInt] at this; cases this
theorem toString_int_ne_rb (n : Int) : toString n ≠ "]" := by
  intro h; have := toString_int_toInt? n; rw [h, rb_notInt] at this; cases this

theorem atomOrInt_int (n : Int) : atomOrInt (toString n) = .i n := by
  simp [atomOrInt]
theorem atomOrInt_atom (s : String) (h : s.toInt? = none) : atomOrInt s = .a s := by
  simp [atomOrInt, h]

/-! ## the round trip, in every context -/
mutual
theorem parseToks_toToks (v : V) (hv : Printable v) (rest : List String) (stack : List (List V))
    (cur : List V) : parseToks (toToks v ++ rest) stack cur = parseToks rest stack (v :: cur) := by
  cases v with
  | i n =>
    simp only [toToks, List.cons_append, List.nil_append]
    rw [parseToks_tok _ _ _ _ (toString_int_ne_lb n) (toString_int_ne_rb n), atomOrInt_int]
  | a s =>
    obtain ⟨h1, h2, h3⟩ : s ≠ "[" ∧ s ≠ "]" ∧ s.toInt? = none := by simpa [Printable] using hv
    simp only [toToks, List.cons_append, List.nil_append]
    rw [parseToks_tok _ _ _ _ h1 h2, atomOrInt_atom _ h3]
  | l xs =>
    have hx : PrintableL xs := by simpa [Printable] using hv
    simp only [toToks, List.cons_append, List.append_assoc, List.nil_append]
    rw [parseToks_open, parseToks_toToksL xs hx, parseToks_close]
    simp
theorem parseToks_toToksL (xs : List V) (hx : PrintableL xs) (rest : List String)
    (stack : List (List V)) (cur : List V) :
    parseToks (toToksL xs ++ rest) stack cur = parseToks rest stack (xs.reverse ++ cur) := by
  cases xs with
  | nil => simp [toToksL]
  | cons x xs =>
    obtain ⟨h1, h2⟩ : Printable x ∧ PrintableL xs := by simpa [PrintableL] using hx
    simp only [toToksL, List.append_assoc]
    rw [parseToks_toToks x h1, parseToks_toToksL xs h2]
    simp
end

/-- **A printed line parses back to the values it was printed from** (any number of values, any
nesting depth). -/
theorem parseToks_roundtrip (vs : List V) (h : PrintableL vs) : parseToks (toToksL vs) [] [] = some vs := by
  have := parseToks_toToksL vs h [] [] []
  simpa [parseToks] using this

/-! ## accessors invert encoders -/
@[simp] theorem nat?_ofNat (n : Nat) : nat? (ofNat n) = some n := by simp [nat?, ofNat]
@[simp] theorem int?_i (n : Int) : int? (.i n) = some n := rfl
@[simp] theorem bool?_ofBool (b : Bool) : bool? (ofBool b) = some b := by cases b <;> rfl

theorem mapM_nat?_ofNat (xs : List Nat) : (xs.map ofNat).mapM nat? = some xs := by
  induction xs with
  | nil => rfl
  | cons x xs ih => simp [List.mapM_cons, ih]

@[simp] theorem listOf?_ofNats (xs : List Nat) : listOf? nat? (ofNats xs) = some xs := by
  simp only [listOf?, ofNats]; exact mapM_nat?_ofNat xs

theorem mapM_int?_i (xs : List Int) : (xs.map V.i).mapM int? = some xs := by
  induction xs with
  | nil => rfl
  | cons x xs ih => simp [List.mapM_cons, ih]

@[simp] theorem listOf?_ofInts (xs : List Int) : listOf? int? (ofInts xs) = some xs := by
  simp only [listOf?, ofInts]; exact mapM_int?_i xs

@[simp] theorem pair?_ofPair (p : Nat × Nat) : pair? nat? nat? (ofPair p) = some p := by
  simp [pair?, ofPair]

theorem pairs_roundtrip (xs : List (Nat × Nat)) : listOf? (pair? nat? nat?) (ofPairs xs) = some xs := by
  simp only [listOf?, ofPairs]
  induction xs with
  | nil => rfl
  | cons x xs ih => simp [List.mapM_cons, ih]

theorem opt?_ofOptNat (o : Option Nat) : opt? nat? (ofOptNat o) = some o := by
  cases o with
  | none => simp [opt?, ofOptNat]
  | some n =>
    simp only [ofOptNat, ofNat]
    unfold opt?
    simp [nat?]

/-! ## everything the encoders produce is printable -/
theorem printable_ofNat (n : Nat) : Printable (ofNat n) := by simp [ofNat, Printable]

theorem printableL_map_ofNat (xs : List Nat) : PrintableL (xs.map ofNat) := by
  induction xs with
  | nil => simp [PrintableL]
  | cons x xs ih => simp [PrintableL, printable_ofNat, ih]

theorem printable_ofNats (xs : List Nat) : Printable (ofNats xs) := by
  simp [ofNats, Printable, printableL_map_ofNat]

theorem printable_ofPair (p : Nat × Nat) : Printable (ofPair p) := by
  simp [ofPair, Printable, PrintableL, printable_ofNat]

theorem printable_ofPairs (xs : List (Nat × Nat)) : Printable (ofPairs xs) := by
  simp only [ofPairs, Printable]
  induction xs with
  | nil => simp [PrintableL]
  | cons x xs ih => simp [PrintableL, printable_ofPair, ih]

/-- End to end for the commonest payload: a list of arcs printed as tokens is read back as the same
arcs. -/
theorem arcs_roundtrip (arcs : List (Nat × Nat)) :
    (parseToks (toToks (ofPairs arcs)) [] []).bind (fun vs => vs.head?.bind (listOf? (pair? nat? nat?)))
      = some arcs := by
  have h := parseToks_toToks (ofPairs arcs) (printable_ofPairs arcs) [] [] []
  simp only [List.append_nil] at h
  rw [h]
  simp [parseToks, pairs_roundtrip]

/-! ## non-vacuity and rejection -/
example : Printable (.l [.i 3, .a "none", .l [.i (-1), .l []]]) := by
  simp [Printable, PrintableL, notInt_of_head "none" 'n' ['o', 'n', 'e'] (by decide) (by decide) (by decide) (by decide)]
example : parseToks ["[", "1"] [] [] = none := by
  rw [parseToks_open, parseToks_tok _ _ _ _ (by decide) (by decide), parseToks_unclosed]
example : parseToks ["]"] [] [] = none := parseToks_unbalanced_close _ _

end GraafVerif.V
