import GraafVerif.Proof.PredAL
/-!
# C12 — `AdjacencyList::is_semicomplete` as a labelled transition system over the shared flag:
for every thread count and EVERY schedule of the workers the final flag is the definition
-/
namespace GraafVerif.Pred
open GraafVerif.Query GraafVerif.Repr
namespace AL

/-! ## `is_semicomplete` under every schedule of its workers (shared flag) -/

/-- What worker `w` (responsible for rows `start..w.stop`) has established so far. -/
structure Progress (d : AdjList) (start : Nat) (w : Worker) : Prop where
  lo : start ≤ w.u
  rowsOk : ∀ r, start ≤ r → r < w.u → rowOk d r = true
  inner : ∀ v', w.v = some v' → w.u < v' ∧ ∀ x, w.u < x → x < v' → pairOk d w.u x = true
  fin : w.done = true → w.stop ≤ w.u

/-- a witness of non-semicompleteness -/
def Witness (d : AdjList) : Prop := ∃ u v, u < v ∧ v < d.order ∧ pairOk d u v = false

/-- invariant of one worker against the shared flag: while the flag is up the worker's progress
record is truthful -/
def WInv (d : AdjList) (flag : Bool) (start : Nat) (w : Worker) : Prop := flag = false ∨ Progress d start w

theorem rowOk_of_inner {d : AdjList} {u v' : Nat} (hv : d.order ≤ v')
    (h : ∀ x, u < x → x < v' → pairOk d u x = true) : rowOk d u = true := by
  unfold rowOk
  rw [List.all_eq_true]
  intro x hx
  have := mem_above.1 hx
  exact h x this.1 (by omega)

/-! the eight cases of `stepWorker` -/
theorem step_done (d : AdjList) (f : Bool) (u stop : Nat) (v : Option Nat) :
    stepWorker d f ⟨u, stop, v, true⟩ = (f, ⟨u, stop, v, true⟩) := by simp [stepWorker]
theorem step_none_end (d : AdjList) (f : Bool) {u stop : Nat} (h : u ≥ stop) :
    stepWorker d f ⟨u, stop, none, false⟩ = (f, ⟨u, stop, none, true⟩) := by simp [stepWorker, h]
theorem step_none_down (d : AdjList) {u stop : Nat} (h : ¬ u ≥ stop) :
    stepWorker d false ⟨u, stop, none, false⟩ = (false, ⟨u, stop, none, true⟩) := by simp [stepWorker, h]
theorem step_none_go (d : AdjList) {u stop : Nat} (h : ¬ u ≥ stop) :
    stepWorker d true ⟨u, stop, none, false⟩ = (true, ⟨u, stop, some (u + 1), false⟩) := by simp [stepWorker, h]
theorem step_some_end (d : AdjList) (f : Bool) (u stop : Nat) {v : Nat} (h : v ≥ d.order) :
    stepWorker d f ⟨u, stop, some v, false⟩ = (f, ⟨u + 1, stop, none, false⟩) := by simp [stepWorker, h]
theorem step_some_down (d : AdjList) (u stop : Nat) {v : Nat} (h : ¬ v ≥ d.order) :
    stepWorker d false ⟨u, stop, some v, false⟩ = (false, ⟨u + 1, stop, none, false⟩) := by simp [stepWorker, h]
theorem step_some_bad (d : AdjList) (u stop : Nat) {v : Nat} (h : ¬ v ≥ d.order) (hp : pairOk d u v = false) :
    stepWorker d true ⟨u, stop, some v, false⟩ = (false, ⟨u + 1, stop, none, false⟩) := by simp [stepWorker, h, hp]
theorem step_some_ok (d : AdjList) (u stop : Nat) {v : Nat} (h : ¬ v ≥ d.order) (hp : pairOk d u v = true) :
    stepWorker d true ⟨u, stop, some v, false⟩ = (true, ⟨u, stop, some (v + 1), false⟩) := by simp [stepWorker, h, hp]

/-- One step of one worker: the flag only falls (and only with a witness), the stop bound is
unchanged, and the worker's invariant is kept. -/
theorem stepWorker_inv (d : AdjList) (flag : Bool) (start : Nat) (w : Worker)
    (hw : WInv d flag start w) (hwit : flag = false → Witness d) :
    ((stepWorker d flag w).1 = false → Witness d) ∧
    (stepWorker d flag w).2.stop = w.stop ∧
    (flag = false → (stepWorker d flag w).1 = false) ∧
    WInv d (stepWorker d flag w).1 start (stepWorker d flag w).2 := by
  obtain ⟨u, stop, v, done⟩ := w
  cases done with
  | true => rw [step_done]; exact ⟨hwit, rfl, id, hw⟩
  | false =>
    cases flag with
    | false =>
      -- the flag is down: it stays down, every invariant holds by its left disjunct
      have hW := hwit rfl
      cases v with
      | none =>
        by_cases h1 : u ≥ stop
        · rw [step_none_end d false h1]
          exact ⟨fun _ => hW, rfl, fun _ => rfl, Or.inl rfl⟩
        · rw [step_none_down d h1]
          exact ⟨fun _ => hW, rfl, fun _ => rfl, Or.inl rfl⟩
      | some v =>
        by_cases h1 : v ≥ d.order
        · rw [step_some_end d false u stop h1]
          exact ⟨fun _ => hW, rfl, fun _ => rfl, Or.inl rfl⟩
        · rw [step_some_down d u stop h1]
          exact ⟨fun _ => hW, rfl, fun _ => rfl, Or.inl rfl⟩
    | true =>
      have hp : Progress d start ⟨u, stop, v, false⟩ := by
        rcases hw with hf | hp
        · exact absurd hf (by simp)
        · exact hp
      have hlo : start ≤ u := hp.lo
      have hrows : ∀ r, start ≤ r → r < u → rowOk d r = true := hp.rowsOk
      cases v with
      | none =>
        by_cases h1 : u ≥ stop
        · rw [step_none_end d true h1]
          exact ⟨fun h => absurd h (by simp), rfl, fun h => absurd h (by simp),
            Or.inr ⟨hlo, hrows, fun v' hv' => (by cases hv'), fun _ => h1⟩⟩
        · rw [step_none_go d h1]
          refine ⟨fun h => absurd h (by simp), rfl, fun h => absurd h (by simp), Or.inr ⟨hlo, hrows, ?_, fun h => absurd h (by simp)⟩⟩
          intro v' hv'
          cases hv'
          exact ⟨Nat.lt_succ_self u, fun x h1 h2 => by dsimp only at h1 h2; omega⟩
      | some v =>
        have hin : u < v ∧ ∀ x, u < x → x < v → pairOk d u x = true := hp.inner v rfl
        by_cases h1 : v ≥ d.order
        · rw [step_some_end d true u stop h1]
          refine ⟨fun h => absurd h (by simp), rfl, fun h => absurd h (by simp),
            Or.inr ⟨Nat.le_succ_of_le hlo, ?_, fun v' hv' => (by cases hv'), fun h => absurd h (by simp)⟩⟩
          intro r hr1 hr2
          dsimp only at hr2
          by_cases hru : r < u
          · exact hrows r hr1 hru
          · have : r = u := by omega
            subst this
            exact rowOk_of_inner h1 hin.2
        · by_cases hpo : pairOk d u v = true
          · rw [step_some_ok d u stop h1 hpo]
            refine ⟨fun h => absurd h (by simp), rfl, fun h => absurd h (by simp), Or.inr ⟨hlo, hrows, ?_, fun h => absurd h (by simp)⟩⟩
            intro v' hv'
            cases hv'
            refine ⟨by dsimp only; omega, fun x hx1 hx2 => ?_⟩
            dsimp only at hx1 hx2 ⊢
            by_cases hxv : x < v
            · exact hin.2 x hx1 hxv
            · have : x = v := by omega
              subst this; exact hpo
          · have hpf : pairOk d u v = false := by simpa using hpo
            rw [step_some_bad d u stop h1 hpf]
            exact ⟨fun _ => ⟨u, v, hin.1, by omega, hpf⟩, rfl, fun _ => rfl, Or.inl rfl⟩

/-- Global invariant of the transition system over the per-thread ranges `rs`. -/
structure Inv (d : AdjList) (rs : List (Nat × Nat)) (s : State) : Prop where
  wit : s.flag = false → Witness d
  len : s.workers.length = rs.length
  workers : ∀ k (hk : k < rs.length) (hk' : k < s.workers.length),
    s.workers[k].stop = rs[k].2 ∧ WInv d s.flag rs[k].1 s.workers[k]

theorem inv_init (d : AdjList) (t : Nat) : Inv d (Par.ranges d.order t) (initState d t) where
  wit := fun h => absurd h (by simp [initState])
  len := by simp [initState]
  workers := by
    intro k hk hk'
    simp only [initState, List.getElem_map]
    exact ⟨trivial, Or.inr ⟨Nat.le_refl _, fun r h1 h2 => by dsimp only at h2; omega, fun v' hv' => (by cases hv'),
      fun h => absurd h (by simp)⟩⟩

theorem inv_step (d : AdjList) (rs : List (Nat × Nat)) (s : State) (k : Nat) (hs : Inv d rs s) :
    Inv d rs (step d s k) := by
  unfold step
  cases hk : s.workers[k]? with
  | none => exact hs
  | some w =>
    obtain ⟨hkl, hw⟩ := List.getElem?_eq_some_iff.1 hk
    have hkr : k < rs.length := hs.len ▸ hkl
    have hwk := hs.workers k hkr hkl
    rw [hw] at hwk
    obtain ⟨h1, h2, h3, h4⟩ := stepWorker_inv d s.flag rs[k].1 w hwk.2 hs.wit
    refine ⟨h1, by simp [hs.len], ?_⟩
    intro j hj hj'
    dsimp only at hj' ⊢
    by_cases hjk : k = j
    · subst hjk
      simp only [List.getElem_set_self]
      exact ⟨h2.trans hwk.1, h4⟩
    · have hj'' : j < s.workers.length := by simpa using hj'
      rw [List.getElem_set_ne hjk]
      have := hs.workers j hj hj''
      refine ⟨this.1, ?_⟩
      rcases this.2 with hf | hp
      · exact Or.inl (h3 hf)
      · exact Or.inr hp

theorem inv_run (d : AdjList) (rs : List (Nat × Nat)) (sched : List Nat) :
    ∀ s, Inv d rs s → Inv d rs (run d s sched) := by
  unfold run
  induction sched with
  | nil => exact fun s hs => hs
  | cons k sched ih => exact fun s hs => ih _ (inv_step d rs s k hs)

theorem witness_not_semicomplete {d : AdjList} (hw : Witness d) : ¬ Def.IsSemicomplete (Query.AL.abs d) := by
  obtain ⟨u, v, huv, hv, hp⟩ := hw
  intro hdef
  have := hdef u ((mem_verts d u).2 (by omega)) v ((mem_verts d v).2 hv) (by omega)
  rw [pairOk_eq] at hp
  simp only [Query.AL.abs] at this
  rcases this with h | h <;> simp [h] at hp

/-- In a terminal state with the flag still up every row has been scanned successfully. -/
theorem terminal_scanSeq {d : AdjList} {t : Nat} (ht : 0 < t) (hn : 0 < d.order) {s : State}
    (hs : Inv d (Par.ranges d.order t) s) (hterm : terminal s = true) (hflag : s.flag = true) :
    scanSeq d = true := by
  unfold scanSeq
  rw [List.all_eq_true]
  intro r hr
  have hr' : r ∈ Par.expand (Par.ranges d.order t) := by rw [Par.chunks_tile d.order t ht hn]; exact hr
  unfold Par.expand at hr'
  obtain ⟨p, hp, hrp⟩ := List.mem_flatMap.1 hr'
  obtain ⟨k, hk, rfl⟩ := List.getElem_of_mem hp
  have hk' : k < s.workers.length := hs.len ▸ hk
  obtain ⟨hstop, hinv⟩ := hs.workers k hk hk'
  have hdone : s.workers[k].done = true := by
    unfold terminal at hterm
    rw [List.all_eq_true] at hterm
    exact hterm _ (List.getElem_mem hk')
  have hrp := List.mem_range'_1.1 hrp
  rcases hinv with hf | hprog
  · rw [hflag] at hf; exact absurd hf (by simp)
  · apply hprog.rowsOk r hrp.1
    have := hprog.fin hdone
    omega

/-- **All schedules.**  Whatever the interleaving of the workers' steps, when every worker has
finished the shared flag is the definition of semicompleteness. -/
theorem semicomplete_all_schedules {d : AdjList} (h : d.WF) (t : Nat) (ht : 0 < t) (sched : List Nat) (b : Bool)
    (hb : isSemicompleteSched d t sched = some b) : b = true ↔ Def.IsSemicomplete (Query.AL.abs d) := by
  unfold isSemicompleteSched at hb
  by_cases h1 : d.order = 1
  · simp only [h1, beq_self_eq_true, if_true, Option.some.injEq] at hb
    subst hb
    simp only [true_iff]
    intro u hu v hv huv
    rw [mem_verts] at hu hv
    omega
  · have h1' : (d.order == 1) = false := by simp [h1]
    rw [h1'] at hb
    simp only [Bool.false_eq_true, if_false] at hb
    by_cases hsz : d.size < d.order * (d.order - 1) / 2
    · simp only [hsz, if_true, Option.some.injEq] at hb
      subst hb
      simp only [Bool.false_eq_true, false_iff]
      intro hdef
      have := size_ge_of_semicomplete (Query.AL.abs_valid h) hdef
      rw [verts_length, ← Query.AL.size_spec h] at this
      omega
    · simp only [hsz, if_false] at hb
      have hinv := inv_run d _ sched _ (inv_init d t)
      by_cases hterm : terminal (run d (initState d t) sched) = true
      · simp only [hterm, if_true, Option.some.injEq] at hb
        subst hb
        constructor
        · intro hflag
          exact scanSeq_correct.1 (terminal_scanSeq ht h.1 hinv hterm hflag)
        · intro hdef
          cases hf : (run d (initState d t) sched).flag
          · exact absurd hdef (witness_not_semicomplete (hinv.wit hf))
          · rfl
      · simp [hterm] at hb

/-- Every fair-enough schedule terminates — here: the two schedules the driver replays are not
needed for the theorem; termination itself is a property of `std::thread::scope` joining. -/
theorem semicomplete_sched_agrees_functional {d : AdjList} (h : d.WF) (t : Nat) (ht : 0 < t) (sched : List Nat) (b : Bool)
    (hb : isSemicompleteSched d t sched = some b) : b = isSemicomplete d t := by
  have h1 := semicomplete_all_schedules h t ht sched b hb
  have h2 := isSemicomplete_correct h t ht
  cases b <;> cases hc : isSemicomplete d t <;> simp_all

end AL
end GraafVerif.Pred
