import GraafVerif.Proof.ComposeDriverAM
/-!
# Compose — `H09.vgraphSparse` (binary search over id-keyed rows, used for ids ≥ 4096) is
`H09.vgraphOf` (rows indexed by id)

For an `[am …]` description with loop-free arcs both constructions give the SAME `VGraph`
(vertex list `vertsOf d`; for every id `u`, vertex or not, the same row).  With
`driver_vgraph_is_vview_am` the graph `H09.graphOfDesc d` the handler runs Tarjan on is therefore
always the vertex-id view of the map the harness builds.
-/
namespace GraafVerif.Compose
open GraafVerif GraafVerif.Repr GraafVerif.Driver GraafVerif.Driver.H09

abbrev SRows := Array (Nat × List Nat)

def keyAt (rows : SRows) (j : Nat) : Nat := (rows.getD j (0, [])).1
def rowAt (rows : SRows) (j : Nat) : List Nat := (rows.getD j (0, [])).2

/-- keys strictly ascending by position -/
def KeysAsc (rows : SRows) : Prop := ∀ i j, i < j → j < rows.size → keyAt rows i < keyAt rows j

theorem keysAsc_le {rows : SRows} (h : KeysAsc rows) {i j : Nat} (hij : i ≤ j) (hj : j < rows.size) :
    keyAt rows i ≤ keyAt rows j := by
  rcases Nat.lt_or_ge i j with h' | h'
  · exact Nat.le_of_lt (h i j h' hj)
  · have : i = j := by omega
    rw [this]; exact Nat.le_refl _

/-- Binary search finds exactly the position holding the key. -/
theorem bsearch_spec (rows : SRows) (u : Nat) (hs : KeysAsc rows) :
    ∀ (fuel lo hi : Nat), hi ≤ rows.size → hi - lo < fuel → ∀ i,
      bsearch rows u fuel lo hi = some i ↔ (lo ≤ i ∧ i < hi ∧ keyAt rows i = u) := by
  intro fuel
  induction fuel with
  | zero => intro lo hi _ hf; omega
  | succ f ih =>
    intro lo hi hhi hf i
    unfold bsearch
    by_cases hge : lo ≥ hi
    · simp only [hge, if_true]
      constructor
      · intro h; cases h
      · intro h; omega
    · simp only [hge, if_false]
      have hlo : lo < hi := by omega
      have hmid1 : lo ≤ (lo + hi) / 2 := by omega
      have hmid2 : (lo + hi) / 2 < hi := by omega
      show (if (keyAt rows ((lo + hi) / 2) == u) = true then some ((lo + hi) / 2)
        else if keyAt rows ((lo + hi) / 2) < u then bsearch rows u f ((lo + hi) / 2 + 1) hi
        else bsearch rows u f lo ((lo + hi) / 2)) = some i ↔ _
      by_cases hk : keyAt rows ((lo + hi) / 2) = u
      · have : (keyAt rows ((lo + hi) / 2) == u) = true := by simp [hk]
        simp only [this, if_true, Option.some.injEq]
        constructor
        · intro e; subst e; exact ⟨hmid1, hmid2, hk⟩
        · rintro ⟨h1, h2, h3⟩
          -- keys are injective
          rcases Nat.lt_trichotomy ((lo + hi) / 2) i with h | h | h
          · have := hs _ _ h (by omega); omega
          · exact h
          · have := hs _ _ h (by omega); omega
      · have : (keyAt rows ((lo + hi) / 2) == u) = false := by simp [hk]
        simp only [this, Bool.false_eq_true, if_false]
        by_cases hlt : keyAt rows ((lo + hi) / 2) < u
        · simp only [hlt, if_true]
          rw [ih ((lo + hi) / 2 + 1) hi hhi (by omega) i]
          constructor
          · rintro ⟨h1, h2, h3⟩; exact ⟨by omega, h2, h3⟩
          · rintro ⟨h1, h2, h3⟩
            refine ⟨?_, h2, h3⟩
            apply Classical.byContradiction
            intro hc
            have := keysAsc_le hs (i := i) (j := (lo + hi) / 2) (by omega) (by omega)
            omega
        · simp only [hlt, if_false]
          rw [ih lo ((lo + hi) / 2) (by omega) (by omega) i]
          constructor
          · rintro ⟨h1, h2, h3⟩; exact ⟨h1, by omega, h3⟩
          · rintro ⟨h1, h2, h3⟩
            refine ⟨h1, ?_, h3⟩
            apply Classical.byContradiction
            intro hc
            have := keysAsc_le hs (i := (lo + hi) / 2) (j := i) (by omega) (by omega)
            omega

theorem rankOf_spec (rows : SRows) (u : Nat) (hs : KeysAsc rows) (i : Nat) :
    rankOf rows u = some i ↔ (i < rows.size ∧ keyAt rows i = u) := by
  unfold rankOf
  rw [bsearch_spec rows u hs (rows.size + 1) 0 rows.size (Nat.le_refl _) (by omega) i]
  constructor
  · rintro ⟨_, h2, h3⟩; exact ⟨h2, h3⟩
  · rintro ⟨h2, h3⟩; exact ⟨Nat.zero_le _, h2, h3⟩

/-! ## one step of the fold -/

def sstep (rows : SRows) (a : Nat × Nat) : SRows :=
  match rankOf rows a.1 with
  | some i => rows.modify i (fun r => (r.1, Tarjan.insertAsc a.2 r.2))
  | none => rows

theorem getD_modify (rows : SRows) (i j : Nat) (f : Nat × List Nat → Nat × List Nat) (hi : i < rows.size) :
    (rows.modify i f).getD j (0, []) = if i = j then f (rows.getD i (0, [])) else rows.getD j (0, []) := by
  rw [Array.getD_eq_getD_getElem?, Array.getD_eq_getD_getElem?, Array.getD_eq_getD_getElem?, Array.getElem?_modify]
  by_cases h : i = j
  · subst h
    simp only [if_true]
    rw [Array.getElem?_eq_getElem hi]
    rfl
  · simp only [h, if_false]

theorem sstep_spec (rows : SRows) (a : Nat × Nat) (hs : KeysAsc rows) :
    (sstep rows a).size = rows.size ∧ (∀ j, keyAt (sstep rows a) j = keyAt rows j) ∧
    ∀ j, j < rows.size →
      ((rowAt rows j).Pairwise (· < ·) → (rowAt (sstep rows a) j).Pairwise (· < ·)) ∧
      ∀ v, v ∈ rowAt (sstep rows a) j ↔ (v ∈ rowAt rows j ∨ (keyAt rows j = a.1 ∧ v = a.2)) := by
  unfold sstep
  cases hr : rankOf rows a.1 with
  | none =>
    refine ⟨rfl, fun _ => rfl, fun j hj => ⟨fun h => h, fun v => ?_⟩⟩
    constructor
    · intro h; exact Or.inl h
    · rintro (h | ⟨h1, _⟩)
      · exact h
      · have := (rankOf_spec rows a.1 hs j).2 ⟨hj, h1⟩
        rw [hr] at this; cases this
  | some i =>
    obtain ⟨hi, hki⟩ := (rankOf_spec rows a.1 hs i).1 hr
    refine ⟨Array.size_modify .., fun j => ?_, fun j hj => ?_⟩
    · unfold keyAt
      rw [getD_modify rows i j _ hi]
      by_cases h : i = j
      · subst h; simp
      · simp [h]
    · have hrow : rowAt (rows.modify i (fun r => (r.1, Tarjan.insertAsc a.2 r.2))) j =
          if i = j then Tarjan.insertAsc a.2 (rowAt rows j) else rowAt rows j := by
        unfold rowAt
        rw [getD_modify rows i j _ hi]
        by_cases h : i = j
        · subst h; simp
        · simp [h]
      rw [hrow]
      by_cases h : i = j
      · subst h
        simp only [if_true]
        refine ⟨fun hs' => Tarjan.sorted_insertAsc _ _ hs', fun v => ?_⟩
        rw [Tarjan.mem_insertAsc]
        constructor
        · rintro (h | h)
          · exact Or.inr ⟨hki, h⟩
          · exact Or.inl h
        · rintro (h | ⟨_, h⟩)
          · exact Or.inr h
          · exact Or.inl h
      · simp only [h, if_false]
        refine ⟨fun h => h, fun v => ?_⟩
        constructor
        · intro h'; exact Or.inl h'
        · rintro (h' | ⟨h1, _⟩)
          · exact h'
          · -- key j = a.1 = key i with i ≠ j contradicts strictness
            exfalso
            rcases Nat.lt_or_ge i j with hlt | hge
            · have := hs i j hlt hj; omega
            · have := hs j i (by omega) hi; omega

theorem keysAsc_congr {r r' : SRows} (h : KeysAsc r) (hsz : r'.size = r.size) (hk : ∀ j, keyAt r' j = keyAt r j) :
    KeysAsc r' := by
  intro i j hij hj
  rw [hk i, hk j]; exact h i j hij (by omega)

theorem sfold_spec (arcs : List (Nat × Nat)) : ∀ rows : SRows, KeysAsc rows →
    (arcs.foldl sstep rows).size = rows.size ∧ (∀ j, keyAt (arcs.foldl sstep rows) j = keyAt rows j) ∧
    ∀ j, j < rows.size →
      ((rowAt rows j).Pairwise (· < ·) → (rowAt (arcs.foldl sstep rows) j).Pairwise (· < ·)) ∧
      ∀ v, v ∈ rowAt (arcs.foldl sstep rows) j ↔ (v ∈ rowAt rows j ∨ (keyAt rows j, v) ∈ arcs) := by
  induction arcs with
  | nil => intro rows _; exact ⟨rfl, fun _ => rfl, fun j _ => ⟨fun h => h, fun v => by simp⟩⟩
  | cons a as ih =>
    intro rows hs
    obtain ⟨s1, k1, r1⟩ := sstep_spec rows a hs
    obtain ⟨s2, k2, r2⟩ := ih (sstep rows a) (keysAsc_congr hs s1 k1)
    simp only [List.foldl_cons]
    refine ⟨s2.trans s1, fun j => (k2 j).trans (k1 j), fun j hj => ?_⟩
    obtain ⟨a1, m1⟩ := r1 j hj
    obtain ⟨a2, m2⟩ := r2 j (by omega)
    refine ⟨fun h => a2 (a1 h), fun v => ?_⟩
    rw [m2 v, m1 v, k1 j]
    simp only [List.mem_cons]
    constructor
    · rintro ((h | ⟨h1, h2⟩) | h)
      · exact Or.inl h
      · refine Or.inr (Or.inl ?_); rw [h1, h2]
      · exact Or.inr (Or.inr h)
    · rintro (h | h | h)
      · exact Or.inl (Or.inl h)
      · refine Or.inl (Or.inr ?_)
        have := Prod.mk.inj h
        exact ⟨this.1, this.2⟩
      · exact Or.inr h

/-! ## the two constructions coincide -/

theorem vgraphSparse_eq (d : GDesc) : vgraphSparse d =
    ⟨vertsOf d, fun u =>
      match rankOf (d.arcs.foldl sstep ((vertsOf d).map (fun v => (v, ([] : List Nat)))).toArray) u with
      | some i => rowAt (d.arcs.foldl sstep ((vertsOf d).map (fun v => (v, ([] : List Nat)))).toArray) i
      | none => []⟩ := rfl

/-- **`vgraphSparse d = vgraphOf d`** for `[am …]` descriptions with loop-free arcs. -/
theorem vgraphSparse_eq_vgraphOf (d : GDesc) (hrepr : (d.repr == "am") = true)
    (hnl : ∀ a ∈ d.arcs, a.1 ≠ a.2) : vgraphSparse d = vgraphOf d := by
  have hvo : vertsOf d = (d.verts ++ d.arcs.map (·.1) ++ d.arcs.map (·.2)).foldl
      (fun acc x => Tarjan.insertAsc x acc) [] := by simp [vertsOf, hrepr]
  obtain ⟨hsorted, hmem⟩ := foldl_insertAsc (d.verts ++ d.arcs.map (·.1) ++ d.arcs.map (·.2)) [] List.Pairwise.nil
  rw [← hvo] at hsorted hmem
  let vs := vertsOf d
  let rows0 : SRows := (vs.map (fun v => (v, ([] : List Nat)))).toArray
  have hsz0 : rows0.size = vs.length := by simp [rows0]
  have hkey0 : ∀ j, (hj : j < vs.length) → keyAt rows0 j = vs[j] := by
    intro j hj
    simp [keyAt, rows0, Array.getD_eq_getD_getElem?, hj]
  have hrow0 : ∀ j, rowAt rows0 j = [] := by
    intro j
    simp only [rowAt, rows0, Array.getD_eq_getD_getElem?, List.getElem?_toArray, List.getElem?_map]
    cases vs[j]? <;> rfl
  have hasc0 : KeysAsc rows0 := by
    intro i j hij hj
    rw [hsz0] at hj
    rw [hkey0 i (by omega), hkey0 j hj]
    exact List.pairwise_iff_getElem.1 hsorted i j (Nat.lt_trans hij hj) hj hij
  obtain ⟨hsz, hkeys, hrows⟩ := sfold_spec d.arcs rows0 hasc0
  have hasc : KeysAsc (d.arcs.foldl sstep rows0) := keysAsc_congr hasc0 hsz hkeys
  -- the dense side
  have hb : ∀ a ∈ d.arcs, a.1 < vs.foldl max 0 + 1 ∧ a.2 < vs.foldl max 0 + 1 ∧ a.1 ≠ a.2 := by
    intro a ha
    have h1 : a.1 ∈ vs := by
      rw [hmem]; right; simp only [List.mem_append, List.mem_map]; exact Or.inl (Or.inr ⟨a, ha, rfl⟩)
    have h2 : a.2 ∈ vs := by
      rw [hmem]; right; simp only [List.mem_append, List.mem_map]; exact Or.inr ⟨a, ha, rfl⟩
    have := le_foldl_max vs 0 a.1 (Or.inr h1)
    have := le_foldl_max vs 0 a.2 (Or.inr h2)
    exact ⟨by omega, by omega, hnl a ha⟩
  obtain ⟨_, hdrows⟩ := Johnson.rowsOfArcs_ok (vs.foldl max 0 + 1) d.arcs hb
  obtain ⟨_, hdmem⟩ := rowsOfArcs_spec (vs.foldl max 0 + 1) d.arcs
  rw [vgraphSparse_eq]
  show _ = Tarjan.VGraph.mk vs (fun u => (rowsOfArcs (vs.foldl max 0 + 1) d.arcs).getD u [])
  congr 1
  funext u
  have hdense_mem : ∀ v, v ∈ (rowsOfArcs (vs.foldl max 0 + 1) d.arcs).getD u [] ↔ (u, v) ∈ d.arcs := by
    intro v
    rw [hdmem u v]
    exact ⟨fun h => h.1, fun h => ⟨h, (hb _ h).1⟩⟩
  cases hr : rankOf (d.arcs.foldl sstep rows0) u with
  | some i =>
    obtain ⟨hi, hk⟩ := (rankOf_spec _ u hasc i).1 hr
    have hi0 : i < rows0.size := by omega
    obtain ⟨ha, hm⟩ := hrows i hi0
    show rowAt (d.arcs.foldl sstep rows0) i = _
    apply Query.sorted_ext (ha (by rw [hrow0 i]; exact List.Pairwise.nil))
    · have := (hdrows u).1
      rw [Array.getD_eq_getD_getElem?]; exact this
    · intro v
      rw [hm v, hdense_mem v, hrow0 i, ← hkeys i, hk]
      simp
  | none =>
    show [] = _
    symm
    apply List.eq_nil_iff_forall_not_mem.2
    intro v hv
    have harc := (hdense_mem v).1 hv
    have hu : u ∈ vs := by
      rw [hmem]; right; simp only [List.mem_append, List.mem_map]; exact Or.inl (Or.inr ⟨(u, v), harc, rfl⟩)
    obtain ⟨j, hj, e⟩ := List.mem_iff_getElem.1 hu
    have : rankOf (d.arcs.foldl sstep rows0) u = some j :=
      (rankOf_spec _ u hasc j).2 ⟨by omega, by rw [hkeys j, hkey0 j hj, e]⟩
    rw [hr] at this; cases this

/-- Hence the graph the handler works on, whichever construction it picks, is the vertex-id view
of the map the harness builds. -/
theorem driver_graphOfDesc_is_vview_am (d : GDesc) (hrepr : (d.repr == "am") = true)
    (hverts : d.verts.Pairwise (· < ·)) (hnl : ∀ a ∈ d.arcs, a.1 ≠ a.2) :
    ∃ r, buildAM d = some r ∧ r.WF ∧ r.vview = graphOfDesc d := by
  obtain ⟨r, e, hw, _, _, hv⟩ := driver_vgraph_is_vview_am d hrepr hverts hnl
  refine ⟨r, e, hw, ?_⟩
  unfold graphOfDesc
  split
  · rw [vgraphSparse_eq_vgraphOf d hrepr hnl]; exact hv
  · exact hv

end GraafVerif.Compose
