import GraafVerif.Model.ChkJohnson
import GraafVerif.Proof.ChkAlgo
/-! `Johnson75`: every index into the B-lists is a vertex below `b.len()` — C13, P1 -/
namespace GraafVerif.Chk

/-- `b` has `n` rows and every entry of every row is below `n`. -/
def JInv (n : Nat) (st : JSt) : Prop := st.b.length = n ∧ ∀ row ∈ st.b, ∀ x ∈ row, x < n

theorem jinv_set {n : Nat} {b : List (List Nat)} (hb : b.length = n ∧ ∀ row ∈ b, ∀ x ∈ row, x < n)
    (u : Nat) (r : List Nat) (hr : ∀ x ∈ r, x < n) :
    (b.set u r).length = n ∧ ∀ row ∈ b.set u r, ∀ x ∈ row, x < n := by
  refine ⟨by simp [hb.1], ?_⟩
  intro row hrow x hx
  rcases List.mem_or_eq_of_mem_set hrow with h | h
  · exact hb.2 row h x hx
  · rw [h] at hx; exact hr x hx

theorem jUnblock_spec (n : Nat) :
    ∀ (fuel : Nat) (drain : Bool) (st : JSt) (u : Nat), u < n → JInv n st →
      NoUB (jUnblock fuel drain st u) ∧ ∀ st', jUnblock fuel drain st u = .ok st' → JInv n st' := by
  intro fuel
  induction fuel with
  | zero =>
    intro drain st u _ hinv
    unfold jUnblock
    exact ⟨noUB_pure _, by intro st' h; cases h; exact hinv⟩
  | succ fuel ih =>
    intro drain st u hu hinv
    cases drain with
    | false =>
      unfold jUnblock
      split
      · exact ih true _ u hu hinv
      · exact ⟨noUB_pure _, by intro st' h; cases h; exact hinv⟩
    | true =>
      unfold jUnblock
      have hul : u < st.b.length := by rw [hinv.1]; exact hu
      constructor
      · apply noUB_bind (noUB_rd hul); intro bu hbu
        have hmem := rd_mem hbu
        cases bu with
        | nil => exact noUB_pure _
        | cons v rest =>
          simp only []
          apply noUB_bind (noUB_wr hul); intro b' hb'
          have hv : v < n := hinv.2 _ hmem v List.mem_cons_self
          have hinv2 : JInv n { st with b := b' } := by
            rw [(wr_ok hb').1]
            exact jinv_set hinv u rest (fun x hx => hinv.2 _ hmem x (List.mem_cons_of_mem _ hx))
          obtain ⟨a1, a2⟩ := ih false _ v hv hinv2
          apply noUB_bind a1; intro st' hst'
          exact (ih true st' u hu (a2 st' hst')).1
      · intro stf h
        obtain ⟨bu, hbu, h⟩ := bind_ok h
        have hmem := rd_mem hbu
        cases bu with
        | nil => cases h; exact hinv
        | cons v rest =>
          simp only [] at h
          obtain ⟨b', hb', h⟩ := bind_ok h
          have hv : v < n := hinv.2 _ hmem v List.mem_cons_self
          have hinv2 : JInv n { st with b := b' } := by
            rw [(wr_ok hb').1]
            exact jinv_set hinv u rest (fun x hx => hinv.2 _ hmem x (List.mem_cons_of_mem _ hx))
          obtain ⟨st', hst', h⟩ := bind_ok h
          obtain ⟨_, a2⟩ := ih false _ v hv hinv2
          exact (ih true st' u hu (a2 st' hst')).2 stf h

theorem jBlockOn_spec (n v : Nat) (hv : v < n) (st : JSt) (w : Nat) (hw : w < n) (hinv : JInv n st) :
    NoUB (jBlockOn v st w) ∧ ∀ st', jBlockOn v st w = .ok st' → JInv n st' := by
  unfold jBlockOn
  have hwl : w < st.b.length := by rw [hinv.1]; exact hw
  constructor
  · apply noUB_bind (noUB_rd hwl); intro _ _
    exact noUB_bind (noUB_wr hwl) (fun _ _ => noUB_pure _)
  · intro st' h
    obtain ⟨row, hrow, h⟩ := bind_ok h
    obtain ⟨b', hb', h⟩ := bind_ok h
    cases h
    show b'.length = n ∧ _
    rw [(wr_ok hb').1]
    refine jinv_set hinv w _ ?_
    intro x hx
    unfold setInsert at hx
    split at hx
    · exact hinv.2 _ (rd_mem hrow) x hx
    · rcases List.mem_cons.mp hx with h | h
      · rw [h]; exact hv
      · exact hinv.2 _ (rd_mem hrow) x h

theorem jCircuit_spec (n : Nat) (out : Nat → Option (List Nat)) (s uf : Nat)
    (hout : ∀ x ws, out x = some ws → ∀ w ∈ ws, w < n) :
    ∀ (fuel : Nat) (st : JSt) (v : Nat), v < n → JInv n st →
      NoUB (jCircuit out s uf fuel st v) ∧ ∀ r, jCircuit out s uf fuel st v = .ok r → JInv n r.1 := by
  intro fuel
  induction fuel with
  | zero =>
    intro st v _ hinv
    unfold jCircuit
    exact ⟨noUB_pure _, by intro r h; cases h; exact hinv⟩
  | succ fuel ih =>
    intro st v hv hinv
    unfold jCircuit
    cases ho : out v with
    | none => exact ⟨noUB_throw_panic, by intro r h; cases h⟩
    | some ws =>
      simp only []
      have hws := hout v ws ho
      have hfold := foldlM_inv_mem (fun (acc : JSt × Bool) => JInv n acc.1)
        (fun (acc : JSt × Bool) w =>
          if w == s then pure ({ acc.1 with result := acc.1.stack.reverse :: acc.1.result }, true)
          else if !acc.1.blocked.contains w then do
            let r ← jCircuit out s uf fuel acc.1 w
            pure (r.1, acc.2 || r.2)
          else pure acc) ws
        (by
          intro acc w hw hacc
          split
          · exact ⟨noUB_pure _, by intro r h; cases h; exact hacc⟩
          · split
            · obtain ⟨a1, a2⟩ := ih acc.1 w (hws w hw) hacc
              exact ⟨noUB_bind a1 (fun _ _ => noUB_pure _),
                by intro r h; obtain ⟨r', hr', h⟩ := bind_ok h; cases h; exact a2 r' hr'⟩
            · exact ⟨noUB_pure _, by intro r h; cases h; exact hacc⟩)
        (({ st with stack := v :: st.stack, blocked := setInsert v st.blocked } : JSt), false) hinv
      have htail : ∀ (r : JSt × Bool), JInv n r.1 →
          NoUB (if r.2 then jUnblock uf false r.1 v else ws.foldlM (jBlockOn v) r.1) ∧
          ∀ st3, (if r.2 then jUnblock uf false r.1 v else ws.foldlM (jBlockOn v) r.1) = .ok st3 → JInv n st3 := by
        intro r hr
        split
        · exact jUnblock_spec n uf false r.1 v hv hr
        · exact foldlM_inv_mem (JInv n) (jBlockOn v) ws
            (fun st' w hw hst' => jBlockOn_spec n v hv st' w (hws w hw) hst') r.1 hr
      constructor
      · apply noUB_bind hfold.1; intro r hr
        exact noUB_bind (htail r (hfold.2 r hr)).1 (fun _ _ => noUB_pure _)
      · intro res h
        obtain ⟨r, hr, h⟩ := bind_ok h
        obtain ⟨st3, hst3, h⟩ := bind_ok h
        cases h
        exact (htail r (hfold.2 r hr)).2 st3 hst3

theorem jReset_spec (n : Nat) (st : JSt) (vertex : Nat) (hv : vertex < n) (hinv : JInv n st) :
    NoUB (jReset st vertex) ∧ ∀ st', jReset st vertex = .ok st' → JInv n st' := by
  unfold jReset
  have hl : vertex < st.b.length := by rw [hinv.1]; exact hv
  constructor
  · apply noUB_bind (noUB_rd hl); intro _ _
    exact noUB_bind (noUB_wr hl) (fun _ _ => noUB_pure _)
  · intro st' h
    obtain ⟨_, _, h⟩ := bind_ok h
    obtain ⟨b', hb', h⟩ := bind_ok h
    cases h
    show b'.length = n ∧ _
    rw [(wr_ok hb').1]
    exact jinv_set hinv vertex [] (by intro x hx; cases hx)

/-- A component is made of vertices of `a` and closed under its own `out_neighbors`. -/
def JCompOK (verts : List Nat) (c : JComp) : Prop :=
  (∀ x ∈ c.cs, x ∈ verts) ∧ c.start ∈ c.cs ∧ ∀ x ws, c.out x = some ws → ∀ w ∈ ws, w ∈ c.cs

/-- `Johnson75::circuits` for every vertex set (contiguous or not: the assert rejects the others),
every sequence of components of it and every fuel. -/
theorem jCircuits_noUB (order : Nat) (verts : List Nat) (comps : List JComp) (uf cf : Nat)
    (hc : ∀ c ∈ comps, JCompOK verts c) : NoUB (jCircuits order verts comps uf cf) := by
  unfold jCircuits
  apply noUB_bind (noUB_assert _); intro _ ha
  have hverts : ∀ x ∈ verts, x < order := by
    have := assert_ok ha
    rw [List.all_eq_true] at this
    intro x hx
    simpa using this x hx
  refine noUB_bind ?_ (fun _ _ => noUB_pure _)
  refine (foldlM_inv_mem (JInv order) _ comps ?_ _ ⟨by simp, ?_⟩).1
  · intro st c hcm hst
    obtain ⟨h1, h2, h3⟩ := hc c hcm
    have hreset := foldlM_inv_mem (JInv order) jReset c.cs
      (fun st' x hx hst' => jReset_spec order st' x (hverts x (h1 x hx)) hst') st hst
    have hcirc : ∀ st1, JInv order st1 →
        NoUB (jCircuit c.out c.start uf cf st1 c.start) ∧
        ∀ r, jCircuit c.out c.start uf cf st1 c.start = .ok r → JInv order r.1 := by
      intro st1 hst1
      exact jCircuit_spec order c.out c.start uf
        (fun x ws hx w hw => hverts w (h1 w (h3 x ws hx w hw))) cf st1 c.start (hverts _ (h1 _ h2)) hst1
    constructor
    · apply noUB_bind hreset.1; intro st1 hst1
      exact noUB_bind (hcirc st1 (hreset.2 st1 hst1)).1 (fun _ _ => noUB_pure _)
    · intro st' h
      obtain ⟨st1, hst1, h⟩ := bind_ok h
      obtain ⟨r, hr, h⟩ := bind_ok h
      cases h
      exact (hcirc st1 (hreset.2 st1 hst1)).2 r hr
  · intro row hrow x hx
    have := List.eq_of_mem_replicate hrow
    rw [this] at hx; cases hx

end GraafVerif.Chk
