import GraafVerif.Proof.RandF64
/-! Cross-representation agreement: for equal arguments the sequential generators show the same arcs
(they consume the stream identically), and so does the map variant when a single worker runs. -/
namespace GraafVerif.Rand
open GraafVerif.Repr

theorem Realizes.same {a b : View} {n : Nat} {arcs : List (Nat × Nat)}
    (ha : Realizes a n arcs) (hb : Realizes b n arcs) : SameDigraph a b := by
  refine ⟨ha.1.trans hb.1.symm, ha.2.1.trans hb.2.1.symm, fun u v => ?_⟩
  have h1 := ha.2.2 u v
  have h2 := hb.2.2 u v
  cases h : a.has u v <;> cases h' : b.has u v <;> simp_all

theorem othersChain_eq_filter (n u : Nat) (hu : u < n) : othersChain n u = othersFilter n u := by
  unfold othersChain othersFilter
  have hsplit : List.range n = List.range u ++ (u :: List.range' (u + 1) (n - (u + 1))) := by
    rw [List.range_eq_range', List.range_eq_range']
    have h1 : n = u + (1 + (n - (u + 1))) := by omega
    conv => lhs; rw [h1]
    rw [← List.range'_append_1]
    congr 1
    rw [Nat.zero_add, Nat.add_comm 1, List.range'_succ]
  rw [hsplit, List.filter_append, List.filter_cons]
  have h1 : (List.range u).filter (fun v => u != v) = List.range u :=
    List.filter_eq_self.2 fun a ha => by have := List.mem_range.1 ha; simp; omega
  have h2 : (List.range' (u + 1) (n - (u + 1))).filter (fun v => u != v) = List.range' (u + 1) (n - (u + 1)) :=
    List.filter_eq_self.2 fun a ha => by have := (List.mem_range'_1.1 ha).1; simp; omega
  simp [h1, h2]

theorem erArcs_chain_eq_filter (s : Stream) (p : F64) (n : Nat) :
    erArcs s p n othersChain = erArcs s p n othersFilter := by
  unfold erArcs
  rw [List.flatMap_def, List.flatMap_def]
  congr 1
  apply List.map_congr_left
  intro u hu
  rw [othersChain_eq_filter n u (List.mem_range.1 hu)]

theorem ranges_single (n : Nat) (hn : 1 ≤ n) : Par.ranges n 1 = [(0, n)] := by
  unfold Par.ranges
  simp only [Par.ranges.go, Nat.add_sub_cancel, Nat.div_one, Nat.zero_mul, Nat.zero_add, Nat.min_self]
  have : ¬ 0 ≥ n := by omega
  simp [this]

/-- one worker (`t = 1`): the map tournament performs exactly the sequential inserts of stream 0 -/
theorem tournamentProgs_single (streams : Nat → Stream) (n : Nat) (hn : 1 ≤ n) :
    (tournamentProgs streams n 1).flatten = tournamentArcs (streams 0) n := by
  have hmin : min n 1 = 1 := by omega
  unfold tournamentProgs workers
  rw [hmin, ranges_single n hn]
  simp only [List.zipIdx_cons, List.zipIdx_nil, List.map_cons, List.map_nil, List.flatten_cons, List.flatten_nil,
    List.append_nil, workerActs, tournamentArcs, workerPairs, pairs, Nat.sub_zero]
  rw [List.range_eq_range']

/-- one worker, `p ≤ 0.5`: the map generator's rows are the sequential rows of stream 0 -/
theorem erResults_single (streams : Nat → Stream) (n : Nat) (p : F64) (hn : 1 ≤ n) :
    ((erResults streams n 1 p).flatMap fun ur => ur.2.map fun v => (ur.1, v)) = erArcs (streams 0) p n othersFilter := by
  have hmin : min n 1 = 1 := by omega
  unfold erResults workers
  rw [hmin, ranges_single n hn]
  simp only [List.zipIdx_cons, List.zipIdx_nil, List.flatMap_cons, List.flatMap_nil, List.append_nil, erWorker,
    erArcs, Nat.sub_zero]
  rw [List.range_eq_range', List.flatMap_def, List.flatMap_def, List.map_map]
  rfl

/-! ### agreement theorems -/

theorem tournament_agree (s : Stream) (n : Nat) (hn : 1 ≤ n) (hb : FitsMatrix n) :
    ∃ a m e, tournamentAL s n = some a ∧ tournamentMX s n = some m ∧ tournamentEL s n = some e ∧
      SameDigraph (viewAL a) (viewMX m) ∧ SameDigraph (viewAL a) (viewEL e) := by
  obtain ⟨a, ha, ra⟩ := tournamentAL_realizes s n hn
  obtain ⟨m, hm, rm⟩ := tournamentMX_realizes s n hn hb
  obtain ⟨e, he, re⟩ := tournamentEL_realizes s n hn
  exact ⟨a, m, e, ha, hm, he, ra.same rm, ra.same re⟩

theorem tournament_am_single (streams : Nat → Stream) (n : Nat) (hn : 1 ≤ n) :
    ∃ a g, tournamentAL (streams 0) n = some a ∧ tournamentAM streams n 1 = some g ∧
      SameDigraph (viewAL a) (viewAM g) := by
  obtain ⟨a, ha, ra⟩ := tournamentAL_realizes (streams 0) n hn
  obtain ⟨g, hg, rg⟩ := tournamentAM_realizes streams n 1 hn (by omega)
  rw [tournamentProgs_single streams n hn] at rg
  exact ⟨a, g, ha, hg, ra.same rg⟩

theorem rrt_agree (s : Stream) (n : Nat) (hn : 1 ≤ n) (hb : FitsMatrix n) :
    ∃ a g m e, rrtAL s n = some a ∧ rrtAM s n = some g ∧ rrtMX s n = some m ∧ rrtEL s n = some e ∧
      SameDigraph (viewAL a) (viewAM g) ∧ SameDigraph (viewAL a) (viewMX m) ∧ SameDigraph (viewAL a) (viewEL e) := by
  obtain ⟨a, ha, ra⟩ := rrtAL_realizes s n hn
  obtain ⟨g, hg, rg⟩ := rrtAM_realizes s n hn
  obtain ⟨m, hm, rm⟩ := rrtMX_realizes s n hn hb
  obtain ⟨e, he, re⟩ := rrtEL_realizes s n hn
  exact ⟨a, g, m, e, ha, hg, hm, he, ra.same rg, ra.same rm, ra.same re⟩

theorem er_agree (s : Stream) (n : Nat) (p : F64) (hn : 1 ≤ n) (hb : FitsMatrix n) (hp : p.inUnit = true) :
    ∃ a m e, erAL s n p = some a ∧ erMX s n p = some m ∧ erEL s n p = some e ∧
      SameDigraph (viewAL a) (viewMX m) ∧ SameDigraph (viewAL a) (viewEL e) := by
  obtain ⟨a, ha, ra⟩ := erAL_realizes s n p hn hp
  obtain ⟨m, hm, rm⟩ := erMX_realizes s n p hn hb hp
  obtain ⟨e, he, re⟩ := erEL_realizes s n p hn hp
  rw [← erArcs_chain_eq_filter] at rm
  exact ⟨a, m, e, ha, hm, he, ra.same rm, ra.same re⟩

theorem er_am_single (streams : Nat → Stream) (n : Nat) (p : F64) (hn : 2 ≤ n) (hp : p.inUnit = true)
    (hh : p.gtHalf = false) :
    ∃ a, erAL (streams 0) n p = some a ∧ SameDigraph (viewAL a) (viewAM (erMapCore streams n 1 p)) ∧
      erAM streams n 1 p = some (erMapCore streams n 1 p) := by
  obtain ⟨a, ha, ra⟩ := erAL_realizes (streams 0) n p (by omega) hp
  have rg := erMapCore_realizes streams n 1 p (by omega) (by omega)
  rw [erResults_single streams n p (by omega), ← erArcs_chain_eq_filter] at rg
  have h0 : ¬ n = 0 := by omega
  have h1 : ¬ n = 1 := by omega
  exact ⟨a, ha, ra.same rg, by simp [erAM, erAMF, hp, hh, h0, h1]⟩

end GraafVerif.Rand
