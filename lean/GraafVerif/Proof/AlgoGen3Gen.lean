import GraafVerif.Proof.AlgoGen3Prng
import GraafVerif.Proof.AlgoGen2Conv
/-!
# Generated sequential seeded generators (`Model/AlgoGen3.lean`) = hand-written `Model/Rand.lean`

The generated definitions thread the PRNG value through their loops (one draw per iteration); the
hand-written model takes the draws as a stream and gives the `i`-th iteration the draw `s i`
(`List.zipIdx`).  `draws x` is the stream of the PRNG state `x`; `forLoop_draws` is the bridge
(a loop that draws exactly once per iteration = the indexed fold over `draws x`), `forLoop_flat`
flattens the nested `for u { for v { .. } }` loops into the hand-written iteration lists.
-/
set_option linter.unusedSimpArgs false
namespace GraafVerif.AlgoGenThm
open GraafVerif GraafVerif.AlgoGen GraafVerif.Repr
open Xoshiro256StarStar (ofX)

/-- the draws of the PRNG state `x`: `draws x i` = the `(i+1)`-th value `next()` returns -/
def draws (x : Rand.Xo) : Rand.Stream := fun i => (x.iter i).next.1

theorem iter_next (x : Rand.Xo) : ∀ i, (x.next.2).iter i = (x.iter i).next.2 := by
  intro i
  induction i with
  | zero => rfl
  | succ i ih => simp only [Rand.Xo.iter, ih]

theorem draws_succ (x : Rand.Xo) (i : Nat) : draws x (i + 1) = draws x.next.2 i := by
  unfold draws
  rw [iter_next]; rfl

/-- `xoStream seed` is the stream of the freshly seeded PRNG -/
theorem draws_new (seed : UInt64) : draws (Rand.Xo.new seed) = Rand.xoStream seed := rfl

theorem bind_pair_eta {σ τ β ρ : Type} (X : Blk β ρ (σ × τ)) : (X >>= fun t => (Except.ok (t.1, t.2) : Blk β ρ (σ × τ))) = X := by
  cases X <;> rfl

/-- `none` of a step = `panic`, in a loop that also carries the PRNG -/
def optS {σ β ρ : Type} (x' : Rand.Xo) : Option σ → Blk β ρ (σ × AlgoGen.Xoshiro256StarStar)
  | some s => .ok (s, ofX x')
  | none => .error (.err (.fault .panic))

/-- A loop that draws exactly once per iteration from the threaded PRNG = the indexed fold over the
stream of that PRNG (iteration `i` of the list receives `draws x (k + i)` … here `k = 0`). -/
theorem forLoop_draws {σ α β ρ : Type} (P : σ → Prop) (l : List α)
    (body : σ × AlgoGen.Xoshiro256StarStar → α → Blk (σ × AlgoGen.Xoshiro256StarStar) ρ (σ × AlgoGen.Xoshiro256StarStar))
    (f : σ → α → UInt64 → Option σ)
    (hbody : ∀ s a x, a ∈ l → P s → body (s, ofX x) a = optS x.next.2 (f s a x.next.1))
    (hP : ∀ s a w s', a ∈ l → P s → f s a w = some s' → P s') :
    ∀ (l' : List α) (s : σ) (x : Rand.Xo), (∀ a ∈ l', a ∈ l) → P s →
      (forLoop body l' (s, ofX x) : Blk β ρ _) =
        optS (x.iter l'.length) (l'.zipIdx.foldlM (fun s ai => f s ai.1 (draws x ai.2)) s) := by
  intro l'
  induction l' with
  | nil => intro s x _ _; rfl
  | cons a l' ih =>
    intro s x hsub hs
    have ha := hsub a List.mem_cons_self
    have hb := hbody s a x ha hs
    rw [List.zipIdx_cons, List.foldlM_cons]
    have h0 : draws x 0 = x.next.1 := rfl
    simp only [h0]
    cases hf : f s a x.next.1 with
    | none =>
      rw [forLoop_cons_err (e := .fault .panic) (h := by rw [hb, hf]; rfl)]
      rfl
    | some s' =>
      rw [forLoop_cons_ok (s' := (s', ofX x.next.2)) (h := by rw [hb, hf]; rfl)]
      rw [ih s' x.next.2 (fun b hb' => hsub b (List.mem_cons_of_mem _ hb')) (hP s a _ s' ha hs hf)]
      simp only [Option.bind_eq_bind, Option.bind_some, List.length_cons, Rand.Xo.iter]
      have e1 : x.next.2.iter l'.length = (x.iter l'.length).next.2 := iter_next x _
      rw [e1]
      congr 1
      rw [show (l'.zipIdx (0 + 1)) = l'.zipIdx.map (fun p => (p.1, p.2 + 1)) from by
        rw [List.zipIdx_succ]]
      rw [List.foldlM_map]
      congr 1
      funext s2 p
      rw [draws_succ]

/-- `for u in us { for v in vs u { .. } }` = one loop over the flattened iteration list, when the inner
body only ever returns `ok` / `err` (no `break`, no `return`). -/
theorem forLoop_flat {σ α γ β ρ : Type} (outer : σ → α → Blk σ ρ σ) (inner : α → σ → γ → Blk σ ρ σ) (vs : α → List γ)
    (houter : ∀ s u, outer s u = forLoop (inner u) (vs u) s)
    (hinner : ∀ u s v, (∃ s', inner u s v = .ok s') ∨ (∃ e, inner u s v = .error (.err e))) :
    ∀ (us : List α) (s : σ),
      (forLoop outer us s : Blk β ρ σ) =
        forLoop (fun s (p : α × γ) => inner p.1 s p.2) (us.flatMap fun u => (vs u).map fun v => (u, v)) s := by
  have hin : ∀ (u : α) (l : List γ) (rest : List (α × γ)) (s : σ),
      (forLoop (fun s (p : α × γ) => inner p.1 s p.2) (l.map (fun v => (u, v)) ++ rest) s : Blk β ρ σ) =
        match (forLoop (inner u) l s : Blk σ ρ σ) with
        | .ok s' => forLoop (fun s (p : α × γ) => inner p.1 s p.2) rest s'
        | .error (.err e) => .error (.err e)
        | .error (.brk s') => .ok s'
        | .error (.ret r) => .error (.ret r) := by
    intro u l
    induction l with
    | nil => intro rest s; rfl
    | cons v l ihl =>
      intro rest s
      simp only [List.map_cons, List.cons_append]
      rcases hinner u s v with ⟨s', h⟩ | ⟨e, h⟩
      · rw [forLoop_cons_ok (body := inner u) (h := h),
          forLoop_cons_ok (body := fun s (p : α × γ) => inner p.1 s p.2) (a := (u, v)) (s' := s') (h := h)]
        exact ihl rest s'
      · rw [forLoop_cons_err (body := inner u) (h := h),
          forLoop_cons_err (body := fun s (p : α × γ) => inner p.1 s p.2) (a := (u, v)) (e := e) (h := h)]
  intro us
  induction us with
  | nil => intro s; rfl
  | cons u us ih =>
    intro s
    simp only [List.flatMap_cons]
    rw [hin u (vs u) _ s]
    rw [forLoop_cons, houter]
    cases hfl : (forLoop (inner u) (vs u) s : Blk σ ρ σ) with
    | ok s' => exact ih s'
    | error e => cases e <;> rfl



/-! ## `random_tournament` for `AdjacencyList` (rows through `get_unchecked_mut`) -/
namespace AdjacencyList

theorem mem_pairs {n : Nat} {p : Nat × Nat} (h : p ∈ Rand.pairs n) : p.1 < n ∧ p.2 < n := by
  unfold Rand.pairs at h
  simp only [List.mem_flatMap, List.mem_range, List.mem_map, List.mem_range'_1] at h
  obtain ⟨u, hu, v, hv, rfl⟩ := h
  exact ⟨hu, by omega⟩

/-- one pair `(u, v)`: a draw, then `rows[u].insert(v)` or `rows[v].insert(u)` -/
def tstep (rows : List (List Nat)) (p : Nat × Nat) (w : UInt64) : Option (List (List Nat)) :=
  some (if Rand.nextBool w then Rand.rowInsert rows (p.1, p.2) else Rand.rowInsert rows (p.2, p.1))

/-- inside the allocation neither `get_unchecked_mut` is out of bounds: no UB -/
theorem randomTournament_for1_eq (u : Nat) (rows : List (List Nat)) (x : Rand.Xo) (v : Nat)
    (hu : u < rows.length) (hv : v < rows.length) :
    (AlgoGen.AdjacencyList.randomTournament_for1 u (rows, ofX x) v : Blk _ AdjList _) =
      optS x.next.2 (tstep rows (u, v) x.next.1) := by
  unfold AlgoGen.AdjacencyList.randomTournament_for1 tstep Rand.rowInsert
  simp only [Xoshiro256StarStar.nextBool_eq, call_ok, ok_bind]
  by_cases hb : Rand.nextBool (Rand.Xo.next x).1 = true
  · simp only [hb, if_true, rd_lt _ _ _ hu, wr_lt _ _ _ _ hu, ok_bind, pure_eq_ok,
      List.getElem?_eq_getElem hu, Option.getD_some]
    rfl
  · simp only [hb, if_false, Bool.false_eq_true, rd_lt _ _ _ hv, wr_lt _ _ _ _ hv, ok_bind, pure_eq_ok,
      List.getElem?_eq_getElem hv, Option.getD_some]
    rfl

/-- the body of the inner loop never leaves through `break` / `return` -/
theorem randomTournament_for1_exits (u : Nat) (s : List (List Nat) × AlgoGen.Xoshiro256StarStar) (v : Nat) :
    (∃ s', AlgoGen.AdjacencyList.randomTournament_for1 u s v = (.ok s' : Blk _ AdjList _)) ∨
      (∃ e, AlgoGen.AdjacencyList.randomTournament_for1 u s v = (.error (.err e) : Blk _ AdjList _)) := by
  unfold AlgoGen.AdjacencyList.randomTournament_for1
  cases hc : AlgoGen.Xoshiro256StarStar.nextBool s.2 with
  | error e => exact Or.inr ⟨e, by simp [hc]⟩
  | ok r =>
    by_cases hb : r.1 = true
    · by_cases hu : u < s.1.length
      · exact Or.inl ⟨(s.1.set u (Repr.sinsert v s.1[u]), r.2), by
          simp [hc, hb, rd_lt _ _ _ hu, wr_lt _ _ _ _ hu]⟩
      · exact Or.inr ⟨.fault (.ub "repr/adjacency_list/mod.rs:random_tournament:arcs.get_unchecked_mut(u)"), by
          simp [hc, hb, rd_ge _ _ _ (Nat.le_of_not_lt hu)]⟩
    · by_cases hv : v < s.1.length
      · exact Or.inl ⟨(s.1.set v (Repr.sinsert u s.1[v]), r.2), by
          simp [hc, hb, rd_lt _ _ _ hv, wr_lt _ _ _ _ hv]⟩
      · exact Or.inr ⟨.fault (.ub "repr/adjacency_list/mod.rs:random_tournament:arcs.get_unchecked_mut(v)"), by
          simp [hc, hb, rd_ge _ _ _ (Nat.le_of_not_lt hv)]⟩

theorem rowInsert_length (rows : List (List Nat)) (a : Nat × Nat) : (Rand.rowInsert rows a).length = rows.length := by
  simp [Rand.rowInsert]

/-- the two nested loops = the indexed fold over the hand-written `pairs` with the draws of the PRNG -/
theorem randomTournament_for0_eq (n : Nat) (rows : List (List Nat)) (x : Rand.Xo) (hlen : rows.length = n) :
    (forLoop (AlgoGen.AdjacencyList.randomTournament_for0 n) (List.range n) (rows, ofX x) : Blk Empty AdjList _) =
      .ok ((Rand.tournamentArcs (draws x) n).foldl Rand.rowInsert rows, ofX (x.iter (Rand.pairs n).length)) := by
  have hflat := forLoop_flat (β := Empty) (AlgoGen.AdjacencyList.randomTournament_for0 n)
    (fun u => AlgoGen.AdjacencyList.randomTournament_for1 u) (fun u => AlgoGen.range (u + 1) n)
    (fun s u => by unfold AlgoGen.AdjacencyList.randomTournament_for0; exact bind_pair_eta _)
    randomTournament_for1_exits (List.range n) (rows, ofX x)
  rw [hflat]
  have hpairs : ((List.range n).flatMap fun u => (AlgoGen.range (u + 1) n).map fun v => (u, v)) = Rand.pairs n := rfl
  rw [hpairs]
  rw [forLoop_draws (β := Empty) (fun r : List (List Nat) => r.length = n) (Rand.pairs n) _ tstep
    (fun r p x hp hr => randomTournament_for1_eq p.1 r x p.2
      (by rw [hr]; exact (mem_pairs hp).1) (by rw [hr]; exact (mem_pairs hp).2))
    (fun r p w r' _ hr h => by
      unfold tstep at h
      injection h with h
      subst h
      by_cases hb : Rand.nextBool w = true <;> simp [hb, rowInsert_length, hr])
    (Rand.pairs n) rows x (fun _ h => h) hlen]
  have hfold : ∀ (l : List ((Nat × Nat) × Nat)) (r : List (List Nat)),
      l.foldlM (fun s ai => tstep s ai.1 (draws x ai.2)) r =
        some ((l.map (Rand.orient (draws x))).foldl Rand.rowInsert r) := by
    intro l
    induction l with
    | nil => intro r; rfl
    | cons a l ih =>
      intro r
      have hstep : tstep r a.1 (draws x a.2) = some (Rand.rowInsert r (Rand.orient (draws x) a)) := by
        unfold tstep Rand.orient
        by_cases hb : Rand.nextBool (draws x a.2) = true <;> simp [hb]
      rw [List.foldlM_cons, hstep]
      simp only [Option.bind_eq_bind, Option.bind_some, List.map_cons, List.foldl_cons]
      exact ih _
  rw [hfold]
  rfl

/-- `AdjacencyList::random_tournament(order, seed)` = the hand-written `tournamentAL` on the stream of
`Xoshiro256StarStar::new(seed)`, for every order and seed; in particular no `get_unchecked_mut` is UB. -/
theorem randomTournament_eq (n : Nat) (seed : UInt64) :
    AlgoGen.AdjacencyList.randomTournament n seed = optR (Rand.tournamentAL (Rand.xoStream seed) n) := by
  unfold AlgoGen.AdjacencyList.randomTournament Rand.tournamentAL
  by_cases h0 : n = 0
  · subst h0; rfl
  · have hpos : n > 0 := Nat.pos_of_ne_zero h0
    by_cases h1 : n = 1
    · subst h1; rfl
    · simp only [hpos, h0, h1, decide_true, assert_true, ok_bind, if_false, Xoshiro256StarStar.new_eq, call_ok,
        randomTournament_for0_eq n _ _ List.length_replicate, draws_new]
      rfl

end AdjacencyList


/-! ## `random_tournament` for `AdjacencyMatrix` -/
namespace AdjacencyMatrix

/-- one pair `(u, v)`: a draw, then `add_arc(u, v)` or `add_arc(v, u)` -/
def tstep (g : AdjMatrix) (p : Nat × Nat) (w : UInt64) : Option AdjMatrix :=
  if Rand.nextBool w then g.addArc p.1 p.2 else g.addArc p.2 p.1

theorem randomTournament_for1_eq (u : Nat) (g : AdjMatrix) (x : Rand.Xo) (v : Nat) :
    (AlgoGen.AdjacencyMatrix.randomTournament_for1 u (g, ofX x) v : Blk _ AdjMatrix _) = optS x.next.2 (tstep g (u, v) x.next.1) := by
  unfold AlgoGen.AdjacencyMatrix.randomTournament_for1 tstep
  simp only [Xoshiro256StarStar.nextBool_eq, call_ok, ok_bind]
  by_cases hb : Rand.nextBool (Rand.Xo.next x).1 = true
  · simp only [hb, if_true]
    cases g.addArc u v <;> rfl
  · simp only [hb, if_false, Bool.false_eq_true]
    cases g.addArc v u <;> rfl

/-- the body of the inner loop never leaves through `break` / `return` -/
theorem randomTournament_for1_exits (u : Nat) (s : AdjMatrix × AlgoGen.Xoshiro256StarStar) (v : Nat) :
    (∃ s', AlgoGen.AdjacencyMatrix.randomTournament_for1 u s v = (.ok s' : Blk _ AdjMatrix _)) ∨
      (∃ e, AlgoGen.AdjacencyMatrix.randomTournament_for1 u s v = (.error (.err e) : Blk _ AdjMatrix _)) := by
  unfold AlgoGen.AdjacencyMatrix.randomTournament_for1
  cases hc : AlgoGen.Xoshiro256StarStar.nextBool s.2 with
  | error e => exact Or.inr ⟨e, by simp [hc]⟩
  | ok r =>
    by_cases hb : r.1 = true
    · cases ha : s.1.addArc u v with
      | none => exact Or.inr ⟨.fault .panic, by simp [hc, hb, ha, optP, panic_def]⟩
      | some g' => exact Or.inl ⟨(g', r.2), by simp [hc, hb, ha, optP]⟩
    · cases ha : s.1.addArc v u with
      | none => exact Or.inr ⟨.fault .panic, by simp [hc, hb, ha, optP, panic_def]⟩
      | some g' => exact Or.inl ⟨(g', r.2), by simp [hc, hb, ha, optP]⟩

/-- the two nested loops = the indexed fold over the hand-written `pairs` with the draws of the PRNG -/
theorem randomTournament_for0_eq (n : Nat) (g : AdjMatrix) (x : Rand.Xo) :
    (forLoop (AlgoGen.AdjacencyMatrix.randomTournament_for0 n) (List.range n) (g, ofX x) : Blk Empty AdjMatrix _) =
      optS (x.iter (Rand.pairs n).length)
        ((Rand.tournamentArcs (draws x) n).foldlM (fun g a => g.addArc a.1 a.2) g) := by
  have hflat := forLoop_flat (β := Empty) (AlgoGen.AdjacencyMatrix.randomTournament_for0 n)
    (fun u => AlgoGen.AdjacencyMatrix.randomTournament_for1 u) (fun u => AlgoGen.range (u + 1) n)
    (fun s u => by unfold AlgoGen.AdjacencyMatrix.randomTournament_for0; exact bind_pair_eta _)
    randomTournament_for1_exits (List.range n) (g, ofX x)
  rw [hflat]
  have hpairs : ((List.range n).flatMap fun u => (AlgoGen.range (u + 1) n).map fun v => (u, v)) = Rand.pairs n := rfl
  rw [hpairs]
  rw [forLoop_draws (β := Empty) (fun _ => True) (Rand.pairs n) _ tstep
    (fun g p x _ _ => randomTournament_for1_eq p.1 g x p.2) (fun _ _ _ _ _ _ _ => trivial)
    (Rand.pairs n) g x (fun _ h => h) trivial]
  congr 1
  unfold Rand.tournamentArcs
  rw [List.foldlM_map]
  congr 1
  funext g2 pi
  unfold tstep Rand.orient
  by_cases hb : Rand.nextBool (draws x pi.2) = true <;> simp [hb]

/-- `AdjacencyMatrix::random_tournament(order, seed)` = the hand-written `tournamentMX` on the stream of
`Xoshiro256StarStar::new(seed)`, for every order and seed. -/
theorem randomTournament_eq (n : Nat) (seed : UInt64) :
    AlgoGen.AdjacencyMatrix.randomTournament n seed = optR (Rand.tournamentMX (Rand.xoStream seed) n) := by
  unfold AlgoGen.AdjacencyMatrix.randomTournament Rand.tournamentMX
  cases he : AdjMatrix.empty n with
  | none => rfl
  | some e =>
    simp only [optP, ok_bind, Xoshiro256StarStar.new_eq, call_ok, randomTournament_for0_eq, draws_new,
      Option.bind_eq_bind, Option.bind_some]
    cases (Rand.tournamentArcs (Rand.xoStream seed) n).foldlM (fun g a => g.addArc a.1 a.2) e <;> rfl

end AdjacencyMatrix

/-! ## `random_tournament` for `EdgeList` -/
namespace EdgeList

/-- one pair `(u, v)`: a draw, then `add_arc(u, v)` or `add_arc(v, u)` -/
def tstep (g : Repr.EdgeList) (p : Nat × Nat) (w : UInt64) : Option Repr.EdgeList :=
  if Rand.nextBool w then g.addArc p.1 p.2 else g.addArc p.2 p.1

theorem randomTournament_for1_eq (u : Nat) (g : Repr.EdgeList) (x : Rand.Xo) (v : Nat) :
    (AlgoGen.EdgeList.randomTournament_for1 u (g, ofX x) v : Blk _ Repr.EdgeList _) = optS x.next.2 (tstep g (u, v) x.next.1) := by
  unfold AlgoGen.EdgeList.randomTournament_for1 tstep
  simp only [Xoshiro256StarStar.nextBool_eq, call_ok, ok_bind]
  by_cases hb : Rand.nextBool (Rand.Xo.next x).1 = true
  · simp only [hb, if_true]
    cases g.addArc u v <;> rfl
  · simp only [hb, if_false, Bool.false_eq_true]
    cases g.addArc v u <;> rfl

/-- the body of the inner loop never leaves through `break` / `return` -/
theorem randomTournament_for1_exits (u : Nat) (s : Repr.EdgeList × AlgoGen.Xoshiro256StarStar) (v : Nat) :
    (∃ s', AlgoGen.EdgeList.randomTournament_for1 u s v = (.ok s' : Blk _ Repr.EdgeList _)) ∨
      (∃ e, AlgoGen.EdgeList.randomTournament_for1 u s v = (.error (.err e) : Blk _ Repr.EdgeList _)) := by
  unfold AlgoGen.EdgeList.randomTournament_for1
  cases hc : AlgoGen.Xoshiro256StarStar.nextBool s.2 with
  | error e => exact Or.inr ⟨e, by simp [hc]⟩
  | ok r =>
    by_cases hb : r.1 = true
    · cases ha : s.1.addArc u v with
      | none => exact Or.inr ⟨.fault .panic, by simp [hc, hb, ha, optP, panic_def]⟩
      | some g' => exact Or.inl ⟨(g', r.2), by simp [hc, hb, ha, optP]⟩
    · cases ha : s.1.addArc v u with
      | none => exact Or.inr ⟨.fault .panic, by simp [hc, hb, ha, optP, panic_def]⟩
      | some g' => exact Or.inl ⟨(g', r.2), by simp [hc, hb, ha, optP]⟩

/-- the two nested loops = the indexed fold over the hand-written `pairs` with the draws of the PRNG -/
theorem randomTournament_for0_eq (n : Nat) (g : Repr.EdgeList) (x : Rand.Xo) :
    (forLoop (AlgoGen.EdgeList.randomTournament_for0 n) (List.range n) (g, ofX x) : Blk Empty Repr.EdgeList _) =
      optS (x.iter (Rand.pairs n).length)
        ((Rand.tournamentArcs (draws x) n).foldlM (fun g a => g.addArc a.1 a.2) g) := by
  have hflat := forLoop_flat (β := Empty) (AlgoGen.EdgeList.randomTournament_for0 n)
    (fun u => AlgoGen.EdgeList.randomTournament_for1 u) (fun u => AlgoGen.range (u + 1) n)
    (fun s u => by unfold AlgoGen.EdgeList.randomTournament_for0; exact bind_pair_eta _)
    randomTournament_for1_exits (List.range n) (g, ofX x)
  rw [hflat]
  have hpairs : ((List.range n).flatMap fun u => (AlgoGen.range (u + 1) n).map fun v => (u, v)) = Rand.pairs n := rfl
  rw [hpairs]
  rw [forLoop_draws (β := Empty) (fun _ => True) (Rand.pairs n) _ tstep
    (fun g p x _ _ => randomTournament_for1_eq p.1 g x p.2) (fun _ _ _ _ _ _ _ => trivial)
    (Rand.pairs n) g x (fun _ h => h) trivial]
  congr 1
  unfold Rand.tournamentArcs
  rw [List.foldlM_map]
  congr 1
  funext g2 pi
  unfold tstep Rand.orient
  by_cases hb : Rand.nextBool (draws x pi.2) = true <;> simp [hb]

/-- `EdgeList::random_tournament(order, seed)` = the hand-written `tournamentEL` on the stream of
`Xoshiro256StarStar::new(seed)`, for every order and seed. -/
theorem randomTournament_eq (n : Nat) (seed : UInt64) :
    AlgoGen.EdgeList.randomTournament n seed = optR (Rand.tournamentEL (Rand.xoStream seed) n) := by
  unfold AlgoGen.EdgeList.randomTournament Rand.tournamentEL
  by_cases h1 : n = 1
  · subst h1; rfl
  · simp only [h1, if_false]
    cases he : EdgeList.empty n with
    | none => rfl
    | some e =>
      simp only [optP, ok_bind, Xoshiro256StarStar.new_eq, call_ok, randomTournament_for0_eq, draws_new,
        Option.bind_eq_bind, Option.bind_some]
      cases (Rand.tournamentArcs (Rand.xoStream seed) n).foldlM (fun g a => g.addArc a.1 a.2) e <;> rfl

end EdgeList

end GraafVerif.AlgoGenThm
