import GraafVerif.Proof.ComposeRel
import GraafVerif.Spec.Dfs
/-!
# Compose — "depth-first preorder" (C06) over a bare arc relation

`Spec/Dfs.lean` reads the preorder clause of C06 as an executable annotator over the
out-neighbour ROWS of a `Graph` (`hasFresh`, `active`, `expect`, `annotateFrom`).  It consults the
rows only through membership.  Here the same reading is given as inductive predicates over an arc
RELATION `A` — no rows, no Booleans —

* `RFresh A ys u`       : `u` still has an out-neighbour not in `ys`;
* `RActive A ys path act`: `act` is the search path cut back to its deepest vertex that still has
  an unyielded out-neighbour (`[]` if there is none);
* `RExpect A S ys path x act a`: `x` may be yielded next, and `a = (parent, depth)` is the annotation
  the property prescribes for it (new root: `x ∈ S`, nothing yielded so far has an unyielded
  out-neighbour, `a = (none, 0)`; otherwise `x` is an out-neighbour of the head `d` of `act`,
  `a = (some d, |act|)`);
* `RAnnotate A S ys path xs anns`: the whole sequence, step by step;

and proved to be the same thing: `annotateFrom g S ⟨ys, path⟩ xs = some anns ↔
RAnnotate g.A S ys path xs anns`.
-/
namespace GraafVerif.Compose
open GraafVerif GraafVerif.Dfs

/-- `u` still has an unyielded out-neighbour. -/
def RFresh (A : Rel) (ys : List Nat) (u : Nat) : Prop := ∃ w, A u w ∧ w ∉ ys

/-- The search path cut back to its deepest vertex with an unyielded out-neighbour. -/
inductive RActive (A : Rel) (ys : List Nat) : List Nat → List Nat → Prop
  | nil : RActive A ys [] []
  | here {d rest} : RFresh A ys d → RActive A ys (d :: rest) (d :: rest)
  | skip {d rest act} : ¬ RFresh A ys d → RActive A ys rest act → RActive A ys (d :: rest) act

/-- `x` may be yielded next (state: yielded `ys`, search path `path`); `act` is the cut-back path
and `a` the prescribed (parent, depth). -/
inductive RExpect (A : Rel) (S : List Nat) (ys path : List Nat) (x : Nat) : List Nat → Option Nat × Nat → Prop
  | root : x ∉ ys → RActive A ys path [] → x ∈ S → (∀ y ∈ ys, ¬ RFresh A ys y) →
      RExpect A S ys path x [] (none, 0)
  | child {d rest} : x ∉ ys → RActive A ys path (d :: rest) → A d x →
      RExpect A S ys path x (d :: rest) (some d, rest.length + 1)

/-- The sequence `xs`, continued from the state `(ys, path)`, is a depth-first preorder (prefix)
with annotations `anns`. -/
inductive RAnnotate (A : Rel) (S : List Nat) : List Nat → List Nat → List Nat → List Ann → Prop
  | nil (ys path) : RAnnotate A S ys path [] []
  | cons {ys path x act a xs anns} : RExpect A S ys path x act a →
      RAnnotate A S (ys ++ [x]) (x :: act) xs anns → RAnnotate A S ys path (x :: xs) ((x, a) :: anns)

/-- `xs` is (a prefix of) a depth-first preorder of the digraph with arc relation `A` from the
sources `S`, every vertex annotated with its prescribed parent and depth. -/
def RIsDfsPreorder (A : Rel) (S : List Nat) (xs : List Nat) (anns : List Ann) : Prop :=
  RAnnotate A S [] [] xs anns

/-! ## The bridge -/

theorem hasFresh_iff (g : Graph) (ys : List Nat) (u : Nat) : hasFresh g ys u = true ↔ RFresh g.A ys u := by
  unfold hasFresh RFresh Graph.A
  rw [List.any_eq_true]
  constructor
  · rintro ⟨w, hw, hc⟩
    exact ⟨w, hw, by simpa using hc⟩
  · rintro ⟨w, hw, hc⟩
    exact ⟨w, hw, by simpa using hc⟩

theorem ractive_iff (g : Graph) (ys : List Nat) (path act : List Nat) :
    RActive g.A ys path act ↔ act = path.dropWhile (fun d => !hasFresh g ys d) := by
  constructor
  · intro h
    induction h with
    | nil => rfl
    | here hf =>
      have := (hasFresh_iff g ys _).2 hf
      simp [List.dropWhile, this]
    | @skip d rest act' hf _ ih =>
      have : hasFresh g ys d = false := by
        cases hh : hasFresh g ys d with
        | false => rfl
        | true => exact absurd ((hasFresh_iff g ys d).1 hh) hf
      simp [List.dropWhile, this, ih]
  · intro h
    subst h
    induction path with
    | nil => exact .nil
    | cons d rest ih =>
      cases hh : hasFresh g ys d with
      | true =>
        have : (d :: rest).dropWhile (fun d => !hasFresh g ys d) = d :: rest := by
          simp [List.dropWhile, hh]
        rw [this]
        exact .here ((hasFresh_iff g ys d).1 hh)
      | false =>
        have : (d :: rest).dropWhile (fun d => !hasFresh g ys d) = rest.dropWhile (fun d => !hasFresh g ys d) := by
          simp [List.dropWhile, hh]
        rw [this]
        refine .skip (fun hf => ?_) ih
        have := (hasFresh_iff g ys d).2 hf
        rw [hh] at this; cases this

theorem ractive_active (g : Graph) (s : Search) : RActive g.A s.yielded s.path (active g s) :=
  (ractive_iff g s.yielded s.path _).2 rfl

theorem ractive_unique {A : Rel} {ys path a₁ a₂ : List Nat} (h₁ : RActive A ys path a₁)
    (h₂ : RActive A ys path a₂) : a₁ = a₂ := by
  induction h₁ with
  | nil => cases h₂; rfl
  | here hf =>
    cases h₂ with
    | here _ => rfl
    | skip hn _ => exact absurd hf hn
  | skip hn _ ih =>
    cases h₂ with
    | here hf => exact absurd hf hn
    | skip _ h₂' => exact ih h₂'

theorem expect_iff (g : Graph) (S : List Nat) (s : Search) (x : Nat) (a : Option Nat × Nat) :
    expect g S s x = some a ↔ RExpect g.A S s.yielded s.path x (active g s) a := by
  unfold expect
  constructor
  · intro h
    split at h
    · cases h
    · rename_i hx
      have hx' : x ∉ s.yielded := by simpa using hx
      have hact := ractive_active g s
      split at h
      · rename_i hnil
        split at h
        · rename_i hc
          cases h
          rw [hnil] at hact ⊢
          simp only [Bool.and_eq_true, List.contains_iff_mem, List.all_eq_true] at hc
          refine .root hx' hact (by simpa using hc.1) ?_
          intro y hy hf
          have := hc.2 y hy
          rw [(hasFresh_iff g s.yielded y).2 hf] at this
          simp at this
        · cases h
      · rename_i d rest hcons
        split at h
        · rename_i hc
          cases h
          rw [hcons] at hact ⊢
          exact .child hx' hact (by simpa [Graph.A] using hc)
        · cases h
  · intro h
    generalize hgen : active g s = act at h
    cases h with
    | root hx hact hS hall =>
      rw [if_neg (by simpa using hx)]
      have hc : (S.contains x && s.yielded.all (fun y => !hasFresh g s.yielded y)) = true := by
        simp only [Bool.and_eq_true, List.contains_iff_mem, List.all_eq_true]
        refine ⟨by simpa using hS, fun y hy => ?_⟩
        cases hh : hasFresh g s.yielded y with
        | false => rfl
        | true => exact absurd ((hasFresh_iff g s.yielded y).1 hh) (hall y hy)
      simp only [hc, if_true]
    | @child d rest hx hact hA =>
      rw [if_neg (by simpa using hx)]
      have hc : (g.out d).contains x = true := by simpa [Graph.A] using hA
      simp only [hc, if_true]

theorem annotateFrom_iff (g : Graph) (S : List Nat) (xs : List Nat) :
    ∀ (s : Search) (anns : List Ann),
      annotateFrom g S s xs = some anns ↔ RAnnotate g.A S s.yielded s.path xs anns := by
  induction xs with
  | nil =>
    intro s anns
    simp only [annotateFrom]
    constructor
    · intro h; cases h; exact .nil _ _
    · intro h; cases h; rfl
  | cons x xs ih =>
    intro s anns
    simp only [annotateFrom]
    constructor
    · intro h
      cases he : expect g S s x with
      | none => rw [he] at h; cases h
      | some a =>
        rw [he] at h
        simp only [Option.map_eq_some_iff] at h
        obtain ⟨rest, hr, rfl⟩ := h
        have h1 := (expect_iff g S s x a).1 he
        have h2 := (ih (advance g s x) rest).1 hr
        exact .cons h1 h2
    · intro h
      cases h with
      | cons h1 h2 =>
        rename_i act a anns'
        -- the cut-back path is unique, so `act = active g s`
        have hact : act = active g s := by
          cases h1 with
          | root _ ha _ _ => exact ractive_unique ha (ractive_active g s)
          | child _ ha _ => exact ractive_unique ha (ractive_active g s)
        subst hact
        have he := (expect_iff g S s x a).2 h1
        rw [he]
        have := (ih (advance g s x) anns').2 h2
        simp only [this, Option.map_some]

/-- `annotate` of `Spec/Dfs.lean` is the relational preorder predicate. -/
theorem annotate_iff (g : Graph) (S xs : List Nat) (anns : List Ann) :
    annotate g S xs = some anns ↔ RIsDfsPreorder g.A S xs anns :=
  annotateFrom_iff g S xs ⟨[], []⟩ anns

theorem validDfsPreorder_iff (g : Graph) (S xs : List Nat) :
    ValidDfsPreorder g S xs ↔ ∃ anns, RIsDfsPreorder g.A S xs anns := by
  unfold ValidDfsPreorder
  rw [Option.isSome_iff_exists]
  exact exists_congr (fun anns => annotate_iff g S xs anns)

/-- The annotation of a sequence is unique (the prescribed parent and depth are functions of
the sequence). -/
theorem RIsDfsPreorder.unique_of_graph {g : Graph} {S xs : List Nat} {a₁ a₂ : List Ann}
    (h₁ : RIsDfsPreorder g.A S xs a₁) (h₂ : RIsDfsPreorder g.A S xs a₂) : a₁ = a₂ := by
  have e₁ := (annotate_iff g S xs a₁).2 h₁
  have e₂ := (annotate_iff g S xs a₂).2 h₂
  rw [e₁] at e₂
  exact Option.some.inj e₂

end GraafVerif.Compose
