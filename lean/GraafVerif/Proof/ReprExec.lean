import GraafVerif.Spec.ReprExec
/-!
# The driver's list-set oracle is the spec

Every call of `LSpec` (`Spec/ReprExec.lean`) commutes with the abstraction to `SpecState`:
`put` is `specStep … (.add …)`, `remove` is `specStep … (.rem …)`, `toggle` is `specStepMx … (.tog …)`.
No invariant on the list is needed for this (a later `put` shadows / `drop` removes every
entry with the same endpoints).
-/
namespace GraafVerif.ReprSpec.LSpec

theorem isKey_iff (u v : Nat) (a : Nat × Nat × Int) : isKey u v a = true ↔ a.1 = u ∧ a.2.1 = v := by
  simp [isKey]

theorem find_drop_same (l : List (Nat × Nat × Int)) (u v : Nat) :
    (l.filter (fun a => !(isKey u v a))).find? (isKey u v) = none := by
  rw [List.find?_eq_none]
  intro x hx
  have := (List.mem_filter.mp hx).2
  simpa using this

theorem find_drop_other (l : List (Nat × Nat × Int)) (u v a b : Nat) (h : ¬ (a = u ∧ b = v)) :
    (l.filter (fun x => !(isKey u v x))).find? (isKey a b) = l.find? (isKey a b) := by
  induction l with
  | nil => rfl
  | cons x xs ih =>
    by_cases hk : isKey u v x = true
    · have hx : isKey a b x = false := by
        cases hab : isKey a b x
        · rfl
        · rw [isKey_iff] at hk hab
          exact absurd ⟨hab.1.symm.trans hk.1, hab.2.symm.trans hk.2⟩ h
      simp [hk, hx, ih]
    · simp only [List.filter_cons, hk, Bool.not_false, if_true, List.find?_cons, ih]

theorem weight_drop (s : LSpec) (u v a b : Nat) :
    ({ s with arcs := s.drop u v } : LSpec).weight a b = if a = u ∧ b = v then none else s.weight a b := by
  unfold weight drop
  by_cases h : a = u ∧ b = v
  · obtain ⟨rfl, rfl⟩ := h
    simp
  · simp only [h, if_false, find_drop_other _ _ _ _ _ h]

theorem weight_put (s : LSpec) (u v a b : Nat) (w : Int) (vs : List Nat) :
    ({ s with verts := vs, arcs := (u, v, w) :: s.drop u v } : LSpec).weight a b =
      if a = u ∧ b = v then some w else s.weight a b := by
  unfold weight drop
  by_cases h : a = u ∧ b = v
  · obtain ⟨rfl, rfl⟩ := h
    simp [List.find?_cons, isKey]
  · have hk : isKey a b (u, v, w) = false := by
      cases hab : isKey a b (u, v, w)
      · rfl
      · rw [isKey_iff] at hab; exact absurd ⟨hab.1.symm, hab.2.symm⟩ h
    simp only [List.find?_cons, hk, h, if_false, find_drop_other _ _ _ _ _ h]

theorem has_eq (s : LSpec) (u v : Nat) : s.has u v = (s.weight u v).isSome := by
  unfold has weight
  rw [Option.isSome_map]
  cases h : s.arcs.find? (isKey u v) with
  | none =>
    rw [List.find?_eq_none] at h
    simp only [Option.isSome_none]
    cases hany : s.arcs.any (isKey u v)
    · rfl
    · obtain ⟨x, hx, hp⟩ := List.any_eq_true.mp hany
      exact absurd hp (h x hx)
  | some x =>
    simp only [Option.isSome_some]
    exact List.any_eq_true.mpr ⟨x, List.mem_of_find?_eq_some h, List.find?_some h⟩

theorem rejects_eq {ω : Type} (s : LSpec) (W : Nat → Nat → Option ω) (u v : Nat) :
    s.rejects u v = rejected s.kind (⟨s.isV, W⟩ : SpecState ω) u v := by
  unfold rejects rejected kind
  have : (u == v) = decide (u = v) := by by_cases h : u = v <;> simp [h]
  cases s.fixed <;> simp [this]

theorem isV_growV (s : LSpec) (u v x : Nat) :
    ({ s with verts := s.growV u v } : LSpec).isV x = grow s.kind s.isV u v x := by
  unfold isV growV kind grow
  cases hf : s.fixed
  · simp only [Bool.false_eq_true, if_false, addV]
    by_cases h1 : s.verts.contains u = true <;> by_cases h2 : s.verts.contains v = true
    all_goals (simp only [List.contains_iff_mem, List.contains_eq_mem, decide_eq_true_eq] at h1 h2)
    all_goals (simp [h1, h2]; try grind)
  · simp

/-! ## weighted view -/

theorem put_refinesW (s : LSpec) (u v : Nat) (w : Int) :
    (s.put u v w).1.absW = (specStep s.kind s.absW (.add u v w)).1 ∧
    (s.put u v w).2 = (specStep s.kind s.absW (.add u v w)).2 := by
  unfold put
  have hr := rejects_eq s s.weight u v
  cases hrej : s.rejects u v
  · rw [hrej] at hr
    simp only [Bool.false_eq_true, if_false, absW]
    rw [specStep_add_ok w hr.symm]
    refine ⟨?_, rfl⟩
    apply SpecState.ext
    · intro x; exact isV_growV s u v x
    · intro a b; simp only [setW]; exact weight_put s u v a b w _
  · rw [hrej] at hr
    simp only [if_true, absW]
    rw [specStep_add_rej w hr.symm]
    exact ⟨rfl, rfl⟩

theorem remove_refinesW (s : LSpec) (u v : Nat) :
    (s.remove u v).1.absW = (specStep s.kind s.absW (.rem u v)).1 ∧
    (s.remove u v).2 = (specStep s.kind s.absW (.rem u v)).2 := by
  unfold remove
  simp only [specStep, absW]
  refine ⟨?_, by simp [SpecState.A, has_eq]⟩
  apply SpecState.ext
  · intro x; rfl
  · intro a b; simp only [setW]; exact weight_drop s u v a b

/-! ## unweighted view (weights forgotten; the driver writes weight `1`) -/

theorem put_refinesU (s : LSpec) (u v : Nat) (w : Int) :
    (s.put u v w).1.absU = (specStep s.kind s.absU (.add u v ())).1 ∧
    (s.put u v w).2 = (specStep s.kind s.absU (.add u v ())).2 := by
  unfold put
  have hr := rejects_eq s (fun u v => (s.weight u v).map (fun _ => ())) u v
  cases hrej : s.rejects u v
  · rw [hrej] at hr
    simp only [Bool.false_eq_true, if_false, absU]
    rw [specStep_add_ok () hr.symm]
    refine ⟨?_, rfl⟩
    apply SpecState.ext
    · intro x; exact isV_growV s u v x
    · intro a b
      simp only [setW, weight_put s u v a b w _]
      split <;> rfl
  · rw [hrej] at hr
    simp only [if_true, absU]
    rw [specStep_add_rej () hr.symm]
    exact ⟨rfl, rfl⟩

theorem remove_refinesU (s : LSpec) (u v : Nat) :
    (s.remove u v).1.absU = (specStep s.kind s.absU (.rem u v)).1 ∧
    (s.remove u v).2 = (specStep s.kind s.absU (.rem u v)).2 := by
  unfold remove
  simp only [specStep, absU]
  refine ⟨?_, by simp [SpecState.A, has_eq]⟩
  apply SpecState.ext
  · intro x; rfl
  · intro a b
    simp only [setW, weight_drop s u v a b]
    split <;> rfl

theorem weight_cons_absent (s : LSpec) (u v a b : Nat) (w : Int) (h : s.weight u v = none) :
    ({ s with arcs := (u, v, w) :: s.arcs } : LSpec).weight a b = if a = u ∧ b = v then some w else s.weight a b := by
  unfold weight
  by_cases hc : a = u ∧ b = v
  · obtain ⟨rfl, rfl⟩ := hc
    simp [List.find?_cons, isKey]
  · have hk : isKey a b (u, v, w) = false := by
      cases hab : isKey a b (u, v, w)
      · rfl
      · rw [isKey_iff] at hab; exact absurd ⟨hab.1.symm, hab.2.symm⟩ hc
    simp only [List.find?_cons, hk, hc, if_false]

theorem toggle_refinesU (s : LSpec) (hf : s.fixed = true) (u v : Nat) :
    (s.toggle u v).1.absU = (specStepMx s.absU (.tog u v)).1 ∧
    (s.toggle u v).2 = (specStepMx s.absU (.tog u v)).2 := by
  unfold toggle
  have hk : s.kind = .fixed := by simp [kind, hf]
  have hr := rejects_eq s (fun u v => (s.weight u v).map (fun _ => ())) u v
  rw [hk] at hr
  cases hrej : s.rejects u v
  · rw [hrej] at hr
    have hr' : rejected .fixed s.absU u v = false := hr.symm
    rw [specStepMx_tog_ok hr']
    simp only [Bool.false_eq_true, if_false]
    have hA : s.absU.A u v = s.has u v := by simp [absU, SpecState.A, has_eq]
    rw [hA]
    cases hh : s.has u v
    · simp only [Bool.false_eq_true, if_false]
      refine ⟨?_, trivial⟩
      have hnone : s.weight u v = none := by
        rw [has_eq] at hh; cases hw : s.weight u v with
        | none => rfl
        | some x => rw [hw] at hh; cases hh
      apply SpecState.ext
      · intro x; rfl
      · intro a b
        simp only [absU, setW, weight_cons_absent s u v a b 1 hnone]
        split <;> rfl
    · simp only [if_true]
      refine ⟨?_, trivial⟩
      apply SpecState.ext
      · intro x; rfl
      · intro a b
        simp only [absU, setW, weight_drop s u v a b]
        split <;> rfl
  · rw [hrej] at hr
    have hr' : rejected .fixed s.absU u v = true := hr.symm
    rw [specStepMx_tog_rej hr']
    simp only [if_true]
    exact ⟨trivial, trivial⟩

end GraafVerif.ReprSpec.LSpec
