import GraafVerif.Proof.Cross2
import GraafVerif.Thm.C04
import GraafVerif.Thm.C08
import GraafVerif.Thm.C09
import GraafVerif.Thm.C10
import GraafVerif.Thm.C18
import GraafVerif.Thm.Cross
/-!
# The second family of cross-algorithm theorems, between the MODELS (tag `Cross2`)

Every proof below uses the property theorems of C04 / C08 / C09 / C10 / C18 (and `Thm/Cross`) as
black boxes and the spec-level graph theory of `Proof/Cross2.lean`:

* `fwDM inf g` — the `DistanceMatrix<isize>` that `FloydWarshall::new(&g).distances()` returns,
  as a `DistMatrix.DM` (C18's model): the flat vector of `Fw.distances g` (C08's model) with the
  sentinel `none` written as the number `inf = isize::MAX`, `infinity = inf`, `order = g.n`.
  `DistFits inf g` is the property's "path sums fit": no minimum walk weight reaches `inf`.
* `vgOf g` (`Proof/Cross2.lean`) — the `Graph` as the Tarjan model sees it.
-/
namespace GraafVerif.Cross2
open GraafVerif GraafVerif.Cross GraafVerif.Johnson GraafVerif.Tarjan

/-! ## 0. The Floyd-Warshall result as a `DistanceMatrix` -/

/-- `FloydWarshall::new(&g).distances()` as the `DistanceMatrix` value C18 speaks about. -/
def fwDM (inf : Int) (g : WGraph) : DistMatrix.DM :=
  ⟨(Fw.distances g).map (fun o => o.getD inf), inf, g.n⟩

/-- No minimum walk weight between two vertices reaches the sentinel (`isize::MAX`). -/
def DistFits (inf : Int) (g : WGraph) : Prop :=
  ∀ u v d, u < g.n → v < g.n → IsMinDist g [u] v d → d < inf

/-- `dist[(u, v)]` of the `DistanceMatrix` is the Floyd-Warshall cell, sentinel as a number. -/
theorem fwDM_get {inf : Int} {g : WGraph} (hwf : g.WF) {u v : Nat} (hu : u < g.n) (hv : v < g.n) :
    DistMatrix.get (fwDM inf g) u v = .ok ((Fw.get g.n (Fw.distances g) u v).getD inf) := by
  have hlt : u * g.n + v < (Fw.distances g).length := by
    rw [C08.fw_length g hwf]; exact (C08.fw_index_inj (u' := u) (v' := v) hu hv hv).1
  unfold DistMatrix.get Fw.get
  show (match ((Fw.distances g).map (fun o => o.getD inf))[u * g.n + v]? with
    | none => DistMatrix.Res.panic | some x => DistMatrix.Res.ok x) = _
  rw [List.getElem?_map, List.getElem?_eq_getElem hlt]
  rfl

/-- The Floyd-Warshall result is one of the matrices C18 quantifies over. -/
theorem fwDM_wf {inf : Int} {g : WGraph} (hwf : g.WF) (hfun : g.Functional) (hnc : g.NoNegCycle)
    (hn : 0 < g.n) (hfit : DistFits inf g) : DistMatrix.WF (fwDM inf g) := by
  refine ⟨hn, ?_, ?_⟩
  · show ((Fw.distances g).map _).length = g.n * g.n
    rw [List.length_map, C08.fw_length g hwf]
  · intro x hx
    show x ≤ inf
    obtain ⟨o, ho, rfl⟩ := List.mem_map.mp hx
    cases o with
    | none => exact Int.le_refl _
    | some d =>
      obtain ⟨i, hi, hget⟩ := List.getElem_of_mem ho
      rw [C08.fw_length g hwf] at hi
      have hu : i / g.n < g.n := Nat.div_lt_of_lt_mul hi
      have hv : i % g.n < g.n := Nat.mod_lt _ hn
      have hidx : i / g.n * g.n + i % g.n = i := by
        rw [Nat.mul_comm]; exact Nat.div_add_mod i g.n
      have hcell : Fw.get g.n (Fw.distances g) (i / g.n) (i % g.n) = some d := by
        unfold Fw.get
        rw [hidx, List.getElem?_eq_getElem (by rw [C08.fw_length g hwf]; exact hi), hget]
        rfl
      have := hfit _ _ d hu hv (((C08.fw_exact g hwf hfun hnc hu hv).1 d).mp hcell)
      exact Int.le_of_lt this

/-- A Floyd-Warshall cell is finite iff the column vertex is reachable from the row vertex in
the underlying digraph. -/
theorem fw_isSome_iff_reach {g : WGraph} (hwf : g.WF) (hfun : g.Functional) (hnc : g.NoNegCycle)
    {u v : Nat} (hu : u < g.n) (hv : v < g.n) :
    (Fw.get g.n (Fw.distances g) u v).isSome = true ↔ Reach g.toGraph u v := by
  have h := (C08.fw_exact g hwf hfun hnc hu hv).2
  rw [← wreachFrom_single_iff]
  constructor
  · intro hs
    apply Classical.byContradiction
    intro hnr
    rw [h.mpr hnr] at hs
    cases hs
  · intro hr
    cases hc : Fw.get g.n (Fw.distances g) u v with
    | none => exact absurd hr (h.mp hc)
    | some d => rfl

/-- The `DistanceMatrix` cell differs from `infinity` iff reachable. -/
theorem fwDM_get_ne_inf_iff {inf : Int} {g : WGraph} (hwf : g.WF) (hfun : g.Functional)
    (hnc : g.NoNegCycle) (hfit : DistFits inf g) {u v : Nat} (hu : u < g.n) (hv : v < g.n) :
    DistMatrix.get (fwDM inf g) u v ≠ .ok inf ↔ Reach g.toGraph u v := by
  rw [fwDM_get hwf hu hv, ← fw_isSome_iff_reach hwf hfun hnc hu hv]
  cases hc : Fw.get g.n (Fw.distances g) u v with
  | none => simp
  | some d =>
    have := hfit u v d hu hv (((C08.fw_exact g hwf hfun hnc hu hv).1 d).mp hc)
    simp only [Option.getD_some, Option.isSome_some, iff_true]
    intro h
    injection h with h
    omega

/-! ## 1. Floyd-Warshall + `DistanceMatrix::is_connected` ↔ strongly connected ↔ Tarjan -/

/-- `is_connected()` on the Floyd-Warshall matrix decides strong connectivity. -/
theorem fw_isConnected_iff_sc {inf : Int} {g : WGraph} (hwf : g.WF) (hfun : g.Functional)
    (hnc : g.NoNegCycle) (hn : 0 < g.n) (hfit : DistFits inf g) :
    DistMatrix.isConnected (fwDM inf g) = true ↔ StronglyConnected g.toGraph := by
  rw [(C18.connected_spec _ (fwDM_wf hwf hfun hnc hn hfit)).2]
  constructor
  · intro h u v hu hv
    exact (fwDM_get_ne_inf_iff hwf hfun hnc hfit hu hv).mp (h u v hu hv)
  · intro h u v hu hv
    exact (fwDM_get_ne_inf_iff hwf hfun hnc hfit hu hv).mpr (h u v hu hv)

/-- The Tarjan model on the vertex-id view of a well-formed `Graph` returns the SCC partition. -/
theorem tarjan_res {g : Graph} (hg : g.WF) :
    ∃ cs, components (vgOf g) = .ret cs ∧ IsSCCPartition (vgOf g) cs :=
  C09.tarjan_scc _ (vgOf_closed hg)

/-- Whatever the Tarjan model returns is the SCC partition (the model is a function). -/
theorem tarjan_partition_of_eq {g : Graph} (hg : g.WF) {cs : List (List Nat)}
    (hcs : components (vgOf g) = .ret cs) : IsSCCPartition (vgOf g) cs := by
  obtain ⟨cs', h', hp⟩ := tarjan_res hg
  rw [hcs] at h'
  injection h' with h'
  rw [h']; exact hp

/-- Strongly connected (order ≥ 1) iff the Tarjan model returns exactly one component — which
then is the whole vertex set `0..n`, listed ascending. -/
theorem sc_iff_tarjan_one {g : Graph} (hg : g.WF) (hn : 0 < g.n) :
    StronglyConnected g ↔ components (vgOf g) = .ret [List.range g.n] := by
  obtain ⟨cs, hcs, hp⟩ := tarjan_res hg
  constructor
  · intro hsc
    obtain ⟨c, rfl⟩ := (one_block_iff hn hp).mpr hsc
    rw [hcs]
    have hasc := C09.tarjan_sets_ascending _ (vgOf_closed hg) _ hcs c (List.mem_singleton.mpr rfl)
    have hmem : ∀ x, x ∈ c ↔ x ∈ List.range g.n := by
      intro x
      rw [List.mem_range, ← vgOf_mem, hp.cover x]
      constructor
      · intro hx; exact ⟨c, List.mem_singleton.mpr rfl, hx⟩
      · rintro ⟨c', hc', hx⟩; rw [List.mem_singleton.mp hc'] at hx; exact hx
    rw [C18.sorted_ext c (List.range g.n) hasc List.pairwise_lt_range hmem]
  · intro h
    rw [hcs] at h
    injection h with h
    exact (one_block_iff hn hp).mp ⟨_, h⟩

/-- "Exactly one component" in the weak reading (`∃ c, … = [c]`) is the same thing. -/
theorem tarjan_one_iff_range {g : Graph} (hg : g.WF) (hn : 0 < g.n) :
    (∃ c, components (vgOf g) = .ret [c]) ↔ components (vgOf g) = .ret [List.range g.n] := by
  constructor
  · rintro ⟨c, hc⟩
    exact (sc_iff_tarjan_one hg hn).mp ((one_block_iff hn (tarjan_partition_of_eq hg hc)).mp ⟨c, rfl⟩)
  · intro h; exact ⟨_, h⟩

/-- **Floyd-Warshall + `is_connected` ↔ Tarjan**. -/
theorem fw_isConnected_iff_tarjan_one {inf : Int} {g : WGraph} (hwf : g.WF) (hfun : g.Functional)
    (hnc : g.NoNegCycle) (hn : 0 < g.n) (hfit : DistFits inf g) :
    DistMatrix.isConnected (fwDM inf g) = true ↔
      components (vgOf g.toGraph) = .ret [List.range g.n] :=
  (fw_isConnected_iff_sc hwf hfun hnc hn hfit).trans (sc_iff_tarjan_one (toGraph_wf hwf) hn)

/-- Two vertices are in the same Tarjan component iff both Floyd-Warshall cells are finite. -/
theorem fw_both_finite_iff_same_component {g : WGraph} (hwf : g.WF) (hfun : g.Functional)
    (hnc : g.NoNegCycle) {cs : List (List Nat)} (hcs : components (vgOf g.toGraph) = .ret cs)
    {u v : Nat} (hu : u < g.n) (hv : v < g.n) :
    (∃ c ∈ cs, u ∈ c ∧ v ∈ c) ↔
      ((Fw.get g.n (Fw.distances g) u v).isSome = true ∧
       (Fw.get g.n (Fw.distances g) v u).isSome = true) := by
  rw [same_block_iff (tarjan_partition_of_eq (toGraph_wf hwf) hcs) hu hv,
    fw_isSome_iff_reach hwf hfun hnc hu hv, fw_isSome_iff_reach hwf hfun hnc hv hu]

/-- `DistFits` can be read off the model's output: it holds as soon as every finite entry of the
Floyd-Warshall matrix is below the sentinel. -/
theorem distFits_of_matrix {inf : Int} {g : WGraph} (hwf : g.WF) (hfun : g.Functional)
    (hnc : g.NoNegCycle) (h : ∀ d, some d ∈ Fw.distances g → d < inf) : DistFits inf g := by
  intro u v d hu hv hmin
  have hcell := ((C08.fw_exact g hwf hfun hnc hu hv).1 d).mpr hmin
  have hlt : u * g.n + v < (Fw.distances g).length := by
    rw [C08.fw_length g hwf]; exact (C08.fw_index_inj (u' := u) (v' := v) hu hv hv).1
  unfold Fw.get at hcell
  rw [List.getElem?_eq_getElem hlt] at hcell
  apply h d
  have : (Fw.distances g)[u * g.n + v] = some d := hcell
  rw [← this]
  exact List.getElem_mem hlt

/-- Executable form of the entry check (for `decide` on concrete digraphs). -/
def fitsB (inf : Int) (m : Fw.Mat) : Bool :=
  m.all (fun o => match o with | none => true | some d => decide (d < inf))

theorem distFits_of_fitsB {inf : Int} {g : WGraph} (hwf : g.WF) (hfun : g.Functional)
    (hnc : g.NoNegCycle) (h : fitsB inf (Fw.distances g) = true) : DistFits inf g := by
  refine distFits_of_matrix hwf hfun hnc (fun d hd => ?_)
  have := List.all_eq_true.mp h (some d) hd
  simpa using this

/-- `eccentricities()[u]` of the Floyd-Warshall matrix is `infinity` iff some vertex is not
reachable from `u`. -/
theorem fw_ecc_inf_iff {inf : Int} {g : WGraph} (hwf : g.WF) (hfun : g.Functional)
    (hnc : g.NoNegCycle) (hn : 0 < g.n) (hfit : DistFits inf g) {u : Nat} (hu : u < g.n) :
    (DistMatrix.ecc (fwDM inf g))[u]? = some inf ↔ ∃ v, v < g.n ∧ ¬ Reach g.toGraph u v := by
  have hw := fwDM_wf hwf hfun hnc hn hfit
  obtain ⟨_, hecc⟩ := C18.ecc_spec _ hw
  obtain ⟨e, he, ⟨v0, hv0, hat⟩, hle⟩ := hecc u hu
  have hv0' : v0 < g.n := hv0
  rw [he, Option.some.injEq]
  constructor
  · rintro rfl
    refine ⟨v0, hv0', fun hr => ?_⟩
    exact (fwDM_get_ne_inf_iff hwf hfun hnc hfit hu hv0').mpr hr hat
  · rintro ⟨v, hv, hnr⟩
    have hget : DistMatrix.get (fwDM inf g) u v = .ok inf :=
      Classical.byContradiction fun h => hnr ((fwDM_get_ne_inf_iff hwf hfun hnc hfit hu hv).mp h)
    obtain ⟨x, hx, hxe⟩ := hle v hv
    rw [hget] at hx
    injection hx with hx
    subst hx
    -- `e` is an entry of the matrix, hence `≤ infinity`
    have hele : e ≤ inf := by
      rw [fwDM_get hwf hu hv0'] at hat
      injection hat with hat
      rw [← hat]
      cases hc : Fw.get g.n (Fw.distances g) u v0 with
      | none => exact Int.le_refl _
      | some d =>
        exact Int.le_of_lt (hfit u v0 d hu hv0' (((C08.fw_exact g hwf hfun hnc hu hv0').1 d).mp hc))
    omega

/-! ## 2. Tarjan ↔ Johnson75 -/

theorem circuits_mem_iff {g : Graph} (hg : g.WF) (hloops : NoLoops g) (hrows : RowsNodup g)
    (c : List Nat) : c ∈ circuits g ↔ IsCanonicalElemCircuit g c :=
  (C10.statement g hg hloops hrows).2 c

theorem circuits_nil_iff {g : Graph} (hg : g.WF) (hloops : NoLoops g) (hrows : RowsNodup g) :
    circuits g = [] ↔ ∀ c, ¬ IsCanonicalElemCircuit g c := by
  rw [List.eq_nil_iff_forall_not_mem]
  exact forall_congr' fun c => not_congr (circuits_mem_iff hg hloops hrows c)

/-- The Johnson model returns no circuit iff every Tarjan component is a singleton. -/
theorem johnson_nil_iff_tarjan_singletons {g : Graph} (hg : g.WF) (hloops : NoLoops g)
    (hrows : RowsNodup g) {cs : List (List Nat)} (hcs : components (vgOf g) = .ret cs) :
    circuits g = [] ↔ ∀ comp ∈ cs, comp.length = 1 :=
  (circuits_nil_iff hg hloops hrows).trans
    (no_circuit_iff_singletons hg hloops (tarjan_partition_of_eq hg hcs))

/-- … iff the digraph is acyclic. -/
theorem johnson_nil_iff_acyclic {g : Graph} (hg : g.WF) (hloops : NoLoops g) (hrows : RowsNodup g) :
    circuits g = [] ↔ Acyclic g :=
  (circuits_nil_iff hg hloops hrows).trans (no_circuit_iff_acyclic hloops)

/-- Every circuit the Johnson model returns lies inside ONE Tarjan component. -/
theorem johnson_circuit_in_component {g : Graph} (hg : g.WF) (hloops : NoLoops g)
    (hrows : RowsNodup g) {cs : List (List Nat)} (hcs : components (vgOf g) = .ret cs)
    {c : List Nat} (hc : c ∈ circuits g) : ∃ comp ∈ cs, ∀ x ∈ c, x ∈ comp :=
  circuit_in_block hg (tarjan_partition_of_eq hg hcs) ((circuits_mem_iff hg hloops hrows c).mp hc)

/-- The vertices on some returned circuit are exactly the vertices of the non-singleton
components. -/
theorem johnson_vertex_iff_component_two {g : Graph} (hg : g.WF) (hloops : NoLoops g)
    (hrows : RowsNodup g) {cs : List (List Nat)} (hcs : components (vgOf g) = .ret cs)
    {v : Nat} (hv : v < g.n) :
    (∃ c ∈ circuits g, v ∈ c) ↔ ∃ comp ∈ cs, v ∈ comp ∧ 2 ≤ comp.length := by
  rw [← on_circuit_iff_block_two hg hloops (tarjan_partition_of_eq hg hcs) hv]
  constructor
  · rintro ⟨c, hc, hvc⟩; exact ⟨c, (circuits_mem_iff hg hloops hrows c).mp hc, hvc⟩
  · rintro ⟨c, hc, hvc⟩; exact ⟨c, (circuits_mem_iff hg hloops hrows c).mpr hc, hvc⟩

/-! ## 3. BFS ↔ Tarjan -/

/-- The BFS model from one in-range source yields exactly the vertices reachable from it. -/
theorem bfs_single {g : Graph} (hg : g.WF) {u : Nat} (hu : u < g.n) :
    ∃ out, Bfs.bfs g [u] = .ok out ∧ ∀ v, v ∈ out ↔ Reach g u v := by
  obtain ⟨out, ho, hsp⟩ := C04.bfs_correct g hg [u]
    (fun s hs => by rw [List.mem_singleton.mp hs]; exact hu) (by simp)
  exact ⟨out, ho, fun v => (hsp.mem_iff v).trans reachFrom_single_iff⟩

/-- A Floyd-Warshall cell `(u, v)` is finite iff the BFS model on the underlying unweighted
digraph, started at `u`, yields `v`. -/
theorem fw_isSome_iff_bfs {g : WGraph} (hwf : g.WF) (hfun : g.Functional) (hnc : g.NoNegCycle)
    {u v : Nat} (hu : u < g.n) (hv : v < g.n) :
    ∃ out, Bfs.bfs g.toGraph [u] = .ok out ∧
      ((Fw.get g.n (Fw.distances g) u v).isSome = true ↔ v ∈ out) := by
  obtain ⟨out, ho, hm⟩ := bfs_single (toGraph_wf hwf) (u := u) hu
  exact ⟨out, ho, (fw_isSome_iff_reach hwf hfun hnc hu hv).trans (hm v).symm⟩

/-- Same Tarjan component iff each is yielded by the BFS model from the other. -/
theorem bfs_mutual_iff_same_component {g : Graph} (hg : g.WF) {cs : List (List Nat)}
    (hcs : components (vgOf g) = .ret cs) {u v : Nat} (hu : u < g.n) (hv : v < g.n) :
    ∃ ou ov, Bfs.bfs g [u] = .ok ou ∧ Bfs.bfs g [v] = .ok ov ∧
      ((∃ c ∈ cs, u ∈ c ∧ v ∈ c) ↔ (v ∈ ou ∧ u ∈ ov)) := by
  obtain ⟨ou, hou, hmu⟩ := bfs_single hg hu
  obtain ⟨ov, hov, hmv⟩ := bfs_single hg hv
  refine ⟨ou, ov, hou, hov, ?_⟩
  rw [same_block_iff (tarjan_partition_of_eq hg hcs) hu hv, hmu v, hmv u]

/-- Tarjan returns one component iff the BFS model from every vertex yields every vertex. -/
theorem tarjan_one_iff_bfs_all {g : Graph} (hg : g.WF) (hn : 0 < g.n) :
    components (vgOf g) = .ret [List.range g.n] ↔
      ∀ u, u < g.n → ∃ out, Bfs.bfs g [u] = .ok out ∧ ∀ v, v < g.n → v ∈ out := by
  rw [← sc_iff_tarjan_one hg hn]
  constructor
  · intro hsc u hu
    obtain ⟨out, ho, hm⟩ := bfs_single hg hu
    exact ⟨out, ho, fun v hv => (hm v).mpr (hsc u v hu hv)⟩
  · intro h u v hu hv
    obtain ⟨out, ho, hall⟩ := h u hu
    obtain ⟨out', ho', hm⟩ := bfs_single hg hu
    rw [ho] at ho'
    injection ho' with ho'
    subst ho'
    exact (hm v).mp (hall v hv)

/-! ## 4. Johnson75 ↔ Floyd-Warshall / BFS -/

theorem exists_circuit_iff_mutual {g : Graph} (hg : g.WF) (hloops : NoLoops g) :
    (∃ c, IsCanonicalElemCircuit g c) ↔
      ∃ u v, u < g.n ∧ v < g.n ∧ u ≠ v ∧ Reach g u v ∧ Reach g v u := by
  constructor
  · rintro ⟨c, hc⟩
    obtain ⟨x, hx, y, hy, hxy⟩ := canonical_two hc
    exact ⟨x, y, canonical_lt hg hc x hx, canonical_lt hg hc y hy, hxy,
      canonical_mutual hc x hx y hy, canonical_mutual hc y hy x hx⟩
  · rintro ⟨u, v, _, _, huv, h1, h2⟩
    obtain ⟨c, hc, hu, _⟩ := cyc_of_mutual huv h1 h2
    obtain ⟨c', hc', _⟩ := exists_canonical_through hloops hc hu
    exact ⟨c', hc'⟩

/-- The Johnson model on the underlying digraph returns a circuit iff the Floyd-Warshall matrix
has two different vertices with both cells finite. -/
theorem johnson_nonempty_iff_fw_pair {g : WGraph} (hwf : g.WF) (hfun : g.Functional)
    (hnc : g.NoNegCycle) (hloops : NoLoops g.toGraph) (hrows : RowsNodup g.toGraph) :
    circuits g.toGraph ≠ [] ↔ ∃ u v, u < g.n ∧ v < g.n ∧ u ≠ v ∧
      (Fw.get g.n (Fw.distances g) u v).isSome = true ∧
      (Fw.get g.n (Fw.distances g) v u).isSome = true := by
  have hg := toGraph_wf hwf
  rw [Ne, circuits_nil_iff hg hloops hrows, Classical.not_forall]
  have : (∃ c, ¬ ¬ IsCanonicalElemCircuit g.toGraph c) ↔ ∃ c, IsCanonicalElemCircuit g.toGraph c :=
    exists_congr fun c => Classical.not_not
  rw [this, exists_circuit_iff_mutual hg hloops]
  constructor
  · rintro ⟨u, v, hu, hv, huv, h1, h2⟩
    exact ⟨u, v, hu, hv, huv, (fw_isSome_iff_reach hwf hfun hnc hu hv).mpr h1,
      (fw_isSome_iff_reach hwf hfun hnc hv hu).mpr h2⟩
  · rintro ⟨u, v, hu, hv, huv, h1, h2⟩
    exact ⟨u, v, hu, hv, huv, (fw_isSome_iff_reach hwf hfun hnc hu hv).mp h1,
      (fw_isSome_iff_reach hwf hfun hnc hv hu).mp h2⟩

/-- A vertex lies on a circuit the Johnson model returns iff the BFS model from it yields a
different vertex whose BFS yields it back. -/
theorem johnson_vertex_iff_bfs {g : Graph} (hg : g.WF) (hloops : NoLoops g) (hrows : RowsNodup g)
    {v : Nat} (hv : v < g.n) :
    (∃ c ∈ circuits g, v ∈ c) ↔
      ∃ w, w < g.n ∧ w ≠ v ∧ ∃ ov ow, Bfs.bfs g [v] = .ok ov ∧ Bfs.bfs g [w] = .ok ow ∧
        w ∈ ov ∧ v ∈ ow := by
  obtain ⟨cs, hcs, hp⟩ := tarjan_res hg
  rw [johnson_vertex_iff_component_two hg hloops hrows hcs hv]
  constructor
  · rintro ⟨comp, hcomp, hvin, hlen⟩
    obtain ⟨w, hw, hwv⟩ := exists_ne_of_two_le (hp.nodup comp hcomp) hlen v
    have hwl := block_mem_lt hp hcomp hw
    obtain ⟨ov, ow, hov, how, hiff⟩ := bfs_mutual_iff_same_component hg hcs hv hwl
    obtain ⟨h1, h2⟩ := hiff.mp ⟨comp, hcomp, hvin, hw⟩
    exact ⟨w, hwl, hwv, ov, ow, hov, how, h1, h2⟩
  · rintro ⟨w, hwl, hwv, ov, ow, hov, how, h1, h2⟩
    obtain ⟨ov', ow', hov', how', hiff⟩ := bfs_mutual_iff_same_component hg hcs hv hwl
    rw [hov] at hov'; rw [how] at how'
    injection hov' with e1; injection how' with e2
    subst e1; subst e2
    obtain ⟨comp, hcomp, hvin, hwin⟩ := hiff.mpr ⟨h1, h2⟩
    exact ⟨comp, hcomp, hvin, two_le_length_of_mem_ne hwin hvin hwv⟩

end GraafVerif.Cross2
