import GraafVerif.Model.ChkTraversal
/-!
# No undefined behaviour in the nine traversals (C13, P0)

For every digraph view (`out` arbitrary: successors may be any numbers, `out u = none` = the call
panics), every source list and — for `next` — every iterator state that `new`/`next` can produce,
the model never reaches an `rd`/`wr` whose index is out of range.
-/
namespace GraafVerif.Chk

/-! ## Breadth-first family -/

/-- Invariant of a breadth-first state w.r.t. the length `n` of `visited` (= `order`). -/
def QInv {ι : Type} (vtx : ι → Nat) (n : Nat) (st : QSt ι) : Prop :=
  st.visited.length = n ∧ ∀ it ∈ st.queue, vtx it < n

theorem bfsNew_step {ι : Type} (site : String) (vtx : ι → Nat) (mk0 : Nat → ι) (hmk : ∀ u, vtx (mk0 u) = u)
    (order : Nat) (st : QSt ι) (u : Nat) (h : QInv vtx order st) :
    NoUB (do
      assert (decide (u < order))
      let vis ← wr site st.visited u true
      pure (⟨st.queue ++ [mk0 u], vis⟩ : QSt ι)) ∧
    ∀ s', (do
      assert (decide (u < order))
      let vis ← wr site st.visited u true
      pure (⟨st.queue ++ [mk0 u], vis⟩ : QSt ι)) = .ok s' → QInv vtx order s' := by
  constructor
  · apply noUB_bind (noUB_assert _)
    intro _ ha
    have hu : u < order := by simpa using assert_ok ha
    apply noUB_bind (noUB_wr (by rw [h.1]; exact hu))
    intro vis _
    exact noUB_pure _
  · intro s' hs
    obtain ⟨_, ha, hs⟩ := bind_ok hs
    have hu : u < order := by simpa using assert_ok ha
    obtain ⟨vis, hw, hs⟩ := bind_ok hs
    cases hs
    refine ⟨by rw [wr_length hw]; exact h.1, ?_⟩
    intro it hit
    simp only [List.mem_append, List.mem_singleton] at hit
    rcases hit with hit | hit
    · exact h.2 it hit
    · rw [hit, hmk]; exact hu

theorem bfsNewG_spec {ι : Type} (site : String) (vtx : ι → Nat) (mk0 : Nat → ι) (hmk : ∀ u, vtx (mk0 u) = u)
    (order : Nat) (sources : List Nat) :
    NoUB (bfsNewG site mk0 order sources) ∧
    ∀ st, bfsNewG site mk0 order sources = .ok st → QInv vtx order st := by
  unfold bfsNewG
  exact foldlM_inv (QInv vtx order) _ (fun s u hs => bfsNew_step site vtx mk0 hmk order s u hs) sources _
    ⟨by simp, by intro it hit; cases hit⟩

theorem bfsVisit_spec {ι : Type} (site : String) (vtx : ι → Nat) (mk : Nat → ι) (hmk : ∀ v, vtx (mk v) = v)
    (n : Nat) (st : QSt ι) (v : Nat) (h : QInv vtx n st) :
    NoUB (bfsVisit site mk n st v) ∧ ∀ s', bfsVisit site mk n st v = .ok s' → QInv vtx n s' := by
  unfold bfsVisit
  constructor
  · apply noUB_bind (noUB_assert _)
    intro _ ha
    have hv : v < n := by simpa using assert_ok ha
    have hv' : v < st.visited.length := by rw [h.1]; exact hv
    apply noUB_bind (noUB_rd hv')
    intro b _
    split
    · exact noUB_pure _
    · apply noUB_bind (noUB_wr hv')
      intro _ _
      exact noUB_pure _
  · intro s' hs
    obtain ⟨_, ha, hs⟩ := bind_ok hs
    have hv : v < n := by simpa using assert_ok ha
    obtain ⟨b, _, hs⟩ := bind_ok hs
    split at hs
    · cases hs; exact h
    · obtain ⟨vis, hw, hs⟩ := bind_ok hs
      cases hs
      refine ⟨by rw [wr_length hw]; exact h.1, ?_⟩
      intro it hit
      simp only [List.mem_append, List.mem_singleton] at hit
      rcases hit with hit | hit
      · exact h.2 it hit
      · rw [hit, hmk]; exact hv

/-- `next` is free of UB in EVERY state (no invariant needed: the assert uses `visited.len()`),
and it preserves the queue invariant; a yielded item was in the queue. -/
theorem bfsNextG_spec {ι : Type} (site : String) (vtx : ι → Nat) (mk : ι → Nat → ι) (hmk : ∀ it v, vtx (mk it v) = v)
    (g : CGraph) (st : QSt ι) :
    NoUB (bfsNextG site vtx mk g st) ∧
    ∀ n, QInv vtx n st → ∀ o st', bfsNextG site vtx mk g st = .ok (o, st') →
      QInv vtx n st' ∧ ∀ it, o = some it → vtx it < n := by
  unfold bfsNextG
  cases hq : st.queue with
  | nil =>
    refine ⟨noUB_pure _, ?_⟩
    intro n hinv o st' h
    cases h
    exact ⟨hinv, by intro it h; cases h⟩
  | cons it q =>
    simp only []
    cases hout : g.out (vtx it) with
    | none =>
      refine ⟨noUB_throw_panic, ?_⟩
      intro n _ o st' h
      cases h
    | some vs =>
      simp only []
      have base : QInv vtx st.visited.length (⟨q, st.visited⟩ : QSt ι) → True := fun _ => trivial
      -- UB-freedom needs only the length part: use the invariant with the trivial queue bound
      have hfold := foldlM_inv (fun s : QSt ι => s.visited.length = st.visited.length)
        (bfsVisit site (mk it) st.visited.length)
        (by
          intro s v hs
          unfold bfsVisit
          constructor
          · apply noUB_bind (noUB_assert _)
            intro _ ha
            have hv : v < st.visited.length := by simpa using assert_ok ha
            have hv' : v < s.visited.length := by rw [hs]; exact hv
            apply noUB_bind (noUB_rd hv')
            intro b _
            split
            · exact noUB_pure _
            · apply noUB_bind (noUB_wr hv')
              intro _ _
              exact noUB_pure _
          · intro s' h
            obtain ⟨_, _, h⟩ := bind_ok h
            obtain ⟨b, _, h⟩ := bind_ok h
            split at h
            · cases h; exact hs
            · obtain ⟨vis, hw, h⟩ := bind_ok h
              cases h
              show vis.length = _
              rw [wr_length hw]; exact hs)
        vs ⟨q, st.visited⟩ rfl
      refine ⟨noUB_bind hfold.1 (fun _ _ => noUB_pure _), ?_⟩
      intro n hinv o st' h
      obtain ⟨s1, hs1, h⟩ := bind_ok h
      cases h
      have hlen : st.visited.length = n := hinv.1
      have hq' : QInv vtx n (⟨q, st.visited⟩ : QSt ι) :=
        ⟨hlen, fun x hx => hinv.2 x (by rw [hq]; exact List.mem_cons_of_mem _ hx)⟩
      have := foldlM_inv (QInv vtx n) (bfsVisit site (mk it) st.visited.length)
        (by intro s v hs; rw [hlen]; exact bfsVisit_spec site vtx (mk it) (hmk it) n s v hs) vs _ hq'
      refine ⟨this.2 _ hs1, ?_⟩
      intro it' hit'
      cases hit'
      exact hinv.2 it (by rw [hq]; exact List.mem_cons_self)

/-! ## Depth-first family -/

theorem dfsVisit_noUB {ι : Type} (site : String) (mk : Nat → ι) (vis : List Bool) (stack : List ι) (v : Nat) :
    NoUB (dfsVisit site mk vis.length vis stack v) := by
  unfold dfsVisit
  apply noUB_bind (noUB_assert _)
  intro _ ha
  have hv : v < vis.length := by simpa using assert_ok ha
  apply noUB_bind (noUB_rd hv)
  intro _ _
  exact noUB_pure _

/-- `Dfs*::next` is free of UB in EVERY state; `visited` keeps its length and a yielded item's
vertex is below it. -/
theorem dfsNextG_spec {ι : Type} (site : String) (vtx : ι → Nat) (mk : ι → Nat → ι) (g : CGraph) (st : QSt ι) :
    NoUB (dfsNextG site vtx mk g st) ∧
    ∀ o st', dfsNextG site vtx mk g st = .ok (o, st') →
      st'.visited.length = st.visited.length ∧ ∀ it, o = some it → vtx it < st.visited.length := by
  unfold dfsNextG
  cases hq : st.queue with
  | nil =>
    refine ⟨noUB_pure _, ?_⟩
    intro o st' h
    cases h
    exact ⟨rfl, by intro it h; cases h⟩
  | cons it s =>
    simp only []
    constructor
    · apply noUB_bind (noUB_assert _)
      intro _ ha
      have hu : vtx it < st.visited.length := by simpa using assert_ok ha
      apply noUB_bind (noUB_rd hu)
      intro b _
      split
      · exact noUB_pure _
      · apply noUB_bind (noUB_wr hu)
        intro vis hw
        have hl := wr_length hw
        cases hout : g.out (vtx it) with
        | none => exact noUB_throw_panic
        | some vs =>
          simp only []
          apply noUB_bind
          · rw [← hl]
            exact (foldlM_inv (fun _ => True) _ (fun s v _ => ⟨dfsVisit_noUB site (mk it) vis s v, fun _ _ => trivial⟩)
              vs s trivial).1
          · intro _ _; exact noUB_pure _
    · intro o st' h
      obtain ⟨_, ha, h⟩ := bind_ok h
      have hu : vtx it < st.visited.length := by simpa using assert_ok ha
      obtain ⟨b, _, h⟩ := bind_ok h
      split at h
      · cases h
        exact ⟨rfl, by intro it h; cases h⟩
      · obtain ⟨vis, hw, h⟩ := bind_ok h
        have hl := wr_length hw
        cases hout : g.out (vtx it) with
        | none => rw [hout] at h; cases h
        | some vs =>
          rw [hout] at h
          obtain ⟨stack, _, h⟩ := bind_ok h
          cases h
          refine ⟨hl, ?_⟩
          intro it' hit'
          cases hit'
          exact hu

/-! ## Dijkstra family -/

def HInv {ι : Type} (vtx : ι → Nat) (n : Nat) (st : HSt ι) : Prop :=
  st.dist.length = n ∧ ∀ it ∈ st.heap, vtx it < n

theorem popBest_mem {ι : Type} (better : ι → ι → Bool) :
    ∀ (l : List ι) (x : ι) (rest : List ι), popBest better l = some (x, rest) →
      x ∈ l ∧ (∀ y ∈ rest, y ∈ l) ∧ rest.length + 1 = l.length := by
  intro l
  induction l with
  | nil => intro x rest h; cases h
  | cons a xs ih =>
    intro x rest h
    unfold popBest at h
    cases hp : popBest better xs with
    | none =>
      rw [hp] at h
      cases h
      cases xs with
      | nil => exact ⟨List.mem_cons_self, (by intro y hy; cases hy), rfl⟩
      | cons b bs =>
        -- popBest of a non-empty list is never none
        exfalso
        unfold popBest at hp
        cases hq : popBest better bs with
        | none => rw [hq] at hp; cases hp
        | some q => rw [hq] at hp; simp only [] at hp; split at hp <;> cases hp
    | some q =>
      obtain ⟨y, ys⟩ := q
      rw [hp] at h
      simp only [] at h
      obtain ⟨hy, hys, hlen⟩ := ih y ys hp
      split at h
      · cases h
        refine ⟨List.mem_cons_of_mem _ hy, ?_, by simp [← hlen]⟩
        intro z hz
        rcases List.mem_cons.mp hz with hz | hz
        · rw [hz]; exact List.mem_cons_self
        · exact List.mem_cons_of_mem _ (hys z hz)
      · cases h
        exact ⟨List.mem_cons_self, fun z hz => List.mem_cons_of_mem _ hz, rfl⟩

theorem dijNew_step {ι : Type} (site : String) (vtx : ι → Nat) (mk0 : Nat → ι) (hmk : ∀ u, vtx (mk0 u) = u)
    (order : Nat) (st : HSt ι) (u : Nat) (h : HInv vtx order st) :
    NoUB (do
      assert (decide (u < order))
      let d ← wr site st.dist u 0
      pure (⟨mk0 u :: st.heap, d⟩ : HSt ι)) ∧
    ∀ s', (do
      assert (decide (u < order))
      let d ← wr site st.dist u 0
      pure (⟨mk0 u :: st.heap, d⟩ : HSt ι)) = .ok s' → HInv vtx order s' := by
  constructor
  · apply noUB_bind (noUB_assert _)
    intro _ ha
    have hu : u < order := by simpa using assert_ok ha
    apply noUB_bind (noUB_wr (by rw [h.1]; exact hu))
    intro _ _
    exact noUB_pure _
  · intro s' hs
    obtain ⟨_, ha, hs⟩ := bind_ok hs
    have hu : u < order := by simpa using assert_ok ha
    obtain ⟨d, hw, hs⟩ := bind_ok hs
    cases hs
    refine ⟨by rw [wr_length hw]; exact h.1, ?_⟩
    intro it hit
    rcases List.mem_cons.mp hit with hit | hit
    · rw [hit, hmk]; exact hu
    · exact h.2 it hit

theorem dijNewG_spec {ι : Type} (site : String) (vtx : ι → Nat) (mk0 : Nat → ι) (hmk : ∀ u, vtx (mk0 u) = u)
    (order : Nat) (sources : List Nat) :
    NoUB (dijNewG site mk0 order sources) ∧
    ∀ st, dijNewG site mk0 order sources = .ok st → HInv vtx order st := by
  unfold dijNewG
  exact foldlM_inv (HInv vtx order) _ (fun s u hs => dijNew_step site vtx mk0 hmk order s u hs) sources _
    ⟨by simp, by intro it hit; cases hit⟩

/-- The stale-entry loop: the unchecked `*dist_ptr.add(u)` is in range because every heap entry is. -/
theorem popFresh_spec {ι : Type} (site : String) (better : ι → ι → Bool) (key vtx : ι → Nat) (dist : List Nat) :
    ∀ (fuel : Nat) (heap : List ι), (∀ it ∈ heap, vtx it < dist.length) →
      NoUB (popFresh site better key vtx fuel heap dist) ∧
      ∀ o rest, popFresh site better key vtx fuel heap dist = .ok (o, rest) →
        (∀ it ∈ rest, vtx it < dist.length) ∧ ∀ it, o = some it → vtx it < dist.length := by
  intro fuel
  induction fuel with
  | zero =>
    intro heap hh
    unfold popFresh
    refine ⟨noUB_pure _, ?_⟩
    intro o rest h
    cases h
    exact ⟨hh, by intro it h; cases h⟩
  | succ fuel ih =>
    intro heap hh
    unfold popFresh
    cases hp : popBest better heap with
    | none =>
      simp only []
      refine ⟨noUB_pure _, ?_⟩
      intro o rest h
      cases h
      exact ⟨(by intro it h; cases h), (by intro it h; cases h)⟩
    | some q =>
      obtain ⟨it, rest⟩ := q
      simp only []
      obtain ⟨hit, hrest, _⟩ := popBest_mem better heap it rest hp
      have hv : vtx it < dist.length := hh it hit
      have hr : ∀ y ∈ rest, vtx y < dist.length := fun y hy => hh y (hrest y hy)
      constructor
      · apply noUB_bind (noUB_rd hv)
        intro d _
        split
        · exact noUB_pure _
        · exact (ih rest hr).1
      · intro o rest' h
        obtain ⟨d, _, h⟩ := bind_ok h
        split at h
        · cases h
          exact ⟨hr, by intro it' h'; cases h'; exact hv⟩
        · exact (ih rest hr).2 o rest' h

theorem dijRelax_spec {ι : Type} (site : String) (vtx : ι → Nat) (mk : Nat → Nat → ι) (hmk : ∀ v w, vtx (mk v w) = v)
    (n wPrev : Nat) (st : HSt ι) (a : Nat × Nat) (h : HInv vtx n st) :
    NoUB (dijRelax site mk n wPrev st a) ∧ ∀ s', dijRelax site mk n wPrev st a = .ok s' → HInv vtx n s' := by
  unfold dijRelax
  constructor
  · apply noUB_bind (noUB_assert _)
    intro _ ha
    have hv : a.1 < n := by simpa using assert_ok ha
    have hv' : a.1 < st.dist.length := by rw [h.1]; exact hv
    apply noUB_bind (noUB_rd hv')
    intro _ _
    split
    · apply noUB_bind (noUB_wr hv')
      intro _ _
      exact noUB_pure _
    · exact noUB_pure _
  · intro s' hs
    obtain ⟨_, ha, hs⟩ := bind_ok hs
    have hv : a.1 < n := by simpa using assert_ok ha
    obtain ⟨dv, _, hs⟩ := bind_ok hs
    split at hs
    · obtain ⟨d, hw, hs⟩ := bind_ok hs
      cases hs
      refine ⟨by rw [wr_length hw]; exact h.1, ?_⟩
      intro it hit
      rcases List.mem_cons.mp hit with hit | hit
      · rw [hit, hmk]; exact hv
      · exact h.2 it hit
    · cases hs; exact h

/-- `Dijkstra*::next` under the heap invariant. -/
theorem dijNextG_spec {ι : Type} (site : String) (better : ι → ι → Bool) (key vtx : ι → Nat) (mk : ι → Nat → Nat → ι)
    (hmk : ∀ it v w, vtx (mk it v w) = v) (g : WCGraph) (n : Nat) (st : HSt ι) (h : HInv vtx n st) :
    NoUB (dijNextG site better key vtx mk g st) ∧
    ∀ o st', dijNextG site better key vtx mk g st = .ok (o, st') →
      HInv vtx n st' ∧ ∀ it, o = some it → vtx it < n := by
  unfold dijNextG
  have hheap : ∀ it ∈ st.heap, vtx it < st.dist.length := by rw [h.1]; exact h.2
  have hpf := popFresh_spec site better key vtx st.dist (st.heap.length + 1) st.heap hheap
  constructor
  · apply noUB_bind hpf.1
    intro r hr
    obtain ⟨o, heap⟩ := r
    obtain ⟨hrest, ho⟩ := hpf.2 o heap hr
    simp only []
    cases o with
    | none => exact noUB_pure _
    | some it =>
      simp only []
      cases hout : g.out (vtx it) with
      | none => exact noUB_throw_panic
      | some arcs =>
        simp only []
        have hinv0 : HInv vtx n (⟨heap, st.dist⟩ : HSt ι) := ⟨h.1, by rw [← h.1]; exact hrest⟩
        have := foldlM_inv (HInv vtx n) (dijRelax site (mk it) st.dist.length (key it))
          (by intro s a hs; rw [h.1]; exact dijRelax_spec site vtx (mk it) (hmk it) n (key it) s a hs) arcs _ hinv0
        exact noUB_bind this.1 (fun _ _ => noUB_pure _)
  · intro o st' hh
    obtain ⟨r, hr, hh⟩ := bind_ok hh
    obtain ⟨o1, heap⟩ := r
    obtain ⟨hrest, ho⟩ := hpf.2 o1 heap hr
    simp only [] at hh
    have hinv0 : HInv vtx n (⟨heap, st.dist⟩ : HSt ι) := ⟨h.1, by rw [← h.1]; exact hrest⟩
    cases o1 with
    | none =>
      simp only [] at hh
      cases hh
      exact ⟨hinv0, by intro it h'; cases h'⟩
    | some it =>
      simp only [] at hh
      cases hout : g.out (vtx it) with
      | none => rw [hout] at hh; cases hh
      | some arcs =>
        rw [hout] at hh
        simp only [] at hh
        obtain ⟨s1, hs1, hh⟩ := bind_ok hh
        cases hh
        have := foldlM_inv (HInv vtx n) (dijRelax site (mk it) st.dist.length (key it))
          (by intro s a hs; rw [h.1]; exact dijRelax_spec site vtx (mk it) (hmk it) n (key it) s a hs) arcs _ hinv0
        refine ⟨this.2 _ hs1, ?_⟩
        intro it' hit'
        cases hit'
        rw [← h.1]; exact ho it rfl

end GraafVerif.Chk
