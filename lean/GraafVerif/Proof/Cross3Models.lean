import GraafVerif.Proof.Cross3
import GraafVerif.Thm.C03
import GraafVerif.Thm.C04
import GraafVerif.Thm.C05
import GraafVerif.Thm.C05Dijkstra
import GraafVerif.Thm.C06
import GraafVerif.Thm.C07
import GraafVerif.Thm.Cross2
/-!
# Third family of cross-algorithm theorems, between the MODELS (tag `Cross3`)

* C05 ↔ C19: the predecessor vector of the `BfsPred` / `DijkstraPred` model fed into the model of
  `PredecessorTree::search` / `search_by`;
* C05 ↔ C04 / C03: tree depth = `distances()`, `None` entries = sources + unreachable;
* C06 ↔ C04: DFS yield set vs BFS yield set;
* C07 ↔ C09 / C10: `BellmanFordMoore::distances() = None` ⇒ Johnson finds a circuit, Tarjan a
  non-singleton component, reachable from the source.

The property theorems `C05.bfsPred_tree`, `C05Dijkstra.dijkstraPred_tree / _chain`,
`C19.statement_holds`, `C04.bfs_correct / distances_correct`, `C03.distances_spec`,
`C06.dfs_partial / dfsFixed_reachable`, `C07.bfm_none_iff` and the `Cross2` theorems are used as
black boxes.
-/
namespace GraafVerif.Cross3
open GraafVerif GraafVerif.PredTree

theorem lt_of_searchBy_ret {pred : Pred} {v : Nat} {isT : Nat → Option Nat → Bool} {r : Option (List Nat)}
    (h : searchBy pred v isT = .ret r) : v < pred.length := by
  apply Classical.byContradiction
  intro hnot
  unfold searchBy searchByFuel at h
  rw [List.getElem?_eq_none (by omega)] at h
  cases h

/-! ## 1. BFS: `BfsPred::predecessors()` under `PredecessorTree::search` -/

section bfs
open GraafVerif.Bfs

theorem bfs_pred_inRange {g : Graph} (hg : g.WF) {S : List Nat} {pred : Pred} (hsp : PredSpec g S pred) :
    InRange pred := by
  intro x hx u hxu
  obtain ⟨v, hv, hget⟩ := List.getElem_of_mem hx
  have hget' : pred[v]? = some (some u) := by rw [List.getElem?_eq_getElem hv, hget, hxu]
  have hvn : v < g.n := by rw [← hsp.len]; exact hv
  by_cases hr : ReachFrom g S v
  · by_cases hs : v ∈ S
    · rw [hsp.src v hs] at hget'; cases hget'
    · obtain ⟨u', _, hu', ha, _⟩ := hsp.tree v hr hs
      rw [hu'] at hget'
      have : u' = u := by injection hget' with h; injection h
      rw [hsp.len, ← this]
      exact (hg u' v ha).1
  · rw [hsp.unreach v hvn hr] at hget'; cases hget'

/-- Every vertex has a root path in the BFS predecessor vector. -/
theorem bfs_rootPath {g : Graph} {S : List Nat} {pred : Pred} (hsp : PredSpec g S pred) {v : Nat}
    (hv : v < g.n) : ∃ p, RootPath pred v p := by
  by_cases hr : ReachFrom g S v
  · obtain ⟨d, hd⟩ := Cross.reachFrom_hopDist hr
    obtain ⟨cs, hcs, _⟩ := hsp.chain v d hd
    exact ⟨cs, hcs⟩
  · exact ⟨[v], rootPath_of_none (hsp.unreach v hv hr)⟩

/-- **C05 ↔ C19 (BFS).**  For every vertex with a hop distance `d`, `search(v, s)` for a suitable
source `s` returns the reversal of a shortest path: `d + 1` distinct vertices from `v` to `s`,
consecutive ones joined by arcs of `g` when read backwards; it coincides with the root path. -/
theorem bfs_tree_search {g : Graph} (hg : g.WF) (hn : 0 < g.n) {S : List Nat}
    (hS : ∀ s ∈ S, s < g.n) (hnd : S.Nodup) :
    ∃ pred, predecessors g S = .ok pred ∧ pred.length = g.n ∧
      ∀ v d, IsHopDist g S v d → ∃ s ∈ S, ∃ p,
        search pred v s = .ret (some p) ∧ searchBy pred v isRoot = .ret (some p) ∧
        p.head? = some v ∧ p.getLast? = some s ∧ p.length = d + 1 ∧ IsWalk g p.reverse ∧ p.Nodup := by
  obtain ⟨pred, hp, hsp⟩ := C05.bfsPred_tree g hg hn S hS hnd
  refine ⟨pred, hp, hsp.len, fun v d hd => ?_⟩
  obtain ⟨cs, hcs, hlen, hwalk, ⟨s, hs, hlast⟩, hhead⟩ := hsp.chain v d hd
  have hr := bfs_pred_inRange hg hsp
  have hv : v < pred.length := lt_of_searchBy_ret hcs
  obtain ⟨k, r, hshape⟩ := rootShape hr hv (p := cs) hcs
  have hrs : r = s := by
    have := hshape.getLast; rw [hlast] at this; injection this with h; exact h.symm
  refine ⟨s, hs, cs, ?_, hcs, hhead, hlast, hlen, hwalk, hshape.nodup⟩
  rw [← hrs]; exact search_root_eq hr hv hshape

/-- **The BFS predecessor tree is acyclic**: from EVERY vertex the chain of predecessor links
reaches an entry `None` after `k` steps, stops there, and never repeats a vertex; hence for every
predicate `search_by` returns `None` only when no vertex of that finite root path is a target —
the "already visited" `break` never fires. -/
theorem bfs_tree_acyclic {g : Graph} (hg : g.WF) (hn : 0 < g.n) {S : List Nat}
    (hS : ∀ s ∈ S, s < g.n) (hnd : S.Nodup) :
    ∃ pred, predecessors g S = .ok pred ∧ ∀ v, v < g.n → ∃ p k r,
      searchBy pred v isRoot = .ret (some p) ∧ RootShape pred v p k r ∧
      (∀ isT, searchBy pred v isT = .ret none ↔ ∀ x ∈ p, target pred isT x = false) ∧
      (∀ isT q, searchBy pred v isT = .ret (some q) → q <+: p) := by
  obtain ⟨pred, hp, hsp⟩ := C05.bfsPred_tree g hg hn S hS hnd
  refine ⟨pred, hp, fun v hv => ?_⟩
  obtain ⟨p, hpath⟩ := bfs_rootPath hsp hv
  have hr := bfs_pred_inRange hg hsp
  have hv' : v < pred.length := by rw [hsp.len]; exact hv
  obtain ⟨k, r, hshape⟩ := rootShape hr hv' hpath
  exact ⟨p, k, r, hpath, hshape, searchBy_none_iff hr hv' hshape,
    fun isT q hq => searchBy_some_prefix hr hv' hshape isT hq⟩

/-- **C05 ↔ C04.**  The depth of `v` in the BFS tree is `BfsDist::distances()[v]`, and the
entries `None` are exactly the sources and the vertices where `distances()` has its sentinel. -/
theorem bfs_tree_depth_eq_dist {g : Graph} (hg : g.WF) (hn : 0 < g.n) {S : List Nat}
    (hS : ∀ s ∈ S, s < g.n) (hnd : S.Nodup) (inf : Nat) (hinf : g.n ≤ inf) :
    ∃ pred dvec, predecessors g S = .ok pred ∧ distances g S inf = .ok dvec ∧
      (∀ v, ReachFrom g S v → ∃ p, searchBy pred v isRoot = .ret (some p) ∧
        dvec[v]? = some (p.length - 1) ∧ p.length - 1 < g.n) ∧
      (∀ v, v < g.n → (pred[v]? = some none ↔ (v ∈ S ∨ dvec[v]? = some inf))) := by
  obtain ⟨pred, hp, hsp⟩ := C05.bfsPred_tree g hg hn S hS hnd
  obtain ⟨dvec, hd, hds⟩ := C04.distances_correct g hg S hS hnd inf hinf
  refine ⟨pred, dvec, hp, hd, ?_, ?_⟩
  · intro v hr
    obtain ⟨d, hdv⟩ := Cross.reachFrom_hopDist hr
    obtain ⟨cs, hcs, hlen, _⟩ := hsp.chain v d hdv
    have hdd : cs.length - 1 = d := by omega
    refine ⟨cs, hcs, by rw [hdd]; exact hds.dist v d hdv, ?_⟩
    rw [hdd]
    -- hop distances are below the order: `dvec[v] = d ≠ inf`, and C04's levels are `< n`
    obtain ⟨out, _, hosp⟩ := C04.bfsDist_correct g hg S hS hnd
    have hvm := (hosp.mem_iff v).mpr hr
    obtain ⟨q, hq, rfl⟩ := List.mem_map.mp hvm
    rw [Bfs.isHopDist_unique hdv (hosp.exact q hq)]
    exact (hosp.lt q hq).2
  · intro v hv
    rw [hds.inf_iff v hv]
    constructor
    · intro hnone
      by_cases hs : v ∈ S
      · exact Or.inl hs
      · right
        intro hr
        obtain ⟨u, _, hu, _⟩ := hsp.tree v hr hs
        rw [hu] at hnone; cases hnone
    · rintro (hs | hnr)
      · exact hsp.src v hs
      · exact hsp.unreach v hv hnr

end bfs

/-! ## 2. Dijkstra: `DijkstraPred::predecessors()` under `PredecessorTree::search` -/

section dijkstra
open GraafVerif.Dijkstra

theorem wreach_lt {g : WGraph} {S : List Nat} (h : Hyp g S) {v : Nat} (hr : WReachFrom g S v) : v < g.n := by
  obtain ⟨s, hs, k, wt, hw⟩ := hr
  cases hw with
  | nil => exact h.srcRange _ hs
  | snoc _ ha => exact (h.wf _ _ _ ha).2

theorem dijkstra_pred_inRange {g : WGraph} {S : List Nat} (h : Hyp g S) : InRange (predecessors g S) := by
  obtain ⟨hlen, hnone, htree⟩ := C05Dijkstra.dijkstraPred_tree g S h
  intro x hx u hxu
  obtain ⟨v, hv, hget⟩ := List.getElem_of_mem hx
  have hget' : (predecessors g S)[v]? = some (some u) := by rw [List.getElem?_eq_getElem hv, hget, hxu]
  have hvn : v < g.n := by rw [← hlen]; exact hv
  by_cases hc : v ∈ S ∨ ¬ WReachFrom g S v
  · rw [hnone v hvn hc] at hget'; cases hget'
  · have hs : v ∉ S := fun hs => hc (Or.inl hs)
    have hr : WReachFrom g S v := Classical.byContradiction fun hnr => hc (Or.inr hnr)
    obtain ⟨u', w, _, _, hu', ha, _⟩ := htree v hvn hs hr
    rw [hu'] at hget'
    have : u' = u := by injection hget' with h'; injection h'
    rw [hlen, ← this]
    exact (h.wf u' v w ha).1

theorem dijkstra_rootPath {g : WGraph} {S : List Nat} (h : Hyp g S) {v : Nat} (hv : v < g.n) :
    ∃ p, RootPath (predecessors g S) v p := by
  by_cases hr : WReachFrom g S v
  · obtain ⟨p, _, hp, _⟩ := C05Dijkstra.dijkstraPred_chain g S h v hr
    exact ⟨p, hp⟩
  · exact ⟨[v], rootPath_of_none ((C05Dijkstra.dijkstraPred_tree g S h).2.1 v hv (Or.inr hr))⟩

/-- **C05 ↔ C19 ↔ C03 (Dijkstra).**  For every reachable `v`, `search(v, s)` for a suitable source
`s` returns the reversal of a minimum-weight path, whose weight is `DijkstraDist::distances()[v]`. -/
theorem dijkstra_tree_search {g : WGraph} {S : List Nat} (h : Hyp g S) :
    ∀ v, WReachFrom g S v → ∃ s ∈ S, ∃ p d,
      search (predecessors g S) v s = .ret (some p) ∧
      searchBy (predecessors g S) v isRoot = .ret (some p) ∧
      p.head? = some v ∧ p.getLast? = some s ∧ PathW g p.reverse d ∧ IsMinDist g S v d ∧ p.Nodup ∧
      (distances g S)[v]? = some (some d) := by
  intro v hr
  obtain ⟨p, d, hp, hhead, ⟨s, hs, hlast⟩, hpath, hmin⟩ := C05Dijkstra.dijkstraPred_chain g S h v hr
  have hir := dijkstra_pred_inRange h
  have hv : v < (predecessors g S).length := lt_of_searchBy_ret hp
  obtain ⟨k, r, hshape⟩ := rootShape hir hv (p := p) hp
  have hrs : r = s := by
    have := hshape.getLast; rw [hlast] at this; injection this with h'; exact h'.symm
  refine ⟨s, hs, p, d, ?_, hp, hhead, hlast, hpath, hmin, hshape.nodup, ?_⟩
  · rw [← hrs]; exact search_root_eq hir hv hshape
  · exact ((C03.distances_spec g S h).2.1 v (wreach_lt h hr) d).mpr hmin

/-- **The Dijkstra predecessor tree is acyclic** (same reading as `bfs_tree_acyclic`). -/
theorem dijkstra_tree_acyclic {g : WGraph} {S : List Nat} (h : Hyp g S) :
    ∀ v, v < g.n → ∃ p k r,
      searchBy (predecessors g S) v isRoot = .ret (some p) ∧ RootShape (predecessors g S) v p k r ∧
      (∀ isT, searchBy (predecessors g S) v isT = .ret none ↔
        ∀ x ∈ p, target (predecessors g S) isT x = false) ∧
      (∀ isT q, searchBy (predecessors g S) v isT = .ret (some q) → q <+: p) := by
  intro v hv
  obtain ⟨p, hpath⟩ := dijkstra_rootPath h hv
  have hir := dijkstra_pred_inRange h
  have hv' : v < (predecessors g S).length := by
    rw [(C05Dijkstra.dijkstraPred_tree g S h).1]; exact hv
  obtain ⟨k, r, hshape⟩ := rootShape hir hv' hpath
  exact ⟨p, k, r, hpath, hshape, searchBy_none_iff hir hv' hshape,
    fun isT q hq => searchBy_some_prefix hir hv' hshape isT hq⟩

/-- **C05 ↔ C03.**  `predecessors()[v] = None` exactly at the sources and where
`DijkstraDist::distances()` has its sentinel. -/
theorem dijkstra_pred_none_iff {g : WGraph} {S : List Nat} (h : Hyp g S) {v : Nat} (hv : v < g.n) :
    (predecessors g S)[v]? = some none ↔ (v ∈ S ∨ (distances g S)[v]? = some none) := by
  obtain ⟨_, hnone, htree⟩ := C05Dijkstra.dijkstraPred_tree g S h
  rw [(C03.distances_spec g S h).2.2 v hv]
  constructor
  · intro hn
    by_cases hs : v ∈ S
    · exact Or.inl hs
    · right
      intro hr
      obtain ⟨u, _, _, _, hu, _⟩ := htree v hv hs hr
      rw [hu] at hn; cases hn
  · intro hc; exact hnone v hv hc

end dijkstra

/-! ## 3. DFS ↔ BFS -/

/-- **C06 ↔ C04.**  Unconditionally everything today's DFS model yields is yielded by the BFS
model from the same sources; if today's run pops no stale entry the two yield the same set; the
corrected variant always yields a permutation of the BFS output. -/
theorem dfs_vs_bfs {g : Graph} {S : List Nat} (h : C06.Inputs g S) :
    ∃ out, Bfs.bfs g S = .ok out ∧
      (∀ v ∈ (Dfs.dfs g S).verts, v ∈ out) ∧
      ((Dfs.dfs g S).ending = .done → (Dfs.dfs g S).verts.Perm out) ∧
      (Dfs.dfsFixed g S).verts.Perm out := by
  obtain ⟨out, ho, hsp⟩ := C04.bfs_correct g h.wf S h.inRange h.nodup
  obtain ⟨_, _, _, _, _, hnd, hsound, hcomplete⟩ := C06.dfs_partial g S h
  obtain ⟨⟨_, hfnd, hfmem⟩, _⟩ := C06.dfsFixed_reachable g S h
  have hsub : ∀ v ∈ (Dfs.dfs g S).verts, v ∈ out := fun v hv => (hsp.mem_iff v).mpr (hsound v hv)
  refine ⟨out, ho, hsub, ?_, ?_⟩
  · intro hd
    refine (List.perm_ext_iff_of_nodup hnd hsp.nodup).mpr (fun v => ⟨hsub v, fun hv => ?_⟩)
    exact hcomplete hd v ((hsp.mem_iff v).mp hv)
  · exact (List.perm_ext_iff_of_nodup hfnd hsp.nodup).mpr
      (fun v => (hfmem v).trans (hsp.mem_iff v).symm)

/-- The same for `DfsDist` and `DfsPred` (they yield the vertex sequence of `Dfs`), and for the
corrected variants. -/
theorem dfs_variants_vs_bfs {g : Graph} {S : List Nat} (h : C06.Inputs g S) :
    ∃ out, Bfs.bfs g S = .ok out ∧
      (∀ v ∈ (Dfs.dfsDist g S).verts, v ∈ out) ∧ (∀ v ∈ (Dfs.dfsPred g S).verts, v ∈ out) ∧
      (Dfs.dfsDistFixed g S).verts.Perm out ∧ (Dfs.dfsPredFixed g S).verts.Perm out := by
  obtain ⟨out, ho, hsub, _, _⟩ := dfs_vs_bfs h
  obtain ⟨hsp⟩ : ∃ _ : Bfs.BfsSpec g S out, True := by
    obtain ⟨out', ho', hsp⟩ := C04.bfs_correct g h.wf S h.inRange h.nodup
    rw [ho] at ho'; injection ho' with e; subst e
    exact ⟨hsp, trivial⟩
  obtain ⟨_, hd, hp, _⟩ := C06.dfs_partial g S h
  obtain ⟨_, ⟨_, hdnd, hdmem⟩, ⟨_, hpnd, hpmem⟩⟩ := C06.dfsFixed_reachable g S h
  refine ⟨out, ho, ?_, ?_, ?_, ?_⟩
  · rw [hd]; exact hsub
  · rw [hp]; exact hsub
  · exact (List.perm_ext_iff_of_nodup hdnd hsp.nodup).mpr (fun v => (hdmem v).trans (hsp.mem_iff v).symm)
  · exact (List.perm_ext_iff_of_nodup hpnd hsp.nodup).mpr (fun v => (hpmem v).trans (hsp.mem_iff v).symm)

/-! ## 4. Bellman-Ford-Moore ↔ Johnson75 / Tarjan -/

open GraafVerif.Johnson GraafVerif.Tarjan GraafVerif.Cross2 in
/-- **C07 ↔ C10 / C09 / C04.**  If the BFM model returns `None` then some vertex `x` reachable from
`s` (= yielded by the BFS model from `[s]` on the underlying digraph) lies on a circuit the
Johnson model returns and in a Tarjan component with at least two members. -/
theorem bfm_none_circuit {g : WGraph} (hwf : g.WF) {s : Nat} (hs : s < g.n)
    (hloops : NoLoops g.toGraph) (hrows : RowsNodup g.toGraph)
    (hnone : Bfm.distances g s = .ret none) :
    ∃ x, x < g.n ∧ Reach g.toGraph s x ∧
      (∃ out, Bfs.bfs g.toGraph [s] = .ok out ∧ x ∈ out) ∧
      (∃ c ∈ circuits g.toGraph, x ∈ c) ∧
      (∀ cs, components (vgOf g.toGraph) = .ret cs → ∃ comp ∈ cs, x ∈ comp ∧ 2 ≤ comp.length) := by
  obtain ⟨x, hrx, k, wt, hk, hw, _⟩ := (C07.bfm_none_iff g hwf s hs).mp hnone
  have hg := toGraph_wf hwf
  have hsx : Reach g.toGraph s x := wreachFrom_single_iff.mp hrx
  have hx : x < g.n := reach_lt hg hsx hs
  -- the last arc of the closed walk comes from a different vertex
  have hlast : ∃ y w k' wt', WWalk g x y k' wt' ∧ g.A y x w := by
    cases hw with
    | nil => omega
    | snoc hw' ha => exact ⟨_, _, _, _, hw', ha⟩
  have hcirc : ∃ c, IsCanonicalElemCircuit g.toGraph c ∧ x ∈ c := by
    obtain ⟨y, w, k', wt', hw', ha⟩ := hlast
    · have hyx : g.toGraph.A y x := toGraph_A.mpr ⟨w, ha⟩
      have hne : x ≠ y := by rintro rfl; exact hloops x hyx
      exact closed_walk_has_circuit g.toGraph hloops x y hne (wwalk_reach hw') (reach_of_arc hyx)
  obtain ⟨c, hc, hxc⟩ := hcirc
  have hcm : c ∈ circuits g.toGraph := (circuits_mem_iff hg hloops hrows c).mpr hc
  obtain ⟨out, ho, hm⟩ := bfs_single hg (u := s) hs
  refine ⟨x, hx, hsx, ⟨out, ho, (hm x).mpr hsx⟩, ⟨c, hcm, hxc⟩, fun cs hcs => ?_⟩
  exact (johnson_vertices_iff_nonsingleton_component g.toGraph hg hloops hrows cs hcs x hx).mp ⟨c, hcm, hxc⟩

open GraafVerif.Johnson GraafVerif.Cross2 in
/-- Contrapositive: when the Johnson model finds no circuit (the digraph is acyclic), the BFM model
returns `Some` from every source. -/
theorem johnson_nil_bfm_some {g : WGraph} (hwf : g.WF) {s : Nat} (hs : s < g.n)
    (hloops : NoLoops g.toGraph) (hrows : RowsNodup g.toGraph) (hnil : circuits g.toGraph = []) :
    ∃ d, Bfm.distances g s = .ret (some d) := by
  apply C07.bfm_no_negcycle_some g hwf s hs
  intro hneg
  obtain ⟨x, _, _, _, ⟨c, hc, _⟩, _⟩ :=
    bfm_none_circuit hwf hs hloops hrows ((C07.bfm_none_iff g hwf s hs).mpr hneg)
  rw [hnil] at hc; cases hc

end GraafVerif.Cross3
