import GraafVerif.Driver.ReprDesc
import GraafVerif.Driver.H09
import GraafVerif.Proof.ComposeGen
import GraafVerif.Proof.JohnsonDriverGraph
import GraafVerif.Proof.BfsDesc
/-!
# Compose — the `Graph` the driver hands to the algorithm models IS the view of the
representation model built from the same description

In the correspondence run the harness builds the REAL structure from a description
(`empty` + `add_arc` in description order) and runs the real algorithm on it; the driver runs the
algorithm MODEL on `GDesc.graph = Graph.ofRows (rowsOfArcs order arcs)`, built from the
description directly.  Here: for every valid description the representation MODEL built the way
the harness builds the real structure (`Driver/ReprDesc.lean`: `buildAL`, `buildAM`, `buildMX`,
`buildEL`) exists, is well-formed, and its view (= `order()` + `out_neighbors()` of C02's query
models) is EQUAL, as a `Graph`, to `GDesc.graph`.  So the algorithm runs of C04 … C10 are runs on
the views of the representation models, and the two halves of the framework meet.
-/
namespace GraafVerif.Compose
open GraafVerif GraafVerif.Repr GraafVerif.Gen GraafVerif.Driver GraafVerif.Query

/-- The driver's graph of a valid arc list equals any view with that order and those arcs. -/
theorem ofRows_eq_view {g : Graph} {n : Nat} {a : List (Nat × Nat)} {o : Nat → Option (List Nat)}
    (vs : ViewSpec g n a o) (arcs : List (Nat × Nat)) (hv : ArcsValid n arcs)
    (ha : ∀ u v, (u, v) ∈ a ↔ (u, v) ∈ arcs) : Graph.ofRows (rowsOfArcs n arcs) = g := by
  have hv' : ∀ x ∈ arcs, x.1 < n ∧ x.2 < n ∧ x.1 ≠ x.2 := fun x hx => ⟨(hv x hx).2.1, (hv x hx).2.2, (hv x hx).1⟩
  obtain ⟨hsz, hrows⟩ := Johnson.rowsOfArcs_ok n arcs hv'
  obtain ⟨hn, hA, _⟩ := ofArcRows_spec n arcs (fun x hx => ⟨(hv x hx).2.1, (hv x hx).2.2⟩)
  have hout : ∀ u, (Graph.ofRows (rowsOfArcs n arcs)).out u = ((rowsOfArcs n arcs)[u]?).getD [] := by
    intro u; simp [Graph.ofRows, Array.getD_eq_getD_getElem?]
  cases g with | mk gn gout =>
  have e1 : (Graph.ofRows (rowsOfArcs n arcs)).n = gn := hn.trans vs.order.symm
  have e2 : (Graph.ofRows (rowsOfArcs n arcs)).out = gout := by
    funext u
    apply Query.sorted_ext
    · rw [hout u]; exact (hrows u).1
    · exact vs.asc u
    · intro v
      exact (hA u v).trans ((ha u v).symm.trans (vs.arc_iff u v).symm)
  show Graph.mk (Graph.ofRows (rowsOfArcs n arcs)).n (Graph.ofRows (rowsOfArcs n arcs)).out = Graph.mk gn gout
  rw [e1, e2]

/-- `[al n arcs]`: the model list built like the harness builds the real one has the driver's
graph as its view. -/
theorem driver_graph_is_view_al (d : GDesc) (hn : 1 ≤ d.order) (hv : ArcsValid d.order d.arcs) :
    ∃ r, buildAL d = some r ∧ r.WF ∧ r.order = d.order ∧ (∀ u v, (u, v) ∈ r.arcs ↔ (u, v) ∈ d.arcs) ∧
      r.view = d.graph := by
  obtain ⟨e, he, hwf, ho, hno⟩ := AL.empty_repr hn
  obtain ⟨r, hr, hwr, hor, hhas⟩ := foldlM_addArc AL.repr d.arcs e hwf (by show ArcsValid e.order d.arcs; rw [ho]; exact hv)
  have harcs : ∀ u v, (u, v) ∈ r.arcs ↔ (u, v) ∈ d.arcs := by
    intro u v
    have := hhas u v
    simp only [AL.repr] at this
    rw [this]
    exact ⟨fun h => h.resolve_left (hno u v), Or.inr⟩
  have hord : r.order = d.order := hor.trans ho
  refine ⟨r, ?_, hwr, hord, harcs, ?_⟩
  · simp only [buildAL, he]; exact hr
  · have vs := r.view_spec hwr
    rw [hord] at vs
    exact (ofRows_eq_view vs d.arcs hv harcs).symm

/-- `[el n arcs]`. -/
theorem driver_graph_is_view_el (d : GDesc) (hn : 1 ≤ d.order) (hv : ArcsValid d.order d.arcs) :
    ∃ r, buildEL d = some r ∧ r.WF ∧ r.order = d.order ∧ (∀ u v, (u, v) ∈ r.arcs ↔ (u, v) ∈ d.arcs) ∧
      r.view = d.graph := by
  obtain ⟨e, he, hwf, ho, hno⟩ := EL.empty_repr hn
  obtain ⟨r, hr, hwr, hor, hhas⟩ := foldlM_addArc EL.repr d.arcs e hwf (by show ArcsValid e.order d.arcs; rw [ho]; exact hv)
  have harcs : ∀ u v, (u, v) ∈ r.arcs ↔ (u, v) ∈ d.arcs := by
    intro u v
    have := hhas u v
    simp only [EL.repr] at this
    rw [this]
    exact ⟨fun h => h.resolve_left (hno u v), Or.inr⟩
  have hord : r.order = d.order := hor.trans ho
  refine ⟨r, ?_, hwr, hord, harcs, ?_⟩
  · simp only [buildEL, he]; exact hr
  · have vs := r.view_spec hwr
    rw [hord] at vs
    exact (ofRows_eq_view vs d.arcs hv harcs).symm

/-- `[mx n arcs]` (`order²` fits a `usize`). -/
theorem driver_graph_is_view_mx (d : GDesc) (hn : 1 ≤ d.order) (hfit : d.order * d.order < 2 ^ 64)
    (hv : ArcsValid d.order d.arcs) :
    ∃ r, buildMX d = some r ∧ r.WF ∧ r.order = d.order ∧ (∀ u v, (u, v) ∈ r.arcs ↔ (u, v) ∈ d.arcs) ∧
      r.view = d.graph := by
  obtain ⟨e, he, hwf, ho, hno⟩ := MX.empty_spec hn hfit
  obtain ⟨r, hr, hwr, hor, hhas⟩ := foldlM_addArc MX.repr d.arcs e hwf (by show ArcsValid e.order d.arcs; rw [ho]; exact hv)
  have harcs : ∀ u v, (u, v) ∈ r.arcs ↔ (u, v) ∈ d.arcs := by
    intro u v
    have := hhas u v
    simp only [MX.repr] at this
    rw [this]
    exact ⟨fun h => h.resolve_left (hno u v), Or.inr⟩
  have hord : r.order = d.order := hor.trans ho
  refine ⟨r, ?_, hwr, hord, harcs, ?_⟩
  · simp only [buildMX, he]; exact hr
  · have vs := r.view_spec hwr
    rw [hord] at vs
    exact (ofRows_eq_view vs d.arcs hv harcs).symm

/-- `[am verts arcs]` with the contiguous vertex set `0..order`. -/
theorem driver_graph_is_view_am (d : GDesc) (hn : 1 ≤ d.order) (hverts : d.verts = List.range d.order)
    (hv : ArcsValid d.order d.arcs) :
    ∃ r, buildAM d = some r ∧ r.WF ∧ AM.Contiguous r ∧ r.order = d.order ∧
      (∀ u v, (u, v) ∈ r.arcs ↔ (u, v) ∈ d.arcs) ∧ r.view = d.graph := by
  obtain ⟨e, he, hwf, ho, hno⟩ := AM.empty_repr hn
  have hn0 : d.order ≠ 0 := by omega
  have hee : e = ⟨d.verts.map (fun v => (v, []))⟩ := by
    simp only [AdjMap.empty, hn0, if_false, Option.some.injEq] at he
    rw [← he, hverts]
  obtain ⟨r, hr, hwr, hor, hhas⟩ := foldlM_addArc AM.repr d.arcs e hwf (by show ArcsValid e.order d.arcs; rw [ho]; exact hv)
  have harcs : ∀ u v, (u, v) ∈ r.arcs ↔ (u, v) ∈ d.arcs := by
    intro u v
    have := hhas u v
    simp only [AM.repr] at this
    rw [this]
    exact ⟨fun h => h.resolve_left (hno u v), Or.inr⟩
  have hord : r.order = d.order := hor.trans ho
  refine ⟨r, ?_, hwr.1, hwr.2, hord, harcs, ?_⟩
  · simp only [buildAM]; rw [← hee]; exact hr
  · have vs := r.view_spec hwr.1 hwr.2
    rw [hord] at vs
    exact (ofRows_eq_view vs d.arcs hv harcs).symm

/-! ## The weighted description: `GDesc.wgraph` is the weighted view of `buildW` -/

theorem insertAscW_eq_mupsert (x : Nat) (w : Int) (l : List (Nat × Int)) :
    insertAscW x w l = mupsert x w (fun _ => w) l := by
  induction l with
  | nil => rfl
  | cons p ps ih =>
    obtain ⟨y, wy⟩ := p
    simp only [insertAscW, mupsert]
    split
    · rfl
    · split
      · rfl
      · rw [ih]

theorem foldW_rows (n : Nat) (warcs : List (Nat × Nat × Int)) :
    ∀ (rows : Array (List (Nat × Int))) (r : AdjListW), r.rows = rows.toList → rows.size = n → r.WF →
      (∀ a ∈ warcs, a.1 ≠ a.2.1 ∧ a.1 < n ∧ a.2.1 < n) →
      ∃ r', warcs.foldlM (fun g a => g.addArcWeighted a.1 a.2.1 a.2.2) r = some r' ∧ r'.WF ∧
        r'.rows = (warcs.foldl (fun rows a => if a.1 < rows.size then rows.modify a.1 (insertAscW a.2.1 a.2.2) else rows)
          rows).toList ∧ r'.order = n := by
  induction warcs with
  | nil =>
    intro rows r hr hs hw _
    exact ⟨r, rfl, hw, hr, by simp [AdjListW.order, hr, hs]⟩
  | cons a as ih =>
    intro rows r hr hs hw hv
    obtain ⟨h1, h2, h3⟩ := hv a List.mem_cons_self
    have hord : r.order = n := by simp [AdjListW.order, hr, hs]
    have hadd : r.addArcWeighted a.1 a.2.1 a.2.2 =
        some ⟨r.rows.set a.1 (mupsert a.2.1 a.2.2 (fun _ => a.2.2) (r.rows[a.1]?.getD []))⟩ := by
      simp [AdjListW.addArcWeighted, h1, hord, h2, h3]
    have hwf' : (⟨r.rows.set a.1 (mupsert a.2.1 a.2.2 (fun _ => a.2.2) (r.rows[a.1]?.getD []))⟩ : AdjListW).WF := by
      have := AdjListW.step_WF r (.add a.1 a.2.1 a.2.2) hw
      simpa [AdjListW.step, hadd, outOfOpt] using this
    rw [List.foldlM_cons, hadd]
    simp only [List.foldl_cons, hs, h2, if_true]
    show ∃ r', List.foldlM _ _ as = some r' ∧ _
    apply ih (rows.modify a.1 (insertAscW a.2.1 a.2.2)) _ ?_ (by rw [Array.size_modify]; exact hs) hwf'
      (fun x hx => hv x (List.mem_cons_of_mem _ hx))
    show r.rows.set a.1 _ = _
    have hf : insertAscW a.2.1 a.2.2 = mupsert a.2.1 a.2.2 (fun _ => a.2.2) :=
      funext (insertAscW_eq_mupsert _ _)
    rw [hr, hf]
    apply List.ext_getElem?
    intro i
    simp only [List.getElem?_set, Array.getElem?_toList, Array.getElem?_modify, Array.length_toList]
    by_cases hi : a.1 = i
    · subst hi
      have hlt : a.1 < rows.size := by omega
      simp [hlt]
    · simp [hi]

/-- `[wu n warcs]` / `[wi n warcs]` (later triples replace the weight of earlier ones, exactly as
`add_arc_weighted` does): the weighted model list built like the harness builds the real one has
the driver's `WGraph` as its weighted view. -/
theorem driver_wgraph_is_wview (d : GDesc) (hn : 1 ≤ d.order)
    (hv : ∀ a ∈ d.warcs, a.1 ≠ a.2.1 ∧ a.1 < d.order ∧ a.2.1 < d.order) :
    ∃ r, buildW d = some r ∧ r.WF ∧ r.order = d.order ∧ r.wview = d.wgraph := by
  have hn0 : d.order ≠ 0 := by omega
  have he : AdjListW.empty d.order = some ⟨List.replicate d.order []⟩ := by simp [AdjListW.empty, hn0]
  have hwf : (⟨List.replicate d.order []⟩ : AdjListW).WF := (C01.adjListW_empty he).1
  obtain ⟨r, hr, hwr, hrows, hord⟩ := foldW_rows d.order d.warcs (Array.replicate d.order []) ⟨List.replicate d.order []⟩
    (by simp) (by simp) hwf hv
  refine ⟨r, ?_, hwr, hord, ?_⟩
  · simp only [buildW, he]; exact hr
  · show WGraph.mk r.order (fun u => (WL.outNeighborsWeighted r u).getD []) = WGraph.ofRows (wrowsOfArcs d.order d.warcs)
    simp only [WGraph.ofRows, wrowsOfArcs]
    have hsz : (d.warcs.foldl (fun rows a => if a.1 < rows.size then rows.modify a.1 (insertAscW a.2.1 a.2.2) else rows)
        (Array.replicate d.order [])).size = r.order := by
      rw [← Array.length_toList, ← hrows]; rfl
    rw [hsz]
    congr 1
    funext u
    simp only [Query.WL.outNeighborsWeighted, hrows, Array.getElem?_toList, Array.getD_eq_getD_getElem?]

/-! ## The `VGraph` of the C09 handler (fixed-order descriptions) is the vertex-id view -/

theorem foldl_max_range (n : Nat) : (List.range (n + 1)).foldl max 0 = n := by
  induction n with
  | zero => rfl
  | succ k ih => rw [List.range_succ, List.foldl_append, ih]; simp

theorem driver_vgraph_eq (d : GDesc) (hn : 1 ≤ d.order) (hrepr : (d.repr == "am") = false)
    (hverts : d.verts = List.range d.order) :
    H09.vgraphOf d = ⟨List.range d.order, d.graph.out⟩ := by
  have hvs : H09.vertsOf d = List.range d.order := by simp [H09.vertsOf, hrepr, hverts]
  obtain ⟨k, hk⟩ : ∃ k, d.order = k + 1 := ⟨d.order - 1, by omega⟩
  simp only [H09.vgraphOf, hvs, GDesc.graph, Graph.ofRows]
  rw [hk, foldl_max_range]

/-- `[al n arcs]`, `[mx n arcs]`, `[el n arcs]`: the `VGraph` the C09 handler runs the Tarjan
model on is the vertex-id view of the representation model built from the description. -/
theorem driver_vgraph_is_vview (d : GDesc) (hn : 1 ≤ d.order) (hrepr : (d.repr == "am") = false)
    (hverts : d.verts = List.range d.order) (hv : ArcsValid d.order d.arcs) :
    (∃ r, buildAL d = some r ∧ r.WF ∧ r.vview = H09.vgraphOf d) ∧
    (∃ r, buildEL d = some r ∧ r.WF ∧ r.vview = H09.vgraphOf d) ∧
    (d.order * d.order < 2 ^ 64 → ∃ r, buildMX d = some r ∧ r.WF ∧ r.vview = H09.vgraphOf d) := by
  have e := driver_vgraph_eq d hn hrepr hverts
  refine ⟨?_, ?_, ?_⟩
  · obtain ⟨r, hr, hw, ho, _, hview⟩ := driver_graph_is_view_al d hn hv
    refine ⟨r, hr, hw, ?_⟩
    rw [e, AdjList.vview_eq, hview]; simp only [AdjList.vertices, ho]
  · obtain ⟨r, hr, hw, ho, _, hview⟩ := driver_graph_is_view_el d hn hv
    refine ⟨r, hr, hw, ?_⟩
    rw [e, EdgeList.vview_eq, hview]; simp only [EdgeList.vertices, ho]
  · intro hf
    obtain ⟨r, hr, hw, ho, _, hview⟩ := driver_graph_is_view_mx d hn hf hv
    refine ⟨r, hr, hw, ?_⟩
    rw [e, AdjMatrix.vview_eq, hview]; simp only [AdjMatrix.vertices, ho]

end GraafVerif.Compose
