import GraafVerif.Model.Bfm
import GraafVerif.Spec.Bfm
/-!
# Proofs about the Bellman-Ford-Moore model (C07)

1. the four times unrolled loop is the plain left fold of `relax` (every length, every fuel
   that is large enough);
2. invariants of `relax` (finite entries are walk weights, entries only decrease);
3. the final scan makes every arc tight, hence exactness and `none` on a reachable negative
   circuit;
4. without a reachable negative circuit the scan cannot fire (round-count argument +
   cutting circuits out of walks).
-/
namespace GraafVerif.Bfm

/-! ## 1. Unrolling -/

theorem foldl_drop_step (arcs : List Arc) (i : Nat) (st : Dist × Bool) :
    (arcs.drop i).foldl relax st = (arcs.drop (i+1)).foldl relax (relaxAt arcs i st) := by
  unfold relaxAt
  by_cases h : i < arcs.length
  · rw [dif_pos h, List.drop_eq_getElem_cons h, List.foldl_cons]
  · rw [dif_neg h, List.drop_eq_nil_of_le (by omega), List.drop_eq_nil_of_le (by omega)]

/-- Fuel adequacy and unrolling in one: from position `i`, every fuel with
`arcs.length ≤ i + 4 * fuel` yields the left fold of `relax` over the remaining arcs. -/
theorem roundLoop_eq_foldl (arcs : List Arc) :
    ∀ (fuel i : Nat) (st : Dist × Bool), arcs.length ≤ i + 4 * fuel →
      roundLoop arcs fuel i st = (arcs.drop i).foldl relax st := by
  intro fuel
  induction fuel with
  | zero =>
    intro i st h
    rw [roundLoop, List.drop_eq_nil_of_le (by omega), List.foldl_nil]
  | succ fuel ih =>
    intro i st h
    rw [roundLoop]
    by_cases hi : i < arcs.length
    · rw [if_pos hi]
      simp only []
      rw [ih (i+1+1+1+1) _ (by omega)]
      rw [foldl_drop_step arcs i, foldl_drop_step arcs (i+1), foldl_drop_step arcs (i+1+1),
        foldl_drop_step arcs (i+1+1+1)]
    · rw [if_neg hi, List.drop_eq_nil_of_le (by omega), List.foldl_nil]

theorem round_eq_foldl (arcs : List Arc) (d : Dist) : round arcs d = arcs.foldl relax (d, false) := by
  rw [round, roundLoop_eq_foldl arcs arcs.length 0 _ (by omega), List.drop_zero]

/-! ## 2. Invariants of `relax` -/

theorem getD_eq_some {d : Dist} {v : Nat} {x : Int} :
    d[v]?.getD none = some x ↔ d[v]? = some (some x) := by
  cases h : d[v]? with
  | none => simp
  | some o => simp

theorem gtInf_false {o : Option Int} {w : Int} : gtInf o w = false ↔ ∃ dv, o = some dv ∧ dv ≤ w := by
  cases o with
  | none => simp [gtInf]
  | some dv => simp [gtInf]

theorem gtInf_some {dv w : Int} : gtInf (some dv) w = true ↔ w < dv := by simp [gtInf]

/-- `relax` either leaves the state alone or writes `du + w` at the head of the arc. -/
theorem relax_cases (st : Dist × Bool) (a : Arc) :
    relax st a = st ∨ ∃ du, st.1[a.1]? = some (some du) ∧
      gtInf (st.1[a.2.1]?.getD none) (du + a.2.2) = true ∧
      relax st a = (st.1.set a.2.1 (some (du + a.2.2)), true) := by
  unfold relax
  split
  · left; rfl
  · rename_i du hdu
    by_cases hg : gtInf (st.1[a.2.1]?.getD none) (du + a.2.2) = true
    · right; exact ⟨du, getD_eq_some.mp hdu, hg, by simp [hg]⟩
    · left; simp [hg]

/-- Entry `v` is finite and at most `c`. -/
def Bnd (d : Dist) (v : Nat) (c : Int) : Prop := ∃ x, d[v]? = some (some x) ∧ x ≤ c

theorem Bnd.mono {d : Dist} {v : Nat} {c c' : Int} (h : Bnd d v c) (hc : c ≤ c') : Bnd d v c' := by
  obtain ⟨x, hx, hxc⟩ := h
  exact ⟨x, hx, by omega⟩

/-- Entries only decrease. -/
theorem bnd_relax {st : Dist × Bool} {v : Nat} {c : Int} (a : Arc) (h : Bnd st.1 v c) :
    Bnd (relax st a).1 v c := by
  rcases relax_cases st a with h0 | ⟨du, _, hg, h1⟩
  · rw [h0]; exact h
  · rw [h1]
    obtain ⟨x, hx, hxc⟩ := h
    by_cases hv : a.2.1 = v
    · subst hv
      have hlt : a.2.1 < st.1.length := by
        rcases Nat.lt_or_ge a.2.1 st.1.length with h | h
        · exact h
        · rw [List.getElem?_eq_none h] at hx; cases hx
      rw [getD_eq_some.mpr hx, gtInf_some] at hg
      exact ⟨du + a.2.2, by simp [hlt], by omega⟩
    · exact ⟨x, by simpa [List.getElem?_set, hv] using hx, hxc⟩

theorem bnd_foldl {v : Nat} {c : Int} (arcs : List Arc) :
    ∀ (st : Dist × Bool), Bnd st.1 v c → Bnd (arcs.foldl relax st).1 v c := by
  induction arcs with
  | nil => intro st h; exact h
  | cons a rest ih => intro st h; exact ih _ (bnd_relax a h)

theorem length_relax (st : Dist × Bool) (a : Arc) : (relax st a).1.length = st.1.length := by
  rcases relax_cases st a with h0 | ⟨du, _, _, h1⟩
  · rw [h0]
  · rw [h1]; simp

theorem length_foldl (arcs : List Arc) : ∀ (st : Dist × Bool), (arcs.foldl relax st).1.length = st.1.length := by
  induction arcs with
  | nil => intro st; rfl
  | cons a rest ih => intro st; rw [List.foldl_cons, ih, length_relax]

/-- The invariant that makes every output meaningful: the source entry is finite and `≤ 0`,
every finite entry is the weight of some walk from `s`. -/
structure Inv (g : WGraph) (s : Nat) (d : Dist) : Prop where
  len : d.length = g.n
  src : Bnd d s 0
  walk : ∀ v x, d[v]? = some (some x) → ∃ k, WWalk g s v k x

theorem inv_init (g : WGraph) (s : Nat) (hs : s < g.n) : Inv g s (init g.n s) := by
  refine ⟨by simp [init], ⟨0, by simp [init, hs], by omega⟩, ?_⟩
  intro v x h
  by_cases hv : s = v
  · subst hv
    have : x = 0 := by simpa [init, List.getElem?_set, hs] using h.symm
    subst this
    exact ⟨0, WWalk.nil s⟩
  · simp [init, hv, List.getElem?_replicate] at h

theorem inv_relax {g : WGraph} {s : Nat} {st : Dist × Bool} {a : Arc}
    (h : Inv g s st.1) (ha : g.A a.1 a.2.1 a.2.2) : Inv g s (relax st a).1 := by
  refine ⟨by rw [length_relax, h.len], bnd_relax a h.src, ?_⟩
  rcases relax_cases st a with h0 | ⟨du, hdu, _, h1⟩
  · rw [h0]; exact h.walk
  · rw [h1]
    intro v x hx
    by_cases hv : a.2.1 = v
    · subst hv
      by_cases hlt : a.2.1 < st.1.length
      · have : x = du + a.2.2 := by simpa [List.getElem?_set, hlt] using hx.symm
        subst this
        obtain ⟨k, hk⟩ := h.walk _ _ hdu
        exact ⟨k+1, WWalk.snoc hk ha⟩
      · simp [hlt] at hx
    · exact h.walk v x (by simpa [List.getElem?_set, hv] using hx)

theorem inv_foldl {g : WGraph} {s : Nat} (arcs : List Arc) (hA : ∀ a ∈ arcs, g.A a.1 a.2.1 a.2.2) :
    ∀ (st : Dist × Bool), Inv g s st.1 → Inv g s (arcs.foldl relax st).1 := by
  induction arcs with
  | nil => intro st h; exact h
  | cons a rest ih =>
    intro st h
    exact ih (fun b hb => hA b (List.mem_cons_of_mem _ hb)) _ (inv_relax h (hA a List.mem_cons_self))

theorem inv_rounds {g : WGraph} {s : Nat} (arcs : List Arc) (hA : ∀ a ∈ arcs, g.A a.1 a.2.1 a.2.2) :
    ∀ (k : Nat) (d : Dist), Inv g s d → Inv g s (rounds arcs k d) := by
  intro k
  induction k with
  | zero => intro d h; exact h
  | succ k ih =>
    intro d h
    have hr : Inv g s (round arcs d).1 := by
      rw [round_eq_foldl]; exact inv_foldl arcs hA (d, false) h
    rw [rounds]
    by_cases hu : (round arcs d).2 = true
    · simp only [hu, if_true]; exact ih _ hr
    · simp only [hu]; exact hr

/-! ## 3. The final scan: every arc is tight -/

theorem finalScan_false {d : Dist} : ∀ {arcs : List Arc}, finalScan d arcs = false →
    ∀ a ∈ arcs, stillRelaxable d a = false := by
  intro arcs
  induction arcs with
  | nil => intro _ a ha; cases ha
  | cons b rest ih =>
    intro h a ha
    rw [finalScan] at h
    by_cases hb : stillRelaxable d b = true
    · simp [hb] at h
    · simp only [hb] at h
      rcases List.mem_cons.mp ha with rfl | ha
      · simpa using hb
      · exact ih h a ha

theorem finalScan_true {d : Dist} : ∀ {arcs : List Arc}, finalScan d arcs = true →
    ∃ a ∈ arcs, stillRelaxable d a = true := by
  intro arcs
  induction arcs with
  | nil => intro h; simp [finalScan] at h
  | cons b rest ih =>
    intro h
    rw [finalScan] at h
    by_cases hb : stillRelaxable d b = true
    · exact ⟨b, List.mem_cons_self, hb⟩
    · simp only [hb] at h
      obtain ⟨a, ha, h'⟩ := ih h
      exact ⟨a, List.mem_cons_of_mem _ ha, h'⟩

theorem not_relaxable_bnd {d : Dist} {a : Arc} {du : Int} (h : stillRelaxable d a = false)
    (hu : d[a.1]? = some (some du)) : Bnd d a.2.1 (du + a.2.2) := by
  unfold stillRelaxable at h
  rw [getD_eq_some.mpr hu] at h
  obtain ⟨dv, hdv, hle⟩ := gtInf_false.mp h
  exact ⟨dv, getD_eq_some.mp hdv, hle⟩

theorem bnd_not_relaxable {d : Dist} {a : Arc}
    (h : ∀ du, d[a.1]? = some (some du) → Bnd d a.2.1 (du + a.2.2)) : stillRelaxable d a = false := by
  unfold stillRelaxable
  split
  · rfl
  · rename_i du hdu
    obtain ⟨x, hx, hle⟩ := h du (getD_eq_some.mp hdu)
    exact gtInf_false.mpr ⟨x, getD_eq_some.mpr hx, hle⟩

/-- Every arc of `g` is tight under `d`. -/
def Tight (g : WGraph) (d : Dist) : Prop :=
  ∀ u v w du, g.A u v w → d[u]? = some (some du) → Bnd d v (du + w)

/-- Summing the tight inequalities along a walk. -/
theorem tight_walk {g : WGraph} {d : Dist} (ht : Tight g d) {u v k : Nat} {wt du : Int}
    (hw : WWalk g u v k wt) (hu : d[u]? = some (some du)) : Bnd d v (du + wt) := by
  induction hw with
  | nil => exact ⟨du, hu, by omega⟩
  | snoc _ ha ih =>
    obtain ⟨x, hx, hle⟩ := ih
    exact (ht _ _ _ x ha hx).mono (by omega)

/-! ### arcs of a graph -/

theorem mem_arcsOf {g : WGraph} {a : Arc} : a ∈ arcsOf g ↔ a.1 < g.n ∧ g.A a.1 a.2.1 a.2.2 := by
  obtain ⟨u, v, w⟩ := a
  simp only [arcsOf, List.mem_flatMap, List.mem_range, List.mem_map, WGraph.A]
  constructor
  · rintro ⟨u', hu', ⟨v', w'⟩, hm, heq⟩
    simp only [Prod.mk.injEq] at heq
    obtain ⟨rfl, rfl, rfl⟩ := heq
    exact ⟨hu', hm⟩
  · rintro ⟨hu, hm⟩
    exact ⟨u, hu, (v, w), hm, rfl⟩

theorem tight_of_scan {g : WGraph} (hwf : g.WF) {d : Dist} (h : finalScan d (arcsOf g) = false) :
    Tight g d := by
  intro u v w du ha hu
  have hmem : ((u, v, w) : Arc) ∈ arcsOf g := mem_arcsOf.mpr ⟨(hwf u v w ha).1, ha⟩
  exact not_relaxable_bnd (finalScan_false h _ hmem) hu

/-- What `distances` returns when it returns `Some`. -/
theorem distances_some {g : WGraph} {s : Nat} {d : Dist} (h : distances g s = .ret (some d)) :
    s < g.n ∧ d = rounds (arcsOf g) (g.n - 1) (init g.n s) ∧ finalScan d (arcsOf g) = false := by
  unfold distances distancesArcs at h
  by_cases hs : s < g.n
  · simp only [hs, if_true] at h
    by_cases hf : finalScan (rounds (arcsOf g) (g.n - 1) (init g.n s)) (arcsOf g) = true
    · simp [hf] at h
    · simp only [hf] at h
      have : rounds (arcsOf g) (g.n - 1) (init g.n s) = d := by simpa using h
      subst this
      exact ⟨hs, rfl, by simpa using hf⟩
  · simp [hs] at h

theorem inv_result (g : WGraph) (s : Nat) (hs : s < g.n) :
    Inv g s (rounds (arcsOf g) (g.n - 1) (init g.n s)) :=
  inv_rounds (arcsOf g) (fun _ ha => (mem_arcsOf.mp ha).2) _ _ (inv_init g s hs)

/-- **Exactness of a `Some` result.** -/
theorem some_exact {g : WGraph} (hwf : g.WF) {s : Nat} {d : Dist} (h : distances g s = .ret (some d)) :
    d.length = g.n ∧
    (∀ v x, d[v]? = some (some x) → IsMinDist g [s] v x) ∧
    (∀ v, d[v]? = some none → ¬ WReachFrom g [s] v) := by
  obtain ⟨hs, hd, hscan⟩ := distances_some h
  have hinv : Inv g s d := hd ▸ inv_result g s hs
  have ht : Tight g d := tight_of_scan hwf hscan
  obtain ⟨x0, hx0, hle0⟩ := hinv.src
  -- every walk from `s` bounds the entry of its end vertex
  have key : ∀ v k wt, WWalk g s v k wt → Bnd d v wt := fun v k wt hw =>
    (tight_walk ht hw hx0).mono (by omega)
  refine ⟨hinv.len, ?_, ?_⟩
  · intro v x hx
    refine ⟨⟨s, List.mem_singleton_self s, hinv.walk v x hx⟩, ?_⟩
    intro s' hs' k wt hw
    rw [List.mem_singleton.mp hs'] at hw
    obtain ⟨y, hy, hle⟩ := key v k wt hw
    rw [hx] at hy
    have : x = y := by simpa using hy
    omega
  · rintro v hv ⟨s', hs', k, wt, hw⟩
    rw [List.mem_singleton.mp hs'] at hw
    obtain ⟨y, hy, _⟩ := key v k wt hw
    rw [hv] at hy
    simp at hy

/-- **A reachable negative circuit forces `None`.** -/
theorem negcycle_none {g : WGraph} (hwf : g.WF) {s : Nat} (hs : s < g.n) {x : Nat}
    (hreach : WReachFrom g [s] x) (hneg : NegCycleAt g x) : distances g s = .ret none := by
  cases hres : distances g s with
  | panic => simp [distances, distancesArcs, hs] at hres; split at hres <;> cases hres
  | ret o =>
    cases o with
    | none => rfl
    | some d =>
      exfalso
      obtain ⟨_, hd, hscan⟩ := distances_some hres
      have hinv : Inv g s d := hd ▸ inv_result g s hs
      have ht : Tight g d := tight_of_scan hwf hscan
      obtain ⟨x0, hx0, hle0⟩ := hinv.src
      obtain ⟨s', hs', k, wt, hw⟩ := hreach
      rw [List.mem_singleton.mp hs'] at hw
      obtain ⟨dx, hdx, _⟩ := tight_walk ht hw hx0
      obtain ⟨kc, wc, _, hcyc, hwc⟩ := hneg
      obtain ⟨dx', hdx', hle⟩ := tight_walk ht hcyc hdx
      rw [hdx] at hdx'
      have : dx = dx' := by simpa using hdx'
      omega

/-! ## 4. Without a reachable negative circuit the scan cannot fire -/

/-! ### 4a. the `updated` flag -/

theorem relax_flag_mono (st : Dist × Bool) (a : Arc) (h : st.2 = true) : (relax st a).2 = true := by
  rcases relax_cases st a with h0 | ⟨_, _, _, h1⟩
  · rw [h0]; exact h
  · rw [h1]

theorem foldl_flag_mono (arcs : List Arc) : ∀ (st : Dist × Bool), st.2 = true →
    (arcs.foldl relax st).2 = true := by
  induction arcs with
  | nil => intro st h; exact h
  | cons a rest ih => intro st h; exact ih _ (relax_flag_mono st a h)

/-- A block that does not raise the flag did nothing, and its arc was not relaxable. -/
theorem relax_noupdate (st : Dist × Bool) (a : Arc) (h : (relax st a).2 = false) :
    relax st a = st ∧ stillRelaxable st.1 a = false := by
  unfold stillRelaxable
  cases hdu : st.1[a.1]?.getD none with
  | none => simp [relax, hdu]
  | some du =>
    by_cases hg : gtInf (st.1[a.2.1]?.getD none) (du + a.2.2) = true
    · simp [relax, hdu, hg] at h
    · simp [relax, hdu, hg]

/-- A pass that ends with `updated == false` changed nothing and met no relaxable arc: the
early exit happens at a fixpoint. -/
theorem foldl_noupdate (arcs : List Arc) : ∀ (st : Dist × Bool),
    (arcs.foldl relax st).2 = false →
    arcs.foldl relax st = st ∧ ∀ a ∈ arcs, stillRelaxable st.1 a = false := by
  induction arcs with
  | nil => intro st _; exact ⟨rfl, fun a ha => by cases ha⟩
  | cons b rest ih =>
    intro st h
    rw [List.foldl_cons] at h ⊢
    have hb : (relax st b).2 = false := by
      cases hf : (relax st b).2 with
      | false => rfl
      | true => rw [foldl_flag_mono rest _ hf] at h; cases h
    obtain ⟨heq, hnr⟩ := relax_noupdate st b hb
    rw [heq] at h ⊢
    obtain ⟨h1, h2⟩ := ih st h
    refine ⟨h1, fun a ha => ?_⟩
    rcases List.mem_cons.mp ha with rfl | ha
    · exact hnr
    · exact h2 a ha

/-! ### 4b. one pass extends the covered walk length by one -/

theorem relax_bound {st : Dist × Bool} {a : Arc} {c : Int} (hv : a.2.1 < st.1.length)
    (hu : Bnd st.1 a.1 c) : Bnd (relax st a).1 a.2.1 (c + a.2.2) := by
  obtain ⟨du, hdu, hle⟩ := hu
  unfold relax
  rw [getD_eq_some.mpr hdu]
  by_cases hg : gtInf (st.1[a.2.1]?.getD none) (du + a.2.2) = true
  · simp only [hg, if_true]
    exact ⟨du + a.2.2, by simp [hv], by omega⟩
  · simp only [hg]
    obtain ⟨dv, hdv, hle'⟩ := gtInf_false.mp (by simpa using hg)
    exact ⟨dv, getD_eq_some.mp hdv, by omega⟩

theorem foldl_arc_bound {a : Arc} {c : Int} (arcs : List Arc) : ∀ (st : Dist × Bool),
    a ∈ arcs → a.2.1 < st.1.length → Bnd st.1 a.1 c →
    Bnd (arcs.foldl relax st).1 a.2.1 (c + a.2.2) := by
  induction arcs with
  | nil => intro st ha; cases ha
  | cons b rest ih =>
    intro st ha hv hu
    rw [List.foldl_cons]
    rcases List.mem_cons.mp ha with rfl | ha
    · exact bnd_foldl rest _ (relax_bound hv hu)
    · exact ih _ ha (by rw [length_relax]; exact hv) (bnd_relax b hu)

theorem wwalk_inv {g : WGraph} {s v k : Nat} {wt : Int} (h : WWalk g s v k wt) :
    (k = 0 ∧ v = s ∧ wt = 0) ∨
    ∃ u k' wt' w, k = k' + 1 ∧ wt = wt' + w ∧ WWalk g s u k' wt' ∧ g.A u v w := by
  cases h with
  | nil => left; exact ⟨rfl, rfl, rfl⟩
  | snoc h a => right; exact ⟨_, _, _, _, rfl, rfl, h, a⟩

/-- Every walk from `s` with at most `j` arcs bounds the entry of its end vertex. -/
def Cov (g : WGraph) (s : Nat) (d : Dist) (j : Nat) : Prop :=
  ∀ v k wt, k ≤ j → WWalk g s v k wt → Bnd d v wt

theorem cov_pass {g : WGraph} (hwf : g.WF) {s : Nat} {d : Dist} {j : Nat} (b : Bool)
    (hlen : d.length = g.n) (hc : Cov g s d j) :
    Cov g s ((arcsOf g).foldl relax (d, b)).1 (j+1) := by
  intro v k wt hk hw
  rcases wwalk_inv hw with ⟨rfl, rfl, rfl⟩ | ⟨u, k', wt', w, rfl, rfl, hw', ha⟩
  · exact bnd_foldl _ (d, b) (hc _ 0 0 (by omega) (WWalk.nil _))
  · have hu : Bnd d u wt' := hc u k' wt' (by omega) hw'
    have hmem : ((u, v, w) : Arc) ∈ arcsOf g := mem_arcsOf.mpr ⟨(hwf u v w ha).1, ha⟩
    exact foldl_arc_bound (a := (u, v, w)) (arcsOf g) (d, b) hmem
      (by show v < d.length; rw [hlen]; exact (hwf u v w ha).2) hu

/-- The outer loop: it stops at a fixpoint (early exit) or has covered `k` more arcs. -/
theorem rounds_result {g : WGraph} (hwf : g.WF) {s : Nat} :
    ∀ (k : Nat) (d : Dist) (j : Nat), d.length = g.n → Cov g s d j →
      (∀ a ∈ arcsOf g, stillRelaxable (rounds (arcsOf g) k d) a = false) ∨
      Cov g s (rounds (arcsOf g) k d) (j + k) := by
  intro k
  induction k with
  | zero => intro d j _ hc; right; exact hc
  | succ k ih =>
    intro d j hlen hc
    rw [rounds]
    have hr := round_eq_foldl (arcsOf g) d
    cases hu : (round (arcsOf g) d).2 with
    | false =>
      left
      simp only [Bool.false_eq_true, if_false]
      rw [hr] at hu ⊢
      obtain ⟨heq, hnr⟩ := foldl_noupdate (arcsOf g) (d, false) hu
      rw [heq]
      exact hnr
    | true =>
      simp only [if_true]
      have hc' : Cov g s (round (arcsOf g) d).1 (j+1) := by
        rw [hr]; exact cov_pass hwf false hlen hc
      have hlen' : (round (arcsOf g) d).1.length = g.n := by
        rw [hr, length_foldl]; exact hlen
      have := ih _ (j+1) hlen' hc'
      rwa [show j + 1 + k = j + (k + 1) by omega] at this

/-! ### 4c. cutting circuits out of walks -/

/-- A walk together with the list of the vertices it visits (start and end included). -/
inductive WWalkL (g : WGraph) : Nat → Nat → List Nat → Int → Prop
  | nil (u) : WWalkL g u u [u] 0
  | snoc {u v x l wt w} : WWalkL g u v l wt → g.A v x w → WWalkL g u x (l ++ [x]) (wt + w)

theorem WWalkL.toWWalk {g : WGraph} {u v : Nat} {l : List Nat} {wt : Int} (h : WWalkL g u v l wt) :
    ∃ k, l.length = k + 1 ∧ WWalk g u v k wt := by
  induction h with
  | nil => exact ⟨0, rfl, WWalk.nil u⟩
  | snoc _ ha ih =>
    obtain ⟨k, hk, hw⟩ := ih
    exact ⟨k+1, by simp [hk], WWalk.snoc hw ha⟩

theorem WWalkL.mem_lt {g : WGraph} (hwf : g.WF) {u v : Nat} {l : List Nat} {wt : Int}
    (h : WWalkL g u v l wt) (hu : u < g.n) : ∀ x ∈ l, x < g.n := by
  induction h with
  | nil => intro x hx; rw [List.mem_singleton.mp hx]; exact hu
  | snoc _ ha ih =>
    intro y hy
    rcases List.mem_append.mp hy with hy | hy
    · exact ih y hy
    · rw [List.mem_singleton.mp hy]; exact (hwf _ _ _ ha).2

/-- Cut a vertex-listed walk at a vertex it visits. -/
theorem WWalkL.split {g : WGraph} {u v : Nat} {l : List Nat} {wt : Int} (h : WWalkL g u v l wt)
    {x : Nat} (hx : x ∈ l) :
    ∃ l1 wt1 k2 wt2, WWalkL g u x l1 wt1 ∧ l1 <+: l ∧ WWalk g x v k2 wt2 ∧ wt = wt1 + wt2 := by
  induction h with
  | nil =>
    rw [List.mem_singleton.mp hx]
    exact ⟨[u], 0, 0, 0, WWalkL.nil u, List.prefix_refl _, WWalk.nil u, by omega⟩
  | @snoc v y l wt w hw ha ih =>
    by_cases hxl : x ∈ l
    · obtain ⟨l1, wt1, k2, wt2, h1, hp, h2, he⟩ := ih hxl
      exact ⟨l1, wt1, k2+1, wt2 + w, h1, hp.trans (List.prefix_append _ _), WWalk.snoc h2 ha, by omega⟩
    · have hxy : x = y := by
        rcases List.mem_append.mp hx with h | h
        · exact absurd h hxl
        · exact List.mem_singleton.mp h
      subst hxy
      exact ⟨l ++ [x], wt + w, 0, 0, WWalkL.snoc hw ha, List.prefix_refl _, WWalk.nil x, by omega⟩

/-- No negative circuit through a vertex that `s` reaches. -/
def NoNegReach (g : WGraph) (s : Nat) : Prop := ∀ x, WReachFrom g [s] x → ¬ NegCycleAt g x

/-- Every walk from `s` dominates a walk to the same vertex that repeats no vertex. -/
theorem simple_walk {g : WGraph} {s : Nat} (hnn : NoNegReach g s) {v k : Nat} {wt : Int}
    (hw : WWalk g s v k wt) : ∃ l wt', WWalkL g s v l wt' ∧ l.Nodup ∧ wt' ≤ wt := by
  induction hw with
  | nil => exact ⟨[s], 0, WWalkL.nil s, by simp, by omega⟩
  | @snoc v x k wt w _ ha ih =>
    obtain ⟨l, wt', hl, hnd, hle⟩ := ih
    by_cases hx : x ∈ l
    · obtain ⟨l1, wt1, k2, wt2, h1, hp, h2, he⟩ := hl.split hx
      have hreach : WReachFrom g [s] x := by
        obtain ⟨k1, _, hw1⟩ := h1.toWWalk
        exact ⟨s, List.mem_singleton_self s, k1, wt1, hw1⟩
      have hcyc : ¬ (wt2 + w < 0) := fun hlt =>
        hnn x hreach ⟨k2+1, wt2 + w, by omega, WWalk.snoc h2 ha, hlt⟩
      exact ⟨l1, wt1, h1, hp.sublist.nodup hnd, by omega⟩
    · refine ⟨l ++ [x], wt' + w, WWalkL.snoc hl ha, ?_, by omega⟩
      rw [List.nodup_append]
      refine ⟨hnd, by simp, ?_⟩
      intro a ha' b hb
      rw [List.mem_singleton.mp hb]
      intro hab
      exact hx (hab ▸ ha')

/-- … hence a walk with at most `n - 1` arcs. -/
theorem short_walk {g : WGraph} (hwf : g.WF) {s : Nat} (hs : s < g.n) (hnn : NoNegReach g s)
    {v k : Nat} {wt : Int} (hw : WWalk g s v k wt) :
    ∃ k' wt', k' + 1 ≤ g.n ∧ wt' ≤ wt ∧ WWalk g s v k' wt' := by
  obtain ⟨l, wt', hl, hnd, hle⟩ := simple_walk hnn hw
  obtain ⟨k', hk', hw'⟩ := hl.toWWalk
  refine ⟨k', wt', ?_, hle, hw'⟩
  have hsub : l ⊆ List.range g.n := fun x hx => List.mem_range.mpr (hl.mem_lt hwf hs x hx)
  have := hnd.length_le_of_subset hsub
  rw [List.length_range] at this
  omega

/-! ### 4d. assembly -/

theorem cov_init (g : WGraph) (s : Nat) (hs : s < g.n) : Cov g s (init g.n s) 0 := by
  intro v k wt hk hw
  cases hw with
  | nil => exact (inv_init g s hs).src
  | snoc _ _ => omega

/-- **No negative circuit reachable from `s` ⇒ `Some`.** -/
theorem no_negcycle_some {g : WGraph} (hwf : g.WF) {s : Nat} (hs : s < g.n) (hnn : NoNegReach g s) :
    ∃ d, distances g s = .ret (some d) := by
  have hinv := inv_result g s hs
  have hall : ∀ a ∈ arcsOf g,
      stillRelaxable (rounds (arcsOf g) (g.n - 1) (init g.n s)) a = false := by
    rcases rounds_result hwf (g.n - 1) (init g.n s) 0 (inv_init g s hs).len (cov_init g s hs) with h | hcov
    · exact h
    · intro a ha
      apply bnd_not_relaxable
      intro du hdu
      obtain ⟨k, hk⟩ := hinv.walk _ _ hdu
      have hw := WWalk.snoc hk (mem_arcsOf.mp ha).2
      obtain ⟨k', wt', hk', hle, hw'⟩ := short_walk hwf hs hnn hw
      exact (hcov _ k' wt' (by omega) hw').mono hle
  have hscan : finalScan (rounds (arcsOf g) (g.n - 1) (init g.n s)) (arcsOf g) = false := by
    cases hf : finalScan (rounds (arcsOf g) (g.n - 1) (init g.n s)) (arcsOf g) with
    | false => rfl
    | true =>
      obtain ⟨a, ha, hr⟩ := finalScan_true hf
      rw [hall a ha] at hr; cases hr
  exact ⟨rounds (arcsOf g) (g.n - 1) (init g.n s), by simp [distances, distancesArcs, hs, hscan]⟩

/-! ## 5. Non-negative weights, uniqueness of exact vectors -/

theorem nonneg_walk {g : WGraph} (hnn : g.NonNeg) {u v k : Nat} {wt : Int} (hw : WWalk g u v k wt) :
    0 ≤ wt := by
  induction hw with
  | nil => omega
  | snoc _ ha ih => have := hnn _ _ _ ha; omega

theorem nonneg_noNegReach {g : WGraph} (hnn : g.NonNeg) (s : Nat) : NoNegReach g s := by
  rintro x _ ⟨k, wt, _, hw, hlt⟩
  have := nonneg_walk hnn hw
  omega

theorem isMinDist_unique {g : WGraph} {S : List Nat} {v : Nat} {x y : Int}
    (hx : IsMinDist g S v x) (hy : IsMinDist g S v y) : x = y := by
  obtain ⟨⟨s1, hs1, k1, hw1⟩, hmin1⟩ := hx
  obtain ⟨⟨s2, hs2, k2, hw2⟩, hmin2⟩ := hy
  have := hmin1 s2 hs2 k2 y hw2
  have := hmin2 s1 hs1 k1 x hw1
  omega

theorem exact_inf_iff {g : WGraph} {s : Nat} {d : Dist} (h : Exact g s d) {v : Nat} (hv : v < g.n) :
    d[v]? = some none ↔ ¬ WReachFrom g [s] v := by
  obtain ⟨hlen, hfin, hinf⟩ := h
  refine ⟨hinf v, fun hnr => ?_⟩
  have hlt : v < d.length := by omega
  cases hx : d[v]'hlt with
  | none => rw [List.getElem?_eq_getElem hlt, hx]
  | some x =>
    exfalso
    obtain ⟨⟨s', hs', k, hw⟩, _⟩ := hfin v x (by rw [List.getElem?_eq_getElem hlt, hx])
    exact hnr ⟨s', hs', k, x, hw⟩

theorem exact_unique {g : WGraph} {s : Nat} {d d' : Dist} (h : Exact g s d) (h' : Exact g s d') :
    d = d' := by
  have key : ∀ (a b : Dist), Exact g s a → Exact g s b → ∀ (v : Nat) (x : Int), a[v]? = some (some x) → b[v]? = some (some x) := by
    intro a b ha hb v x hx
    have hmin := ha.2.1 v x hx
    have hv : v < b.length := by
      rw [hb.1, ← ha.1]
      rcases Nat.lt_or_ge v a.length with h | h
      · exact h
      · rw [List.getElem?_eq_none h] at hx; cases hx
    cases hy : b[v]'hv with
    | none =>
      exfalso
      obtain ⟨⟨s', hs', k, hw⟩, _⟩ := hmin
      exact hb.2.2 v (by rw [List.getElem?_eq_getElem hv, hy]) ⟨s', hs', k, x, hw⟩
    | some y =>
      have hy' : b[v]? = some (some y) := by rw [List.getElem?_eq_getElem hv, hy]
      rw [hy', isMinDist_unique hmin (hb.2.1 v y hy')]
  apply List.ext_getElem?
  intro v
  cases hv : d[v]? with
  | none =>
    have : d.length ≤ v := List.getElem?_eq_none_iff.mp hv
    exact (List.getElem?_eq_none (by rw [h'.1, ← h.1]; exact this)).symm
  | some o =>
    cases o with
    | some x => exact (key d d' h h' v x hv).symm
    | none =>
      have hlt : v < d'.length := by
        rw [h'.1, ← h.1]
        rcases Nat.lt_or_ge v d.length with h | h
        · exact h
        · rw [List.getElem?_eq_none h] at hv; cases hv
      cases hy : d'[v]'hlt with
      | none => rw [List.getElem?_eq_getElem hlt, hy]
      | some y =>
        have := key d' d h' h v y (by rw [List.getElem?_eq_getElem hlt, hy])
        rw [hv] at this; cases this

theorem panic_iff (g : WGraph) (s : Nat) : distances g s = .panic ↔ ¬ s < g.n := by
  unfold distances distancesArcs
  by_cases hs : s < g.n
  · simp only [hs, if_true, not_true_eq_false, iff_false]
    split <;> simp
  · simp [hs]

end GraafVerif.Bfm
