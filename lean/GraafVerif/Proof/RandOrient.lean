import GraafVerif.Proof.RandRows
import GraafVerif.Proof.Par
/-! Orientations of the pair list: the arcs-level core of `tournament_valid`. -/
namespace GraafVerif.Rand

/-- `arcs` decides every element of `ps` one way or the other, position by position. -/
inductive Orients : List (Nat × Nat) → List (Nat × Nat) → Prop
  | nil : Orients [] []
  | cons {a p : Nat × Nat} {as ps : List (Nat × Nat)} :
      (a = p ∨ a = (p.2, p.1)) → Orients as ps → Orients (a :: as) (p :: ps)

theorem orients_zipIdx_orient (s : Stream) (ps : List (Nat × Nat)) (k : Nat) :
    Orients ((ps.zipIdx k).map (orient s)) ps := by
  induction ps generalizing k with
  | nil => exact Orients.nil
  | cons p ps ih =>
    simp only [List.zipIdx_cons, List.map_cons]
    refine Orients.cons ?_ (ih (k+1))
    unfold orient
    split <;> simp

theorem Orients.append {a₁ p₁ a₂ p₂ : List (Nat × Nat)} (h₁ : Orients a₁ p₁) (h₂ : Orients a₂ p₂) :
    Orients (a₁ ++ a₂) (p₁ ++ p₂) := by
  induction h₁ with
  | nil => exact h₂
  | cons h _ ih => exact Orients.cons h ih

theorem Orients.flatMap {α : Type} (l : List α) (f g : α → List (Nat × Nat))
    (h : ∀ x ∈ l, Orients (f x) (g x)) : Orients (l.flatMap f) (l.flatMap g) := by
  induction l with
  | nil => exact Orients.nil
  | cons x xs ih =>
    simp only [List.flatMap_cons]
    exact (h x (by simp)).append (ih fun y hy => h y (List.mem_cons_of_mem _ hy))

theorem Orients.mem_or {arcs ps : List (Nat × Nat)} (h : Orients arcs ps) (x : Nat × Nat) (hx : x ∈ arcs) :
    x ∈ ps ∨ (x.2, x.1) ∈ ps := by
  induction h with
  | nil => simp at hx
  | cons hd _ ih =>
    rcases List.mem_cons.1 hx with rfl | hx
    · rcases hd with rfl | rfl
      · left; simp
      · right; simp
    · rcases ih hx with h | h
      · left; exact List.mem_cons_of_mem _ h
      · right; exact List.mem_cons_of_mem _ h

/-- Every pair of an ascending, duplicate-free pair list is decided exactly one way. -/
theorem Orients.exactly_one {arcs ps : List (Nat × Nat)} (h : Orients arcs ps)
    (hnd : ps.Nodup) (hlt : ∀ p ∈ ps, p.1 < p.2) :
    ∀ p ∈ ps, (p ∈ arcs ∧ (p.2, p.1) ∉ arcs) ∨ ((p.2, p.1) ∈ arcs ∧ p ∉ arcs) := by
  induction h with
  | nil => intro p hp; simp at hp
  | @cons a q as qs hd htl ih =>
    have hnd' := (List.nodup_cons.1 hnd)
    have hlt' : ∀ p ∈ qs, p.1 < p.2 := fun p hp => hlt p (List.mem_cons_of_mem _ hp)
    have hq := hlt q (by simp)
    -- nothing in the tail mentions `q` in either direction
    have tail_q : q ∉ as ∧ (q.2, q.1) ∉ as := by
      constructor
      · intro hm
        rcases htl.mem_or q hm with h | h
        · exact hnd'.1 h
        · have := hlt' _ h; simp at this; omega
      · intro hm
        rcases htl.mem_or _ hm with h | h
        · have := hlt' _ h; simp at this; omega
        · exact hnd'.1 h
    intro p hp
    rcases List.mem_cons.1 hp with rfl | hp
    · rcases hd with rfl | rfl
      · left; refine ⟨by simp, ?_⟩
        simp only [List.mem_cons, not_or]; refine ⟨?_, tail_q.2⟩
        intro e; have := congrArg Prod.fst e; simp at this; omega
      · right; refine ⟨by simp, ?_⟩
        simp only [List.mem_cons, not_or]; refine ⟨?_, tail_q.1⟩
        intro e; have := congrArg Prod.fst e; simp at this; omega
    · have hpq : p ≠ q := fun e => hnd'.1 (e ▸ hp)
      have hp12 := hlt' p hp
      have hne1 : p ≠ a := by
        rcases hd with rfl | rfl
        · exact hpq
        · intro e; rw [e] at hp12; simp at hp12; omega
      have hne2 : (p.2, p.1) ≠ a := by
        rcases hd with rfl | rfl
        · intro e; rw [← e] at hq; simp at hq; omega
        · intro e; apply hpq; ext
          · exact (congrArg Prod.snd e)
          · exact (congrArg Prod.fst e)
      rcases ih hnd'.2 hlt' p hp with h | h
      · left; exact ⟨List.mem_cons_of_mem _ h.1, by simp [h.2, hne2]⟩
      · right; exact ⟨List.mem_cons_of_mem _ h.1, by simp [h.2, hne1]⟩

end GraafVerif.Rand
