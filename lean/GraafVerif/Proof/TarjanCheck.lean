import GraafVerif.Spec.Tarjan
/-!
# Soundness of the executable SCC-partition checker

`sccCheck g cs = true → IsSCCPartition g cs`.

* every member of a `closure` row is reachable from the row's vertex (invariant of the worklist);
* a row that contains its vertex and is closed under out-neighbours contains everything
  reachable (`closedB` is evaluated at run time, so no fuel argument is needed for soundness);
* hence `reachB u v` decides `Reach u v` for vertices, and the all-pairs comparison is the
  defining clause of `IsSCCPartition`.
-/
namespace GraafVerif.Tarjan
open GraafVerif

theorem vreach_step {g : VGraph} {u v w : Nat} (h : VReach g u v) (a : w ∈ g.out v) : VReach g u w :=
  Reach.step h a

theorem vreach_trans {g : VGraph} {u v w : Nat} (h₁ : VReach g u v) (h₂ : VReach g v w) : VReach g u w := by
  induction h₂ with
  | refl => exact h₁
  | step _ a ih => exact Reach.step ih a

theorem closure_sound (g : VGraph) (u : Nat) :
    ∀ (fuel : Nat) (todo seen : List Nat), (∀ x ∈ todo, VReach g u x) → (∀ x ∈ seen, VReach g u x) →
      ∀ x ∈ closure g fuel todo seen, VReach g u x := by
  intro fuel
  induction fuel with
  | zero => intro todo seen _ hs x hx; simp [closure] at hx; exact hs x hx
  | succ fuel ih =>
    intro todo seen ht hs x hx
    cases todo with
    | nil => simp [closure] at hx; exact hs x hx
    | cons y todo =>
      simp only [closure] at hx
      split at hx
      · exact ih todo seen (fun z hz => ht z (List.mem_cons_of_mem _ hz)) hs x hx
      · have hy : VReach g u y := ht y List.mem_cons_self
        refine ih (g.out y ++ todo) (y :: seen) ?_ ?_ x hx
        · intro z hz
          rcases List.mem_append.mp hz with hz | hz
          · exact vreach_step hy hz
          · exact ht z (List.mem_cons_of_mem _ hz)
        · intro z hz
          rcases List.mem_cons.mp hz with rfl | hz
          · exact hy
          · exact hs z hz

theorem reachOf_sound (g : VGraph) (u x : Nat) (h : x ∈ reachOf g u) : VReach g u x :=
  closure_sound g u _ [u] [] (by intro z hz; simp at hz; subst hz; exact Reach.refl _) (by simp) x h

theorem closed_complete (g : VGraph) (S : List Nat) (hc : closedB g S = true) (u v : Nat)
    (hu : u ∈ S) (h : VReach g u v) : v ∈ S := by
  induction h with
  | refl => exact hu
  | step _ a ih =>
    simp only [closedB, List.all_eq_true] at hc
    have := hc _ ih _ a
    simpa using this

theorem lookup_table (f : Nat → List Nat) (vs : List Nat) (u : Nat) (hu : u ∈ vs) :
    (vs.map (fun u => (u, f u))).lookup u = some (f u) := by
  induction vs with
  | nil => simp at hu
  | cons w vs ih =>
    simp only [List.map_cons, List.lookup_cons]
    by_cases h : u = w
    · subst h; simp
    · have : (u == w) = false := by simp [h]
      rw [this]
      exact ih (by simpa [h] using hu)

theorem disjointB_sound : ∀ cs, disjointB cs = true → cs.Pairwise (fun c d => ∀ x ∈ c, x ∉ d) := by
  intro cs
  induction cs with
  | nil => intro _; exact List.Pairwise.nil
  | cons c cs ih =>
    intro h
    simp only [disjointB, Bool.and_eq_true, List.all_eq_true] at h
    refine List.Pairwise.cons ?_ (ih h.2)
    intro d hd x hx
    have := h.1 d hd x hx
    simpa using this

theorem nodupB_sound : ∀ c, nodupB c = true → c.Nodup := by
  intro c
  induction c with
  | nil => intro _; exact List.nodup_nil
  | cons x xs ih =>
    intro h
    simp only [nodupB, Bool.and_eq_true] at h
    refine List.nodup_cons.mpr ⟨?_, ih h.2⟩
    simpa using h.1

theorem sameBlock_iff (cs : List (List Nat)) (u v : Nat) :
    sameBlock cs u v = true ↔ ∃ c ∈ cs, u ∈ c ∧ v ∈ c := by
  simp [sameBlock]

/-- The verified checker: whatever it accepts is the partition into strongly connected components. -/
theorem sccCheck_sound (g : VGraph) (cs : List (List Nat)) (h : sccCheck g cs = true) :
    IsSCCPartition g cs := by
  simp only [sccCheck, Bool.and_eq_true] at h
  obtain ⟨⟨⟨⟨⟨⟨hne, hnd⟩, hdj⟩, hsub⟩, hcov⟩, htab⟩, hsame⟩ := h
  -- exactness of the table rows
  have hrow : ∀ u ∈ g.verts, u ∈ reachOf g u ∧ closedB g (reachOf g u) = true := by
    intro u hu
    have := (List.all_eq_true.mp htab) (u, reachOf g u) (List.mem_map.mpr ⟨u, hu, rfl⟩)
    simpa using this
  have hexact : ∀ u ∈ g.verts, ∀ v, v ∈ reachOf g u ↔ VReach g u v := by
    intro u hu v
    exact ⟨reachOf_sound g u v, closed_complete g _ (hrow u hu).2 u v (hrow u hu).1⟩
  refine ⟨?_, disjointB_sound cs hdj, ?_, ?_, ?_⟩
  · intro c hc
    have := (List.all_eq_true.mp hne) c hc
    intro hnil; subst hnil; simp at this
  · intro c hc
    exact nodupB_sound c ((List.all_eq_true.mp hnd) c hc)
  · intro v
    constructor
    · intro hv
      have := (List.all_eq_true.mp hcov) v hv
      simpa using this
    · rintro ⟨c, hc, hvc⟩
      have := (List.all_eq_true.mp ((List.all_eq_true.mp hsub) c hc)) v hvc
      simpa using this
  · intro u hu v hv
    have := (List.all_eq_true.mp ((List.all_eq_true.mp hsame) u hu)) v hv
    rw [lookup_table (reachOf g) g.verts u hu, lookup_table (reachOf g) g.verts v hv] at this
    simp only [Option.getD_some, beq_iff_eq] at this
    rw [← sameBlock_iff, this]
    simp only [Bool.and_eq_true, List.contains_eq_mem, decide_eq_true_eq]
    rw [hexact u hu v, hexact v hv u]

end GraafVerif.Tarjan
