import GraafVerif.Proof.DijkstraInv
/-!
# Rounds of `run`, the initial state, whole runs and fuel adequacy
-/
namespace GraafVerif.Dijkstra
open GraafVerif

variable {g : WGraph} {S : List Nat} {tag : Nat → Option Nat}

/-- Between two rounds every walk from a source either meets the emitted set with a key not above
its weight or is "cut" by a heap entry whose key is not above its weight. -/
theorem frontier (hnn : g.NonNeg) {out : List Entry} {st : State} (inv : Inv g S tag out [] st) :
    ∀ {s y k wt}, WWalk g s y k wt → s ∈ S →
      (∃ e ∈ st.heap, e.d ≤ wt) ∨ (∃ e ∈ out, e.v = y ∧ e.d ≤ wt) := by
  intro s y k wt hw
  induction hw with
  | nil =>
    intro hs
    have h0 := inv.src s hs
    by_cases hm : s ∈ out.map (·.v)
    · obtain ⟨e, he, hev⟩ := List.mem_map.mp hm
      have hev : e.v = s := hev
      have h1 := inv.final e he
      rw [hev, h0] at h1
      injection h1 with h1
      exact Or.inr ⟨e, he, hev, by omega⟩
    · obtain ⟨e, he, _, hd⟩ := inv.fresh s 0 h0 hm
      exact Or.inl ⟨e, he, by omega⟩
  | @snoc v x k wt w _ ha ih =>
    intro hs
    have hw0 : 0 ≤ w := hnn _ _ _ ha
    rcases ih hs with ⟨e, he, hle⟩ | ⟨e, he, hev, hle⟩
    · exact Or.inl ⟨e, he, by omega⟩
    · have harc : (x, w) ∈ g.out e.v := by rw [hev]; exact ha
      rcases inv.relaxed e he (x, w) harc with h | ⟨dx, h1, h2⟩
      · simp at h
      · by_cases hm : x ∈ out.map (·.v)
        · obtain ⟨ex, hex, hexv⟩ := List.mem_map.mp hm
          have hexv : ex.v = x := hexv
          have h3 := inv.final ex hex
          rw [hexv, h1] at h3
          injection h3 with h3
          exact Or.inr ⟨ex, hex, hexv, by simp only at h2; omega⟩
        · obtain ⟨e', he', _, hd⟩ := inv.fresh x dx h1 hm
          exact Or.inl ⟨e', he', by simp only at h2; omega⟩

/-- A popped fresh entry is emitted: the invariant with its out-arcs as `todo`. -/
theorem emit_inv (hnn : g.NonNeg) {out : List Entry} {st : State} {e : Entry} {h' : List Entry}
    (inv : Inv g S tag out [] st) (ok : OutOK g S out)
    (hp : popMax st.heap = some (e, h')) (hf : dOf st.dist e.v = some e.d) :
    Inv g S tag (out ++ [e]) ((g.out e.v).map (fun xw => (e.v, xw.1, xw.2)) ++ []) ⟨st.dist, h'⟩ ∧
    OutOK g S (out ++ [e]) ∧ (∀ e' ∈ out ++ [e], e'.d ≤ e.d) ∧ e.v ∉ out.map (·.v) ∧ e.v < g.n := by
  obtain ⟨hmem, rfl, hmin⟩ := popMax_some hp
  have hsub : ∀ b, b ∈ st.heap.erase e → b ∈ st.heap := fun b hb => List.mem_of_mem_erase hb
  have hnot : e.v ∉ out.map (·.v) := inv.notEmitted e hmem hf
  have hle : ∀ e' ∈ out, e'.d ≤ e.d := fun e' he' => inv.mono e' he' e hmem
  have hvn : e.v < g.n := by rw [← inv.len]; exact dOf_some_lt hf
  refine ⟨?_, ?_, ?_, hnot, hvn⟩
  · refine { len := inv.len, sound := inv.sound, src := inv.src, heapKey := ?_, fresh := ?_, final := ?_,
             relaxed := ?_, mono := ?_, keyNodup := ?_, notEmitted := ?_, predSome := ?_, predNone := ?_,
             srcNone := ?_ }
    · intro b hb; exact inv.heapKey b (hsub b hb)
    · intro v d hv hvo
      dsimp only at hv ⊢
      simp only [List.map_append, List.map_cons, List.map_nil, List.mem_append, List.mem_singleton, not_or] at hvo
      obtain ⟨b, hb, hbv, hbd⟩ := inv.fresh v d hv hvo.1
      have : b ≠ e := by intro h; rw [h] at hbv; exact hvo.2 hbv.symm
      exact ⟨b, (List.mem_erase_of_ne this).mpr hb, hbv, hbd⟩
    · intro b hb
      rcases List.mem_append.mp hb with hb | hb
      · exact inv.final b hb
      · simp only [List.mem_singleton] at hb; rw [hb]; exact hf
    · intro b hb xw hxw
      rcases List.mem_append.mp hb with hb | hb
      · rcases inv.relaxed b hb xw hxw with h | h
        · simp at h
        · exact Or.inr h
      · simp only [List.mem_singleton] at hb
        left
        rw [hb] at hxw ⊢
        simp only [List.append_nil]
        exact List.mem_map.mpr ⟨xw, hxw, rfl⟩
    · intro b hb b' hb'
      rcases List.mem_append.mp hb with hb | hb
      · exact inv.mono b hb b' (hsub b' hb')
      · simp only [List.mem_singleton] at hb; rw [hb]; exact hmin b' (hsub b' hb')
    · exact nodup_map_erase _ _ _ inv.keyNodup
    · intro b hb hbd
      dsimp only at hbd
      simp only [List.map_append, List.map_cons, List.map_nil, List.mem_append, List.mem_singleton, not_or]
      refine ⟨inv.notEmitted b (hsub b hb) hbd, ?_⟩
      intro hv
      have hk := mem_erase_of_key_nodup (fun e : Entry => (e.d, e.v)) st.heap e b inv.keyNodup hmem hb
      apply hk
      have : some b.d = some e.d := by rw [← hbd, hv, hf]
      injection this with this
      simp [this, hv]
    · intro b hb u hu
      have hb' : b ∈ st.heap ++ out := by
        simp only [List.mem_append, List.mem_singleton] at hb ⊢
        rcases hb with hb | hb | hb
        · exact Or.inl (hsub b hb)
        · exact Or.inr hb
        · rw [hb]; exact Or.inl hmem
      obtain ⟨eu, h1, h2⟩ := inv.predSome b hb' u hu
      exact ⟨eu, List.mem_append_left _ h1, h2⟩
    · intro hne b hb hp'
      have hb' : b ∈ st.heap ++ out := by
        simp only [List.mem_append, List.mem_singleton] at hb ⊢
        rcases hb with hb | hb | hb
        · exact Or.inl (hsub b hb)
        · exact Or.inr hb
        · rw [hb]; exact Or.inl hmem
      exact inv.predNone hne b hb' hp'
    · intro b hb hs
      have hb' : b ∈ st.heap ++ out := by
        simp only [List.mem_append, List.mem_singleton] at hb ⊢
        rcases hb with hb | hb | hb
        · exact Or.inl (hsub b hb)
        · exact Or.inr hb
        · rw [hb]; exact Or.inl hmem
      exact inv.srcNone b hb' hs
  · refine { sorted := ?_, nodup := ?_, minimal := ?_, predBefore := ?_ }
    · refine List.pairwise_append.mpr ⟨ok.sorted, List.pairwise_singleton _ _, ?_⟩
      intro a ha b hb
      simp only [List.mem_singleton] at hb
      rw [hb]; exact hle a ha
    · simp only [List.map_append, List.map_cons, List.map_nil]
      refine List.nodup_append.mpr ⟨ok.nodup, by simp, ?_⟩
      intro a ha b hb hab
      simp only [List.mem_singleton] at hb
      rw [hab, hb] at ha
      exact hnot ha
    · intro b hb wt hwt
      rcases List.mem_append.mp hb with hb | hb
      · exact ok.minimal b hb wt hwt
      · simp only [List.mem_singleton] at hb
        rw [hb] at hwt ⊢
        obtain ⟨s, hs, k, hk⟩ := hwt
        rcases frontier hnn inv hk hs with ⟨b', hb', hle'⟩ | ⟨b', hb', hbv, _⟩
        · have := hmin b' hb'; omega
        · exact absurd (List.mem_map.mpr ⟨b', hb', hbv⟩) hnot
    · intro pre b post hsplit u hu
      rcases List.eq_nil_or_concat post with hpost | ⟨L, x, hpost⟩
      · subst hpost
        have h2 : out ++ [e] = pre ++ [b] := hsplit
        obtain ⟨h3, h4⟩ := List.append_inj' h2 rfl
        simp only [List.cons.injEq, and_true] at h4
        subst h3 h4
        obtain ⟨eu, h5, h6, _⟩ := inv.predSome e (List.mem_append_left _ hmem) u hu
        exact ⟨eu, h5, h6⟩
      · subst hpost
        have h2 : out ++ [e] = (pre ++ b :: L) ++ [x] := by rw [hsplit]; simp
        obtain ⟨h3, _⟩ := List.append_inj' h2 rfl
        exact ok.predBefore pre b L h3 u hu
  · intro b hb
    rcases List.mem_append.mp hb with hb | hb
    · exact hle b hb
    · simp only [List.mem_singleton] at hb; rw [hb]; exact Int.le_refl _

/-- A popped superseded entry is dropped. -/
theorem stale_inv {out : List Entry} {st : State} {e : Entry} {h' : List Entry}
    (inv : Inv g S tag out [] st) (hp : popMax st.heap = some (e, h')) (hf : dOf st.dist e.v ≠ some e.d) :
    Inv g S tag out [] ⟨st.dist, h'⟩ := by
  obtain ⟨hmem, rfl, _⟩ := popMax_some hp
  have hsub : ∀ b, b ∈ st.heap.erase e → b ∈ st.heap := fun b hb => List.mem_of_mem_erase hb
  have hsub' : ∀ b, b ∈ st.heap.erase e ++ out → b ∈ st.heap ++ out := by
    intro b hb
    rcases List.mem_append.mp hb with hb | hb
    · exact List.mem_append_left _ (hsub b hb)
    · exact List.mem_append_right _ hb
  refine { len := inv.len, sound := inv.sound, src := inv.src, heapKey := ?_, fresh := ?_, final := inv.final,
           relaxed := inv.relaxed, mono := ?_, keyNodup := ?_, notEmitted := ?_, predSome := ?_, predNone := ?_,
           srcNone := ?_ }
  · intro b hb; exact inv.heapKey b (hsub b hb)
  · intro v d hv hvo
    obtain ⟨b, hb, hbv, hbd⟩ := inv.fresh v d hv hvo
    have : b ≠ e := by
      intro h; apply hf; rw [← h, hbv, hbd]; exact hv
    exact ⟨b, (List.mem_erase_of_ne this).mpr hb, hbv, hbd⟩
  · intro b hb b' hb'; exact inv.mono b hb b' (hsub b' hb')
  · exact nodup_map_erase _ _ _ inv.keyNodup
  · intro b hb hbd; exact inv.notEmitted b (hsub b hb) hbd
  · intro b hb u hu; exact inv.predSome b (hsub' b hb) u hu
  · intro hne b hb hp'; exact inv.predNone hne b (hsub' b hb) hp'
  · intro b hb hs; exact inv.srcNone b (hsub' b hb) hs

/-! ### the termination measure -/

/-- Total out-degree of the vertices not emitted yet. -/
def pending (g : WGraph) (out : List Entry) : Nat :=
  (((List.range g.n).filter (fun u => !(out.map (·.v)).contains u)).map (fun u => (g.out u).length)).sum

theorem sum_filter_remove (f : Nat → Nat) (P Q : Nat → Bool) (u : Nat) (hPu : P u = true)
    (hQ : ∀ x, Q x = (P x && !(x == u))) :
    ∀ l : List Nat, l.Nodup → u ∈ l → ((l.filter Q).map f).sum + f u = ((l.filter P).map f).sum := by
  intro l
  induction l with
  | nil => intro _ h; simp at h
  | cons a l ih =>
    intro hnd hu
    simp only [List.nodup_cons] at hnd
    by_cases hau : a = u
    · subst hau
      have hQa : Q a = false := by rw [hQ]; simp
      have hcongr : l.filter Q = l.filter P := by
        apply List.filter_congr
        intro x hx
        have : x ≠ a := fun h => hnd.1 (h ▸ hx)
        rw [hQ]; simp [this]
      simp [hQa, hPu, hcongr]
      omega
    · have hul : u ∈ l := by
        rcases List.mem_cons.mp hu with h | h
        · exact absurd h.symm hau
        · exact h
      have hQa : Q a = P a := by rw [hQ]; simp [hau]
      have := ih hnd.2 hul
      by_cases hPa : P a = true
      · simp [hQa, hPa]; omega
      · simp [hQa, hPa]; omega

theorem pending_emit (g : WGraph) (out : List Entry) (e : Entry) (hn : e.v < g.n) (hnot : e.v ∉ out.map (·.v)) :
    pending g (out ++ [e]) + (g.out e.v).length = pending g out := by
  unfold pending
  apply sum_filter_remove (fun u => (g.out u).length) _ _ e.v
  · simpa using hnot
  · intro x
    simp only [List.map_append, List.map_cons, List.map_nil, List.contains_eq_mem, List.mem_append,
      List.mem_singleton]
    by_cases h1 : x ∈ out.map (·.v) <;> by_cases h2 : x = e.v <;> simp [h1, h2]
  · exact List.nodup_range
  · exact List.mem_range.mpr hn

theorem pending_nil (g : WGraph) : pending g [] = arcCount g := by
  simp [pending, arcCount, List.filter_eq_self.mpr]

/-! ### whole runs -/

theorem run_inv (hwf : g.WF) (hnn : g.NonNeg) (htag : TagOK tag) :
    ∀ (fuel : Nat) (out : List Entry) (st : State), Inv g S tag out [] st → OutOK g S out →
      st.heap.length + pending g out < fuel →
      (∃ st', Inv g S tag (out ++ run g tag fuel st) [] st' ∧ st'.heap = []) ∧
      OutOK g S (out ++ run g tag fuel st) ∧
      ∀ fuel', st.heap.length + pending g out < fuel' → run g tag fuel' st = run g tag fuel st := by
  intro fuel
  induction fuel with
  | zero => intro out st _ _ h; omega
  | succ f ih =>
    intro out st inv ok hm
    cases hp : popMax st.heap with
    | none =>
      have hrun : ∀ k, run g tag (k+1) st = [] := by intro k; simp [run, hp]
      rw [hrun f]
      refine ⟨⟨st, by simpa using inv, popMax_none hp⟩, by simpa using ok, ?_⟩
      intro fuel' hf'
      cases fuel' with
      | zero => omega
      | succ k => exact hrun k
    | some p =>
      obtain ⟨e, h'⟩ := p
      obtain ⟨hmem, hh', _⟩ := popMax_some hp
      have hlen : h'.length + 1 = st.heap.length := by
        rw [hh', List.length_erase_of_mem hmem]
        have : 0 < st.heap.length := List.length_pos_of_mem hmem
        omega
      by_cases hf : dOf st.dist e.v = some e.d
      · obtain ⟨inv1, ok1, hmax, hnot, hvn⟩ := emit_inv hnn inv ok hp hf
        have inv2 := foldl_relax_inv hwf hnn htag ok1 (List.mem_append_right _ (List.mem_singleton.mpr rfl))
          hmax (g.out e.v) (fun _ h => h) [] _ inv1
        have hl := foldl_relax_heap_len tag e.v e.d (g.out e.v) ⟨st.dist, h'⟩
        have hpe := pending_emit g out e hvn hnot
        have hrun : ∀ k, run g tag (k+1) st =
            e :: run g tag k ((g.out e.v).foldl (relax tag e.v e.d) ⟨st.dist, h'⟩) := by
          intro k; simp [run, hp, hf]
        have hm2 : ((g.out e.v).foldl (relax tag e.v e.d) ⟨st.dist, h'⟩).heap.length +
            pending g (out ++ [e]) < f := by
          simp only at hl; omega
        obtain ⟨hex, hok, hfu⟩ := ih (out ++ [e]) _ inv2 ok1 hm2
        rw [hrun f]
        refine ⟨by simpa [List.append_assoc] using hex, by simpa [List.append_assoc] using hok, ?_⟩
        intro fuel' hf'
        cases fuel' with
        | zero => omega
        | succ k =>
          rw [hrun k, hfu k (by simp only at hl; omega)]
      · have inv1 := stale_inv inv hp hf
        have hrun : ∀ k, run g tag (k+1) st = run g tag k ⟨st.dist, h'⟩ := by
          intro k; simp [run, hp, hf]
        have hm2 : (State.mk st.dist h').heap.length + pending g out < f := by
          simp only; omega
        obtain ⟨hex, hok, hfu⟩ := ih out _ inv1 ok hm2
        rw [hrun f]
        refine ⟨hex, hok, ?_⟩
        intro fuel' hf'
        cases fuel' with
        | zero => omega
        | succ k => rw [hrun k, hfu k (by simp only; omega)]

/-! ### the initial state -/

theorem init_spec (n : Nat) (S : List Nat) (hS : ∀ s ∈ S, s < n) :
    (init n S).dist.length = n ∧
    (∀ v, dOf (init n S).dist v = if v ∈ S then some 0 else none) ∧
    (init n S).heap = S.reverse.map (fun s => (⟨0, none, s⟩ : Entry)) := by
  unfold init
  suffices H : ∀ (S : List Nat) (st : State), (∀ s ∈ S, s < st.dist.length) →
      let r := S.foldl (fun st s => (⟨st.dist.set s (some 0), ⟨0, none, s⟩ :: st.heap⟩ : State)) st
      r.dist.length = st.dist.length ∧
      (∀ v, dOf r.dist v = if v ∈ S then some 0 else dOf st.dist v) ∧
      r.heap = S.reverse.map (fun s => (⟨0, none, s⟩ : Entry)) ++ st.heap by
    have := H S ⟨List.replicate n none, []⟩ (by simpa using hS)
    simpa [dOf_replicate] using this
  intro S
  induction S with
  | nil => intro st _; simp
  | cons s S ih =>
    intro st hs
    have hs0 : s < st.dist.length := hs s (by simp)
    obtain ⟨a, b, c⟩ := ih ⟨st.dist.set s (some 0), ⟨0, none, s⟩ :: st.heap⟩
      (by intro x hx; simpa using hs x (by simp [hx]))
    simp only [List.foldl_cons]
    refine ⟨by simpa using a, ?_, by simp [c]⟩
    intro v
    rw [b v]
    by_cases hvS : v ∈ S
    · simp [hvS]
    · by_cases hvs : v = s
      · subst hvs; simp [hvS, dOf_set_eq _ _ _ hs0]
      · simp [hvS, hvs, dOf_set_ne _ _ _ _ hvs]

theorem init_inv (hS : ∀ s ∈ S, s < g.n) (hnd : S.Nodup) :
    Inv g S tag [] [] (init g.n S) ∧ OutOK g S [] := by
  obtain ⟨hl, hd, hh⟩ := init_spec g.n S hS
  have hmemh : ∀ e ∈ (init g.n S).heap, e.v ∈ S ∧ e.d = 0 ∧ e.p = none := by
    intro e he
    rw [hh] at he
    obtain ⟨s, hs, rfl⟩ := List.mem_map.mp he
    exact ⟨by simpa using hs, rfl, rfl⟩
  refine ⟨{ len := hl, sound := ?_, src := ?_, heapKey := ?_, fresh := ?_, final := ?_, relaxed := ?_,
            mono := ?_, keyNodup := ?_, notEmitted := ?_, predSome := ?_, predNone := ?_, srcNone := ?_ },
          ⟨List.Pairwise.nil, by simp, by intro e he; simp at he, by intro pre e post h; simp at h⟩⟩
  · intro v d hv
    rw [hd v] at hv
    by_cases hvS : v ∈ S
    · simp [hvS] at hv; subst hv; exact SrcWalk.src hvS
    · simp [hvS] at hv
  · intro s hs; rw [hd s]; simp [hs]
  · intro e he
    obtain ⟨h1, h2, _⟩ := hmemh e he
    exact ⟨0, by rw [hd]; simp [h1], by omega⟩
  · intro v d hv _
    rw [hd v] at hv
    by_cases hvS : v ∈ S
    · simp [hvS] at hv
      refine ⟨⟨0, none, v⟩, ?_, rfl, hv⟩
      rw [hh]; exact List.mem_map.mpr ⟨v, by simpa using hvS, rfl⟩
    · simp [hvS] at hv
  · intro e he; simp at he
  · intro e he; simp at he
  · intro e he; simp at he
  · rw [hh, List.map_map]
    rw [List.Nodup, List.pairwise_map]
    have hr : S.reverse.Pairwise (· ≠ ·) := List.pairwise_reverse.mpr (List.Pairwise.imp Ne.symm hnd)
    refine List.Pairwise.imp ?_ hr
    intro a b hab h
    simp at h
    exact hab h
  · intro e _ _; simp
  · intro e he u hu
    simp only [List.append_nil] at he
    rw [(hmemh e he).2.2] at hu
    simp at hu
  · intro _ e he _
    simp only [List.append_nil] at he
    exact ⟨(hmemh e he).1, (hmemh e he).2.1⟩
  · intro e he _
    simp only [List.append_nil] at he
    exact (hmemh e he).2.2

theorem init_measure (hS : ∀ s ∈ S, s < g.n) : (init g.n S).heap.length + pending g [] < fuel g S := by
  obtain ⟨_, _, hh⟩ := init_spec g.n S hS
  rw [hh, pending_nil]; simp [fuel]

end GraafVerif.Dijkstra
