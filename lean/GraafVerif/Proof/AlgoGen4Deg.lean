import GraafVerif.Proof.AlgoGen4Par
import GraafVerif.Model.Query
/-!
# Generated `AdjacencyList::degree_sequence` = the hand-written `Query.AL.degreeSequence d t`
-/
set_option linter.unusedSimpArgs false
namespace GraafVerif.AlgoGenThm
open GraafVerif GraafVerif.AlgoGen GraafVerif.Repr

/-- `K = ⌈n / chunk⌉` ranges: `id` is past the end exactly when `K ≤ id` -/
theorem ceil_le_iff (n chunk id : Nat) (hc : 0 < chunk) : (n + chunk - 1) / chunk ≤ id ↔ n ≤ id * chunk := by
  rw [← Nat.lt_succ_iff, Nat.div_lt_iff_lt_mul hc, Nat.succ_mul]
  omega

/-- closed form of the hand-written chunk ranges -/
theorem go_closed (n chunk : Nat) (hc : 0 < chunk) : ∀ (fuel id : Nat), (n + chunk - 1) / chunk ≤ id + fuel →
    Par.ranges.go n chunk fuel id =
      (List.range' id ((n + chunk - 1) / chunk - id)).map fun i => (i * chunk, min n (i * chunk + chunk)) := by
  intro fuel
  induction fuel with
  | zero =>
    intro id h
    have : (n + chunk - 1) / chunk - id = 0 := by omega
    simp [Par.ranges.go, this]
  | succ fuel ih =>
    intro id h
    unfold Par.ranges.go
    by_cases hge : id * chunk ≥ min n (id * chunk + chunk)
    · have hn : n ≤ id * chunk := by
        rcases Nat.le_total n (id * chunk + chunk) with h' | h'
        · rw [Nat.min_eq_left h'] at hge; exact hge
        · rw [Nat.min_eq_right h'] at hge; omega
      have := (ceil_le_iff n chunk id hc).2 hn
      have h0 : (n + chunk - 1) / chunk - id = 0 := by omega
      simp [hge, h0]
    · have hn : ¬ n ≤ id * chunk := by
        intro hn
        exact hge (by rw [Nat.min_eq_left (by omega)]; exact hn)
      have hK : ¬ (n + chunk - 1) / chunk ≤ id := fun h' => hn ((ceil_le_iff n chunk id hc).1 h')
      simp only [hge, if_false]
      rw [ih (id + 1) (by omega)]
      have : (n + chunk - 1) / chunk - id = ((n + chunk - 1) / chunk - (id + 1)) + 1 := by omega
      rw [this, List.range'_succ, List.map_cons]

theorem ranges_closed (n t : Nat) (ht : 0 < t) (hn : 0 < n) :
    Par.ranges n t = (List.range ((n + (n + t - 1) / t - 1) / ((n + t - 1) / t))).map
      fun i => (i * ((n + t - 1) / t), min n (i * ((n + t - 1) / t) + (n + t - 1) / t)) := by
  have hc : 0 < (n + t - 1) / t := Nat.div_pos (by omega) ht
  have hcov : n ≤ t * ((n + t - 1) / t) := by
    have := Nat.div_add_mod (n + t - 1) t
    have hm := Nat.mod_lt (n + t - 1) ht
    omega
  have hK : (n + (n + t - 1) / t - 1) / ((n + t - 1) / t) ≤ 0 + t := by
    rw [Nat.zero_add]
    exact (ceil_le_iff n _ t hc).2 hcov
  have := go_closed n ((n + t - 1) / t) hc t 0 hK
  rw [Nat.sub_zero] at this
  unfold Par.ranges
  rw [this, List.range_eq_range']

theorem ranges_length_le (n t : Nat) (ht : 0 < t) (hn : 0 < n) : (Par.ranges n t).length ≤ t := by
  have hc : 0 < (n + t - 1) / t := Nat.div_pos (by omega) ht
  have hcov : n ≤ t * ((n + t - 1) / t) := by
    have := Nat.div_add_mod (n + t - 1) t
    have hm := Nat.mod_lt (n + t - 1) ht
    omega
  rw [ranges_closed n t ht hn]
  simp only [List.length_map, List.length_range]
  exact (ceil_le_iff n _ t hc).2 hcov

namespace AdjacencyList

/-! ## `AdjacencyList::degree_sequence` -/

theorem bump_length (h : List Nat) (v : Nat) : (Query.AL.bump h v).length = h.length := by simp [Query.AL.bump]

theorem degreeSequence_for2_eq (h : List Nat) (v : Nat) (hv : v < h.length) :
    (AlgoGen.AdjacencyList.degreeSequence_for2 h v : Blk (List Nat) (List Nat) _) = .ok (Query.AL.bump h v) := by
  unfold AlgoGen.AdjacencyList.degreeSequence_for2 Query.AL.bump
  simp only [rd_lt _ _ _ hv, wr_lt _ _ _ _ hv, ok_bind, pure_eq_ok, List.getElem?_eq_getElem hv, Option.getD_some]

theorem row_fold (n : Nat) (row : List Nat) (hrow : ∀ v ∈ row, v < n) : ∀ (h : List Nat), h.length = n →
    (forLoop AlgoGen.AdjacencyList.degreeSequence_for2 row h : Blk (List Nat) (List Nat) _) = .ok (row.foldl Query.AL.bump h) ∧
      (row.foldl Query.AL.bump h).length = n := by
  intro h hh
  exact forLoop_pure_inv (fun x : List Nat => x.length = n) _ Query.AL.bump row
    (fun s v hv hs => ⟨degreeSequence_for2_eq s v (by rw [hs]; exact hrow v hv), by rw [bump_length]; exact hs⟩)
    row h (fun _ hx => hx) hh

theorem degreeSequence_for1_eq (n : Nat) (row : List Nat) (hrow : ∀ v ∈ row, v < n) (h : List Nat) (hh : h.length = n) :
    (AlgoGen.AdjacencyList.degreeSequence_for1 h row : Blk (List Nat) (List Nat) _) = .ok (row.foldl Query.AL.bump h) := by
  unfold AlgoGen.AdjacencyList.degreeSequence_for1
  rw [(row_fold n row hrow h hh).1]

theorem chunk_fold (n : Nat) (rows : List (List Nat)) (hrows : ∀ row ∈ rows, ∀ v ∈ row, v < n) (h : List Nat) (hh : h.length = n) :
    (forLoop AlgoGen.AdjacencyList.degreeSequence_for1 rows h : Blk (List (List Nat)) (List Nat) _) =
      .ok (Query.AL.histogram rows h) ∧ (Query.AL.histogram rows h).length = n := by
  unfold Query.AL.histogram
  exact forLoop_pure_inv (fun x : List Nat => x.length = n) _ (fun h row => row.foldl Query.AL.bump h) rows
    (fun s row hr hs => ⟨degreeSequence_for1_eq n row (hrows row hr) s hs, (row_fold n row (hrows row hr) s hs).2⟩)
    rows h (fun _ hx => hx) hh

theorem degreeSequence_for4_eq (acc : List Nat) (k x : Nat) (hk : k < acc.length) :
    (AlgoGen.AdjacencyList.degreeSequence_for4 acc (k, x) : Blk (List Nat) (List Nat) _) = .ok (acc.set k (acc[k] + x)) := by
  unfold AlgoGen.AdjacencyList.degreeSequence_for4
  simp only [rd_lt _ _ _ hk, wr_lt _ _ _ _ hk, ok_bind, pure_eq_ok]

/-- the summation of one local histogram: elementwise addition -/
theorem sum_fold : ∀ (l : List Nat) (k : Nat) (acc : List Nat), k + l.length ≤ acc.length →
    ∃ r, (forLoop AlgoGen.AdjacencyList.degreeSequence_for4 (List.map (fun p : Nat × Nat => (p.2, p.1)) (l.zipIdx k)) acc :
        Blk (List Nat) (List Nat) _) = .ok r ∧ r.length = acc.length ∧
      ∀ j, r[j]? = if k ≤ j ∧ j < k + l.length then some ((acc[j]?.getD 0) + (l[j - k]?.getD 0)) else acc[j]? := by
  intro l
  induction l with
  | nil =>
    intro k acc _
    refine ⟨acc, rfl, rfl, fun j => ?_⟩
    have : ¬ (k ≤ j ∧ j < k + ([] : List Nat).length) := by simp
    simp only [this, if_false]
  | cons x l ih =>
    intro k acc hk
    have hkl : k < acc.length := by simp at hk; omega
    have hstep : (AlgoGen.AdjacencyList.degreeSequence_for4 acc (k, x) : Blk (List Nat) (List Nat) _) = .ok (acc.set k (acc[k] + x)) := by
      unfold AlgoGen.AdjacencyList.degreeSequence_for4
      simp only [rd_lt _ _ _ hkl, wr_lt _ _ _ _ hkl, ok_bind, pure_eq_ok]
    rw [List.zipIdx_cons, List.map_cons, forLoop_cons_ok (h := hstep)]
    obtain ⟨r, h1, h2, h3⟩ := ih (k + 1) (acc.set k (acc[k] + x)) (by simp at hk ⊢; omega)
    refine ⟨r, h1, by rw [h2]; simp, fun j => ?_⟩
    rw [h3 j]
    by_cases hj : j = k
    · subst hj
      have c1 : ¬ (j + 1 ≤ j ∧ j < j + 1 + l.length) := by omega
      have c2 : j ≤ j ∧ j < j + (x :: l).length := by simp
      simp only [c1, c2, if_false, if_true, List.getElem?_set_self hkl, Nat.sub_self, List.getElem?_cons_zero,
        Option.getD_some, List.getElem?_eq_getElem hkl, and_self]
    · have hne : k ≠ j := fun h => hj h.symm
      rw [List.getElem?_set_ne hne]
      by_cases c : k + 1 ≤ j ∧ j < k + 1 + l.length
      · have c2 : k ≤ j ∧ j < k + (x :: l).length := by simp; omega
        have hidx : j - k = (j - (k + 1)) + 1 := by omega
        simp only [c, c2, if_true, hidx, List.getElem?_cons_succ]
      · have c2 : ¬ (k ≤ j ∧ j < k + (x :: l).length) := by simp; omega
        simp only [c, c2, if_false]

theorem degreeSequence_for3_eq (indeg loc : List Nat) (h : loc.length = indeg.length) :
    (AlgoGen.AdjacencyList.degreeSequence_for3 indeg loc : Blk (List Nat) (List Nat) _) = .ok (Query.AL.addVec indeg loc) := by
  unfold AlgoGen.AdjacencyList.degreeSequence_for3
  obtain ⟨r, h1, h2, h3⟩ := sum_fold loc 0 indeg (by omega)
  rw [h1]
  show (Except.ok r : Blk (List Nat) (List Nat) _) = _
  congr 1
  apply List.ext_getElem?
  intro j
  rw [h3 j]
  unfold Query.AL.addVec
  rw [List.getElem?_zipWith]
  by_cases hj : j < loc.length
  · have hj' : j < indeg.length := by omega
    simp [hj, hj', List.getElem?_eq_getElem hj, List.getElem?_eq_getElem hj']
  · have hj' : ¬ j < indeg.length := by omega
    have c : ¬ (0 ≤ j ∧ j < 0 + loc.length) := by omega
    simp [c, List.getElem?_eq_none (Nat.le_of_not_lt hj), List.getElem?_eq_none (Nat.le_of_not_lt hj')]
    omega

theorem addVec_length (a b : List Nat) (h : b.length = a.length) : (Query.AL.addVec a b).length = a.length := by
  simp [Query.AL.addVec, h]

/-- worker `i` (`i` below the number of histograms): reads its histogram, fills it from its chunk, writes it back -/
theorem degreeSequence_for0_eq (n : Nat) (ichunks : List (List Nat)) (i : Nat) (c : List (List Nat)) (hi : i < ichunks.length)
    (hrow : ichunks[i].length = n) (hc : ∀ row ∈ c, ∀ v ∈ row, v < n) :
    (AlgoGen.AdjacencyList.degreeSequence_for0 ichunks (i, c) : Blk (List (List Nat)) (List Nat) _) =
      .ok (ichunks.set i (Query.AL.histogram c ichunks[i])) := by
  unfold AlgoGen.AdjacencyList.degreeSequence_for0
  dsimp only
  have hnot : ¬ i ≥ ichunks.length := by omega
  simp only [hnot, if_false, rd_lt _ _ _ hi, ok_bind, (chunk_fold n c hc ichunks[i] hrow).1, wr_lt _ _ _ _ hi, pure_eq_ok]

/-- the worker loop: worker `i` fills the `i`-th (still zero) histogram from its chunk -/
theorem workers_fold (n : Nat) : ∀ (cs : List (List (List Nat))) (pre : List (List Nat)) (m : Nat),
    (∀ c ∈ cs, ∀ row ∈ c, ∀ v ∈ row, v < n) → cs.length ≤ m →
    (forLoop AlgoGen.AdjacencyList.degreeSequence_for0
        (List.map (fun p : List (List Nat) × Nat => (p.2, p.1)) (cs.zipIdx pre.length)) (pre ++ List.replicate m (List.replicate n 0)) :
        Blk Empty (List Nat) _) =
      .ok (pre ++ cs.map (fun c => Query.AL.histogram c (List.replicate n 0)) ++
        List.replicate (m - cs.length) (List.replicate n 0)) := by
  intro cs
  induction cs with
  | nil => intro pre m _ _; simp
  | cons c cs ih =>
    intro pre m hc hm
    obtain ⟨m', rfl⟩ : ∃ m', m = m' + 1 := ⟨m - 1, by simp at hm; omega⟩
    have hlen : pre.length < (pre ++ List.replicate (m' + 1) (List.replicate n 0)).length := by simp
    have hget : (pre ++ List.replicate (m' + 1) (List.replicate n 0))[pre.length] = List.replicate n 0 := by
      rw [List.getElem_append_right (Nat.le_refl _)]
      simp
    have hfold := chunk_fold n c (hc c List.mem_cons_self) (List.replicate n 0) List.length_replicate
    have hstep : (AlgoGen.AdjacencyList.degreeSequence_for0 (pre ++ List.replicate (m' + 1) (List.replicate n 0)) (pre.length, c) :
        Blk (List (List Nat)) (List Nat) _) =
        .ok ((pre ++ [Query.AL.histogram c (List.replicate n 0)]) ++ List.replicate m' (List.replicate n 0)) := by
      unfold AlgoGen.AdjacencyList.degreeSequence_for0
      dsimp only
      have hnot : ¬ pre.length ≥ (pre ++ List.replicate (m' + 1) (List.replicate n 0)).length := by omega
      simp only [hnot, if_false, rd_lt _ _ _ hlen, hget, ok_bind, hfold.1, wr_lt _ _ _ _ hlen, pure_eq_ok]
      congr 1
      rw [List.set_append_right _ _ (Nat.le_refl _), Nat.sub_self, List.replicate_succ, List.set_cons_zero]
      simp
    rw [List.zipIdx_cons, List.map_cons, forLoop_cons_ok (h := hstep)]
    have := ih (pre ++ [Query.AL.histogram c (List.replicate n 0)]) m'
      (fun c' hc' => hc c' (List.mem_cons_of_mem _ hc')) (by simp at hm; omega)
    rw [List.length_append, List.length_singleton] at this
    rw [this]
    simp

theorem take_min_length {α : Type} (l : List α) (a : Nat) : l.take a = l.take (min a l.length) := by
  rcases Nat.le_total a l.length with h | h
  · rw [Nat.min_eq_left h]
  · rw [Nat.min_eq_right h, List.take_of_length_le h, List.take_of_length_le (Nat.le_refl _)]

theorem degreeSequence_for5_eq (d : AdjList) (indeg : List Nat) (acc : List Nat) (u : Nat)
    (hu : u < d.rows.length) (hi : u < indeg.length) :
    (AlgoGen.AdjacencyList.degreeSequence_for5 d indeg acc u : Blk (List Nat) (List Nat) _) =
      .ok (acc ++ [indeg[u]?.getD 0 + (d.rows[u]?.getD []).length]) := by
  unfold AlgoGen.AdjacencyList.degreeSequence_for5
  simp only [rd_lt _ _ _ hu, rd_lt _ _ _ hi, ok_bind, pure_eq_ok, List.getElem?_eq_getElem hu, List.getElem?_eq_getElem hi,
    Option.getD_some]

/-- `AdjacencyList::degree_sequence` with `available_parallelism() = ap ≥ 1` = the hand-written
`Query.AL.degreeSequence d ap`, for every list of order `≥ 1` whose heads are vertices (part of `AdjList.WF`):
then no unchecked access is out of bounds. -/
theorem degreeSequence_eq (ap : Nat) (d : AdjList) (hap : 0 < ap) (hn : 0 < d.order)
    (hin : ∀ row ∈ d.rows, ∀ v ∈ row, v < d.order) :
    AlgoGen.AdjacencyList.degreeSequence ap d = .ok (Query.AL.degreeSequence d ap) := by
  unfold AlgoGen.AdjacencyList.degreeSequence Query.AL.degreeSequence
  dsimp only
  have hc : 0 < (d.order + ap - 1) / ap := Nat.div_pos (by omega) hap
  have hc0 : (d.order + ap - 1) / ap ≠ 0 := by omega
  have hlen : d.rows.length = d.order := rfl
  simp only [divCeilP_pos _ _ hap, ok_bind, chunksP, hc0, if_false, hlen]
  have hK := ranges_length_le d.order ap hap hn
  rw [ranges_closed d.order ap hap hn] at hK ⊢
  simp only [List.length_map, List.length_range] at hK
  have hw := workers_fold d.order
    ((List.range ((d.order + (d.order + ap - 1) / ap - 1) / ((d.order + ap - 1) / ap))).map
      fun i => (d.rows.drop (i * ((d.order + ap - 1) / ap))).take ((d.order + ap - 1) / ap)) [] ap
    (fun c hcm row hr v hv => by
      rw [List.mem_map] at hcm
      obtain ⟨i, _, rfl⟩ := hcm
      exact hin row (List.mem_of_mem_drop (List.mem_of_mem_take hr)) v hv)
    (by simp only [List.length_map, List.length_range]; exact hK)
  simp only [List.length_nil, List.nil_append, List.length_map, List.length_range] at hw
  rw [hw]
  simp only [ok_bind]
  -- the summation
  have hlocals : ∀ x ∈ (List.map (fun c => Query.AL.histogram c (List.replicate d.order 0))
      (List.map (fun i => List.take ((d.order + ap - 1) / ap) (List.drop (i * ((d.order + ap - 1) / ap)) d.rows))
        (List.range ((d.order + (d.order + ap - 1) / ap - 1) / ((d.order + ap - 1) / ap)))) ++
      List.replicate (ap - (d.order + (d.order + ap - 1) / ap - 1) / ((d.order + ap - 1) / ap)) (List.replicate d.order 0)),
      x.length = d.order := by
    intro x hx
    rw [List.mem_append] at hx
    rcases hx with hx | hx
    · rw [List.mem_map] at hx
      obtain ⟨c, hcm, rfl⟩ := hx
      rw [List.mem_map] at hcm
      obtain ⟨i, _, rfl⟩ := hcm
      exact (chunk_fold d.order _ (fun row hr v hv => hin row (List.mem_of_mem_drop (List.mem_of_mem_take hr)) v hv)
        (List.replicate d.order 0) List.length_replicate).2
    · rw [List.eq_of_mem_replicate hx]; simp
  have hsum := forLoop_pure_inv (β := Empty) (ρ := List Nat) (fun x : List Nat => x.length = d.order)
    AlgoGen.AdjacencyList.degreeSequence_for3 Query.AL.addVec _
    (fun s loc hl hs => ⟨degreeSequence_for3_eq s loc (by rw [hs]; exact hlocals loc hl),
      by rw [addVec_length _ _ (by rw [hs]; exact hlocals loc hl)]; exact hs⟩)
    _ (List.replicate d.order 0) (fun _ h => h) List.length_replicate
  rw [hsum.1]
  simp only [ok_bind]
  have hfin := forLoop_pure_inv (β := Empty) (ρ := List Nat) (fun _ : List Nat => True)
    (AlgoGen.AdjacencyList.degreeSequence_for5 d _) (fun acc u => acc ++ [_]) (List.range d.order)
    (fun acc u hu _ => ⟨degreeSequence_for5_eq d _ acc u (by rw [hlen]; exact List.mem_range.1 hu)
      (by rw [hsum.2]; exact List.mem_range.1 hu), trivial⟩)
    (List.range d.order) [] (fun _ h => h) trivial
  rw [hfin.1]
  simp only [ok_bind, pure_eq_ok, fnBody_ok, foldl_snoc_map, List.nil_append]
  have hGH : (List.map (fun c => Query.AL.histogram c (List.replicate d.order 0))
      (List.map (fun i => List.take ((d.order + ap - 1) / ap) (List.drop (i * ((d.order + ap - 1) / ap)) d.rows))
        (List.range ((d.order + (d.order + ap - 1) / ap - 1) / ((d.order + ap - 1) / ap))))) =
      (List.map (fun r : Nat × Nat => Query.AL.histogram ((d.rows.drop r.1).take (r.2 - r.1)) (List.replicate d.order 0))
        (List.map (fun i => (i * ((d.order + ap - 1) / ap), min d.order (i * ((d.order + ap - 1) / ap) + (d.order + ap - 1) / ap)))
          (List.range ((d.order + (d.order + ap - 1) / ap - 1) / ((d.order + ap - 1) / ap))))) := by
    rw [List.map_map, List.map_map]
    apply List.map_congr_left
    intro i _
    simp only [Function.comp]
    congr 1
    rw [take_min_length (List.drop _ d.rows) ((d.order + ap - 1) / ap), List.length_drop, hlen]
    congr 1
    omega
  rw [hGH]
  simp only [List.length_map, List.length_range]

end AdjacencyList
end GraafVerif.AlgoGenThm
