import GraafVerif.Proof.QueryAM
/-!
# C02 — `AdjacencyListWeighted`: every core query, `arc_weight`, `out_neighbors_weighted` (P1)
-/
namespace GraafVerif.Query
open GraafVerif.Repr

theorem filterMap_ite_self {α : Type} (l : List α) (p : α → Bool) :
    l.filterMap (fun u => if p u then some u else none) = l.filter p := by
  induction l with
  | nil => rfl
  | cons a l ih =>
    simp only [List.filterMap_cons, List.filter_cons]
    cases p a <;> simp [ih]

theorem filterMap_congr' {α β : Type} {f g : α → Option β} :
    ∀ {l : List α}, (∀ a ∈ l, f a = g a) → l.filterMap f = l.filterMap g
  | [], _ => rfl
  | a :: l, h => by
    rw [List.filterMap_cons, List.filterMap_cons, h a (by simp), filterMap_congr' (fun x hx => h x (by simp [hx]))]

namespace WL

def row (d : AdjListW) (u : Nat) : List (Nat × Int) := d.rows[u]?.getD []

theorem rows_eq_map (d : AdjListW) : d.rows = (List.range d.order).map (row d) := by
  apply List.ext_getElem
  · simp [AdjListW.order]
  · intro i h1 h2
    simp [row, h1]

theorem zipIdx_rows (d : AdjListW) : d.rows.zipIdx = (List.range d.order).map (fun u => (row d u, u)) := by
  apply List.ext_getElem
  · simp [AdjListW.order]
  · intro i h1 h2
    have : i < d.rows.length := by simpa using h1
    simp [row, this]

theorem hasArc_eq (d : AdjListW) (u v : Nat) : d.hasArc u v = (mget v (row d u)).isSome := by
  unfold AdjListW.hasArc row
  cases d.rows[u]? <;> simp [mget]

theorem arcWeight_eq (d : AdjListW) (u v : Nat) : d.arcWeight u v = mget v (row d u) := by
  unfold AdjListW.arcWeight row
  cases d.rows[u]? <;> simp [mget]

theorem row_oob (d : AdjListW) {u : Nat} (h : ¬ u < d.order) : row d u = [] := by
  unfold row
  have : d.rows[u]? = none := by simp [AdjListW.order] at h ⊢; omega
  simp [this]

theorem row_get (d : AdjListW) {u : Nat} (h : u < d.order) : d.rows[u]? = some (row d u) := by
  unfold row
  have : u < d.rows.length := h
  simp [this]

theorem row_sorted {d : AdjListW} (h : d.WF) (u : Nat) : SortedK (row d u) := by
  by_cases hu : u < d.order
  · exact (h.2 u _ (row_get d hu)).1
  · rw [row_oob d hu]; exact List.Pairwise.nil

theorem row_mem {d : AdjListW} (h : d.WF) {u : Nat} {p : Nat × Int} (hp : p ∈ row d u) :
    u < d.order ∧ p.1 < d.order ∧ p.1 ≠ u := by
  by_cases hu : u < d.order
  · exact ⟨hu, (h.2 u _ (row_get d hu)).2 p hp⟩
  · rw [row_oob d hu] at hp; simp at hp

theorem hasArc_true {d : AdjListW} (h : d.WF) {u v : Nat} (hv : d.hasArc u v = true) :
    u < d.order ∧ v < d.order ∧ v ≠ u := by
  rw [hasArc_eq] at hv
  obtain ⟨w, hw⟩ := Option.isSome_iff_exists.1 hv
  exact row_mem h (mget_mem hw)

theorem abs_valid {d : AdjListW} (h : d.WF) : (abs d).Valid where
  sorted := by simp [abs, AdjListW.vertices]; exact List.pairwise_lt_range
  closed := by
    intro u v huv
    have := hasArc_true h huv
    simp [abs, AdjListW.vertices, this.1, this.2.1]
  irrefl := by
    intro u
    cases hc : (abs d).adj u u
    · rfl
    · exact absurd rfl (hasArc_true h hc).2.2
  wt_iff := by
    intro u v
    simp only [abs, hasArc_eq, arcWeight_eq]

theorem outNeighbors_spec {d : AdjListW} (h : d.WF) (u : Nat) :
    Spec.outNeighbors (abs d) u = (row d u).map (·.1) := by
  apply sorted_ext ((abs_valid h).sorted.filter _) (sortedK_keys (row_sorted h u))
  intro x
  simp only [Spec.outNeighbors, List.mem_filter, abs, hasArc_eq, mget_isSome_iff (row_sorted h u), AdjListW.vertices,
    List.mem_range]
  constructor
  · exact fun hx => hx.2
  · intro hx
    obtain ⟨p, hp, rfl⟩ := List.mem_map.1 hx
    exact ⟨(row_mem h hp).2.1, hx⟩

theorem indegree_spec (d : AdjListW) (v : Nat) :
    (d.rows.filter (fun row => (mget v row).isSome)).length = Spec.indegree (abs d) v := by
  conv => lhs; rw [rows_eq_map d]
  simp only [List.filter_map, List.length_map, Spec.indegree, Spec.inNeighbors, abs, AdjListW.vertices, hasArc_eq]
  rfl

theorem inNeighbors_spec (d : AdjListW) (v : Nat) : inNeighbors d v = Spec.inNeighbors (abs d) v := by
  simp only [inNeighbors, zipIdx_rows, List.filterMap_map, Spec.inNeighbors, abs, AdjListW.vertices, hasArc_eq]
  exact filterMap_ite_self _ _

theorem size_spec {d : AdjListW} (h : d.WF) : d.size = Spec.size (abs d) := by
  simp only [Spec.size, Spec.arcs, List.length_flatMap, List.length_map, outNeighbors_spec h]
  simp only [AdjListW.size, abs, AdjListW.vertices]
  conv => lhs; rw [rows_eq_map d]
  simp [Function.comp_def]

theorem arcs_mem {d : AdjListW} (h : d.WF) (u v : Nat) : (u, v) ∈ d.arcs ↔ d.hasArc u v = true := by
  simp only [AdjListW.arcs, AdjListW.arcsWeighted, zipIdx_rows, List.flatMap_map, List.mem_map, List.mem_flatMap,
    List.mem_range, Prod.mk.injEq, hasArc_eq]
  constructor
  · rintro ⟨⟨a, b, w⟩, ⟨a', _, ⟨b', w'⟩, hp, he⟩, rfl, rfl⟩
    simp only [Prod.mk.injEq] at he
    obtain ⟨rfl, rfl, rfl⟩ := he
    rw [mget_of_mem (row_sorted h a') hp]; rfl
  · intro hv
    obtain ⟨w, hw⟩ := Option.isSome_iff_exists.1 hv
    have hm := mget_mem hw
    exact ⟨(u, v, w), ⟨u, (row_mem h hm).1, (v, w), hm, rfl⟩, rfl, rfl⟩

theorem core_correct {d : AdjListW} (h : d.WF) : CoreCorrect (core d) (abs d) where
  order := by simp [core, Spec.order, abs, AdjListW.vertices]
  vertices := rfl
  arcs_mem := arcs_mem h
  size := size_spec h
  hasArc := fun _ _ => rfl
  hasEdge := fun _ _ => rfl
  hasWalk := fun w => hasWalkZip_eq (abs d) d.hasArc (fun _ _ => rfl) w
  outNeighbors := by
    intro u hu
    have hu : u < d.order := by simpa [abs, AdjListW.vertices] using hu
    simp [core, outNeighbors, row_get d hu, outNeighbors_spec h]
  inNeighbors := inNeighbors_spec d
  indegree := by
    intro v hv
    have hv : v < d.order := by simpa [abs, AdjListW.vertices] using hv
    simp only [core, indegree, hv, if_true, indegree_spec]
  isSource := by
    intro v
    simp only [core, isSource, Spec.isSource, ← indegree_spec, filter_length_eq_zero]
  outdegree := by
    intro u hu
    have hu : u < d.order := by simpa [abs, AdjListW.vertices] using hu
    simp [core, outdegree, row_get d hu, Spec.outdegree, outNeighbors_spec h]
  isSink := by
    intro u hu
    have hu : u < d.order := by simpa [abs, AdjListW.vertices] using hu
    simp only [core, isSink, row_get d hu, Spec.isSink, Spec.outdegree, outNeighbors_spec h, Option.map_some, List.length_map]
    cases row d u <;> rfl

theorem seq_correct {d : AdjListW} (h : d.WF) : SeqCorrect (core d) (abs d) where
  indegreeSequence := indegreeSequenceDefault_correct (abs d) _ (core_correct h).indegree
  degreeSequence := fun _ _ => degreeSequenceDefault_correct (abs d) _ _ (core_correct h).indegree (core_correct h).outdegree

theorem panics_outside {d : AdjListW} {u : Nat} (hu : ¬ u < d.order) :
    (core d).outNeighbors u = none ∧ (core d).indegree u = none ∧ (core d).outdegree u = none ∧ (core d).isSink u = none := by
  have : d.rows[u]? = none := by simp [AdjListW.order] at hu ⊢; omega
  simp [core, outNeighbors, indegree, outdegree, isSink, hu, this]

/-! ### `out_neighbors_weighted`: the row itself -/
theorem filterMap_mget_range' : ∀ (row : List (Nat × Int)) (s m : Nat), SortedK row →
    (∀ p ∈ row, s ≤ p.1 ∧ p.1 < s + m) →
    (List.range' s m).filterMap (fun v => (mget v row).map (fun w => (v, w))) = row
  | [], s, m, _, _ => by
    rw [List.filterMap_eq_nil_iff]
    intro v _
    simp [mget]
  | (k, x) :: rest, s, m, hs, hb => by
    have hk := hb (k, x) (by simp)
    simp only at hk
    unfold SortedK at hs
    rw [List.pairwise_cons] at hs
    have hsplit : List.range' s m = List.range' s (k - s) ++ k :: List.range' (k + 1) (s + m - k - 1) := by
      have h1 : m = (k - s) + (s + m - k) := by omega
      have h2 : s + m - k = (s + m - k - 1) + 1 := by omega
      conv => lhs; rw [h1, ← List.range'_append_1]
      have : s + (k - s) = k := by omega
      rw [this, h2, List.range'_succ]
      simp
    rw [hsplit, List.filterMap_append, List.filterMap_cons]
    have hfirst : (List.range' s (k - s)).filterMap (fun v => (mget v ((k, x) :: rest)).map (fun w => (v, w))) = [] := by
      rw [List.filterMap_eq_nil_iff]
      intro v hv
      have hv := (List.mem_range'_1.1 hv)
      have h1 : ¬ v = k := by omega
      have h2 : v < k := by omega
      simp [mget, h1, h2]
    have hmid : (mget k ((k, x) :: rest)).map (fun w => (k, w)) = some (k, x) := by simp [mget]
    have hrest : (List.range' (k + 1) (s + m - k - 1)).filterMap (fun v => (mget v ((k, x) :: rest)).map (fun w => (v, w)))
        = (List.range' (k + 1) (s + m - k - 1)).filterMap (fun v => (mget v rest).map (fun w => (v, w))) := by
      apply filterMap_congr'
      intro v hv
      have hv := (List.mem_range'_1.1 hv)
      have h1 : ¬ v = k := by omega
      have h2 : ¬ v < k := by omega
      simp [mget, h1, h2]
    rw [hfirst, hmid, hrest]
    simp only [List.nil_append]
    congr 1
    apply filterMap_mget_range' rest (k + 1) (s + m - k - 1) hs.2
    intro p hp
    have h1 := hs.1 p hp
    have h2 := hb p (by simp [hp])
    simp only at h1
    omega

theorem outNeighborsWeighted_spec {d : AdjListW} (h : d.WF) {u : Nat} (hu : u < d.order) :
    outNeighborsWeighted d u = some (Spec.outNeighborsWeighted (abs d) u) := by
  simp only [outNeighborsWeighted, row_get d hu, Spec.outNeighborsWeighted, abs, AdjListW.vertices, arcWeight_eq]
  congr 1
  rw [List.range_eq_range']
  exact (filterMap_mget_range' (row d u) 0 d.order (row_sorted h u) (fun p hp => by
    have := (row_mem h hp).2.1; omega)).symm

/-! ### `remove_arc` of an absent arc changes nothing -/
theorem merase_of_none {X : Type} {k : Nat} : ∀ {l : List (Nat × X)}, mget k l = none → AdjListW.merase k l = l
  | [], _ => rfl
  | (k', x) :: rest, h => by
    unfold mget at h
    unfold AdjListW.merase
    by_cases h1 : k = k'
    · simp [h1] at h
    · simp only [h1, if_false] at h ⊢
      by_cases h2 : k < k'
      · simp [h2]
      · simp only [h2, if_false] at h ⊢
        rw [merase_of_none h]

theorem removeArc_absent (d : AdjListW) {u v : Nat} (h : d.hasArc u v = false) : d.removeArc u v = (d, false) := by
  unfold AdjListW.removeArc
  unfold AdjListW.hasArc at h
  cases hr : d.rows[u]? with
  | none => rfl
  | some row =>
    rw [hr] at h
    simp only at h
    have hn : mget v row = none := by cases hm : mget v row <;> simp_all
    obtain ⟨hu, rfl⟩ := List.getElem?_eq_some_iff.1 hr
    simp only [merase_of_none hn, List.set_getElem_self, h]

end WL
end GraafVerif.Query
