import GraafVerif.Proof.OracleFastWDist
/-!
# `wdistArcsFast` (Bellman-Ford over a flat arc list, `H08.bfA`) equals `wdistB g [s]`

The round scans ONE flat arc list and re-reads the tail label for every arc — a different
relaxation order from `wdistB` (rows, tail label read once per row), so the intermediate label
vectors differ (e.g. after a negative loop).  But the arc-list round is a `RelaxRound` too
(`abRound_relax`), so its `n`-th iterate is tight iff no negative circuit is reachable, and tight
walk-weight labels are unique (`tight_unique`): the two oracles return the same flag always and
the same labels whenever the flag is down.
-/
namespace GraafVerif.OracleFastProof
open GraafVerif GraafVerif.OracleFast GraafVerif.OracleProof

/-- List twin of `abIn`: read the tail label, then the relaxation step `wIn` of `wdistB`. -/
def abInL (acc : List (Option Int) × Bool) (a : Nat × Nat × Int) : List (Option Int) × Bool :=
  match acc.1[a.1]?.getD none with
  | none => acc
  | some du => wIn du acc (a.2.1, a.2.2)

def abRoundL (arcs : List (Nat × Nat × Int)) (d : List (Option Int)) : List (Option Int) × Bool :=
  arcs.foldl abInL (d, false)

theorem abIn_sim (acc : Array (Option Int) × Bool) (a : Nat × Nat × Int) :
    toL (abIn acc a) = abInL (toL acc) a := by
  obtain ⟨ar, c⟩ := acc
  simp only [abIn, abInL, wIn, toL, getElem?_getD_toList]
  cases ar.toList[a.1]?.getD none with
  | none => rfl
  | some du =>
    simp only []
    cases ar.toList[a.2.1]?.getD none with
    | none => simp
    | some dv =>
      by_cases h : du + a.2.2 < dv
      · simp [h]
      · simp [h]

theorem abRound_sim (arcs : List (Nat × Nat × Int)) (d : Array (Option Int)) :
    toL (abRound arcs d) = abRoundL arcs d.toList :=
  foldl_sim toL abIn abInL abIn_sim _ _

theorem abInL_cases (acc : List (Option Int) × Bool) (a : Nat × Nat × Int) :
    (lk acc.1 a.1 = none ∧ abInL acc a = acc) ∨
    (∃ du, lk acc.1 a.1 = some du ∧ abInL acc a = wIn du acc (a.2.1, a.2.2)) := by
  unfold abInL lk
  cases h : acc.1[a.1]?.getD none with
  | none => left; exact ⟨rfl, rfl⟩
  | some du => right; exact ⟨du, rfl, rfl⟩

theorem abInL_length (acc : List (Option Int) × Bool) (a : Nat × Nat × Int) :
    (abInL acc a).1.length = acc.1.length := by
  rcases abInL_cases acc a with ⟨_, h⟩ | ⟨du, _, h⟩ <;> rw [h]
  exact wIn_length du acc _

theorem abInL_bnd (acc : List (Option Int) × Bool) (a : Nat × Nat × Int) {y : Nat} {c : Int}
    (h : BndL acc.1 y c) : BndL (abInL acc a).1 y c := by
  rcases abInL_cases acc a with ⟨_, h1⟩ | ⟨du, _, h1⟩ <;> rw [h1]
  · exact h
  · exact wIn_bnd du acc _ h

theorem abInL_flag_mono (acc : List (Option Int) × Bool) (a : Nat × Nat × Int) (h : acc.2 = true) :
    (abInL acc a).2 = true := by
  rcases abInL_cases acc a with ⟨_, h1⟩ | ⟨du, _, h1⟩ <;> rw [h1]
  · exact h
  · exact wIn_flag_mono du acc _ h

theorem abInL_foldl_flag_mono (l : List (Nat × Nat × Int)) (acc : List (Option Int) × Bool) (h : acc.2 = true) :
    (l.foldl abInL acc).2 = true :=
  foldl_inv (fun b : List (Option Int) × Bool => b.2 = true) abInL l
    (fun b a _ hb => abInL_flag_mono b a hb) acc h

/-- Flag down at the end: nothing changed and every listed arc is tight. -/
theorem abInL_foldl_noupdate : ∀ (l : List (Nat × Nat × Int)) (acc : List (Option Int) × Bool),
    (l.foldl abInL acc).2 = false →
    l.foldl abInL acc = acc ∧ ∀ a ∈ l, ∀ du, lk acc.1 a.1 = some du → BndL acc.1 a.2.1 (du + a.2.2) := by
  intro l
  induction l with
  | nil => intro a _; exact ⟨rfl, fun v hv => by cases hv⟩
  | cons b rest ih =>
    intro acc h
    rw [List.foldl_cons] at h ⊢
    have hb : (abInL acc b).2 = false := by
      cases hf : (abInL acc b).2 with
      | false => rfl
      | true => rw [abInL_foldl_flag_mono rest _ hf] at h; cases h
    have hstep : abInL acc b = acc ∧ ∀ du, lk acc.1 b.1 = some du → BndL acc.1 b.2.1 (du + b.2.2) := by
      rcases abInL_cases acc b with ⟨hn, h1⟩ | ⟨du, hdu, h1⟩
      · exact ⟨h1, fun du hdu => by rw [hn] at hdu; cases hdu⟩
      · rw [h1] at hb ⊢
        rcases wIn_cases du acc (b.2.1, b.2.2) with ⟨_, h2⟩ | ⟨dv, hdv, hle, h2⟩
        · rw [h2] at hb; cases hb
        · refine ⟨h2, fun du' hdu' => ?_⟩
          rw [hdu] at hdu'; cases hdu'
          exact ⟨dv, hdv, hle⟩
    rw [hstep.1] at h ⊢
    obtain ⟨e, hall⟩ := ih acc h
    refine ⟨e, fun a ha => ?_⟩
    rcases List.mem_cons.mp ha with rfl | ha
    · exact hstep.2
    · exact hall a ha

/-- The arc-list round is a relaxation round when `arcs` lists exactly the arcs of `g`. -/
theorem abRound_relax {g : WGraph} (hwf : g.WF) (S : List Nat) {arcs : List (Nat × Nat × Int)}
    (harcs : ∀ u v w, (u, v, w) ∈ arcs ↔ g.A u v w) : RelaxRound g S (abRoundL arcs) where
  inv := by
    intro d h
    refine foldl_inv (fun b : List (Option Int) × Bool => WInv g S b.1) abInL arcs ?_ (d, false) h
    intro b a ha hb
    rcases abInL_cases b a with ⟨_, h1⟩ | ⟨du, hdu, h1⟩ <;> rw [h1]
    · exact hb
    · exact wInv_wIn (vw := (a.2.1, a.2.2)) hb (hb.walk a.1 du hdu) ((harcs a.1 a.2.1 a.2.2).mp ha)
  bnd := by
    intro d y c h
    exact foldl_inv (fun b : List (Option Int) × Bool => BndL b.1 y c) abInL arcs
      (fun b a _ hb => abInL_bnd b a hb) (d, false) h
  arc := by
    intro d hlen u v w c ha hu
    have key := foldl_establish
      (fun a : List (Option Int) × Bool => a.1.length = g.n ∧ ∀ y c, BndL d y c → BndL a.1 y c)
      (fun (a : Nat × Nat × Int) (acc : List (Option Int) × Bool) =>
        ∀ c, BndL d a.1 c → BndL acc.1 a.2.1 (c + a.2.2))
      abInL arcs
      (fun acc a _ h => ⟨by rw [abInL_length]; exact h.1, fun y c hy => abInL_bnd acc a (h.2 y c hy)⟩)
      (fun acc a ha hI c hc => by
        obtain ⟨x, hx, hxc⟩ := hI.2 a.1 c hc
        have hA := (harcs a.1 a.2.1 a.2.2).mp ha
        rcases abInL_cases acc a with ⟨hn, _⟩ | ⟨du, hdu, h1⟩
        · rw [hn] at hx; cases hx
        · rw [hdu] at hx
          have hxe := Option.some.inj hx
          subst hxe
          rw [h1]
          have hlt : a.2.1 < acc.1.length := by rw [hI.1]; exact (hwf _ _ _ hA).2
          rcases wIn_cases du acc (a.2.1, a.2.2) with ⟨_, h2⟩ | ⟨dv, hdv, hle, h2⟩
          · rw [h2]
            refine ⟨du + a.2.2, ?_, by omega⟩
            show lk (acc.1.set a.2.1 _) a.2.1 = _
            rw [lk_set, if_pos ⟨rfl, hlt⟩]
          · rw [h2]; exact ⟨dv, hdv, by simp only [] at hle; omega⟩)
      (fun acc a c hc c' hc' => abInL_bnd acc a (hc c' hc'))
      (d, false) ⟨hlen, fun _ _ h => h⟩ (u, v, w) ((harcs u v w).mpr ha)
    exact key c hu
  noupd := by
    intro d h
    obtain ⟨e, hall⟩ := abInL_foldl_noupdate arcs (d, false) h
    refine ⟨by unfold abRoundL; rw [e], fun u v w du ha hdu => ?_⟩
    exact hall (u, v, w) ((harcs u v w).mpr ha) du hdu
  tight := by
    intro d ht
    refine foldl_inv (fun b : List (Option Int) × Bool => b = (d, false)) abInL arcs ?_ _ rfl
    intro b a ha hb
    subst hb
    have hA := (harcs a.1 a.2.1 a.2.2).mp ha
    rcases abInL_cases (d, false) a with ⟨_, h1⟩ | ⟨du, hdu, h1⟩ <;> rw [h1]
    rcases wIn_cases du (d, false) (a.2.1, a.2.2) with ⟨hc, _⟩ | ⟨_, _, _, h2⟩
    · exfalso
      obtain ⟨x, hx, hle⟩ := ht a.1 a.2.1 a.2.2 du hA hdu
      rcases hc with hn | ⟨dv, hdv, hlt⟩
      · rw [show lk (d, false).1 (a.2.1, a.2.2).1 = lk d a.2.1 from rfl, hx] at hn; cases hn
      · rw [show lk (d, false).1 (a.2.1, a.2.2).1 = lk d a.2.1 from rfl, hx] at hdv
        cases hdv
        simp only [] at hlt
        omega
    · exact h2

/-! ## The loop -/

/-- The loop's flag is the flag of the round after `fuel` rounds; when it is down the loop's labels
are the `fuel`-th iterate. -/
theorem abGo_spec {g : WGraph} {S : List Nat} {arcs : List (Nat × Nat × Int)}
    (hR : RelaxRound g S (abRoundL arcs)) : ∀ (fuel : Nat) (d : Array (Option Int)),
    (abGo arcs fuel d).2 = (abRoundL arcs (iter (abRoundL arcs) fuel d.toList)).2 ∧
    ((abGo arcs fuel d).2 = false → (abGo arcs fuel d).1.toList = iter (abRoundL arcs) fuel d.toList) := by
  intro fuel
  induction fuel with
  | zero =>
    intro d
    have h2 : (abRound arcs d).2 = (abRoundL arcs d.toList).2 := congrArg Prod.snd (abRound_sim arcs d)
    exact ⟨h2, fun _ => rfl⟩
  | succ f ih =>
    intro d
    have h1 : (abRound arcs d).1.toList = (abRoundL arcs d.toList).1 := congrArg Prod.fst (abRound_sim arcs d)
    have h2 : (abRound arcs d).2 = (abRoundL arcs d.toList).2 := congrArg Prod.snd (abRound_sim arcs d)
    rw [abGo]
    by_cases hc : (abRound arcs d).2 = true
    · rw [if_pos hc, iter, ← h1]
      exact ih _
    · rw [if_neg hc]
      have hc' : (abRoundL arcs d.toList).2 = false := by
        rw [← h2]; cases h : (abRound arcs d).2 with
        | false => rfl
        | true => exact absurd h hc
      obtain ⟨_, ht⟩ := hR.noupd _ hc'
      rw [iter_fix hR ht]
      exact ⟨hc'.symm, fun _ => rfl⟩

theorem singleInit_toList (g : WGraph) (s : Nat) :
    ((Array.replicate g.n (none : Option Int)).setIfInBounds s (some 0)).toList = wInit g [s] := by
  simp [wInit]

/-- **The flag of `wdistArcsFast` is the flag of `wdistB g [s]`.** -/
theorem wdistArcsFast_flag {g : WGraph} (hwf : g.WF) {arcs : List (Nat × Nat × Int)}
    (harcs : ∀ u v w, (u, v, w) ∈ arcs ↔ g.A u v w) {s : Nat} (hs : s < g.n) :
    (wdistArcsFast g arcs s).2 = (wdistB g [s]).2 := by
  have hS : ∀ x ∈ [s], x < g.n := fun x hx => by rw [List.mem_singleton.mp hx]; exact hs
  have hR := abRound_relax hwf [s] harcs
  have h := (abGo_spec hR g.n ((Array.replicate g.n none).setIfInBounds s (some 0))).1
  rw [singleInit_toList] at h
  show (abGo arcs g.n _).2 = _
  rw [h, Bool.eq_iff_iff, iter_flag hR hwf hS (wInv_init g hS) (wInit_cov g hS), OracleProof.wdistB_flag hwf hS]

/-- **Flag down: `wdistArcsFast` returns exactly what `wdistB g [s]` returns.** -/
theorem wdistArcsFast_eq {g : WGraph} (hwf : g.WF) {arcs : List (Nat × Nat × Int)}
    (harcs : ∀ u v w, (u, v, w) ∈ arcs ↔ g.A u v w) {s : Nat} (hs : s < g.n)
    (hf : (wdistB g [s]).2 = false) : wdistArcsFast g arcs s = wdistB g [s] := by
  have hS : ∀ x ∈ [s], x < g.n := fun x hx => by rw [List.mem_singleton.mp hx]; exact hs
  have hR := abRound_relax hwf [s] harcs
  have hR' := wRound_relax hwf [s]
  have hfl := wdistArcsFast_flag hwf harcs hs
  have hspec := abGo_spec hR g.n ((Array.replicate g.n none).setIfInBounds s (some 0))
  rw [singleInit_toList] at hspec
  have hf' : (abGo arcs g.n ((Array.replicate g.n none).setIfInBounds s (some 0))).2 = false := by
    rw [← hf, ← hfl]; rfl
  have h1 := hspec.2 hf'
  have ht : TightL g (iter (abRoundL arcs) g.n (wInit g [s])) :=
    (hR.noupd _ (by rw [← hspec.1]; exact hf')).2
  have hinv := iter_inv hR (wInv_init g hS) g.n
  have hf2 := hf
  rw [wdistB_eq] at hf2
  have ht' : TightL g (wRoundsN g [s] g.n) := (wRound_noupdate hwf hf2).2
  have hinv' := wInv_rounds (g := g) hS g.n
  have hfst : (wdistArcsFast g arcs s).1 = (wdistB g [s]).1 := by
    show (abGo arcs g.n _).1.toList = _
    rw [h1, wdistB_eq]
    exact tight_unique hinv ht hinv' ht'
  exact Prod.ext hfst hfl

/-- The flat arc list of a well-formed digraph lists exactly its arcs. -/
theorem wgraphArcs_mem {g : WGraph} (hwf : g.WF) (u v : Nat) (w : Int) :
    (u, v, w) ∈ wgraphArcs g ↔ g.A u v w := by
  unfold wgraphArcs WGraph.A
  rw [List.mem_flatMap]
  constructor
  · rintro ⟨x, _, hx⟩
    rw [List.mem_map] at hx
    obtain ⟨vw, hvw, he⟩ := hx
    cases he
    exact hvw
  · intro h
    exact ⟨u, List.mem_range.mpr (hwf u v w h).1, List.mem_map.mpr ⟨(v, w), h, rfl⟩⟩

end GraafVerif.OracleFastProof
