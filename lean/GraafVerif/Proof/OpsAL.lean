import GraafVerif.Proof.OpsMerge
import GraafVerif.Proof.OpsPar
import GraafVerif.Spec.Ops
/-!
# `AdjacencyList::{complement, converse, union}` compute their set definitions (`∀ ap ≥ 1`)
-/
namespace GraafVerif.Ops
open GraafVerif.Repr

theorem hasArcAL_iff {d : AdjList} {u v : Nat} : d.hasArc u v = true ↔ v ∈ d.rows[u]?.getD [] := by
  unfold AdjList.hasArc
  cases h : d.rows[u]? <;> simp

theorem absAL_V {d : AdjList} {v : Nat} : (absAL d).V v ↔ v < d.order := by
  simp [absAL, AdjList.vertices]

theorem absAL_A {d : AdjList} {u v : Nat} : (absAL d).A u v ↔ v ∈ d.rows[u]?.getD [] := hasArcAL_iff

theorem wfAL_row {d : AdjList} (h : d.WF) (u : Nat) :
    SortedS (d.rows[u]?.getD []) ∧ ∀ v ∈ d.rows[u]?.getD [], v < d.order ∧ v ≠ u := by
  cases hr : d.rows[u]? with
  | none => simp [SortedS]
  | some row => simpa using h.2 u row hr

/-- `WF` means "valid digraph" at the abstract level. -/
theorem absAL_valid {d : AdjList} (h : d.WF) : (absAL d).Valid := by
  intro u v ha
  rw [absAL_A] at ha
  have hu : u < d.order := by
    cases hr : d.rows[u]? with
    | none => simp [hr] at ha
    | some row =>
      have := List.getElem?_eq_some_iff.mp hr
      exact this.1
  have := (wfAL_row h u).2 v ha
  exact ⟨absAL_V.mpr hu, absAL_V.mpr this.1, fun e => this.2 e.symm⟩

/-- A row-wise defined adjacency list: reading row `u`. -/
theorem rows_map_range (f : Nat → List Nat) (n u : Nat) :
    ((List.range n).map f)[u]?.getD [] = if u < n then f u else [] := by
  by_cases h : u < n
  · simp [h]
  · simp [h]

/-! ## complement -/

theorem diffLoop_spec (u : Nat) : ∀ (full out : List Nat), SortedS full → SortedS out →
    (∀ b ∈ out, b ∈ full ∧ b ≠ u) →
    diffLoop u full out = full.filter (fun a => a != u && !out.contains a) := by
  intro full
  induction full with
  | nil => intro out _ _ _; cases out <;> simp [diffLoop]
  | cons a full ih =>
    intro out hf ho hsub
    have hf' := hf
    unfold SortedS at hf
    rw [List.pairwise_cons] at hf
    cases out with
    | nil =>
      unfold diffLoop
      have := ih [] hf.2 (by simp [SortedS]) (by simp)
      by_cases hau : a = u
      · simp [hau, this]
      · simp [hau, this]
    | cons b out =>
      have ho' := ho
      unfold SortedS at ho
      rw [List.pairwise_cons] at ho
      unfold diffLoop
      by_cases hau : a = u
      · rw [if_pos hau]
        have hsub' : ∀ b' ∈ b :: out, b' ∈ full ∧ b' ≠ u := by
          intro b' hb'
          have := hsub b' hb'
          rcases List.mem_cons.mp this.1 with e | hm
          · exact absurd (e.trans hau) this.2
          · exact ⟨hm, this.2⟩
        rw [ih (b :: out) hf.2 ho' hsub', List.filter_cons]
        simp [hau]
      · rw [if_neg hau]
        by_cases hab : a = b
        · rw [if_pos hab]
          subst hab
          have hsub' : ∀ b' ∈ out, b' ∈ full ∧ b' ≠ u := by
            intro b' hb'
            have := hsub b' (List.mem_cons_of_mem _ hb')
            rcases List.mem_cons.mp this.1 with e | hm
            · have := ho.1 b' hb'; omega
            · exact ⟨hm, this.2⟩
          rw [ih out hf.2 ho.2 hsub', List.filter_cons]
          simp only [List.contains_cons, beq_self_eq_true, Bool.true_or, Bool.not_true, Bool.and_false,
            Bool.false_eq_true, if_false]
          apply List.filter_congr
          intro x hx
          have := hf.1 x hx
          have hne : (x == a) = false := by simp; omega
          simp [hne]
        · rw [if_neg hab]
          have hb_full : b ∈ full := by
            have := (hsub b (by simp)).1
            rcases List.mem_cons.mp this with e | hm
            · exact absurd e.symm hab
            · exact hm
          have hab' : a < b := hf.1 b hb_full
          have hnot : (b :: out).contains a = false := by
            simp only [List.contains_cons, Bool.or_eq_false_iff]
            refine ⟨by simp; omega, ?_⟩
            cases hc : out.contains a
            · rfl
            · have := ho.1 a (by simpa using hc); omega
          have hsub' : ∀ b' ∈ b :: out, b' ∈ full ∧ b' ≠ u := by
            intro b' hb'
            have := hsub b' hb'
            rcases List.mem_cons.mp this.1 with e | hm
            · subst e
              rcases List.mem_cons.mp hb' with e | hb'
              · omega
              · have := ho.1 b' hb'; omega
            · exact ⟨hm, this.2⟩
          rw [ih (b :: out) hf.2 ho' hsub', List.filter_cons]
          have hnot' : ¬ a ∈ out := by
            intro hc; have := ho.1 a hc; omega
          simp [hau, hab, hnot']

theorem complementRowAL_eq {d : AdjList} (h : d.WF) (u : Nat) :
    complementRowAL d u = complementRowSeq d u := by
  unfold complementRowAL complementRowSeq
  have hr := wfAL_row h u
  rw [diffLoop_spec u _ _ (sorted_range _) hr.1
    (fun b hb => ⟨by simpa using (hr.2 b hb).1, (hr.2 b hb).2⟩)]
  exact toSet_of_sorted (sorted_filter _ (sorted_range _))

theorem mem_complementRowSeq {d : AdjList} {u v : Nat} :
    v ∈ complementRowSeq d u ↔ v < d.order ∧ v ≠ u ∧ v ∉ d.rows[u]?.getD [] := by
  simp [complementRowSeq]

theorem complementSeqAL_wf {d : AdjList} (h : d.WF) : (complementSeqAL d).WF := by
  refine ⟨by simpa [complementSeqAL, AdjList.order] using h.1, ?_⟩
  intro u row hrow
  simp only [complementSeqAL, AdjList.order, List.length_map, List.length_range] at hrow ⊢
  rw [List.getElem?_map] at hrow
  cases hu : (List.range d.rows.length)[u]? with
  | none => simp [hu] at hrow
  | some u' =>
    have hu' := List.getElem?_eq_some_iff.mp hu
    obtain ⟨hlt, he⟩ := hu'
    simp at he hlt
    subst he
    simp only [hu, Option.map_some, Option.some.injEq] at hrow
    subst hrow
    rw [complementRowAL_eq h]
    refine ⟨sorted_filter _ (sorted_range _), ?_⟩
    intro v hv
    have := mem_complementRowSeq.mp hv
    exact ⟨this.1, this.2.1⟩

theorem complementSeqAL_abs {d : AdjList} (h : d.WF) :
    absAL (complementSeqAL d) = specComplement (absAL d) := by
  rw [DG.ext_iff']
  constructor
  · intro v; simp [absAL_V, specComplement, complementSeqAL, AdjList.order]
  · intro u v
    rw [absAL_A]
    simp only [specComplement, absAL_V, absAL_A, complementSeqAL]
    rw [rows_map_range]
    split
    · rename_i hu
      rw [complementRowAL_eq h, mem_complementRowSeq]
      have : u < d.order := hu
      constructor
      · rintro ⟨h1, h2, h3⟩; exact ⟨this, h1, fun e => h2 e.symm, h3⟩
      · rintro ⟨_, h1, h2, h3⟩; exact ⟨h1, fun e => h2 e.symm, h3⟩
    · rename_i hu
      have : ¬ u < d.order := hu
      simp [this]

/-- `AdjacencyList::complement`, every thread count: returns, result `WF`, abstracts to the
set definition. -/
theorem complementAL_spec (d : AdjList) (ap : Nat) (hap : 0 < ap) (h : d.WF) :
    ∃ r, complementAL d ap = some r ∧ r.WF ∧ absAL r = specComplement (absAL d) :=
  ⟨_, complementAL_par_eq_seq d ap hap h.1, complementSeqAL_wf h, complementSeqAL_abs h⟩

/-! ## union -/

theorem unionRowAL_eq (a b : AdjList) (u : Nat) :
    unionRowAL a b u = unionSets (a.rows[u]?.getD []) (b.rows[u]?.getD []) := by
  unfold unionRowAL unionSets AdjList.order
  have ha : (if u < a.rows.length then a.rows[u]?.getD [] else []) = a.rows[u]?.getD [] := by
    split
    · rfl
    · rename_i h; simp [List.getElem?_eq_none (Nat.le_of_not_lt h)]
  have hb : (if u < b.rows.length then b.rows[u]?.getD [] else []) = b.rows[u]?.getD [] := by
    split
    · rfl
    · rename_i h; simp [List.getElem?_eq_none (Nat.le_of_not_lt h)]
  simp only [ha, hb]

theorem row_nil_of_ge {d : AdjList} {u : Nat} (h : d.order ≤ u) : d.rows[u]?.getD [] = [] := by
  simp [List.getElem?_eq_none h]

theorem unionSeqAL_wf {a b : AdjList} (ha : a.WF) (hb : b.WF) : (unionSeqAL a b).WF := by
  have hord : (unionSeqAL a b).order = max a.order b.order := by simp [unionSeqAL, AdjList.order]
  refine ⟨by rw [hord]; have := ha.1; omega, ?_⟩
  intro u row hrow
  rw [hord]
  simp only [unionSeqAL] at hrow
  have hget : ((List.range (max a.order b.order)).map (unionRowAL a b))[u]?.getD [] = row := by
    rw [hrow]; rfl
  rw [rows_map_range] at hget
  have hu : u < max a.order b.order := by
    have := (List.getElem?_eq_some_iff.mp hrow).1
    simpa using this
  rw [if_pos hu, unionRowAL_eq] at hget
  subst hget
  refine ⟨sorted_unionSets _ _, ?_⟩
  intro v hv
  rcases mem_unionSets.mp hv with hv | hv
  · have := (wfAL_row ha u).2 v hv; exact ⟨by omega, this.2⟩
  · have := (wfAL_row hb u).2 v hv; exact ⟨by omega, this.2⟩

theorem unionSeqAL_abs (a b : AdjList) : absAL (unionSeqAL a b) = specUnion (absAL a) (absAL b) := by
  rw [DG.ext_iff']
  constructor
  · intro v
    simp only [absAL_V, specUnion]
    simp only [unionSeqAL, AdjList.order, List.length_map, List.length_range]
    omega
  · intro u v
    rw [absAL_A]
    simp only [specUnion, absAL_A, unionSeqAL]
    rw [rows_map_range]
    split
    · rw [unionRowAL_eq, mem_unionSets]
    · rename_i hu
      rw [row_nil_of_ge (d := a) (by omega), row_nil_of_ge (d := b) (by omega)]
      simp

theorem unionAL_spec (a b : AdjList) (ap : Nat) (hap : 0 < ap) (ha : a.WF) (hb : b.WF) :
    ∃ r, unionAL a b ap = some r ∧ r.WF ∧ absAL r = specUnion (absAL a) (absAL b) :=
  ⟨_, unionAL_par_eq_seq a b ap hap (by have := ha.1; omega), unionSeqAL_wf ha hb, unionSeqAL_abs a b⟩

/-! ## converse -/

theorem mem_arcsAL {d : AdjList} {u v : Nat} : (u, v) ∈ d.arcs ↔ v ∈ d.rows[u]?.getD [] := by
  unfold AdjList.arcs
  rw [List.mem_flatMap]
  constructor
  · rintro ⟨⟨row, u'⟩, hm, hx⟩
    rw [List.mem_zipIdx_iff_getElem?] at hm
    simp only [List.mem_map, Prod.mk.injEq] at hx
    obtain ⟨v', hv', rfl, rfl⟩ := hx
    simp at hm
    simp [hm, hv']
  · intro hv
    cases hr : d.rows[u]? with
    | none => simp [hr] at hv
    | some row =>
      simp [hr] at hv
      refine ⟨(row, u), ?_, ?_⟩
      · rw [List.mem_zipIdx_iff_getElem?]; simpa using hr
      · simp [hv]

/-- One `converse[v].insert(u)`. -/
def convStep (conv : List (List Nat)) (a : Nat × Nat) : List (List Nat) :=
  conv.set a.2 (sinsert a.1 (conv[a.2]?.getD []))

theorem convStep_row (conv : List (List Nat)) (a : Nat × Nat) (v : Nat) :
    (convStep conv a)[v]?.getD [] =
      if v = a.2 ∧ a.2 < conv.length then sinsert a.1 (conv[a.2]?.getD []) else conv[v]?.getD [] := by
  unfold convStep
  rw [List.getElem?_set]
  by_cases h1 : a.2 = v
  · subst h1
    by_cases h2 : a.2 < conv.length
    · simp [h2]
    · simp [h2]
  · have : ¬ v = a.2 := fun e => h1 e.symm
    simp [h1, this]

theorem convFold_spec : ∀ (as : List (Nat × Nat)) (conv : List (List Nat)),
    (as.foldl convStep conv).length = conv.length ∧
    (∀ v : Nat, v < conv.length → ∀ u, u ∈ (as.foldl convStep conv)[v]?.getD [] ↔
      u ∈ conv[v]?.getD [] ∨ (u, v) ∈ as) ∧
    ((∀ v : Nat, SortedS (conv[v]?.getD [])) → ∀ v : Nat, SortedS ((as.foldl convStep conv)[v]?.getD [])) := by
  intro as
  induction as with
  | nil => intro conv; simp
  | cons a as ih =>
    intro conv
    have hlen : (convStep conv a).length = conv.length := by simp [convStep]
    obtain ⟨h1, h2, h3⟩ := ih (convStep conv a)
    simp only [List.foldl_cons]
    refine ⟨by rw [h1, hlen], ?_, ?_⟩
    · intro v hv u
      rw [h2 v (by omega) u, convStep_row]
      by_cases hva : v = a.2
      · subst hva
        simp only [true_and, hv, if_true, mem_sinsert, List.mem_cons]
        constructor
        · rintro ((rfl | h) | h)
          · exact Or.inr (Or.inl rfl)
          · exact Or.inl h
          · exact Or.inr (Or.inr h)
        · rintro (h | h | h)
          · exact Or.inl (Or.inr h)
          · left; left; rw [← h]
          · exact Or.inr h
      · simp only [hva, false_and, if_false, List.mem_cons]
        constructor
        · rintro (h | h)
          · exact Or.inl h
          · exact Or.inr (Or.inr h)
        · rintro (h | h | h)
          · exact Or.inl h
          · exfalso; apply hva; rw [← h]
          · exact Or.inr h
    · intro hs v
      apply h3
      intro v'
      rw [convStep_row]
      split
      · exact sorted_sinsert (hs _)
      · exact hs _

theorem converseAL_spec (d : AdjList) (h : d.WF) :
    ∃ r, converseAL d = some r ∧ r.WF ∧ absAL r = specConverse (absAL d) := by
  have hn := h.1
  have hfold : converseAL d = some ⟨d.arcs.foldl convStep (List.replicate d.order [])⟩ := by
    unfold converseAL
    rw [if_neg (by omega)]
    rfl
  obtain ⟨h1, h2, h3⟩ := convFold_spec d.arcs (List.replicate d.order [])
  simp only [List.length_replicate] at h1 h2
  have hinit : ∀ v : Nat, (List.replicate d.order ([] : List Nat))[v]?.getD [] = [] := by
    intro v
    by_cases hv : v < d.order
    · simp [hv]
    · simp [hv]
  have hrow : ∀ v u, u ∈ (d.arcs.foldl convStep (List.replicate d.order []))[v]?.getD [] ↔
      v < d.order ∧ v ∈ d.rows[u]?.getD [] := by
    intro v u
    by_cases hv : v < d.order
    · rw [h2 v hv u, hinit, mem_arcsAL]; simp [hv]
    · rw [List.getElem?_eq_none (by omega)]; simp [hv]
  have hsrc : ∀ u v, v ∈ d.rows[u]?.getD [] → u < d.order ∧ v < d.order ∧ v ≠ u := by
    intro u v hv
    have := (wfAL_row h u).2 v hv
    refine ⟨?_, this⟩
    cases hr : d.rows[u]? with
    | none => simp [hr] at hv
    | some row => exact (List.getElem?_eq_some_iff.mp hr).1
  have hord : (AdjList.mk (d.arcs.foldl convStep (List.replicate d.order []))).order = d.order := h1
  refine ⟨_, hfold, ⟨by rw [hord]; exact hn, ?_⟩, ?_⟩
  · intro v row hr
    have hget : (d.arcs.foldl convStep (List.replicate d.order []))[v]?.getD [] = row := by
      simp only [] at hr; rw [hr]; rfl
    refine ⟨by rw [← hget]; exact h3 (by intro v'; rw [hinit]; simp [SortedS]) v, ?_⟩
    intro u hu
    rw [← hget, hrow] at hu
    have := hsrc u v hu.2
    rw [hord]
    exact ⟨this.1, fun e => this.2.2 e.symm⟩
  · rw [DG.ext_iff']
    constructor
    · intro v; rw [absAL_V, hord]; simp [specConverse, absAL_V]
    · intro u v
      rw [absAL_A]
      simp only [specConverse, absAL_A]
      rw [hrow]
      constructor
      · exact fun hx => hx.2
      · intro hx; exact ⟨(hsrc v u hx).2.1, hx⟩

end GraafVerif.Ops
