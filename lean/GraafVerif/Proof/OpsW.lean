import GraafVerif.Proof.OpsSorted
import GraafVerif.Spec.Ops
/-!
# `AdjacencyListWeighted::converse` reverses every arc and carries its weight over
-/
namespace GraafVerif.Ops
open GraafVerif.Repr

abbrev WRow := List (Nat × Int)

theorem mget_none_of_lt_all {X : Type} {v : Nat} {m : List (Nat × X)} (h : ∀ e ∈ m, v < e.1) :
    mget v m = none := by
  cases m with
  | nil => rfl
  | cons e es =>
    have := h e (by simp)
    obtain ⟨k, x⟩ := e
    simp only [] at this
    simp [mget, Nat.ne_of_lt this, this]

/-- "Last entry with key `v` wins" over a key-sorted row is the map lookup. -/
theorem foldl_last_row {v : Nat} : ∀ (row : WRow) (acc : Option Int), SortedK row →
    row.foldl (fun acc p => if p.1 = v then some p.2 else acc) acc = (mget v row).or acc := by
  intro row
  induction row with
  | nil => intro acc _; simp [mget]
  | cons e es ih =>
    intro acc hs
    obtain ⟨k, x⟩ := e
    unfold SortedK at hs
    rw [List.pairwise_cons] at hs
    simp only [List.foldl_cons]
    rw [ih _ hs.2]
    by_cases hk : k = v
    · subst hk
      have : mget k es = none := mget_none_of_lt_all (fun e he => hs.1 e he)
      simp [mget, this]
    · have hk' : ¬ v = k := fun e => hk e.symm
      simp only [hk, if_false, mget, hk']
      by_cases hlt : v < k
      · have : mget v es = none :=
          mget_none_of_lt_all (fun e he => by have := hs.1 e he; simp only [] at this; omega)
        simp [hlt, this]
      · simp [hlt]

/-- `mget u` of row `v` after processing the arcs `as` = last `(u, v, _)` of `as`, else the old value. -/
def stepW (rows : List WRow) (a : Nat × Nat × Int) : List WRow :=
  rows.set a.2.1 (minsert a.1 a.2.2 (rows[a.2.1]?.getD []))

theorem stepW_row (rows : List WRow) (a : Nat × Nat × Int) (v : Nat) :
    (stepW rows a)[v]?.getD [] =
      if v = a.2.1 ∧ a.2.1 < rows.length then minsert a.1 a.2.2 (rows[a.2.1]?.getD []) else rows[v]?.getD [] := by
  unfold stepW
  rw [List.getElem?_set]
  by_cases h1 : a.2.1 = v
  · subst h1
    by_cases h2 : a.2.1 < rows.length
    · simp [h2]
    · simp [h2]
  · have : ¬ v = a.2.1 := fun e => h1 e.symm
    simp [h1, this]

theorem foldlM_stepW (as : List (Nat × Nat × Int)) (rows : List WRow)
    (h : ∀ a ∈ as, a.2.1 < rows.length) :
    as.foldlM (fun (rows : List WRow) a =>
      if a.2.1 < rows.length then
        some (rows.set a.2.1 (minsert a.1 a.2.2 (rows[a.2.1]?.getD [])))
      else none) rows = some (as.foldl stepW rows) := by
  induction as generalizing rows with
  | nil => simp
  | cons a as ih =>
    simp only [List.foldlM_cons, List.foldl_cons]
    rw [if_pos (h a (by simp))]
    simp only [Option.bind_eq_bind, Option.bind_some]
    exact ih (stepW rows a) (fun x hx => by simpa [stepW] using h x (by simp [hx]))

theorem foldl_stepW_spec : ∀ (as : List (Nat × Nat × Int)) (rows : List WRow),
    (∀ v : Nat, SortedK (rows[v]?.getD [])) →
    (as.foldl stepW rows).length = rows.length ∧
    (∀ v : Nat, SortedK ((as.foldl stepW rows)[v]?.getD [])) ∧
    ∀ v : Nat, v < rows.length → ∀ u, mget u ((as.foldl stepW rows)[v]?.getD []) =
      as.foldl (fun acc a => if a.1 = u ∧ a.2.1 = v then some a.2.2 else acc) (mget u (rows[v]?.getD [])) := by
  intro as
  induction as with
  | nil => intro rows hs; exact ⟨rfl, hs, fun _ _ _ => rfl⟩
  | cons a as ih =>
    intro rows hs
    have hs1 : ∀ v : Nat, SortedK ((stepW rows a)[v]?.getD []) := by
      intro v
      rw [stepW_row]
      split
      · exact sortedK_mupsert (hs _)
      · exact hs _
    have hlen : (stepW rows a).length = rows.length := by simp [stepW]
    obtain ⟨h1, h2, h3⟩ := ih (stepW rows a) hs1
    simp only [List.foldl_cons]
    refine ⟨by rw [h1, hlen], h2, ?_⟩
    intro v hv u
    rw [h3 v (by omega) u, stepW_row]
    congr 1
    by_cases hva : v = a.2.1
    · subst hva
      simp only [hv, if_true, and_true]
      rw [minsert, mget_mupsert (hs _)]
      by_cases hu : u = a.1
      · subst hu; simp
      · have : ¬ a.1 = u := fun e => hu e.symm
        simp [hu, this]
    · have : ¬ a.2.1 = v := fun e => hva e.symm
      simp [hva, this]

theorem mem_arcsWeighted {d : AdjListW} {u v : Nat} {w : Int} :
    (u, v, w) ∈ d.arcsWeighted ↔ (v, w) ∈ d.rows[u]?.getD [] := by
  unfold AdjListW.arcsWeighted
  rw [List.mem_flatMap]
  constructor
  · rintro ⟨⟨row, u'⟩, hm, hx⟩
    rw [List.mem_zipIdx_iff_getElem?] at hm
    simp only [List.mem_map, Prod.mk.injEq] at hx
    obtain ⟨⟨v', w'⟩, hv', rfl, rfl, rfl⟩ := hx
    simp at hm
    simp [hm, hv']
  · intro hv
    cases hr : d.rows[u]? with
    | none => simp [hr] at hv
    | some row =>
      simp [hr] at hv
      refine ⟨(row, u), ?_, ?_⟩
      · rw [List.mem_zipIdx_iff_getElem?]; simpa using hr
      · simp only [List.mem_map]
        exact ⟨(v, w), hv, rfl⟩

/-- The "last `(u, v, _)` wins" fold over all weighted arcs is the lookup of `v` in row `u`. -/
theorem foldl_last_zipIdx {u v : Nat} : ∀ (rows : List WRow) (k : Nat) (acc : Option Int),
    (∀ row ∈ rows, SortedK row) →
    ((rows.zipIdx k).flatMap (fun x => x.1.map (fun p => (x.2, p.1, p.2)))).foldl
      (fun acc (a : Nat × Nat × Int) => if a.1 = u ∧ a.2.1 = v then some a.2.2 else acc) acc =
    if k ≤ u ∧ u - k < rows.length then (mget v (rows[u - k]?.getD [])).or acc else acc := by
  intro rows
  induction rows with
  | nil => intro k acc _; simp
  | cons row rows ih =>
    intro k acc hs
    simp only [List.zipIdx_cons, List.flatMap_cons, List.foldl_append]
    rw [ih (k + 1) _ (fun r hr => hs r (by simp [hr]))]
    have hinner : (row.map (fun p => (k, p.1, p.2))).foldl
        (fun acc (a : Nat × Nat × Int) => if a.1 = u ∧ a.2.1 = v then some a.2.2 else acc) acc =
        if k = u then (mget v row).or acc else acc := by
      rw [List.foldl_map]
      by_cases hk : k = u
      · simp only [hk, true_and, if_true]
        exact foldl_last_row row acc (hs row (by simp))
      · simp only [hk, false_and, if_false]
        clear ih hs
        induction row generalizing acc with
        | nil => rfl
        | cons _ _ ih2 => simpa using ih2 acc
    rw [hinner]
    by_cases hk : k = u
    · subst hk
      rw [if_neg (by omega)]
      simp
    · simp only [hk, if_false, List.length_cons]
      by_cases hc : k + 1 ≤ u ∧ u - (k + 1) < rows.length
      · have hc' : k ≤ u ∧ u - k < rows.length + 1 := by omega
        rw [if_pos hc, if_pos hc']
        have : u - k = (u - (k + 1)) + 1 := by omega
        rw [this, List.getElem?_cons_succ]
      · have hc' : ¬ (k ≤ u ∧ u - k < rows.length + 1) := by omega
        rw [if_neg hc, if_neg hc']

theorem wfW_row {d : AdjListW} (h : d.WF) (u : Nat) :
    SortedK (d.rows[u]?.getD []) ∧ ∀ p ∈ d.rows[u]?.getD [], p.1 < d.order ∧ p.1 ≠ u := by
  cases hr : d.rows[u]? with
  | none => simp [SortedK]
  | some row => simpa using h.2 u row hr

theorem arcWeight_eq {d : AdjListW} {u v : Nat} : d.arcWeight u v = mget v (d.rows[u]?.getD []) := by
  unfold AdjListW.arcWeight
  cases d.rows[u]? <;> simp [mget]

theorem absW_V {d : AdjListW} {v : Nat} : (absW d).V v ↔ v < d.order := by
  simp [absW, AdjListW.vertices]

theorem absW_A {d : AdjListW} {u v : Nat} {w : Int} :
    (absW d).A u v w ↔ mget v (d.rows[u]?.getD []) = some w := by
  simp [absW, arcWeight_eq]

theorem mem_row_lt {d : AdjListW} {u : Nat} {p : Nat × Int} (hp : p ∈ d.rows[u]?.getD []) : u < d.order := by
  cases hr : d.rows[u]? with
  | none => simp [hr] at hp
  | some row => exact (List.getElem?_eq_some_iff.mp hr).1

theorem absW_valid {d : AdjListW} (h : d.WF) : (absW d).Valid := by
  constructor
  · intro u v w ha
    rw [absW_A, mget_eq_some_iff (wfW_row h u).1] at ha
    have := (wfW_row h u).2 _ ha
    exact ⟨absW_V.mpr (mem_row_lt ha), absW_V.mpr this.1, fun e => this.2 e.symm⟩
  · intro u v w w' h1 h2
    rw [absW_A] at h1 h2
    rw [h1] at h2
    exact Option.some.inj h2

theorem converseW_spec (d : AdjListW) (h : d.WF) :
    ∃ r, converseW d = some r ∧ r.WF ∧ absW r = specConverseW (absW d) := by
  have hn := h.1
  have hvalid : ∀ a ∈ d.arcsWeighted, a.2.1 < (List.replicate d.order ([] : WRow)).length := by
    rintro ⟨u, v, w⟩ ha
    rw [mem_arcsWeighted] at ha
    simpa using ((wfW_row h u).2 _ ha).1
  have hinit : ∀ v : Nat, (List.replicate d.order ([] : WRow))[v]?.getD [] = [] := by
    intro v
    by_cases hv : v < d.order
    · simp [hv]
    · simp [hv]
  obtain ⟨h1, h2, h3⟩ := foldl_stepW_spec d.arcsWeighted (List.replicate d.order [])
    (by intro v; rw [hinit]; simp [SortedK])
  simp only [List.length_replicate] at h1 h3
  have hsorted : ∀ row ∈ d.rows, SortedK row := by
    intro row hr
    obtain ⟨i, hi, rfl⟩ := List.mem_iff_getElem.mp hr
    exact (h.2 i _ (by simp [hi])).1
  have hlook : ∀ v : Nat, v < d.order → ∀ u,
      mget u ((d.arcsWeighted.foldl stepW (List.replicate d.order []))[v]?.getD []) =
        mget v (d.rows[u]?.getD []) := by
    intro v hv u
    rw [h3 v hv u, hinit]
    have := foldl_last_zipIdx (u := u) (v := v) d.rows 0 none hsorted
    have harcs : d.arcsWeighted =
        (d.rows.zipIdx 0).flatMap (fun x => x.1.map (fun p => (x.2, p.1, p.2))) := rfl
    rw [harcs]
    simp only [mget]
    rw [this]
    by_cases hu : u < d.rows.length
    · simp [hu]
    · simp [hu, mget]
  let r : AdjListW := ⟨d.arcsWeighted.foldl stepW (List.replicate d.order [])⟩
  have hord : r.order = d.order := h1
  have hconv : converseW d = some r := by
    unfold converseW
    rw [foldlM_stepW _ _ hvalid]
    rfl
  have hrowmem : ∀ (v u : Nat) (w : Int), (u, w) ∈ r.rows[v]?.getD [] → (v, w) ∈ d.rows[u]?.getD [] := by
    intro v u w hm
    have hv : v < d.order := by rw [← hord]; exact mem_row_lt hm
    rw [← mget_eq_some_iff (h2 v)] at hm
    rw [hlook v hv u, mget_eq_some_iff (wfW_row h u).1] at hm
    exact hm
  refine ⟨r, hconv, ⟨by rw [hord]; exact hn, ?_⟩, ?_⟩
  · intro v row hr
    have hget : r.rows[v]?.getD [] = row := by rw [hr]; rfl
    refine ⟨by rw [← hget]; exact h2 v, ?_⟩
    rintro ⟨u, w⟩ hp
    rw [← hget] at hp
    have hm := hrowmem v u w hp
    have := (wfW_row h u).2 _ hm
    rw [hord]
    exact ⟨mem_row_lt hm, fun e => this.2 e.symm⟩
  · rw [WDG.ext_iff']
    constructor
    · intro v; rw [absW_V, hord]; simp [specConverseW, absW_V]
    · intro v u w
      rw [absW_A]
      simp only [specConverseW]
      rw [absW_A]
      by_cases hv : v < d.order
      · rw [hlook v hv u]
      · have : r.rows[v]? = none := List.getElem?_eq_none (by rw [← hord] at hv; exact Nat.le_of_not_lt hv)
        rw [this]
        simp only [Option.getD_none, mget]
        constructor
        · intro hc; cases hc
        · intro hm
          rw [mget_eq_some_iff (wfW_row h u).1] at hm
          exact absurd ((wfW_row h u).2 _ hm).1 hv

end GraafVerif.Ops
