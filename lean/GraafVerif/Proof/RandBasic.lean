import GraafVerif.Model.Rand
/-! Container lemmas used by the C15 proofs (`BTreeSet`/`BTreeMap` models of `Model/Repr.lean`). -/
namespace GraafVerif.Rand
open GraafVerif.Repr

theorem mem_sinsert (a x : Nat) (l : List Nat) : x ∈ sinsert a l ↔ x = a ∨ x ∈ l := by
  induction l with
  | nil => simp [sinsert]
  | cons y ys ih =>
    unfold sinsert
    split
    · simp
    · split
      · subst_vars; simp
      · simp [ih]; grind

theorem sinsert_comm (a b : Nat) (l : List Nat) : sinsert a (sinsert b l) = sinsert b (sinsert a l) := by
  induction l with
  | nil => simp [sinsert]; grind
  | cons y ys ih => simp [sinsert]; grind [sinsert]

theorem mem_pinsert (a x : Nat × Nat) (l : List (Nat × Nat)) : x ∈ pinsert a l ↔ x = a ∨ x ∈ l := by
  induction l with
  | nil => simp [pinsert]
  | cons y ys ih =>
    unfold pinsert
    split
    · simp
    · split
      · subst_vars; simp
      · simp [ih]; grind

end GraafVerif.Rand
