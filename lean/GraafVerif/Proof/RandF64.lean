import GraafVerif.Proof.RandSched
/-! The integer arithmetic of the model read as rational numbers; the array-backed stream of the driver. -/
namespace GraafVerif.Rand

theorem nextF64_range (w : UInt64) : 0 ≤ nextF64 w ∧ nextF64 w < 1 := by
  unfold nextF64
  constructor
  · rw [Rat.div_def]
    apply Rat.mul_nonneg
    · exact_mod_cast Nat.zero_le _
    · exact Rat.le_of_lt (Rat.inv_pos.2 (Rat.pow_pos (by decide)))
  · rw [Rat.div_lt_iff (Rat.pow_pos (by decide))]
    simp
    exact_mod_cast mant_lt w

/-- the integer comparison of the model is the comparison of the two rational values -/
theorem f64lt_fin (w : UInt64) (num : Int) :
    f64lt w (.fin num) = true ↔ nextF64 w < (num : Rat) / 2^1074 := by
  unfold f64lt nextF64
  simp only [decide_eq_true_eq]
  have h52 : (0:Rat) < 2^52 := Rat.pow_pos (by decide)
  have h1074 : (0:Rat) < 2^1074 := Rat.pow_pos (by decide)
  rw [Rat.lt_div_iff h1074]
  have hsplit : (2:Rat)^1074 = 2^52 * 2^1022 := Lean.Grind.Semiring.pow_add (2:Rat) 52 1022
  rw [hsplit, ← Rat.mul_assoc, Rat.div_mul_cancel (Rat.ne_of_gt h52)]
  constructor
  · intro h; exact_mod_cast h
  · intro h; exact_mod_cast h

/-! ### the driver's materialised stream is the stream of the seed -/

theorem Xo.iter_succ' (x : Xo) (i : Nat) : x.iter (i + 1) = x.next.2.iter i := by
  induction i with
  | zero => rfl
  | succ i ih => simp only [Xo.iter] at ih ⊢; rw [ih]

theorem xoTake_go_toList (fuel : Nat) (x : Xo) (acc : Array UInt64) :
    (xoTake.go fuel x acc).toList = acc.toList ++ (List.range fuel).map fun i => (x.iter i).next.1 := by
  induction fuel generalizing x acc with
  | zero => simp [xoTake.go]
  | succ f ih =>
    simp only [xoTake.go]
    rw [ih, List.range_succ_eq_map]
    simp only [Array.toList_push, List.append_assoc, List.map_cons, List.map_map, Function.comp_def,
      Xo.iter_succ', List.singleton_append]
    rfl

theorem streamOfArray_xoTake (seed : UInt64) (k i : Nat) (h : i < k) :
    streamOfArray (xoTake seed k) i = xoStream seed i := by
  unfold streamOfArray xoTake xoStream
  have hl := xoTake_go_toList k (Xo.new seed) (Array.mkEmpty k)
  have : (xoTake.go k (Xo.new seed) (Array.mkEmpty k)).toList[i]? = some ((Xo.new seed).iter i).next.1 := by
    rw [hl]; simp [h]
  rw [Array.getD_eq_getD_getElem?, ← Array.getElem?_toList, this]; rfl

end GraafVerif.Rand
