import GraafVerif.Proof.AlgoGen4Deg
import GraafVerif.Model.Pred
/-!
# Generated `AdjacencyList::is_semicomplete` = the hand-written functional worker model `Pred.AL.isSemicomplete d t`

Under the reading of DESIGN.md §4.2 (every worker runs to completion at its spawn point, the `AtomicBool` is a plain
Boolean variable) the flag after the scope is the conjunction of the workers' verdicts.
-/
set_option linter.unusedSimpArgs false
namespace GraafVerif.AlgoGenThm
open GraafVerif GraafVerif.AlgoGen GraafVerif.Repr

/-- a loop over a falling flag: an iteration leaves the loop once the flag is down, otherwise it lowers the flag
exactly when its item fails the test -/
theorem forLoop_flag {α β ρ : Type} (body : Bool → α → Blk Bool ρ Bool) (ok : α → Bool) (l : List α)
    (htrue : ∀ a ∈ l, body true a = .ok (ok a) ∨ (ok a = false ∧ body true a = brk false))
    (hfalse : ∀ a ∈ l, body false a = brk false ∨ body false a = .ok false) :
    ∀ (l' : List α) (b : Bool), (∀ a ∈ l', a ∈ l) → (forLoop body l' b : Blk β ρ Bool) = .ok (b && l'.all ok) := by
  intro l'
  induction l' with
  | nil => intro b _; simp
  | cons a l' ih =>
    intro b hsub
    have ha := hsub a List.mem_cons_self
    have hsub' : ∀ x ∈ l', x ∈ l := fun x hx => hsub x (List.mem_cons_of_mem _ hx)
    cases b with
    | false =>
      rcases hfalse a ha with h | h
      · rw [forLoop_cons_brk (s' := false) (h := h)]; rfl
      · rw [forLoop_cons_ok (s' := false) (h := h), ih false hsub']; rfl
    | true =>
      rcases htrue a ha with h | ⟨h0, h⟩
      · rw [forLoop_cons_ok (s' := ok a) (h := h), ih (ok a) hsub']
        simp
      · rw [forLoop_cons_brk (s' := false) (h := h)]
        simp [h0]

namespace AdjacencyList

/-! ## `AdjacencyList::is_semicomplete` -/

theorem isSemicomplete_for2_eq (d : AdjList) (u v : Nat) (hu : u < d.rows.length) (hv : v < d.rows.length) :
    (AlgoGen.AdjacencyList.isSemicomplete_for2 d u true v : Blk Bool Bool Bool) = .ok (Pred.AL.pairOk d u v) ∨
      (Pred.AL.pairOk d u v = false ∧ (AlgoGen.AdjacencyList.isSemicomplete_for2 d u true v : Blk Bool Bool Bool) = brk false) := by
  unfold AlgoGen.AdjacencyList.isSemicomplete_for2 Pred.AL.pairOk Pred.AL.row
  simp only [Bool.true_eq_false, if_false, rd_lt _ _ _ hu, rd_lt _ _ _ hv, ok_bind, List.getElem?_eq_getElem hu,
    List.getElem?_eq_getElem hv, Option.getD_some]
  cases h1 : d.rows[u].contains v <;> cases h2 : d.rows[v].contains u <;> simp [brk, pure_eq_ok]

theorem isSemicomplete_for2_false (d : AdjList) (u v : Nat) :
    (AlgoGen.AdjacencyList.isSemicomplete_for2 d u false v : Blk Bool Bool Bool) = brk false := by
  unfold AlgoGen.AdjacencyList.isSemicomplete_for2
  simp

theorem isSemicomplete_for1_eq (d : AdjList) (u : Nat) (hu : u < d.order) :
    (AlgoGen.AdjacencyList.isSemicomplete_for1 d d.order true u : Blk Bool Bool Bool) = .ok (Pred.AL.rowOk d u) := by
  unfold AlgoGen.AdjacencyList.isSemicomplete_for1 Pred.AL.rowOk Pred.above AlgoGen.range
  simp only [Bool.true_eq_false, if_false]
  have hmem : ∀ v ∈ List.range' (u + 1) (d.order - (u + 1)), v < d.rows.length := by
    intro v hv
    have := (List.mem_range'_1.1 hv).2
    show v < d.order
    omega
  rw [forLoop_flag (β := Bool) (AlgoGen.AdjacencyList.isSemicomplete_for2 d u) (Pred.AL.pairOk d u) _
    (fun v hv => isSemicomplete_for2_eq d u v hu (hmem v hv))
    (fun v _ => Or.inl (isSemicomplete_for2_false d u v)) _ true (fun _ h => h)]
  simp

theorem isSemicomplete_for1_false (d : AdjList) (u : Nat) :
    (AlgoGen.AdjacencyList.isSemicomplete_for1 d d.order false u : Blk Bool Bool Bool) = brk false := by
  unfold AlgoGen.AdjacencyList.isSemicomplete_for1
  simp

theorem isSemicomplete_for0_eq (d : AdjList) (chunk : Nat) (b : Bool) (start : Nat) :
    (AlgoGen.AdjacencyList.isSemicomplete_for0 d d.order chunk b start : Blk Bool Bool Bool) =
      .ok (b && Pred.AL.scanChunk d (start, min d.order (start + chunk))) := by
  unfold AlgoGen.AdjacencyList.isSemicomplete_for0 Pred.AL.scanChunk AlgoGen.range
  dsimp only
  have hmem : ∀ u ∈ List.range' start (min d.order (start + chunk) - start), u < d.order := by
    intro u hu
    have h1 := (List.mem_range'_1.1 hu).1
    have h2 := (List.mem_range'_1.1 hu).2
    have : min d.order (start + chunk) ≤ d.order := Nat.min_le_left _ _
    omega
  rw [forLoop_flag (β := Bool) (AlgoGen.AdjacencyList.isSemicomplete_for1 d d.order) (Pred.AL.rowOk d) _
    (fun u hu => Or.inl (isSemicomplete_for1_eq d u (hmem u hu)))
    (fun u _ => Or.inl (isSemicomplete_for1_false d u)) _ b (fun _ h => h)]

theorem filterMap_eq_map_of {α γ : Type} (f : α → Option γ) (g : α → γ) : ∀ (l : List α), (∀ a ∈ l, f a = some (g a)) →
    l.filterMap f = l.map g := by
  intro l
  induction l with
  | nil => intro _; rfl
  | cons a l ih =>
    intro h
    rw [List.filterMap_cons, h a List.mem_cons_self, List.map_cons, ih (fun b hb => h b (List.mem_cons_of_mem _ hb))]

theorem stepByP_range {β ρ : Type} (n chunk : Nat) (hc : 0 < chunk) :
    (stepByP (List.range n) chunk : Blk β ρ (List Nat)) = .ok ((List.range ((n + chunk - 1) / chunk)).map (· * chunk)) := by
  unfold stepByP
  have : chunk ≠ 0 := by omega
  simp only [this, if_false, List.length_range]
  congr 1
  apply filterMap_eq_map_of
  intro i hi
  have hi' := List.mem_range.1 hi
  have hlt : i * chunk < n := by
    rcases Nat.lt_or_ge (i * chunk) n with h | h
    · exact h
    · have := (ceil_le_iff n chunk i hc).2 h
      omega
  simp [List.getElem?_range hlt]

/-- `AdjacencyList::is_semicomplete` with `available_parallelism() = ap ≥ 1` = the hand-written functional model
`Pred.AL.isSemicomplete d ap`, for every list of order `≥ 1` (no pointer read leaves the rows). -/
theorem isSemicomplete_eq (ap : Nat) (d : AdjList) (hap : 0 < ap) (hn : 0 < d.order) :
    AlgoGen.AdjacencyList.isSemicomplete ap d = .ok (Pred.AL.isSemicomplete d ap) := by
  unfold AlgoGen.AdjacencyList.isSemicomplete Pred.AL.isSemicomplete
  dsimp only
  by_cases h1 : d.order = 1
  · simp [h1]
  · have hb : (d.order == 1) = false := by simpa using h1
    simp only [h1, if_false, hb, Bool.false_eq_true, subP_le _ _ hn, ok_bind]
    by_cases hs : d.size < d.order * (d.order - 1) / 2
    · simp [hs]
    · have hc : 0 < (d.order + ap - 1) / ap := Nat.div_pos (by omega) hap
      simp only [hs, if_false, decide_false, Bool.false_eq_true, divCeilP_pos _ _ hap, ok_bind, stepByP_range _ _ hc]
      have hloop := forLoop_pure (β := Empty) (ρ := Bool) (AlgoGen.AdjacencyList.isSemicomplete_for0 d d.order ((d.order + ap - 1) / ap))
        (fun b start => b && Pred.AL.scanChunk d (start, min d.order (start + (d.order + ap - 1) / ap)))
        (fun b start => isSemicomplete_for0_eq d _ b start)
      rw [hloop]
      simp only [ok_bind, pure_eq_ok, fnBody_ok]
      congr 1
      rw [ranges_closed d.order ap hap hn, List.all_map, List.foldl_map]
      have hgen : ∀ (l : List Nat) (b : Bool),
          l.foldl (fun b i => b && Pred.AL.scanChunk d (i * ((d.order + ap - 1) / ap),
            min d.order (i * ((d.order + ap - 1) / ap) + (d.order + ap - 1) / ap))) b =
          (b && l.all ((Pred.AL.scanChunk d) ∘ fun i => (i * ((d.order + ap - 1) / ap),
            min d.order (i * ((d.order + ap - 1) / ap) + (d.order + ap - 1) / ap)))) := by
        intro l
        induction l with
        | nil => intro b; simp
        | cons i l ih => intro b; rw [List.foldl_cons, ih]; simp [Bool.and_assoc]
      rw [hgen]
      simp

end AdjacencyList
end GraafVerif.AlgoGenThm
