import GraafVerif.Proof.AlgoGen4Par
import GraafVerif.Proof.GenAL
/-!
# Generated parallel functions of `AdjacencyList` = the hand-written models with the thread count
-/
set_option linter.unusedSimpArgs false
namespace GraafVerif.AlgoGenThm
open GraafVerif GraafVerif.AlgoGen GraafVerif.Repr

theorem toSet_range (n : Nat) : Ops.toSet (List.range n) = List.range n :=
  Ops.toSet_of_sorted List.pairwise_lt_range

theorem ssetOf_range (n : Nat) : Gen.ssetOf (Gen.rangeFT 0 n) = List.range n := by
  apply Gen.sortedS_ext (Gen.sorted_ssetOf _) List.pairwise_lt_range
  intro a
  rw [Gen.mem_ssetOf]
  simp [Gen.rangeFT, List.range_eq_range']

namespace AdjacencyList

/-! ## `AdjacencyList::complete` -/

theorem complete_for1_eq (vertices : List Nat) (loc : List (Nat × List Nat)) (u : Nat) :
    (AlgoGen.AdjacencyList.complete_for1 vertices loc u : Blk (List (Nat × List Nat)) AdjList _) =
      .ok (loc ++ [(u, serase u vertices)]) := rfl

/-- one worker: the rows of its range -/
def completeW (n : Nat) (r : Nat × Nat) : List (Nat × List Nat) :=
  (Gen.rangeFT r.1 r.2).map fun u => (u, serase u (Ops.toSet (List.range n)))

theorem complete_for0_eq (n chunk : Nat) (handles : List (List (Nat × List Nat))) (id : Nat) :
    (AlgoGen.AdjacencyList.complete_for0 n chunk handles id : Blk (List (List (Nat × List Nat))) AdjList _) =
      if id * chunk ≥ min n (id * chunk + chunk) then brk handles
      else .ok (handles ++ [completeW n (id * chunk, min n (id * chunk + chunk))]) := by
  unfold AlgoGen.AdjacencyList.complete_for0
  dsimp only
  by_cases hge : id * chunk ≥ min n (id * chunk + chunk)
  · simp only [hge, if_true]
  · simp only [hge, if_false]
    rw [subP_le _ _ (by omega)]
    simp only [ok_bind]
    rw [forLoop_pure _ _ (complete_for1_eq _)]
    simp only [ok_bind, pure_eq_ok, foldl_snoc_map, List.nil_append]
    rfl

theorem complete_for2_eq (arcs : List (Nat × List Nat)) (h : List (Nat × List Nat)) :
    (AlgoGen.AdjacencyList.complete_for2 arcs h : Blk (List (Nat × List Nat)) AdjList _) = .ok (arcs ++ h) := rfl

theorem mergeSort_sorted {α : Type} (l : List (Nat × α)) (h : l.Pairwise (fun a b => a.1 ≤ b.1)) : sortByKey1 l = l := by
  unfold sortByKey1
  apply List.mergeSort_of_pairwise
  exact h.imp (fun h => by simpa using h)

/-- `AdjacencyList::complete(order)` with `available_parallelism() = ap ≥ 1` = the hand-written `Gen.AL.complete order ap`. -/
theorem complete_eq (ap n : Nat) (hap : 0 < ap) :
    AlgoGen.AdjacencyList.complete ap n = optR (Gen.AL.complete n ap) := by
  unfold AlgoGen.AdjacencyList.complete Gen.AL.complete
  by_cases h0 : n = 0
  · subst h0; rfl
  · have hpos : n > 0 := Nat.pos_of_ne_zero h0
    by_cases h1 : n = 1
    · subst h1; rfl
    · have ht : 0 < min n ap := by omega
      simp only [hpos, h0, h1, decide_true, assert_true, ok_bind, if_false, divCeilP_pos _ _ ht]
      have hloop := forLoop_ranges (β := Empty) (ρ := AdjList) n ((n + min n ap - 1) / min n ap)
        (AlgoGen.AdjacencyList.complete_for0 n ((n + min n ap - 1) / min n ap))
        (fun s r _ => .ok (s ++ [completeW n r]))
        (fun s id => complete_for0_eq n _ s id) (fun s r _ => Or.inl ⟨_, rfl⟩) (min n ap) 0 []
      rw [List.range_eq_range', hloop]
      rw [forLoop_pure (β := Empty) _ (fun s (rk : (Nat × Nat) × Nat) => s ++ [completeW n rk.1]) (fun _ _ => rfl)]
      simp only [ok_bind]
      rw [forLoop_pure (β := Empty) _ _ complete_for2_eq]
      simp only [ok_bind, pure_eq_ok, fnBody_ok, optR, foldl_append_flatten, List.nil_append]
      have hgo : (Par.ranges.go n ((n + min n ap - 1) / min n ap) (min n ap) 0) = Par.ranges n (min n ap) := rfl
      have hj : (List.foldl (fun s (rk : (Nat × Nat) × Nat) => s ++ [completeW n rk.1]) []
          ((Par.ranges n (min n ap)).zipIdx 0)).flatten = ((Par.ranges n (min n ap)).map (Gen.AL.completeWorker n)).flatten := by
        rw [foldl_snoc_map (fun (rk : (Nat × Nat) × Nat) => completeW n rk.1), List.nil_append]
        congr 1
        have : (fun (rk : (Nat × Nat) × Nat) => completeW n rk.1) = (Gen.AL.completeWorker n) ∘ Prod.fst := by
          funext rk
          simp only [completeW, Gen.AL.completeWorker, Function.comp, toSet_range, ssetOf_range]
        rw [this, ← List.map_map]
        congr 1
        exact List.zipIdx_map_fst _ _
      rw [hgo, hj]
      have hsorted : ((List.map (Gen.AL.completeWorker n) (Par.ranges n (min n ap))).flatten).Pairwise (fun a b => a.1 ≤ b.1) := by
        rw [Gen.AL.joined_eq, Par.chunks_tile n (min n ap) ht hpos, List.pairwise_map]
        exact (List.pairwise_lt_range (n := n)).imp (fun h => Nat.le_of_lt h)
      rw [mergeSort_sorted _ hsorted, Gen.AL.sortByKey_sorted _ hsorted]

/-! ## `AdjacencyList::complement` -/

/-- one round of the first loop, both cursors inside -/
theorem complement_while0_eq (full vec : List Nat) (u : Nat) (diff : List Nat) (i j : Nat)
    (hi : i < full.length) (hj : j < vec.length) :
    (AlgoGen.AdjacencyList.complement_while0 full full.length u vec vec.length (diff, i, j) : Blk _ AdjList _) =
      .ok (if full[i] = u then (diff, i + 1, j)
           else if full[i] = vec[j] then (diff, i + 1, j + 1) else (diff ++ [full[i]], i + 1, j)) := by
  unfold AlgoGen.AdjacencyList.complement_while0
  simp only [hi, hj, decide_true, Bool.and_self, if_true, rd_lt _ _ _ hi, rd_lt _ _ _ hj, ok_bind]
  by_cases h1 : full[i] = u
  · simp only [h1, if_true]; rfl
  · simp only [h1, if_false, ok_bind]
    by_cases h2 : full[i] = vec[j]
    · simp only [h2, if_true]; rfl
    · simp only [h2, if_false]; rfl

theorem complement_while0_exit (full vec : List Nat) (u : Nat) (diff : List Nat) (i j : Nat)
    (h : ¬ (i < full.length ∧ j < vec.length)) :
    (AlgoGen.AdjacencyList.complement_while0 full full.length u vec vec.length (diff, i, j) : Blk _ AdjList _) =
      brk (diff, i, j) := by
  unfold AlgoGen.AdjacencyList.complement_while0
  have : ((decide (i < full.length)) && (decide (j < vec.length))) = false := by
    by_cases h1 : i < full.length <;> by_cases h2 : j < vec.length <;> simp [h1, h2] at h ⊢
  simp only [this, Bool.false_eq_true, if_false]

theorem complement_while1_step (full : List Nat) (u : Nat) (diff : List Nat) (i : Nat) (hi : i < full.length) :
    (AlgoGen.AdjacencyList.complement_while1 full full.length u (diff, i) : Blk _ AdjList _) =
      .ok (if full[i] = u then (diff, i + 1) else (diff ++ [full[i]], i + 1)) := by
  unfold AlgoGen.AdjacencyList.complement_while1
  simp only [hi, if_true, rd_lt _ _ _ hi, ok_bind]
  by_cases h1 : full[i] = u
  · simp only [h1, if_true, ne_eq, not_true_eq_false, if_false]; rfl
  · simp only [h1, if_false, ne_eq, not_false_eq_true, if_true]; rfl

theorem complement_while1_exit (full : List Nat) (u : Nat) (diff : List Nat) (i : Nat) (hi : ¬ i < full.length) :
    (AlgoGen.AdjacencyList.complement_while1 full full.length u (diff, i) : Blk _ AdjList _) = brk (diff, i) := by
  unfold AlgoGen.AdjacencyList.complement_while1
  simp only [hi, if_false]

/-- the second loop alone: the rest of `full` minus `u` -/
theorem complement_while1_eq (full : List Nat) (u : Nat) : ∀ (m : Nat) (diff : List Nat) (i F : Nat),
    full.length - i ≤ m → full.length - i ≤ F → ∃ i',
    (whileLoop (AlgoGen.AdjacencyList.complement_while1 full full.length u) F (diff, i) : Blk (List (List Nat)) AdjList _) =
      .ok (diff ++ Ops.diffLoop u (full.drop i) [], i') := by
  intro m
  induction m with
  | zero =>
    intro diff i F hm _
    have hi : ¬ i < full.length := by omega
    have hd : full.drop i = [] := List.drop_eq_nil_of_le (by omega)
    refine ⟨i, ?_⟩
    rw [hd]
    cases F with
    | zero => simp [whileLoop, Ops.diffLoop]
    | succ F => simp [whileLoop, complement_while1_exit full u diff i hi, brk, Ops.diffLoop]
  | succ m ih =>
    intro diff i F hm hF
    by_cases hi : i < full.length
    · obtain ⟨F', rfl⟩ : ∃ F', F = F' + 1 := ⟨F - 1, by omega⟩
      have hd : full.drop i = full[i] :: full.drop (i + 1) := List.drop_eq_getElem_cons hi
      rw [hd]
      simp only [whileLoop, complement_while1_step full u diff i hi]
      by_cases h1 : full[i] = u
      · obtain ⟨i', h⟩ := ih diff (i + 1) F' (by omega) (by omega)
        refine ⟨i', ?_⟩
        simp only [h1, if_true, h, Ops.diffLoop]
      · obtain ⟨i', h⟩ := ih (diff ++ [full[i]]) (i + 1) F' (by omega) (by omega)
        refine ⟨i', ?_⟩
        simp only [h1, if_false, h, Ops.diffLoop, List.append_assoc, List.singleton_append]
    · have hd : full.drop i = [] := List.drop_eq_nil_of_le (by omega)
      refine ⟨i, ?_⟩
      rw [hd]
      cases F with
      | zero => simp [whileLoop, Ops.diffLoop]
      | succ F => simp [whileLoop, complement_while1_exit full u diff i hi, brk, Ops.diffLoop]

/-- both loops = the hand-written `diffLoop` on the remaining slices -/
theorem complement_loops_eq (full vec : List Nat) (u : Nat) : ∀ (m : Nat) (diff : List Nat) (i j F : Nat),
    full.length - i ≤ m → full.length - i ≤ F → ∃ i',
    ((whileLoop (AlgoGen.AdjacencyList.complement_while0 full full.length u vec vec.length) F (diff, i, j) :
        Blk (List (List Nat)) AdjList _) >>= fun t =>
      (whileLoop (AlgoGen.AdjacencyList.complement_while1 full full.length u) full.length (t.1, t.2.1) :
        Blk (List (List Nat)) AdjList _)) =
      .ok (diff ++ Ops.diffLoop u (full.drop i) (vec.drop j), i') := by
  intro m
  induction m with
  | zero =>
    intro diff i j F hm _
    have hi : ¬ (i < full.length ∧ j < vec.length) := by omega
    have hd : full.drop i = [] := List.drop_eq_nil_of_le (by omega)
    obtain ⟨i', h⟩ := complement_while1_eq full u 0 diff i full.length (by omega) (by omega)
    refine ⟨i', ?_⟩
    rw [hd] at h ⊢
    have hdl : ∀ o, Ops.diffLoop u [] o = [] := fun o => by cases o <;> rfl
    rw [hdl] at h ⊢
    cases F with
    | zero => simp only [whileLoop, ok_bind]; exact h
    | succ F => simp only [whileLoop, complement_while0_exit full vec u diff i j hi, brk, ok_bind]; exact h
  | succ m ih =>
    intro diff i j F hm hF
    by_cases hij : i < full.length ∧ j < vec.length
    · obtain ⟨hi, hj⟩ := hij
      obtain ⟨F', rfl⟩ : ∃ F', F = F' + 1 := ⟨F - 1, by omega⟩
      have hd : full.drop i = full[i] :: full.drop (i + 1) := List.drop_eq_getElem_cons hi
      have hv : vec.drop j = vec[j] :: vec.drop (j + 1) := List.drop_eq_getElem_cons hj
      rw [hd, hv]
      simp only [whileLoop, complement_while0_eq full vec u diff i j hi hj]
      by_cases h1 : full[i] = u
      · obtain ⟨i', h⟩ := ih diff (i + 1) j F' (by omega) (by omega)
        refine ⟨i', ?_⟩
        rw [hv] at h
        simp only [h1, if_true, h, Ops.diffLoop]
      · by_cases h2 : full[i] = vec[j]
        · obtain ⟨i', h⟩ := ih diff (i + 1) (j + 1) F' (by omega) (by omega)
          refine ⟨i', ?_⟩
          simp only [h1, h2, if_true, if_false, h, Ops.diffLoop]
          rw [← h2]
          simp only [h1, if_false]
          exact h
        · obtain ⟨i', h⟩ := ih (diff ++ [full[i]]) (i + 1) j F' (by omega) (by omega)
          refine ⟨i', ?_⟩
          rw [hv] at h
          simp only [h1, h2, if_false, h, Ops.diffLoop, List.append_assoc, List.singleton_append]
    · obtain ⟨i', h⟩ := complement_while1_eq full u (m + 1) diff i full.length hm (by omega)
      refine ⟨i', ?_⟩
      have hdl : Ops.diffLoop u (full.drop i) (vec.drop j) = Ops.diffLoop u (full.drop i) [] := by
        by_cases hi : i < full.length
        · have hj : vec.drop j = [] := List.drop_eq_nil_of_le (by omega)
          rw [hj]
        · have hd : full.drop i = [] := List.drop_eq_nil_of_le (by omega)
          rw [hd]
          cases vec.drop j <;> rfl
      rw [hdl]
      cases F with
      | zero => simp only [whileLoop, ok_bind]; exact h
      | succ F => simp only [whileLoop, complement_while0_exit full vec u diff i j hij, brk, ok_bind]; exact h

/-- row `u`: no out-of-bounds read for a vertex `u`; the hand-written `complementRowAL` -/
theorem complement_for1_eq (d : AdjList) (part : List (List Nat)) (u : Nat) (hu : u < d.order) :
    (AlgoGen.AdjacencyList.complement_for1 (List.range d.order) (List.range d.order).length d.rows part u :
        Blk (List (List Nat)) AdjList _) = .ok (part ++ [Ops.complementRowAL d u]) := by
  unfold AlgoGen.AdjacencyList.complement_for1 Ops.complementRowAL
  have hu' : u < d.rows.length := hu
  simp only [rd_lt _ _ _ hu', ok_bind]
  obtain ⟨i', h⟩ := complement_loops_eq (List.range d.order) d.rows[u] u (List.range d.order).length [] 0 0
    (List.range d.order).length (by omega) (by omega)
  simp only [List.drop_zero, List.nil_append] at h
  have hrow : d.rows[u]?.getD [] = d.rows[u] := by rw [List.getElem?_eq_getElem hu']; rfl
  rw [hrow]
  cases hw : (whileLoop (AlgoGen.AdjacencyList.complement_while0 (List.range d.order) (List.range d.order).length u d.rows[u]
      d.rows[u].length) (List.range d.order).length ([], 0, 0) : Blk (List (List Nat)) AdjList _) with
  | error e => rw [hw] at h; cases h
  | ok t =>
    rw [hw] at h
    simp only [ok_bind] at h ⊢
    rw [h]
    rfl

theorem complement_for2_eq (arcs : List (List Nat)) (h : List (List Nat)) :
    (AlgoGen.AdjacencyList.complement_for2 arcs h : Blk (List (List Nat)) AdjList _) = .ok (arcs ++ h) := rfl

/-- one worker of `complement` (a dummy panic for a range that leaves `0..order`: never produced by the chunking) -/
def complementW (d : AdjList) (s : List (List (List Nat))) (r : Nat × Nat) : Blk (List (List (List Nat))) AdjList (List (List (List Nat))) :=
  if r.2 ≤ d.order then .ok (s ++ [(List.range' r.1 (r.2 - r.1)).map (Ops.complementRowAL d)]) else panic

theorem complement_for0_eq (d : AdjList) (chunk : Nat) (handles : List (List (List Nat))) (id : Nat) :
    (AlgoGen.AdjacencyList.complement_for0 d.order (List.range d.order) (List.range d.order).length d.rows chunk handles id :
        Blk (List (List (List Nat))) AdjList _) =
      if id * chunk ≥ min d.order (id * chunk + chunk) then brk handles
      else complementW d handles (id * chunk, min d.order (id * chunk + chunk)) := by
  unfold AlgoGen.AdjacencyList.complement_for0 complementW
  dsimp only
  by_cases hge : id * chunk ≥ min d.order (id * chunk + chunk)
  · simp only [hge, if_true]
  · simp only [hge, if_false, Nat.min_le_left, if_true]
    rw [subP_le _ _ (by omega)]
    simp only [ok_bind]
    have hloop := forLoop_pure_inv (β := List (List (List Nat))) (ρ := AdjList) (fun _ : List (List Nat) => True)
      (AlgoGen.AdjacencyList.complement_for1 (List.range d.order) (List.range d.order).length d.rows)
      (fun part u => part ++ [Ops.complementRowAL d u]) (AlgoGen.range (id * chunk) (min d.order (id * chunk + chunk)))
      (fun part u hu _ => ⟨complement_for1_eq d part u (by
        have := (List.mem_range'_1.1 hu).2
        have : min d.order (id * chunk + chunk) ≤ d.order := Nat.min_le_left _ _
        omega), trivial⟩)
      _ [] (fun _ h => h) trivial
    rw [hloop.1]
    simp only [ok_bind, pure_eq_ok, foldl_snoc_map, List.nil_append]
    rfl

/-- `AdjacencyList::complement` with `available_parallelism() = ap` = the hand-written `Ops.complementAL d ap`,
for every value and every `ap` (0 included: both panic); in particular no unchecked read is out of bounds. -/
theorem complement_eq (ap : Nat) (d : AdjList) :
    AlgoGen.AdjacencyList.complement ap d = optR (Ops.complementAL d ap) := by
  unfold AlgoGen.AdjacencyList.complement Ops.complementAL
  dsimp only
  by_cases ht : min d.order ap = 0
  · simp only [ht, divCeilP_zero, if_true]
    rfl
  · have htp : 0 < min d.order ap := Nat.pos_of_ne_zero ht
    simp only [ht, if_false, divCeilP_pos _ _ htp, ok_bind]
    have hloop := forLoop_ranges (β := Empty) (ρ := AdjList) d.order ((d.order + min d.order ap - 1) / min d.order ap)
      (AlgoGen.AdjacencyList.complement_for0 d.order (List.range d.order) (List.range d.order).length d.rows
        ((d.order + min d.order ap - 1) / min d.order ap))
      (fun s r _ => complementW d s r)
      (fun s id => complement_for0_eq d _ s id)
      (fun s r _ => by
        unfold complementW
        by_cases h : r.2 ≤ d.order
        · exact Or.inl ⟨s ++ [(List.range' r.1 (r.2 - r.1)).map (Ops.complementRowAL d)], by simp only [h, if_true]⟩
        · exact Or.inr ⟨.fault .panic, by simp only [h, if_false]; rfl⟩)
      (min d.order ap) 0 []
    have hr : List.range (min d.order ap) = List.range' 0 (min d.order ap) := List.range_eq_range'
    rw [hr, hloop]
    have hgo : (Par.ranges.go d.order ((d.order + min d.order ap - 1) / min d.order ap) (min d.order ap) 0) =
        Par.ranges d.order (min d.order ap) := rfl
    rw [hgo]
    have hW := forLoop_pure_inv (β := Empty) (ρ := AdjList) (fun _ : List (List (List Nat)) => True)
      (fun s (rk : (Nat × Nat) × Nat) => complementW d s rk.1)
      (fun s rk => s ++ [(List.range' rk.1.1 (rk.1.2 - rk.1.1)).map (Ops.complementRowAL d)])
      ((Par.ranges d.order (min d.order ap)).zipIdx 0)
      (fun s rk hrk _ => ⟨by
        have hm := (List.mem_zipIdx hrk).2.2
        have hmem : rk.1 ∈ Par.ranges d.order (min d.order ap) := by rw [hm]; exact List.getElem_mem _
        have := (go_mem_lt d.order _ _ 0 rk.1 (hgo ▸ hmem)).2
        simp only [complementW, this, if_true], trivial⟩)
      _ [] (fun _ h => h) trivial
    rw [hW.1]
    simp only [ok_bind]
    rw [forLoop_pure (β := Empty) _ _ complement_for2_eq]
    simp only [ok_bind, pure_eq_ok, fnBody_ok, optR, foldl_append_flatten, List.nil_append]
    congr 2
    rw [foldl_snoc_map (fun (rk : (Nat × Nat) × Nat) => (List.range' rk.1.1 (rk.1.2 - rk.1.1)).map (Ops.complementRowAL d)),
      List.nil_append, List.flatMap_def]
    congr 1
    have : (fun (rk : (Nat × Nat) × Nat) => (List.range' rk.1.1 (rk.1.2 - rk.1.1)).map (Ops.complementRowAL d)) =
        (fun r : Nat × Nat => (List.range' r.1 (r.2 - r.1)).map (Ops.complementRowAL d)) ∘ Prod.fst := rfl
    rw [this, ← List.map_map, List.zipIdx_map_fst]

end AdjacencyList
end GraafVerif.AlgoGenThm
