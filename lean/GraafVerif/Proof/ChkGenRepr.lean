import GraafVerif.Proof.ChkGenRt
import GraafVerif.Thm.AlgoGen2
import GraafVerif.Thm.AlgoGen3
import GraafVerif.Thm.AlgoGen4
/-!
# C13 on the regenerated definitions of sets 2–4 (Johnson75, PRNG, generators, operations, the parallel functions)

Here the safety statement is TRANSPORTED through the equality theorems of `Thm/AlgoGen{2,3,4}.lean`:
a generated definition that is proved equal to `optR (hand model)` / `.ok (hand model)` — whose right-hand
side has no `ub` value — never ends in `ub`.  Where the equality needs an invariant (a head `≥ order` in
`AdjacencyList::{converse, degree_sequence}`), the invariant is the representation's `WF`, and the
`decide` examples of `Thm/C13Gen.lean` show that the generated code DOES answer `ub` outside it.
-/
namespace GraafVerif.C13Gen
open GraafVerif GraafVerif.AlgoGen GraafVerif.AlgoGenThm GraafVerif.Repr

theorem noUB_ok {α : Type} (a : α) : NoUB (.ok a : Res α) := by intro s h; cases h
theorem noUB_panic {α : Type} : NoUB (.error (.fault .panic) : Res α) := by intro s h; cases h
theorem noUB_div {α : Type} : NoUB (.error .div : Res α) := by intro s h; cases h
theorem noUB_optR {α : Type} (o : Option α) : NoUB (optR o) := by
  cases o with
  | none => exact noUB_panic
  | some a => exact noUB_ok a

theorem noUB_of_agree {α : Type} {r : Res α} {h : α} (ha : Johnson75.Agree r h) : NoUB r := by
  rcases ha with e | e <;> rw [e]
  · exact noUB_div
  · exact noUB_ok _

/-! ## Set 2: `Johnson75` -/

/-- `Johnson75::circuits` on every digraph whose out-neighbours are vertices (the `AdjacencyMap` invariant),
contiguous or not (the leading `assert!` rejects the others), on every object satisfying `JInv` — in
particular the one `Johnson75::new` returns. -/
theorem johnsonCircuits_noUB (a : GraafVerif.Johnson.AM) (hclosed : ∀ u ∈ a.verts, ∀ v ∈ a.out u, v ∈ a.verts)
    (F : Nat) (hF : F ≤ a.order + 1) (st : GraafVerif.Johnson.JState) (hinv : Johnson75.JInv a.order st) :
    NoUB (AlgoGen.Johnson75.circuits a F (Johnson75.ofH st)) := by
  cases hall : a.verts.all (fun u => decide (u < a.order)) with
  | false => rw [Johnson75.circuits_panic a F _ hall]; exact noUB_panic
  | true =>
    have hlt : ∀ u ∈ a.verts, u < a.order := by
      intro u hu
      have := List.all_eq_true.mp hall u hu
      simpa using this
    exact noUB_of_agree (Johnson75.circuits_eq a ⟨hlt, hclosed⟩ F hF st hinv)

theorem johnsonNewCircuits_noUB (a : GraafVerif.Johnson.AM) (hclosed : ∀ u ∈ a.verts, ∀ v ∈ a.out u, v ∈ a.verts)
    (F : Nat) (hF : F ≤ a.order + 1) :
    NoUB (AlgoGen.Johnson75.new a >>= fun s => AlgoGen.Johnson75.circuits a F s) := by
  rw [Johnson75.new_eq]
  exact johnsonCircuits_noUB a hclosed F hF _ (Johnson75.new_inv a)

/-- `unblock` / `circuit` under the invariant `circuits` establishes and keeps. -/
theorem johnsonUnblock_noUB (n F : Nat) (st : GraafVerif.Johnson.JState) (u : Nat) (hinv : Johnson75.JInv n st) :
    NoUB (AlgoGen.Johnson75.unblock F (Johnson75.ofH st) u) :=
  noUB_of_agree (Johnson75.unblock_eq n F F st u (Nat.le_refl _) hinv)

theorem johnsonCircuit_noUB (n : Nat) (comp : GraafVerif.Johnson.AM) (hc : Johnson75.CompOk n comp) (s F : Nat)
    (st : GraafVerif.Johnson.JState) (v : Nat) (hinv : Johnson75.JInv n st) (hvm : v ∈ comp.verts) (hv : v < n) :
    NoUB (AlgoGen.Johnson75.circuit F (Johnson75.ofH st) v s comp st.result) :=
  noUB_of_agree (Johnson75.circuit_eq n comp hc s F F F st v (Nat.le_refl _) (Nat.le_refl _) hinv hvm hv)

/-! ## Set 3: PRNG, `AdjacencyList::{converse, random_tournament}`, `AdjacencyMap::random_recursive_tree` -/

/-- `Xoshiro256StarStar::next` on every state of four words (`state_ptr.add(1..3)` on `[u64; 4]`). -/
theorem xoshiroNext_noUB (x : Rand.Xo) : NoUB (AlgoGen.Xoshiro256StarStar.next (Xoshiro256StarStar.ofX x)) := by
  rw [Xoshiro256StarStar.next_eq]; exact noUB_ok _

/-- `AdjacencyList::converse` on every well-formed list (`conv_ptr.add(v)` for a head `v`). -/
theorem alConverse_noUB (d : AdjList) (h : d.WF) : NoUB (AlgoGen.AdjacencyList.converse d) := by
  rw [AdjacencyList.converse_eq d (al_heads_of_wf d h)]; exact noUB_optR _

/-- `AdjacencyList::random_tournament` for every order and seed (`arcs.get_unchecked_mut(u|v)`). -/
theorem alRandomTournament_noUB (n : Nat) (seed : UInt64) : NoUB (AlgoGen.AdjacencyList.randomTournament n seed) := by
  rw [AdjacencyList.randomTournament_eq]; exact noUB_optR _

/-- `AdjacencyMap::random_recursive_tree` for every order and seed: `rng.next().unwrap_unchecked()` never
sees `None`, `usize::try_from(u64).unwrap_unchecked()` is total on a 64-bit target. -/
theorem amRandomRecursiveTree_noUB (n : Nat) (seed : UInt64) : NoUB (AlgoGen.AdjacencyMap.randomRecursiveTree n seed) := by
  rw [AdjacencyMap.randomRecursiveTree_eq]; exact noUB_optR _

/-! ## Set 4: the parallel functions (`ap` = `available_parallelism()`, a `NonZero`) -/

/-- `AdjacencyList::complement` for EVERY list and every thread count (`arcs_arc.get_unchecked(u)`,
`full_ptr.add(i)`, `out_ptr.add(j)`; a worker's value is its handle's value). -/
theorem alComplement_noUB (ap : Nat) (d : AdjList) : NoUB (AlgoGen.AdjacencyList.complement ap d) := by
  rw [AdjacencyList.complement_eq]; exact noUB_optR _

theorem alComplete_noUB (ap n : Nat) (hap : 0 < ap) : NoUB (AlgoGen.AdjacencyList.complete ap n) := by
  rw [AdjacencyList.complete_eq ap n hap]; exact noUB_optR _

/-- `AdjacencyList::degree_sequence` on every well-formed list, every thread count. -/
theorem alDegreeSequence_noUB (ap : Nat) (d : AdjList) (h : d.WF) (hap : 0 < ap) :
    NoUB (AlgoGen.AdjacencyList.degreeSequence ap d) := by
  rw [AdjacencyList.degreeSequence_eq ap d hap h.1 (al_rows_of_wf d h)]; exact noUB_ok _

/-- `AdjacencyList::is_semicomplete` on every non-empty list (arbitrary rows), every thread count. -/
theorem alIsSemicomplete_noUB (ap : Nat) (d : AdjList) (hap : 0 < ap) (hn : 0 < d.order) :
    NoUB (AlgoGen.AdjacencyList.isSemicomplete ap d) := by
  rw [AdjacencyList.isSemicomplete_eq ap d hap hn]; exact noUB_ok _

theorem alMergeTwoSorted_noUB (l r : List Nat) : NoUB (AlgoGen.AdjacencyList.mergeTwoSorted l r) := by
  rw [AdjacencyList.mergeTwoSorted_eq]; exact noUB_ok _

/-- `AdjacencyList::union` for EVERY two lists and every thread count (`self_ptr.add(u)`,
`other_ptr.add(u)`, `write(arcs_ptr.add(u), …)`). -/
theorem alUnion_noUB (ap : Nat) (a b : AdjList) : NoUB (AlgoGen.AdjacencyList.union ap a b) := by
  rw [AdjacencyList.union_eq]; exact noUB_optR _

theorem amRandomTournament_noUB (ap n : Nat) (seed : UInt64) (hap : 0 < ap) :
    NoUB (AlgoGen.AdjacencyMap.randomTournament ap n seed) := by
  rw [AdjacencyMap.randomTournament_eq ap n seed hap]; exact noUB_optR _

theorem amErdosRenyi_noUB (ap fuel n : Nat) (p : Rand.F64) (seed : UInt64) (hap : 0 < ap) :
    NoUB (AlgoGen.AdjacencyMap.erdosRenyi ap (fuel + 2) n p seed) := by
  rw [AdjacencyMap.erdosRenyi_eq ap fuel n p seed hap]; exact noUB_optR _

theorem amMergeTwoSorted_noUB (l r : List Nat) : NoUB (AlgoGen.AdjacencyMap.mergeTwoSorted l r) := by
  rw [AdjacencyMap.mergeTwoSorted_eq]; exact noUB_ok _

theorem amUnionSets_noUB (a b : List Nat) : NoUB (AlgoGen.AdjacencyMap.unionSets a b) := by
  rw [AdjacencyMap.unionSets_eq]; exact noUB_ok _

/-- `find_partition` for ALL arguments: no underflow, no out-of-bounds `get_unchecked`. -/
theorem amFindPartition_noUB (r : Nat) (lhs rhs : List (Nat × List Nat)) : NoUB (AlgoGen.AdjacencyMap.findPartition r lhs rhs) := by
  rw [AdjacencyMap.findPartition_eq]; exact noUB_ok _

/-- `AdjacencyMap::union` for EVERY two maps and every thread count: no `boundaries.get_unchecked(k)`,
`lhs_ptr.add(i)`, `rhs_ptr.add(j)`, `ptr::read` out of bounds.  (The DROP discipline — each entry moved
out exactly once before `set_len(0)` — is invisible to the translator's reading of `ptr::read` as a copy:
that part stays on the hand model, `C13.mapUnion_linear_sorted`.) -/
theorem amUnion_noUB (ap : Nat) (a b : AdjMap) : NoUB (AlgoGen.AdjacencyMap.union ap a b) := by
  rw [AdjacencyMap.union_eq]; exact noUB_optR _

/-! ## The invariants are what the representations' `WF` gives -/

theorem toWGraph_wf (d : AdjListW) (h : d.WF) : (d.toWGraph).WF := by
  intro u v w hvw
  simp only [AdjListW.toWGraph] at hvw
  cases hr : d.rows[u]? with
  | none => rw [hr] at hvw; simp at hvw
  | some row =>
    rw [hr] at hvw
    simp only [Option.getD_some] at hvw
    have hu : u < d.rows.length := by
      rcases Nat.lt_or_ge u d.rows.length with h' | h'
      · exact h'
      · rw [List.getElem?_eq_none h'] at hr; cases hr
    exact ⟨hu, ((h.2 u row hr).2 (v, w) hvw).1⟩

end GraafVerif.C13Gen
