import GraafVerif.Model.AlgoGen
import GraafVerif.Proof.AlgoGenRt
import GraafVerif.Proof.AlgoGenPredTree
import GraafVerif.Model.Dfs
/-!
# Generated `Dfs`, `DfsDist`, `DfsPred` (`Model/AlgoGen.lean`) = hand-written `Model/Dfs.lean`

The hand-written model keeps the `Vec` used as stack as a list whose HEAD is the top and stores
entries as `(vertex, payload)`; the generated structures keep the vector in index order (`push`
appends, `pop` removes the last element) with the Rust entries.  `toH`/`ofH` (reverse + entry
conversion) are mutually inverse.  `new` and `next` are equal to the hand-written functions for
EVERY state (the `assert!` in front of each `*visited_ptr.add(·)` excludes `ub`);
`DfsPred::predecessors` needs `visited.len() = digraph.order()` (what `new` establishes).
-/
namespace GraafVerif.AlgoGenThm
open GraafVerif GraafVerif.AlgoGen

/-- `Iterator::next` of the hand-written model as a call result (`self0`: the state before). -/
def liftNext {α ι S : Type} (item : Nat × α → ι) (ofH : Dfs.St α → S) (self0 : S) : Dfs.Next α → Res (Option ι × S)
  | .done => .ok (none, self0)
  | .panic => .error (.fault .panic)
  | .stale st => .ok (none, ofH st)
  | .item x st => .ok (some (item x), ofH st)

/-- `none` of the hand-written `pushAll` is a failed `assert!`. -/
def liftO {α β ρ σ : Type} (f : α → σ) : Option α → Blk β ρ σ
  | none => .error (.err (.fault .panic))
  | some a => .ok (f a)

/-- The push loop of `next`, for any structure isomorphic to the hand-written state. -/
theorem pushAll_generic {α S ρ : Type} (toH : S → Dfs.St α) (ofH : Dfs.St α → S)
    (h2 : ∀ st, toH (ofH st) = st) (body : S → Nat → Blk S ρ S) (c : α) (order : Nat)
    (hbody : ∀ s v, (toH s).visited.length = order → body s v =
      if v < order then .ok (ofH ⟨if Dfs.isVis (toH s).visited v then (toH s).stack else (v, c) :: (toH s).stack, (toH s).visited⟩)
      else .error (.err (.fault .panic))) :
    ∀ (vs : List Nat) (stk : List (Nat × α)) (vis : List Bool), vis.length = order →
      (forLoop body vs (ofH ⟨stk, vis⟩) : Blk Empty ρ S) =
        liftO (fun stk' => ofH ⟨stk', vis⟩) (Dfs.pushAll order vis c vs stk) := by
  intro vs
  induction vs with
  | nil => intro stk vis _; rfl
  | cons v vs ih =>
    intro stk vis hlen
    unfold Dfs.pushAll
    by_cases hv : v < order
    · rw [if_pos hv]
      rw [forLoop_cons_ok (h := by rw [hbody _ _ (by rw [h2]; exact hlen), if_pos hv, h2])]
      exact ih _ vis hlen
    · rw [if_neg hv]
      rw [forLoop_cons_err (e := .fault .panic) (h := by rw [hbody _ _ (by rw [h2]; exact hlen), if_neg hv])]
      rfl

/-- The items of the generated iterator are the items of the hand-written `run` (which stops at
the first `None`: empty stack or stale entry). -/
theorem dfs_collect_generic {α ι S : Type} (item : Nat × α → ι) (toH : S → Dfs.St α) (ofH : Dfs.St α → S)
    (h2 : ∀ st, toH (ofH st) = st) (next : S → Res (Option ι × S)) (g : Graph) (child : Nat → α → α)
    (hnext : ∀ s, next s = liftNext item ofH s (Dfs.next g child (toH s))) :
    ∀ (fuel : Nat) (s : S), Except.map Prod.fst (collect next fuel s) =
      if (Dfs.run g child fuel (toH s)).ending = .panic then .error (.fault .panic)
      else .ok ((Dfs.run g child fuel (toH s)).items.map item) := by
  intro fuel
  induction fuel with
  | zero => intro s; rfl
  | succ fuel ih =>
    intro s
    unfold collect Dfs.run
    rw [hnext s]
    cases Dfs.next g child (toH s) with
    | done => rfl
    | panic => rfl
    | stale st => rfl
    | item x st =>
      simp only [liftNext]
      have := ih (ofH st)
      rw [h2] at this
      cases hc : collect next fuel (ofH st) with
      | error e =>
        rw [hc] at this
        by_cases hp : (Dfs.run g child fuel st).ending = .panic
        · rw [if_pos hp] at this
          simp only [Except.map] at this ⊢
          cases this
          rw [if_pos hp]
        · rw [if_neg hp] at this; cases this
      | ok r =>
        obtain ⟨r1, r2⟩ := r
        rw [hc] at this
        by_cases hp : (Dfs.run g child fuel st).ending = .panic
        · rw [if_pos hp] at this; cases this
        · rw [if_neg hp] at this
          simp only [Except.map, Except.ok.injEq] at this ⊢
          rw [if_neg hp, this]
          rfl

/-- Every item the hand-written `next` yields is below `visited.len()`, which `next` preserves. -/
theorem dfs_next_len {α : Type} (g : Graph) (child : Nat → α → α) (st : Dfs.St α) :
    match Dfs.next g child st with
    | .item x st' => x.1 < st.visited.length ∧ st'.visited.length = st.visited.length
    | .stale st' => st'.visited.length = st.visited.length
    | _ => True := by
  obtain ⟨stk, vis⟩ := st
  unfold Dfs.next
  cases stk with
  | nil => trivial
  | cons it rest =>
    obtain ⟨u, a⟩ := it
    by_cases hu : u < vis.length
    · simp only [if_pos hu]
      by_cases hv : Dfs.isVis vis u = true
      · simp only [if_pos hv]
      · simp only [if_neg hv]
        cases Dfs.pushAll (vis.set u true).length (vis.set u true) (child u a) (g.out u) rest with
        | none => trivial
        | some stk => exact ⟨hu, by simp⟩
    · simp only [if_neg hu]

theorem dfs_next_inv_generic {α ι S : Type} (item : Nat × α → ι) (toH : S → Dfs.St α) (ofH : Dfs.St α → S)
    (h2 : ∀ st, toH (ofH st) = st) (next : S → Res (Option ι × S)) (g : Graph) (child : Nat → α → α)
    (hnext : ∀ s, next s = liftNext item ofH s (Dfs.next g child (toH s)))
    (n : Nat) (s s' : S) (y : ι) (h : (toH s).visited.length = n) (e : next s = .ok (some y, s')) :
    (toH s').visited.length = n ∧ ∃ x : Nat × α, y = item x ∧ x.1 < n := by
  rw [hnext s] at e
  have hl := dfs_next_len g child (toH s)
  cases hn : Dfs.next g child (toH s) with
  | done => rw [hn] at e; cases e
  | panic => rw [hn] at e; cases e
  | stale st => rw [hn] at e; cases e
  | item x st =>
    rw [hn] at e hl
    simp only [liftNext] at e
    cases e
    rw [h2]
    exact ⟨by rw [hl.2, h], x, rfl, by rw [← h]; exact hl.1⟩

/-! ## `Dfs` -/
namespace Dfs

def toH (s : AlgoGen.Dfs) : GraafVerif.Dfs.St Unit := ⟨(s.stack.map (fun u => (u, ()))).reverse, s.visited⟩
def ofH (st : GraafVerif.Dfs.St Unit) : AlgoGen.Dfs := ⟨st.stack.reverse.map (·.1), st.visited⟩

theorem ofH_toH (s : AlgoGen.Dfs) : ofH (toH s) = s := by
  cases s; simp [ofH, toH, Function.comp_def]
theorem toH_ofH (st : GraafVerif.Dfs.St Unit) : toH (ofH st) = st := by
  cases st; simp [ofH, toH, Function.comp_def]

/-- `Dfs::new` = the hand-written `Dfs.new`: `stack: sources.collect()`, `visited: vec![false; order]`. -/
theorem new_eq (g : Graph) (S : List Nat) : AlgoGen.Dfs.new g S = .ok (ofH (GraafVerif.Dfs.new g S ())) := by
  unfold AlgoGen.Dfs.new GraafVerif.Dfs.new
  simp [ofH, Function.comp_def]

theorem next_for0_step (order : Nat) (s : AlgoGen.Dfs) (v : Nat) (hlen : (toH s).visited.length = order) :
    (AlgoGen.Dfs.next_for0 order s v : Blk _ (Option Nat × AlgoGen.Dfs) _) =
      if v < order then .ok (ofH ⟨if GraafVerif.Dfs.isVis (toH s).visited v then (toH s).stack else (v, ()) :: (toH s).stack, (toH s).visited⟩)
      else .error (.err (.fault .panic)) := by
  have hlen' : s.visited.length = order := hlen
  unfold AlgoGen.Dfs.next_for0
  by_cases hv : v < order
  · have hv' : v < s.visited.length := by omega
    obtain ⟨b, hb⟩ : ∃ b, s.visited[v]? = some b := ⟨_, List.getElem?_eq_getElem hv'⟩
    cases b <;> simp [rd_some _ _ _ _ hb, hv, GraafVerif.Dfs.isVis, toH, ofH, hb, Function.comp_def]
  · simp [hv]

/-- `for v in out_neighbors(u) { assert!(v < order); if !visited[v] { stack.push(v) } }` -/
theorem next_for0_eq (order : Nat) (vs : List Nat) (stk : List (Nat × Unit)) (vis : List Bool) (hlen : vis.length = order) :
    (forLoop (AlgoGen.Dfs.next_for0 order) vs (ofH ⟨stk, vis⟩) : Blk Empty (Option Nat × AlgoGen.Dfs) _) =
      liftO (fun stk' => ofH ⟨stk', vis⟩) (GraafVerif.Dfs.pushAll order vis () vs stk) :=
  pushAll_generic toH ofH toH_ofH _ () order (next_for0_step order) vs stk vis hlen

/-- `Iterator::next` of `Dfs` = the hand-written `Dfs.next` (payload `Unit`), for all states —
including the early `return None` on a stale entry (outcome `.stale`). -/
theorem next_eq_ofH (g : Graph) (st : GraafVerif.Dfs.St Unit) :
    AlgoGen.Dfs.next g (ofH st) = liftNext (·.1) ofH (ofH st) (GraafVerif.Dfs.next g GraafVerif.Dfs.childU st) := by
  obtain ⟨stk, vis⟩ := st
  unfold AlgoGen.Dfs.next GraafVerif.Dfs.next
  cases stk with
  | nil => rfl
  | cons it rest =>
    obtain ⟨u, a⟩ := it
    simp only [ofH, List.reverse_cons, List.map_append, List.map_cons, List.map_nil, vecPop_snoc]
    by_cases hu : u < vis.length
    · obtain ⟨b, hb⟩ : ∃ b, vis[u]? = some b := ⟨_, List.getElem?_eq_getElem hu⟩
      have hvis : GraafVerif.Dfs.isVis vis u = b := by simp [GraafVerif.Dfs.isVis, hb]
      cases b with
      | true => simp [hu, rd_some _ _ _ _ hb, hvis, liftNext, ofH]
      | false =>
        have h := next_for0_eq vis.length (g.out u) rest (vis.set u true) (by simp)
        simp only [ofH] at h
        simp only [hu, decide_true, assert_true, ok_bind, rd_some _ _ _ _ hb, Bool.false_eq_true, if_false,
          wr_lt _ _ _ _ hu, h, hvis, if_true, List.length_set, GraafVerif.Dfs.childU]
        cases GraafVerif.Dfs.pushAll vis.length (vis.set u true) () (g.out u) rest with
        | none => rfl
        | some stk' => rfl
    · simp [hu, liftNext]

/-- The same, stated on the generated state. -/
theorem next_eq (g : Graph) (s : AlgoGen.Dfs) :
    AlgoGen.Dfs.next g s = liftNext (·.1) ofH s (GraafVerif.Dfs.next g GraafVerif.Dfs.childU (toH s)) := by
  have h := next_eq_ofH g (toH s)
  rwa [ofH_toH] at h

end Dfs

/-! ## `DfsDist` -/
namespace DfsDist

def toH (s : AlgoGen.DfsDist) : GraafVerif.Dfs.St Nat := ⟨s.stack.reverse, s.visited⟩
def ofH (st : GraafVerif.Dfs.St Nat) : AlgoGen.DfsDist := ⟨st.stack.reverse, st.visited⟩

theorem ofH_toH (s : AlgoGen.DfsDist) : ofH (toH s) = s := by
  cases s; simp [ofH, toH]
theorem toH_ofH (st : GraafVerif.Dfs.St Nat) : toH (ofH st) = st := by
  cases st; simp [ofH, toH]

/-- `DfsDist::new` = the hand-written `Dfs.new` with payload `0`. -/
theorem new_eq (g : Graph) (S : List Nat) : AlgoGen.DfsDist.new g S = .ok (ofH (GraafVerif.Dfs.new g S 0)) := by
  unfold AlgoGen.DfsDist.new GraafVerif.Dfs.new
  simp [ofH]

theorem next_for0_step (order w : Nat) (s : AlgoGen.DfsDist) (v : Nat) (hlen : (toH s).visited.length = order) :
    (AlgoGen.DfsDist.next_for0 order w s v : Blk _ (Option (Nat × Nat) × AlgoGen.DfsDist) _) =
      if v < order then .ok (ofH ⟨if GraafVerif.Dfs.isVis (toH s).visited v then (toH s).stack else (v, w) :: (toH s).stack, (toH s).visited⟩)
      else .error (.err (.fault .panic)) := by
  have hlen' : s.visited.length = order := hlen
  unfold AlgoGen.DfsDist.next_for0
  by_cases hv : v < order
  · have hv' : v < s.visited.length := by omega
    obtain ⟨b, hb⟩ : ∃ b, s.visited[v]? = some b := ⟨_, List.getElem?_eq_getElem hv'⟩
    cases b <;> simp [rd_some _ _ _ _ hb, hv, GraafVerif.Dfs.isVis, toH, ofH, hb]
  · simp [hv]

/-- the push loop of `DfsDist::next` -/
theorem next_for0_eq (order w : Nat) (vs : List Nat) (stk : List (Nat × Nat)) (vis : List Bool) (hlen : vis.length = order) :
    (forLoop (AlgoGen.DfsDist.next_for0 order w) vs (ofH ⟨stk, vis⟩) : Blk Empty (Option (Nat × Nat) × AlgoGen.DfsDist) _) =
      liftO (fun stk' => ofH ⟨stk', vis⟩) (GraafVerif.Dfs.pushAll order vis w vs stk) :=
  pushAll_generic toH ofH toH_ofH _ w order (next_for0_step order w) vs stk vis hlen

theorem next_eq_ofH (g : Graph) (st : GraafVerif.Dfs.St Nat) :
    AlgoGen.DfsDist.next g (ofH st) = liftNext id ofH (ofH st) (GraafVerif.Dfs.next g GraafVerif.Dfs.childD st) := by
  obtain ⟨stk, vis⟩ := st
  unfold AlgoGen.DfsDist.next GraafVerif.Dfs.next
  cases stk with
  | nil => rfl
  | cons it rest =>
    obtain ⟨u, a⟩ := it
    simp only [ofH, List.reverse_cons, vecPop_snoc]
    by_cases hu : u < vis.length
    · obtain ⟨b, hb⟩ : ∃ b, vis[u]? = some b := ⟨_, List.getElem?_eq_getElem hu⟩
      have hvis : GraafVerif.Dfs.isVis vis u = b := by simp [GraafVerif.Dfs.isVis, hb]
      cases b with
      | true => simp [hu, rd_some _ _ _ _ hb, hvis, liftNext, ofH]
      | false =>
        have h := next_for0_eq vis.length (a + 1) (g.out u) rest (vis.set u true) (by simp)
        simp only [ofH] at h
        simp only [hu, decide_true, assert_true, ok_bind, rd_some _ _ _ _ hb, Bool.false_eq_true, if_false,
          wr_lt _ _ _ _ hu, h, hvis, if_true, List.length_set, GraafVerif.Dfs.childD]
        cases GraafVerif.Dfs.pushAll vis.length (vis.set u true) (a + 1) (g.out u) rest with
        | none => rfl
        | some stk' => rfl
    · simp [hu, liftNext]

/-- `Iterator::next` of `DfsDist` = the hand-written `Dfs.next` (payload: depth), for all states. -/
theorem next_eq (g : Graph) (s : AlgoGen.DfsDist) :
    AlgoGen.DfsDist.next g s = liftNext id ofH s (GraafVerif.Dfs.next g GraafVerif.Dfs.childD (toH s)) := by
  have h := next_eq_ofH g (toH s)
  rwa [ofH_toH] at h

end DfsDist

/-! ## `DfsPred` -/
namespace DfsPred

/-- Rust entry `(pred, v)` ↔ hand-written entry `(v, pred)`. -/
def sw (x : Nat × Option Nat) : Option Nat × Nat := (x.2, x.1)
def ws (y : Option Nat × Nat) : Nat × Option Nat := (y.2, y.1)

def toH (s : AlgoGen.DfsPred) : GraafVerif.Dfs.St (Option Nat) := ⟨(s.stack.map ws).reverse, s.visited⟩
def ofH (st : GraafVerif.Dfs.St (Option Nat)) : AlgoGen.DfsPred := ⟨st.stack.reverse.map sw, st.visited⟩

theorem ofH_toH (s : AlgoGen.DfsPred) : ofH (toH s) = s := by
  cases s; simp [ofH, toH, Function.comp_def, sw, ws]
theorem toH_ofH (st : GraafVerif.Dfs.St (Option Nat)) : toH (ofH st) = st := by
  cases st; simp [ofH, toH, Function.comp_def, sw, ws]

/-- `DfsPred::new` = the hand-written `Dfs.new` with payload `None`. -/
theorem new_eq (g : Graph) (S : List Nat) : AlgoGen.DfsPred.new g S = .ok (ofH (GraafVerif.Dfs.new g S none)) := by
  unfold AlgoGen.DfsPred.new GraafVerif.Dfs.new
  simp [ofH, Function.comp_def, sw]

theorem next_for0_step (v order : Nat) (s : AlgoGen.DfsPred) (x : Nat) (hlen : (toH s).visited.length = order) :
    (AlgoGen.DfsPred.next_for0 v order s x : Blk _ (Option (Option Nat × Nat) × AlgoGen.DfsPred) _) =
      if x < order then .ok (ofH ⟨if GraafVerif.Dfs.isVis (toH s).visited x then (toH s).stack else (x, some v) :: (toH s).stack, (toH s).visited⟩)
      else .error (.err (.fault .panic)) := by
  have hlen' : s.visited.length = order := hlen
  unfold AlgoGen.DfsPred.next_for0
  by_cases hx : x < order
  · have hx' : x < s.visited.length := by omega
    obtain ⟨b, hb⟩ : ∃ b, s.visited[x]? = some b := ⟨_, List.getElem?_eq_getElem hx'⟩
    cases b <;> simp [rd_some _ _ _ _ hb, hx, GraafVerif.Dfs.isVis, toH, ofH, hb, Function.comp_def, sw, ws]
  · simp [hx]

/-- the push loop of `DfsPred::next` -/
theorem next_for0_eq (v order : Nat) (xs : List Nat) (stk : List (Nat × Option Nat)) (vis : List Bool) (hlen : vis.length = order) :
    (forLoop (AlgoGen.DfsPred.next_for0 v order) xs (ofH ⟨stk, vis⟩) : Blk Empty (Option (Option Nat × Nat) × AlgoGen.DfsPred) _) =
      liftO (fun stk' => ofH ⟨stk', vis⟩) (GraafVerif.Dfs.pushAll order vis (some v) xs stk) :=
  pushAll_generic toH ofH toH_ofH _ (some v) order (next_for0_step v order) xs stk vis hlen

theorem next_eq_ofH (g : Graph) (st : GraafVerif.Dfs.St (Option Nat)) :
    AlgoGen.DfsPred.next g (ofH st) = liftNext sw ofH (ofH st) (GraafVerif.Dfs.next g GraafVerif.Dfs.childP st) := by
  obtain ⟨stk, vis⟩ := st
  unfold AlgoGen.DfsPred.next GraafVerif.Dfs.next
  cases stk with
  | nil => rfl
  | cons it rest =>
    obtain ⟨u, a⟩ := it
    simp only [ofH, List.reverse_cons, List.map_append, List.map_cons, List.map_nil, vecPop_snoc, sw]
    by_cases hu : u < vis.length
    · obtain ⟨b, hb⟩ : ∃ b, vis[u]? = some b := ⟨_, List.getElem?_eq_getElem hu⟩
      have hvis : GraafVerif.Dfs.isVis vis u = b := by simp [GraafVerif.Dfs.isVis, hb]
      cases b with
      | true => simp [hu, rd_some _ _ _ _ hb, hvis, liftNext, ofH]
      | false =>
        have h := next_for0_eq u vis.length (g.out u) rest (vis.set u true) (by simp)
        simp only [ofH] at h
        simp only [hu, decide_true, assert_true, ok_bind, rd_some _ _ _ _ hb, Bool.false_eq_true, if_false,
          wr_lt _ _ _ _ hu, h, hvis, if_true, List.length_set, GraafVerif.Dfs.childP]
        cases GraafVerif.Dfs.pushAll vis.length (vis.set u true) (some u) (g.out u) rest with
        | none => rfl
        | some stk' => rfl
    · simp [hu, liftNext]

/-- `Iterator::next` of `DfsPred` = the hand-written `Dfs.next` (payload: predecessor), for all states. -/
theorem next_eq (g : Graph) (s : AlgoGen.DfsPred) :
    AlgoGen.DfsPred.next g s = liftNext sw ofH s (GraafVerif.Dfs.next g GraafVerif.Dfs.childP (toH s)) := by
  have h := next_eq_ofH g (toH s)
  rwa [ofH_toH] at h

/-- `unsafe { *pred_ptr.add(v) = u }` in `predecessors` -/
theorem predecessors_for0_eq (t : AlgoGen.PredecessorTree) (y : Option Nat × Nat) (h : y.2 < t.pred.length) :
    (AlgoGen.DfsPred.predecessors_for0 t y : Blk _ (AlgoGen.PredecessorTree × AlgoGen.DfsPred) _) =
      .ok ⟨t.pred.set y.2 y.1⟩ := by
  unfold AlgoGen.DfsPred.predecessors_for0
  simp [wr_lt _ _ _ _ h]

theorem foldl_pred (xs : List (Nat × Option Nat)) : ∀ (t : AlgoGen.PredecessorTree),
    ((xs.map sw).foldl (fun (t : AlgoGen.PredecessorTree) (y : Option Nat × Nat) => (⟨t.pred.set y.2 y.1⟩ : AlgoGen.PredecessorTree)) t).pred =
      xs.foldl (fun p x => p.set x.1 x.2) t.pred := by
  induction xs with
  | nil => intro t; rfl
  | cons x xs ih => intro t; simp only [List.map_cons, List.foldl_cons]; rw [ih]; rfl

/-- `DfsPred::predecessors` on a state with `visited.len() = order`: `PredecessorTree::new` panics
for order 0; a failed `assert!` during the iteration is a panic; otherwise the tree is the
hand-written `predFold` of the items of `run` (the iteration as the code does it today: it stops
at the first stale entry). -/
theorem predecessors_eq (g : Graph) (fuel : Nat) (s : AlgoGen.DfsPred) (h : s.visited.length = g.n) :
    Except.map (fun r => r.1.pred) (AlgoGen.DfsPred.predecessors g fuel s) =
      if g.n = 0 then .error (.fault .panic)
      else if (GraafVerif.Dfs.run g GraafVerif.Dfs.childP fuel (toH s)).ending = .panic then .error (.fault .panic)
      else .ok (GraafVerif.Dfs.predFold g.n (GraafVerif.Dfs.run g GraafVerif.Dfs.childP fuel (toH s)).items) := by
  unfold AlgoGen.DfsPred.predecessors
  simp only [PredecessorTree.new_eq]
  by_cases hn : g.n = 0
  · simp [hn, Except.map]
  · rw [if_pos (by omega), if_neg hn]
    have hc := dfs_collect_generic sw toH ofH toH_ofH (AlgoGen.DfsPred.next g) g GraafVerif.Dfs.childP (next_eq g) fuel s
    have hi := iterLoop_eq_collect (β := Empty) (ρ := AlgoGen.PredecessorTree × AlgoGen.DfsPred) (AlgoGen.DfsPred.next g)
      AlgoGen.DfsPred.predecessors_for0 (fun t (y : Option Nat × Nat) => (⟨t.pred.set y.2 y.1⟩ : AlgoGen.PredecessorTree))
      (fun s => (toH s).visited.length = g.n) (fun t => t.pred.length = g.n)
      (by
        intro s y s' hP e
        obtain ⟨h1, x, hx, hlt⟩ := dfs_next_inv_generic sw toH ofH toH_ofH _ g _ (next_eq g) g.n s s' y hP e
        refine ⟨h1, ?_⟩
        intro acc hacc
        rw [hx]
        exact ⟨predecessors_for0_eq acc (sw x) (by simpa [hacc, sw] using hlt), by simp [hacc]⟩)
      fuel s ⟨List.replicate g.n none⟩ h (by simp)
    simp only [call_ok, ok_bind, hi]
    cases hcol : collect (AlgoGen.DfsPred.next g) fuel s with
    | error e =>
      rw [hcol] at hc
      by_cases hp : (GraafVerif.Dfs.run g GraafVerif.Dfs.childP fuel (toH s)).ending = .panic
      · rw [if_pos hp] at hc ⊢
        simp only [Except.map] at hc ⊢
        cases hc; rfl
      · rw [if_neg hp] at hc; cases hc
    | ok r =>
      obtain ⟨xs, s'⟩ := r
      rw [hcol] at hc
      by_cases hp : (GraafVerif.Dfs.run g GraafVerif.Dfs.childP fuel (toH s)).ending = .panic
      · rw [if_pos hp] at hc; cases hc
      · rw [if_neg hp] at hc ⊢
        simp only [Except.map, Except.ok.injEq] at hc
        subst hc
        simp only [ok_bind, pure_eq_ok, fnBody_ok, Except.map, GraafVerif.Dfs.predFold, Except.ok.injEq]
        exact foldl_pred _ _

/-- `DfsPred::new(&digraph, sources).predecessors()` against the hand-written
`Dfs.predecessors g S` (which has no panic outcome: it folds whatever `run` yielded). -/
theorem new_predecessors_eq (g : Graph) (S : List Nat) :
    (AlgoGen.DfsPred.new g S >>= fun s =>
        Except.map (fun r => r.1.pred) (AlgoGen.DfsPred.predecessors g (GraafVerif.Dfs.fuel g) s)) =
      if g.n = 0 then .error (.fault .panic)
      else if (GraafVerif.Dfs.dfsPred g S).ending = .panic then .error (.fault .panic)
      else .ok (GraafVerif.Dfs.predecessors g S) := by
  rw [new_eq]
  show Except.map _ (AlgoGen.DfsPred.predecessors g (GraafVerif.Dfs.fuel g) (ofH (GraafVerif.Dfs.new g S none))) = _
  rw [predecessors_eq g _ _ (by simp [ofH, GraafVerif.Dfs.new]), toH_ofH]
  rfl

end DfsPred

end GraafVerif.AlgoGenThm
