import GraafVerif.Proof.PredRest
/-!
# C12 — `EdgeList`: canonical form, the generator `complete` meets its specification, `is_complete`
-/
namespace GraafVerif.Pred
open GraafVerif.Query GraafVerif.Repr

/-! ## lexicographically sorted pair lists are determined by their members -/
theorem pairLt_irrefl (a : Nat × Nat) : pairLt a a = false := by simp [pairLt]
theorem pairLt_asymm {a b : Nat × Nat} (h : pairLt a b = true) : pairLt b a = false := by
  simp only [pairLt, Bool.or_eq_true, decide_eq_true_eq, Bool.and_eq_true, beq_iff_eq] at h
  simp only [pairLt, Bool.or_eq_false_iff, decide_eq_false_iff_not, Bool.and_eq_false_imp, beq_iff_eq]
  rcases h with h | h
  · exact ⟨by omega, fun e => by omega⟩
  · exact ⟨by omega, fun _ => by omega⟩

theorem psorted_ext : ∀ {l₁ l₂ : List (Nat × Nat)}, l₁.Pairwise (fun a b => pairLt a b = true) →
    l₂.Pairwise (fun a b => pairLt a b = true) → (∀ x, x ∈ l₁ ↔ x ∈ l₂) → l₁ = l₂
  | [], [], _, _, _ => rfl
  | [], b :: _, _, _, h => by have := (h b).2 (by simp); simp at this
  | a :: _, [], _, _, h => by have := (h a).1 (by simp); simp at this
  | a :: l₁, b :: l₂, h₁, h₂, h => by
    rw [List.pairwise_cons] at h₁ h₂
    have hab : a = b := by
      have ha := (h a).1 (by simp)
      have hb := (h b).2 (by simp)
      simp only [List.mem_cons] at ha hb
      rcases ha with e | ha
      · exact e
      · rcases hb with e | hb
        · exact e.symm
        · have h1 := h₂.1 a ha
          have h2 := h₁.1 b hb
          rw [pairLt_asymm h1] at h2
          exact absurd h2 (by simp)
    subst hab
    congr 1
    apply psorted_ext h₁.2 h₂.2
    intro x
    have hx := h x
    simp only [List.mem_cons] at hx
    constructor
    · intro hm
      have hlt := h₁.1 x hm
      rcases hx.1 (Or.inr hm) with e | h'
      · subst e; rw [pairLt_irrefl] at hlt; exact absurd hlt (by simp)
      · exact h'
    · intro hm
      have hlt := h₂.1 x hm
      rcases hx.2 (Or.inr hm) with e | h'
      · subst e; rw [pairLt_irrefl] at hlt; exact absurd hlt (by simp)
      · exact h'

namespace EL
open GraafVerif.Query.EL (abs abs_valid mem_iff)

/-- Canonical form: a well-formed edge list is determined by its order and arc relation. -/
theorem canonical {d c : EdgeList} (hd : d.WF) (hc : c.WF) (ho : d.order = c.order)
    (ha : ∀ u v, d.hasArc u v = c.hasArc u v) : d = c := by
  have : d.arcs = c.arcs := by
    apply psorted_ext hd.2.1 hc.2.1
    intro x
    obtain ⟨u, v⟩ := x
    rw [← mem_iff, ← mem_iff, ha]
  cases d; cases c
  simp only at this ho
  subst this; subst ho; rfl

/-- `is_complete` = equality with `complete(order)`, given the specification of the generator. -/
theorem isComplete_of_complete_spec {d c : EdgeList} (h : d.WF)
    (hcmp : complete d.order = some c) (hc : c.WF) (hco : c.order = d.order)
    (hca : ∀ u v, c.hasArc u v = (decide (u < d.order) && decide (v < d.order) && decide (u ≠ v))) :
    isComplete d = some (d == c) ∧ ((d == c) = true ↔ Def.IsComplete (abs d)) := by
  refine ⟨by simp [isComplete, hcmp], ?_⟩
  rw [beq_iff_eq]
  constructor
  · intro e u hu v hv huv
    have hu : u < d.order := by simpa [abs, EdgeList.vertices] using hu
    have hv : v < d.order := by simpa [abs, EdgeList.vertices] using hv
    show d.hasArc u v = true
    rw [e, hca]; simp [hu, hv, huv]
  · intro hdef
    apply canonical h hc hco.symm
    intro u v
    rw [hca]
    by_cases hb : u < d.order ∧ v < d.order
    · by_cases huv : u = v
      · subst huv
        have := (abs_valid h).irrefl u
        simp only [abs] at this
        simp [this]
      · have := hdef u (by simp [abs, EdgeList.vertices, hb.1]) v (by simp [abs, EdgeList.vertices, hb.2]) huv
        simp only [abs] at this
        simp [this, hb.1, hb.2, huv]
    · have hf : d.hasArc u v = false := by
        cases hc' : d.hasArc u v
        · rfl
        · have := (abs_valid h).closed u v hc'
          simp only [abs, EdgeList.vertices, List.mem_range] at this
          exact absurd this hb
      rw [hf]
      have : ¬ (u < d.order) ∨ ¬ (v < d.order) := by omega
      rcases this with h' | h' <;> simp [h']

/-! ### the generator `complete` of the edge list meets its specification -/
theorem others_sorted (u n : Nat) : (List.range u ++ above u n).Pairwise (· < ·) := by
  rw [List.pairwise_append]
  refine ⟨List.pairwise_lt_range, List.pairwise_lt_range' 1, ?_⟩
  intro a ha b hb
  have := List.mem_range.1 ha
  have := (mem_above.1 hb).1
  omega

theorem mem_others {u n v : Nat} (hu : u < n) : v ∈ List.range u ++ above u n ↔ v < n ∧ v ≠ u := by
  simp only [List.mem_append, List.mem_range, mem_above]
  omega

def completeArcs (n : Nat) : List (Nat × Nat) :=
  (List.range n).flatMap (fun u => ((List.range u) ++ above u n).map (fun v => (u, v)))

theorem mem_completeArcs (n u v : Nat) : (u, v) ∈ completeArcs n ↔ u < n ∧ v < n ∧ u ≠ v := by
  simp only [completeArcs, List.mem_flatMap, List.mem_range, List.mem_map, Prod.mk.injEq]
  constructor
  · rintro ⟨a, ha, b, hb, rfl, rfl⟩
    have := (mem_others ha).1 hb
    exact ⟨ha, this.1, fun e => this.2 e.symm⟩
  · rintro ⟨hu, hv, huv⟩
    exact ⟨u, hu, v, (mem_others hu).2 ⟨hv, fun e => huv e.symm⟩, rfl, rfl⟩

theorem completeArcs_sorted (n : Nat) : (completeArcs n).Pairwise (fun a b => pairLt a b = true) := by
  unfold completeArcs
  rw [List.pairwise_flatMap]
  constructor
  · intro u _
    rw [List.pairwise_map]
    exact (others_sorted u n).imp (fun hab => by simp [pairLt, hab])
  · apply List.pairwise_lt_range.imp
    intro a b hab x hx y hy
    obtain ⟨_, _, rfl⟩ := List.mem_map.1 hx
    obtain ⟨_, _, rfl⟩ := List.mem_map.1 hy
    simp [pairLt, hab]

theorem complete_spec {n : Nat} (hn : 0 < n) :
    ∃ c, complete n = some c ∧ c.WF ∧ c.order = n ∧
      ∀ u v, c.hasArc u v = (decide (u < n) && decide (v < n) && decide (u ≠ v)) := by
  by_cases h1 : n = 1
  · subst h1
    refine ⟨⟨[], 1⟩, by simp [complete, EdgeList.empty], ⟨by decide, List.Pairwise.nil, by simp⟩, rfl, ?_⟩
    intro u v
    simp only [EdgeList.hasArc, List.contains_nil]
    by_cases hu : u < 1 <;> by_cases hv : v < 1 <;> simp [hu, hv]
    omega
  · have e0 : (n == 0) = false := by simp; omega
    have e1 : (n == 1) = false := by simp [h1]
    refine ⟨⟨completeArcs n, n⟩, by simp [complete, e0, e1, completeArcs], ⟨hn, completeArcs_sorted n, ?_⟩, rfl, ?_⟩
    · intro a ha
      have := (mem_completeArcs n a.1 a.2).1 ha
      exact this
    · intro u v
      have := mem_completeArcs n u v
      simp only [EdgeList.hasArc]
      by_cases hm : (u, v) ∈ completeArcs n
      · have h' := this.1 hm
        simp [hm, h'.1, h'.2.1, h'.2.2]
      · have hc : (completeArcs n).contains (u, v) = false := by
          cases hc : (completeArcs n).contains (u, v)
          · rfl
          · exact absurd (List.contains_iff_mem.1 hc) hm
        rw [hc]
        have h' : ¬ (u < n ∧ v < n ∧ u ≠ v) := fun hh => hm (this.2 hh)
        by_cases hu : u < n <;> by_cases hv : v < n <;> by_cases huv : u = v <;> simp_all

/-- `EdgeList::is_complete` decides completeness. -/
theorem isComplete_correct {d : EdgeList} (h : d.WF) :
    ∃ b, isComplete d = some b ∧ (b = true ↔ Def.IsComplete (abs d)) := by
  obtain ⟨c, hcmp, hc, hco, hca⟩ := complete_spec h.1
  obtain ⟨h1, h2⟩ := isComplete_of_complete_spec h hcmp hc hco hca
  exact ⟨_, h1, h2⟩
end EL
end GraafVerif.Pred
