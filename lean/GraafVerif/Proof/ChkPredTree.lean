import GraafVerif.Model.ChkPredTree
import GraafVerif.Model.ChkTraversal
/-! `search_by`: no UB for every predecessor vector; the `Chk` model is the C19 model. -/
namespace GraafVerif.Chk
open GraafVerif.PredTree

theorem sbLoop_eq (pred : Pred) (isT : Nat → Option Nat → Bool) :
    ∀ (fuel s : Nat) (vis : List Bool) (path : List Nat),
      sbLoop pred isT fuel s vis path = .ok (PredTree.loop pred isT fuel s vis path) := by
  intro fuel
  induction fuel with
  | zero => intro s vis path; rfl
  | succ fuel ih =>
    intro s vis path
    unfold sbLoop PredTree.loop
    cases hp : pred[s]? with
    | none => rfl
    | some v =>
      simp only []
      split
      · rfl
      · cases v with
        | none => rfl
        | some v' =>
          simp only []
          cases hv : vis[v']? with
          | none => rfl
          | some b =>
            cases b with
            | true => rfl
            | false => exact ih _ _ _

/-- `f_ok` form: the `Chk` model agrees with the functional model used by C19. -/
theorem searchByChk_eq (pred : Pred) (s : Nat) (isT : Nat → Option Nat → Bool) :
    searchByChk pred s isT = liftRes (PredTree.searchBy pred s isT) := by
  unfold searchByChk PredTree.searchBy PredTree.searchByFuel rdChecked
  cases hp : pred[s]? with
  | none => rfl
  | some ps =>
    show (if isT s ps = true then pure (some [s]) else sbLoop pred isT (pred.length + 2) s _ [s]) = _
    split
    · rename_i h; simp only [h]; rfl
    · rename_i h; rw [sbLoop_eq]; simp only [h]; rfl

theorem noUB_liftRes (r : PredTree.Res) : NoUB (liftRes r) := by
  cases r with
  | panic => exact noUB_panic
  | ret p => exact noUB_ok _

/-- For EVERY predecessor vector (entries out of range included), start and predicate. -/
theorem searchByChk_noUB (pred : Pred) (s : Nat) (isT : Nat → Option Nat → Bool) : NoUB (searchByChk pred s isT) := by
  rw [searchByChk_eq]; exact noUB_liftRes _

end GraafVerif.Chk
