import GraafVerif.Model.AlgoGen2
import GraafVerif.Proof.AlgoGenRt
import GraafVerif.Model.Tarjan
/-!
# Generated `Tarjan::{new, connect, components}` (`Model/AlgoGen2.lean`) = hand-written `Model/Tarjan.lean`

The hand-written model is written in "state with a fault field" style (`St.fault`: once set, every
later step is the identity) and keeps the `Vec` used as stack with the top at the head; the
generated definitions are `Res`-valued (`panic` / `div` abort) and keep the vector in index order.
`ofH` converts a hand-written state (maps, `on_stack`, components are the same lists; the stack is
reversed), `liftT` reads the fault field: `none ↦ ok`, `panic ↦ panic`, `fuel ↦ div`.  Every
generated state is `ofH` of a fault-free hand-written state (`ofH_toH`).  All equalities are
UNCONDITIONAL: every digraph (closed or not), every fault-free state, every vertex, every fuel.
-/
set_option linter.unusedSimpArgs false
namespace GraafVerif.AlgoGenThm
open GraafVerif GraafVerif.AlgoGen

namespace Tarjan
open GraafVerif.Tarjan (St mget mset enter visit popTo finish unindexed topWith)

def ofH (st : St) : AlgoGen.Tarjan := ⟨st.i, st.stack.reverse, st.onStack, st.index, st.low, st.comps⟩
def toH (s : AlgoGen.Tarjan) : St :=
  { i := s.i, stack := s.stack.reverse, onStack := s.on_stack, index := s.index, low := s.low_link,
    comps := s.components, fault := none }

/-- every generated state is the image of a fault-free hand-written state -/
theorem ofH_toH (s : AlgoGen.Tarjan) : ofH (toH s) = s := by
  cases s; simp [ofH, toH]
theorem toH_fault (s : AlgoGen.Tarjan) : (toH s).fault = none := rfl

/-- read the fault field of a hand-written state -/
def liftT {α : Type} (f : St → α) (st : St) : Res α :=
  match st.fault with
  | none => .ok (f st)
  | some .panic => .error (.fault .panic)
  | some .fuel => .error .div

/-- the same inside a block -/
def liftTB {β ρ : Type} (st : St) : Blk β ρ AlgoGen.Tarjan :=
  match st.fault with
  | none => .ok (ofH st)
  | some .panic => .error (.err (.fault .panic))
  | some .fuel => .error (.err .div)

theorem insertAsc_eq (x : Nat) (l : List Nat) : GraafVerif.insertAsc x l = GraafVerif.Tarjan.insertAsc x l := by
  induction l with
  | nil => rfl
  | cons y ys ih => simp only [GraafVerif.insertAsc, GraafVerif.Tarjan.insertAsc, ih]

/-- `Tarjan::new`: all fields empty. -/
theorem new_eq : AlgoGen.Tarjan.new = .ok (ofH {}) := rfl

/-- `while let Some(v) = self.stack.pop() { on_stack.remove(v); component.insert(v); if u == v { break } }`
= the hand-written `popTo`, for every fuel that is at least the stack height. -/
theorem connect_while0_eq {β : Type} (u i : Nat) (idx low : AlgoGen.NatMap) (comps : List (List Nat)) :
    ∀ (stk on c : List Nat) (k : Nat), stk.length ≤ k →
      (whileLoop (AlgoGen.Tarjan.connect_while0 u) k (⟨i, stk.reverse, on, idx, low, comps⟩, c) :
          Blk β (Unit × AlgoGen.Tarjan) _) =
        .ok (⟨i, (popTo u stk on c).1.reverse, (popTo u stk on c).2.1, idx, low, comps⟩, (popTo u stk on c).2.2) := by
  intro stk
  induction stk with
  | nil =>
    intro on c k _
    cases k with
    | zero => rfl
    | succ k => rw [whileLoop_succ]; rfl
  | cons v st ih =>
    intro on c k hk
    cases k with
    | zero => simp at hk
    | succ k =>
      have hstep : (AlgoGen.Tarjan.connect_while0 u (⟨i, st.reverse ++ [v], on, idx, low, comps⟩, c) :
          Blk _ (Unit × AlgoGen.Tarjan) _) =
          if u = v then brk (⟨i, st.reverse, on.filter (· != v), idx, low, comps⟩, GraafVerif.Tarjan.insertAsc v c)
          else .ok (⟨i, st.reverse, on.filter (· != v), idx, low, comps⟩, GraafVerif.Tarjan.insertAsc v c) := by
        unfold AlgoGen.Tarjan.connect_while0
        simp only [vecPop_snoc, setRemove, setInsertA, insertAsc_eq]
        by_cases huv : u = v <;> simp [huv]
      rw [whileLoop_succ, List.reverse_cons, hstep]
      unfold popTo
      by_cases huv : u = v
      · simp [huv, brk_def]
      · simp only [huv, if_false]
        exact ih _ _ k (by simpa using hk)

theorem foldl_visit_fault (rec : Nat → St → St) (u : Nat) : ∀ (vs : List Nat) (s : St), s.fault.isSome = true →
    vs.foldl (visit rec u) s = s := by
  intro vs
  induction vs with
  | nil => intro s _; rfl
  | cons v vs ih =>
    intro s h
    have : visit rec u s v = s := by unfold visit; simp [h]
    rw [List.foldl_cons, this, ih s h]

theorem liftTB_fault {β ρ : Type} (s : St) (h : s.fault.isSome = true) :
    ∃ e, (liftTB s : Blk β ρ AlgoGen.Tarjan) = .error (.err e) := by
  unfold liftTB
  cases hf : s.fault with
  | none => rw [hf] at h; cases h
  | some f => cases f <;> exact ⟨_, rfl⟩

/-- One neighbour of `connect(u)` = the hand-written `visit`, for any `recf` that is a lifted
hand-written `rec`. -/
theorem connect_for0_step (recf : AlgoGen.Tarjan → Nat → Res (Unit × AlgoGen.Tarjan)) (rec : Nat → St → St)
    (hrec : ∀ (st : St) (x : Nat), st.fault = none → recf (ofH st) x = liftT (fun st' => ((), ofH st')) (rec x st))
    (u : Nat) (s : St) (hs : s.fault = none) (v : Nat) :
    (AlgoGen.Tarjan.connect_for0 recf u (ofH s) v : Blk AlgoGen.Tarjan (Unit × AlgoGen.Tarjan) _) =
      liftTB (visit rec u s v) := by
  unfold AlgoGen.Tarjan.connect_for0 visit
  simp only [hs, Option.isSome_none, Bool.false_eq_true, if_false, ofH, mapGet, mapSet]
  cases hv : mget s.index v with
  | some w =>
    simp only
    by_cases hon : v ∈ s.onStack
    · cases hl : mget s.low u with
      | none => simp [hon, mapIdx, mapGet, hl, liftTB, panic_def]
      | some lu => simp [hon, mapIdx, mapGet, hl, liftTB, hs, ofH, mapSet]
    · simp [hon, liftTB, hs, ofH]
  | none =>
    simp only
    have h := hrec s v hs
    simp only [ofH] at h
    rw [h]
    unfold liftT
    cases hf : (rec v s).fault with
    | some f => cases f <;> simp [liftTB, hf]
    | none =>
      simp only [call_ok, ok_bind, ofH, hf, Option.isSome_none, Bool.false_eq_true, if_false]
      cases hl : mget (rec v s).low u with
      | none => simp [mapIdx, mapGet, hl, liftTB, panic_def]
      | some lu =>
        cases hl2 : mget (rec v s).low v with
        | none => simp [mapIdx, mapGet, hl, hl2, liftTB, panic_def]
        | some lv => simp [mapIdx, mapGet, hl, hl2, liftTB, hf, ofH, mapSet]

/-- The neighbour loop of `connect(u)` = the fold of the hand-written `visit`. -/
theorem connect_for0_eq (recf : AlgoGen.Tarjan → Nat → Res (Unit × AlgoGen.Tarjan)) (rec : Nat → St → St)
    (hrec : ∀ (st : St) (x : Nat), st.fault = none → recf (ofH st) x = liftT (fun st' => ((), ofH st')) (rec x st))
    (u : Nat) : ∀ (vs : List Nat) (s : St), s.fault = none →
      (forLoop (AlgoGen.Tarjan.connect_for0 recf u) vs (ofH s) : Blk Empty (Unit × AlgoGen.Tarjan) _) =
        liftTB (vs.foldl (visit rec u) s) := by
  intro vs
  induction vs with
  | nil => intro s hs; simp [liftTB, hs]
  | cons v vs ih =>
    intro s hs
    have hstep := connect_for0_step recf rec hrec u s hs v
    rw [List.foldl_cons]
    cases hf : (visit rec u s v).fault with
    | none =>
      rw [forLoop_cons_ok (s' := ofH (visit rec u s v)) (h := by rw [hstep]; simp [liftTB, hf])]
      exact ih _ hf
    | some f =>
      have hsome : (visit rec u s v).fault.isSome = true := by rw [hf]; rfl
      rw [foldl_visit_fault rec u vs _ hsome]
      cases f with
      | fuel =>
        rw [forLoop_cons_err (e := .div) (h := by rw [hstep]; simp [liftTB, hf])]
        simp [liftTB, hf]
      | panic =>
        rw [forLoop_cons_err (e := .fault .panic) (h := by rw [hstep]; simp [liftTB, hf])]
        simp [liftTB, hf]

/-- `Tarjan::connect` = the hand-written `Tarjan.connect`, for every digraph, fuel, fault-free
state and vertex (fuel exhausted ↦ `div`, `low_link[&x]` on a missing key / `out_neighbors` of a
non-vertex ↦ `panic`). -/
theorem connect_eq (g : AlgoGen.VGraph) : ∀ (fuel : Nat) (s : St) (u : Nat), s.fault = none →
    AlgoGen.Tarjan.connect g fuel (ofH s) u = liftT (fun st' => ((), ofH st')) (GraafVerif.Tarjan.connect g fuel u s) := by
  intro fuel
  induction fuel with
  | zero => intro s u _; rfl
  | succ fuel ih =>
    intro s u hs
    unfold AlgoGen.Tarjan.connect GraafVerif.Tarjan.connect
    have henter : (⟨s.i + 1, s.stack.reverse ++ [u], u :: s.onStack, mset s.index u s.i, mset s.low u s.i, s.comps⟩ :
        AlgoGen.Tarjan) = ofH (enter u s) := by simp [ofH, enter]
    have hef : (enter u s).fault = none := hs
    simp only [ofH, mapSet, setInsertL]
    rw [henter]
    by_cases hu' : u ∈ g.verts
    · have hu : g.verts.contains u = true := by simpa using hu'
      simp only [hu, assert_true, ok_bind, if_true]
      rw [connect_for0_eq _ (GraafVerif.Tarjan.connect g fuel) (fun st x h => ih st x h) u (g.out u) _ hef]
      unfold liftTB liftT
      cases hf : ((g.out u).foldl (visit (GraafVerif.Tarjan.connect g fuel) u) (enter u s)).fault with
      | some f =>
        have : (finish u ((g.out u).foldl (visit (GraafVerif.Tarjan.connect g fuel) u) (enter u s))).fault = some f := by
          unfold finish; simp [hf]
        rw [this]
        cases f <;> rfl
      | none =>
        simp only [ok_bind]
        generalize (g.out u).foldl (visit (GraafVerif.Tarjan.connect g fuel) u) (enter u s) = s2 at hf
        unfold finish
        simp only [hf, Option.isSome_none, Bool.false_eq_true, if_false, mapGet]
        by_cases he : mget s2.index u = mget s2.low u
        · have hw := connect_while0_eq (β := Empty) u s2.i s2.index s2.low s2.comps s2.stack s2.onStack []
            s2.stack.reverse.length (by simp)
          simp only [ofH, he, if_true, hf] at hw ⊢
          rw [hw]
          rfl
        · simp [ofH, he, hf]
    · simp [hu', liftT, enter, assert_false]

theorem foldl_topWith_fault (g : AlgoGen.VGraph) (fuelOf : St → Nat) : ∀ (vs : List Nat) (s : St),
    s.fault.isSome = true → vs.foldl (topWith g fuelOf) s = s := by
  intro vs
  induction vs with
  | nil => intro s _; rfl
  | cons v vs ih =>
    intro s h
    have : topWith g fuelOf s v = s := by unfold topWith; simp [h]
    rw [List.foldl_cons, this, ih s h]

/-- `for u in vertices() { if !index.contains_key(&u) { self.connect(u) } }` = the fold of the
hand-written `topWith` with the constant fuel supply. -/
theorem componentsCall_for0_eq (g : AlgoGen.VGraph) (fuel : Nat) : ∀ (vs : List Nat) (s : St), s.fault = none →
    (forLoop (AlgoGen.Tarjan.componentsCall_for0 g fuel) vs (ofH s) :
        Blk Empty (List (List Nat) × AlgoGen.Tarjan) _) =
      liftTB (vs.foldl (topWith g (fun _ => fuel)) s) := by
  intro vs
  induction vs with
  | nil => intro s hs; simp [liftTB, hs]
  | cons v vs ih =>
    intro s hs
    have hstep : (AlgoGen.Tarjan.componentsCall_for0 g fuel (ofH s) v :
        Blk AlgoGen.Tarjan (List (List Nat) × AlgoGen.Tarjan) _) = liftTB (topWith g (fun _ => fuel) s v) := by
      unfold AlgoGen.Tarjan.componentsCall_for0 topWith
      simp only [hs, Option.isSome_none, Bool.false_eq_true, if_false, mapGet]
      have hidx : (ofH s).index = s.index := rfl
      rw [hidx]
      cases hi : mget s.index v with
      | some w => simp [liftTB, hs]
      | none =>
        simp only [Option.isSome_none, if_true, connect_eq g fuel s v hs, liftT, Bool.false_eq_true, if_false]
        unfold liftTB
        cases (GraafVerif.Tarjan.connect g fuel v s).fault with
        | none => rfl
        | some f => cases f <;> rfl
    rw [List.foldl_cons]
    cases hf : (topWith g (fun _ => fuel) s v).fault with
    | none =>
      rw [forLoop_cons_ok (s' := ofH (topWith g (fun _ => fuel) s v)) (h := by rw [hstep]; simp [liftTB, hf])]
      exact ih _ hf
    | some f =>
      have hsome : (topWith g (fun _ => fuel) s v).fault.isSome = true := by rw [hf]; rfl
      rw [foldl_topWith_fault g _ vs _ hsome]
      cases f with
      | fuel =>
        rw [forLoop_cons_err (e := .div) (h := by rw [hstep]; simp [liftTB, hf])]
        simp [liftTB, hf]
      | panic =>
        rw [forLoop_cons_err (e := .fault .panic) (h := by rw [hstep]; simp [liftTB, hf])]
        simp [liftTB, hf]

/-- `Tarjan::components` on any fault-free state = the hand-written loop with the fuel supply
`fun _ => fuel`: the returned `&Vec<BTreeSet<usize>>` and the object afterwards. -/
theorem componentsCall_eq (g : AlgoGen.VGraph) (fuel : Nat) (s : St) (hs : s.fault = none) :
    AlgoGen.Tarjan.componentsCall g fuel (ofH s) =
      liftT (fun st => (st.comps, ofH st)) (g.verts.foldl (topWith g (fun _ => fuel)) s) := by
  unfold AlgoGen.Tarjan.componentsCall
  rw [componentsCall_for0_eq g fuel g.verts s hs]
  unfold liftTB liftT
  cases (g.verts.foldl (topWith g (fun _ => fuel)) s).fault with
  | none => rfl
  | some f => cases f <;> rfl

/-- `Tarjan::new(&g).components()` = the hand-written `runWith` with a constant fuel supply. -/
theorem new_componentsCall_eq (g : AlgoGen.VGraph) (fuel : Nat) :
    (AlgoGen.Tarjan.new >>= fun s => Except.map Prod.fst (AlgoGen.Tarjan.componentsCall g fuel s)) =
      liftT (fun st => st.comps) (GraafVerif.Tarjan.runWith g (fun _ => fuel)) := by
  rw [new_eq]
  show Except.map Prod.fst (AlgoGen.Tarjan.componentsCall g fuel (ofH {})) = _
  rw [componentsCall_eq g fuel {} rfl]
  unfold liftT GraafVerif.Tarjan.runWith
  cases (g.verts.foldl (topWith g (fun _ => fuel)) {}).fault with
  | none => rfl
  | some f => cases f <;> rfl

end Tarjan

end GraafVerif.AlgoGenThm
