import GraafVerif.Spec.Graph
/-!
# Compose — the declarative notions over a bare arc RELATION

The algorithm theorems (C03 … C10) speak about `Reach g`, `IsHopDist g`, `IsMinDist g` … of a
`Graph` / `WGraph` (an order and an out-neighbour LIST function).  The end-to-end statements of
`Thm/Compose.lean` speak about the mathematical digraph a representation denotes: a plain arc
relation `A : Nat → Nat → Prop` (resp. `W : Nat → Nat → Int → Prop`), e.g.
`fun u v => (u, v) ∈ arcs r` or the arc set of C01's `SpecState`.  Here the notions are restated
over such relations — no lists, no order — and shown to be the very same predicates
(`reach_eq : Reach g = RReach g.A` …), so that a statement over a `Graph` can be transported
along `g.A = A` by rewriting.
-/
namespace GraafVerif.Compose
open GraafVerif

/-- An unweighted arc relation. -/
abbrev Rel := Nat → Nat → Prop
/-- A weighted arc relation: `W u v w` = "`u → v` is an arc of weight `w`". -/
abbrev WRel := Nat → Nat → Int → Prop

/-! ## Unweighted -/

/-- Reflexive-transitive closure of `A`. -/
inductive RReach (A : Rel) : Nat → Nat → Prop
  | refl (u) : RReach A u u
  | step {u v w} : RReach A u v → A v w → RReach A u w

/-- Reachable from some member of `S`. -/
def RReachFrom (A : Rel) (S : List Nat) (v : Nat) : Prop := ∃ s ∈ S, RReach A s v

/-- There is a walk with exactly `k` arcs from `u` to `v`. -/
inductive RReachIn (A : Rel) : Nat → Nat → Nat → Prop
  | zero (u) : RReachIn A 0 u u
  | succ {k u v w} : RReachIn A k u v → A v w → RReachIn A (k+1) u w

/-- `d` is the hop distance from the nearest source in `S` to `v`. -/
def RIsHopDist (A : Rel) (S : List Nat) (v d : Nat) : Prop :=
  (∃ s ∈ S, RReachIn A d s v) ∧ ∀ k, k < d → ¬ ∃ s ∈ S, RReachIn A k s v

/-- A vertex list whose consecutive members are arcs. -/
def RIsWalk (A : Rel) : List Nat → Prop
  | [] => True
  | [_] => True
  | u :: v :: rest => A u v ∧ RIsWalk A (v :: rest)

theorem reach_iff (g : Graph) (u v : Nat) : Reach g u v ↔ RReach g.A u v := by
  constructor
  · intro h; induction h with
    | refl => exact .refl _
    | step _ ha ih => exact .step ih ha
  · intro h; induction h with
    | refl => exact .refl _
    | step _ ha ih => exact .step ih ha

theorem reachIn_iff (g : Graph) (k u v : Nat) : ReachIn g k u v ↔ RReachIn g.A k u v := by
  constructor
  · intro h; induction h with
    | zero u => exact .zero u
    | succ _ ha ih => exact .succ ih ha
  · intro h; induction h with
    | zero u => exact .zero u
    | succ _ ha ih => exact .succ ih ha

theorem reach_eq (g : Graph) : Reach g = RReach g.A := by
  funext u v; exact propext (reach_iff g u v)

theorem reachIn_eq (g : Graph) : ReachIn g = RReachIn g.A := by
  funext k u v; exact propext (reachIn_iff g k u v)

theorem reachFrom_eq (g : Graph) : ReachFrom g = RReachFrom g.A := by
  funext S v; simp only [ReachFrom, RReachFrom, reach_eq]

theorem isHopDist_eq (g : Graph) : IsHopDist g = RIsHopDist g.A := by
  funext S v d; simp only [IsHopDist, RIsHopDist, reachIn_eq]

theorem isWalk_iff (g : Graph) : ∀ p : List Nat, IsWalk g p ↔ RIsWalk g.A p
  | [] => Iff.rfl
  | [_] => Iff.rfl
  | u :: v :: rest => by
    simp only [IsWalk, RIsWalk]
    exact and_congr Iff.rfl (isWalk_iff g (v :: rest))

theorem isWalk_eq (g : Graph) : IsWalk g = RIsWalk g.A := by
  funext p; exact propext (isWalk_iff g p)

/-- The notions depend on the relation only up to pointwise equivalence. -/
theorem rel_ext {A B : Rel} (h : ∀ u v, A u v ↔ B u v) : A = B := by
  funext u v; exact propext (h u v)

/-- Monotonicity (used for sanity corollaries). -/
theorem RReach.mono {A B : Rel} (h : ∀ u v, A u v → B u v) {u v : Nat} (r : RReach A u v) : RReach B u v := by
  induction r with
  | refl => exact .refl _
  | step _ ha ih => exact .step ih (h _ _ ha)

theorem RReach.trans {A : Rel} {u v w : Nat} (h₁ : RReach A u v) (h₂ : RReach A v w) : RReach A u w := by
  induction h₂ with
  | refl => exact h₁
  | step _ ha ih => exact .step ih ha

theorem RReachIn.toReach {A : Rel} {k u v : Nat} (h : RReachIn A k u v) : RReach A u v := by
  induction h with
  | zero u => exact .refl u
  | succ _ ha ih => exact .step ih ha

/-! ## Weighted -/

/-- `RWWalk W u v k wt`: a walk from `u` to `v` with `k` arcs and total weight `wt`. -/
inductive RWWalk (W : WRel) : Nat → Nat → Nat → Int → Prop
  | nil (u) : RWWalk W u u 0 0
  | snoc {u v x k wt w} : RWWalk W u v k wt → W v x w → RWWalk W u x (k+1) (wt + w)

/-- `d` is the minimum weight of a walk from some source in `S` to `v`. -/
def RIsMinDist (W : WRel) (S : List Nat) (v : Nat) (d : Int) : Prop :=
  (∃ s ∈ S, ∃ k, RWWalk W s v k d) ∧ ∀ s ∈ S, ∀ k wt, RWWalk W s v k wt → d ≤ wt

def RWReachFrom (W : WRel) (S : List Nat) (v : Nat) : Prop := ∃ s ∈ S, ∃ k wt, RWWalk W s v k wt

/-- A closed walk of negative total weight through `x` (with at least one arc). -/
def RNegCycleAt (W : WRel) (x : Nat) : Prop := ∃ k wt, 0 < k ∧ RWWalk W x x k wt ∧ wt < 0

theorem wwalk_iff (g : WGraph) (u v k : Nat) (wt : Int) : WWalk g u v k wt ↔ RWWalk g.A u v k wt := by
  constructor
  · intro h; induction h with
    | nil => exact .nil _
    | snoc _ ha ih => exact .snoc ih ha
  · intro h; induction h with
    | nil => exact .nil _
    | snoc _ ha ih => exact .snoc ih ha

theorem wwalk_eq (g : WGraph) : WWalk g = RWWalk g.A := by
  funext u v k wt; exact propext (wwalk_iff g u v k wt)

theorem isMinDist_eq (g : WGraph) : IsMinDist g = RIsMinDist g.A := by
  funext S v d; simp only [IsMinDist, RIsMinDist, wwalk_eq]

theorem wreachFrom_eq (g : WGraph) : WReachFrom g = RWReachFrom g.A := by
  funext S v; simp only [WReachFrom, RWReachFrom, wwalk_eq]

theorem negCycleAt_eq (g : WGraph) : NegCycleAt g = RNegCycleAt g.A := by
  funext x; simp only [NegCycleAt, RNegCycleAt, wwalk_eq]

theorem wrel_ext {A B : WRel} (h : ∀ u v w, A u v w ↔ B u v w) : A = B := by
  funext u v w; exact propext (h u v w)

end GraafVerif.Compose
