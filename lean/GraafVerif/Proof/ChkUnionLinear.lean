import GraafVerif.Proof.ChkReprC
/-!
# `AdjacencyMap::union`: every entry of the two `ManuallyDrop` vectors is `ptr::read` exactly once

…provided the boundaries are monotone and span `(0,0) … (n1,n2)` (`BoundariesOK`).  Then the
`set_len(0)` that follows frees the buffers without dropping an entry twice and without leaking
one.  (Before the `fix:` commit key-equal entries were compared but never read, and the buffers
were never freed: a leak on every call.)
-/
namespace GraafVerif.Chk

theorem rd_ok_of_lt {α : Type} (site : String) (l : List α) (i : Nat) (h : i < l.length) : rd site l i = .ok l[i] := by
  unfold rd; rw [List.getElem?_eq_getElem h]

theorem ok_bind {α β : Type} (a : α) (f : α → Chk β) : ((Except.ok a : Chk α) >>= f) = f a := rfl

theorem range'_cons_of_lt {i e : Nat} (h : i < e) : List.range' i (e - i) = i :: List.range' (i + 1) (e - (i + 1)) := by
  have : e - i = (e - (i + 1)) + 1 := by omega
  rw [this, List.range'_succ]

/-- One worker reads exactly the indices `i..iEnd` of `lhs` and `j..jEnd` of `rhs`, each once. -/
theorem unionChunk_reads (lhs rhs : List Nat) (iEnd jEnd : Nat) (hi : iEnd ≤ lhs.length) (hj : jEnd ≤ rhs.length) :
    ∀ (fuel i j : Nat) (rl rr : List Nat), i ≤ iEnd → j ≤ jEnd → (iEnd - i) + (jEnd - j) < fuel →
      unionChunk lhs rhs iEnd jEnd fuel i j rl rr =
        .ok (rl ++ List.range' i (iEnd - i), rr ++ List.range' j (jEnd - j)) := by
  intro fuel
  induction fuel with
  | zero => intro i j rl rr _ _ h; omega
  | succ fuel ih =>
    intro i j rl rr hie hje hf
    unfold unionChunk
    by_cases hI : i < iEnd
    · by_cases hJ : j < jEnd
      · have c1 : (decide (i < iEnd) || decide (j < jEnd)) = true := by simp [hI]
        have c2 : (decide (i < iEnd) && decide (j < jEnd)) = true := by simp [hI, hJ]
        rw [if_pos c1, if_pos c2, rd_ok_of_lt _ lhs i (by omega), rd_ok_of_lt _ rhs j (by omega)]
        show (if lhs[i] < rhs[j] then _ else _) = _
        split
        · rw [ih (i + 1) j _ rr (by omega) hje (by omega), range'_cons_of_lt hI]
          simp
        · split
          · rw [ih i (j + 1) rl _ hie (by omega) (by omega), range'_cons_of_lt hJ]
            simp
          · rw [ih (i + 1) (j + 1) _ _ (by omega) (by omega) (by omega), range'_cons_of_lt hI, range'_cons_of_lt hJ]
            simp
      · have c1 : (decide (i < iEnd) || decide (j < jEnd)) = true := by simp [hI]
        have c2 : ¬ (decide (i < iEnd) && decide (j < jEnd)) = true := by simp [hJ]
        rw [if_pos c1, if_neg c2, if_pos hI, rd_ok_of_lt _ lhs i (by omega)]
        show unionChunk lhs rhs iEnd jEnd fuel (i + 1) j (rl ++ [i]) rr = _
        rw [ih (i + 1) j _ rr (by omega) hje (by omega), range'_cons_of_lt hI]
        simp
    · by_cases hJ : j < jEnd
      · have c1 : (decide (i < iEnd) || decide (j < jEnd)) = true := by simp [hJ]
        have c2 : ¬ (decide (i < iEnd) && decide (j < jEnd)) = true := by simp [hI]
        rw [if_pos c1, if_neg c2, if_neg hI, rd_ok_of_lt _ rhs j (by omega)]
        show unionChunk lhs rhs iEnd jEnd fuel i (j + 1) rl (rr ++ [j]) = _
        rw [ih i (j + 1) rl _ hie (by omega) (by omega), range'_cons_of_lt hJ]
        have : iEnd - i = 0 := by omega
        simp [this]
      · have c1 : ¬ (decide (i < iEnd) || decide (j < jEnd)) = true := by simp [hI, hJ]
        rw [if_neg c1]
        have h1 : iEnd - i = 0 := by omega
        have h2 : jEnd - j = 0 := by omega
        simp [h1, h2]
        rfl

/-- The boundaries are monotone in both coordinates and span `(0,0) … (n1,n2)`. -/
structure BoundariesOK (bs : List (Nat × Nat)) (n1 n2 t : Nat) : Prop where
  len : bs.length = t + 1
  first : bs[0]? = some (0, 0)
  last : bs[t]? = some (n1, n2)
  mono : ∀ k, k < t → ∀ s e, bs[k]? = some s → bs[k + 1]? = some e → s.1 ≤ e.1 ∧ s.2 ≤ e.2 ∧ e.1 ≤ n1 ∧ e.2 ≤ n2

theorem amUnionWorkers_prefix (lhs rhs : List Nat) (bs : List (Nat × Nat)) (t : Nat)
    (hok : BoundariesOK bs lhs.length rhs.length t) :
    ∀ k, k ≤ t → ∀ b, bs[k]? = some b →
      (List.range k).foldlM (fun (acc : List Nat × List Nat) k => do
        let s ← rd "adjacency_map/mod.rs:union:boundaries.get_unchecked(k)" bs k
        let e ← rd "adjacency_map/mod.rs:union:boundaries.get_unchecked(k + 1)" bs (k + 1)
        unionChunk lhs rhs e.1 e.2 (lhs.length + rhs.length + 1) s.1 s.2 acc.1 acc.2) ([], [])
      = .ok (List.range' 0 b.1, List.range' 0 b.2) := by
  intro k
  induction k with
  | zero =>
    intro _ b hb
    rw [hok.first] at hb
    cases hb
    rfl
  | succ k ih =>
    intro hk e he
    have hklt : k < bs.length := by rw [hok.len]; omega
    have hs : bs[k]? = some bs[k] := List.getElem?_eq_getElem hklt
    rw [List.range_succ, List.foldlM_append, ih (by omega) bs[k] hs]
    obtain ⟨m1, m2, m3, m4⟩ := hok.mono k (by omega) bs[k] e hs he
    have hk1 : k + 1 < bs.length := by rw [hok.len]; omega
    have he' : bs[k + 1] = e := by
      have := List.getElem?_eq_getElem hk1
      rw [this] at he; cases he; rfl
    rw [ok_bind]
    simp only [List.foldlM_cons, List.foldlM_nil, bind_pure]
    rw [rd_ok_of_lt _ bs k hklt, rd_ok_of_lt _ bs (k + 1) hk1, he', ok_bind, ok_bind]
    rw [unionChunk_reads lhs rhs e.1 e.2 m3 m4 _ _ _ _ _ m1 m2 (by omega)]
    congr 2
    · have : e.1 = bs[k].1 + (e.1 - bs[k].1) := by omega
      rw [this, ← List.range'_append_1]; simp
    · have : e.2 = bs[k].2 + (e.2 - bs[k].2) := by omega
      rw [this, ← List.range'_append_1]; simp

/-- **`mapUnion_linear`**: with monotone boundaries the workers move every entry of `lhs_vec` and of
`rhs_vec` out exactly once (indices `0..n1` and `0..n2`, each once, in order). -/
theorem amUnionWorkers_linear (lhs rhs : List Nat) (bs : List (Nat × Nat)) (t : Nat)
    (hok : BoundariesOK bs lhs.length rhs.length t) :
    amUnionWorkers lhs rhs bs t = .ok (List.range lhs.length, List.range rhs.length) := by
  unfold amUnionWorkers
  rw [amUnionWorkers_prefix lhs rhs bs t hok t (Nat.le_refl _) _ hok.last]
  simp [List.range_eq_range']

end GraafVerif.Chk
