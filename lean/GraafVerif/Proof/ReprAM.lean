import GraafVerif.Proof.ReprRun
/-!
# `AdjacencyMap` refines the abstract digraph with a growing vertex set (C01) and is determined by it (C20)
-/
namespace GraafVerif.Repr.AdjMap
open GraafVerif.ReprSpec GraafVerif.Repr

/-- The out-row of `u` (empty when `u` is not a key). -/
def row (d : AdjMap) (u : Nat) : List Nat := (mget u d.rows).getD []

theorem hasArc_eq (d : AdjMap) (u v : Nat) : d.hasArc u v = (d.row u).contains v := by
  unfold hasArc row; cases mget u d.rows <;> simp

/-- `WF` phrased with lookups instead of list membership. -/
theorem WF_iff (d : AdjMap) : d.WF ↔ SortedK d.rows ∧ ∀ u r, mget u d.rows = some r →
    SortedS r ∧ ∀ v ∈ r, v ≠ u ∧ (mget v d.rows).isSome = true := by
  unfold WF
  constructor
  · rintro ⟨hs, h⟩
    exact ⟨hs, fun u r hr => h u r ((mget_eq_some_iff hs).mp hr)⟩
  · rintro ⟨hs, h⟩
    exact ⟨hs, fun u r hr => h u r ((mget_eq_some_iff hs).mpr hr)⟩

theorem empty_WF {n : Nat} {d : AdjMap} (h : empty n = some d) : d.WF := by
  unfold empty at h
  split at h
  · cases h
  · cases h
    refine ⟨?_, ?_⟩
    · simp only [SortedK, List.pairwise_map]
      exact List.pairwise_lt_range
    · intro u r hm
      simp only [List.mem_map, Prod.mk.injEq] at hm
      obtain ⟨_, _, _, rfl⟩ := hm
      exact ⟨List.Pairwise.nil, by simp⟩

theorem mget_empty (n a : Nat) :
    mget a ((List.range n).map (fun u => (u, ([] : List Nat)))) = if a < n then some [] else none := by
  have hs : SortedK ((List.range n).map (fun u => (u, ([] : List Nat)))) := by
    simp only [SortedK, List.pairwise_map]; exact List.pairwise_lt_range
  by_cases ha : a < n
  · simp only [ha, if_true]
    rw [mget_eq_some_iff hs]
    simp [ha]
  · simp only [ha, if_false]
    cases hm : mget a ((List.range n).map (fun u => (u, ([] : List Nat)))) with
    | none => rfl
    | some r =>
      have := (mget_eq_some_iff hs).mp hm
      simp at this
      omega

theorem abs_empty {n : Nat} {d : AdjMap} (h : empty n = some d) : d.abs = emptySpec Unit n := by
  unfold empty at h
  split at h
  · cases h
  · cases h
    apply SpecState.ext
    · intro x; simp only [abs, emptySpec, mget_empty]; split <;> simp [*]
    · intro u v
      simp only [abs, emptySpec, hasArc_eq, row, mget_empty]
      split <;> simp

theorem rejected_growing (d : AdjMap) (u v : Nat) : rejected .growing d.abs u v = decide (u = v) := by
  simp [rejected]

/-- Lookups after `add_arc(u, v)`, `u ≠ v`. -/
theorem mget_add (d : AdjMap) (hs : SortedK d.rows) (u v a : Nat) (huv : u ≠ v) :
    mget a (mupsert v [] id (mupsert u [] (sinsert v) d.rows)) =
      if a = v then some (d.row v) else if a = u then some (sinsert v (d.row u)) else mget a d.rows := by
  rw [mget_mupsert (sortedK_mupsert hs), mget_mupsert hs, mget_mupsert hs]
  have : ¬ v = u := fun e => huv e.symm
  simp only [this, if_false, id, row]

theorem step_WF (d : AdjMap) (op : Op Unit) (h : d.WF) : (d.step op).1.WF := by
  have h' := (WF_iff d).mp h
  obtain ⟨hs, hr⟩ := h'
  cases op with
  | add u v w =>
    simp only [step, addArc]
    by_cases huv : u = v
    · simp only [huv, if_true, outOfOpt_none]; exact h
    · simp only [huv, if_false, outOfOpt_some]
      rw [WF_iff]
      refine ⟨sortedK_mupsert (sortedK_mupsert hs), ?_⟩
      have hmono : ∀ x, (mget x d.rows).isSome = true →
          (mget x (mupsert v [] id (mupsert u [] (sinsert v) d.rows))).isSome = true := by
        intro x hx
        rw [mget_add d hs u v x huv]
        split
        · rfl
        · split
          · rfl
          · exact hx
      have hrow : ∀ a, SortedS (d.row a) ∧ ∀ x ∈ d.row a, x ≠ a ∧ (mget x d.rows).isSome = true := by
        intro a
        unfold row
        cases hm : mget a d.rows with
        | none => exact ⟨List.Pairwise.nil, by simp⟩
        | some r => exact hr a r hm
      intro a r hm
      rw [mget_add d hs u v a huv] at hm
      split at hm
      · rename_i e; subst e; cases hm
        exact ⟨(hrow a).1, fun x hx => ⟨((hrow a).2 x hx).1, hmono x ((hrow a).2 x hx).2⟩⟩
      · split at hm
        · rename_i e; subst e; cases hm
          refine ⟨sorted_sinsert (hrow a).1, ?_⟩
          intro x hx
          rcases mem_sinsert.mp hx with rfl | hx
          · refine ⟨fun e => huv e.symm, ?_⟩
            rw [mget_add d hs a x x huv]; simp
          · exact ⟨((hrow a).2 x hx).1, hmono x ((hrow a).2 x hx).2⟩
        · have := hr a r hm
          exact ⟨this.1, fun x hx => ⟨(this.2 x hx).1, hmono x (this.2 x hx).2⟩⟩
  | rem u v =>
    simp only [step, removeArc]
    cases hm : mget u d.rows with
    | none => exact h
    | some r0 =>
      simp only [outOfRem]
      rw [WF_iff]
      refine ⟨sortedK_mupsert hs, ?_⟩
      have hmono : ∀ x, (mget x d.rows).isSome = true →
          (mget x (mupsert u [] (serase v) d.rows)).isSome = true := by
        intro x hx
        rw [mget_mupsert hs]
        split
        · rfl
        · exact hx
      intro a r hma
      rw [mget_mupsert hs] at hma
      split at hma
      · rename_i e; subst e
        simp only [hm, Option.getD_some, Option.some.injEq] at hma
        subst hma
        have := hr a r0 hm
        refine ⟨sorted_serase this.1, ?_⟩
        intro x hx
        have hx' := ((mem_serase this.1).mp hx).1
        exact ⟨(this.2 x hx').1, hmono x (this.2 x hx').2⟩
      · have := hr a r hma
        exact ⟨this.1, fun x hx => ⟨(this.2 x hx).1, hmono x (this.2 x hx).2⟩⟩

theorem step_refines (d : AdjMap) (op : Op Unit) (h : d.WF) :
    (d.step op).1.abs = (specStep .growing d.abs op).1 ∧ (d.step op).2 = (specStep .growing d.abs op).2 := by
  obtain ⟨hs, hr⟩ := (WF_iff d).mp h
  cases op with
  | add u v w =>
    simp only [step, addArc]
    by_cases huv : u = v
    · have hrej : rejected .growing d.abs u v = true := by rw [rejected_growing]; simp [huv]
      simp only [huv, if_true, outOfOpt_none]
      rw [specStep_add_rej _ (huv ▸ hrej)]
      exact ⟨rfl, rfl⟩
    · have hrej : rejected .growing d.abs u v = false := by rw [rejected_growing]; simp [huv]
      simp only [huv, if_false, outOfOpt_some]
      rw [specStep_add_ok _ hrej]
      refine ⟨?_, rfl⟩
      apply SpecState.ext
      · intro x
        simp only [abs, grow, addV, mget_add d hs u v x huv]
        by_cases hxv : x = v
        · simp [hxv]
        · by_cases hxu : x = u
          · subst hxu; simp [huv]
          · simp [hxv, hxu]
      · intro a b
        simp only [abs, setW, hasArc_eq, row, mget_add d hs u v a huv]
        by_cases hav : a = v
        · subst hav
          have : ¬ (a = u ∧ b = a) := fun e => huv e.1.symm
          simp [this]
        · by_cases hau : a = u
          · subst hau
            simp only [hav, if_false, if_true, Option.getD_some, true_and]
            by_cases hb : b = v
            · subst hb; simp [mem_sinsert]
            · simp only [hb, if_false]
              apply unitOf_congr
              simp [mem_sinsert, hb]
          · simp [hav, hau]
  | rem u v =>
    simp only [step, removeArc, specStep]
    cases hm : mget u d.rows with
    | none =>
      simp only [outOfRem]
      have hno : ∀ b, d.hasArc u b = false := by intro b; simp [hasArc, hm]
      refine ⟨?_, by simp [abs, SpecState.A, hno]⟩
      apply SpecState.ext
      · intro x; rfl
      · intro a b
        simp only [abs, setW]
        split
        · rename_i hc; obtain ⟨rfl, rfl⟩ := hc; simp [hno]
        · rfl
    | some r0 =>
      have hw := hr u r0 hm
      simp only [outOfRem]
      refine ⟨?_, by simp [abs, SpecState.A, hasArc, hm]⟩
      apply SpecState.ext
      · intro x
        simp only [abs, mget_mupsert hs]
        split
        · rename_i e; subst e; simp [hm]
        · rfl
      · intro a b
        simp only [abs, setW, hasArc_eq, row, mget_mupsert hs]
        by_cases ha : a = u
        · subst ha
          simp only [if_true, hm, Option.getD_some, true_and]
          by_cases hb : b = v
          · subst hb; simp [mem_serase hw.1]
          · simp only [hb, if_false]
            apply unitOf_congr
            simp [mem_serase hw.1, hb]
        · simp [ha]

/-- A rejected call (self-loop) panics and leaves the digraph unchanged. -/
theorem step_rejects (d : AdjMap) (u v : Nat) (h : rejected .growing d.abs u v = true) :
    d.step (.add u v ()) = (d, .panic) := by
  rw [rejected_growing] at h
  simp only [decide_eq_true_eq] at h
  simp [step, addArc, h, outOfOpt]

theorem run_refines (ops : List (Op Unit)) (d : AdjMap) (h : d.WF) :
    (run step d ops).1.WF ∧ (run step d ops).1.abs = (run (specStep .growing) d.abs ops).1 ∧
    (run step d ops).2 = (run (specStep .growing) d.abs ops).2 :=
  run_refines_gen step (specStep .growing) WF abs step_WF step_refines ops d h

/-! ### reads -/

def flatPairs (rows : List (Nat × List Nat)) : List (Nat × Nat) :=
  rows.flatMap (fun p => p.2.map (fun v => (p.1, v)))

theorem arcs_eq (d : AdjMap) : d.arcs = flatPairs d.rows := by
  simp only [arcs, flatPairs]

theorem mem_flatPairs {rows : List (Nat × List Nat)} {u v : Nat} :
    (u, v) ∈ flatPairs rows ↔ ∃ r, (u, r) ∈ rows ∧ v ∈ r := by
  simp only [flatPairs, List.mem_flatMap, List.mem_map, Prod.mk.injEq, Prod.exists]
  constructor
  · rintro ⟨a, r, hm, x, hx, rfl, rfl⟩; exact ⟨r, hm, hx⟩
  · rintro ⟨r, hm, hx⟩; exact ⟨u, r, hm, v, hx, rfl, rfl⟩

theorem pairwise_flatPairs {rows : List (Nat × List Nat)} (hs : SortedK rows)
    (hr : ∀ p ∈ rows, SortedS p.2) : (flatPairs rows).Pairwise (fun a b => pairLt a b = true) := by
  induction rows with
  | nil => simp [flatPairs]
  | cons p rest ih =>
    have hp := List.pairwise_cons.mp hs
    have : flatPairs (p :: rest) = p.2.map (fun v => (p.1, v)) ++ flatPairs rest := by simp [flatPairs]
    rw [this, List.pairwise_append]
    refine ⟨?_, ih hp.2 (fun q hq => hr q (List.mem_cons_of_mem _ hq)), ?_⟩
    · rw [List.pairwise_map]
      refine List.Pairwise.imp ?_ (hr p (List.mem_cons_self ..))
      intro a b hab; simp [pairLt, hab]
    · intro a ha b hb
      obtain ⟨b1, b2⟩ := b
      obtain ⟨r, hm, _⟩ := mem_flatPairs.mp hb
      have := hp.1 _ hm
      simp only [List.mem_map] at ha
      obtain ⟨x, _, rfl⟩ := ha
      simp only [pairLt, Bool.or_eq_true, decide_eq_true_eq]
      left; exact this

theorem mem_arcs (d : AdjMap) (h : d.WF) (u v : Nat) : (u, v) ∈ d.arcs ↔ d.abs.A u v = true := by
  rw [arcs_eq, mem_flatPairs]
  simp only [abs, SpecState.A, unitOf_isSome, hasArc]
  constructor
  · rintro ⟨r, hm, hv⟩
    rw [(mget_eq_some_iff h.1).mpr hm]; simpa using hv
  · intro hh
    cases hm : mget u d.rows with
    | none => simp [hm] at hh
    | some r =>
      simp only [hm, List.contains_iff_mem] at hh
      exact ⟨r, (mget_eq_some_iff h.1).mp hm, by simpa using hh⟩

/-- `arcs()` lists every arc exactly once, in ascending lexicographic order. -/
theorem arcs_sorted_nodup (d : AdjMap) (h : d.WF) :
    d.arcs.Pairwise (fun a b => pairLt a b = true) ∧ d.arcs.Nodup ∧
    ∀ u v, (u, v) ∈ d.arcs ↔ d.abs.A u v = true := by
  have hp : d.arcs.Pairwise (fun a b => pairLt a b = true) := by
    rw [arcs_eq]
    exact pairwise_flatPairs h.1 (fun p hp => (h.2 p.1 p.2 hp).1)
  exact ⟨hp, sortedP_nodup hp, mem_arcs d h⟩

/-- `vertices()` lists every vertex exactly once, ascending. -/
theorem vertices_spec (d : AdjMap) (h : d.WF) :
    SortedS d.vertices ∧ d.vertices.Nodup ∧ ∀ x, x ∈ d.vertices ↔ d.abs.V x = true := by
  have hs : SortedS d.vertices := (sortedK_iff_keys d.rows).mp h.1
  refine ⟨hs, sortedS_nodup hs, ?_⟩
  intro x
  simp only [abs, vertices]
  exact (mget_isSome_iff h.1).symm

theorem order_eq (d : AdjMap) : d.order = d.vertices.length := by simp [order, vertices]

theorem size_eq (d : AdjMap) : d.size = d.arcs.length := by
  rw [arcs_eq]
  simp only [size, flatPairs, List.length_flatMap, List.length_map]

theorem abs_valid (d : AdjMap) (h : d.WF) : d.abs.Valid := by
  intro u v huv
  obtain ⟨r, hm, hv⟩ := mem_flatPairs.mp ((arcs_eq d) ▸ (mem_arcs d h u v).mpr huv)
  have hw := (h.2 u r hm).2 v hv
  simp only [abs]
  exact ⟨fun e => hw.1 e.symm, by rw [(mget_eq_some_iff h.1).mpr hm]; rfl, hw.2⟩

/-- C20: a well-formed `AdjacencyMap` is determined by its abstract digraph. -/
theorem abs_injective (d₁ d₂ : AdjMap) (h₁ : d₁.WF) (h₂ : d₂.WF) : d₁.abs = d₂.abs ↔ d₁ = d₂ := by
  constructor
  · intro h
    obtain ⟨hs₁, hr₁⟩ := (WF_iff d₁).mp h₁
    obtain ⟨hs₂, hr₂⟩ := (WF_iff d₂).mp h₂
    have hrows : d₁.rows = d₂.rows := by
      apply sortedK_ext hs₁ hs₂
      intro k
      have hV := congrFun (congrArg SpecState.V h) k
      simp only [abs] at hV
      cases hm₁ : mget k d₁.rows with
      | none =>
        cases hm₂ : mget k d₂.rows with
        | none => rfl
        | some r₂ => simp [hm₁, hm₂] at hV
      | some r₁ =>
        cases hm₂ : mget k d₂.rows with
        | none => simp [hm₁, hm₂] at hV
        | some r₂ =>
          congr 1
          apply sortedS_ext (hr₁ k r₁ hm₁).1 (hr₂ k r₂ hm₂).1
          intro v
          have := unitOf_inj (congrFun (congrFun (congrArg SpecState.W h) k) v)
          simp only [hasArc, hm₁, hm₂] at this
          simpa using congrArg (· = true) this
    cases d₁; cases d₂; simp_all
  · rintro rfl; rfl

end GraafVerif.Repr.AdjMap
