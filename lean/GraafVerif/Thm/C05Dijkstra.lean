import GraafVerif.Proof.DijkstraPred
/-!
# C05 (Dijkstra half) — `DijkstraPred::predecessors` and `shortest_path` are valid and optimal

Only statements and their proofs by reference (`Proof/DijkstraPred.lean`).  `predecessors`,
`shortestPath` are the models of `DijkstraPred::predecessors` / `shortest_path`
(Model/Dijkstra.lean), the latter through the C19 model of `PredecessorTree::search_by`.
Hypotheses `Hyp g S` as in C03.  `PathW g p wt` (Spec/Dijkstra.lean): the vertex list `p` is a
walk of total weight `wt`.
-/
namespace GraafVerif.C05Dijkstra
open GraafVerif GraafVerif.Dijkstra

/-- Full statement of the Dijkstra half of C05. -/
def Statement : Prop :=
  ∀ (g : WGraph) (S : List Nat), Hyp g S →
    -- the tree: sources and unreachable vertices have no predecessor …
    (predecessors g S).length = g.n ∧
    (∀ v, v < g.n → (v ∈ S ∨ ¬ WReachFrom g S v) → (predecessors g S)[v]? = some none) ∧
    -- … every other reachable vertex has one, over a tight arc: dist(u) + w(u,v) = dist(v) …
    (∀ v, v < g.n → v ∉ S → WReachFrom g S v → ∃ u w du dv,
      (predecessors g S)[v]? = some (some u) ∧ g.A u v w ∧
      IsMinDist g S u du ∧ IsMinDist g S v dv ∧ du + w = dv) ∧
    -- … so following predecessors from v reaches a source along a shortest path.
    (∀ v, WReachFrom g S v → ∃ p d,
      PredTree.searchBy (predecessors g S) v (fun _ b => b.isNone) = .ret (some p) ∧
      p.head? = some v ∧ (∃ s ∈ S, p.getLast? = some s) ∧ PathW g p.reverse d ∧ IsMinDist g S v d) ∧
    -- shortest_path: None exactly when no reachable vertex is a target; otherwise a walk from a
    -- source to a target whose weight is the minimum over all targets.
    ∀ isT : Nat → Bool,
      (shortestPath g S isT = .ret none ↔ ¬ ∃ v, WReachFrom g S v ∧ isT v = true) ∧
      ((∃ v, WReachFrom g S v ∧ isT v = true) → ∃ p t d,
        shortestPath g S isT = .ret (some p) ∧
        (∃ s ∈ S, p.head? = some s) ∧ p.getLast? = some t ∧ isT t = true ∧
        PathW g p d ∧ IsMinDist g S t d ∧
        ∀ t' d', isT t' = true → IsMinDist g S t' d' → d ≤ d')

/-- [P1] the predecessor tree. -/
theorem dijkstraPred_tree (g : WGraph) (S : List Nat) (h : Hyp g S) :
    (predecessors g S).length = g.n ∧
    (∀ v, v < g.n → (v ∈ S ∨ ¬ WReachFrom g S v) → (predecessors g S)[v]? = some none) ∧
    (∀ v, v < g.n → v ∉ S → WReachFrom g S v → ∃ u w du dv,
      (predecessors g S)[v]? = some (some u) ∧ g.A u v w ∧
      IsMinDist g S u du ∧ IsMinDist g S v dv ∧ du + w = dv) :=
  predecessors_spec h

/-- [P1] following predecessors reaches a source along a shortest path. -/
theorem dijkstraPred_chain (g : WGraph) (S : List Nat) (h : Hyp g S) :
    ∀ v, WReachFrom g S v → ∃ p d,
      PredTree.searchBy (predecessors g S) v (fun _ b => b.isNone) = .ret (some p) ∧
      p.head? = some v ∧ (∃ s ∈ S, p.getLast? = some s) ∧ PathW g p.reverse d ∧ IsMinDist g S v d :=
  pred_chain_spec h

/-- [P1] `shortest_path`. -/
theorem dijkstra_shortest_path (g : WGraph) (S : List Nat) (h : Hyp g S) (isT : Nat → Bool) :
    (shortestPath g S isT = .ret none ↔ ¬ ∃ v, WReachFrom g S v ∧ isT v = true) ∧
    ((∃ v, WReachFrom g S v ∧ isT v = true) → ∃ p t d,
      shortestPath g S isT = .ret (some p) ∧
      (∃ s ∈ S, p.head? = some s) ∧ p.getLast? = some t ∧ isT t = true ∧
      PathW g p d ∧ IsMinDist g S t d ∧
      ∀ t' d', isT t' = true → IsMinDist g S t' d' → d ≤ d') := by
  obtain ⟨h1, h2⟩ := shortestPath_spec h isT
  refine ⟨⟨?_, h1⟩, h2⟩
  intro hnone hex
  obtain ⟨p, _, _, hp, _⟩ := h2 hex
  rw [hp] at hnone
  simp at hnone

/-- The Dijkstra half of C05 in full. -/
theorem dijkstraPred_correct : Statement := by
  intro g S h
  obtain ⟨h1, h2, h3⟩ := dijkstraPred_tree g S h
  exact ⟨h1, h2, h3, dijkstraPred_chain g S h, dijkstra_shortest_path g S h⟩

/-! Non-vacuity (the digraph of C03's witness; `Hyp gStale [0]` is shown in `Thm/C03`). -/
example : predecessors gStale [0] = [none, some 2, some 0, some 0] := by decide
example : shortestPath gStale [0] (fun v => v == 1 || v == 3) = .ret (some [0, 2, 1]) := by decide
example : PathW gStale [0, 2, 1] 2 :=
  PathW.cons (w := 1) (by unfold WGraph.A; decide) (PathW.cons (w := 1) (by unfold WGraph.A; decide) (PathW.single 1))

end GraafVerif.C05Dijkstra
