/-! Property theorems for C09 (statements + proofs by reference to `Proof/`). Not built yet. -/
