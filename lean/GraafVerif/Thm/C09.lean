import GraafVerif.Proof.Tarjan
import GraafVerif.Proof.TarjanCheckComplete
/-!
# C09 — Tarjan partitions the vertices into the strongly connected components

Only statements and their proofs-by-reference live here.  `components` is the model of
`Tarjan::new(&g).components()` (Model/Tarjan.lean), tied to the code by the correspondence run;
`IsSCCPartition`, `VGraph.Closed` and the checker `sccCheck` are in Spec/Tarjan.lean; the
invariants (after Chen, Cohen, Lévy, Merz, Théry, ITP 2019) in Proof/Tarjan*.lean.

A `VGraph` is a vertex-id list plus an out-neighbour function, so every statement below is about
ANY finite id set — contiguous `0..n` or not (non-contiguous `AdjacencyMap`s, on which
`Johnson75` relies).
-/
namespace GraafVerif.C09
open GraafVerif GraafVerif.Tarjan

/-- Full statement of C09: for every digraph the call returns — no panic, the recursion
terminates within the fuel — sets that partition the vertex set such that two vertices lie in the
same set exactly when each is reachable from the other. -/
def Statement : Prop :=
  ∀ g : VGraph, g.Closed → ∃ cs, components g = .ret cs ∧ IsSCCPartition g cs

/-- [P2] The full statement holds. -/
theorem tarjan_scc : Statement := fun g h => components_correct g h

/-- The statement holds for EVERY call of `components()` on the same `Tarjan` value (`&mut self`
keeps `index`, `components`, … between calls): the `k`-th call returns exactly what the first
one returned, hence again the partition into strongly connected components. -/
theorem tarjan_every_call (g : VGraph) (h : g.Closed) (k : Nat) :
    componentsAt g (k + 1) = components g ∧
    ∃ cs, componentsAt g (k + 1) = .ret cs ∧ IsSCCPartition g cs := by
  have e : componentsAt g (k + 1) = components g := by
    unfold componentsAt; rw [callN_succ h k]; rfl
  exact ⟨e, by rw [e]; exact components_correct g h⟩

/-- [P0] Termination / fuel adequacy of the whole run: with ANY fuel supply that is at least the
number of vertices not yet indexed, the run is the one of the model (which supplies that number
plus one) — so the fuel is a termination proof, not an assumption.  Together with `tarjan_scc`
(result is `.ret`, not `.fuel`): the recursion depth never exceeds the number of un-indexed
vertices, because every call indexes a new vertex. -/
theorem tarjan_fuel_adequate (g : VGraph) (h : g.Closed) (fuelOf : St → Nat)
    (hf : ∀ s, unindexed g s ≤ fuelOf s) : runWith g fuelOf = run g := runWith_eq h fuelOf hf

/-- [P0] The same for a single `connect` call in any state satisfying the invariant: no fault
(neither fuel nor panic) and the result does not depend on the fuel ≥ the bound. -/
theorem connect_fuel_adequate (g : VGraph) (h : g.Closed) (gray : List Nat) (u : Nat) (s : St)
    (p : Pre g gray u s) (fuel : Nat) (hfuel : unindexed g s ≤ fuel) :
    (connect g fuel u s).fault = none ∧ connect g fuel u s = connect g (unindexed g s) u s :=
  Tarjan.connect_fuel_adequate g h gray u s p fuel hfuel

/-- [P1] The output sets are non-empty, pairwise disjoint and cover exactly the vertex set. -/
theorem tarjan_partition (g : VGraph) (h : g.Closed) :
    ∃ cs, components g = .ret cs ∧ (∀ c ∈ cs, c ≠ []) ∧
      cs.Pairwise (fun c d => ∀ x ∈ c, x ∉ d) ∧ (∀ v, v ∈ g.verts ↔ ∃ c ∈ cs, v ∈ c) := by
  obtain ⟨cs, hcs, hp⟩ := components_correct g h
  exact ⟨cs, hcs, hp.nonempty, hp.disjoint, hp.cover⟩

/-- Each returned set is listed strictly ascending (the iteration order of the `BTreeSet`s, which
the correspondence run compares verbatim). -/
theorem tarjan_sets_ascending (g : VGraph) (h : g.Closed) (cs : List (List Nat))
    (hcs : components g = .ret cs) : ∀ c ∈ cs, c.Pairwise (· < ·) := by
  obtain ⟨inv, _⟩ := run_inv h
  unfold components at hcs
  rw [inv.nofault] at hcs
  injection hcs with hcs
  subst hcs
  exact fun c hc => (inv.compAsc c hc).1

/-- [P0] The executable checker used as the driver's oracle is sound: an accepted component list
IS the partition into strongly connected components.  Every evaluated instance therefore carries
a kernel-checkable certificate (`sccCheck g cs = true` by evaluation). -/
theorem sccCheck_sound (g : VGraph) (cs : List (List Nat)) (h : sccCheck g cs = true) :
    IsSCCPartition g cs := Tarjan.sccCheck_sound g cs h

/-- The checker is also complete on closed digraphs: it accepts EVERY correct answer, so the
driver's PROPFAIL oracle cannot raise a false alarm (it demands exactly `IsSCCPartition`). -/
theorem sccCheck_complete (g : VGraph) (h : g.Closed) (cs : List (List Nat))
    (hp : IsSCCPartition g cs) : sccCheck g cs = true := Tarjan.sccCheck_complete g h cs hp

/-- Hence the oracle accepts the model's own answer on every closed digraph. -/
theorem sccCheck_accepts_model (g : VGraph) (h : g.Closed) :
    ∃ cs, components g = .ret cs ∧ sccCheck g cs = true := by
  obtain ⟨cs, hcs, hp⟩ := components_correct g h
  exact ⟨cs, hcs, Tarjan.sccCheck_complete g h cs hp⟩

/-! ## Non-vacuity -/

/-- The doc example of tarjan.rs: closed, three components, certificate checked by the kernel. -/
example : exampleGraph.Closed := by decide
example : components exampleGraph = .ret [[5,6],[2,3,7],[0,1,4]] := by decide
example : IsSCCPartition exampleGraph [[5,6],[2,3,7],[0,1,4]] := sccCheck_sound _ _ (by decide)

/-- A non-contiguous vertex set (ids 3, 7, 1000), a 2-cycle and an isolated vertex. -/
def sparseGraph : VGraph := ⟨[3,7,1000], fun u => if u = 3 then [1000] else if u = 1000 then [3] else []⟩
example : sparseGraph.Closed := by decide
example : components sparseGraph = .ret [[3,1000],[7]] := by decide
example : ∃ cs, components sparseGraph = .ret cs ∧ IsSCCPartition sparseGraph cs :=
  tarjan_scc sparseGraph (by decide)
example : componentsAt sparseGraph 2 = .ret [[3,1000],[7]] := by decide

/-- The precondition of `connect_fuel_adequate` is satisfiable (first top-level call), and the
fuel bound is tight there: 3 un-indexed vertices. -/
example : Pre sparseGraph [] 3 {} :=
  ⟨inv_init _, by decide, by simp [St.indexed], by intro z hz; simp at hz⟩
example : unindexed sparseGraph {} = 3 := by decide

end GraafVerif.C09
