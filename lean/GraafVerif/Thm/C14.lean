/-! Property theorems for C14 (statements + proofs by reference to `Proof/`). Not built yet. -/
