import GraafVerif.Proof.GenAL
import GraafVerif.Proof.GenMX
import GraafVerif.Proof.GenAM
import GraafVerif.Proof.GenEL
/-!
# C14 — deterministic generators produce exactly their defining arc sets at every order

Only statements and proofs by reference.  Models: `Model/Gen.lean` (every generator in every
representation as coded, tied to the code by the correspondence run); definitions of the arc
sets: `Spec/Gen.lean` (the property text); `Realises` / `FamilySpec`: `Spec/GenRealises.lean`.
-/
namespace GraafVerif.C14
open GraafVerif.Repr GraafVerif.Gen GraafVerif.GenSpec

/-- The generators of `AdjacencyList` when `available_parallelism()` returns `t`. -/
def alFamily (t : Nat) : Family AdjList :=
  { empty := AL.empty, complete := fun n => AL.complete n t, circuit := AL.circuit, cycle := AL.cycle,
    path := AL.path, star := AL.star, wheel := AL.wheel, biclique := AL.biclique,
    trivial := AL.trivial, claw := AL.claw, utility := AL.utility }
def amFamily : Family AdjMap :=
  { empty := AM.empty, complete := AM.complete, circuit := AM.circuit, cycle := AM.cycle,
    path := AM.path, star := AM.star, wheel := AM.wheel, biclique := AM.biclique,
    trivial := AM.trivial, claw := AM.claw, utility := AM.utility }
def mxFamily : Family AdjMatrix :=
  { empty := MX.empty, complete := MX.complete, circuit := MX.circuit, cycle := MX.cycle,
    path := MX.path, star := MX.star, wheel := MX.wheel, biclique := MX.biclique,
    trivial := MX.trivial, claw := MX.claw, utility := MX.utility }
def elFamily : Family EdgeList :=
  { empty := EL.empty, complete := EL.complete, circuit := EL.circuit, cycle := EL.cycle,
    path := EL.path, star := EL.star, wheel := EL.wheel, biclique := EL.biclique,
    trivial := EL.trivial, claw := EL.claw, utility := EL.utility }

/-- the matrix allocates `order²` bits: `order * order` must fit a `usize` -/
def mxFits (n : Nat) : Prop := n * n < 2 ^ 64

/-- **Full statement of C14.**  For every number of worker threads `t ≥ 1`: in each of the four
unweighted representations every generator realises its defining arc set at every admissible
parameter and panics at inadmissible ones; the weighted list (which implements `Empty` only)
likewise.  "All representations produce the same digraph" is `all_agree` below: two digraphs
realising the same `(n, P)` have the same order, vertex set and arc set. -/
def Statement : Prop :=
  (∀ t, 1 ≤ t → FamilySpec AL.Realises (fun _ => True) (alFamily t)) ∧
  FamilySpec AM.Realises (fun _ => True) amFamily ∧
  FamilySpec MX.Realises mxFits mxFamily ∧
  FamilySpec EL.Realises (fun _ => True) elFamily ∧
  ((∀ n, 1 ≤ n → ∃ d, WL.empty n = some d ∧ WL.Realises d n (EmptyDef n)) ∧ WL.empty 0 = none ∧
    ∃ d, WL.trivial = some d ∧ WL.Realises d 1 (EmptyDef 1))

/-- AdjacencyList, every generator, **for every thread count `t ≥ 1`** (P0). -/
theorem al_family_spec (t : Nat) (ht : 1 ≤ t) : FamilySpec AL.Realises (fun _ => True) (alFamily t) := by
  refine ⟨fun n hn _ => AL.empty_spec hn, fun n hn _ => AL.complete_spec hn ht,
    fun n hn _ => AL.circuit_spec hn, fun n hn _ => AL.cycle_spec hn, fun n hn _ => AL.path_spec hn,
    fun n hn _ => AL.star_spec hn, fun n hn _ => AL.wheel_spec hn,
    fun m n hm hn _ => AL.biclique_spec hm hn, AL.trivial_spec, AL.claw_spec, AL.utility_spec,
    rfl, by simp [alFamily, AL.complete], rfl, rfl, rfl, rfl, ?_, ?_⟩
  · intro n hn
    have h : ¬ n ≥ 4 := by omega
    simp [alFamily, AL.wheel, h]
  · intro m n h
    rcases h with h | h
    · subst h; simp [alFamily, AL.biclique]
    · subst h; by_cases hm : m = 0 <;> simp [alFamily, AL.biclique, hm]

/-- The threaded `AdjacencyList::complete` equals its single-threaded definition for every
thread count (**C17 piece**: `par t = seq`). -/
theorem al_complete_thread_independent (n t : Nat) (ht : 1 ≤ t) : AL.complete n t = AL.completeSeq n :=
  AL.complete_eq_seq n t ht

/-- AdjacencyMatrix, every generator (`empty` + `add_arc` loops), for every order whose square
fits a `usize` (P0). -/
theorem mx_family_spec : FamilySpec MX.Realises mxFits mxFamily := by
  refine ⟨fun n hn hf => MX.empty_realises hn hf, fun n hn hf => MX.complete_spec hn hf,
    fun n hn hf => MX.circuit_spec hn hf, fun n hn hf => MX.cycle_spec hn hf,
    fun n hn hf => MX.path_spec hn hf, fun n hn hf => MX.star_spec hn hf,
    fun n hn hf => MX.wheel_spec hn hf, fun m n hm hn hf => MX.biclique_spec hm hn hf,
    MX.trivial_realises (by intro u v h; exact h), MX.claw_spec, MX.utility_spec,
    by decide, by decide, by decide, by decide, by decide, by decide, ?_, ?_⟩
  · intro n hn
    have h : ¬ n ≥ 4 := by omega
    simp [mxFamily, MX.wheel, h]
  · intro m n h
    rcases h with h | h
    · subst h; simp [mxFamily, MX.biclique]
    · subst h; by_cases hm : m = 0 <;> simp [mxFamily, MX.biclique, hm]

/-- AdjacencyMap, every generator; the result has vertex set `0..n` (P1). -/
theorem am_family_spec : FamilySpec AM.Realises (fun _ => True) amFamily := by
  refine ⟨fun n hn _ => AM.empty_spec hn, fun n hn _ => AM.complete_spec hn,
    fun n hn _ => AM.circuit_spec hn, fun n hn _ => AM.cycle_spec hn, fun n hn _ => AM.path_spec hn,
    fun n hn _ => AM.star_spec hn, fun n hn _ => AM.wheel_spec hn,
    fun m n hm hn _ => AM.biclique_spec hm hn, AM.empty_spec (Nat.le_refl 1), AM.claw_spec, AM.utility_spec,
    by decide, by decide, by decide, by decide, by decide, by decide, ?_, ?_⟩
  · intro n hn
    have h : ¬ n ≥ 4 := by omega
    simp [amFamily, AM.wheel, h]
  · intro m n h
    rcases h with h | h
    · subst h; simp [amFamily, AM.biclique]
    · subst h; by_cases hm : m = 0 <;> simp [amFamily, AM.biclique, hm]

/-- EdgeList, every generator (P1). -/
theorem el_family_spec : FamilySpec EL.Realises (fun _ => True) elFamily := by
  refine ⟨fun n hn _ => EL.empty_spec hn, fun n hn _ => EL.complete_spec hn,
    fun n hn _ => EL.circuit_spec hn, fun n hn _ => EL.cycle_spec hn, fun n hn _ => EL.path_spec hn,
    fun n hn _ => EL.star_spec hn, fun n hn _ => EL.wheel_spec hn,
    fun m n hm hn _ => EL.biclique_spec hm hn, EL.empty_spec (Nat.le_refl 1), EL.claw_spec, EL.utility_spec,
    by decide, by decide, by decide, by decide, by decide, by decide, ?_, ?_⟩
  · intro n hn
    have h : ¬ n ≥ 4 := by omega
    simp [elFamily, EL.wheel, h]
  · intro m n h
    rcases h with h | h
    · subst h; simp [elFamily, EL.biclique]
    · subst h; by_cases hm : m = 0 <;> simp [elFamily, EL.biclique, hm]

/-- The weighted adjacency list implements `Empty` only. -/
theorem wl_empty_spec :
    (∀ n, 1 ≤ n → ∃ d, WL.empty n = some d ∧ WL.Realises d n (EmptyDef n)) ∧ WL.empty 0 = none ∧
    ∃ d, WL.trivial = some d ∧ WL.Realises d 1 (EmptyDef 1) :=
  ⟨fun n hn => WL.empty_spec hn, by decide, WL.empty_spec (Nat.le_refl 1)⟩

/-- **C14, full statement.** -/
theorem statement_holds : Statement :=
  ⟨al_family_spec, am_family_spec, mx_family_spec, el_family_spec, wl_empty_spec⟩

/-- "All representations produce the same digraph", as a corollary of the common definition:
whatever realises the same `(n, P)` — in whichever representations — has the same order, the
same vertex list and the same arcs. -/
theorem all_agree {n : Nat} {P : Nat → Nat → Prop} {d₁ : AdjList} {d₂ : AdjMap} {d₃ : AdjMatrix} {d₄ : EdgeList}
    (h₁ : AL.Realises d₁ n P) (h₂ : AM.Realises d₂ n P) (h₃ : MX.Realises d₃ n P) (h₄ : EL.Realises d₄ n P) :
    (d₁.order = n ∧ d₂.order = n ∧ d₃.order = n ∧ d₄.order = n) ∧
    (d₁.vertices = List.range n ∧ d₂.vertices = List.range n ∧ d₃.vertices = List.range n ∧
      d₄.vertices = List.range n) ∧
    ∀ u v, ((u, v) ∈ d₁.arcs ↔ P u v) ∧ ((u, v) ∈ d₂.arcs ↔ P u v) ∧ ((u, v) ∈ d₃.arcs ↔ P u v) ∧
      ((u, v) ∈ d₄.arcs ↔ P u v) :=
  ⟨⟨h₁.2.1, h₂.2.1, h₃.2.1, h₄.2.1⟩,
   ⟨by simp [AdjList.vertices, h₁.2.1], h₂.2.2.1, by simp [AdjMatrix.vertices, h₃.2.1],
    by simp [EdgeList.vertices, h₄.2.1]⟩,
   fun u v => ⟨h₁.2.2 u v, h₂.2.2.2 u v, h₃.2.2 u v, h₄.2.2 u v⟩⟩

/-- … instantiated: for every order and thread count the four `complete(n)` are the same digraph. -/
theorem complete_agree (n t : Nat) (hn : 1 ≤ n) (ht : 1 ≤ t) (hf : mxFits n) :
    ∃ d₁ d₂ d₃ d₄, AL.complete n t = some d₁ ∧ AM.complete n = some d₂ ∧ MX.complete n = some d₃ ∧
      EL.complete n = some d₄ ∧
      ∀ u v, ((u, v) ∈ d₁.arcs ↔ (u, v) ∈ d₂.arcs) ∧ ((u, v) ∈ d₂.arcs ↔ (u, v) ∈ d₃.arcs) ∧
        ((u, v) ∈ d₃.arcs ↔ (u, v) ∈ d₄.arcs) := by
  obtain ⟨d₁, e₁, r₁⟩ := AL.complete_spec hn ht
  obtain ⟨d₂, e₂, r₂⟩ := AM.complete_spec hn
  obtain ⟨d₃, e₃, r₃⟩ := MX.complete_spec hn hf
  obtain ⟨d₄, e₄, r₄⟩ := EL.complete_spec hn
  refine ⟨d₁, d₂, d₃, d₄, e₁, e₂, e₃, e₄, fun u v => ?_⟩
  have := (all_agree r₁ r₂ r₃ r₄).2.2 u v
  exact ⟨by rw [this.1, this.2.1], by rw [this.2.1, this.2.2.1], by rw [this.2.2.1, this.2.2.2]⟩

/-! ## Non-vacuity: concrete instances meet the hypotheses and show non-trivial digraphs -/

example : (AL.complete 5 3).map (·.arcs.length) = some 20 := by decide
example : AL.complete 7 3 = AL.complete 7 16 := by decide
example : (AL.wheel 5).map (·.arcs) =
    some [(0,1),(0,2),(0,3),(0,4),(1,0),(1,2),(1,4),(2,0),(2,1),(2,3),(3,0),(3,2),(3,4),(4,0),(4,1),(4,3)] := by decide
example : (MX.circuit 3).map (·.arcs) = some [(0,1),(1,2),(2,0)] := by decide
example : (AM.star 4).map (·.arcs) = some [(0,1),(0,2),(0,3),(1,0),(2,0),(3,0)] := by decide
example : (EL.cycle 2).map (·.arcs) = some [(0,1),(1,0)] := by decide
example : mxFits 200 := by unfold mxFits; decide
example : WheelDef 5 4 1 := by decide
example : BicliqueDef 2 3 4 1 := by decide

end GraafVerif.C14
