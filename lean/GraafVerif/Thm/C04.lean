/-! Property theorems for C04 (statements + proofs by reference to `Proof/`). Not built yet. -/
