import GraafVerif.Proof.BfsC04
import GraafVerif.Proof.BfsDesc
/-!
# C04 — Breadth-first search yields exactly the reachable vertices, nearest first

Only statements and proofs by reference.  `bfs`, `bfsDist`, `distances` are the models of
`Bfs`, `BfsDist` (collected) and `BfsDist::distances()` in `Model/Bfs.lean`; they are generic in
`Graph` (= `Order + OutNeighbors`) exactly as the Rust code is, so one theorem serves the five
representations (that each representation's `out_neighbors` is the out-neighbour list of the
abstract digraph is C02; the correspondence run exercises all of them).
Hypotheses = the property's quantifier: a well-formed digraph (arcs join vertices of `0..order`)
and distinct in-range sources.  `Res.ok` in a conclusion says the call does not panic.
-/
namespace GraafVerif.C04
open GraafVerif GraafVerif.Bfs

/-- The conclusions of C04 for one digraph and one source list.
`inf` is `usize::MAX`; `g.n ≤ inf` says the order fits a `usize`. -/
def Holds (g : Graph) (S : List Nat) : Prop :=
    -- Bfs: each reachable vertex exactly once, no other vertex, non-decreasing hop distance
    (∃ out, bfs g S = .ok out ∧ out.Nodup ∧ (∀ v, v ∈ out ↔ ReachFrom g S v) ∧
      out.Pairwise (fun u v => ∀ du dv, IsHopDist g S u du → IsHopDist g S v dv → du ≤ dv)) ∧
    -- BfsDist: the same vertices in the same order, each paired with its exact hop distance
    (∃ out, bfsDist g S = .ok out ∧ bfs g S = .ok (out.map (·.1)) ∧ ∀ p ∈ out, IsHopDist g S p.1 p.2) ∧
    -- distances(): the full hop-distance vector, usize::MAX exactly at the unreachable vertices
    (∀ inf, g.n ≤ inf → ∃ d, distances g S inf = .ok d ∧ d.length = g.n ∧
      (∀ v k, IsHopDist g S v k → d[v]? = some k) ∧
      (∀ v, v < g.n → (d[v]? = some inf ↔ ¬ ReachFrom g S v)))

/-- Full statement of C04: for every digraph and every list of distinct in-range sources. -/
def Statement : Prop :=
  ∀ (g : Graph) (S : List Nat), g.WF → (∀ s ∈ S, s < g.n) → S.Nodup → Holds g S

/-- `Bfs`: every reachable vertex exactly once, nothing else, nearest first. -/
theorem bfs_correct (g : Graph) (hg : g.WF) (S : List Nat) (hS : ∀ s ∈ S, s < g.n) (hnd : S.Nodup) :
    ∃ out, bfs g S = .ok out ∧ BfsSpec g S out :=
  bfs_spec g hg S hS hnd

/-- `BfsDist`: additionally every item carries the exact hop distance (and levels are sorted,
vertices and levels are `< order`). -/
theorem bfsDist_correct (g : Graph) (hg : g.WF) (S : List Nat) (hS : ∀ s ∈ S, s < g.n) (hnd : S.Nodup) :
    ∃ out, bfsDist g S = .ok out ∧ DistSpec g S out :=
  bfsDist_spec g hg S hS hnd

/-- `Bfs` is the vertex projection of `BfsDist` — for every input, panics included. -/
theorem bfs_eq_map_fst (g : Graph) (S : List Nat) : bfs g S = (bfsDist g S).map (List.map (·.1)) :=
  Bfs.bfs_eq_map_fst g S

/-- `BfsDist::distances()`. -/
theorem distances_correct (g : Graph) (hg : g.WF) (S : List Nat) (hS : ∀ s ∈ S, s < g.n) (hnd : S.Nodup)
    (inf : Nat) (hinf : g.n ≤ inf) :
    ∃ d, distances g S inf = .ok d ∧ DistancesSpec g S inf d :=
  distances_spec g hg S hS hnd inf hinf

/-- Fuel adequacy: the `while` loop of the model terminates within `order + 1` steps; every larger
fuel gives the same item list (so the fuel in `Model/Bfs.lean` is not an assumption). -/
theorem bfsDist_fuel_adequate (g : Graph) (hg : g.WF) (S : List Nat) (hS : ∀ s ∈ S, s < g.n) (hnd : S.Nodup)
    (fuel : Nat) (hf : g.n < fuel) :
    ∃ st, new g labDist S = .ok st ∧ run g labDist fuel st = bfsDist g S :=
  bfsDist_fuel g hg S hS hnd fuel hf

/-- The full statement. -/
theorem c04 : Statement := by
  intro g S hg hS hnd
  obtain ⟨out, ho, hsp⟩ := bfsDist_spec g hg S hS hnd
  obtain ⟨outb, hob, hb⟩ := bfs_spec g hg S hS hnd
  refine ⟨⟨outb, hob, hb.nodup, hb.mem_iff, hb.ordered⟩, ⟨out, ho, ?_, hsp.exact⟩, ?_⟩
  · rw [Bfs.bfs_eq_map_fst, ho]; rfl
  · intro inf hinf
    obtain ⟨d, hd, hds⟩ := distances_spec g hg S hS hnd inf hinf
    exact ⟨d, hd, hds.len, hds.dist, hds.inf_iff⟩

/-- The same for digraphs given the way the harness gives them to the real code: an order and
an arc list over `0..n`.  `Graph.ofRows (rowsOfArcs n arcs)` is the graph the driver runs the
model on (`GDesc.graph`); its arc relation is exactly the listed pairs. -/
theorem c04_arcs (n : Nat) (arcs : List (Nat × Nat)) (harcs : ∀ a ∈ arcs, a.1 < n ∧ a.2 < n)
    (S : List Nat) (hS : ∀ s ∈ S, s < n) (hnd : S.Nodup) :
    let g := Graph.ofRows (rowsOfArcs n arcs)
    g.n = n ∧ (∀ u v, g.A u v ↔ (u, v) ∈ arcs) ∧ Holds g S := by
  obtain ⟨h1, h2, h3⟩ := ofArcRows_spec n arcs harcs
  exact ⟨h1, h2, c04 _ S h3 (by rw [h1]; exact hS) hnd⟩

/-! ### Non-vacuity: the digraph of the `BfsDist` doc example with sources `[3, 7]` meets every
hypothesis, and the conclusions are about this concrete, non-trivial output. -/

theorem g0_wf : g0.WF := by
  intro u v h
  unfold g0 Graph.out at *
  simp only at h ⊢
  split at h <;> simp at h <;> omega

example : (∀ s ∈ [3, 7], s < g0.n) ∧ [3, 7].Nodup := by decide
example : bfs g0 [3, 7] = .ok [3, 7, 0, 6, 1, 5, 2, 4] := by decide
example : bfsDist g0 [3, 7] = .ok [(3,0),(7,0),(0,1),(6,1),(1,2),(5,2),(2,3),(4,3)] := by decide
example : distances g0 [1] 18446744073709551615
    = .ok [3, 0, 1, 2, 1, 2, 2, 3] := by decide
/-- an unreachable vertex keeps `usize::MAX` -/
example : distances g0 [6] 18446744073709551615
    = .ok [18446744073709551615, 18446744073709551615, 18446744073709551615, 18446744073709551615,
           18446744073709551615, 1, 0, 1] := by decide
example : ∃ out, bfsDist g0 [3, 7] = .ok out ∧ DistSpec g0 [3, 7] out :=
  bfsDist_correct g0 g0_wf [3, 7] (by decide) (by decide)

end GraafVerif.C04
