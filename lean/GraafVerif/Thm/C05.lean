import GraafVerif.Proof.BfsC05
import GraafVerif.Proof.BfsDesc
/-!
# C05 (BFS half) — predecessor trees and shortest paths from BFS are valid and optimal;
# every sequence returned by `BfsPred::cycles()` is an elementary cycle

Only statements and proofs by reference.  `bfsPred`, `predecessors`, `shortestPath`, `cycles`
(Model/Bfs.lean) model `BfsPred`'s iterator and its three methods; they call the C19 model
`PredTree.searchBy` / `search` exactly where the Rust code calls `search_by` / `search`.
Hypotheses = the property's quantifier: a well-formed digraph with at least one vertex
(`PredecessorTree::new` asserts `order > 0`; no representation can have order 0 through
`empty`), distinct in-range sources, any target predicate.  `Res.ok` = the call does not panic.
The `DijkstraPred` half of C05 is in `Thm/C05Dijkstra.lean`.
-/
namespace GraafVerif.C05
open GraafVerif GraafVerif.Bfs GraafVerif.PredTree

/-- The conclusions of the BFS half of C05 for one digraph and one source list
(`dist` = hop distance, `w = 1`). -/
def Holds (g : Graph) (S : List Nat) : Prop :=
    -- predecessors(): sources and unreachable vertices have no predecessor; every other reachable
    -- vertex v has a predecessor u with u -> v an arc and dist(u) + 1 = dist(v); following the
    -- predecessors from v reaches a source along a shortest path
    (∃ pred, predecessors g S = .ok pred ∧ pred.length = g.n ∧
      (∀ s ∈ S, pred[s]? = some none) ∧
      (∀ v, v < g.n → ¬ ReachFrom g S v → pred[v]? = some none) ∧
      (∀ v, ReachFrom g S v → v ∉ S →
        ∃ u d, pred[v]? = some (some u) ∧ g.A u v ∧ IsHopDist g S u d ∧ IsHopDist g S v (d + 1)) ∧
      (∀ v d, IsHopDist g S v d →
        ∃ cs, searchBy pred v (fun _ b => b.isNone) = .ret (some cs) ∧ cs.length = d + 1 ∧
          IsWalk g cs.reverse ∧ (∃ s ∈ S, cs.getLast? = some s) ∧ cs.head? = some v)) ∧
    -- shortest_path(is_target): None exactly when no reachable vertex satisfies the predicate;
    -- otherwise a walk from a source to a target whose length is the minimum over all targets
    (∀ isT : Nat → Bool, ∃ r, shortestPath g S isT = .ok r ∧
      (r = none ↔ ¬ ∃ v, ReachFrom g S v ∧ isT v = true) ∧
      (∀ p, r = some p → ∃ s t, p.head? = some s ∧ p.getLast? = some t ∧ s ∈ S ∧ isT t = true ∧
        IsWalk g p ∧ IsHopDist g S t (p.length - 1) ∧
        ∀ t' d', isT t' = true → IsHopDist g S t' d' → p.length - 1 ≤ d')) ∧
    -- cycles(): every returned sequence is an elementary cycle of the digraph
    (∃ cs, cycles g S = .ok cs ∧ ∀ c ∈ cs, IsElemCycle g c)

/-- Full statement of the BFS half of C05: for every digraph with at least one vertex and every
list of distinct in-range sources (the target predicate is quantified inside `Holds`). -/
def Statement : Prop :=
  ∀ (g : Graph) (S : List Nat), g.WF → 0 < g.n → (∀ s ∈ S, s < g.n) → S.Nodup → Holds g S

/-- `BfsPred::predecessors()` is a shortest-path tree. -/
theorem bfsPred_tree (g : Graph) (hg : g.WF) (hn : 0 < g.n) (S : List Nat) (hS : ∀ s ∈ S, s < g.n)
    (hnd : S.Nodup) : ∃ pred, predecessors g S = .ok pred ∧ PredSpec g S pred :=
  predecessors_spec g hg hn S hS hnd

/-- `BfsPred::shortest_path(is_target)`. -/
theorem bfs_shortest_path (g : Graph) (hg : g.WF) (hn : 0 < g.n) (S : List Nat) (hS : ∀ s ∈ S, s < g.n)
    (hnd : S.Nodup) (isT : Nat → Bool) : ∃ r, shortestPath g S isT = .ok r ∧ SPSpec g S isT r :=
  shortestPath_spec g hg hn S hS hnd isT

/-- `BfsPred::cycles()`: every returned list is an elementary cycle. -/
theorem bfs_cycles_elementary (g : Graph) (hg : g.WF) (hn : 0 < g.n) (S : List Nat) (hS : ∀ s ∈ S, s < g.n)
    (hnd : S.Nodup) : ∃ cs, cycles g S = .ok cs ∧ ∀ c ∈ cs, IsElemCycle g c :=
  cycles_spec g hg hn S hS hnd

/-- The `BfsPred` iterator visits the vertices of `BfsDist` in the same order: both are
projections of one run (for every input, panics included). -/
theorem bfsPred_vertices_eq (g : Graph) (S : List Nat) :
    (bfsPred g S).map (List.map (·.1)) = (bfsDist g S).map (List.map (·.1)) := by
  rw [bfsPred_eq_full, bfsDist_eq_full]
  cases iter g labFull S <;> simp [Res.map, Function.comp_def]

/-- Fuel adequacy for the `BfsPred` iterator (`labFull` is its level-carrying refinement). -/
theorem bfsPred_fuel_adequate (g : Graph) (hg : g.WF) (S : List Nat) (hS : ∀ s ∈ S, s < g.n) (hnd : S.Nodup)
    (fuel : Nat) (hf : g.n < fuel) :
    ∃ st, new g labFull S = .ok st ∧ run g labFull fuel st = iter g labFull S :=
  iter_fuel g hg labFull (·.1) isLevel_full S hS hnd fuel hf

/-- The full statement. -/
theorem c05_bfs : Statement := by
  intro g S hg hn hS hnd
  refine ⟨?_, ?_, cycles_spec g hg hn S hS hnd⟩
  · obtain ⟨pred, hp, h⟩ := predecessors_spec g hg hn S hS hnd
    exact ⟨pred, hp, h.len, h.src, h.unreach, h.tree, h.chain⟩
  · intro isT
    obtain ⟨r, hr, h⟩ := shortestPath_spec g hg hn S hS hnd isT
    exact ⟨r, hr, h.none_iff, h.path⟩

/-- The same for digraphs given the way the harness gives them to the real code: an order and
an arc list over `0..n` (`Graph.ofRows (rowsOfArcs n arcs)` = the driver's `GDesc.graph`). -/
theorem c05_bfs_arcs (n : Nat) (hn : 0 < n) (arcs : List (Nat × Nat)) (harcs : ∀ a ∈ arcs, a.1 < n ∧ a.2 < n)
    (S : List Nat) (hS : ∀ s ∈ S, s < n) (hnd : S.Nodup) :
    let g := Graph.ofRows (rowsOfArcs n arcs)
    g.n = n ∧ (∀ u v, g.A u v ↔ (u, v) ∈ arcs) ∧ Holds g S := by
  obtain ⟨h1, h2, h3⟩ := ofArcRows_spec n arcs harcs
  exact ⟨h1, h2, c05_bfs _ S h3 (by rw [h1]; exact hn) (by rw [h1]; exact hS) hnd⟩

/-! ### Non-vacuity: the doc digraph `g0` (`Model/Bfs.lean`) with sources `[3, 7]` meets the
hypotheses; the outputs below are non-trivial (a tree of depth 3, a path of 3 arcs, cycles). -/

theorem g0_wf : g0.WF := by
  intro u v h
  unfold g0 Graph.out at *
  simp only at h ⊢
  split at h <;> simp at h <;> omega

example : 0 < g0.n ∧ (∀ s ∈ [3, 7], s < g0.n) ∧ [3, 7].Nodup := by decide
example : predecessors g0 [3, 7] = .ok [some 3, some 0, some 1, none, some 1, some 6, some 7, none] := by
  decide
example : shortestPath g0 [3, 7] (fun v => v == 2) = .ok (some [3, 0, 1, 2]) := by decide
example : shortestPath g0 [3, 7] (fun v => v == 4 || v == 5) = .ok (some [7, 6, 5]) := by decide
example : shortestPath g0 [4] (fun v => v == 2) = .ok none := by decide
example : cycles g0 [0] = .ok [[0, 1, 2, 3], [6, 7]] := by decide
example : ∃ cs, cycles g0 [0] = .ok cs ∧ ∀ c ∈ cs, IsElemCycle g0 c :=
  bfs_cycles_elementary g0 g0_wf (by decide) [0] (by decide) (by decide)

end GraafVerif.C05
