/-! Property theorems for C05 (statements + proofs by reference to `Proof/`). Not built yet. -/
