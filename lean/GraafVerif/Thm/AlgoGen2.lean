import GraafVerif.Proof.AlgoGen2Tarjan
import GraafVerif.Proof.AlgoGen2Johnson
import GraafVerif.Thm.C09
import GraafVerif.Proof.Tarjan
import GraafVerif.Thm.C10
import GraafVerif.Proof.AlgoGen2ConvIter
import GraafVerif.Thm.C16
/-!
# AlgoGen2 — `tarjan.rs`, `johnson_75.rs` and the `From` conversions regenerated from the source

Second file of the translator tie (`docs/AlgoGen.md`, "Set 2").  `Model/AlgoGen2.lean` is GENERATED
by `tools/translate_algo.py --set 2`; for every generated definition `X.f` there is a theorem
`GraafVerif.AlgoGenThm.X.f_eq` (in `Proof/AlgoGen2*.lean`) that states it equal to the hand-written
model function of C09 / C10 / C16.  This file: the property statements transported onto the
whole-call programs built from generated definitions only, and non-vacuity examples.
-/
namespace GraafVerif.AlgoGenThm
open GraafVerif GraafVerif.AlgoGen

/-! ## Tarjan (C09) -/

/-- `Tarjan::new(&g).components()` built from generated definitions only. -/
def genTarjan (g : AlgoGen.VGraph) (fuel : Nat) : Res (List (List Nat)) :=
  AlgoGen.Tarjan.new >>= fun s => Except.map Prod.fst (AlgoGen.Tarjan.componentsCall g fuel s)

theorem unindexed_le (g : AlgoGen.VGraph) (s : GraafVerif.Tarjan.St) : GraafVerif.Tarjan.unindexed g s ≤ g.verts.length := by
  unfold GraafVerif.Tarjan.unindexed
  exact List.length_filter_le _ _

/-- For every closed digraph and every fuel ≥ the number of vertices the generated program is the
hand-written `Tarjan.components`. -/
theorem genTarjan_eq (g : AlgoGen.VGraph) (h : g.Closed) (fuel : Nat) (hf : g.verts.length ≤ fuel) :
    genTarjan g fuel = Tarjan.liftT (fun st => st.comps) (GraafVerif.Tarjan.run g) := by
  unfold genTarjan
  rw [Tarjan.new_componentsCall_eq,
    C09.tarjan_fuel_adequate g h (fun _ => fuel) (fun s => Nat.le_trans (unindexed_le g s) hf)]

/-- **C09 on the regenerated definitions**: for every closed digraph (vertex ids arbitrary) and
every fuel ≥ the number of vertices, `Tarjan::new(&g).components()` as generated from the source
returns — no panic, no fuel exhaustion — the partition into strongly connected components. -/
theorem c09_generated (g : AlgoGen.VGraph) (h : g.Closed) (fuel : Nat) (hf : g.verts.length ≤ fuel) :
    ∃ cs, genTarjan g fuel = .ok cs ∧ GraafVerif.Tarjan.IsSCCPartition g cs := by
  obtain ⟨cs, hcs, hp⟩ := C09.tarjan_scc g h
  refine ⟨cs, ?_, hp⟩
  rw [genTarjan_eq g h fuel hf]
  unfold GraafVerif.Tarjan.components at hcs
  unfold Tarjan.liftT
  cases hfault : (GraafVerif.Tarjan.run g).fault with
  | none => rw [hfault] at hcs; cases hcs; rfl
  | some f => rw [hfault] at hcs; cases f <;> cases hcs

theorem foldl_topWith_idle (g : AlgoGen.VGraph) (fuelOf : GraafVerif.Tarjan.St → Nat) : ∀ (l : List Nat) (s : GraafVerif.Tarjan.St),
    (∀ v ∈ l, s.indexed v) → l.foldl (GraafVerif.Tarjan.topWith g fuelOf) s = s := by
  intro l
  induction l with
  | nil => intro s _; rfl
  | cons u l ih =>
    intro s h
    have hu : (GraafVerif.Tarjan.mget s.index u).isSome = true := by
      have := h u List.mem_cons_self
      unfold GraafVerif.Tarjan.St.indexed at this
      cases hm : GraafVerif.Tarjan.mget s.index u with
      | none => exact absurd hm this
      | some x => rfl
    have : GraafVerif.Tarjan.topWith g fuelOf s u = s := by
      unfold GraafVerif.Tarjan.topWith
      split
      · rfl
      · simp [hu]
    rw [List.foldl_cons, this]
    exact ih s (fun v hv => h v (List.mem_cons_of_mem _ hv))

/-- **C09 for EVERY call on the same `Tarjan` value**: a further `components()` call (any fuel, also 0)
on the value the first call left behind returns the same partition and leaves the value unchanged
(`C09.tarjan_every_call` on the regenerated definitions). -/
theorem c09_generated_every_call (g : AlgoGen.VGraph) (h : g.Closed) (fuel : Nat) :
    ∃ cs, AlgoGen.Tarjan.componentsCall g fuel (Tarjan.ofH (GraafVerif.Tarjan.run g)) =
        .ok (cs, Tarjan.ofH (GraafVerif.Tarjan.run g)) ∧
      GraafVerif.Tarjan.components g = .ret cs ∧ GraafVerif.Tarjan.IsSCCPartition g cs := by
  obtain ⟨cs, hcs, hp⟩ := C09.tarjan_scc g h
  obtain ⟨_, hall⟩ := GraafVerif.Tarjan.run_inv h
  have hf : (GraafVerif.Tarjan.run g).fault = none := by
    unfold GraafVerif.Tarjan.components at hcs
    cases hfault : (GraafVerif.Tarjan.run g).fault with
    | none => rfl
    | some f => rw [hfault] at hcs; cases f <;> cases hcs
  have hcomps : (GraafVerif.Tarjan.run g).comps = cs := by
    unfold GraafVerif.Tarjan.components at hcs
    rw [hf] at hcs; cases hcs; rfl
  refine ⟨cs, ?_, hcs, hp⟩
  rw [Tarjan.componentsCall_eq g fuel _ hf, foldl_topWith_idle g _ g.verts _ hall]
  unfold Tarjan.liftT
  simp only [hf, hcomps]

/-! ## Johnson75 (C10) -/

/-- `Johnson75::new(&g).circuits()` built from generated definitions only (`g` with vertex set `0..n`). -/
def genJohnson (g : Graph) (fuel : Nat) : Res (List (List Nat)) :=
  AlgoGen.Johnson75.new (GraafVerif.Johnson.AM.ofGraph g) >>= fun s =>
    Except.map Prod.fst (AlgoGen.Johnson75.circuits (GraafVerif.Johnson.AM.ofGraph g) fuel s)

theorem aok_ofGraph (g : Graph) (hwf : g.WF) : Johnson75.AOk (GraafVerif.Johnson.AM.ofGraph g) := by
  refine ⟨?_, ?_⟩
  · intro u hu
    simp only [GraafVerif.Johnson.AM.ofGraph, GraafVerif.Johnson.AM.order, List.mem_range, List.length_range] at hu ⊢
    exact hu
  · intro u _ v hv
    simp only [GraafVerif.Johnson.AM.ofGraph, List.mem_range] at hv ⊢
    exact (hwf u v hv).2

/-- For a well-formed digraph and every fuel `≤ order + 1` the generated program either runs out of
fuel or returns exactly the hand-written `Johnson.circuits g`. -/
theorem genJohnson_agree (g : Graph) (hwf : g.WF) (fuel : Nat) (hf : fuel ≤ g.n + 1) :
    genJohnson g fuel = .error .div ∨ genJohnson g fuel = .ok (GraafVerif.Johnson.circuits g) := by
  unfold genJohnson
  rw [Johnson75.new_eq]
  have ho : (GraafVerif.Johnson.AM.ofGraph g).order = g.n := by
    simp [GraafVerif.Johnson.AM.ofGraph, GraafVerif.Johnson.AM.order]
  rcases Johnson75.circuits_eq _ (aok_ofGraph g hwf) fuel (by rw [ho]; exact hf) _ (Johnson75.new_inv _) with hd | hok
  · left
    show Except.map Prod.fst (AlgoGen.Johnson75.circuits _ fuel (Johnson75.ofH _)) = _
    rw [hd]; rfl
  · right
    show Except.map Prod.fst (AlgoGen.Johnson75.circuits _ fuel (Johnson75.ofH _)) = _
    rw [hok]; rfl

/-- **C10 on the regenerated definitions** (partial correctness): for a digraph satisfying the
hypotheses of C10 and every fuel `≤ order + 1`, whenever `Johnson75::new(&g).circuits()` as
generated from the source returns a vector, it lists every elementary circuit exactly once, each
written from its smallest vertex, and nothing else.  (That the recursion stays within the fuel
`order + 1` is proved for the hand-written model only — `C10.circuit_fuel_adequate` — where
running out of fuel is not a distinct outcome; see `docs/AlgoGen.md`.) -/
theorem c10_generated (g : Graph) (hwf : g.WF) (hloops : GraafVerif.Johnson.NoLoops g) (hrows : GraafVerif.Johnson.RowsNodup g)
    (fuel : Nat) (hf : fuel ≤ g.n + 1) (r : List (List Nat)) (hr : genJohnson g fuel = .ok r) :
    r.Nodup ∧ ∀ c, c ∈ r ↔ GraafVerif.Johnson.IsCanonicalElemCircuit g c := by
  rcases genJohnson_agree g hwf fuel hf with hd | hok
  · rw [hd] at hr; cases hr
  · rw [hok] at hr
    cases hr
    exact C10.statement g hwf hloops hrows

/-! ## Conversions (C16) -/

open GraafVerif.Repr GraafVerif.C16 in
/-- a generated conversion returns a valid value with the order `o` and the arc set `a` of the source -/
def GoodG {T : Type} (ok : T → Prop) (order : T → Nat) (arcs : T → List (Nat × Nat)) (o : Nat) (a : List (Nat × Nat))
    (r : Res T) : Prop := ∃ t, r = .ok t ∧ ok t ∧ C16.Same o a (order t) (arcs t)

theorem optR_some {α : Type} {o : Option α} {t : α} (h : o = some t) : optR o = .ok t := by rw [h]; rfl

open GraafVerif.Repr GraafVerif.C16 in
/-- **C16 (a) on the regenerated definitions**: each of the sixteen macro-generated `From` impls, as
generated from the source, returns (no panic) a valid digraph with the order and the arc set of
its valid source. -/
theorem c16_generated :
    (∀ d : AdjList, OkAL d →
      GoodG OkAM AdjMap.order AdjMap.arcs d.order d.arcs (AlgoGen.AdjacencyMap.fromAdjacencyList d) ∧
      (Fits d.order → GoodG OkMX (·.order) AdjMatrix.arcs d.order d.arcs (AlgoGen.AdjacencyMatrix.fromAdjacencyList d)) ∧
      GoodG OkEL (·.order) (·.arcs) d.order d.arcs (AlgoGen.EdgeList.fromAdjacencyList d) ∧
      GoodG OkWL1 AdjListW.order AdjListW.arcs d.order d.arcs (AlgoGen.AdjacencyListWeighted.fromAdjacencyList d)) ∧
    (∀ d : AdjMap, OkAM d →
      GoodG OkAL AdjList.order AdjList.arcs d.order d.arcs (AlgoGen.AdjacencyList.fromAdjacencyMap d) ∧
      (Fits d.order → GoodG OkMX (·.order) AdjMatrix.arcs d.order d.arcs (AlgoGen.AdjacencyMatrix.fromAdjacencyMap d)) ∧
      GoodG OkEL (·.order) (·.arcs) d.order d.arcs (AlgoGen.EdgeList.fromAdjacencyMap d) ∧
      GoodG OkWL1 AdjListW.order AdjListW.arcs d.order d.arcs (AlgoGen.AdjacencyListWeighted.fromAdjacencyMap d)) ∧
    (∀ d : AdjMatrix, OkMX d →
      GoodG OkAL AdjList.order AdjList.arcs d.order d.arcs (AlgoGen.AdjacencyList.fromAdjacencyMatrix d) ∧
      GoodG OkAM AdjMap.order AdjMap.arcs d.order d.arcs (AlgoGen.AdjacencyMap.fromAdjacencyMatrix d) ∧
      GoodG OkEL (·.order) (·.arcs) d.order d.arcs (AlgoGen.EdgeList.fromAdjacencyMatrix d) ∧
      GoodG OkWL1 AdjListW.order AdjListW.arcs d.order d.arcs (AlgoGen.AdjacencyListWeighted.fromAdjacencyMatrix d)) ∧
    (∀ d : EdgeList, OkEL d →
      GoodG OkAL AdjList.order AdjList.arcs d.order d.arcs (AlgoGen.AdjacencyList.fromEdgeList d) ∧
      GoodG OkAM AdjMap.order AdjMap.arcs d.order d.arcs (AlgoGen.AdjacencyMap.fromEdgeList d) ∧
      (Fits d.order → GoodG OkMX (·.order) AdjMatrix.arcs d.order d.arcs (AlgoGen.AdjacencyMatrix.fromEdgeList d)) ∧
      GoodG OkWL1 AdjListW.order AdjListW.arcs d.order d.arcs (AlgoGen.AdjacencyListWeighted.fromEdgeList d)) := by
  have lift : ∀ {T : Type} (ok : T → Prop) (order : T → Nat) (arcs : T → List (Nat × Nat)) (o : Nat)
      (a : List (Nat × Nat)) (r : Option T) (g : Res T), g = optR r →
      (∃ t, r = some t ∧ ok t ∧ Same o a (order t) (arcs t)) → GoodG ok order arcs o a g := by
    intro T ok order arcs o a r g hg ⟨t, h1, h2, h3⟩
    exact ⟨t, by rw [hg]; exact optR_some h1, h2, h3⟩
  refine ⟨fun d h => ?_, fun d h => ?_, fun d h => ?_, fun d h => ?_⟩
  · obtain ⟨h1, h2, h3, h4⟩ := converts_from_al d h
    exact ⟨lift _ _ _ _ _ _ _ (AdjacencyMap.fromAdjacencyList_eq d) h1,
      fun hf => lift _ _ _ _ _ _ _ (AdjacencyMatrix.fromAdjacencyList_eq d) (h2 hf),
      lift _ _ _ _ _ _ _ (EdgeList.fromAdjacencyList_eq d) h3,
      lift _ _ _ _ _ _ _ (AdjacencyListWeighted.fromAdjacencyList_eq d) h4⟩
  · obtain ⟨h1, h2, h3, h4⟩ := converts_from_am d h
    exact ⟨lift _ _ _ _ _ _ _ (AdjacencyList.fromAdjacencyMap_eq d) h1,
      fun hf => lift _ _ _ _ _ _ _ (AdjacencyMatrix.fromAdjacencyMap_eq d) (h2 hf),
      lift _ _ _ _ _ _ _ (EdgeList.fromAdjacencyMap_eq d) h3,
      lift _ _ _ _ _ _ _ (AdjacencyListWeighted.fromAdjacencyMap_eq d) h4⟩
  · obtain ⟨h1, h2, h3, h4⟩ := converts_from_mx d h
    exact ⟨lift _ _ _ _ _ _ _ (AdjacencyList.fromAdjacencyMatrix_eq d) h1,
      lift _ _ _ _ _ _ _ (AdjacencyMap.fromAdjacencyMatrix_eq d) h2,
      lift _ _ _ _ _ _ _ (EdgeList.fromAdjacencyMatrix_eq d) h3,
      lift _ _ _ _ _ _ _ (AdjacencyListWeighted.fromAdjacencyMatrix_eq d) h4⟩
  · obtain ⟨h1, h2, h3, h4⟩ := converts_from_el d h
    exact ⟨lift _ _ _ _ _ _ _ (AdjacencyList.fromEdgeList_eq d) h1,
      lift _ _ _ _ _ _ _ (AdjacencyMap.fromEdgeList_eq d) h2,
      fun hf => lift _ _ _ _ _ _ _ (AdjacencyMatrix.fromEdgeList_eq d) (h3 hf),
      lift _ _ _ _ _ _ _ (AdjacencyListWeighted.fromEdgeList_eq d) h4⟩

/-! ## Non-vacuity -/

example : genTarjan GraafVerif.Tarjan.exampleGraph 8 = .ok [[5, 6], [2, 3, 7], [0, 1, 4]] := by decide
/-- too little fuel for the recursion depth: the distinct `div` outcome -/
example : genTarjan GraafVerif.Tarjan.exampleGraph 2 = .error .div := by decide
/-- an out-neighbour that is not a vertex: `out_neighbors` panics -/
example : genTarjan ⟨[0], fun _ => [5]⟩ 3 = .error (.fault .panic) := by decide

/-- the doc example of johnson_75.rs / `C10.gEx`: the generated program returns within the fuel -/
example : genJohnson C10.gEx 4 = .ok [[0, 1], [0, 1, 2], [0, 2]] := by decide
example : genJohnson C10.gEx 1 = .error .div := by decide

example : AlgoGen.EdgeList.fromArcs [(0, 1), (2, 0), (0, 1)] = .ok ⟨[(0, 1), (2, 0)], 3⟩ := by decide
example : AlgoGen.AdjacencyList.fromRows [[1], [1]] = .error (.fault .panic) := by decide
example : AlgoGen.AdjacencyList.fromEdgeList ⟨[(0, 1), (1, 2)], 3⟩ = .ok ⟨[[1], [2], []]⟩ := by decide

end GraafVerif.AlgoGenThm
