/-! Property theorems for C12 (statements + proofs by reference to `Proof/`). Not built yet. -/
