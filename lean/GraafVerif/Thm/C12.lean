import GraafVerif.Proof.PredALSched
import GraafVerif.Proof.PredMXComplete
import GraafVerif.Proof.PredEL
import GraafVerif.Proof.QueryALSeq
import GraafVerif.Proof.PredFast
import GraafVerif.Proof.PredFamilies
/-!
# C12 — structural predicates decide exactly their mathematical definitions

Only statements and proofs by reference.  `Pred.Def.*` (`Spec/Pred.lean`) are the
definitions over the abstract digraph `(V, A)` of `Spec/Query.lean`; `Pred.X.*` /
`Pred.Blanket.*` (`Model/Pred.lean`) the models of the code; `X.abs r` the digraph a
representation denotes.  A `Bool` model function `p` "decides" a definition `D` when
`p = true ↔ D`; for the models that can panic (`Option Bool`) the theorem also says they do not.
-/
namespace GraafVerif.C12
open GraafVerif.Repr GraafVerif.Query GraafVerif.Pred

/-- The eight unary predicates of one representation value (query model `q`, abstract digraph
`G`, its own `is_complete / is_semicomplete / is_tournament / is_simple` models). -/
structure UnaryStatement (q : Core) (G : Digraph) (isComplete isSemicomplete isTournament isSimple : Option Bool) : Prop where
  complete : ∃ b, isComplete = some b ∧ (b = true ↔ Def.IsComplete G)
  semicomplete : ∃ b, isSemicomplete = some b ∧ (b = true ↔ Def.IsSemicomplete G)
  tournament : ∃ b, isTournament = some b ∧ (b = true ↔ Def.IsTournament G)
  regular : ∃ b, Blanket.isRegular q = some b ∧ (b = true ↔ Def.IsRegular G)
  balanced : ∃ b, Blanket.isBalanced q = some b ∧ (b = true ↔ Def.IsBalanced G)
  symmetric : Blanket.isSymmetric q = true ↔ Def.IsSymmetric G
  oriented : Blanket.isOriented q = true ↔ Def.IsOriented G
  simple : isSimple = some true ∧ Def.IsSimple G

/-- The three relational predicates for a pair of digraphs of one representation. -/
structure RelStatement (h d : Core) (H D : Digraph) : Prop where
  sub : Blanket.isSubdigraph h d = true ↔ Def.IsSubdigraph H D
  super : Blanket.isSuperdigraph h d = true ↔ Def.IsSuperdigraph H D
  spanning : Blanket.isSpanningSubdigraph h d = true ↔ Def.IsSpanningSubdigraph H D

/-- **Full statement of C12**: all digraphs / ordered pairs of digraphs of every
representation (any order, `AdjacencyMap` with arbitrary ids), every thread count `t ≥ 1` for the
threaded `AdjacencyList::is_semicomplete` — under EVERY schedule of its workers. -/
def Statement : Prop :=
  (∀ d : AdjList, d.WF → ∀ t, 0 < t →
    UnaryStatement (Query.AL.core d) (Query.AL.abs d) (some (Pred.AL.isComplete d)) (some (Pred.AL.isSemicomplete d t))
      (some (Pred.AL.isTournament d)) (some (Pred.AL.isSimple d))) ∧
  (∀ d : AdjList, d.WF → ∀ t, 0 < t → ∀ sched b, Pred.AL.isSemicompleteSched d t sched = some b →
    (b = true ↔ Def.IsSemicomplete (Query.AL.abs d))) ∧
  (∀ d : AdjMap, d.WF → 0 < d.order →
    UnaryStatement (Query.AM.core d) (Query.AM.abs d) (some (Pred.AM.isComplete d)) (some (Pred.AM.isSemicomplete d))
      (some (Pred.AM.isTournament d)) (some (Pred.AM.isSimple d))) ∧
  (∀ d : AdjMatrix, d.WF → d.order * d.order < 2 ^ 64 →
    UnaryStatement (Query.MX.core d) (Query.MX.abs d) (Pred.MX.isComplete d) (some (Pred.MX.isSemicomplete d))
      (some (Pred.MX.isTournament d)) (some (Pred.MX.isSimple d))) ∧
  (∀ d : EdgeList, d.WF →
    UnaryStatement (Query.EL.core d) (Query.EL.abs d) (Pred.EL.isComplete d) (some (Pred.EL.isSemicomplete d))
      (some (Pred.EL.isTournament d)) (some (Pred.EL.isSimple d))) ∧
  (∀ d : AdjListW, d.WF →
    UnaryStatement (Query.WL.core d) (Query.WL.abs d) (some (Pred.WL.isComplete d)) (some (Pred.WL.isSemicomplete d))
      (some (Pred.WL.isTournament d)) (some (Pred.WL.isSimple d))) ∧
  (∀ h d : AdjList, h.WF → d.WF → RelStatement (Query.AL.core h) (Query.AL.core d) (Query.AL.abs h) (Query.AL.abs d)) ∧
  (∀ h d : AdjMap, h.WF → d.WF → RelStatement (Query.AM.core h) (Query.AM.core d) (Query.AM.abs h) (Query.AM.abs d)) ∧
  (∀ h d : AdjMatrix, h.WF → d.WF → RelStatement (Query.MX.core h) (Query.MX.core d) (Query.MX.abs h) (Query.MX.abs d)) ∧
  (∀ h d : EdgeList, h.WF → d.WF → RelStatement (Query.EL.core h) (Query.EL.core d) (Query.EL.abs h) (Query.EL.abs d)) ∧
  (∀ h d : AdjListW, h.WF → d.WF → RelStatement (Query.WL.core h) (Query.WL.core d) (Query.WL.abs h) (Query.WL.abs d))

/-! ## The blanket impls, generically over any representation whose core queries are correct [P0] -/

theorem blanket_balanced {q : Core} {G : Digraph} (h : CoreCorrect q G) :
    ∃ b, Blanket.isBalanced q = some b ∧ (b = true ↔ Def.IsBalanced G) := isBalanced_correct h
theorem blanket_symmetric {q : Core} {G : Digraph} (h : CoreCorrect q G) :
    Blanket.isSymmetric q = true ↔ Def.IsSymmetric G := isSymmetric_correct h
theorem blanket_oriented {q : Core} {G : Digraph} (h : CoreCorrect q G) :
    Blanket.isOriented q = true ↔ Def.IsOriented G := isOriented_correct h
/-- `is_regular` (the same body in all five representations; a digraph has at least one vertex). -/
theorem blanket_regular {q : Core} {G : Digraph} (h : CoreCorrect q G) (hne : G.verts ≠ []) :
    ∃ b, Blanket.isRegular q = some b ∧ (b = true ↔ Def.IsRegular G) := isRegular_correct h hne
theorem blanket_rel {h d : Core} {H D : Digraph} (hh : CoreCorrect h H) (hd : CoreCorrect d D)
    (hH : H.Valid) (hD : D.Valid) : RelStatement h d H D :=
  ⟨isSubdigraph_correct hh hd hH, isSuperdigraph_correct hh hd hD, isSpanningSubdigraph_correct hh hd⟩
/-- `is_superdigraph` is the converse relation of `is_subdigraph`. -/
theorem isSuperdigraph_converse (h d : Core) : Blanket.isSuperdigraph h d = Blanket.isSubdigraph d h := rfl

/-- Counting facts behind the `size` shortcuts: a semicomplete digraph has at least `n(n-1)/2`
arcs, a tournament exactly that many. -/
theorem semicomplete_size {G : Digraph} (hG : G.Valid) (h : Def.IsSemicomplete G) :
    G.verts.length * (G.verts.length - 1) / 2 ≤ Spec.size G := size_ge_of_semicomplete hG h
theorem tournament_size {G : Digraph} (hG : G.Valid) (h : Def.IsTournament G) :
    Spec.size G = G.verts.length * (G.verts.length - 1) / 2 := size_eq_of_tournament hG h

/-! ## AdjacencyList [P0] — `is_semicomplete` for every thread count (functional worker model) -/
theorem al_unary (d : AdjList) (h : d.WF) (t : Nat) (ht : 0 < t) :
    UnaryStatement (Query.AL.core d) (Query.AL.abs d) (some (Pred.AL.isComplete d)) (some (Pred.AL.isSemicomplete d t))
      (some (Pred.AL.isTournament d)) (some (Pred.AL.isSimple d)) where
  complete := ⟨_, rfl, Pred.AL.isComplete_correct h⟩
  semicomplete := ⟨_, rfl, Pred.AL.isSemicomplete_correct h t ht⟩
  tournament := ⟨_, rfl, Pred.AL.isTournament_correct h⟩
  regular := isRegular_correct (Query.AL.core_correct h) (by
    have := h.1
    intro e
    have : (Query.AL.abs d).verts.length = d.order := by simp [Query.AL.abs, AdjList.vertices]
    rw [e] at this; simp at this; omega)
  balanced := isBalanced_correct (Query.AL.core_correct h)
  symmetric := isSymmetric_correct (Query.AL.core_correct h)
  oriented := isOriented_correct (Query.AL.core_correct h)
  simple := ⟨by rw [Pred.AL.isSimple_true h], (Query.AL.abs_valid h).irrefl⟩

/-- The sequential skeleton of the threaded scan. -/
theorem al_scanSeq (d : AdjList) : Pred.AL.scanSeq d = true ↔ Def.IsSemicomplete (Query.AL.abs d) :=
  Pred.AL.scanSeq_correct
/-- `∀ t ≥ 1`: the conjunction of the workers' verdicts is the sequential scan (`chunks_tile`). -/
theorem al_scanPar (d : AdjList) (t : Nat) (ht : 0 < t) (hn : 0 < d.order) :
    (Par.ranges d.order t).all (Pred.AL.scanChunk d) = Pred.AL.scanSeq d := Pred.AL.scanPar_eq_seq d t ht hn

theorem al_rel (h d : AdjList) (hh : h.WF) (hd : d.WF) :
    RelStatement (Query.AL.core h) (Query.AL.core d) (Query.AL.abs h) (Query.AL.abs d) :=
  blanket_rel (Query.AL.core_correct hh) (Query.AL.core_correct hd) (Query.AL.abs_valid hh) (Query.AL.abs_valid hd)

/-- Non-vacuity: the 3-cycle is a tournament, regular, oriented, not complete; 16 threads. -/
example : Pred.AL.isSemicomplete ⟨[[1], [2], [0]]⟩ 16 = true := by decide
example : Pred.AL.isTournament ⟨[[1], [2], [0]]⟩ = true := by decide
example : Pred.AL.isComplete ⟨[[1], [2], [0]]⟩ = false := by decide
example : Blanket.isRegular (Query.AL.core ⟨[[1], [2], [0]]⟩) = some true := by decide
/-- a size-shortcut defeater: 3 arcs on 3 vertices, one pair doubled, one pair missing -/
example : Pred.AL.isTournament ⟨[[1], [0, 2], []]⟩ = false := by decide
example : Pred.AL.isSemicomplete ⟨[[1], [0, 2], []]⟩ 2 = false := by decide

/-! ## AdjacencyMatrix [P0] -/
theorem mx_semicomplete (d : AdjMatrix) (h : d.WF) : Pred.MX.isSemicomplete d = true ↔ Def.IsSemicomplete (Query.MX.abs d) :=
  Pred.MX.isSemicomplete_correct h
theorem mx_tournament (d : AdjMatrix) (h : d.WF) : Pred.MX.isTournament d = true ↔ Def.IsTournament (Query.MX.abs d) :=
  Pred.MX.isTournament_correct h
theorem mx_simple (d : AdjMatrix) (h : d.WF) : Pred.MX.isSimple d = true ∧ Def.IsSimple (Query.MX.abs d) :=
  ⟨Pred.MX.isSimple_true h, (Query.MX.abs_valid h).irrefl⟩
/-- Canonical form: a well-formed matrix is determined by its order and arc relation. -/
theorem mx_canonical {d c : AdjMatrix} (hd : d.WF) (hc : c.WF) (ho : d.order = c.order)
    (ha : ∀ u v, d.hasArc u v = c.hasArc u v) : d = c := Pred.MX.canonical hd hc ho ha
/-- `is_complete` (`*self == Self::complete(order)`) decides completeness, GIVEN the specification
of the generator `complete` (C14: well formed, order `n`, arcs exactly `u ≠ v`).
(The hypotheses are discharged by `mx_complete_spec`; see `mx_complete`.) -/
theorem mx_complete_of_spec {d c : AdjMatrix} (h : d.WF)
    (hcmp : Pred.MX.complete d.order = some c) (hc : c.WF) (hco : c.order = d.order)
    (hca : ∀ u v, c.hasArc u v = (decide (u < d.order) && decide (v < d.order) && decide (u ≠ v))) :
    Pred.MX.isComplete d = some (d == c) ∧ ((d == c) = true ↔ Def.IsComplete (Query.MX.abs d)) :=
  Pred.MX.isComplete_of_complete_spec h hcmp hc hco hca
theorem mx_blanket (d : AdjMatrix) (h : d.WF) :
    (∃ b, Blanket.isRegular (Query.MX.core d) = some b ∧ (b = true ↔ Def.IsRegular (Query.MX.abs d))) ∧
    (∃ b, Blanket.isBalanced (Query.MX.core d) = some b ∧ (b = true ↔ Def.IsBalanced (Query.MX.abs d))) ∧
    (Blanket.isSymmetric (Query.MX.core d) = true ↔ Def.IsSymmetric (Query.MX.abs d)) ∧
    (Blanket.isOriented (Query.MX.core d) = true ↔ Def.IsOriented (Query.MX.abs d)) :=
  ⟨isRegular_correct (Query.MX.core_correct h) (by
      intro e
      have : (Query.MX.abs d).verts.length = d.order := by simp [Query.MX.abs, AdjMatrix.vertices]
      rw [e] at this; simp at this; have := h.1; omega),
   isBalanced_correct (Query.MX.core_correct h), isSymmetric_correct (Query.MX.core_correct h),
   isOriented_correct (Query.MX.core_correct h)⟩
theorem mx_rel (h d : AdjMatrix) (hh : h.WF) (hd : d.WF) :
    RelStatement (Query.MX.core h) (Query.MX.core d) (Query.MX.abs h) (Query.MX.abs d) :=
  blanket_rel (Query.MX.core_correct hh) (Query.MX.core_correct hd) (Query.MX.abs_valid hh) (Query.MX.abs_valid hd)

/-- Non-vacuity: `complete 3` as the model builds it, and the predicates on it. -/
example : Pred.MX.isComplete ⟨[0b011101110#64], 3⟩ = some true := by decide
example : Pred.MX.isTournament ⟨[0b001100010#64], 3⟩ = true := by decide
/-- size-shortcut defeater: `0→1, 1→0, 1→2` -/
example : Pred.MX.isTournament ⟨[0b000101010#64], 3⟩ = false := by decide

/-- `AdjacencyMatrix::complete(n)` (`empty` + `add_arc` of both arcs of every pair): well formed,
order `n`, arcs exactly the ordered pairs `u ≠ v` (`n * n` must fit, as `empty` checks). -/
theorem mx_complete_spec {n : Nat} (hn : 0 < n) (hov : n * n < 2 ^ 64) :
    ∃ c, Pred.MX.complete n = some c ∧ c.WF ∧ c.order = n ∧
      ∀ u v, c.hasArc u v = (decide (u < n) && decide (v < n) && decide (u ≠ v)) := Pred.MX.complete_spec hn hov
/-- `AdjacencyMatrix::is_complete` decides completeness (generator hypotheses discharged). -/
theorem mx_complete (d : AdjMatrix) (h : d.WF) (hov : d.order * d.order < 2 ^ 64) :
    ∃ b, Pred.MX.isComplete d = some b ∧ (b = true ↔ Def.IsComplete (Query.MX.abs d)) :=
  Pred.MX.isComplete_correct h hov

theorem mx_unary (d : AdjMatrix) (h : d.WF) (hov : d.order * d.order < 2 ^ 64) :
    UnaryStatement (Query.MX.core d) (Query.MX.abs d) (Pred.MX.isComplete d) (some (Pred.MX.isSemicomplete d))
      (some (Pred.MX.isTournament d)) (some (Pred.MX.isSimple d)) where
  complete := Pred.MX.isComplete_correct h hov
  semicomplete := ⟨_, rfl, Pred.MX.isSemicomplete_correct h⟩
  tournament := ⟨_, rfl, Pred.MX.isTournament_correct h⟩
  regular := (mx_blanket d h).1
  balanced := (mx_blanket d h).2.1
  symmetric := (mx_blanket d h).2.2.1
  oriented := (mx_blanket d h).2.2.2
  simple := ⟨by rw [Pred.MX.isSimple_true h], (Query.MX.abs_valid h).irrefl⟩

/-! ## `AdjacencyList::is_semicomplete` under EVERY schedule of its workers [P1] -/

/-- For every thread count and every interleaving of the workers' steps (labelled transition
system with the shared flag and both early-exit loads), once all workers are done the flag is
the definition. -/
theorem semicomplete_all_schedules (d : AdjList) (h : d.WF) (t : Nat) (ht : 0 < t) (sched : List Nat) (b : Bool)
    (hb : Pred.AL.isSemicompleteSched d t sched = some b) : b = true ↔ Def.IsSemicomplete (Query.AL.abs d) :=
  Pred.AL.semicomplete_all_schedules h t ht sched b hb
/-- … hence every schedule agrees with the functional worker model used by the driver. -/
theorem semicomplete_sched_eq_functional (d : AdjList) (h : d.WF) (t : Nat) (ht : 0 < t) (sched : List Nat) (b : Bool)
    (hb : Pred.AL.isSemicompleteSched d t sched = some b) : b = Pred.AL.isSemicomplete d t :=
  Pred.AL.semicomplete_sched_agrees_functional h t ht sched b hb
/-- Non-vacuity: two workers on the 3-cycle plus a missing pair, two different interleavings
reach a terminal state, with the same verdict. -/
example : Pred.AL.isSemicompleteSched ⟨[[1], [2], [], [0]]⟩ 2 [0, 1, 0, 1, 0, 1, 0, 1, 0, 1, 0, 1, 0, 1, 0, 1] = some false := by decide
example : Pred.AL.isSemicompleteSched ⟨[[1], [2], [], [0]]⟩ 2 [1, 1, 1, 1, 1, 1, 0, 0, 0, 0, 0, 0, 0, 0, 0, 0] = some false := by decide
example : Pred.AL.isSemicompleteSched ⟨[[1, 2], [2], [0]]⟩ 3 [2, 1, 0, 2, 1, 0, 0, 0, 1, 1, 2, 0, 0, 1] = some true := by decide

/-! ## AdjacencyMap — arbitrary vertex ids [P1] -/
theorem am_unary (d : AdjMap) (h : d.WF) (hn : 0 < d.order) :
    UnaryStatement (Query.AM.core d) (Query.AM.abs d) (some (Pred.AM.isComplete d)) (some (Pred.AM.isSemicomplete d))
      (some (Pred.AM.isTournament d)) (some (Pred.AM.isSimple d)) where
  complete := ⟨_, rfl, Pred.AM.isComplete_correct h⟩
  semicomplete := ⟨_, rfl, Pred.AM.isSemicomplete_correct h⟩
  tournament := ⟨_, rfl, Pred.AM.isTournament_correct h⟩
  regular := isRegular_correct (Query.AM.core_correct h) (by
    intro e
    have := Pred.AM.verts_length d
    rw [e] at this; simp at this; omega)
  balanced := isBalanced_correct (Query.AM.core_correct h)
  symmetric := isSymmetric_correct (Query.AM.core_correct h)
  oriented := isOriented_correct (Query.AM.core_correct h)
  simple := ⟨by rw [Pred.AM.isSimple_true h], (Query.AM.abs_valid h).irrefl⟩
theorem am_rel (h d : AdjMap) (hh : h.WF) (hd : d.WF) :
    RelStatement (Query.AM.core h) (Query.AM.core d) (Query.AM.abs h) (Query.AM.abs d) :=
  blanket_rel (Query.AM.core_correct hh) (Query.AM.core_correct hd) (Query.AM.abs_valid hh) (Query.AM.abs_valid hd)
/-- Non-vacuity: keys `{2, 7, 1000}`; a tournament on sparse ids; sub-digraph with a different key set. -/
example : Pred.AM.isTournament ⟨[(2, [7]), (7, [1000]), (1000, [2])]⟩ = true := by decide
example : Blanket.isSubdigraph (Query.AM.core ⟨[(2, [7]), (7, [])]⟩) (Query.AM.core ⟨[(2, [7]), (7, [1000]), (1000, [2])]⟩) = true := by decide
example : Blanket.isSpanningSubdigraph (Query.AM.core ⟨[(2, [7]), (7, [])]⟩) (Query.AM.core ⟨[(2, [7]), (7, [1000]), (1000, [2])]⟩) = false := by decide

/-! ## EdgeList [P1] — including `is_complete` (the generator `complete` is verified) -/
theorem el_unary (d : EdgeList) (h : d.WF) :
    UnaryStatement (Query.EL.core d) (Query.EL.abs d) (Pred.EL.isComplete d) (some (Pred.EL.isSemicomplete d))
      (some (Pred.EL.isTournament d)) (some (Pred.EL.isSimple d)) where
  complete := Pred.EL.isComplete_correct h
  semicomplete := ⟨_, rfl, Pred.EL.isSemicomplete_correct h⟩
  tournament := ⟨_, rfl, Pred.EL.isTournament_correct h⟩
  regular := isRegular_correct (Query.EL.core_correct h) (by
    intro e
    have : (Query.EL.abs d).verts.length = d.order := by simp [Query.EL.abs, EdgeList.vertices]
    rw [e] at this; simp at this; have := h.1; omega)
  balanced := isBalanced_correct (Query.EL.core_correct h)
  symmetric := isSymmetric_correct (Query.EL.core_correct h)
  oriented := isOriented_correct (Query.EL.core_correct h)
  simple := ⟨by rw [Pred.EL.isSimple_true h], (Query.EL.abs_valid h).irrefl⟩
/-- `EdgeList::complete(n)`: well formed, order `n`, arcs exactly the ordered pairs `u ≠ v`. -/
theorem el_complete_spec {n : Nat} (hn : 0 < n) :
    ∃ c, Pred.EL.complete n = some c ∧ c.WF ∧ c.order = n ∧
      ∀ u v, c.hasArc u v = (decide (u < n) && decide (v < n) && decide (u ≠ v)) := Pred.EL.complete_spec hn
theorem el_canonical {d c : EdgeList} (hd : d.WF) (hc : c.WF) (ho : d.order = c.order)
    (ha : ∀ u v, d.hasArc u v = c.hasArc u v) : d = c := Pred.EL.canonical hd hc ho ha
theorem el_rel (h d : EdgeList) (hh : h.WF) (hd : d.WF) :
    RelStatement (Query.EL.core h) (Query.EL.core d) (Query.EL.abs h) (Query.EL.abs d) :=
  blanket_rel (Query.EL.core_correct hh) (Query.EL.core_correct hd) (Query.EL.abs_valid hh) (Query.EL.abs_valid hd)
example : Pred.EL.isComplete ⟨[(0, 1), (0, 2), (1, 0), (1, 2), (2, 0), (2, 1)], 3⟩ = some true := by decide

/-! ## AdjacencyListWeighted [P1] -/
theorem wl_unary (d : AdjListW) (h : d.WF) :
    UnaryStatement (Query.WL.core d) (Query.WL.abs d) (some (Pred.WL.isComplete d)) (some (Pred.WL.isSemicomplete d))
      (some (Pred.WL.isTournament d)) (some (Pred.WL.isSimple d)) where
  complete := ⟨_, rfl, Pred.WL.isComplete_correct h⟩
  semicomplete := ⟨_, rfl, Pred.WL.isSemicomplete_correct h⟩
  tournament := ⟨_, rfl, Pred.WL.isTournament_correct h⟩
  regular := isRegular_correct (Query.WL.core_correct h) (by
    intro e
    have : (Query.WL.abs d).verts.length = d.order := by simp [Query.WL.abs, AdjListW.vertices]
    rw [e] at this; simp at this; have := h.1; omega)
  balanced := isBalanced_correct (Query.WL.core_correct h)
  symmetric := isSymmetric_correct (Query.WL.core_correct h)
  oriented := isOriented_correct (Query.WL.core_correct h)
  simple := ⟨by rw [Pred.WL.isSimple_true h], (Query.WL.abs_valid h).irrefl⟩
theorem wl_rel (h d : AdjListW) (hh : h.WF) (hd : d.WF) :
    RelStatement (Query.WL.core h) (Query.WL.core d) (Query.WL.abs h) (Query.WL.abs d) :=
  blanket_rel (Query.WL.core_correct hh) (Query.WL.core_correct hd) (Query.WL.abs_valid hh) (Query.WL.abs_valid hd)
example : Pred.WL.isComplete ⟨[[(1, 5)], [(0, -2)]]⟩ = true := by decide

/-! ## The driver's `Array` / bitset twins (orders > 128) are the proved list models — no hypotheses -/
theorem al_isSemicompleteFast_eq (d : AdjList) (t : Nat) : Pred.AL.isSemicompleteFast d t = Pred.AL.isSemicomplete d t :=
  Pred.AL.isSemicompleteFast_eq d t
theorem al_isTournamentFast_eq (d : AdjList) : Pred.AL.isTournamentFast d = Pred.AL.isTournament d :=
  Pred.AL.isTournamentFast_eq d
/-- the query record answered from the bitset / row array (all blanket predicates go through it) -/
theorem al_coreFast_eq (d : AdjList) : Pred.AL.coreFast d = Query.AL.core d := Pred.AL.coreFast_eq d
/-- `empty(n)` + `add_arc` over an `Array` of rows = the list model's build (body of `Driver.buildAL`) -/
theorem al_buildRowsFast_eq (n : Nat) (arcs : List (Nat × Nat)) :
    Pred.AL.buildRowsFast n arcs = (AdjList.empty n).bind (fun e => arcs.foldlM (fun g a => g.addArc a.1 a.2) e) :=
  Pred.AL.buildRowsFast_eq n arcs
example : Pred.AL.isSemicompleteFast ⟨[[1], [0, 2], []]⟩ 2 = false := by decide
example : Pred.AL.isTournamentFast ⟨[[1], [2], [0]]⟩ = true := by decide

/-! ## Described families (`pred_minus_pair`): the oracle's executable definitions are sound, and the
closed-form answers hold for EVERY order and EVERY position of the pair -/
theorem defB_isComplete_iff (G : Digraph) : DefB.isComplete G = true ↔ Def.IsComplete G := DefB.isComplete_iff G
theorem defB_isSemicomplete_iff (G : Digraph) : DefB.isSemicomplete G = true ↔ Def.IsSemicomplete G :=
  DefB.isSemicomplete_iff G
theorem defB_isTournament_iff (G : Digraph) : DefB.isTournament G = true ↔ Def.IsTournament G := DefB.isTournament_iff G
/-- one non-adjacent pair of distinct vertices refutes semicomplete, tournament and complete -/
theorem missing_pair_refutes {G : Digraph} {u v : Nat} (hu : u ∈ G.verts) (hv : v ∈ G.verts) (huv : u ≠ v)
    (h1 : G.adj u v = false) (h2 : G.adj v u = false) :
    ¬ Def.IsSemicomplete G ∧ ¬ Def.IsTournament G ∧ ¬ Def.IsComplete G := missing_pair hu hv huv h1 h2
/-- complete(n) minus one pair: `false, false, false` -/
theorem fam_completeMinusPair {n u v : Nat} (hu : u < n) (hv : v < n) (huv : u ≠ v) :
    DefB.isSemicomplete (Fam.completeMinusPair n u v) = false ∧ DefB.isTournament (Fam.completeMinusPair n u v) = false ∧
    DefB.isComplete (Fam.completeMinusPair n u v) = false := Fam.completeMinusPair_closed hu hv huv
/-- rule tournament with one pair missing (size still n(n-1)/2): `false, false, false` -/
theorem fam_tourMinusPair {n lo hi : Nat} (hlt : lo < hi) (hhi : hi < n) :
    DefB.isSemicomplete (Fam.tourMinusPair n lo hi) = false ∧ DefB.isTournament (Fam.tourMinusPair n lo hi) = false ∧
    DefB.isComplete (Fam.tourMinusPair n lo hi) = false := Fam.tourMinusPair_closed hlt hhi
/-- complete(n) minus one arc: semicomplete, not complete -/
theorem fam_completeMinusArc {n u v : Nat} (hu : u < n) (hv : v < n) (huv : u ≠ v) :
    DefB.isSemicomplete (Fam.completeMinusArc n u v) = true ∧ DefB.isComplete (Fam.completeMinusArc n u v) = false :=
  Fam.completeMinusArc_closed hu hv huv
example : DefB.isSemicomplete (Fam.completeMinusPair 6 2 3) = false := by decide
example : DefB.isSemicomplete (Fam.completeMinusArc 6 2 3) = true := by decide

/-- **C12, full statement.** -/
theorem statement : Statement :=
  ⟨al_unary, semicomplete_all_schedules, am_unary, mx_unary, el_unary, wl_unary, al_rel, am_rel, mx_rel, el_rel, wl_rel⟩

end GraafVerif.C12
