import GraafVerif.Proof.PredTree
/-!
# C19 — PredecessorTree search follows predecessor links exactly and always terminates

Only statements and their proofs-by-reference live here.  `searchBy` is the model of
`PredecessorTree::search_by` (Model/PredTree.lean), tied to the code by the correspondence run.
-/
namespace GraafVerif.C19
open GraafVerif.PredTree

/-- Full statement of C19 (for in-range entries and an in-range start). -/
def Statement : Prop :=
  ∀ (pred : Pred) (s : Nat) (isT : Nat → Option Nat → Bool),
    (∀ x ∈ pred, ∀ v, x = some v → v < pred.length) → s < pred.length →
    -- (a) Some exactly when a target lies on the predecessor chain …
    ((∃ p, searchBy pred s isT = .ret (some p)) ↔ ∃ k x, chain pred s k = some x ∧ target pred isT x = true) ∧
    -- (b) … and then the path is the chain up to the FIRST target.
    (∀ p, searchBy pred s isT = .ret (some p) →
      ∃ k, p = (List.range (k+1)).map (fun j => (chain pred s j).getD 0) ∧
        (∃ x, chain pred s k = some x ∧ target pred isT x = true) ∧
        ∀ j, j < k → ∀ y, chain pred s j = some y → target pred isT y = false) ∧
    -- (c) `search` is `search_by` with the equality predicate.
    (∀ t, search pred s t = searchBy pred s (fun v _ => v == t))

/-- Soundness half (b), for every fuel: whatever is returned is the chain up to the first target. -/
theorem searchBy_sound (pred : Pred) (s : Nat) (isT : Nat → Option Nat → Bool) (fuel : Nat) (p : List Nat)
    (h : searchByFuel pred s isT fuel = .ret (some p)) :
    ∃ k, p = (List.range (k+1)).map (fun j => (chain pred s j).getD 0) ∧
      (∃ x, chain pred s k = some x ∧ target pred isT x = true) ∧
      ∀ j, j < k → ∀ y, chain pred s j = some y → target pred isT y = false := by
  unfold searchByFuel at h
  split at h
  · simp at h
  · rename_i ps hps
    have hgetD : (pred[s]?).getD none = ps := by simp [hps]
    by_cases ht : isT s ps = true
    · simp [ht] at h
      refine ⟨0, by simp [← h, chain], ⟨s, rfl, by rw [target, hgetD]; exact ht⟩, by intro j hj; omega⟩
    · simp [ht] at h
      obtain ⟨k, hp, hx, hmin⟩ := loop_sound pred isT fuel s _ [s] p (by simp) h
      refine ⟨k, ?_, hx, hmin⟩
      rw [hp, List.range_succ_eq_map]
      simp [chain, Function.comp_def]

theorem search_eq (pred : Pred) (s t : Nat) : search pred s t = searchBy pred s (fun v _ => v == t) := rfl

/-- Non-vacuity: a cyclic predecessor vector with a target on the cycle. -/
example : searchBy [some 1, some 2, some 0, none] 0 (fun v _ => v == 2) = .ret (some [0, 1, 2]) := by decide
example : (∀ x ∈ ([some 1, some 2, some 0, none] : Pred), ∀ v, x = some v → v < 4) := by decide

end GraafVerif.C19
