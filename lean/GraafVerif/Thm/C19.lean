import GraafVerif.Proof.PredTreeFull
/-!
# C19 — PredecessorTree search follows predecessor links exactly and always terminates

Only statements and their proofs-by-reference live here.  `searchBy` is the model of
`PredecessorTree::search_by` (Model/PredTree.lean), tied to the code by the correspondence run.
-/
namespace GraafVerif.C19
open GraafVerif.PredTree

/-- Full statement of C19 (for in-range entries and an in-range start).

Reading of the property text:
* "terminates"                       → (t1) no panic, (t2) the loop never needs more than `len + 2`
                                        iterations: the result is the same for every larger fuel;
* "returns Some(path) exactly when following predecessor links from s reaches a vertex satisfying
  the predicate before the chain ends or revisits a vertex"
                                      → (a') with "no revisit up to the target" spelled out, and (a)
                                        the equivalent plain form (a target anywhere on the chain);
* "the path then starts at s, ends at the first such vertex, and each element is the predecessor
  of the one before it"               → (b): the path IS the chain prefix up to the first target,
                                        plus the consequences spelled out on the list itself
                                        (head, last, links, no target before the last, no repeats);
* "search(s, t) is search_by with 'vertex equals t'" → (c). -/
def Statement : Prop :=
  ∀ (pred : Pred) (s : Nat) (isT : Nat → Option Nat → Bool),
    (∀ x ∈ pred, ∀ v, x = some v → v < pred.length) → s < pred.length →
    -- (t1) the call returns (it panics only for an out-of-range start) …
    (∃ r, searchBy pred s isT = .ret r) ∧
    -- (t2) … and terminates: `len + 2` loop iterations always suffice.
    (∀ fuel, pred.length + 2 ≤ fuel → searchByFuel pred s isT fuel = searchBy pred s isT) ∧
    -- (a) Some exactly when a target lies on the predecessor chain …
    ((∃ p, searchBy pred s isT = .ret (some p)) ↔ ∃ k x, chain pred s k = some x ∧ target pred isT x = true) ∧
    -- (a') … equivalently: when a target is reached before the chain ends or revisits a vertex.
    ((∃ p, searchBy pred s isT = .ret (some p)) ↔
      ∃ k x, chain pred s k = some x ∧ target pred isT x = true ∧
        ∀ i j, i < j → j ≤ k → chain pred s i ≠ chain pred s j) ∧
    -- (b) … and then the path is the chain up to the FIRST target.
    (∀ p, searchBy pred s isT = .ret (some p) →
      ∃ k, p = (List.range (k+1)).map (fun j => (chain pred s j).getD 0) ∧
        (∃ x, chain pred s k = some x ∧ target pred isT x = true) ∧
        (∀ j, j < k → ∀ y, chain pred s j = some y → target pred isT y = false) ∧
        -- spelled out on the list: starts at s, ends at a target, no earlier element is a target,
        p.head? = some s ∧
        (∃ x, p.getLast? = some x ∧ target pred isT x = true) ∧
        (∀ i y, i + 1 < p.length → p[i]? = some y → target pred isT y = false) ∧
        -- each element is the predecessor of the one before it, and no vertex repeats.
        (∀ i a b, p[i]? = some a → p[i+1]? = some b → pred[a]? = some (some b)) ∧
        p.Nodup) ∧
    -- (c) `search` is `search_by` with the equality predicate.
    (∀ t, search pred s t = searchBy pred s (fun v _ => v == t))

/-- Soundness half (b), for every fuel: whatever is returned is the chain up to the first target. -/
theorem searchBy_sound (pred : Pred) (s : Nat) (isT : Nat → Option Nat → Bool) (fuel : Nat) (p : List Nat)
    (h : searchByFuel pred s isT fuel = .ret (some p)) :
    ∃ k, p = (List.range (k+1)).map (fun j => (chain pred s j).getD 0) ∧
      (∃ x, chain pred s k = some x ∧ target pred isT x = true) ∧
      ∀ j, j < k → ∀ y, chain pred s j = some y → target pred isT y = false := by
  unfold searchByFuel at h
  split at h
  · simp at h
  · rename_i ps hps
    have hgetD : (pred[s]?).getD none = ps := by simp [hps]
    by_cases ht : isT s ps = true
    · simp [ht] at h
      refine ⟨0, by simp [← h, chain], ⟨s, rfl, by rw [target, hgetD]; exact ht⟩, by intro j hj; omega⟩
    · simp [ht] at h
      obtain ⟨k, hp, hx, hmin⟩ := loop_sound pred isT fuel s _ [s] p (by simp) h
      refine ⟨k, ?_, hx, hmin⟩
      rw [hp, List.range_succ_eq_map]
      simp [chain, Function.comp_def]

theorem search_eq (pred : Pred) (s t : Nat) : search pred s t = searchBy pred s (fun v _ => v == t) := rfl

/-- Termination: the loop needs at most `len + 2` iterations, for EVERY predecessor vector
(no in-range hypothesis) — the result is independent of the fuel above that bound. -/
theorem searchBy_fuel (pred : Pred) (s : Nat) (isT : Nat → Option Nat → Bool) (fuel : Nat)
    (hf : pred.length + 2 ≤ fuel) : searchByFuel pred s isT fuel = searchBy pred s isT :=
  searchByFuel_adequate pred s isT fuel hf

/-- Completeness: a target anywhere on the chain is found. -/
theorem searchBy_complete (pred : Pred) (s : Nat) (isT : Nat → Option Nat → Bool)
    (hr : ∀ x ∈ pred, ∀ v, x = some v → v < pred.length) (hs : s < pred.length)
    (k x : Nat) (hx : chain pred s k = some x) (ht : target pred isT x = true) :
    ∃ p, searchBy pred s isT = .ret (some p) :=
  PredTree.searchBy_complete pred s isT hr hs k x hx ht

/-- The full property. -/
theorem statement_holds : Statement := by
  intro pred s isT hr hs
  have hps : pred[s]? = some pred[s] := List.getElem?_eq_getElem hs
  -- what a returned path looks like
  have hshape : ∀ p, searchBy pred s isT = .ret (some p) →
      ∃ k, p = chainPath pred s k ∧
        (∃ x, chain pred s k = some x ∧ target pred isT x = true) ∧
        (∀ j, j < k → ∀ y, chain pred s j = some y → target pred isT y = false) := by
    intro p h
    exact searchBy_sound pred s isT _ p h
  refine ⟨?_, searchBy_fuel pred s isT, ⟨?_, ?_⟩, ⟨?_, ?_⟩, ?_, fun t => search_eq pred s t⟩
  · unfold searchBy searchByFuel
    simp only [hps]
    split <;> exact ⟨_, rfl⟩
  · rintro ⟨p, h⟩
    obtain ⟨k, _, ⟨x, hx, ht⟩, _⟩ := hshape p h
    exact ⟨k, x, hx, ht⟩
  · rintro ⟨k, x, hx, ht⟩
    exact searchBy_complete pred s isT hr hs k x hx ht
  · rintro ⟨p, h⟩
    obtain ⟨k, _, ⟨x, hx, ht⟩, hmin⟩ := hshape p h
    exact ⟨k, x, hx, ht, chain_distinct_before_first hx ht hmin⟩
  · rintro ⟨k, x, hx, ht, _⟩
    exact searchBy_complete pred s isT hr hs k x hx ht
  · intro p h
    obtain ⟨k, hp, ⟨x, hx, ht⟩, hmin⟩ := hshape p h
    refine ⟨k, hp, ⟨x, hx, ht⟩, hmin, ?_, ?_, ?_, ?_, ?_⟩
    · rw [hp]; exact chainPath_head hx
    · exact ⟨x, by rw [hp]; exact chainPath_last hx, ht⟩
    · intro i y hi hy
      rw [hp] at hi hy
      exact chainPath_before_last hx hmin i y hi hy
    · intro i a b ha hb
      rw [hp] at ha hb
      exact chainPath_links hx i a b ha hb
    · rw [hp]
      exact chainPath_nodup hx (chain_distinct_before_first hx ht hmin)

/-- Non-vacuity: a cyclic predecessor vector with a target on the cycle. -/
example : searchBy [some 1, some 2, some 0, none] 0 (fun v _ => v == 2) = .ret (some [0, 1, 2]) := by decide
example : (∀ x ∈ ([some 1, some 2, some 0, none] : Pred), ∀ v, x = some v → v < 4) := by decide
/-- Non-vacuity of the `none` side: a cycle without a target, and a self-reference. -/
example : searchBy [some 1, some 2, some 0, none] 0 (fun v _ => v == 3) = .ret none := by decide
example : searchBy [some 0] 0 (fun v _ => v == 1) = .ret none := by decide

end GraafVerif.C19
