import GraafVerif.Model.ReprGen
import GraafVerif.Proof.ReprMXIter
/-!
# The GENERATED per-representation definitions EQUAL the hand-written models (tag ReprGen)

`Model/ReprGen.lean` is regenerated from `/repo/src/repr/*/mod.rs` (and the two blanket impls
`src/op/degree.rs`, `src/op/semidegree_sequence.rs`, instantiated per representation) by
`tools/translate_repr.py` on every run of the C01 / C02 / C12 checks, and this file is
re-checked against it.  Every theorem says: the definition the translator produced from the
source text *is* (for all arguments) the hand-written model function that the C01 / C02 / C12
theorems speak about (`Model/Repr.lean`, `Model/Query.lean`, `Model/Pred.lean`).  These
equalities transport the proved specifications onto the generated code; a changed comparison, a
swapped argument, a dropped guard in the Rust source makes the corresponding equality false and
its PROOF fails.

Hypotheses.  All equalities are unconditional, except for `AdjacencyMatrix`: the code indexes
`self.blocks[i >> 6]` (a panic when out of range, `none` in the generated definition) where the
hand model reads `blocks[i / 64]?.getD 0`.  Both agree exactly when the block vector is long
enough for the order, `MX.Sized d` (a consequence of `AdjMatrix.WF`, `MX.sized_of_wf`); the
`AdjacencyMatrix` equalities that go through `has_arc` carry this hypothesis and state
`generated = some (hand model)`.  `MX.hasArc_cases` is the unconditional form.
-/
namespace GraafVerif.ReprGenThm
open GraafVerif GraafVerif.Repr

/-! ## The helper combinators the translator emits -/

theorem mapO_eq {α β : Type} (f : α → Option β) (l : List α) : ReprGen.mapO f l = Query.mapO f l := by
  induction l with
  | nil => rfl
  | cons a as ih =>
    simp only [ReprGen.mapO, Query.mapO, ih]
    cases f a with
    | none => rfl
    | some b => cases Query.mapO f as <;> rfl

theorem filterO_eq {α : Type} (f : α → Option Bool) (l : List α) : ReprGen.filterO f l = Query.filterO f l := by
  induction l with
  | nil => rfl
  | cons a as ih =>
    simp only [ReprGen.filterO, Query.filterO, ih]
    cases f a with
    | none => rfl
    | some b => cases Query.filterO f as <;> rfl

theorem allO_eq {α : Type} (f : α → Option Bool) (l : List α) : ReprGen.allO f l = Pred.allO f l := by
  induction l with
  | nil => rfl
  | cons a as ih =>
    simp only [ReprGen.allO, Pred.allO, ih]
    cases f a with
    | none => rfl
    | some b => cases b <;> rfl

theorem popcount_eq (x : BitVec 64) : ReprGen.popcount x = AdjMatrix.popcount x := rfl

/-- A closure that never panics: `mapO` is `map`. -/
theorem mapO_some {α β : Type} (f : α → β) (l : List α) : ReprGen.mapO (fun a => some (f a)) l = some (l.map f) := by
  induction l with
  | nil => rfl
  | cons a as ih => simp [ReprGen.mapO, ih]

theorem filterO_some {α : Type} (f : α → Bool) (l : List α) :
    ReprGen.filterO (fun a => some (f a)) l = some (l.filter f) := by
  induction l with
  | nil => rfl
  | cons a as ih => cases h : f a <;> simp [ReprGen.filterO, ih, h]

theorem allO_some {α : Type} (f : α → Bool) (l : List α) : ReprGen.allO (fun a => some (f a)) l = some (l.all f) := by
  induction l with
  | nil => rfl
  | cons a as ih => cases h : f a <;> simp [ReprGen.allO, ih, h]

/-- `enumerate` is `zipIdx` with the components swapped (Rust yields `(index, item)`). -/
theorem all_enumerate {α : Type} (l : List α) (p : Nat × α → Bool) :
    (ReprGen.enumerate l).all p = l.zipIdx.all (fun q => p (q.2, q.1)) := by
  simp [ReprGen.enumerate, List.all_map, Function.comp_def]

theorem filterMap_enumerate {α β : Type} (l : List α) (f : Nat × α → Option β) :
    (ReprGen.enumerate l).filterMap f = l.zipIdx.filterMap (fun q => f (q.2, q.1)) := by
  simp [ReprGen.enumerate, List.filterMap_map, Function.comp_def]

theorem flatMap_enumerate {α β : Type} (l : List α) (f : Nat × α → List β) :
    (ReprGen.enumerate l).flatMap f = l.zipIdx.flatMap (fun q => f (q.2, q.1)) := by
  simp [ReprGen.enumerate, List.flatMap_map]

/-- Writing through `get_mut` at a present key is `mupsert` with any default. -/
theorem mset_eq_mupsert {X : Type} (k : Nat) (dflt : X) (f : X → X) :
    ∀ (l : List (Nat × X)) (x : X), mget k l = some x → ReprGen.mset k (f x) l = mupsert k dflt f l := by
  intro l
  induction l with
  | nil => intro x h; simp [mget] at h
  | cons a as ih =>
    intro x h
    obtain ⟨k', y⟩ := a
    simp only [mget] at h
    by_cases h1 : k = k'
    · subst h1
      simp only [if_true] at h
      cases h
      simp [ReprGen.mset, mupsert]
    · simp only [h1, if_false] at h
      by_cases h2 : k < k'
      · simp [h2] at h
      · simp only [h2, if_false] at h
        simp [ReprGen.mset, mupsert, h1, h2, ih x h]

/-- `if c then true else false` (what `for … { return false } true` becomes) is `c`. -/
theorem ite_true_false (c : Bool) : (if c then true else false) = c := by cases c <;> rfl
theorem not_bne_nat (a b : Nat) : (!(a != b)) = (a == b) := by simp [bne]

/-- The body of `is_regular` (identical in the five impls) against `Pred.Blanket.isRegular`:
after rewriting the semidegree sequence, both sides are the same case analysis. -/
macro "is_regular_cases" : tactic =>
  `(tactic| (generalize Query.Core.semidegreeSequence _ = s
             cases s with
             | none => rfl
             | some l => cases l with
               | nil => rfl
               | cons a as => rfl))

/-- The instantiated blanket `degree` / `semidegree_sequence` closures against `Query.Core`. -/
theorem degree_body (i o : Option Nat) :
    (i.bind (fun r_1 => o.bind (fun r_2 => some (r_1 + r_2))))
      = (match i with | none => none | some a => match o with | none => none | some b => some (a + b)) := by
  cases i <;> cases o <;> rfl

theorem semidegree_body (i o : Option Nat) :
    (i.bind (fun r_1 => o.bind (fun r_2 => some (r_1, r_2))))
      = (match i with | none => none | some a => match o with | none => none | some b => some (a, b)) := by
  cases i <;> cases o <;> rfl

/-! ## AdjacencyList -/
namespace AL
open ReprGen

theorem order_eq (d : AdjList) : AL.order d = d.order := rfl
theorem contiguousOrder_eq (d : AdjList) : AL.contiguousOrder d = d.order := rfl
theorem vertices_eq (d : AdjList) : AL.vertices d = d.vertices := rfl
theorem hasArc_eq (d : AdjList) (u v : Nat) : AL.hasArc d u v = d.hasArc u v := rfl
theorem hasEdge_eq (d : AdjList) (u v : Nat) : AL.hasEdge d u v = Query.AL.hasEdge d u v := rfl
theorem size_eq (d : AdjList) : AL.size d = d.size := rfl
theorem indegree_eq (d : AdjList) (v : Nat) : AL.indegree d v = Query.AL.indegree d v := rfl
theorem isSource_eq (d : AdjList) (v : Nat) : AL.isSource d v = Query.AL.isSource d v := rfl
theorem outdegree_eq (d : AdjList) (u : Nat) : AL.outdegree d u = Query.AL.outdegree d u := by
  unfold AL.outdegree Query.AL.outdegree; cases d.rows[u]? <;> rfl
theorem isSink_eq (d : AdjList) (u : Nat) : AL.isSink d u = Query.AL.isSink d u := by
  unfold AL.isSink Query.AL.isSink; cases d.rows[u]? <;> rfl
theorem degree_eq (d : AdjList) (u : Nat) : AL.degree d u = (Query.AL.core d).degree u := by
  unfold AL.degree; rw [degree_body, indegree_eq, outdegree_eq]; rfl
theorem semidegreeSequence_eq (d : AdjList) : AL.semidegreeSequence d = (Query.AL.core d).semidegreeSequence := by
  unfold AL.semidegreeSequence Query.Core.semidegreeSequence
  rw [mapO_eq, vertices_eq]
  simp only [semidegree_body, indegree_eq, outdegree_eq]; rfl
theorem isComplete_eq (d : AdjList) : AL.isComplete d = Pred.AL.isComplete d := by
  simp only [AL.isComplete, Pred.AL.isComplete, AL.order, AdjList.order, ite_true_false, not_bne_nat]
theorem isRegular_eq (d : AdjList) : AL.isRegular d = Pred.Blanket.isRegular (Query.AL.core d) := by
  unfold AL.isRegular Pred.Blanket.isRegular; rw [semidegreeSequence_eq]
  is_regular_cases
theorem isSimple_eq (d : AdjList) : AL.isSimple d = Pred.AL.isSimple d := by
  unfold AL.isSimple Pred.AL.isSimple; rw [all_enumerate]
theorem removeArc_eq (d : AdjList) (u v : Nat) : AL.removeArc d u v = d.removeArc u v := by
  unfold AL.removeArc AdjList.removeArc; cases d.rows[u]? <;> rfl
example : AL.isRegular ⟨[[1], [2], [0]]⟩ = some true := by decide
example : AL.removeArc ⟨[[1, 2], []  , []]⟩ 0 2 = (⟨[[1], [], []]⟩, true) := by decide
end AL

/-! ## AdjacencyMap -/
namespace AM
open ReprGen

theorem order_eq (d : AdjMap) : AM.order d = d.order := rfl
theorem vertices_eq (d : AdjMap) : AM.vertices d = d.vertices := rfl
theorem hasArc_eq (d : AdjMap) (u v : Nat) : AM.hasArc d u v = d.hasArc u v := rfl
theorem hasEdge_eq (d : AdjMap) (u v : Nat) : AM.hasEdge d u v = Query.AM.hasEdge d u v := rfl
theorem size_eq (d : AdjMap) : AM.size d = d.size := by
  simp [AM.size, AdjMap.size, List.map_map, Function.comp_def]
theorem arcs_eq (d : AdjMap) : AM.arcs d = d.arcs := rfl
theorem indegree_eq (d : AdjMap) (v : Nat) : AM.indegree d v = Query.AM.indegree d v := by
  simp [AM.indegree, Query.AM.indegree, List.filter_map, Function.comp_def]
theorem isSource_eq (d : AdjMap) (v : Nat) : AM.isSource d v = Query.AM.isSource d v := by
  simp [AM.isSource, Query.AM.isSource, List.all_map, Function.comp_def]
theorem outdegree_eq (d : AdjMap) (u : Nat) : AM.outdegree d u = Query.AM.outdegree d u := by
  unfold AM.outdegree Query.AM.outdegree; cases mget u d.rows <;> rfl
theorem isSink_eq (d : AdjMap) (u : Nat) : AM.isSink d u = Query.AM.isSink d u := by
  unfold AM.isSink Query.AM.isSink; cases mget u d.rows <;> rfl
theorem inNeighbors_eq (d : AdjMap) (v : Nat) : AM.inNeighbors d v = Query.AM.inNeighbors d v := rfl
theorem degree_eq (d : AdjMap) (u : Nat) : AM.degree d u = (Query.AM.core d).degree u := by
  unfold AM.degree; rw [degree_body, indegree_eq, outdegree_eq]; rfl
theorem semidegreeSequence_eq (d : AdjMap) : AM.semidegreeSequence d = (Query.AM.core d).semidegreeSequence := by
  unfold AM.semidegreeSequence Query.Core.semidegreeSequence
  rw [mapO_eq, vertices_eq]
  simp only [semidegree_body, indegree_eq, outdegree_eq]; rfl
theorem degreeSequence_eq (d : AdjMap) (t : Nat) : AM.degreeSequence d = (Query.AM.core d).degreeSequence t := by
  unfold AM.degreeSequence
  rw [mapO_eq, vertices_eq]
  simp only [AM.degree, degree_body, indegree_eq, outdegree_eq]; rfl
theorem indegreeSequence_eq (d : AdjMap) : AM.indegreeSequence d = (Query.AM.core d).indegreeSequence := by
  unfold AM.indegreeSequence
  rw [mapO_eq, vertices_eq]
  simp only [indegree_eq]; rfl
theorem isComplete_eq (d : AdjMap) : AM.isComplete d = Pred.AM.isComplete d := by
  simp only [AM.isComplete, Pred.AM.isComplete, AM.order, AdjMap.order, ite_true_false, not_bne_nat, List.all_map,
    Function.comp_def]
theorem isRegular_eq (d : AdjMap) : AM.isRegular d = Pred.Blanket.isRegular (Query.AM.core d) := by
  unfold AM.isRegular Pred.Blanket.isRegular; rw [semidegreeSequence_eq]
  is_regular_cases
theorem isSimple_eq (d : AdjMap) : AM.isSimple d = Pred.AM.isSimple d := rfl
theorem isSemicomplete_eq (d : AdjMap) : AM.isSemicomplete d = Pred.AM.isSemicomplete d := by
  simp only [AM.isSemicomplete, Pred.AM.isSemicomplete, order_eq, size_eq, Bool.and_assoc]
  split <;> simp
theorem isTournament_eq (d : AdjMap) : AM.isTournament d = Pred.AM.isTournament d := by
  simp only [AM.isTournament, Pred.AM.isTournament, order_eq, size_eq]
  split <;> simp
theorem removeArc_eq (d : AdjMap) (u v : Nat) : AM.removeArc d u v = d.removeArc u v := by
  unfold AM.removeArc AdjMap.removeArc
  cases h : mget u d.rows with
  | none => rfl
  | some row =>
    simp only [setRemove]
    rw [mset_eq_mupsert u [] (serase v) d.rows row h]
example : AM.isTournament ⟨[(0, [1]), (1, [2]), (2, [0])]⟩ = true := by decide
example : AM.removeArc ⟨[(3, [7]), (7, [])]⟩ 3 7 = (⟨[(3, []), (7, [])]⟩, true) := by decide
example : AM.degreeSequence ⟨[(3, [7]), (7, [])]⟩ = some [1, 1] := by decide
end AM

/-! ## AdjacencyMatrix -/
namespace MX
open ReprGen

/-- The block vector has room for `order²` cells (second conjunct of `AdjMatrix.WF`, weakened). -/
def Sized (d : AdjMatrix) : Prop := d.order * d.order ≤ 64 * d.blocks.length

theorem sized_of_wf {d : AdjMatrix} (h : d.WF) : Sized d := by
  obtain ⟨_, hl, _⟩ := h
  unfold Sized; rw [hl]
  generalize d.order * d.order = n
  omega

theorem shift_eq (i : Nat) : i >>> 6 = i / 64 := by simp [Nat.shiftRight_eq_div_pow]
theorem and63_eq (i : Nat) : i &&& 63 = i % 64 := by simpa using Nat.and_two_pow_sub_one_eq_mod i 6

theorem mask_eq (i : Nat) : MX.mask i = AdjMatrix.mask i := by
  unfold MX.mask AdjMatrix.mask; rw [and63_eq]
theorem index_eq (d : AdjMatrix) (u v : Nat) : MX.index d u v = d.index u v := rfl
theorem order_eq (d : AdjMatrix) : MX.order d = d.order := rfl
theorem contiguousOrder_eq (d : AdjMatrix) : MX.contiguousOrder d = d.order := rfl
theorem vertices_eq (d : AdjMatrix) : MX.vertices d = d.vertices := rfl

theorem index_lt {d : AdjMatrix} (hs : Sized d) {u v : Nat} (hu : u < d.order) (hv : v < d.order) :
    d.index u v / 64 < d.blocks.length := by
  unfold Sized at hs; unfold AdjMatrix.index
  have h := Nat.mul_le_mul_right d.order (show u + 1 ≤ d.order from hu)
  rw [Nat.succ_mul] at h
  generalize d.order * d.order = n at *
  generalize u * d.order = m at *
  omega

theorem ite_some (c : Prop) [Decidable c] {α : Type} (a b : α) :
    (if c then some a else some b) = some (if c then a else b) := by split <;> rfl
theorem ite_some_or (a b : Bool) : (if a then some true else some b) = some (a || b) := by cases a <;> rfl
theorem ite_some_and (a b : Bool) : (if a then some b else some false) = some (a && b) := by cases a <;> rfl
theorem xor_eq_bne (a b : Bool) : (a ^^ b) = (a != b) := by cases a <;> cases b <;> rfl

/-- Unconditionally: `has_arc` either panics (block index out of range) or answers as the hand model. -/
theorem hasArc_cases (d : AdjMatrix) (u v : Nat) :
    MX.hasArc d u v = none ∨ MX.hasArc d u v = some (d.hasArc u v) := by
  unfold MX.hasArc AdjMatrix.hasArc
  split
  · right; rfl
  · simp only [index_eq, shift_eq, mask_eq]
    cases d.blocks[d.index u v / 64]? with
    | none => left; rfl
    | some b => right; rfl

theorem hasArc_eq {d : AdjMatrix} (hs : Sized d) (u v : Nat) : MX.hasArc d u v = some (d.hasArc u v) := by
  unfold MX.hasArc AdjMatrix.hasArc
  split
  · rfl
  · rename_i h
    have hu : u < d.order := by simp at h; omega
    have hv : v < d.order := by simp at h; omega
    simp only [index_eq, shift_eq, mask_eq, List.getElem?_eq_getElem (index_lt hs hu hv)]
    rfl

theorem hasEdge_eq {d : AdjMatrix} (hs : Sized d) (u v : Nat) : MX.hasEdge d u v = some (Query.MX.hasEdge d u v) := by
  unfold MX.hasEdge Query.MX.hasEdge
  simp only [hasArc_eq hs, Option.bind_some, ite_some_and]
theorem hasWalk_eq {d : AdjMatrix} (hs : Sized d) (w : List Nat) : MX.hasWalk d w = some (Query.MX.hasWalk d w) := by
  unfold MX.hasWalk Query.MX.hasWalk Query.hasWalkZip
  simp only [hasArc_eq hs, allO_some, ite_some_and]
theorem size_eq (d : AdjMatrix) : MX.size d = d.size := AdjMatrix.sizePop_eq d
theorem indegree_eq {d : AdjMatrix} (hs : Sized d) (v : Nat) : MX.indegree d v = Query.MX.indegree d v := by
  unfold MX.indegree Query.MX.indegree
  simp only [hasArc_eq hs, filterO_some, Option.bind_some, vertices_eq]
theorem isSource_eq {d : AdjMatrix} (hs : Sized d) (v : Nat) : MX.isSource d v = some (Query.MX.isSource d v) := by
  unfold MX.isSource Query.MX.isSource
  simp only [hasArc_eq hs, allO_some, Option.bind_some, vertices_eq]
theorem outdegree_eq {d : AdjMatrix} (hs : Sized d) (u : Nat) : MX.outdegree d u = Query.MX.outdegree d u := by
  unfold MX.outdegree Query.MX.outdegree
  simp only [hasArc_eq hs, filterO_some, Option.bind_some, vertices_eq]
theorem isSink_eq {d : AdjMatrix} (hs : Sized d) (u : Nat) : MX.isSink d u = Query.MX.isSink d u := by
  unfold MX.isSink Query.MX.isSink
  simp only [hasArc_eq hs, allO_some, Option.bind_some, vertices_eq]
theorem outNeighbors_eq {d : AdjMatrix} (hs : Sized d) (u : Nat) : MX.outNeighbors d u = Query.MX.outNeighbors d u := by
  unfold MX.outNeighbors Query.MX.outNeighbors
  simp only [hasArc_eq hs, filterO_some, vertices_eq]
theorem inNeighbors_eq (d : AdjMatrix) (v : Nat) : MX.inNeighbors d v = Query.MX.inNeighbors d v := rfl
theorem degree_eq {d : AdjMatrix} (hs : Sized d) (u : Nat) : MX.degree d u = (Query.MX.core d).degree u := by
  unfold MX.degree; rw [degree_body, indegree_eq hs, outdegree_eq hs]; rfl
theorem semidegreeSequence_eq {d : AdjMatrix} (hs : Sized d) :
    MX.semidegreeSequence d = (Query.MX.core d).semidegreeSequence := by
  unfold MX.semidegreeSequence Query.Core.semidegreeSequence
  rw [mapO_eq, vertices_eq]
  simp only [semidegree_body, indegree_eq hs, outdegree_eq hs]; rfl
theorem degreeSequence_eq {d : AdjMatrix} (hs : Sized d) (t : Nat) :
    MX.degreeSequence d = (Query.MX.core d).degreeSequence t := by
  unfold MX.degreeSequence
  rw [mapO_eq, vertices_eq]
  simp only [MX.degree, degree_body, indegree_eq hs, outdegree_eq hs]; rfl
theorem indegreeSequence_eq {d : AdjMatrix} (hs : Sized d) :
    MX.indegreeSequence d = (Query.MX.core d).indegreeSequence := by
  unfold MX.indegreeSequence
  rw [mapO_eq, vertices_eq]
  simp only [indegree_eq hs]; rfl
theorem isComplete_eq (d : AdjMatrix) : MX.isComplete d = Pred.MX.isComplete d := by
  unfold MX.isComplete Pred.MX.isComplete; rw [order_eq]; cases Pred.MX.complete d.order <;> rfl
theorem isRegular_eq {d : AdjMatrix} (hs : Sized d) : MX.isRegular d = Pred.Blanket.isRegular (Query.MX.core d) := by
  unfold MX.isRegular Pred.Blanket.isRegular; rw [semidegreeSequence_eq hs]
  is_regular_cases
theorem isSimple_eq {d : AdjMatrix} (hs : Sized d) : MX.isSimple d = some (Pred.MX.isSimple d) := by
  unfold MX.isSimple Pred.MX.isSimple
  simp only [hasArc_eq hs, allO_some, Option.bind_some, vertices_eq]
theorem isSemicomplete_eq {d : AdjMatrix} (hs : Sized d) : MX.isSemicomplete d = some (Pred.MX.isSemicomplete d) := by
  unfold MX.isSemicomplete Pred.MX.isSemicomplete Pred.above
  simp only [hasArc_eq hs, Option.bind_some, ite_some_or, allO_some, ite_some_and, size_eq, order_eq]
theorem isTournament_eq {d : AdjMatrix} (hs : Sized d) : MX.isTournament d = some (Pred.MX.isTournament d) := by
  unfold MX.isTournament Pred.MX.isTournament Pred.above
  simp only [hasArc_eq hs, Option.bind_some, allO_some, size_eq, order_eq, xor_eq_bne, ite_some]
theorem removeArc_eq {d : AdjMatrix} (hs : Sized d) (u v : Nat) : MX.removeArc d u v = some (d.removeArc u v) := by
  unfold MX.removeArc AdjMatrix.removeArc
  split
  · rfl
  · rename_i h
    have hu : u < d.order := by simp at h; omega
    have hv : v < d.order := by simp at h; omega
    simp only [hasArc_eq hs, Option.bind_some, index_eq, shift_eq, mask_eq,
      List.getElem?_eq_getElem (index_lt hs hu hv), AdjMatrix.setBlock, Option.getD_some]
/-! ### Non-vacuity / the one place where generated code and hand model differ (outside `WF`) -/

/-- `Sized` is satisfiable (a 2-vertex matrix in one block) and the generated code runs on it. -/
example : Sized ⟨[2#64], 2⟩ := by unfold Sized; decide
example : MX.hasArc ⟨[2#64], 2⟩ 0 1 = some true := by decide
example : MX.removeArc ⟨[2#64], 2⟩ 0 1 = some (⟨[0#64], 2⟩, true) := by decide
example : MX.isTournament ⟨[2#64], 2⟩ = some true := by decide
/-- Without `Sized` (a block vector that is too short — never produced by the public API) the
code panics on the index, while the hand model `AdjMatrix.hasArc` reads a zero block. -/
example : MX.hasArc ⟨[], 2⟩ 0 1 = none ∧ AdjMatrix.hasArc ⟨[], 2⟩ 0 1 = false := by decide
end MX

/-! ## EdgeList -/
namespace EL
open ReprGen

theorem order_eq (d : EdgeList) : EL.order d = d.order := rfl
theorem contiguousOrder_eq (d : EdgeList) : EL.contiguousOrder d = d.order := rfl
theorem vertices_eq (d : EdgeList) : EL.vertices d = d.vertices := rfl
theorem arcs_eq (d : EdgeList) : EL.arcs d = d.arcs := rfl
theorem hasArc_eq (d : EdgeList) (u v : Nat) : EL.hasArc d u v = d.hasArc u v := rfl
theorem hasEdge_eq (d : EdgeList) (u v : Nat) : EL.hasEdge d u v = Query.EL.hasEdge d u v := rfl
theorem hasWalk_eq (d : EdgeList) (w : List Nat) : EL.hasWalk d w = Query.EL.hasWalk d w := rfl
theorem size_eq (d : EdgeList) : EL.size d = d.size := rfl
theorem indegree_eq (d : EdgeList) (v : Nat) : EL.indegree d v = Query.EL.indegree d v := rfl
theorem isSource_eq (d : EdgeList) (v : Nat) : EL.isSource d v = Query.EL.isSource d v := rfl
theorem outdegree_eq (d : EdgeList) (u : Nat) : EL.outdegree d u = Query.EL.outdegree d u := rfl
theorem isSink_eq (d : EdgeList) (u : Nat) : EL.isSink d u = Query.EL.isSink d u := rfl
theorem inNeighbors_eq (d : EdgeList) (v : Nat) : EL.inNeighbors d v = Query.EL.inNeighbors d v := rfl
theorem outNeighbors_eq (d : EdgeList) (u : Nat) : EL.outNeighbors d u = Query.EL.outNeighbors d u := rfl
theorem degree_eq (d : EdgeList) (u : Nat) : EL.degree d u = (Query.EL.core d).degree u := by
  unfold EL.degree; rw [degree_body, indegree_eq, outdegree_eq]; rfl
theorem semidegreeSequence_eq (d : EdgeList) : EL.semidegreeSequence d = (Query.EL.core d).semidegreeSequence := by
  unfold EL.semidegreeSequence Query.Core.semidegreeSequence
  rw [mapO_eq, vertices_eq]
  simp only [semidegree_body, indegree_eq, outdegree_eq]; rfl
theorem degreeSequence_eq (d : EdgeList) (t : Nat) : EL.degreeSequence d = (Query.EL.core d).degreeSequence t := by
  unfold EL.degreeSequence
  rw [mapO_eq, vertices_eq]
  simp only [EL.degree, degree_body, indegree_eq, outdegree_eq]; rfl
theorem indegreeSequence_eq (d : EdgeList) : EL.indegreeSequence d = (Query.EL.core d).indegreeSequence := by
  unfold EL.indegreeSequence
  rw [mapO_eq, vertices_eq]
  simp only [indegree_eq]; rfl
theorem isComplete_eq (d : EdgeList) : EL.isComplete d = Pred.EL.isComplete d := by
  unfold EL.isComplete Pred.EL.isComplete; rw [order_eq]; cases Pred.EL.complete d.order <;> rfl
theorem isRegular_eq (d : EdgeList) : EL.isRegular d = Pred.Blanket.isRegular (Query.EL.core d) := by
  unfold EL.isRegular Pred.Blanket.isRegular; rw [semidegreeSequence_eq]
  is_regular_cases
theorem isSimple_eq (d : EdgeList) : EL.isSimple d = Pred.EL.isSimple d := rfl
theorem isSemicomplete_eq (d : EdgeList) : EL.isSemicomplete d = Pred.EL.isSemicomplete d := rfl
theorem isTournament_eq (d : EdgeList) : EL.isTournament d = Pred.EL.isTournament d := by
  unfold EL.isTournament Pred.EL.isTournament Pred.above
  simp only [MX.xor_eq_bne, hasArc_eq, size_eq, order_eq]
theorem removeArc_eq (d : EdgeList) (u v : Nat) : EL.removeArc d u v = d.removeArc u v := rfl
/-- The `Query.Core` record assembled from the GENERATED definitions only (`EdgeList` is fully covered). -/
def genCore (d : EdgeList) : Query.Core where
  order := EL.order d
  vertices := EL.vertices d
  arcs := EL.arcs d
  size := EL.size d
  hasArc := EL.hasArc d
  hasEdge := EL.hasEdge d
  hasWalk := EL.hasWalk d
  outNeighbors := EL.outNeighbors d
  inNeighbors := EL.inNeighbors d
  indegree := EL.indegree d
  isSource := EL.isSource d
  outdegree := EL.outdegree d
  isSink := EL.isSink d
  indegreeSequence := EL.indegreeSequence d
  degreeSequence := fun _ => EL.degreeSequence d

/-- … is the hand-written record all C02 / C12 `EdgeList` theorems are about. -/
theorem genCore_eq (d : EdgeList) : genCore d = Query.EL.core d := by
  unfold genCore Query.EL.core
  congr 1
  · exact indegreeSequence_eq d
  · funext t; exact degreeSequence_eq d t
end EL

/-! ## AdjacencyListWeighted -/
namespace WL
open ReprGen

theorem order_eq (d : AdjListW) : WL.order d = d.order := rfl
theorem contiguousOrder_eq (d : AdjListW) : WL.contiguousOrder d = d.order := rfl
theorem vertices_eq (d : AdjListW) : WL.vertices d = d.vertices := rfl
theorem hasArc_eq (d : AdjListW) (u v : Nat) : WL.hasArc d u v = d.hasArc u v := rfl
theorem hasEdge_eq (d : AdjListW) (u v : Nat) : WL.hasEdge d u v = Query.WL.hasEdge d u v := rfl
theorem hasWalk_eq (d : AdjListW) (w : List Nat) : WL.hasWalk d w = Query.WL.hasWalk d w := rfl
theorem size_eq (d : AdjListW) : WL.size d = d.size := rfl
theorem arcWeight_eq (d : AdjListW) (u v : Nat) : WL.arcWeight d u v = d.arcWeight u v := rfl
theorem arcsWeighted_eq (d : AdjListW) : WL.arcsWeighted d = d.arcsWeighted := by
  unfold WL.arcsWeighted AdjListW.arcsWeighted; rw [flatMap_enumerate]
theorem arcs_eq (d : AdjListW) : WL.arcs d = d.arcs := by
  unfold WL.arcs AdjListW.arcs AdjListW.arcsWeighted
  rw [flatMap_enumerate, List.map_flatMap]
  simp only [List.map_map, Function.comp_def]
theorem indegree_eq (d : AdjListW) (v : Nat) : WL.indegree d v = Query.WL.indegree d v := rfl
theorem isSource_eq (d : AdjListW) (v : Nat) : WL.isSource d v = Query.WL.isSource d v := rfl
theorem outdegree_eq (d : AdjListW) (u : Nat) : WL.outdegree d u = Query.WL.outdegree d u := by
  unfold WL.outdegree Query.WL.outdegree; cases d.rows[u]? <;> rfl
theorem isSink_eq (d : AdjListW) (u : Nat) : WL.isSink d u = Query.WL.isSink d u := by
  unfold WL.isSink Query.WL.isSink; cases d.rows[u]? <;> rfl
theorem inNeighbors_eq (d : AdjListW) (v : Nat) : WL.inNeighbors d v = Query.WL.inNeighbors d v := by
  unfold WL.inNeighbors Query.WL.inNeighbors; rw [filterMap_enumerate]
theorem outNeighbors_eq (d : AdjListW) (u : Nat) : WL.outNeighbors d u = Query.WL.outNeighbors d u := by
  unfold WL.outNeighbors Query.WL.outNeighbors; cases d.rows[u]? <;> rfl
theorem outNeighborsWeighted_eq (d : AdjListW) (u : Nat) :
    WL.outNeighborsWeighted d u = Query.WL.outNeighborsWeighted d u := by
  unfold WL.outNeighborsWeighted Query.WL.outNeighborsWeighted
  cases d.rows[u]? with
  | none => rfl
  | some r => exact congrArg some (List.map_id r)
theorem degree_eq (d : AdjListW) (u : Nat) : WL.degree d u = (Query.WL.core d).degree u := by
  unfold WL.degree; rw [degree_body, indegree_eq, outdegree_eq]; rfl
theorem semidegreeSequence_eq (d : AdjListW) : WL.semidegreeSequence d = (Query.WL.core d).semidegreeSequence := by
  unfold WL.semidegreeSequence Query.Core.semidegreeSequence
  rw [mapO_eq, vertices_eq]
  simp only [semidegree_body, indegree_eq, outdegree_eq]; rfl
theorem degreeSequence_eq (d : AdjListW) (t : Nat) : WL.degreeSequence d = (Query.WL.core d).degreeSequence t := by
  unfold WL.degreeSequence
  rw [mapO_eq, vertices_eq]
  simp only [WL.degree, degree_body, indegree_eq, outdegree_eq]; rfl
theorem indegreeSequence_eq (d : AdjListW) : WL.indegreeSequence d = (Query.WL.core d).indegreeSequence := by
  unfold WL.indegreeSequence
  rw [mapO_eq, vertices_eq]
  simp only [indegree_eq]; rfl
theorem isComplete_eq (d : AdjListW) : WL.isComplete d = Pred.WL.isComplete d := rfl
theorem isRegular_eq (d : AdjListW) : WL.isRegular d = Pred.Blanket.isRegular (Query.WL.core d) := by
  unfold WL.isRegular Pred.Blanket.isRegular; rw [semidegreeSequence_eq]
  is_regular_cases
theorem isSimple_eq (d : AdjListW) : WL.isSimple d = Pred.WL.isSimple d := by
  unfold WL.isSimple Pred.WL.isSimple; rw [all_enumerate]
theorem isSemicomplete_eq (d : AdjListW) : WL.isSemicomplete d = Pred.WL.isSemicomplete d := rfl
theorem isTournament_eq (d : AdjListW) : WL.isTournament d = Pred.WL.isTournament d := by
  unfold WL.isTournament Pred.WL.isTournament Pred.above
  simp only [MX.xor_eq_bne, hasArc_eq, size_eq, order_eq]
theorem removeArc_eq (d : AdjListW) (u v : Nat) : WL.removeArc d u v = d.removeArc u v := by
  unfold WL.removeArc AdjListW.removeArc; cases d.rows[u]? <;> rfl
/-- The `Query.Core` record assembled from the GENERATED definitions only (`AdjacencyListWeighted` is fully covered). -/
def genCore (d : AdjListW) : Query.Core where
  order := WL.order d
  vertices := WL.vertices d
  arcs := WL.arcs d
  size := WL.size d
  hasArc := WL.hasArc d
  hasEdge := WL.hasEdge d
  hasWalk := WL.hasWalk d
  outNeighbors := WL.outNeighbors d
  inNeighbors := WL.inNeighbors d
  indegree := WL.indegree d
  isSource := WL.isSource d
  outdegree := WL.outdegree d
  isSink := WL.isSink d
  indegreeSequence := WL.indegreeSequence d
  degreeSequence := fun _ => WL.degreeSequence d

theorem genCore_eq (d : AdjListW) : genCore d = Query.WL.core d := by
  unfold genCore Query.WL.core
  congr 1
  · exact arcs_eq d
  · funext u; exact outNeighbors_eq d u
  · funext v; exact inNeighbors_eq d v
  · funext u; exact outdegree_eq d u
  · funext u; exact isSink_eq d u
  · exact indegreeSequence_eq d
  · funext t; exact degreeSequence_eq d t
end WL

end GraafVerif.ReprGenThm
