import GraafVerif.Proof.OracleRange
/-!
# Oracles — the driver's naive PROPFAIL oracles are exact

`reachSetB`, `hopDistB`, `wdistB` (`Spec/Graph.lean`) are the executable oracles the drivers of
C03–C08 compare the implementation's output with.  The theorems below prove them correct against
the declarative notions of the same file (`ReachFrom`, `IsHopDist`, `IsMinDist`, `WReachFrom`,
`NegCycleAt`), for every well-formed digraph and every in-range source list, so an `OK` verdict
resting on them is a statement about the declarative notion and not about a trusted program.

Only statements, proofs by reference and non-vacuity examples live here; the proofs are in
`Proof/OracleReach.lean`, `Proof/OracleHop.lean`, `Proof/OracleWDist.lean`, `Proof/OracleUses.lean`,
`Proof/OracleRange.lean`.
-/
namespace GraafVerif.Oracles
open GraafVerif

/-! ## Full statements -/

/-- `reachSetB` marks exactly the vertices reachable from `S`. -/
def ReachStatement : Prop :=
  ∀ (g : Graph) (S : List Nat), g.WF → (∀ s ∈ S, s < g.n) →
    (reachSetB g S).length = g.n ∧
    ∀ v, (reachSetB g S)[v]?.getD false = true ↔ ReachFrom g S v

/-- `hopDistB` gives exactly the hop distances, `none` exactly at the unreachable vertices. -/
def HopStatement : Prop :=
  ∀ (g : Graph) (S : List Nat), g.WF → (∀ s ∈ S, s < g.n) →
    (hopDistB g S).length = g.n ∧
    (∀ v d, (hopDistB g S)[v]?.getD none = some d ↔ IsHopDist g S v d) ∧
    (∀ v, (hopDistB g S)[v]?.getD none = none ↔ ¬ ReachFrom g S v)

/-- `wdistB`: the flag says exactly whether a negative circuit is reachable from `S`; when it is
`false` the entries are exactly the minimum walk weights, `none` exactly at the unreachable
vertices. -/
def WDistStatement : Prop :=
  ∀ (g : WGraph) (S : List Nat), g.WF → (∀ s ∈ S, s < g.n) →
    ((wdistB g S).2 = true ↔ ∃ x, WReachFrom g S x ∧ NegCycleAt g x) ∧
    ((wdistB g S).2 = false →
      (wdistB g S).1.length = g.n ∧
      (∀ v d, (wdistB g S).1[v]?.getD none = some d ↔ IsMinDist g S v d) ∧
      (∀ v, (wdistB g S).1[v]?.getD none = none ↔ ¬ WReachFrom g S v))

/-! ## 1. `reachSetB` -/

/-- Marked ⇔ reachable (both directions). -/
theorem reachSetB_spec {g : Graph} (hwf : g.WF) {S : List Nat} (hS : ∀ s ∈ S, s < g.n) (v : Nat) :
    (reachSetB g S)[v]?.getD false = true ↔ ReachFrom g S v :=
  OracleProof.reachSetB_spec hwf hS v

/-- One entry per vertex. -/
theorem reachSetB_length {g : Graph} (hwf : g.WF) (S : List Nat) : (reachSetB g S).length = g.n :=
  OracleProof.reachSetB_length hwf S

theorem reach_statement_holds : ReachStatement :=
  fun _ S hwf hS => ⟨reachSetB_length hwf S, reachSetB_spec hwf hS⟩

/-! ## 2. `hopDistB` -/

/-- Entry `some d` ⇔ `d` is the hop distance from the nearest source. -/
theorem hopDistB_spec {g : Graph} (hwf : g.WF) {S : List Nat} (hS : ∀ s ∈ S, s < g.n) (v d : Nat) :
    (hopDistB g S)[v]?.getD none = some d ↔ IsHopDist g S v d :=
  OracleProof.hopDistB_spec hwf hS v d

/-- Entry `none` ⇔ unreachable. -/
theorem hopDistB_none {g : Graph} (hwf : g.WF) {S : List Nat} (hS : ∀ s ∈ S, s < g.n) (v : Nat) :
    (hopDistB g S)[v]?.getD none = none ↔ ¬ ReachFrom g S v :=
  OracleProof.hopDistB_none hwf hS v

theorem hopDistB_length {g : Graph} (hwf : g.WF) {S : List Nat} (hS : ∀ s ∈ S, s < g.n) :
    (hopDistB g S).length = g.n :=
  OracleProof.hopDistB_length hwf hS

theorem hop_statement_holds : HopStatement :=
  fun _ _ hwf hS => ⟨hopDistB_length hwf hS, hopDistB_spec hwf hS, hopDistB_none hwf hS⟩

/-- H04 for orders above 40 reads reachability off `hopDistB`: same set. -/
theorem hop_isSome_spec {g : Graph} (hwf : g.WF) {S : List Nat} (hS : ∀ s ∈ S, s < g.n) (v : Nat) :
    ((hopDistB g S).map Option.isSome)[v]?.getD false = true ↔ ReachFrom g S v :=
  OracleProof.hop_isSome_spec hwf hS v

/-- The two reachability oracles of H04 are the same list. -/
theorem reach_eq_hop_isSome {g : Graph} (hwf : g.WF) {S : List Nat} (hS : ∀ s ∈ S, s < g.n) :
    reachSetB g S = (hopDistB g S).map Option.isSome :=
  OracleProof.reach_eq_hop_isSome hwf hS

/-! ## 3. `wdistB` -/

/-- Flag `true` ⇔ a negative circuit is reachable from `S`. -/
theorem wdistB_flag {g : WGraph} (hwf : g.WF) {S : List Nat} (hS : ∀ s ∈ S, s < g.n) :
    (wdistB g S).2 = true ↔ ∃ x, WReachFrom g S x ∧ NegCycleAt g x :=
  OracleProof.wdistB_flag hwf hS

/-- Flag `false` ⇒ the entries are exact. -/
theorem wdistB_spec {g : WGraph} (hwf : g.WF) {S : List Nat} (hS : ∀ s ∈ S, s < g.n)
    (hf : (wdistB g S).2 = false) :
    (wdistB g S).1.length = g.n ∧
    (∀ v d, (wdistB g S).1[v]?.getD none = some d ↔ IsMinDist g S v d) ∧
    (∀ v, (wdistB g S).1[v]?.getD none = none ↔ ¬ WReachFrom g S v) :=
  OracleProof.wdistB_spec hwf hS hf

theorem wdist_statement_holds : WDistStatement :=
  fun _ _ hwf hS => ⟨wdistB_flag hwf hS, wdistB_spec hwf hS⟩

/-- H03 (Dijkstra, non-negative weights): the flag is `false`, so the entries are exact. -/
theorem wdistB_nonneg {g : WGraph} (hwf : g.WF) (hnn : g.NonNeg) {S : List Nat} (hS : ∀ s ∈ S, s < g.n) :
    (wdistB g S).1.length = g.n ∧
    (∀ v d, (wdistB g S).1[v]?.getD none = some d ↔ IsMinDist g S v d) ∧
    (∀ v, (wdistB g S).1[v]?.getD none = none ↔ ¬ WReachFrom g S v) :=
  wdistB_spec hwf hS (OracleProof.wdistB_nonneg_flag hwf hnn hS)

/-- H07 in the vocabulary of C07: the flag decides `Bfm.NegReachable`, and without it the vector
is `Bfm.Exact` (the notion `Thm/C07` proves of the model; `Bfm.exact_unique` makes it unique). -/
theorem wdistB_single {g : WGraph} (hwf : g.WF) {s : Nat} (hs : s < g.n) :
    ((wdistB g [s]).2 = true ↔ Bfm.NegReachable g s) ∧
    ((wdistB g [s]).2 = false → Bfm.Exact g s (wdistB g [s]).1) :=
  OracleProof.wdistB_single hwf hs

/-- H08's skip test: some single-source flag is raised ⇔ the digraph has a negative circuit. -/
theorem anyFlag_iff {g : WGraph} (hwf : g.WF) :
    (List.range g.n).any (fun s => (wdistB g [s]).2) = true ↔ ∃ x, NegCycleAt g x :=
  OracleProof.anyFlag_iff hwf

/-- H07's `anyNeg` tag. -/
theorem allSrcFlag_iff {g : WGraph} (hwf : g.WF) :
    (wdistB g (List.range g.n)).2 = true ↔ ∃ x, NegCycleAt g x :=
  OracleProof.allSrcFlag_iff hwf

/-! ## 4. Without "sources in range"

Out-of-range sources are ignored by the oracles and, in a well-formed digraph, reach nothing but
themselves; so at every vertex `v < g.n` the specifications hold for EVERY source list (only `g.WF`).
(At `v ≥ g.n` the oracles say `false`/`none` while an out-of-range source `v ∈ S` reaches itself:
the restriction to `v < g.n` cannot be dropped.) -/

theorem reachSetB_spec_wf {g : Graph} (hwf : g.WF) (S : List Nat) {v : Nat} (hv : v < g.n) :
    (reachSetB g S)[v]?.getD false = true ↔ ReachFrom g S v :=
  OracleProof.reachSetB_spec_wf hwf S hv

theorem hopDistB_spec_wf {g : Graph} (hwf : g.WF) (S : List Nat) {v : Nat} (hv : v < g.n) (d : Nat) :
    (hopDistB g S)[v]?.getD none = some d ↔ IsHopDist g S v d :=
  OracleProof.hopDistB_spec_wf hwf S hv d

theorem hopDistB_none_wf {g : Graph} (hwf : g.WF) (S : List Nat) {v : Nat} (hv : v < g.n) :
    (hopDistB g S)[v]?.getD none = none ↔ ¬ ReachFrom g S v :=
  OracleProof.hopDistB_none_wf hwf S hv

theorem wdistB_flag_wf {g : WGraph} (hwf : g.WF) (S : List Nat) :
    (wdistB g S).2 = true ↔ ∃ x, WReachFrom g S x ∧ NegCycleAt g x :=
  OracleProof.wdistB_flag_wf hwf S

theorem wdistB_spec_wf {g : WGraph} (hwf : g.WF) (S : List Nat) (hf : (wdistB g S).2 = false) :
    (wdistB g S).1.length = g.n ∧
    (∀ v, v < g.n → ∀ d, (wdistB g S).1[v]?.getD none = some d ↔ IsMinDist g S v d) ∧
    (∀ v, v < g.n → ((wdistB g S).1[v]?.getD none = none ↔ ¬ WReachFrom g S v)) :=
  OracleProof.wdistB_spec_wf hwf S hf

/-- Non-vacuity: the out-of-range source `7` changes nothing at the in-range vertices. -/
example : reachSetB (Graph.ofRows (rowsOfArcs 3 [(0,1)])) [7, 0] = [true, true, false] := by decide

/-! ## The hypotheses hold for the digraphs the drivers build -/

/-- `GDesc.graph` = `Graph.ofRows (rowsOfArcs order arcs)`. -/
theorem driverGraph_hyps (n : Nat) (arcs : List (Nat × Nat)) (h : ∀ a ∈ arcs, a.1 < n ∧ a.2 < n) :
    (Graph.ofRows (rowsOfArcs n arcs)).n = n ∧ (Graph.ofRows (rowsOfArcs n arcs)).WF :=
  OracleProof.driverGraph_hyps n arcs h

/-- `GDesc.wgraph` = `WGraph.ofRows (wrowsOfArcs order warcs)`. -/
theorem driverWGraph_hyps (n : Nat) (arcs : List (Nat × Nat × Int)) (h : ∀ a ∈ arcs, a.2.1 < n) :
    (WGraph.ofRows (wrowsOfArcs n arcs)).n = n ∧ (WGraph.ofRows (wrowsOfArcs n arcs)).WF :=
  OracleProof.driverWGraph_hyps n arcs h

/-! ## Non-vacuity: concrete digraphs built the way the drivers build them -/

/-- `0 → 1 → 2 → 0`, `3 → 1`, vertex `4` isolated. -/
def gEx : Graph := Graph.ofRows (rowsOfArcs 5 [(0,1),(1,2),(2,0),(3,1)])

theorem gEx_wf : gEx.WF := (driverGraph_hyps 5 _ (by decide)).2
theorem gEx_src : ∀ s ∈ [0], s < gEx.n := by decide

example : reachSetB gEx [0] = [true, true, true, false, false] := by decide
example : hopDistB gEx [0] = [some 0, some 1, some 2, none, none] := by decide
/-- … so the theorems certify, e.g., that `2` is at hop distance exactly `2` and `3` is unreachable. -/
example : IsHopDist gEx [0] 2 2 := (hopDistB_spec gEx_wf gEx_src 2 2).mp (by decide)
example : ReachFrom gEx [0] 2 := (reachSetB_spec gEx_wf gEx_src 2).mp (by decide)
example : ¬ ReachFrom gEx [0] 3 := fun h => absurd ((reachSetB_spec gEx_wf gEx_src 3).mpr h) (by decide)
example : ¬ ReachFrom gEx [0] 3 := (hopDistB_none gEx_wf gEx_src 3).mp (by decide)

/-- A negative arc that makes the two-arc walk `0 → 2 → 1` cheaper than the arc `0 → 1`;
vertex `4` reaches `0` but is not reached. -/
def wEx : WGraph := WGraph.ofRows (wrowsOfArcs 5 [(0,1,4),(0,2,1),(2,1,-2),(1,3,1),(4,0,1)])

theorem wEx_wf : wEx.WF := (driverWGraph_hyps 5 _ (by decide)).2
theorem wEx_src : ∀ s ∈ [0], s < wEx.n := by decide

example : wdistB wEx [0] = ([some 0, some (-1), some 1, some 0, none], false) := by decide
example : IsMinDist wEx [0] 1 (-1) := ((wdistB_spec wEx_wf wEx_src (by decide)).2.1 1 (-1)).mp (by decide)
example : ¬ WReachFrom wEx [0] 4 := ((wdistB_spec wEx_wf wEx_src (by decide)).2.2 4).mp (by decide)

/-- A reachable negative circuit `1 → 2 → 1` (weight `-1`): the flag is raised. -/
def wNeg : WGraph := WGraph.ofRows (wrowsOfArcs 3 [(0,1,1),(1,2,1),(2,1,-2)])

theorem wNeg_wf : wNeg.WF := (driverWGraph_hyps 3 _ (by decide)).2

example : (wdistB wNeg [0]).2 = true := by decide
example : ∃ x, WReachFrom wNeg [0] x ∧ NegCycleAt wNeg x :=
  (wdistB_flag wNeg_wf (S := [0]) (by decide)).mp (by decide)
/-- … and from the source `0` of a digraph whose only negative circuit is NOT reachable the flag stays down. -/
def wNegUnreach : WGraph := WGraph.ofRows (wrowsOfArcs 3 [(1,2,1),(2,1,-2),(1,0,1)])
example : (wdistB wNegUnreach [0]).2 = false := by decide
example : (List.range wNegUnreach.n).any (fun s => (wdistB wNegUnreach [s]).2) = true := by decide

end GraafVerif.Oracles
