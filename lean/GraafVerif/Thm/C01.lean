import GraafVerif.Proof.ReprEL
import GraafVerif.Proof.ReprAL
import GraafVerif.Proof.ReprW
import GraafVerif.Proof.ReprAM
import GraafVerif.Proof.ReprMX
import GraafVerif.Proof.ReprMXIter
import GraafVerif.Proof.ReprExec
import GraafVerif.Proof.ReprReach
import GraafVerif.Proof.ReprALIter
/-!
# C01 — every representation tracks the abstract digraph under any mutation history

Only statements and their proofs-by-reference live here.

* The mathematical digraph `(V, A, w)` and the meaning of the calls on it: `Spec/Repr.lean`
  (`SpecState`, `specStep`, `specStepMx`, `run`).
* The representation models: `Model/Repr.lean` (shared), their `step` / `abs`: `Model/ReprEqHist.lean`.
* `X.WF` is the representation invariant; it holds for `empty(n)` (`…_empty`) and is
  preserved by every call, i.e. it holds for every digraph reachable from `empty` by calls.
  (The `From<…>` constructors assert exactly the same conditions — `u ≠ v`, `v < order` resp.
  `v` is a key — on their input; generators and conversions are C14 / C16.)

For every representation `X` the statement `Tracks` says: for EVERY well-formed start digraph
and EVERY finite list of calls with arbitrary (valid or invalid) arguments,
 1. the final model state is well-formed,
 2. its abstraction is the state the spec reaches from the abstraction of the start,
 3. the outputs (`()` / `true` / `false` / panic) are the spec's outputs — in particular
    `remove_arc` returns whether the arc was present, rejected calls panic,
 4. what `vertices()`, `arcs()`, `size()` show of the final state is exactly the abstract
    digraph: every vertex / arc once, ascending (lexicographic) order, `size = |A|`, and the
    abstract digraph is `Valid` (no self-loop, no endpoint outside `V`).
Since the statement is for all histories it holds after every prefix, i.e. after every call.
`…_rejects` adds that a rejected call returns the *identical* structure (not only the same
abstraction).
-/
namespace GraafVerif.C01
open GraafVerif.ReprSpec GraafVerif.Repr

/-- What the read accessors must show of a state whose abstraction is `s`. -/
def Shows {ω : Type} (s : SpecState ω) (verts : List Nat) (arcs : List (Nat × Nat)) (size : Nat) : Prop :=
  verts.Pairwise (· < ·) ∧ (∀ x, x ∈ verts ↔ s.V x = true) ∧
  arcs.Pairwise (fun a b => pairLt a b = true) ∧ (∀ u v, (u, v) ∈ arcs ↔ s.A u v = true) ∧
  size = arcs.length ∧ s.Valid

/-- The tracking statement for one representation. -/
def Tracks {σ ο ω : Type} (WF : σ → Prop) (abs : σ → SpecState ω) (step : σ → ο → σ × Out)
    (sstep : SpecState ω → ο → SpecState ω × Out)
    (verts : σ → List Nat) (arcs : σ → List (Nat × Nat)) (size : σ → Nat) : Prop :=
  ∀ (d : σ), WF d → ∀ ops : List ο,
    WF (run step d ops).1 ∧
    abs (run step d ops).1 = (run sstep (abs d) ops).1 ∧
    (run step d ops).2 = (run sstep (abs d) ops).2 ∧
    Shows (abs (run step d ops).1) (verts (run step d ops).1) (arcs (run step d ops).1) (size (run step d ops).1)

/-- Weighted digraphs additionally show the weights. -/
def ShowsWeights (s : SpecState Int) (arcsW : List (Nat × Nat × Int)) : Prop :=
  arcsW.Pairwise (fun a b => pairLt (a.1, a.2.1) (b.1, b.2.1) = true) ∧
  ∀ u v w, (u, v, w) ∈ arcsW ↔ s.W u v = some w

/-- Full statement of C01. -/
def Statement : Prop :=
  Tracks AdjList.WF AdjList.abs AdjList.step (specStep .fixed) AdjList.vertices AdjList.arcs AdjList.size ∧
  Tracks AdjMap.WF AdjMap.abs AdjMap.step (specStep .growing) AdjMap.vertices AdjMap.arcs AdjMap.size ∧
  Tracks EdgeList.WF EdgeList.abs EdgeList.step (specStep .fixed) EdgeList.vertices EdgeList.arcsList EdgeList.size ∧
  Tracks AdjListW.WF AdjListW.abs AdjListW.step (specStep .fixed) AdjListW.vertices AdjListW.arcs AdjListW.size ∧
  (∀ d : AdjListW, d.WF → ShowsWeights d.abs d.arcsWeighted) ∧
  Tracks AdjMatrix.WF AdjMatrix.abs AdjMatrix.step specStepMx AdjMatrix.vertices AdjMatrix.arcs AdjMatrix.size

/-! ## AdjacencyList -/

theorem adjList_empty {n : Nat} {d : AdjList} (h : AdjList.empty n = some d) :
    d.WF ∧ d.abs = emptySpec Unit n := ⟨AdjList.empty_WF h, AdjList.abs_empty h⟩

theorem adjList_tracks :
    Tracks AdjList.WF AdjList.abs AdjList.step (specStep .fixed) AdjList.vertices AdjList.arcs AdjList.size := by
  intro d h ops
  obtain ⟨hw, ha, ho⟩ := AdjList.run_refines ops d h
  refine ⟨hw, ha, ho, ?_⟩
  have a := AdjList.arcs_sorted_nodup _ hw
  exact ⟨by rw [(AdjList.vertices_spec _).1]; exact List.pairwise_lt_range, (AdjList.vertices_spec _).2,
    a.1, a.2.2, AdjList.size_eq _, AdjList.abs_valid _ hw⟩

theorem adjList_rejects (d : AdjList) (u v : Nat) (h : rejected .fixed d.abs u v = true) :
    d.step (.add u v ()) = (d, .panic) := AdjList.step_rejects d u v h

/-- The literal model of the hand-written `ArcsIterator` (`Model/ReprEqMxIter.lean`, `alDrain`)
yields exactly `AdjList.arcs`, for every fuel above the loop variant. -/
theorem adjList_arcs_iterator (d : AdjList) : AdjList.arcsIter d = d.arcs := AdjList.arcsIter_eq d

/-! ## AdjacencyMap -/

theorem adjMap_empty {n : Nat} {d : AdjMap} (h : AdjMap.empty n = some d) :
    d.WF ∧ d.abs = emptySpec Unit n := ⟨AdjMap.empty_WF h, AdjMap.abs_empty h⟩

theorem adjMap_tracks :
    Tracks AdjMap.WF AdjMap.abs AdjMap.step (specStep .growing) AdjMap.vertices AdjMap.arcs AdjMap.size := by
  intro d h ops
  obtain ⟨hw, ha, ho⟩ := AdjMap.run_refines ops d h
  refine ⟨hw, ha, ho, ?_⟩
  have a := AdjMap.arcs_sorted_nodup _ hw
  have v := AdjMap.vertices_spec _ hw
  exact ⟨v.1, v.2.2, a.1, a.2.2, AdjMap.size_eq _, AdjMap.abs_valid _ hw⟩

theorem adjMap_rejects (d : AdjMap) (u v : Nat) (h : rejected .growing d.abs u v = true) :
    d.step (.add u v ()) = (d, .panic) := AdjMap.step_rejects d u v h

/-! ## EdgeList -/

theorem edgeList_empty {n : Nat} {d : EdgeList} (h : EdgeList.empty n = some d) :
    d.WF ∧ d.abs = emptySpec Unit n := ⟨EdgeList.empty_WF h, EdgeList.abs_empty h⟩

theorem edgeList_tracks :
    Tracks EdgeList.WF EdgeList.abs EdgeList.step (specStep .fixed) EdgeList.vertices EdgeList.arcsList EdgeList.size := by
  intro d h ops
  obtain ⟨hw, ha, ho⟩ := EdgeList.run_refines ops d h
  refine ⟨hw, ha, ho, ?_⟩
  have a := EdgeList.arcs_sorted_nodup _ hw
  exact ⟨by rw [(EdgeList.vertices_spec _).1]; exact List.pairwise_lt_range, (EdgeList.vertices_spec _).2,
    a.1, a.2.2, EdgeList.size_eq _, EdgeList.abs_valid _ hw⟩

theorem edgeList_rejects (d : EdgeList) (u v : Nat) (h : rejected .fixed d.abs u v = true) :
    d.step (.add u v ()) = (d, .panic) := EdgeList.step_rejects d u v h

/-! ## AdjacencyListWeighted -/

theorem adjListW_empty {n : Nat} {d : AdjListW} (h : AdjListW.empty n = some d) :
    d.WF ∧ d.abs = emptySpec Int n := ⟨AdjListW.empty_WF h, AdjListW.abs_empty h⟩

theorem adjListW_tracks :
    Tracks AdjListW.WF AdjListW.abs AdjListW.step (specStep .fixed) AdjListW.vertices AdjListW.arcs AdjListW.size := by
  intro d h ops
  obtain ⟨hw, ha, ho⟩ := AdjListW.run_refines ops d h
  refine ⟨hw, ha, ho, ?_⟩
  have a := AdjListW.arcs_sorted_nodup _ hw
  refine ⟨by rw [(AdjListW.vertices_spec _).1]; exact List.pairwise_lt_range, (AdjListW.vertices_spec _).2,
    a.1, a.2.2, ?_, AdjListW.abs_valid _ hw⟩
  rw [AdjListW.size_eq]; simp [AdjListW.arcs]

theorem adjListW_weights (d : AdjListW) (h : d.WF) : ShowsWeights d.abs d.arcsWeighted :=
  ⟨(AdjListW.arcsWeighted_sorted_nodup d h).1, AdjListW.mem_arcsWeighted d h⟩

theorem adjListW_rejects (d : AdjListW) (u v : Nat) (w : Int) (h : rejected .fixed d.abs u v = true) :
    d.step (.add u v w) = (d, .panic) := AdjListW.step_rejects d u v w h

/-! ## AdjacencyMatrix (with `toggle`)

The theorems speak about `AdjMatrix.arcs` (set cells `< order²` in ascending cell order) and
`AdjMatrix.size` (number of set cells).  `adjMatrix_arcs_iterator` / `adjMatrix_size_count_ones`
connect them to the LITERAL model of the `ArcsIterator` loop (`trailing_zeros`,
`bits &= bits - 1`, `current_base + bit`, the `cell < order²` test, the `while` condition) and of
the `count_ones` sum (`Model/ReprEqMxIter.lean`), for every matrix, with fuel adequacy.
Trusted there: `trailing_zeros` = index of the lowest set bit, `count_ones` = number of set bits. -/

theorem adjMatrix_empty {n : Nat} {d : AdjMatrix} (h : AdjMatrix.empty n = some d) :
    d.WF ∧ d.abs = emptySpec Unit n := ⟨AdjMatrix.empty_WF h, AdjMatrix.abs_empty h⟩

theorem adjMatrix_tracks :
    Tracks AdjMatrix.WF AdjMatrix.abs AdjMatrix.step specStepMx AdjMatrix.vertices AdjMatrix.arcs AdjMatrix.size := by
  intro d h ops
  obtain ⟨hw, ha, ho⟩ := AdjMatrix.run_refines ops d h
  refine ⟨hw, ha, ho, ?_⟩
  have a := AdjMatrix.arcs_sorted_nodup _ hw
  exact ⟨by rw [(AdjMatrix.vertices_spec _).1]; exact List.pairwise_lt_range, (AdjMatrix.vertices_spec _).2,
    a.1, a.2.2, AdjMatrix.size_eq _ hw, AdjMatrix.abs_valid _ hw⟩

theorem adjMatrix_rejects (d : AdjMatrix) (u v : Nat) (h : rejected .fixed d.abs u v = true) :
    d.step (.add u v) = (d, .panic) ∧ d.step (.tog u v) = (d, .panic) := AdjMatrix.step_rejects d u v h

/-- The literal iterator loop yields exactly `AdjMatrix.arcs`. -/
theorem adjMatrix_arcs_iterator (d : AdjMatrix) : AdjMatrix.arcsIter d = d.arcs := AdjMatrix.arcsIter_eq d

/-- Termination of the loop: any fuel above the variant `μ` gives the same result. -/
theorem adjMatrix_iterator_fuel (d : AdjMatrix) (s : AdjMatrix.IterState) (f₁ f₂ : Nat)
    (h₁ : AdjMatrix.μ d s < f₁) (h₂ : AdjMatrix.μ d s < f₂) :
    AdjMatrix.drain d f₁ s = AdjMatrix.drain d f₂ s := AdjMatrix.drain_fuel_irrelevant d s f₁ f₂ h₁ h₂

/-- The linear-time evaluation the driver uses for big matrices lists the same sequence. -/
theorem adjMatrix_arcs_fold (d : AdjMatrix) : AdjMatrix.arcsFold d = d.arcs := AdjMatrix.arcsFold_eq d

/-- The `count_ones` sum is `AdjMatrix.size`. -/
theorem adjMatrix_size_count_ones (d : AdjMatrix) : AdjMatrix.sizePop d = d.size := AdjMatrix.sizePop_eq d

/-- The full statement. -/
theorem statement : Statement :=
  ⟨adjList_tracks, adjMap_tracks, edgeList_tracks, adjListW_tracks, adjListW_weights, adjMatrix_tracks⟩

/-! ## Spec-level: what can never become observable -/

/-- No self-loop and no arc with an endpoint outside `V` is ever produced by a call. -/
theorem spec_valid_step {ω : Type} (k : Kind) (s : SpecState ω) (op : Op ω) (h : s.Valid) :
    (specStep k s op).1.Valid := specStep_valid k s op h

theorem spec_valid_step_mx (s : SpecState Unit) (op : MxOp) (h : s.Valid) :
    (specStepMx s op).1.Valid := specStepMx_valid s op h

/-- Adding is idempotent; re-adding a weighted arc replaces its weight (the last write wins). -/
theorem spec_add_add {ω : Type} (k : Kind) (s : SpecState ω) (u v : Nat) (w w' : ω) :
    (run (specStep k) s [.add u v w, .add u v w']).1 = (specStep k s (.add u v w')).1 := by
  cases hrej : rejected k s u v
  · have hrej' : rejected k (⟨grow k s.V u v, setW s.W u v (some w)⟩ : SpecState ω) u v = false := by
      rw [rejected_eq_false] at hrej ⊢
      refine ⟨hrej.1, ?_⟩
      intro hk; subst hk; exact hrej.2 rfl
    have e1 := specStep_add_ok w hrej
    have e2 := specStep_add_ok w' hrej'
    have e3 := specStep_add_ok w' hrej
    simp only [run, e1, e2, e3]
    apply SpecState.ext
    · intro x
      cases k with
      | fixed => rfl
      | growing =>
        simp only [grow, addV]
        cases s.V x <;> cases decide (x = v) <;> cases decide (x = u) <;> rfl
    · intro a b; simp only [setW]; split <;> rfl
  · have e1 := specStep_add_rej w hrej
    have e3 := specStep_add_rej w' hrej
    simp only [run, e1, e3]

/-! ## `WF` = reachable from `empty` by calls (the quantifier "all start digraphs …")

`X_empty` + `X_tracks` (1) say every digraph reachable from `empty(n)` by calls is `WF`.
Conversely every `WF` digraph is reached by adding its own arcs to `empty(order)` — so the
statements above, which range over `WF` digraphs, range over exactly the digraphs that
`empty` + `add_arc(_weighted)` can build (not over a larger, possibly vacuous, class).
`AdjacencyMap`: see `Proof/ReprReach.lean` (vertex sets not containing `0..k` need `filter_vertices`). -/

theorem adjList_reachable (d : AdjList) (h : d.WF) :
    ∃ e, AdjList.empty d.order = some e ∧ (run AdjList.step e (addOps (unitW d.arcs))).1 = d :=
  AdjList.reachable d h

theorem edgeList_reachable (d : EdgeList) (h : d.WF) :
    ∃ e, EdgeList.empty d.order = some e ∧ (run EdgeList.step e (addOps (unitW d.arcs))).1 = d :=
  EdgeList.reachable d h

theorem adjListW_reachable (d : AdjListW) (h : d.WF) :
    ∃ e, AdjListW.empty d.order = some e ∧ (run AdjListW.step e (addOps d.arcsWeighted)).1 = d :=
  AdjListW.reachable d h

theorem adjMatrix_reachable (d : AdjMatrix) (h : d.WF) (hfit : d.order * d.order < 2 ^ 64) :
    ∃ e, AdjMatrix.empty d.order = some e ∧
      (run AdjMatrix.step e ((addOps (unitW d.arcs)).map toMx)).1 = d :=
  AdjMatrix.reachable d h hfit

/-! ## The driver's failing-input oracle is this spec

The PROPFAIL oracle of `repr_history` / `eq_pair` replays a history on `LSpec` (an unsorted list
of weighted arcs, `Spec/ReprExec.lean`).  Its calls are the spec's calls: -/

theorem oracle_add_weighted (s : LSpec) (u v : Nat) (w : Int) :
    (s.put u v w).1.absW = (specStep s.kind s.absW (.add u v w)).1 ∧
    (s.put u v w).2 = (specStep s.kind s.absW (.add u v w)).2 := LSpec.put_refinesW s u v w

theorem oracle_remove_weighted (s : LSpec) (u v : Nat) :
    (s.remove u v).1.absW = (specStep s.kind s.absW (.rem u v)).1 ∧
    (s.remove u v).2 = (specStep s.kind s.absW (.rem u v)).2 := LSpec.remove_refinesW s u v

theorem oracle_add (s : LSpec) (u v : Nat) (w : Int) :
    (s.put u v w).1.absU = (specStep s.kind s.absU (.add u v ())).1 ∧
    (s.put u v w).2 = (specStep s.kind s.absU (.add u v ())).2 := LSpec.put_refinesU s u v w

theorem oracle_remove (s : LSpec) (u v : Nat) :
    (s.remove u v).1.absU = (specStep s.kind s.absU (.rem u v)).1 ∧
    (s.remove u v).2 = (specStep s.kind s.absU (.rem u v)).2 := LSpec.remove_refinesU s u v

theorem oracle_toggle (s : LSpec) (hf : s.fixed = true) (u v : Nat) :
    (s.toggle u v).1.absU = (specStepMx s.absU (.tog u v)).1 ∧
    (s.toggle u v).2 = (specStepMx s.absU (.tog u v)).2 := LSpec.toggle_refinesU s hf u v

/-! ## Non-vacuity: a 6-call history with a rejected call in the middle -/

example :
    (do let d ← AdjList.empty 3
        pure ((run AdjList.step d
          [.add 0 1 (), .add 1 2 (), .add 2 2 (), .rem 0 1, .rem 0 1, .add 0 1 ()]).2)) =
      some [.unit, .unit, .panic, .bool true, .bool false, .unit] := by decide

example :
    (do let d ← AdjList.empty 3
        pure ((run AdjList.step d
          [.add 0 1 (), .add 1 2 (), .add 2 2 (), .rem 0 1, .rem 0 1, .add 0 1 ()]).1.arcs)) =
      some [(0, 1), (1, 2)] := by decide

example :
    (do let d ← AdjMap.empty 2
        pure ((run AdjMap.step d [.add 0 7 (), .add 7 7 (), .rem 0 7, .add 5 0 ()]).1.vertices)) =
      some [0, 1, 5, 7] := by decide

example :
    (do let d ← AdjListW.empty 3
        pure ((run AdjListW.step d [.add 0 1 4, .add 0 1 (-2), .add 0 3 1, .rem 1 0]).1.arcsWeighted)) =
      some [(0, 1, -2)] := by decide

/-- Matrix: add, toggle off, rejected toggle, toggle on, remove (true), remove (false). -/
example :
    (do let d ← AdjMatrix.empty 9
        let r := run AdjMatrix.step d [.add 7 8, .tog 7 8, .tog 9 0, .tog 8 7, .rem 8 7, .rem 8 7]
        pure (r.2, r.1.arcs, r.1.size)) =
      some ([.unit, .unit, .panic, .unit, .bool true, .bool false], [], 0) := by decide

example :
    (do let d ← AdjMatrix.empty 9
        pure ((run AdjMatrix.step d [.add 7 8, .tog 0 1, .add 8 7]).1.arcs)) =
      some [(0, 1), (7, 8), (8, 7)] := by decide

/-- The literal loop on a two-block matrix (cells 1, 71, 79 set). -/
example :
    (do let d ← AdjMatrix.empty 9
        let d' := (run AdjMatrix.step d [.add 7 8, .tog 0 1, .add 8 7]).1
        pure (d'.arcsIter, d'.sizePop, d'.blocks.length)) =
      some ([(0, 1), (7, 8), (8, 7)], 3, 2) := by decide

end GraafVerif.C01
