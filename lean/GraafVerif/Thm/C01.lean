/-! Property theorems for C01 (statements + proofs by reference to `Proof/`). Not built yet. -/
