import GraafVerif.Proof.ReprEL
import GraafVerif.Proof.ReprAL
import GraafVerif.Proof.ReprW
import GraafVerif.Proof.ReprAM
import GraafVerif.Proof.ReprMX
import GraafVerif.Proof.ReprCmp
/-!
# C20 — equality, ordering, hashing and cloning respect the abstract digraph

The derived `PartialEq / Eq / Ord / Hash / Clone` of the five structs are structural on the
fields, so on the model: `==` is Lean `=` of the model structures (`DecidableEq`), `cmp` is the
lexicographic `X.cmp` of `Model/ReprEqHist.lean`, a hash is *any* function of the structure,
`clone` is the identity on values.  With that reading the property is:

* `Determined`: two well-formed digraphs of one representation are equal **exactly when** their
  abstract digraphs `(V, A, w)` are equal (sorted-container extensionality; for the matrix:
  bit-wise extensionality, no residue bit at or above `order²`, block count fixed by the order);
* `Converges`: whatever two histories (from whatever well-formed starts) built them — if the
  abstract results agree, the structures are identical, hence `==`, equal hashes, `cmp = Equal`;
* `cmp a b = Equal ↔ a = b`;
* named corollaries: `remove_arc` after `add_arc` of an absent arc restores the identical
  structure (no residue bit, no leftover row entry; on `AdjacencyMap` when both endpoints already
  are vertices — otherwise the vertices stay, which is the abstract behaviour too); toggling
  twice restores the matrix.

Clone independence ("mutating either never changes the other") is value semantics in the model
(`clone = id`, states are immutable values) and is checked on the real code by the `eq_pair` tie.
-/
namespace GraafVerif.C20
open GraafVerif.ReprSpec GraafVerif.Repr

/-- Equality of structures = equality of the abstract digraphs. -/
def Determined {σ ω : Type} (WF : σ → Prop) (abs : σ → SpecState ω) : Prop :=
  ∀ d₁ d₂ : σ, WF d₁ → WF d₂ → (abs d₁ = abs d₂ ↔ d₁ = d₂)

/-- Histories with the same abstract result give identical structures. -/
def Converges {σ ο ω : Type} (WF : σ → Prop) (abs : σ → SpecState ω) (step : σ → ο → σ × Out)
    (sstep : SpecState ω → ο → SpecState ω × Out) : Prop :=
  ∀ (d₁ d₂ : σ), WF d₁ → WF d₂ → ∀ ops₁ ops₂ : List ο,
    (run sstep (abs d₁) ops₁).1 = (run sstep (abs d₂) ops₂).1 →
    (run step d₁ ops₁).1 = (run step d₂ ops₂).1

/-- Full statement of C20 on the models. -/
def Statement : Prop :=
  (Determined AdjList.WF AdjList.abs ∧ Converges AdjList.WF AdjList.abs AdjList.step (specStep .fixed) ∧
    ∀ a b : AdjList, a.cmp b = .eq ↔ a = b) ∧
  (Determined AdjMap.WF AdjMap.abs ∧ Converges AdjMap.WF AdjMap.abs AdjMap.step (specStep .growing) ∧
    ∀ a b : AdjMap, a.cmp b = .eq ↔ a = b) ∧
  (Determined AdjMatrix.WF AdjMatrix.abs ∧ Converges AdjMatrix.WF AdjMatrix.abs AdjMatrix.step specStepMx ∧
    ∀ a b : AdjMatrix, a.cmp b = .eq ↔ a = b) ∧
  (Determined EdgeList.WF EdgeList.abs ∧ Converges EdgeList.WF EdgeList.abs EdgeList.step (specStep .fixed) ∧
    ∀ a b : EdgeList, a.cmp b = .eq ↔ a = b) ∧
  (Determined AdjListW.WF AdjListW.abs ∧ Converges AdjListW.WF AdjListW.abs AdjListW.step (specStep .fixed) ∧
    ∀ a b : AdjListW, a.cmp b = .eq ↔ a = b)

theorem adjList_determined : Determined AdjList.WF AdjList.abs := AdjList.abs_injective
theorem adjMap_determined : Determined AdjMap.WF AdjMap.abs := AdjMap.abs_injective
theorem adjMatrix_determined : Determined AdjMatrix.WF AdjMatrix.abs := AdjMatrix.abs_injective
theorem edgeList_determined : Determined EdgeList.WF EdgeList.abs := EdgeList.abs_injective
theorem adjListW_determined : Determined AdjListW.WF AdjListW.abs := AdjListW.abs_injective

theorem adjList_converges : Converges AdjList.WF AdjList.abs AdjList.step (specStep .fixed) :=
  converge_gen _ _ _ _ AdjList.run_refines AdjList.abs_injective
theorem adjMap_converges : Converges AdjMap.WF AdjMap.abs AdjMap.step (specStep .growing) :=
  converge_gen _ _ _ _ AdjMap.run_refines AdjMap.abs_injective
theorem adjMatrix_converges : Converges AdjMatrix.WF AdjMatrix.abs AdjMatrix.step specStepMx :=
  converge_gen _ _ _ _ AdjMatrix.run_refines AdjMatrix.abs_injective
theorem edgeList_converges : Converges EdgeList.WF EdgeList.abs EdgeList.step (specStep .fixed) :=
  converge_gen _ _ _ _ EdgeList.run_refines EdgeList.abs_injective
theorem adjListW_converges : Converges AdjListW.WF AdjListW.abs AdjListW.step (specStep .fixed) :=
  converge_gen _ _ _ _ AdjListW.run_refines AdjListW.abs_injective

theorem statement : Statement :=
  ⟨⟨adjList_determined, adjList_converges, AdjList.cmp_eq_iff⟩,
   ⟨adjMap_determined, adjMap_converges, AdjMap.cmp_eq_iff⟩,
   ⟨adjMatrix_determined, adjMatrix_converges, AdjMatrix.cmp_eq_iff⟩,
   ⟨edgeList_determined, edgeList_converges, EdgeList.cmp_eq_iff⟩,
   ⟨adjListW_determined, adjListW_converges, AdjListW.cmp_eq_iff⟩⟩

/-- Equal digraphs have equal hashes, for ANY hash that is a function of the structure
(what `#[derive(Hash)]` is), and compare `Equal`. -/
theorem equal_hash_and_cmp {σ H : Type} (hash : σ → H) (cmp : σ → σ → Ordering)
    (hcmp : ∀ a b, cmp a b = .eq ↔ a = b) (a b : σ) (h : a = b) : hash a = hash b ∧ cmp a b = .eq :=
  ⟨congrArg hash h, (hcmp a b).mpr h⟩

/-! ## `remove_arc` after `add_arc` restores; toggling twice restores -/

theorem adjList_remove_after_add_restores (d : AdjList) (h : d.WF) (u v : Nat)
    (hok : rejected .fixed d.abs u v = false) (habs : d.hasArc u v = false) :
    (run AdjList.step d [.add u v (), .rem u v]).1 = d := by
  have := AdjList.run_refines [.add u v (), .rem u v] d h
  apply (AdjList.abs_injective _ _ this.1 h).mp
  rw [this.2.1]
  exact spec_remove_after_add _ _ _ _ _ hok (by simp [AdjList.abs, habs]) (by intro e; cases e)

theorem edgeList_remove_after_add_restores (d : EdgeList) (h : d.WF) (u v : Nat)
    (hok : rejected .fixed d.abs u v = false) (habs : d.hasArc u v = false) :
    (run EdgeList.step d [.add u v (), .rem u v]).1 = d := by
  have := EdgeList.run_refines [.add u v (), .rem u v] d h
  apply (EdgeList.abs_injective _ _ this.1 h).mp
  rw [this.2.1]
  exact spec_remove_after_add _ _ _ _ _ hok (by simp [EdgeList.abs, habs]) (by intro e; cases e)

theorem adjListW_remove_after_add_restores (d : AdjListW) (h : d.WF) (u v : Nat) (w : Int)
    (hok : rejected .fixed d.abs u v = false) (habs : d.arcWeight u v = none) :
    (run AdjListW.step d [.add u v w, .rem u v]).1 = d := by
  have := AdjListW.run_refines [.add u v w, .rem u v] d h
  apply (AdjListW.abs_injective _ _ this.1 h).mp
  rw [this.2.1]
  exact spec_remove_after_add _ _ _ _ _ hok (by simp [AdjListW.abs, habs]) (by intro e; cases e)

/-- On the map the endpoints must already be vertices (otherwise they are admitted and stay). -/
theorem adjMap_remove_after_add_restores (d : AdjMap) (h : d.WF) (u v : Nat)
    (hok : u ≠ v) (hu : d.abs.V u = true) (hv : d.abs.V v = true) (habs : d.hasArc u v = false) :
    (run AdjMap.step d [.add u v (), .rem u v]).1 = d := by
  have := AdjMap.run_refines [.add u v (), .rem u v] d h
  apply (AdjMap.abs_injective _ _ this.1 h).mp
  rw [this.2.1]
  exact spec_remove_after_add _ _ _ _ _ (by rw [AdjMap.rejected_growing]; simp [hok])
    (by simp [AdjMap.abs, habs]) (fun _ => ⟨hu, hv⟩)

theorem adjMatrix_remove_after_add_restores (d : AdjMatrix) (h : d.WF) (u v : Nat)
    (hok : rejected .fixed d.abs u v = false) (habs : d.hasArc u v = false) :
    (run AdjMatrix.step d [.add u v, .rem u v]).1 = d := by
  have := AdjMatrix.run_refines [.add u v, .rem u v] d h
  apply (AdjMatrix.abs_injective _ _ this.1 h).mp
  rw [this.2.1]
  exact spec_remove_after_add .fixed _ u v () hok (by simp [AdjMatrix.abs, habs]) (by intro e; cases e)

/-- `toggle` twice leaves no residue. -/
theorem adjMatrix_toggle_twice_restores (d : AdjMatrix) (h : d.WF) (u v : Nat) :
    (run AdjMatrix.step d [.tog u v, .tog u v]).1 = d := by
  have := AdjMatrix.run_refines [.tog u v, .tog u v] d h
  apply (AdjMatrix.abs_injective _ _ this.1 h).mp
  rw [this.2.1]
  exact spec_toggle_twice _ u v

/-! ## Non-vacuity -/

/-- Two different histories (different insertion order, a detour, a rejected call, a toggle
pair) reach the identical matrix; a third one differs in one arc and compares `Greater`. -/
example :
    (do let d ← AdjMatrix.empty 9
        let a := (run AdjMatrix.step d [.add 0 1, .add 7 8, .add 3 4, .rem 3 4]).1
        let b := (run AdjMatrix.step d [.tog 7 8, .add 5 5, .tog 2 6, .add 0 1, .tog 2 6]).1
        let c := (run AdjMatrix.step d [.add 0 1, .add 7 8, .add 8 7]).1
        pure (decide (a = b), a.cmp b, decide (a = c), c.cmp a)) =
      some (true, .eq, false, .gt) := by decide

example :
    (do let d ← AdjListW.empty 3
        let a := (run AdjListW.step d [.add 0 1 5, .add 0 2 1, .add 0 1 2]).1
        let b := (run AdjListW.step d [.add 0 2 1, .add 0 1 2]).1
        let c := (run AdjListW.step d [.add 0 2 1, .add 0 1 3]).1
        pure (decide (a = b), a.cmp b, decide (a = c), a.cmp c)) =
      some (true, .eq, false, .lt) := by decide

/-- On the map the admitted vertex stays: the structures differ exactly as the abstract digraphs do. -/
example :
    (do let d ← AdjMap.empty 2
        let a := (run AdjMap.step d [.add 0 5 (), .rem 0 5]).1
        pure (decide (a = d), a.vertices)) = some (false, [0, 1, 5]) := by decide

end GraafVerif.C20
