/-! Property theorems for C20 (statements + proofs by reference to `Proof/`). Not built yet. -/
