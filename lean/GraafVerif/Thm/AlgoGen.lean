import GraafVerif.Proof.AlgoGenPredTree
import GraafVerif.Proof.AlgoGenBfs
import GraafVerif.Proof.AlgoGenBfsPath
import GraafVerif.Proof.AlgoGenDfs
import GraafVerif.Proof.AlgoGenDijkstra
import GraafVerif.Proof.AlgoGenBfm
import GraafVerif.Proof.AlgoGenFw
import GraafVerif.Thm.C03
import GraafVerif.Thm.C04
import GraafVerif.Thm.C05
import GraafVerif.Thm.C06
import GraafVerif.Thm.C07
import GraafVerif.Thm.C19
/-!
# AlgoGen — the algorithm files regenerated from the source, tied to the hand-written models

`Model/AlgoGen.lean` is GENERATED from `src/algo/*.rs` by `tools/translate_algo.py` (imperative
Rust → pure Lean, `docs/AlgoGen.md`).  For every generated definition `X.f` there is a theorem
`GraafVerif.AlgoGenThm.X.f_eq` (proved in `Proof/AlgoGen{PredTree,Bfs,Dfs,Dijkstra,Bfm,Fw}.lean`)
that states it equal to the hand-written model function the property theorems C03–C08, C19 are
about.  This file: the whole-call programs built from generated definitions only
(`new` + iteration, `new` + `distances`, …), their equality with the hand-written top-level
functions, the property statements TRANSPORTED onto them, and non-vacuity examples.
-/
namespace GraafVerif.AlgoGenThm
open GraafVerif GraafVerif.AlgoGen

/-! ## BFS (C04, C05) -/

/-- `Bfs::new(&g, S).collect()` built from generated definitions only. -/
def genBfs (g : Graph) (S : List Nat) : Res (List Nat) :=
  AlgoGen.Bfs.new g S >>= fun s => Except.map Prod.fst (collect (AlgoGen.Bfs.next g) (GraafVerif.Bfs.fuelFor g S) s)

/-- `BfsDist::new(&g, S).collect()`. -/
def genBfsDist (g : Graph) (S : List Nat) : Res (List (Nat × Nat)) :=
  AlgoGen.BfsDist.new g S >>= fun s => Except.map Prod.fst (collect (AlgoGen.BfsDist.next g) (GraafVerif.Bfs.fuelFor g S) s)

/-- `BfsDist::new(&g, S).distances()`. -/
def genBfsDistances (g : Graph) (S : List Nat) (inf : Nat) : Res (List Nat) :=
  AlgoGen.BfsDist.new g S >>= fun s => Except.map Prod.fst (AlgoGen.BfsDist.distances g inf (GraafVerif.Bfs.fuelFor g S) s)

/-- `BfsPred::new(&g, S).predecessors()`. -/
def genBfsPredecessors (g : Graph) (S : List Nat) : Res (List (Option Nat)) :=
  AlgoGen.BfsPred.new g S >>= fun s =>
    Except.map (fun r => r.1.pred) (AlgoGen.BfsPred.predecessors g (GraafVerif.Bfs.fuelFor g S) s)

theorem genBfs_eq (g : Graph) (S : List Nat) : genBfs g S = liftBR id (GraafVerif.Bfs.bfs g S) := by
  unfold genBfs GraafVerif.Bfs.bfs GraafVerif.Bfs.iter
  rw [Bfs.new_eq]
  cases GraafVerif.Bfs.new g GraafVerif.Bfs.labUnit S with
  | panic => rfl
  | ok st =>
    show Except.map Prod.fst (collect (AlgoGen.Bfs.next g) _ (Bfs.ofH st)) = _
    rw [collect_generic (·.1) Bfs.toH Bfs.ofH Bfs.toH_ofH _ g _ (Bfs.next_eq g), Bfs.toH_ofH]
    dsimp only
    cases GraafVerif.Bfs.run g GraafVerif.Bfs.labUnit (GraafVerif.Bfs.fuelFor g S) st with
    | panic => rfl
    | ok xs => rfl

theorem genBfsDist_eq (g : Graph) (S : List Nat) : genBfsDist g S = liftBR id (GraafVerif.Bfs.bfsDist g S) := by
  unfold genBfsDist GraafVerif.Bfs.bfsDist GraafVerif.Bfs.iter
  rw [BfsDist.new_eq]
  cases GraafVerif.Bfs.new g GraafVerif.Bfs.labDist S with
  | panic => rfl
  | ok st =>
    show Except.map Prod.fst (collect (AlgoGen.BfsDist.next g) _ (BfsDist.ofH st)) = _
    rw [collect_generic id BfsDist.toH BfsDist.ofH BfsDist.toH_ofH _ g _ (BfsDist.next_eq g), BfsDist.toH_ofH]
    dsimp only
    cases GraafVerif.Bfs.run g GraafVerif.Bfs.labDist (GraafVerif.Bfs.fuelFor g S) st with
    | panic => rfl
    | ok xs => simp [liftBR]

theorem genBfsDistances_eq (g : Graph) (S : List Nat) (inf : Nat) :
    genBfsDistances g S inf = liftBR id (GraafVerif.Bfs.distances g S inf) :=
  BfsDist.new_distances_eq g S inf

theorem genBfsPredecessors_eq (g : Graph) (S : List Nat) :
    genBfsPredecessors g S = liftBR id (GraafVerif.Bfs.predecessors g S) :=
  BfsPred.new_predecessors_eq g S

theorem liftBR_id_ok {α : Type} (r : GraafVerif.Bfs.Res α) (a : α) : liftBR id r = .ok a ↔ r = .ok a := by
  cases r with
  | panic => simp [liftBR]
  | ok b => simp [liftBR]

/-- **C04 on the regenerated definitions**: the statement `C04.Holds` with every hand-written
function replaced by the program built from generated definitions. -/
theorem c04_generated (g : Graph) (S : List Nat) (hg : g.WF) (hS : ∀ s ∈ S, s < g.n) (hnd : S.Nodup) :
    (∃ out, genBfs g S = .ok out ∧ out.Nodup ∧ (∀ v, v ∈ out ↔ ReachFrom g S v) ∧
      out.Pairwise (fun u v => ∀ du dv, IsHopDist g S u du → IsHopDist g S v dv → du ≤ dv)) ∧
    (∃ out, genBfsDist g S = .ok out ∧ genBfs g S = .ok (out.map (·.1)) ∧ ∀ p ∈ out, IsHopDist g S p.1 p.2) ∧
    (∀ inf, g.n ≤ inf → ∃ d, genBfsDistances g S inf = .ok d ∧ d.length = g.n ∧
      (∀ v k, IsHopDist g S v k → d[v]? = some k) ∧
      (∀ v, v < g.n → (d[v]? = some inf ↔ ¬ ReachFrom g S v))) := by
  obtain ⟨⟨o1, h1, h1'⟩, ⟨o2, h2, h2a, h2b⟩, h3⟩ := C04.c04 g S hg hS hnd
  refine ⟨⟨o1, ?_, h1'⟩, ⟨o2, ?_, ?_, h2b⟩, ?_⟩
  · rw [genBfs_eq, liftBR_id_ok]; exact h1
  · rw [genBfsDist_eq, liftBR_id_ok]; exact h2
  · rw [genBfs_eq, liftBR_id_ok]; exact h2a
  · intro inf hinf
    obtain ⟨d, hd, hd'⟩ := h3 inf hinf
    exact ⟨d, by rw [genBfsDistances_eq, liftBR_id_ok]; exact hd, hd'⟩

/-- `BfsPred::new(&g, S).shortest_path(is_target)`. -/
def genBfsShortestPath (g : Graph) (S : List Nat) (isT : Nat → Bool) : Res (Option (List Nat)) :=
  AlgoGen.BfsPred.new g S >>= fun s =>
    Except.map Prod.fst (AlgoGen.BfsPred.shortestPath g (GraafVerif.Bfs.fuelFor g S) s isT)

/-- `BfsPred::new(&g, S).cycles()`. -/
def genBfsCycles (g : Graph) (S : List Nat) : Res (List (List Nat)) :=
  AlgoGen.BfsPred.new g S >>= fun s => Except.map Prod.fst (AlgoGen.BfsPred.cycles g (GraafVerif.Bfs.fuelFor g S) s)

/-- **C05 (BFS half) on the regenerated definitions**: `predecessors()` is a shortest-path tree,
`shortest_path` meets its specification, every list `cycles()` returns is an elementary cycle
(non-empty source list: the generated definitions hand their single fuel to `search_by`). -/
theorem c05_generated (g : Graph) (hg : g.WF) (hn : 0 < g.n) (S : List Nat) (hS : ∀ s ∈ S, s < g.n)
    (hnd : S.Nodup) (hne : S ≠ []) :
    (∃ pred, genBfsPredecessors g S = .ok pred ∧ GraafVerif.Bfs.PredSpec g S pred) ∧
    (∀ isT, ∃ r, genBfsShortestPath g S isT = .ok r ∧ GraafVerif.Bfs.SPSpec g S isT r) ∧
    (∃ cs, genBfsCycles g S = .ok cs ∧ ∀ c ∈ cs, GraafVerif.Bfs.IsElemCycle g c) := by
  obtain ⟨pred, hp, hp'⟩ := C05.bfsPred_tree g hg hn S hS hnd
  obtain ⟨cs, hc, hc'⟩ := C05.bfs_cycles_elementary g hg hn S hS hnd
  refine ⟨⟨pred, ?_, hp'⟩, ?_, ⟨cs, ?_, hc'⟩⟩
  · rw [genBfsPredecessors_eq, liftBR_id_ok]; exact hp
  · intro isT
    obtain ⟨r, hr, hr'⟩ := C05.bfs_shortest_path g hg hn S hS hnd isT
    exact ⟨r, by unfold genBfsShortestPath; rw [BfsPred.new_shortestPath_eq g S isT hne, liftBR_id_ok]; exact hr, hr'⟩
  · unfold genBfsCycles; rw [BfsPred.new_cycles_eq g S hne, liftBR_id_ok]; exact hc

/-! ## DFS (C06) -/

/-- `Dfs::new(&g, S).collect()` (the iteration as the code does it today). -/
def genDfs (g : Graph) (S : List Nat) : Res (List Nat) :=
  AlgoGen.Dfs.new g S >>= fun s => Except.map Prod.fst (collect (AlgoGen.Dfs.next g) (GraafVerif.Dfs.fuel g) s)

theorem genDfs_eq (g : Graph) (S : List Nat) :
    genDfs g S = if (GraafVerif.Dfs.dfs g S).ending = .panic then .error (.fault .panic)
      else .ok (GraafVerif.Dfs.dfs g S).verts := by
  unfold genDfs
  rw [Dfs.new_eq]
  show Except.map Prod.fst (collect (AlgoGen.Dfs.next g) _ (Dfs.ofH _)) = _
  rw [dfs_collect_generic (·.1) Dfs.toH Dfs.ofH Dfs.toH_ofH _ g _ (Dfs.next_eq g), Dfs.toH_ofH]
  rfl

/-- **C06 (the fragment today's code satisfies) on the regenerated definitions**: the generated
iteration does not panic, yields no vertex twice and only reachable vertices, and every reachable
vertex when the hand-written run ends on an empty stack. -/
theorem c06_generated (g : Graph) (S : List Nat) (h : C06.Inputs g S) :
    ∃ out, genDfs g S = .ok out ∧ out.Nodup ∧ (∀ v ∈ out, ReachFrom g S v) ∧
      ((GraafVerif.Dfs.dfs g S).ending = .done → ∀ v, ReachFrom g S v → v ∈ out) := by
  obtain ⟨ht, _, _, _, _, hnd, hr, hc⟩ := C06.dfs_partial g S h
  refine ⟨(GraafVerif.Dfs.dfs g S).verts, ?_, hnd, hr, hc⟩
  rw [genDfs_eq, if_neg]
  intro hp
  rcases ht with h1 | h1 <;> rw [h1] at hp <;> cases hp

/-! ## `PredecessorTree` (C19) -/

theorem liftP_ok (r : PredTree.Res) (x : Option (List Nat)) : PredecessorTree.liftP r = .ok x ↔ r = .ret x := by
  cases r with
  | panic => simp [PredecessorTree.liftP]
  | ret y => simp [PredecessorTree.liftP]

/-- **C19 on the regenerated definitions**: termination (t1, t2) and soundness (b) of
`search_by`, and `search` = `search_by` with the equality predicate (c). -/
theorem c19_generated (self : AlgoGen.PredecessorTree) (s : Nat) (isT : Nat → Option Nat → Bool)
    (hwf : ∀ x ∈ self.pred, ∀ v, x = some v → v < self.pred.length) (hs : s < self.pred.length) :
    (∃ r, AlgoGen.PredecessorTree.searchBy (self.pred.length + 2) self s isT = .ok r) ∧
    (∀ fuel, self.pred.length + 2 ≤ fuel →
      AlgoGen.PredecessorTree.searchBy fuel self s isT = AlgoGen.PredecessorTree.searchBy (self.pred.length + 2) self s isT) ∧
    (∀ fuel p, AlgoGen.PredecessorTree.searchBy fuel self s isT = .ok (some p) →
      ∃ k, p = (List.range (k+1)).map (fun j => (PredTree.chain self.pred s j).getD 0) ∧
        (∃ x, PredTree.chain self.pred s k = some x ∧ PredTree.target self.pred isT x = true) ∧
        ∀ j, j < k → ∀ y, PredTree.chain self.pred s j = some y → PredTree.target self.pred isT y = false) ∧
    (∀ fuel t, AlgoGen.PredecessorTree.search fuel self s t =
      AlgoGen.PredecessorTree.searchBy fuel self s (fun v _ => v == t)) := by
  obtain ⟨⟨r, hr⟩, h2, _⟩ := C19.statement_holds self.pred s isT hwf hs
  refine ⟨⟨r, ?_⟩, ?_, ?_, ?_⟩
  · rw [PredecessorTree.searchBy_eq_searchBy, liftP_ok]; exact hr
  · intro fuel hf
    rw [PredecessorTree.searchBy_eq, PredecessorTree.searchBy_eq, h2 fuel hf]; rfl
  · intro fuel p hp
    rw [PredecessorTree.searchBy_eq, liftP_ok] at hp
    exact C19.searchBy_sound self.pred s isT fuel p hp
  · intro fuel t
    rw [PredecessorTree.search_eq, PredecessorTree.searchBy_eq]

/-! ## Dijkstra (C03, C05) -/

/-- `DijkstraDist::new(&g, S).collect()`. -/
def genDijkstraDist (g : WGraph) (inf : Int) (S : List Nat) : Res (List (Nat × Int)) :=
  AlgoGen.DijkstraDist.new g inf S >>= fun s =>
    Except.map Prod.fst (collect (AlgoGen.DijkstraDist.next g) (GraafVerif.Dijkstra.fuel g S) s)

/-- **C03 (soundness + exactness of the item sequence) on the regenerated definitions**, for a
sentinel above `(fuel + 1) * (largest weight)`. -/
theorem c03_generated (g : WGraph) (S : List Nat) (h : GraafVerif.Dijkstra.Hyp g S) (inf W : Int) (hW0 : 0 ≤ W)
    (hW : ∀ u, ∀ xw ∈ g.out u, xw.2 ≤ W) (hinf : ((GraafVerif.Dijkstra.fuel g S + 1 : Nat) : Int) * W < inf) :
    ∃ out, genDijkstraDist g inf S = .ok out ∧ (out.map (·.1)).Nodup ∧
      (∀ v, v ∈ out.map (·.1) ↔ WReachFrom g S v) ∧ (∀ p ∈ out, IsMinDist g S p.1 p.2) ∧
      (out.map (·.2)).Pairwise (· ≤ ·) := by
  obtain ⟨_, hnd, _⟩ := C03.dijkstra_sound g S h
  obtain ⟨h1, h2, h3⟩ := C03.dijkstra_exact g S h
  exact ⟨_, DijkstraDist.new_collect_eq g S h inf W hW0 hW hinf, hnd, h1, h2, h3⟩

/-! ## Bellman-Ford-Moore (C07) -/

/-- **C07 (exactness of `Some(d)`) on the regenerated definitions**: for a well-formed digraph
with weights in `[-W, W]` and a sentinel above `((order - 1) * #arcs + 1) * W`, when the generated
`new` + `distances` returns `Some(v)`, `v` is the encoding of an exact distance vector; and it
panics exactly for an out-of-range source. -/
theorem c07_generated (g : WGraph) (inf W : Int) (s : Nat) (hwf : g.WF) (hW0 : 0 ≤ W)
    (hw : ∀ u, ∀ vw ∈ g.out u, -W ≤ vw.2 ∧ vw.2 ≤ W)
    (hinf : ((g.n - 1 : Nat) : Int) * ((GraafVerif.Bfm.arcsOf g).length * W) + W < inf) (hinf0 : 0 < inf) :
    (∀ v, (AlgoGen.BellmanFordMoore.new g inf s >>= fun b =>
        Except.map Prod.fst (AlgoGen.BellmanFordMoore.distances g inf b)) = .ok (some v) →
      ∃ d, v = encD inf d ∧ GraafVerif.Bfm.Exact g s d) ∧
    ((AlgoGen.BellmanFordMoore.new g inf s >>= fun b =>
        Except.map Prod.fst (AlgoGen.BellmanFordMoore.distances g inf b)) = .error (.fault .panic) ↔ ¬ s < g.n) := by
  rw [BellmanFordMoore.new_distances_eq_of_bound g inf W s hwf hW0 hw hinf hinf0]
  refine ⟨?_, ?_⟩
  · intro v hv
    cases hd : GraafVerif.Bfm.distances g s with
    | panic => rw [hd] at hv; cases hv
    | ret r =>
      rw [hd] at hv
      cases r with
      | none => simp at hv
      | some d =>
        simp only [Option.map_some, Except.ok.injEq, Option.some.injEq] at hv
        exact ⟨d, hv.symm, C07.bfm_some_exact g hwf s d hd⟩
  · rw [← C07.bfm_panic_iff]
    cases GraafVerif.Bfm.distances g s with
    | panic => simp
    | ret r => simp

/-! ## Memory safety of the traversals (C13) as a corollary of the unconditional equalities

The hand-written models of `Model/Bfs.lean`, `Model/Dfs.lean`, `Model/PredTree.lean` have no `ub`
outcome; a generated definition that is equal to the lifted hand-written function for EVERY state
and argument therefore never reaches an unchecked access whose precondition is false. -/

/-- the call does not end in `ub` (at any site) -/
def NoUB {α : Type} (r : Res α) : Prop := ∀ site, r ≠ .error (.fault (.ub site))

theorem noUB_liftBR {α σ : Type} (f : α → σ) (r : GraafVerif.Bfs.Res α) : NoUB (liftBR f r) := by
  intro site h; cases r <;> cases h
theorem noUB_liftStep {L ι S : Type} (item : Nat × L → ι) (ofH : GraafVerif.Bfs.St L → S) (s0 : S)
    (r : GraafVerif.Bfs.Step L) : NoUB (liftStep item ofH s0 r) := by
  intro site h; cases r <;> cases h
theorem noUB_liftNext {α ι S : Type} (item : Nat × α → ι) (ofH : GraafVerif.Dfs.St α → S) (s0 : S)
    (r : GraafVerif.Dfs.Next α) : NoUB (liftNext item ofH s0 r) := by
  intro site h; cases r <;> cases h
theorem noUB_liftP (r : PredTree.Res) : NoUB (PredecessorTree.liftP r) := by
  intro site h; cases r <;> cases h

/-- **C13 for the nine traversal entry points `new` / `next` of BFS and DFS and for
`PredecessorTree::{search_by, search}` on the regenerated definitions**: for EVERY digraph, source
list, state, start vertex, predicate and fuel no `*ptr.add(i)` is reached with `i` out of range. -/
theorem traversals_noUB (g : Graph) (S : List Nat) :
    NoUB (AlgoGen.Bfs.new g S) ∧ NoUB (AlgoGen.BfsDist.new g S) ∧ NoUB (AlgoGen.BfsPred.new g S) ∧
    (∀ s, NoUB (AlgoGen.Bfs.next g s)) ∧ (∀ s, NoUB (AlgoGen.BfsDist.next g s)) ∧ (∀ s, NoUB (AlgoGen.BfsPred.next g s)) ∧
    NoUB (AlgoGen.Dfs.new g S) ∧ NoUB (AlgoGen.DfsDist.new g S) ∧ NoUB (AlgoGen.DfsPred.new g S) ∧
    (∀ s, NoUB (AlgoGen.Dfs.next g s)) ∧ (∀ s, NoUB (AlgoGen.DfsDist.next g s)) ∧ (∀ s, NoUB (AlgoGen.DfsPred.next g s)) ∧
    (∀ fuel t s isT, NoUB (AlgoGen.PredecessorTree.searchBy fuel t s isT)) ∧
    (∀ fuel t s x, NoUB (AlgoGen.PredecessorTree.search fuel t s x)) := by
  refine ⟨?_, ?_, ?_, ?_, ?_, ?_, ?_, ?_, ?_, ?_, ?_, ?_, ?_, ?_⟩
  · rw [Bfs.new_eq]; exact noUB_liftBR _ _
  · rw [BfsDist.new_eq]; exact noUB_liftBR _ _
  · rw [BfsPred.new_eq]; exact noUB_liftBR _ _
  · intro s; rw [Bfs.next_eq]; exact noUB_liftStep _ _ _ _
  · intro s; rw [BfsDist.next_eq]; exact noUB_liftStep _ _ _ _
  · intro s; rw [BfsPred.next_eq]; exact noUB_liftStep _ _ _ _
  · rw [Dfs.new_eq]; intro site h; cases h
  · rw [DfsDist.new_eq]; intro site h; cases h
  · rw [DfsPred.new_eq]; intro site h; cases h
  · intro s; rw [Dfs.next_eq]; exact noUB_liftNext _ _ _ _
  · intro s; rw [DfsDist.next_eq]; exact noUB_liftNext _ _ _ _
  · intro s; rw [DfsPred.next_eq]; exact noUB_liftNext _ _ _ _
  · intro fuel t s isT; rw [PredecessorTree.searchBy_eq]; exact noUB_liftP _
  · intro fuel t s x; rw [PredecessorTree.search_eq]; exact noUB_liftP _

/-! ## Non-vacuity: the generated definitions compute (closed terms evaluate by `decide`) -/

example : genBfsDist GraafVerif.Bfs.g0 [3, 7] = .ok [(3,0),(7,0),(0,1),(6,1),(1,2),(5,2),(2,3),(4,3)] := by decide
example : genBfs GraafVerif.Bfs.g0 [8] = .error (.fault .panic) := by decide
example : genBfsShortestPath GraafVerif.Bfs.g0 [3, 7] (fun v => v == 2) = .ok (some [3, 0, 1, 2]) := by decide
example : genBfsPredecessors GraafVerif.Bfs.g0 [3, 7] = .ok [some 3, some 0, some 1, none, some 1, some 6, some 7, none] := by
  decide
/-- the early stop of today's DFS (C06 witness): vertex 1 is lost -/
example : genDfs C06.witness [0] = .ok [0, 3, 2] := by decide
example : AlgoGen.PredecessorTree.search 6 ⟨[some 1, some 2, some 3, none]⟩ 0 3 = .ok (some [0, 1, 2, 3]) := by decide
example : AlgoGen.PredecessorTree.search 4 ⟨[some 1, none]⟩ 2 1 = .error (.fault .panic) := by decide
/-- an out-of-range `visited` access is the distinct `ub` outcome: a state no public call builds -/
example : AlgoGen.BfsDist.distances GraafVerif.Bfs.g0 0 1 ⟨[(9, 0)], List.replicate 10 false⟩ =
    .error (.fault (.ub "bfs_dist.rs:distances:ptr.add(u)")) := by decide

end GraafVerif.AlgoGenThm
