import GraafVerif.Proof.ChkTraversal
import GraafVerif.Proof.ChkDerived
import GraafVerif.Proof.ChkMatrix
import GraafVerif.Proof.ChkPredTree
import GraafVerif.Proof.ChkReprB
import GraafVerif.Proof.ChkReprC
import GraafVerif.Proof.ChkUnionLinear
import GraafVerif.Proof.ChkFindPartition
import GraafVerif.Proof.ChkAlgo
import GraafVerif.Proof.ChkJohnson
/-!
# C13 — the safe API is memory-safe and leak-free for every argument  (claim level: PARTIAL)

A theorem cannot observe an allocator.  What is decided here is the logic memory safety of this
code reduces to: every index the code passes to an unchecked access (`ptr.add(i)`,
`get_unchecked(i)`) is in bounds **for every argument**, every `unwrap_unchecked` is on a `Some`,
every `ptr::read` out of a `ManuallyDrop` vector happens exactly once per element, `set_len(n)` is
followed by exactly `n` writes.  The models are the `Chk` models of `Model/Chk*.lean`
(`rd`/`wr`/`chkIdx`/`chkSome` yield `.error (.ub site)` when the precondition is false);
`NoUB x` = `x` is not such an error.  Heap growth, use-after-free through `std`, data races and
the faithfulness of the models are exercised by the tie only (ASan / counting allocator / Miri
runs of the real code, site inventory), see docs/C13.md.
-/
namespace GraafVerif.C13
open GraafVerif.Chk

/-- States an iterator can be in: produced by `new`, then any number of `next` calls. -/
inductive Reachable {σ ι : Type} (new : Chk σ) (next : σ → Chk (Option ι × σ)) : σ → Prop
  | init {st} : new = .ok st → Reachable new next st
  | step {st o st'} : Reachable new next st → next st = .ok (o, st') → Reachable new next st'

/-- An iterator (constructor + `next`) never reaches a violated unchecked access, whatever the
digraph view, the sources and the number of `next` calls. -/
def IterSafe {σ ι : Type} (new : Chk σ) (next : σ → Chk (Option ι × σ)) : Prop :=
  NoUB new ∧ ∀ st, Reachable new next st → NoUB (next st)

/-! ## P0: the nine traversal constructors and `next`

`g.out` is an arbitrary function: successors may be any numbers (as in a non-contiguous
`AdjacencyMap`), `g.out u = none` models the panic of `out_neighbors(u)`; `sources` is any list. -/

theorem bfs_noUB (g : CGraph) (sources : List Nat) : IterSafe (bfsNew g.order sources) (bfsNext g) := by
  unfold bfsNew bfsNext
  exact ⟨(bfsNewG_spec _ id id (fun _ => rfl) _ _).1, fun st _ => (bfsNextG_spec _ id _ (fun _ _ => rfl) g st).1⟩

theorem bfsDist_noUB (g : CGraph) (sources : List Nat) : IterSafe (bfsDistNew g.order sources) (bfsDistNext g) := by
  unfold bfsDistNew bfsDistNext
  exact ⟨(bfsNewG_spec _ (·.1) _ (fun _ => rfl) _ _).1, fun st _ => (bfsNextG_spec _ (·.1) _ (fun _ _ => rfl) g st).1⟩

theorem bfsPred_noUB (g : CGraph) (sources : List Nat) : IterSafe (bfsPredNew g.order sources) (bfsPredNext g) := by
  unfold bfsPredNew bfsPredNext
  exact ⟨(bfsNewG_spec _ (·.2) _ (fun _ => rfl) _ _).1, fun st _ => (bfsNextG_spec _ (·.2) _ (fun _ _ => rfl) g st).1⟩

/-- The breadth-first `next` needs no invariant at all: it is safe in EVERY state. -/
theorem bfsNext_noUB_any (g : CGraph) (st : QSt Nat) : NoUB (bfsNext g st) := by
  unfold bfsNext
  exact (bfsNextG_spec _ id _ (fun _ _ => rfl) g st).1

theorem dfs_noUB (g : CGraph) (sources : List Nat) :
    IterSafe (pure (dfsNew g.order sources)) (dfsNext g) := by
  unfold dfsNew dfsNext
  exact ⟨noUB_pure _, fun st _ => (dfsNextG_spec _ id _ g st).1⟩

theorem dfsDist_noUB (g : CGraph) (sources : List Nat) :
    IterSafe (pure (dfsDistNew g.order sources)) (dfsDistNext g) := by
  unfold dfsDistNew dfsDistNext
  exact ⟨noUB_pure _, fun st _ => (dfsNextG_spec _ (·.1) _ g st).1⟩

theorem dfsPred_noUB (g : CGraph) (sources : List Nat) :
    IterSafe (pure (dfsPredNew g.order sources)) (dfsPredNext g) := by
  unfold dfsPredNew dfsPredNext
  exact ⟨noUB_pure _, fun st _ => (dfsNextG_spec _ (·.2) _ g st).1⟩

/-- Dijkstra's `next` reads `dist[u]` for a popped `u` WITHOUT a check: safe because every heap
entry was checked when it was pushed (`HInv`), which `new` establishes and `next` preserves. -/
theorem dij_iterSafe {ι : Type} (site₁ site₂ : String) (better : ι → ι → Bool) (key vtx : ι → Nat) (mk0 : Nat → ι)
    (mk : ι → Nat → Nat → ι) (h0 : ∀ u, vtx (mk0 u) = u) (hmk : ∀ it v w, vtx (mk it v w) = v)
    (g : WCGraph) (sources : List Nat) :
    IterSafe (dijNewG site₁ mk0 g.order sources) (dijNextG site₂ better key vtx mk g) := by
  refine ⟨(dijNewG_spec site₁ vtx mk0 h0 _ _).1, ?_⟩
  have inv : ∀ st, Reachable (dijNewG site₁ mk0 g.order sources) (dijNextG site₂ better key vtx mk g) st →
      HInv vtx g.order st := by
    intro st hr
    induction hr with
    | init h => exact (dijNewG_spec site₁ vtx mk0 h0 _ _).2 _ h
    | step _ hn ih => exact ((dijNextG_spec site₂ better key vtx mk hmk g _ _ ih).2 _ _ hn).1
  intro st hr
  exact (dijNextG_spec site₂ better key vtx mk hmk g _ st (inv st hr)).1

theorem dijkstra_noUB (g : WCGraph) (sources : List Nat) : IterSafe (dijkstraNew g.order sources) (dijkstraNext g) := by
  unfold dijkstraNew dijkstraNext
  exact dij_iterSafe (ι := Nat × Nat) _ _ _ _ (·.2) _ _ (fun _ => rfl) (fun _ _ _ => rfl) g sources

theorem dijkstraDist_noUB (g : WCGraph) (sources : List Nat) :
    IterSafe (dijkstraDistNew g.order sources) (dijkstraDistNext g) := by
  unfold dijkstraDistNew dijkstraDistNext
  exact dij_iterSafe (ι := Nat × Nat) _ _ _ _ (·.2) _ _ (fun _ => rfl) (fun _ _ _ => rfl) g sources

theorem dijkstraPred_noUB (g : WCGraph) (sources : List Nat) :
    IterSafe (dijkstraPredNew g.order sources) (dijkstraPredNext g) := by
  unfold dijkstraPredNew dijkstraPredNext
  exact dij_iterSafe (ι := Nat × Option Nat × Nat) _ _ _ _ (·.2.2) _ _ (fun _ => rfl) (fun _ _ _ => rfl) g sources

/-! ### Non-vacuity and the defect on the model side

A digraph whose successor exceeds the order (`V = {0, 5}`, arc `0 → 5`, order 2): the repaired
code panics, it does not return and it does not reach UB; an out-of-range source likewise.
The code as pinned reaches `ub` on `Bfs::new(&empty(3), once(1000))`. -/

def gNonContiguous : CGraph := ⟨2, fun u => if u == 0 then some [5] else if u == 5 then some [] else none⟩

example : (bfsNew 2 [0] >>= bfsNext gNonContiguous) = .error .panic := by decide
example : bfsNew 3 [1000] = .error .panic := by decide
example : bfsNewPinned 3 [1000] = .error (.ub "bfs.rs:new:*visited_ptr.add(u) (pinned)") := by decide
example : (bfsNew 3 [0, 2]).toOption.map (·.queue) = some [0, 2] := by decide
example : dfsNext gNonContiguous (dfsNew 2 [0]) = .error .panic := by decide   -- successor 5 ≥ order 2
example : dfsNext gNonContiguous (dfsNew 2 [5]) = .error .panic := by decide   -- source 5 ≥ order 2
example : (dfsNext gNonContiguous (dfsNew 2 [1])) = .error .panic := by decide -- 1 < order, not a vertex

/-! ## P0: `PredecessorTree::search_by` for EVERY predecessor vector

After the fix the function has no unchecked access; its `Chk` transcription never reaches UB and
agrees with the functional model of C19 (`f_ok` form).  The pinned code reaches `ub` on the
witness `pred = [Some(7), None]`, `search(0, 1)`. -/

theorem searchBy_noUB (pred : PredTree.Pred) (s : Nat) (isT : Nat → Option Nat → Bool) :
    NoUB (searchByChk pred s isT) := searchByChk_noUB pred s isT

theorem searchBy_ok (pred : PredTree.Pred) (s : Nat) (isT : Nat → Option Nat → Bool) :
    searchByChk pred s isT = liftRes (PredTree.searchBy pred s isT) := searchByChk_eq pred s isT

example : searchByChk [some 7, none] 0 (fun v _ => v == 1) = .ok none := by decide
example : searchByPinned [some 7, none] 0 (fun v _ => v == 1)
    = .error (.ub "predecessor_tree.rs:search_by:visited_ptr.add(v) (pinned)") := by decide
example : searchByChk [some 1, none] 2 (fun v _ => v == 1) = .error .panic := by decide

/-! ## P0: `AdjacencyMatrix::{empty, add_arc, toggle, has_arc, remove_arc}` index arithmetic

`MxInv m`: `0 < order`, `order² < 2^64`, `blocks.len() = ceil(order²/64)`.  `empty` establishes it
for every `order` (or panics: zero / `checked_mul` overflow); every operation keeps it; under it
`i >> 6 < blocks.len()` for all `u, v < order`, and what is not `< order` is rejected by an assert
(`add_arc`, `toggle`) or answered `false` (`has_arc`, `remove_arc`) before any index is formed. -/

theorem mxEmpty_noUB (order : Nat) : NoUB (mxEmpty order) ∧ ∀ m, mxEmpty order = .ok m → MxInv m ∧ m.order = order :=
  mxEmpty_spec order

theorem mxAddArc_noUB (m : Mx) (h : MxInv m) (u v : Nat) :
    NoUB (mxAddArc m u v) ∧ ∀ m', mxAddArc m u v = .ok m' → MxInv m' := mxUpdate_spec _ _ m h u v

theorem mxToggle_noUB (m : Mx) (h : MxInv m) (u v : Nat) :
    NoUB (mxToggle m u v) ∧ ∀ m', mxToggle m u v = .ok m' → MxInv m' := mxUpdate_spec _ _ m h u v

theorem mxHasArc_never_fails (m : Mx) (h : MxInv m) (u v : Nat) : ∃ b, mxHasArc m u v = .ok b :=
  mxHasArc_total m h u v

theorem mxRemoveArc_never_fails (m : Mx) (h : MxInv m) (u v : Nat) :
    ∃ b m', mxRemoveArc m u v = .ok (b, m') ∧ MxInv m' := mxRemoveArc_total m h u v

theorem mxArcsIterator_noUB (m : Mx) (fuel : Nat) (it : MxIt) : NoUB (mxArcsNext m fuel it) :=
  mxArcsNext_noUB m fuel it

/-- `empty(2^32)`: the repaired code panics; the pinned code (release profile: the product wraps
to 0) returns a matrix with no blocks, and `add_arc(0, 1)` then writes out of bounds. -/
example : mxEmpty (2 ^ 32) = .error .panic := by decide
example : (mxEmptyPinned (2 ^ 32) >>= fun m => mxAddArc m 0 1)
    = .error (.ub "adjacency_matrix/mod.rs:add_arc:get_unchecked_mut(i >> 6)") := by decide
example : ((mxEmpty 9 >>= fun m => mxAddArc m 8 7) >>= fun m => mxHasArc m 8 7) = .ok true := by decide
example : (mxEmpty 9 >>= fun m => mxAddArc m 8 9) = .error .panic := by decide

/-! ## P1: the derived entry points of the traversals (for every digraph view, source list, fuel) -/

theorem bfsDist_distances_noUB (g : CGraph) (sources : List Nat) (fuel : Nat) :
    NoUB (bfsDistNew g.order sources >>= bfsDistDistances g fuel) := bfsDistDistances_noUB g sources fuel
theorem bfsPred_predecessors_noUB (g : CGraph) (sources : List Nat) (fuel : Nat) :
    NoUB (bfsPredNew g.order sources >>= bfsPredPredecessors g fuel) := bfsPredPredecessors_noUB g sources fuel
theorem bfsPred_shortestPath_noUB (g : CGraph) (sources : List Nat) (isT : Nat → Bool) (fuel : Nat) :
    NoUB (bfsPredNew g.order sources >>= bfsPredShortestPath g isT fuel) := bfsPredShortestPath_noUB g sources isT fuel
theorem bfsPred_cycles_noUB (g : CGraph) (sources : List Nat) (fuel : Nat) :
    NoUB (bfsPredNew g.order sources >>= bfsPredCycles g fuel) := bfsPredCycles_noUB g sources fuel
theorem dfsPred_predecessors_noUB (g : CGraph) (sources : List Nat) (fuel : Nat) :
    NoUB (dfsPredPredecessors g fuel (dfsPredNew g.order sources)) := dfsPredPredecessors_noUB g sources fuel
theorem dijkstraDist_distances_noUB (g : WCGraph) (sources : List Nat) (fuel : Nat) :
    NoUB (dijkstraDistNew g.order sources >>= dijkstraDistDistances g fuel) := dijkstraDistDistances_noUB g sources fuel
theorem dijkstraPred_predecessors_noUB (g : WCGraph) (sources : List Nat) (fuel : Nat) :
    NoUB (dijkstraPredNew g.order sources >>= dijkstraPredPredecessors g fuel) := dijkstraPredPredecessors_noUB g sources fuel
theorem dijkstraPred_shortestPath_noUB (g : WCGraph) (sources : List Nat) (isT : Nat → Bool) (fuel : Nat) :
    NoUB (dijkstraPredNew g.order sources >>= dijkstraPredShortestPath g isT fuel) :=
  dijkstraPredShortestPath_noUB g sources isT fuel

/-! ## P1: `DistanceMatrix::new` — `set_len(n)` is followed by exactly `n` writes -/

theorem distanceMatrixNew_noUB (order inf : Nat) :
    NoUB (dmNew order inf) ∧
    ∀ r, dmNew order inf = .ok r → r.length = order * order ∧ ∀ j, j < order * order → r[j]? = some (some inf) :=
  dmNew_spec order inf

example : dmNew 2 7 = .ok [some 7, some 7, some 7, some 7] := by decide
example : dmNew (2 ^ 32) 7 = .error .panic := by decide

/-! ## P1: `AdjacencyList` — accesses indexed by a loop variable (arbitrary rows, every thread count) -/

theorem adjList_addArc_noUB (rows : Rows) (u v : Nat) : NoUB (alAddArc rows u v) := alAddArc_noUB rows u v
theorem adjList_outNeighbors_noUB (rows : Rows) (u : Nat) : NoUB (alOutNeighbors rows u) := alOutNeighbors_noUB rows u
theorem adjList_arcsIterator_noUB (rows : Rows) (fuel : Nat) (it : AlArcsIt) : NoUB (alArcsNext rows fuel it) :=
  alArcsNext_noUB rows fuel it
theorem adjList_inNeighborsIterator_noUB (rows : Rows) (v fuel i : Nat) : NoUB (alInNeighborsNext rows v fuel i) :=
  alInNeighborsNext_noUB rows v fuel i
theorem hasWalk_noUB (site : String) (hasArc : Nat → Nat → Bool) (walk : List Nat) : NoUB (hasWalkPtr site hasArc walk) :=
  hasWalkPtr_noUB site hasArc walk
theorem adjList_isTournament_noUB (rows : Rows) : NoUB (alIsTournament rows) := alIsTournament_noUB rows
theorem adjList_isSemicomplete_noUB (rows : Rows) (t : Nat) : NoUB (alIsSemicomplete rows t) := alIsSemicomplete_noUB rows t
theorem adjList_randomTournament_noUB (order : Nat) (coin : Nat → Nat → Bool) : NoUB (alRandomTournament order coin) :=
  alRandomTournament_noUB order coin
theorem mergeTwoSorted_noUB' (site : String) (lhs rhs : List Nat) : NoUB (mergeTwoSorted site lhs rhs) :=
  mergeTwoSorted_noUB site lhs rhs
theorem adjList_union_noUB (a b : Rows) (t : Nat) : NoUB (alUnion a b t) := alUnion_noUB a b t
theorem adjList_complement_noUB (rows : Rows) (t : Nat) : NoUB (alComplement rows t) := alComplement_noUB rows t

/-- The worker ranges tile `0..n` for every thread count: `union` writes every slot exactly once,
`complement` produces every row exactly once (no slot twice, none missing, none outside). -/
theorem chunks_tile (n t : Nat) (ht : 0 < t) (hn : 0 < n) : expandRanges (threadRanges n t) = List.range n :=
  GraafVerif.Chk.chunks_tile n t ht hn
theorem steps_tile (n chunk : Nat) (hc : 0 < chunk) : expandRanges (stepRanges n chunk) = List.range n :=
  GraafVerif.Chk.steps_tile n chunk hc

/-! ## P1: `AdjacencyList` — accesses indexed by a SUCCESSOR, under the representation invariant -/

theorem adjList_converse_noUB (rows : Rows) (h : RowsWF rows) : NoUB (alConverse rows) := alConverse_noUB rows h
theorem adjList_indegreeSequence_noUB (rows : Rows) (h : RowsWF rows) : NoUB (alIndegreeSequence rows) :=
  alIndegreeSequence_noUB rows h
theorem adjList_degreeSequence_noUB (rows : Rows) (h : RowsWF rows) (t : Nat) : NoUB (alDegreeSequence rows t) :=
  alDegreeSequence_noUB rows h t

example : RowsWF [[1], [0, 2], []] := by unfold RowsWF; decide
example : alConverse [[1], [0, 2], []] = .ok [[1], [0], [1]] := by decide
/-- without the invariant the model does reach UB: the hypothesis is not decoration -/
example : alConverse [[5], []] = .error (.ub "adjacency_list/mod.rs:converse:conv_ptr.add(v)") := by decide

/-! ## P1: `AdjacencyMap` -/

theorem adjMap_outNeighbors_noUB (m : List (Nat × List Nat)) (u : Nat) : NoUB (amOutNeighbors m u) := amOutNeighbors_noUB m u
theorem adjMap_randomTournament_noUB (order t : Nat) (coin : Nat → Nat → Bool) : NoUB (amRandomTournament order t coin) :=
  amRandomTournament_noUB order t coin
theorem findPartition_noUB (r : Nat) (lhs rhs : List Nat) :
    NoUB (findPartition r lhs rhs) ∧
    ∀ res, findPartition r lhs rhs = .ok res → r ≤ lhs.length + rhs.length →
      res.1 ≤ lhs.length ∧ res.2 ≤ rhs.length ∧ res.1 + res.2 = r := findPartition_spec r lhs rhs
/-- spatial safety of `AdjacencyMap::union` for ARBITRARY key vectors and every thread count -/
theorem adjMap_union_noUB (lhs rhs : List Nat) (t : Nat) : NoUB (amUnionReads lhs rhs t) := amUnionReads_noUB lhs rhs t
/-- linearity of the `ptr::read`s from monotone boundaries (`mapUnion_linear`) -/
theorem mapUnion_linear (lhs rhs : List Nat) (bs : List (Nat × Nat)) (t : Nat)
    (hok : BoundariesOK bs lhs.length rhs.length t) :
    amUnionWorkers lhs rhs bs t = .ok (List.range lhs.length, List.range rhs.length) :=
  amUnionWorkers_linear lhs rhs bs t hok

/-- `find_partition` is a merge-path search: for strictly ascending key vectors (what iterating a
`BTreeMap` yields) its boundaries are monotone and span `(0,0) … (n1,n2)`. -/
theorem findPartition_monotone (lhs rhs : List Nat) (t : Nat) (bs : List (Nat × Nat)) (hl : lhs.Pairwise (· < ·))
    (hr : rhs.Pairwise (· < ·)) (ht : 0 < t) (h : amBoundaries lhs rhs t = .ok bs) :
    BoundariesOK bs lhs.length rhs.length t := amBoundaries_ok lhs rhs t bs hl hr ht h
/-- Hence, for every two maps and EVERY thread count, `union` moves every entry of `lhs_vec` and of
`rhs_vec` out exactly once: the `set_len(0)` that follows neither leaks nor double frees. -/
theorem mapUnion_linear_sorted (lhs rhs : List Nat) (t : Nat) (hl : lhs.Pairwise (· < ·)) (hr : rhs.Pairwise (· < ·))
    (ht : 0 < t) : amUnionReads lhs rhs t = .ok (List.range lhs.length, List.range rhs.length) :=
  amUnionReads_linear lhs rhs t hl hr ht

example : amUnionReads [0, 1, 2, 3, 4] [0, 1, 2, 3, 4, 5, 6] 16 = .ok (List.range 5, List.range 7) := by decide
example : amUnionReads [0, 5] [2, 5, 9] 3 = .ok ([0, 1], [0, 1, 2]) := by decide

/-! ## P1: `BellmanFordMoore`, `FloydWarshall`, `Xoshiro256StarStar` -/

theorem bellmanFordMoore_noUB (order s : Nat) (arcs : List (Nat × Nat × Int)) (h : ArcsWF order arcs) :
    NoUB (bfmNew order s >>= bfmDistances order arcs) := bfm_noUB order s arcs h
theorem floydWarshall_noUB (order : Nat) (arcs : List (Nat × Nat × Int)) (h : ArcsWF order arcs) (dist : List Int)
    (hd : dist.length = order * order) : NoUB (fwDistances order arcs dist) := fwDistances_noUB order arcs h dist hd
theorem xoshiro_noUB (state : List Nat) (h : state.length = 4) : NoUB (xoshiroTouch state) := xoshiroTouch_noUB state h

example : (bfmNew 3 0 >>= bfmDistances 3 [(0, 1, 4), (1, 2, -2), (0, 2, 5)]) = .ok (some [0, 4, 2]) := by decide
example : bfmNew 3 3 = .error .panic := by decide

/-! ## P1: `Johnson75` — every index into the B-lists is a vertex below `b.len()` -/

/-- For every vertex set (the assert rejects the non-contiguous ones), every sequence of components
of it (vertex lists closed under their own `out_neighbors`) and every fuel. -/
theorem johnson75_noUB (order : Nat) (verts : List Nat) (comps : List JComp) (uf cf : Nat)
    (hc : ∀ c ∈ comps, JCompOK verts c) : NoUB (jCircuits order verts comps uf cf) :=
  jCircuits_noUB order verts comps uf cf hc

def twoCycle : JComp := ⟨[0, 1], fun u => if u == 0 then some [1] else if u == 1 then some [0] else none, 0⟩
example : jCircuits 2 [0, 1] [twoCycle] 10 10 = .ok [[0, 1]] := by decide
example : jCircuits 2 [0, 5] [] 10 10 = .error .panic := by decide   -- V = {0,5}: "vertices aren't contiguous"

/-! ## The full statement and what of it is proved

`Statement` is the logical core of C13 as far as a theorem can express it; the runtime half
(no heap growth, no use-after-free through `std`, no data race, faithfulness of the models) is
NOT a theorem: see `props/C13.json` (`open_statements`) and docs/C13.md. -/

/-- Every modelled entry point, for every argument, never reaches a violated unchecked access. -/
def Statement : Prop :=
  -- traversals: constructors, `next` in every reachable state, derived entry points
  (∀ (g : CGraph) (src : List Nat),
      IterSafe (bfsNew g.order src) (bfsNext g) ∧ IterSafe (bfsDistNew g.order src) (bfsDistNext g) ∧
      IterSafe (bfsPredNew g.order src) (bfsPredNext g) ∧ IterSafe (pure (dfsNew g.order src)) (dfsNext g) ∧
      IterSafe (pure (dfsDistNew g.order src)) (dfsDistNext g) ∧ IterSafe (pure (dfsPredNew g.order src)) (dfsPredNext g)) ∧
  (∀ (g : WCGraph) (src : List Nat),
      IterSafe (dijkstraNew g.order src) (dijkstraNext g) ∧ IterSafe (dijkstraDistNew g.order src) (dijkstraDistNext g) ∧
      IterSafe (dijkstraPredNew g.order src) (dijkstraPredNext g)) ∧
  -- user-built predecessor trees
  (∀ pred s isT, NoUB (searchByChk pred s isT)) ∧
  -- the matrix: from `empty`, through any sequence of `add_arc` / `toggle`, for all arguments
  (∀ order, NoUB (mxEmpty order) ∧ ∀ m, mxEmpty order = .ok m → MxInv m) ∧
  (∀ m, MxInv m → ∀ u v, NoUB (mxAddArc m u v) ∧ NoUB (mxToggle m u v) ∧
      (∀ m', mxAddArc m u v = .ok m' → MxInv m') ∧ (∀ m', mxToggle m u v = .ok m' → MxInv m') ∧
      (∃ b, mxHasArc m u v = .ok b) ∧ ∃ b m', mxRemoveArc m u v = .ok (b, m') ∧ MxInv m') ∧
  -- allocation discipline
  (∀ order inf r, dmNew order inf = .ok r → ∀ j, j < order * order → r[j]? = some (some inf)) ∧
  (∀ lhs rhs bs t, BoundariesOK bs lhs.length rhs.length t →
      amUnionWorkers lhs rhs bs t = .ok (List.range lhs.length, List.range rhs.length)) ∧
  -- the boundaries `find_partition` computes for strictly ascending key vectors ARE monotone
  (∀ lhs rhs t bs, lhs.Pairwise (· < ·) → rhs.Pairwise (· < ·) → 0 < t → t ≤ lhs.length + rhs.length →
      amBoundaries lhs rhs t = .ok bs → BoundariesOK bs lhs.length rhs.length t)

/-- Everything of `Statement` except its last conjunct (kept as a lemma of `statement`). -/
theorem statement_partial :
    (∀ (g : CGraph) (src : List Nat),
      IterSafe (bfsNew g.order src) (bfsNext g) ∧ IterSafe (bfsDistNew g.order src) (bfsDistNext g) ∧
      IterSafe (bfsPredNew g.order src) (bfsPredNext g) ∧ IterSafe (pure (dfsNew g.order src)) (dfsNext g) ∧
      IterSafe (pure (dfsDistNew g.order src)) (dfsDistNext g) ∧ IterSafe (pure (dfsPredNew g.order src)) (dfsPredNext g)) ∧
    (∀ (g : WCGraph) (src : List Nat),
      IterSafe (dijkstraNew g.order src) (dijkstraNext g) ∧ IterSafe (dijkstraDistNew g.order src) (dijkstraDistNext g) ∧
      IterSafe (dijkstraPredNew g.order src) (dijkstraPredNext g)) ∧
    (∀ pred s isT, NoUB (searchByChk pred s isT)) ∧
    (∀ order, NoUB (mxEmpty order) ∧ ∀ m, mxEmpty order = .ok m → MxInv m) ∧
    (∀ m, MxInv m → ∀ u v, NoUB (mxAddArc m u v) ∧ NoUB (mxToggle m u v) ∧
      (∀ m', mxAddArc m u v = .ok m' → MxInv m') ∧ (∀ m', mxToggle m u v = .ok m' → MxInv m') ∧
      (∃ b, mxHasArc m u v = .ok b) ∧ ∃ b m', mxRemoveArc m u v = .ok (b, m') ∧ MxInv m') ∧
    (∀ order inf r, dmNew order inf = .ok r → ∀ j, j < order * order → r[j]? = some (some inf)) ∧
    (∀ lhs rhs bs t, BoundariesOK bs lhs.length rhs.length t →
      amUnionWorkers lhs rhs bs t = .ok (List.range lhs.length, List.range rhs.length)) :=
  ⟨fun g src => ⟨bfs_noUB g src, bfsDist_noUB g src, bfsPred_noUB g src, dfs_noUB g src, dfsDist_noUB g src, dfsPred_noUB g src⟩,
   fun g src => ⟨dijkstra_noUB g src, dijkstraDist_noUB g src, dijkstraPred_noUB g src⟩,
   searchBy_noUB,
   fun order => ⟨(mxEmpty_spec order).1, fun m h => ((mxEmpty_spec order).2 m h).1⟩,
   fun m h u v => ⟨(mxAddArc_noUB m h u v).1, (mxToggle_noUB m h u v).1, (mxAddArc_noUB m h u v).2, (mxToggle_noUB m h u v).2,
     mxHasArc_total m h u v, mxRemoveArc_total m h u v⟩,
   fun order inf r h => ((dmNew_spec order inf).2 r h).2,
   mapUnion_linear⟩

/-- The full `Statement`. -/
theorem statement : Statement := by
  obtain ⟨a, b, c, d, e, f, g⟩ := statement_partial
  exact ⟨a, b, c, d, e, f, g, fun lhs rhs t bs hl hr ht _ h => findPartition_monotone lhs rhs t bs hl hr ht h⟩

end GraafVerif.C13
