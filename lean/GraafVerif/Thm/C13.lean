/-! Property theorems for C13 (statements + proofs by reference to `Proof/`). Not built yet. -/
