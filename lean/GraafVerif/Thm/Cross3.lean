import GraafVerif.Proof.Cross3Models
/-!
# Cross3 — a third family of cross-algorithm theorems, between the MODELS

* `Bfs.predecessors g S`, `Dijkstra.predecessors g S` — models of `BfsPred::predecessors()` /
  `DijkstraPred::predecessors()` (C05);
* `PredTree.search pred v s`, `PredTree.searchBy pred v isT` — models of
  `PredecessorTree::search` / `search_by` (C19); `isRoot = |_, b| b.is_none()`;
* `Bfs.distances`, `Dijkstra.distances` — models of `BfsDist::distances()` /
  `DijkstraDist::distances()` (C04 / C03);
* `Dfs.dfs`, `Dfs.dfsFixed` — model of today's `Dfs` and of the corrected variant (C06);
  `Bfs.bfs` — model of `Bfs` (C04);
* `Bfm.distances g s` — model of `BellmanFordMoore::distances()` (C07); `Johnson.circuits`,
  `Tarjan.components (vgOf ·)` — C10, C09.

Only statements, proofs by reference (`Proof/Cross3.lean`, `Proof/Cross3Models.lean`) and
non-vacuity examples.  The property theorems of C03–C07, C19 and `Cross2` are used as black boxes.
-/
namespace GraafVerif.Cross3
open GraafVerif GraafVerif.PredTree

/-! ## 0. Rooted predecessor vectors (generic, from C19) -/

/-- An entry `None` makes the vertex its own root path. -/
theorem root_of_none (pred : Pred) (v : Nat) (h : pred[v]? = some none) :
    searchBy pred v isRoot = .ret (some [v]) := rootPath_of_none h

/-- If `search_by(v, is_none)` returns `p` on an in-range vector then the chain of predecessor
links from `v` is `p`: it ends after `k` steps in a root `r`, stops there, and repeats no vertex. -/
theorem root_path_shape (pred : Pred) (hr : InRange pred) (v : Nat) (hv : v < pred.length)
    (p : List Nat) (h : searchBy pred v isRoot = .ret (some p)) :
    ∃ k r, p = (List.range (k+1)).map (fun j => (chain pred v j).getD 0) ∧
      chain pred v k = some r ∧ pred[r]? = some none ∧ chain pred v (k + 1) = none ∧
      (∀ i j, i < j → j ≤ k → chain pred v i ≠ chain pred v j) ∧
      p.head? = some v ∧ p.getLast? = some r ∧ p.Nodup := by
  obtain ⟨k, r, hs⟩ := rootShape hr hv h
  exact ⟨k, r, hs.path, hs.last, hs.root, hs.stop, hs.distinct, hs.head, hs.getLast, hs.nodup⟩

/-- `search(v, r)` with the root as target returns the root path. -/
theorem search_to_root (pred : Pred) (hr : InRange pred) (v : Nat) (hv : v < pred.length)
    (p : List Nat) (k r : Nat) (hs : RootShape pred v p k r) : search pred v r = .ret (some p) :=
  search_root_eq hr hv hs

/-- For EVERY predicate, the search from a vertex with a root path returns `None` iff no vertex of
that path is a target: a `None` is never caused by the "already visited" `break`. -/
theorem search_none_iff_no_target (pred : Pred) (hr : InRange pred) (v : Nat) (hv : v < pred.length)
    (p : List Nat) (k r : Nat) (hs : RootShape pred v p k r) (isT : Nat → Option Nat → Bool) :
    searchBy pred v isT = .ret none ↔ ∀ x ∈ p, target pred isT x = false :=
  searchBy_none_iff hr hv hs isT

/-- … and a `Some` result is a prefix of the root path. -/
theorem search_some_prefix (pred : Pred) (hr : InRange pred) (v : Nat) (hv : v < pred.length)
    (p : List Nat) (k r : Nat) (hs : RootShape pred v p k r) (isT : Nat → Option Nat → Bool)
    (q : List Nat) (hq : searchBy pred v isT = .ret (some q)) : q <+: p :=
  searchBy_some_prefix hr hv hs isT hq

/-! ## 1. C05 ↔ C19 -/

/-- **Target 1 (BFS).**  `BfsPred::predecessors()` fed into `PredecessorTree::search(v, s)`: for
every vertex `v` at hop distance `d` there is a source `s` such that the search returns `d + 1`
distinct vertices from `v` to `s` whose reversal is a walk of `g` — a shortest path; it is the
path `search_by(v, is_none)` returns. -/
theorem bfs_tree_search_shortest (g : Graph) (hg : g.WF) (hn : 0 < g.n) (S : List Nat)
    (hS : ∀ s ∈ S, s < g.n) (hnd : S.Nodup) :
    ∃ pred, Bfs.predecessors g S = .ok pred ∧ pred.length = g.n ∧
      ∀ v d, IsHopDist g S v d → ∃ s ∈ S, ∃ p,
        search pred v s = .ret (some p) ∧ searchBy pred v isRoot = .ret (some p) ∧
        p.head? = some v ∧ p.getLast? = some s ∧ p.length = d + 1 ∧ IsWalk g p.reverse ∧ p.Nodup :=
  bfs_tree_search hg hn hS hnd

/-- **Target 1 (BFS), acyclicity.**  From EVERY vertex the predecessor chain reaches an entry
`None`, stops, and repeats no vertex; for every predicate `search_by` returns `None` only when no
vertex of that finite root path is a target, and otherwise a prefix of it. -/
theorem bfs_tree_is_acyclic (g : Graph) (hg : g.WF) (hn : 0 < g.n) (S : List Nat)
    (hS : ∀ s ∈ S, s < g.n) (hnd : S.Nodup) :
    ∃ pred, Bfs.predecessors g S = .ok pred ∧ ∀ v, v < g.n → ∃ p k r,
      searchBy pred v isRoot = .ret (some p) ∧ RootShape pred v p k r ∧
      (∀ isT, searchBy pred v isT = .ret none ↔ ∀ x ∈ p, target pred isT x = false) ∧
      (∀ isT q, searchBy pred v isT = .ret (some q) → q <+: p) :=
  bfs_tree_acyclic hg hn hS hnd

/-- **Target 1 + 2 (Dijkstra).**  `DijkstraPred::predecessors()` fed into `search(v, s)`: for every
reachable `v` the search returns distinct vertices from `v` to a source whose reversal is a
minimum-weight path, and its weight is `DijkstraDist::distances()[v]`. -/
theorem dijkstra_tree_search_shortest (g : WGraph) (S : List Nat) (h : Dijkstra.Hyp g S) :
    ∀ v, WReachFrom g S v → ∃ s ∈ S, ∃ p d,
      search (Dijkstra.predecessors g S) v s = .ret (some p) ∧
      searchBy (Dijkstra.predecessors g S) v isRoot = .ret (some p) ∧
      p.head? = some v ∧ p.getLast? = some s ∧ PathW g p.reverse d ∧ IsMinDist g S v d ∧ p.Nodup ∧
      (Dijkstra.distances g S)[v]? = some (some d) :=
  dijkstra_tree_search h

/-- **Target 1 (Dijkstra), acyclicity.** -/
theorem dijkstra_tree_is_acyclic (g : WGraph) (S : List Nat) (h : Dijkstra.Hyp g S) :
    ∀ v, v < g.n → ∃ p k r,
      searchBy (Dijkstra.predecessors g S) v isRoot = .ret (some p) ∧
      RootShape (Dijkstra.predecessors g S) v p k r ∧
      (∀ isT, searchBy (Dijkstra.predecessors g S) v isT = .ret none ↔
        ∀ x ∈ p, target (Dijkstra.predecessors g S) isT x = false) ∧
      (∀ isT q, searchBy (Dijkstra.predecessors g S) v isT = .ret (some q) → q <+: p) :=
  dijkstra_tree_acyclic h

/-- Both predecessor vectors are in range (C19's hypothesis holds for them). -/
theorem pred_vectors_inRange :
    (∀ (g : Graph) (S : List Nat), g.WF → 0 < g.n → (∀ s ∈ S, s < g.n) → S.Nodup →
      ∃ pred, Bfs.predecessors g S = .ok pred ∧ InRange pred) ∧
    (∀ (g : WGraph) (S : List Nat), Dijkstra.Hyp g S → InRange (Dijkstra.predecessors g S)) := by
  refine ⟨fun g S hg hn hS hnd => ?_, fun g S h => dijkstra_pred_inRange h⟩
  obtain ⟨pred, hp, hsp⟩ := C05.bfsPred_tree g hg hn S hS hnd
  exact ⟨pred, hp, bfs_pred_inRange hg hsp⟩

/-! ## 2. C05 ↔ C04 / C03 -/

/-- **Target 2 (BFS).**  For every reachable `v` the number of arcs of the tree path is
`BfsDist::distances()[v]` (and `< order`); `predecessors()[v] = None` exactly at the sources and
where `distances()` has its sentinel `inf` (= the unreachable vertices). -/
theorem bfs_tree_depth_is_distance (g : Graph) (hg : g.WF) (hn : 0 < g.n) (S : List Nat)
    (hS : ∀ s ∈ S, s < g.n) (hnd : S.Nodup) (inf : Nat) (hinf : g.n ≤ inf) :
    ∃ pred dvec, Bfs.predecessors g S = .ok pred ∧ Bfs.distances g S inf = .ok dvec ∧
      (∀ v, ReachFrom g S v → ∃ p, searchBy pred v isRoot = .ret (some p) ∧
        dvec[v]? = some (p.length - 1) ∧ p.length - 1 < g.n) ∧
      (∀ v, v < g.n → (pred[v]? = some none ↔ (v ∈ S ∨ dvec[v]? = some inf))) :=
  bfs_tree_depth_eq_dist hg hn hS hnd inf hinf

/-- **Target 2 (Dijkstra).**  `predecessors()[v] = None` exactly at the sources and where
`DijkstraDist::distances()` has its sentinel (the weight clause is in
`dijkstra_tree_search_shortest`). -/
theorem dijkstra_pred_none_iff_source_or_unreachable (g : WGraph) (S : List Nat) (h : Dijkstra.Hyp g S)
    (v : Nat) (hv : v < g.n) :
    (Dijkstra.predecessors g S)[v]? = some none ↔ (v ∈ S ∨ (Dijkstra.distances g S)[v]? = some none) :=
  dijkstra_pred_none_iff h hv

/-! ## 3. C06 ↔ C04 -/

/-- **Target 3.**  Unconditionally, everything today's DFS model yields is yielded by the BFS model
from the same sources (DFS ⊆ BFS).  If today's run pops no stale entry (`ending = .done`, the
hypothesis of `C06.dfs_statement_of_no_stale`) the DFS output is a permutation of the BFS output;
the corrected variant's output always is. -/
theorem dfs_subset_bfs (g : Graph) (S : List Nat) (h : C06.Inputs g S) :
    ∃ out, Bfs.bfs g S = .ok out ∧
      (∀ v ∈ (Dfs.dfs g S).verts, v ∈ out) ∧
      ((Dfs.dfs g S).ending = .done → (Dfs.dfs g S).verts.Perm out) ∧
      (Dfs.dfsFixed g S).verts.Perm out :=
  dfs_vs_bfs h

/-- The same for `DfsDist` / `DfsPred` (same vertex sequence as `Dfs`) and their corrected variants. -/
theorem dfs_variants_subset_bfs (g : Graph) (S : List Nat) (h : C06.Inputs g S) :
    ∃ out, Bfs.bfs g S = .ok out ∧
      (∀ v ∈ (Dfs.dfsDist g S).verts, v ∈ out) ∧ (∀ v ∈ (Dfs.dfsPred g S).verts, v ∈ out) ∧
      (Dfs.dfsDistFixed g S).verts.Perm out ∧ (Dfs.dfsPredFixed g S).verts.Perm out :=
  dfs_variants_vs_bfs h

/-! ## 4. C07 ↔ C09 / C10 -/

/-- **Target 4.**  `BellmanFordMoore::distances() = None` ⇒ some vertex `x` reachable from `s`
(yielded by the BFS model from `[s]` on the underlying digraph) lies on a circuit the Johnson model
returns and in a Tarjan component with at least two members. -/
theorem bfm_none_implies_circuit (g : WGraph) (hwf : g.WF) (s : Nat) (hs : s < g.n)
    (hloops : Johnson.NoLoops g.toGraph) (hrows : Johnson.RowsNodup g.toGraph)
    (hnone : Bfm.distances g s = .ret none) :
    ∃ x, x < g.n ∧ Reach g.toGraph s x ∧
      (∃ out, Bfs.bfs g.toGraph [s] = .ok out ∧ x ∈ out) ∧
      (∃ c ∈ Johnson.circuits g.toGraph, x ∈ c) ∧
      (∀ cs, Tarjan.components (Cross2.vgOf g.toGraph) = .ret cs →
        ∃ comp ∈ cs, x ∈ comp ∧ 2 ≤ comp.length) :=
  bfm_none_circuit hwf hs hloops hrows hnone

/-- Contrapositive: the Johnson model finds no circuit ⇒ the BFM model returns `Some` from every
source. -/
theorem johnson_empty_implies_bfm_some (g : WGraph) (hwf : g.WF) (s : Nat) (hs : s < g.n)
    (hloops : Johnson.NoLoops g.toGraph) (hrows : Johnson.RowsNodup g.toGraph)
    (hnil : Johnson.circuits g.toGraph = []) : ∃ d, Bfm.distances g s = .ret (some d) :=
  johnson_nil_bfm_some hwf hs hloops hrows hnil

/-! ## The clauses together -/

def Statement : Prop :=
  -- 1./2. BFS tree under search, depth = distance, None-set
  (∀ (g : Graph) (S : List Nat) (inf : Nat), g.WF → 0 < g.n → (∀ s ∈ S, s < g.n) → S.Nodup → g.n ≤ inf →
    ∃ pred dvec, Bfs.predecessors g S = .ok pred ∧ Bfs.distances g S inf = .ok dvec ∧
      (∀ v d, IsHopDist g S v d → ∃ s ∈ S, ∃ p,
        search pred v s = .ret (some p) ∧ searchBy pred v isRoot = .ret (some p) ∧
        p.head? = some v ∧ p.getLast? = some s ∧ p.length = d + 1 ∧ IsWalk g p.reverse ∧ p.Nodup ∧
        dvec[v]? = some (p.length - 1)) ∧
      (∀ v, v < g.n → ∃ p, searchBy pred v isRoot = .ret (some p) ∧
        ∀ isT, searchBy pred v isT = .ret none ↔ ∀ x ∈ p, target pred isT x = false) ∧
      (∀ v, v < g.n → (pred[v]? = some none ↔ (v ∈ S ∨ dvec[v]? = some inf)))) ∧
  -- 1./2. Dijkstra tree under search, weight = distance, None-set
  (∀ (g : WGraph) (S : List Nat), Dijkstra.Hyp g S →
    (∀ v, WReachFrom g S v → ∃ s ∈ S, ∃ p d,
      search (Dijkstra.predecessors g S) v s = .ret (some p) ∧
      p.head? = some v ∧ p.getLast? = some s ∧ PathW g p.reverse d ∧ IsMinDist g S v d ∧ p.Nodup ∧
      (Dijkstra.distances g S)[v]? = some (some d)) ∧
    (∀ v, v < g.n → ∃ p, searchBy (Dijkstra.predecessors g S) v isRoot = .ret (some p) ∧
      ∀ isT, searchBy (Dijkstra.predecessors g S) v isT = .ret none ↔
        ∀ x ∈ p, target (Dijkstra.predecessors g S) isT x = false) ∧
    (∀ v, v < g.n → ((Dijkstra.predecessors g S)[v]? = some none ↔
      (v ∈ S ∨ (Dijkstra.distances g S)[v]? = some none)))) ∧
  -- 3. DFS vs BFS
  (∀ (g : Graph) (S : List Nat), C06.Inputs g S → ∃ out, Bfs.bfs g S = .ok out ∧
    (∀ v ∈ (Dfs.dfs g S).verts, v ∈ out) ∧
    ((Dfs.dfs g S).ending = .done → (Dfs.dfs g S).verts.Perm out) ∧
    (Dfs.dfsFixed g S).verts.Perm out) ∧
  -- 4. BFM None ⇒ circuit
  (∀ (g : WGraph) (s : Nat), g.WF → s < g.n → Johnson.NoLoops g.toGraph → Johnson.RowsNodup g.toGraph →
    Bfm.distances g s = .ret none →
    ∃ x, x < g.n ∧ Reach g.toGraph s x ∧ (∃ c ∈ Johnson.circuits g.toGraph, x ∈ c) ∧
      (∀ cs, Tarjan.components (Cross2.vgOf g.toGraph) = .ret cs →
        ∃ comp ∈ cs, x ∈ comp ∧ 2 ≤ comp.length))

theorem statement : Statement := by
  refine ⟨?_, ?_, fun g S h => dfs_vs_bfs h, ?_⟩
  · intro g S inf hg hn hS hnd hinf
    obtain ⟨pred, hp, _, hsearch⟩ := bfs_tree_search hg hn hS hnd
    obtain ⟨pred', hp', hacyc⟩ := bfs_tree_acyclic hg hn hS hnd
    obtain ⟨pred'', dvec, hp'', hd, hdepth, hnone⟩ := bfs_tree_depth_eq_dist hg hn hS hnd inf hinf
    rw [hp] at hp' hp''
    injection hp' with e1; injection hp'' with e2
    subst e1; subst e2
    refine ⟨pred, dvec, hp, hd, ?_, ?_, hnone⟩
    · intro v d hvd
      obtain ⟨s, hs, p, h1, h2, h3, h4, h5, h6, h7⟩ := hsearch v d hvd
      obtain ⟨p', hp1, hp2, _⟩ := hdepth v (Bfs.isHopDist_reach hvd)
      rw [h2] at hp1
      injection hp1 with e; injection e with e
      subst e
      exact ⟨s, hs, p, h1, h2, h3, h4, h5, h6, h7, hp2⟩
    · intro v hv
      obtain ⟨p, _, _, h1, _, h3, _⟩ := hacyc v hv
      exact ⟨p, h1, h3⟩
  · intro g S h
    refine ⟨fun v hr => ?_, fun v hv => ?_, fun v hv => dijkstra_pred_none_iff h hv⟩
    · obtain ⟨s, hs, p, d, h1, _, h3, h4, h5, h6, h7, h8⟩ := dijkstra_tree_search h v hr
      exact ⟨s, hs, p, d, h1, h3, h4, h5, h6, h7, h8⟩
    · obtain ⟨p, _, _, h1, _, h3, _⟩ := dijkstra_tree_acyclic h v hv
      exact ⟨p, h1, h3⟩
  · intro g s hwf hs hl hr hnone
    obtain ⟨x, h1, h2, _, h4, h5⟩ := bfm_none_circuit hwf hs hl hr hnone
    exact ⟨x, h1, h2, h4, h5⟩

/-! ## Non-vacuity -/

/-! ### BFS tree of C04/C05's doc digraph `Bfs.g0`, sources `[3, 7]` -/

example : Bfs.predecessors Bfs.g0 [3, 7] = .ok [some 3, some 0, some 1, none, some 1, some 6, some 7, none] := by
  decide
example : search [some 3, some 0, some 1, none, some 1, some 6, some 7, none] 2 3 = .ret (some [2, 1, 0, 3]) := by
  decide
example : searchBy [some 3, some 0, some 1, none, some 1, some 6, some 7, none] 2 isRoot
    = .ret (some [2, 1, 0, 3]) := by decide
/-- a target that is not on the root path of 2: `None` (and by the theorem: not because of a revisit) -/
example : search [some 3, some 0, some 1, none, some 1, some 6, some 7, none] 2 7 = .ret none := by decide
example : Bfs.distances Bfs.g0 [3, 7] 18446744073709551615 = .ok [1, 2, 3, 0, 3, 2, 1, 0] := by decide
/-- the theorem applied, hypotheses discharged -/
example : ∃ pred, Bfs.predecessors Bfs.g0 [3, 7] = .ok pred ∧ pred.length = Bfs.g0.n ∧
    ∀ v d, IsHopDist Bfs.g0 [3, 7] v d → ∃ s ∈ [3, 7], ∃ p, search pred v s = .ret (some p) ∧ p.length = d + 1 := by
  obtain ⟨pred, h1, h2, h3⟩ :=
    bfs_tree_search_shortest Bfs.g0 C05.g0_wf (by decide) [3, 7] (by decide) (by decide)
  refine ⟨pred, h1, h2, fun v d hvd => ?_⟩
  obtain ⟨s, hs, p, hp, _, _, _, hl, _⟩ := h3 v d hvd
  exact ⟨s, hs, p, hp, hl⟩
/-- sources `[6]`: vertices 0–4 are unreachable — `None` entries and the `usize::MAX` sentinel coincide -/
example : Bfs.predecessors Bfs.g0 [6] = .ok [none, none, none, none, none, some 6, none, some 6] := by decide

/-! ### Dijkstra tree of C03's witness `gStale`, source `[0]` -/

theorem gStale_hyp : Dijkstra.Hyp Dijkstra.gStale [0] := by
  refine ⟨?_, ?_, by decide, by decide⟩
  · intro u v w h
    have hn : Dijkstra.gStale.n = 4 := rfl
    rw [hn]
    unfold Dijkstra.gStale at h
    dsimp only at h
    split at h <;> simp at h
    · rcases h with h | h | h <;> omega
    · omega
  · intro u v w h
    unfold WGraph.A Dijkstra.gStale at h
    dsimp only at h
    split at h <;> simp at h
    · rcases h with h | h | h <;> omega
    · omega

example : Dijkstra.predecessors Dijkstra.gStale [0] = [none, some 2, some 0, some 0] := by decide
example : search (Dijkstra.predecessors Dijkstra.gStale [0]) 1 0 = .ret (some [1, 2, 0]) := by decide
example : Dijkstra.distances Dijkstra.gStale [0] = [some 0, some 2, some 1, some 20] := by decide
/-- the theorem applied at vertex 1 (reachable through the arc `0 → 1 : 10`, tree path `0 → 2 → 1`) -/
example : ∃ s ∈ [0], ∃ p d, search (Dijkstra.predecessors Dijkstra.gStale [0]) 1 s = .ret (some p) ∧
    PathW Dijkstra.gStale p.reverse d ∧ (Dijkstra.distances Dijkstra.gStale [0])[1]? = some (some d) := by
  have hr : WReachFrom Dijkstra.gStale [0] 1 :=
    ⟨0, by simp, _, _, WWalk.snoc (w := 10) (WWalk.nil 0) (by unfold WGraph.A; decide)⟩
  obtain ⟨s, hs, p, d, h1, _, _, _, h5, _, _, h8⟩ :=
    dijkstra_tree_search_shortest Dijkstra.gStale [0] gStale_hyp 1 hr
  exact ⟨s, hs, p, d, h1, h5, h8⟩
example : (Dijkstra.predecessors Dijkstra.gStale [0])[0]? = some none ↔
    (0 ∈ [0] ∨ (Dijkstra.distances Dijkstra.gStale [0])[0]? = some none) :=
  dijkstra_pred_none_iff_source_or_unreachable _ _ gStale_hyp 0 (by decide)

/-! ### DFS vs BFS: the known-finding witness (stale pop) and the doc digraph (no stale pop) -/

example : (Dfs.dfs C06.witness [0]).verts = [0, 3, 2] ∧ (Dfs.dfs C06.witness [0]).ending = .stale ∧
    Bfs.bfs C06.witness [0] = .ok [0, 1, 2, 3] ∧ (Dfs.dfsFixed C06.witness [0]).verts = [0, 3, 2, 1] := by
  decide
example : ∃ out, Bfs.bfs C06.witness [0] = .ok out ∧ (∀ v ∈ (Dfs.dfs C06.witness [0]).verts, v ∈ out) ∧
    (Dfs.dfsFixed C06.witness [0]).verts.Perm out := by
  obtain ⟨out, h1, h2, _, h4⟩ := dfs_subset_bfs C06.witness [0] C06.witness_inputs
  exact ⟨out, h1, h2, h4⟩
example : (Dfs.dfs C06.doc [3, 7]).verts = [7, 6, 5, 3, 0, 1, 4] ∧ (Dfs.dfs C06.doc [3, 7]).ending = .done ∧
    Bfs.bfs C06.doc [3, 7] = .ok [3, 7, 0, 6, 1, 5, 4] := by decide

/-! ### BFM `None`: a negative triangle with a tail -/

def gneg : WGraph := ⟨4, fun u => match u with
  | 0 => [(1, -2)] | 1 => [(2, -1)] | 2 => [(0, -1), (3, 5)] | _ => []⟩

theorem gneg_wf : gneg.WF := by
  intro u v w h
  change (v, w) ∈ gneg.out u at h
  show _ < 4 ∧ _ < 4
  rcases u with _ | _ | _ | u <;> simp [gneg] at h <;> omega

theorem gneg_noloops : Johnson.NoLoops gneg.toGraph := by
  intro u h
  change u ∈ (gneg.out u).map (·.1) at h
  rcases u with _ | _ | _ | u <;> simp [gneg] at h

theorem gneg_rows : Johnson.RowsNodup gneg.toGraph := by
  intro u
  change ((gneg.out u).map (·.1)).Nodup
  rcases u with _ | _ | _ | u <;> simp [gneg]

example : Bfm.distances gneg 0 = .ret none := by decide
example : Johnson.circuits gneg.toGraph = [[0, 1, 2]] := by decide
example : Tarjan.components (Cross2.vgOf gneg.toGraph) = .ret [[3], [0, 1, 2]] := by decide
example : ∃ x, x < gneg.n ∧ Reach gneg.toGraph 0 x ∧ ∃ c ∈ Johnson.circuits gneg.toGraph, x ∈ c := by
  obtain ⟨x, h1, h2, _, h4, _⟩ :=
    bfm_none_implies_circuit gneg gneg_wf 0 (by decide) gneg_noloops gneg_rows (by decide)
  exact ⟨x, h1, h2, h4⟩
/-- the contrapositive on an acyclic digraph with a negative arc -/
example : Bfm.distances ⟨3, fun u => if u = 0 then [(1, -2)] else if u = 2 then [(0, 1)] else []⟩ 0
    = .ret (some [some 0, some (-2), none]) := by decide

end GraafVerif.Cross3
