import GraafVerif.Proof.Cross2Unit
/-!
# Cross2 — a second family of cross-algorithm theorems, between the MODELS

`Thm/Cross.lean` connected the four distance models (Dijkstra / BFM / Floyd-Warshall / BFS).
This file connects the models of C08 + C18 (Floyd-Warshall, `DistanceMatrix`), C09 (Tarjan),
C10 (Johnson75) and C04 (BFS) through strong connectivity, reachability and circuits:

* `Fw.distances g`                      — model of `FloydWarshall::new(&g).distances()` (C08)
* `fwDM inf g : DistMatrix.DM`          — that result as the `DistanceMatrix<isize>` C18's model
                                           speaks about (`none ↦ inf = isize::MAX`,
                                           `infinity = inf`, `order = g.n`)
* `DistMatrix.isConnected / ecc / diameter` — models of `is_connected / eccentricities / diameter`
* `Tarjan.components (vgOf g)`          — model of `Tarjan::new(&g).components()` on the digraph
                                           with vertex ids `0..n` (C09)
* `Johnson.circuits g`                  — model of `Johnson75::new(&g).circuits()` (C10)
* `Bfs.bfs g [u]`, `Bfs.distances g [u] infB` — models of `Bfs::new(&g, [u])` collected and of
                                           `BfsDist::new(&g, [u]).distances()` (C04)

Each proof uses the property theorems `C04.bfs_correct / distances_correct`, `C08.fw_exact`,
`C09.tarjan_scc / tarjan_sets_ascending`, `C10.statement`, `C18.connected_spec / ecc_spec /
diameter_spec` and `Cross.bfs_eq_bfm_fw` as black boxes (`Proof/Cross2Models.lean`,
`Proof/Cross2Unit.lean`) plus model-free graph theory (`Proof/Cross2.lean`).

Only statements, proofs by reference and non-vacuity examples.
-/
namespace GraafVerif.Cross2
open GraafVerif GraafVerif.Cross GraafVerif.Johnson GraafVerif.Tarjan

/-! ## 0. Vocabulary -/

/-- Weighted reachability from one source is `Reach` in the digraph without the weights
(the direction `Cross.md` §5 had left open). -/
theorem wreach_iff_reach (g : WGraph) (u v : Nat) : WReachFrom g [u] v ↔ Reach g.toGraph u v :=
  wreachFrom_single_iff

/-- The Floyd-Warshall result is one of the matrices C18 quantifies over, and its `(u, v)` index
reads the Floyd-Warshall cell (sentinel as the number `inf`). -/
theorem fwDM_spec (inf : Int) (g : WGraph) (hwf : g.WF) (hfun : g.Functional) (hnc : g.NoNegCycle)
    (hn : 0 < g.n) (hfit : DistFits inf g) :
    DistMatrix.WF (fwDM inf g) ∧ ∀ u v, u < g.n → v < g.n →
      DistMatrix.get (fwDM inf g) u v = .ok ((Fw.get g.n (Fw.distances g) u v).getD inf) :=
  ⟨fwDM_wf hwf hfun hnc hn hfit, fun _ _ hu hv => fwDM_get hwf hu hv⟩

/-- "Path sums fit" is checkable on the model's output: every finite entry below the sentinel. -/
theorem distFits_of_entries (inf : Int) (g : WGraph) (hwf : g.WF) (hfun : g.Functional)
    (hnc : g.NoNegCycle) (h : ∀ d, some d ∈ Fw.distances g → d < inf) : DistFits inf g :=
  distFits_of_matrix hwf hfun hnc h

/-- … in executable form (`fitsB` runs over the flat vector). -/
theorem distFits_of_check (inf : Int) (g : WGraph) (hwf : g.WF) (hfun : g.Functional)
    (hnc : g.NoNegCycle) (h : fitsB inf (Fw.distances g) = true) : DistFits inf g :=
  distFits_of_fitsB hwf hfun hnc h

/-- The Tarjan model on `vgOf g` returns the partition into strongly connected components
(C09 instantiated at the vertex-id view of a `Graph`). -/
theorem tarjan_on_graph (g : Graph) (hg : g.WF) :
    ∃ cs, components (vgOf g) = .ret cs ∧ IsSCCPartition (vgOf g) cs ∧
      ∀ u v, u < g.n → v < g.n → ((∃ c ∈ cs, u ∈ c ∧ v ∈ c) ↔ (Reach g u v ∧ Reach g v u)) := by
  obtain ⟨cs, hcs, hp⟩ := tarjan_res hg
  exact ⟨cs, hcs, hp, fun _ _ hu hv => same_block_iff hp hu hv⟩

/-! ## 1. Floyd-Warshall + `DistanceMatrix::is_connected` ↔ Tarjan -/

/-- A cell of the Floyd-Warshall matrix is finite iff the column vertex is reachable from the row
vertex in the underlying unweighted digraph. -/
theorem fw_finite_iff_reach (g : WGraph) (hwf : g.WF) (hfun : g.Functional) (hnc : g.NoNegCycle)
    (u v : Nat) (hu : u < g.n) (hv : v < g.n) :
    (Fw.get g.n (Fw.distances g) u v).isSome = true ↔ Reach g.toGraph u v :=
  fw_isSome_iff_reach hwf hfun hnc hu hv

/-- … iff the BFS model on the underlying digraph, started at `u`, yields `v`. -/
theorem fw_finite_iff_bfs (g : WGraph) (hwf : g.WF) (hfun : g.Functional) (hnc : g.NoNegCycle)
    (u v : Nat) (hu : u < g.n) (hv : v < g.n) :
    ∃ out, Bfs.bfs g.toGraph [u] = .ok out ∧
      ((Fw.get g.n (Fw.distances g) u v).isSome = true ↔ v ∈ out) :=
  fw_isSome_iff_bfs hwf hfun hnc hu hv

/-- `is_connected()` of the Floyd-Warshall matrix decides strong connectivity of the digraph. -/
theorem fw_isConnected_iff_stronglyConnected (inf : Int) (g : WGraph) (hwf : g.WF)
    (hfun : g.Functional) (hnc : g.NoNegCycle) (hn : 0 < g.n) (hfit : DistFits inf g) :
    DistMatrix.isConnected (fwDM inf g) = true ↔ StronglyConnected g.toGraph :=
  fw_isConnected_iff_sc hwf hfun hnc hn hfit

/-- Strongly connected (order ≥ 1) iff the Tarjan model returns exactly one component, which is
then the whole vertex set in ascending order. -/
theorem stronglyConnected_iff_tarjan_one (g : Graph) (hg : g.WF) (hn : 0 < g.n) :
    StronglyConnected g ↔ components (vgOf g) = .ret [List.range g.n] :=
  sc_iff_tarjan_one hg hn

/-- "Exactly one component" in the weak reading `∃ c, … = .ret [c]` is the same statement. -/
theorem tarjan_one_component_iff (g : Graph) (hg : g.WF) (hn : 0 < g.n) :
    (∃ c, components (vgOf g) = .ret [c]) ↔ components (vgOf g) = .ret [List.range g.n] :=
  tarjan_one_iff_range hg hn

/-- **Target 1.**  For a well-formed weighted digraph (order ≥ 1) without negative circuit whose
distances fit below the sentinel: `DistanceMatrix::is_connected` on the model of
`FloydWarshall::distances` holds iff the Tarjan model on the underlying unweighted digraph
returns exactly one component. -/
theorem fw_isConnected_iff_tarjan (inf : Int) (g : WGraph) (hwf : g.WF) (hfun : g.Functional)
    (hnc : g.NoNegCycle) (hn : 0 < g.n) (hfit : DistFits inf g) :
    DistMatrix.isConnected (fwDM inf g) = true ↔
      components (vgOf g.toGraph) = .ret [List.range g.n] :=
  fw_isConnected_iff_tarjan_one hwf hfun hnc hn hfit

/-- Same Tarjan component iff BOTH Floyd-Warshall cells `(u, v)` and `(v, u)` are finite
(no hypothesis on the sentinel: this is about `Fw.get`, where the sentinel is `none`). -/
theorem fw_both_finite_iff_same_tarjan_component (g : WGraph) (hwf : g.WF) (hfun : g.Functional)
    (hnc : g.NoNegCycle) (cs : List (List Nat)) (hcs : components (vgOf g.toGraph) = .ret cs)
    (u v : Nat) (hu : u < g.n) (hv : v < g.n) :
    (∃ c ∈ cs, u ∈ c ∧ v ∈ c) ↔
      ((Fw.get g.n (Fw.distances g) u v).isSome = true ∧
       (Fw.get g.n (Fw.distances g) v u).isSome = true) :=
  fw_both_finite_iff_same_component hwf hfun hnc hcs hu hv

/-- `eccentricities()[u]` of the Floyd-Warshall matrix is `infinity` iff some vertex is not
reachable from `u` (the per-row content of `is_connected`). -/
theorem fw_eccentricity_infinite_iff (inf : Int) (g : WGraph) (hwf : g.WF) (hfun : g.Functional)
    (hnc : g.NoNegCycle) (hn : 0 < g.n) (hfit : DistFits inf g) (u : Nat) (hu : u < g.n) :
    (DistMatrix.ecc (fwDM inf g))[u]? = some inf ↔ ∃ v, v < g.n ∧ ¬ Reach g.toGraph u v :=
  fw_ecc_inf_iff hwf hfun hnc hn hfit hu

/-! ## 2. Tarjan ↔ Johnson75 -/

/-- **Target 2a.**  The Johnson model returns no circuit iff every component the Tarjan model
returns is a singleton. -/
theorem johnson_empty_iff_tarjan_singletons (g : Graph) (hg : g.WF) (hloops : NoLoops g)
    (hrows : RowsNodup g) (cs : List (List Nat)) (hcs : components (vgOf g) = .ret cs) :
    circuits g = [] ↔ ∀ comp ∈ cs, comp.length = 1 :=
  johnson_nil_iff_tarjan_singletons hg hloops hrows hcs

/-- … iff the digraph is acyclic (no arc `u → v` with `v` reaching `u`). -/
theorem johnson_empty_iff_acyclic (g : Graph) (hg : g.WF) (hloops : NoLoops g) (hrows : RowsNodup g) :
    circuits g = [] ↔ Acyclic g :=
  johnson_nil_iff_acyclic hg hloops hrows

/-- **Target 2b.**  Every circuit the Johnson model returns lies inside ONE Tarjan component. -/
theorem johnson_circuit_in_one_tarjan_component (g : Graph) (hg : g.WF) (hloops : NoLoops g)
    (hrows : RowsNodup g) (cs : List (List Nat)) (hcs : components (vgOf g) = .ret cs)
    (c : List Nat) (hc : c ∈ circuits g) : ∃ comp ∈ cs, ∀ x ∈ c, x ∈ comp :=
  johnson_circuit_in_component hg hloops hrows hcs hc

/-- **Target 2c.**  The vertices that lie on some returned circuit are exactly the vertices of
the Tarjan components with at least two members. -/
theorem johnson_vertices_iff_nonsingleton_component (g : Graph) (hg : g.WF) (hloops : NoLoops g)
    (hrows : RowsNodup g) (cs : List (List Nat)) (hcs : components (vgOf g) = .ret cs)
    (v : Nat) (hv : v < g.n) :
    (∃ c ∈ circuits g, v ∈ c) ↔ ∃ comp ∈ cs, v ∈ comp ∧ 2 ≤ comp.length :=
  johnson_vertex_iff_component_two hg hloops hrows hcs hv

/-- The graph theory behind 2a–2c, model-free: in a loop-free digraph every vertex of a closed
walk lies on a canonical elementary circuit. -/
theorem closed_walk_has_circuit (g : Graph) (hloops : NoLoops g) (u v : Nat) (huv : u ≠ v)
    (h₁ : Reach g u v) (h₂ : Reach g v u) : ∃ c, IsCanonicalElemCircuit g c ∧ u ∈ c := by
  obtain ⟨c, hc, hu, _⟩ := cyc_of_mutual huv h₁ h₂
  exact exists_canonical_through hloops hc hu

/-- … and the vertices of a canonical elementary circuit are pairwise mutually reachable. -/
theorem circuit_vertices_mutual (g : Graph) (c : List Nat) (hc : IsCanonicalElemCircuit g c) :
    ∀ x ∈ c, ∀ y ∈ c, Reach g x y :=
  canonical_mutual hc

/-- Johnson75 ↔ Floyd-Warshall: the Johnson model on the underlying digraph returns some circuit
iff two different vertices have both Floyd-Warshall cells finite. -/
theorem johnson_nonempty_iff_fw_finite_pair (g : WGraph) (hwf : g.WF) (hfun : g.Functional)
    (hnc : g.NoNegCycle) (hloops : NoLoops g.toGraph) (hrows : RowsNodup g.toGraph) :
    circuits g.toGraph ≠ [] ↔ ∃ u v, u < g.n ∧ v < g.n ∧ u ≠ v ∧
      (Fw.get g.n (Fw.distances g) u v).isSome = true ∧
      (Fw.get g.n (Fw.distances g) v u).isSome = true :=
  johnson_nonempty_iff_fw_pair hwf hfun hnc hloops hrows

/-- Johnson75 ↔ BFS: `v` lies on a returned circuit iff the BFS model from `v` yields a different
vertex whose BFS yields `v` back. -/
theorem johnson_vertex_iff_bfs_pair (g : Graph) (hg : g.WF) (hloops : NoLoops g) (hrows : RowsNodup g)
    (v : Nat) (hv : v < g.n) :
    (∃ c ∈ circuits g, v ∈ c) ↔
      ∃ w, w < g.n ∧ w ≠ v ∧ ∃ ov ow, Bfs.bfs g [v] = .ok ov ∧ Bfs.bfs g [w] = .ok ow ∧
        w ∈ ov ∧ v ∈ ow :=
  johnson_vertex_iff_bfs hg hloops hrows hv

/-! ## 3. BFS ↔ Tarjan -/

/-- **Target 3.**  `u` and `v` are in the same Tarjan component iff the BFS model from `[u]`
yields `v` and the BFS model from `[v]` yields `u` (neither call panics). -/
theorem bfs_mutual_iff_same_tarjan_component (g : Graph) (hg : g.WF) (cs : List (List Nat))
    (hcs : components (vgOf g) = .ret cs) (u v : Nat) (hu : u < g.n) (hv : v < g.n) :
    ∃ ou ov, Bfs.bfs g [u] = .ok ou ∧ Bfs.bfs g [v] = .ok ov ∧
      ((∃ c ∈ cs, u ∈ c ∧ v ∈ c) ↔ (v ∈ ou ∧ u ∈ ov)) :=
  bfs_mutual_iff_same_component hg hcs hu hv

/-- The Tarjan model returns one component iff the BFS model from every vertex yields every
vertex. -/
theorem tarjan_one_iff_bfs_yields_all (g : Graph) (hg : g.WF) (hn : 0 < g.n) :
    components (vgOf g) = .ret [List.range g.n] ↔
      ∀ u, u < g.n → ∃ out, Bfs.bfs g [u] = .ok out ∧ ∀ v, v < g.n → v ∈ out :=
  tarjan_one_iff_bfs_all hg hn

/-! ## 4. `DistanceMatrix` metrics on unit weights = BFS hop distances -/

/-- `unitWeights g` meets every hypothesis of §1 as soon as the sentinel is at least the order. -/
theorem unitWeights_fits (g : Graph) (hg : g.WF) (inf : Int) (hinf : (g.n : Int) ≤ inf) :
    DistFits inf (unitWeights g) :=
  unit_fits hg hinf

/-- Cell by cell, row `u` of the `DistanceMatrix` of Floyd-Warshall on unit weights is the vector
the BFS model's `distances()` returns from `[u]` (BFS's sentinel `infB` becomes `inf`), for every
digraph, connected or not. -/
theorem unit_row_eq_bfs (g : Graph) (hg : g.WF) (infB : Nat) (hinfB : g.n ≤ infB) (inf : Int)
    (u : Nat) (hu : u < g.n) :
    ∃ d, Bfs.distances g [u] infB = .ok d ∧ d.length = g.n ∧
      ∀ v, v < g.n → ∃ k, d[v]? = some k ∧ (k = infB ↔ ¬ Reach g u v) ∧
        DistMatrix.get (fwDM inf (unitWeights g)) u v = .ok ((hopToOpt infB k).getD inf) :=
  unit_cell hg hinfB inf hu

/-- **Target 4a.**  Strongly connected ⇒ `eccentricities()[u]` is the maximum of the BFS distance
vector from `u` (attained, and bounding every entry). -/
theorem unit_eccentricity_eq_max_bfs (g : Graph) (hg : g.WF) (hn : 0 < g.n) (infB : Nat)
    (hinfB : g.n ≤ infB) (inf : Int) (hinf : (g.n : Int) ≤ inf) (hsc : StronglyConnected g)
    (u : Nat) (hu : u < g.n) :
    ∃ (d : List Nat) (e : Nat), Bfs.distances g [u] infB = .ok d ∧
      (DistMatrix.ecc (fwDM inf (unitWeights g)))[u]? = some (e : Int) ∧
      (∃ v, v < g.n ∧ d[v]? = some e) ∧ (∀ v, v < g.n → ∃ k, d[v]? = some k ∧ k ≤ e) :=
  unit_ecc_eq_max_hop hg hn hinfB hinf hsc hu

/-- The same against the declarative hop distance. -/
theorem unit_eccentricity_is_max_hopDist (g : Graph) (hg : g.WF) (hn : 0 < g.n) (inf : Int)
    (hinf : (g.n : Int) ≤ inf) (hsc : StronglyConnected g) (u : Nat) (hu : u < g.n) :
    ∃ e : Nat, (DistMatrix.ecc (fwDM inf (unitWeights g)))[u]? = some (e : Int) ∧
      (∃ v, v < g.n ∧ IsHopDist g [u] v e) ∧ (∀ v k, v < g.n → IsHopDist g [u] v k → k ≤ e) :=
  unit_ecc_is_max_hopDist hg hn hinf hsc hu

/-- **Target 4b.**  Strongly connected ⇒ `diameter()` is the maximum BFS hop distance over all
sources. -/
theorem unit_diameter_eq_max_bfs (g : Graph) (hg : g.WF) (hn : 0 < g.n) (infB : Nat)
    (hinfB : g.n ≤ infB) (inf : Int) (hinf : (g.n : Int) ≤ inf) (hsc : StronglyConnected g) :
    ∃ D : Nat, DistMatrix.diameter (fwDM inf (unitWeights g)) = (D : Int) ∧
      (∃ u v d, u < g.n ∧ v < g.n ∧ Bfs.distances g [u] infB = .ok d ∧ d[v]? = some D) ∧
      (∀ u v d, u < g.n → v < g.n → Bfs.distances g [u] infB = .ok d →
        ∃ k, d[v]? = some k ∧ k ≤ D) :=
  unit_diameter_eq_max_hop hg hn hinfB hinf hsc

/-- No connectivity hypothesis: `eccentricities()[u]` is the maximum of the BFS distance vector
from `u` read with the matrix's sentinel (`infB ↦ inf`). -/
theorem unit_eccentricity_general (g : Graph) (hg : g.WF) (hn : 0 < g.n) (infB : Nat)
    (hinfB : g.n ≤ infB) (inf : Int) (hinf : (g.n : Int) ≤ inf) (u : Nat) (hu : u < g.n) :
    ∃ (d : List Nat) (e : Int), Bfs.distances g [u] infB = .ok d ∧
      (DistMatrix.ecc (fwDM inf (unitWeights g)))[u]? = some e ∧
      (∃ v k, v < g.n ∧ d[v]? = some k ∧ e = (hopToOpt infB k).getD inf) ∧
      (∀ v, v < g.n → ∃ k, d[v]? = some k ∧ (hopToOpt infB k).getD inf ≤ e) :=
  unit_ecc_general hg hn hinfB hinf hu

/-- Strongly connected ⇒ `periphery()` lists exactly the vertices from which some vertex is at hop
distance `diameter()`. -/
theorem unit_periphery_iff_diameter_attained (g : Graph) (hg : g.WF) (hn : 0 < g.n) (inf : Int)
    (hinf : (g.n : Int) ≤ inf) (hsc : StronglyConnected g) (u : Nat) (hu : u < g.n) :
    ∃ D : Nat, DistMatrix.diameter (fwDM inf (unitWeights g)) = (D : Int) ∧
      (u ∈ DistMatrix.periphery (fwDM inf (unitWeights g)) ↔ ∃ v, v < g.n ∧ IsHopDist g [u] v D) :=
  unit_periphery_iff hg hn hinf hsc hu

/-- Strongly connected ⇒ `center()` lists exactly the vertices of minimum hop eccentricity
(`IsHopEcc g u e`: `e` is the largest hop distance from `u`). -/
theorem unit_center_iff_min_hopEcc (g : Graph) (hg : g.WF) (hn : 0 < g.n) (inf : Int)
    (hinf : (g.n : Int) ≤ inf) (hsc : StronglyConnected g) (u : Nat) (hu : u < g.n) :
    u ∈ DistMatrix.center (fwDM inf (unitWeights g)) ↔
      ∃ e, IsHopEcc g u e ∧ ∀ u' e', u' < g.n → IsHopEcc g u' e' → e ≤ e' :=
  unit_center_iff hg hn hinf hsc hu

/-- On unit weights `is_connected()` = "Tarjan returns one component" = strongly connected. -/
theorem unit_isConnected_iff_tarjan (g : Graph) (hg : g.WF) (hn : 0 < g.n) (inf : Int)
    (hinf : (g.n : Int) ≤ inf) :
    (DistMatrix.isConnected (fwDM inf (unitWeights g)) = true ↔
      components (vgOf g) = .ret [List.range g.n]) ∧
    (DistMatrix.isConnected (fwDM inf (unitWeights g)) = true ↔ StronglyConnected g) :=
  unit_isConnected_iff hg hn hinf

/-! ## The clauses together -/

/-- The four targets of the brief in one proposition. -/
def Statement : Prop :=
  -- 1. Floyd-Warshall + DistanceMatrix ↔ Tarjan
  (∀ (inf : Int) (g : WGraph), g.WF → g.Functional → g.NoNegCycle → 0 < g.n → DistFits inf g →
    (DistMatrix.isConnected (fwDM inf g) = true ↔
      components (vgOf g.toGraph) = .ret [List.range g.n]) ∧
    (DistMatrix.isConnected (fwDM inf g) = true ↔ StronglyConnected g.toGraph) ∧
    ∀ u v, u < g.n → v < g.n →
      ((Fw.get g.n (Fw.distances g) u v).isSome = true ↔ Reach g.toGraph u v) ∧
      ∀ cs, components (vgOf g.toGraph) = .ret cs →
        ((∃ c ∈ cs, u ∈ c ∧ v ∈ c) ↔
          ((Fw.get g.n (Fw.distances g) u v).isSome = true ∧
           (Fw.get g.n (Fw.distances g) v u).isSome = true))) ∧
  -- 2. Tarjan ↔ Johnson75
  (∀ g : Graph, g.WF → NoLoops g → RowsNodup g →
    ∃ cs, components (vgOf g) = .ret cs ∧
      (circuits g = [] ↔ ∀ comp ∈ cs, comp.length = 1) ∧
      (circuits g = [] ↔ Acyclic g) ∧
      (∀ c ∈ circuits g, ∃ comp ∈ cs, ∀ x ∈ c, x ∈ comp) ∧
      (∀ v, v < g.n → ((∃ c ∈ circuits g, v ∈ c) ↔ ∃ comp ∈ cs, v ∈ comp ∧ 2 ≤ comp.length))) ∧
  -- 3. BFS ↔ Tarjan
  (∀ g : Graph, g.WF → ∃ cs, components (vgOf g) = .ret cs ∧
    ∀ u v, u < g.n → v < g.n →
      ∃ ou ov, Bfs.bfs g [u] = .ok ou ∧ Bfs.bfs g [v] = .ok ov ∧
        ((∃ c ∈ cs, u ∈ c ∧ v ∈ c) ↔ (v ∈ ou ∧ u ∈ ov))) ∧
  -- 4. DistanceMatrix metrics on unit weights = max BFS hop distances
  (∀ (g : Graph) (infB : Nat) (inf : Int), g.WF → 0 < g.n → g.n ≤ infB → (g.n : Int) ≤ inf →
    StronglyConnected g →
    (∀ u, u < g.n → ∃ (d : List Nat) (e : Nat), Bfs.distances g [u] infB = .ok d ∧
      (DistMatrix.ecc (fwDM inf (unitWeights g)))[u]? = some (e : Int) ∧
      (∃ v, v < g.n ∧ d[v]? = some e) ∧ (∀ v, v < g.n → ∃ k, d[v]? = some k ∧ k ≤ e)) ∧
    ∃ D : Nat, DistMatrix.diameter (fwDM inf (unitWeights g)) = (D : Int) ∧
      (∃ u v d, u < g.n ∧ v < g.n ∧ Bfs.distances g [u] infB = .ok d ∧ d[v]? = some D) ∧
      (∀ u v d, u < g.n → v < g.n → Bfs.distances g [u] infB = .ok d →
        ∃ k, d[v]? = some k ∧ k ≤ D))

theorem statement : Statement := by
  refine ⟨?_, ?_, ?_, ?_⟩
  · intro inf g hwf hfun hnc hn hfit
    exact ⟨fw_isConnected_iff_tarjan_one hwf hfun hnc hn hfit,
      fw_isConnected_iff_sc hwf hfun hnc hn hfit,
      fun u v hu hv => ⟨fw_isSome_iff_reach hwf hfun hnc hu hv,
        fun cs hcs => fw_both_finite_iff_same_component hwf hfun hnc hcs hu hv⟩⟩
  · intro g hg hloops hrows
    obtain ⟨cs, hcs, _⟩ := tarjan_res hg
    exact ⟨cs, hcs, johnson_nil_iff_tarjan_singletons hg hloops hrows hcs,
      johnson_nil_iff_acyclic hg hloops hrows,
      fun c hc => johnson_circuit_in_component hg hloops hrows hcs hc,
      fun v hv => johnson_vertex_iff_component_two hg hloops hrows hcs hv⟩
  · intro g hg
    obtain ⟨cs, hcs, _⟩ := tarjan_res hg
    exact ⟨cs, hcs, fun u v hu hv => bfs_mutual_iff_same_component hg hcs hu hv⟩
  · intro g infB inf hg hn hinfB hinf hsc
    exact ⟨fun u hu => unit_ecc_eq_max_hop hg hn hinfB hinf hsc hu,
      unit_diameter_eq_max_hop hg hn hinfB hinf hsc⟩

/-! ## Non-vacuity

Sentinels: `isizeMax = 2^63 - 1`, `usizeMax = 2^64 - 1` (the values on the harness' target). -/

def isizeMax : Int := 9223372036854775807
def usizeMax : Nat := 18446744073709551615

/-! ### 1. Floyd-Warshall / `is_connected` / Tarjan

`C08.ex` (the doctest digraph of `FloydWarshall`: negative arcs, no negative circuit) is strongly
connected: both sides of `fw_isConnected_iff_tarjan` are TRUE.  `Cross.gx` (non-negative weights,
vertex 4 is reached by nothing) makes both sides FALSE. -/

theorem ex_fits : DistFits isizeMax C08.ex :=
  distFits_of_check _ _ Cross.ex_wf Cross.ex_functional Cross.ex_noNegCycle (by decide)

example : DistMatrix.isConnected (fwDM isizeMax C08.ex) = true := by decide
example : components (vgOf C08.ex.toGraph) = .ret [[0, 1, 2, 3]] := by decide
/-- The theorem applied with every hypothesis discharged. -/
example : DistMatrix.isConnected (fwDM isizeMax C08.ex) = true ↔
    components (vgOf C08.ex.toGraph) = .ret [List.range C08.ex.n] :=
  fw_isConnected_iff_tarjan isizeMax C08.ex Cross.ex_wf Cross.ex_functional Cross.ex_noNegCycle
    (by decide) ex_fits
/-- Strong connectivity of `C08.ex` obtained FROM the model run, through the theorem. -/
example : StronglyConnected C08.ex.toGraph :=
  (fw_isConnected_iff_stronglyConnected isizeMax C08.ex Cross.ex_wf Cross.ex_functional
    Cross.ex_noNegCycle (by decide) ex_fits).mp (by decide)

theorem gx_fits : DistFits isizeMax Cross.gx :=
  distFits_of_check _ _ Cross.gx_wf Cross.gx_functional (nonneg_noNegCycle Cross.gx_nonneg)
    (by decide)

example : DistMatrix.isConnected (fwDM isizeMax Cross.gx) = false := by decide
example : components (vgOf Cross.gx.toGraph) = .ret [[3], [1], [2], [0], [4]] := by decide
example : DistMatrix.ecc (fwDM isizeMax Cross.gx) = [isizeMax, isizeMax, isizeMax, isizeMax, 4] := by decide
/-- Hence (by the theorem) `gx` is not strongly connected. -/
example : ¬ StronglyConnected Cross.gx.toGraph := fun h => by
  have := (fw_isConnected_iff_stronglyConnected isizeMax Cross.gx Cross.gx_wf Cross.gx_functional
    (nonneg_noNegCycle Cross.gx_nonneg) (by decide) gx_fits).mpr h
  revert this; decide
/-- Cells: `(4, 3)` finite, `(3, 4)` the sentinel; 3 and 4 are in different components. -/
example : Fw.get 5 (Fw.distances Cross.gx) 4 3 = some 4 ∧ Fw.get 5 (Fw.distances Cross.gx) 3 4 = none := by
  decide
example : (∃ c ∈ [[3], [1], [2], [0], [4]], 4 ∈ c ∧ 3 ∈ c) ↔
    ((Fw.get Cross.gx.n (Fw.distances Cross.gx) 4 3).isSome = true ∧
     (Fw.get Cross.gx.n (Fw.distances Cross.gx) 3 4).isSome = true) :=
  fw_both_finite_iff_same_tarjan_component Cross.gx Cross.gx_wf Cross.gx_functional
    (nonneg_noNegCycle Cross.gx_nonneg) _ (by decide) 4 3 (by decide) (by decide)

/-! ### 2. / 3. Tarjan, Johnson, BFS on C04's doc digraph `Bfs.g0`

8 vertices, components `{0,1,2,3}`, `{6,7}`, `{4}`, `{5}`: two circuits, two trivial components. -/

theorem g0_noloops : NoLoops Bfs.g0 := by
  intro u h
  unfold Bfs.g0 Graph.out at h
  simp only at h
  split at h <;> simp at h

theorem g0_rows : RowsNodup Bfs.g0 := by
  intro u
  unfold Bfs.g0 Graph.out
  simp only
  split <;> simp

example : components (vgOf Bfs.g0) = .ret [[5], [6, 7], [4], [0, 1, 2, 3]] := by decide
example : circuits Bfs.g0 = [[0, 1, 2, 3], [6, 7]] := by decide
/-- 2b applied: the circuit `[6, 7]` lies inside one of the four components. -/
example : ∃ comp ∈ [[5], [6, 7], [4], [0, 1, 2, 3]], ∀ x ∈ [6, 7], x ∈ comp :=
  johnson_circuit_in_one_tarjan_component Bfs.g0 C04.g0_wf g0_noloops g0_rows _ (by decide) _ (by decide)
/-- 2c applied, both ways: 7 is on a circuit, 4 is on none. -/
example : (∃ c ∈ circuits Bfs.g0, 7 ∈ c) ↔ ∃ comp ∈ [[5], [6, 7], [4], [0, 1, 2, 3]], 7 ∈ comp ∧ 2 ≤ comp.length :=
  johnson_vertices_iff_nonsingleton_component Bfs.g0 C04.g0_wf g0_noloops g0_rows _ (by decide) 7 (by decide)
example : ¬ ∃ c ∈ circuits Bfs.g0, 4 ∈ c := by decide
example : ¬ ∃ comp ∈ [[5], [6, 7], [4], [0, 1, 2, 3]], 4 ∈ comp ∧ 2 ≤ comp.length := by decide
/-- 2a, the non-empty side: not every component is a singleton. -/
example : ¬ (circuits Bfs.g0 = []) ∧ ¬ ∀ comp ∈ [[5], [6, 7], [4], [0, 1, 2, 3]], comp.length = 1 := by decide

/-- 2a, the empty side: an acyclic digraph (a diamond with a tail). -/
def dag : Graph := ⟨5, fun u => match u with | 0 => [1, 2] | 1 => [3] | 2 => [3] | 3 => [4] | _ => []⟩

theorem dag_wf : dag.WF := by
  intro u v h
  unfold dag Graph.out at *
  simp only at h ⊢
  split at h <;> simp at h <;> omega

theorem dag_noloops : NoLoops dag := by
  intro u h
  unfold dag Graph.out at h
  simp only at h
  split at h <;> simp at h

theorem dag_rows : RowsNodup dag := by
  intro u
  unfold dag Graph.out
  simp only
  split <;> simp

example : circuits dag = [] := by decide
example : components (vgOf dag) = .ret [[4], [3], [1], [2], [0]] := by decide
/-- Acyclicity of `dag` obtained from the Johnson model run, through the theorem. -/
example : Acyclic dag := (johnson_empty_iff_acyclic dag dag_wf dag_noloops dag_rows).mp (by decide)
example : circuits dag = [] ↔ ∀ comp ∈ [[4], [3], [1], [2], [0]], comp.length = 1 :=
  johnson_empty_iff_tarjan_singletons dag dag_wf dag_noloops dag_rows _ (by decide)

/-- 3: from 6 BFS yields 7 and from 7 it yields 6 (same component); from 1 it yields 6 but from 6
it does not yield 1 (different components). -/
example : Bfs.bfs Bfs.g0 [6] = .ok [6, 5, 7] ∧ Bfs.bfs Bfs.g0 [7] = .ok [7, 6, 5] ∧
    Bfs.bfs Bfs.g0 [1] = .ok [1, 2, 4, 3, 5, 6, 0, 7] := by decide
example : ∃ ou ov, Bfs.bfs Bfs.g0 [1] = .ok ou ∧ Bfs.bfs Bfs.g0 [6] = .ok ov ∧
    ((∃ c ∈ [[5], [6, 7], [4], [0, 1, 2, 3]], 1 ∈ c ∧ 6 ∈ c) ↔ (6 ∈ ou ∧ 1 ∈ ov)) :=
  bfs_mutual_iff_same_tarjan_component Bfs.g0 C04.g0_wf _ (by decide) 1 6 (by decide) (by decide)

/-- Johnson ↔ BFS applied: 6 is on a circuit. -/
example : (∃ c ∈ circuits Bfs.g0, 6 ∈ c) ↔ ∃ w, w < Bfs.g0.n ∧ w ≠ 6 ∧ ∃ ov ow,
    Bfs.bfs Bfs.g0 [6] = .ok ov ∧ Bfs.bfs Bfs.g0 [w] = .ok ow ∧ w ∈ ov ∧ 6 ∈ ow :=
  johnson_vertex_iff_bfs_pair Bfs.g0 C04.g0_wf g0_noloops g0_rows 6 (by decide)

/-- Johnson ↔ Floyd-Warshall on `C08.ex` (negative arcs): two circuits, e.g. cells `(0,1)`, `(1,0)`. -/
theorem ex_noloops : NoLoops C08.ex.toGraph := by
  intro u h
  change u ∈ (C08.ex.out u).map (·.1) at h
  rcases u with _ | _ | _ | _ | u <;> simp [C08.ex] at h

theorem ex_rows : RowsNodup C08.ex.toGraph := by
  intro u
  change ((C08.ex.out u).map (·.1)).Nodup
  rcases u with _ | _ | _ | _ | u <;> simp [C08.ex]

example : circuits C08.ex.toGraph = [[0, 2, 3, 1], [1, 2, 3]] := by decide
example : circuits C08.ex.toGraph ≠ [] ↔ ∃ u v, u < C08.ex.n ∧ v < C08.ex.n ∧ u ≠ v ∧
    (Fw.get C08.ex.n (Fw.distances C08.ex) u v).isSome = true ∧
    (Fw.get C08.ex.n (Fw.distances C08.ex) v u).isSome = true :=
  johnson_nonempty_iff_fw_finite_pair C08.ex Cross.ex_wf Cross.ex_functional Cross.ex_noNegCycle
    ex_noloops ex_rows

/-! ### 4. Metrics on unit weights: a 4-circuit with a chord `0 → 2` -/

def gc : Graph := ⟨4, fun u => match u with | 0 => [1, 2] | 1 => [2] | 2 => [3] | 3 => [0] | _ => []⟩

theorem gc_wf : gc.WF := by
  intro u v h
  unfold gc Graph.out at *
  simp only at h ⊢
  split at h <;> simp at h <;> omega

/-- Strong connectivity of `gc` from the Tarjan model run, through `stronglyConnected_iff_tarjan_one`. -/
theorem gc_sc : StronglyConnected gc :=
  (stronglyConnected_iff_tarjan_one gc gc_wf (by decide)).mpr (by decide)

example : DistMatrix.ecc (fwDM isizeMax (unitWeights gc)) = [2, 3, 3, 2] := by decide
example : DistMatrix.diameter (fwDM isizeMax (unitWeights gc)) = 3 := by decide
example : DistMatrix.isConnected (fwDM isizeMax (unitWeights gc)) = true := by decide
example : Bfs.distances gc [0] usizeMax = .ok [0, 1, 1, 2] ∧ Bfs.distances gc [1] usizeMax = .ok [3, 0, 1, 2] ∧
    Bfs.distances gc [2] usizeMax = .ok [2, 3, 0, 1] ∧ Bfs.distances gc [3] usizeMax = .ok [1, 2, 2, 0] := by
  decide
/-- The theorems applied to `gc` with every hypothesis discharged. -/
example : ∃ (d : List Nat) (e : Nat), Bfs.distances gc [1] usizeMax = .ok d ∧
    (DistMatrix.ecc (fwDM isizeMax (unitWeights gc)))[1]? = some (e : Int) ∧
    (∃ v, v < gc.n ∧ d[v]? = some e) ∧ (∀ v, v < gc.n → ∃ k, d[v]? = some k ∧ k ≤ e) :=
  unit_eccentricity_eq_max_bfs gc gc_wf (by decide) usizeMax (by decide) isizeMax (by decide) gc_sc 1 (by decide)
example : ∃ D : Nat, DistMatrix.diameter (fwDM isizeMax (unitWeights gc)) = (D : Int) ∧
    ∃ u v d, u < gc.n ∧ v < gc.n ∧ Bfs.distances gc [u] usizeMax = .ok d ∧ d[v]? = some D := by
  obtain ⟨D, h, hat, _⟩ :=
    unit_diameter_eq_max_bfs gc gc_wf (by decide) usizeMax (by decide) isizeMax (by decide) gc_sc
  exact ⟨D, h, hat⟩

example : DistMatrix.center (fwDM isizeMax (unitWeights gc)) = [0, 3] := by decide
example : 0 ∈ DistMatrix.center (fwDM isizeMax (unitWeights gc)) ↔
    ∃ e, IsHopEcc gc 0 e ∧ ∀ u' e', u' < gc.n → IsHopEcc gc u' e' → e ≤ e' :=
  unit_center_iff_min_hopEcc gc gc_wf (by decide) isizeMax (by decide) gc_sc 0 (by decide)
example : DistMatrix.periphery (fwDM isizeMax (unitWeights gc)) = [1, 2] := by decide
example : ∃ D : Nat, DistMatrix.diameter (fwDM isizeMax (unitWeights gc)) = (D : Int) ∧
    (1 ∈ DistMatrix.periphery (fwDM isizeMax (unitWeights gc)) ↔ ∃ v, v < gc.n ∧ IsHopDist gc [1] v D) :=
  unit_periphery_iff_diameter_attained gc gc_wf (by decide) isizeMax (by decide) gc_sc 1 (by decide)

set_option maxRecDepth 4096 in
/-- Not strongly connected: row 6 of `Bfs.g0`'s matrix has the sentinel where BFS has its own. -/
example : Bfs.distances Bfs.g0 [6] usizeMax
    = .ok [usizeMax, usizeMax, usizeMax, usizeMax, usizeMax, 1, 0, 1] := by decide
set_option maxRecDepth 100000 in
example : DistMatrix.get (fwDM isizeMax (unitWeights Bfs.g0)) 6 0 = .ok isizeMax ∧
    DistMatrix.get (fwDM isizeMax (unitWeights Bfs.g0)) 6 7 = .ok 1 := by decide

end GraafVerif.Cross2
