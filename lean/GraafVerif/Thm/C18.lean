/-! Property theorems for C18 (statements + proofs by reference to `Proof/`). Not built yet. -/
