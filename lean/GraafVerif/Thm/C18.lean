import GraafVerif.Proof.DistMatrixThm
/-!
# C18 — DistanceMatrix metrics equal their definitions

Only statements and their proofs-by-reference live here.  The model (`Model/DistMatrix.lean`)
is tied to `src/algo/distance_matrix.rs` by the correspondence run; `WF m` (`Spec/DistMatrix.lean`)
is the property's quantifier: `order ≥ 1`, `order²` entries, every entry `≤ infinity`.
Weights are `Int` (covers `isize` and `usize`: the code only compares and copies weights).

"Ascending list of the vertices with P" is stated as: the list is strictly ascending
(`Pairwise (· < ·)`) and `u ∈ list ↔ P u` — this determines the list uniquely
(`sorted_ext` below).
-/
namespace GraafVerif.C18
open GraafVerif.DistMatrix

/-- eccentricities(): one value per vertex, the maximum entry of its row
(attained in the row, and no entry of the row exceeds it; entries read through `m[(u, v)]`). -/
def EccSpec (m : DM) : Prop :=
  (ecc m).length = m.order ∧
  ∀ u, u < m.order → ∃ e, (ecc m)[u]? = some e ∧
    (∃ v, v < m.order ∧ get m u v = .ok e) ∧
    (∀ v, v < m.order → ∃ x, get m u v = .ok x ∧ x ≤ e)

/-- diameter() is the maximum eccentricity. -/
def DiameterSpec (m : DM) : Prop :=
  (∃ u, u < m.order ∧ (ecc m)[u]? = some (diameter m)) ∧ ∀ e ∈ ecc m, e ≤ diameter m

/-- center() is the ascending list of the vertices whose eccentricity is minimal. -/
def CenterSpec (m : DM) : Prop :=
  (center m).Pairwise (· < ·) ∧
  ∀ u, u ∈ center m ↔ ∃ e, (ecc m)[u]? = some e ∧ ∀ e' ∈ ecc m, e ≤ e'

/-- periphery() is the ascending list of the vertices whose eccentricity equals the diameter. -/
def PeripherySpec (m : DM) : Prop :=
  (periphery m).Pairwise (· < ·) ∧ ∀ u, u ∈ periphery m ↔ (ecc m)[u]? = some (diameter m)

/-- is_connected() is true iff no eccentricity equals infinity (equivalently, since entries do
not exceed infinity: iff no entry of the matrix is infinite). -/
def ConnectedSpec (m : DM) : Prop :=
  (isConnected m = true ↔ ∀ e ∈ ecc m, e ≠ m.infinity) ∧
  (isConnected m = true ↔ ∀ u v, u < m.order → v < m.order → get m u v ≠ .ok m.infinity)

/-- Indexing by `(u, v)` addresses row `u`, column `v`: it reads the `v`-th element of the `u`-th
of the rows `eccentricities()` takes its maxima over, and a write through `(u, v)` changes
exactly that cell. -/
def IndexSpec (m : DM) : Prop :=
  ∀ u v, u < m.order → v < m.order →
    (∃ x r, get m u v = .ok x ∧ (chunks m.order m.dist)[u]? = some r ∧ r[v]? = some x) ∧
    ∀ w, ∃ m', set m u v w = .ok m' ∧ m'.order = m.order ∧ m'.infinity = m.infinity ∧
      m'.dist.length = m.dist.length ∧ get m' u v = .ok w ∧
      ∀ u' v', u' < m.order → v' < m.order → (u', v') ≠ (u, v) → get m' u' v' = get m u' v'

/-- new(order, infinity) is an order × order matrix filled with infinity
(and panics for order 0, as the API documents). -/
def NewSpec : Prop :=
  (∀ inf, new 0 inf = .panic) ∧
  ∀ order inf, 1 ≤ order → order * order ≤ usizeMax →
    ∃ m, new order inf = .ok m ∧ m.order = order ∧ m.infinity = inf ∧ WF m ∧
      ∀ u v, u < order → v < order → get m u v = .ok inf

/-- Full statement of C18. -/
def Statement : Prop :=
  (∀ m : DM, WF m →
    EccSpec m ∧ DiameterSpec m ∧ CenterSpec m ∧ PeripherySpec m ∧ ConnectedSpec m ∧ IndexSpec m) ∧
  NewSpec

theorem ecc_spec (m : DM) (hw : WF m) : EccSpec m := DistMatrix.ecc_spec' hw
theorem diameter_spec (m : DM) (hw : WF m) : DiameterSpec m := DistMatrix.diameter_spec' hw
theorem center_spec (m : DM) (hw : WF m) : CenterSpec m := DistMatrix.center_spec' hw
theorem periphery_spec (m : DM) (hw : WF m) : PeripherySpec m := DistMatrix.periphery_spec' hw
theorem connected_spec (m : DM) (hw : WF m) : ConnectedSpec m := DistMatrix.connected_spec' hw
theorem index_spec (m : DM) (hw : WF m) : IndexSpec m := DistMatrix.index_spec' hw
theorem new_spec : NewSpec := DistMatrix.new_spec'

/-- The subtle case of `center`: when every eccentricity is infinite the running minimum never
drops below its initial value and the `Equal` branch collects EVERY vertex — which is what the
property demands (all vertices are then minimal). -/
theorem center_all_infinite (m : DM) (hw : WF m) (h : ∀ e ∈ ecc m, e = m.infinity) :
    center m = List.range m.order := DistMatrix.center_all_inf hw h

/-- A strictly ascending list is determined by its members: the two `…Spec`s above pin the
returned lists down uniquely. -/
theorem sorted_ext (l₁ l₂ : List Nat) (h₁ : l₁.Pairwise (· < ·)) (h₂ : l₂.Pairwise (· < ·))
    (h : ∀ x, x ∈ l₁ ↔ x ∈ l₂) : l₁ = l₂ := DistMatrix.sorted_ext' l₁ l₂ h₁ h₂ h

theorem statement_holds : Statement :=
  ⟨fun m hw => ⟨ecc_spec m hw, diameter_spec m hw, center_spec m hw, periphery_spec m hw,
    connected_spec m hw, index_spec m hw⟩, new_spec⟩

/-! Non-vacuity: an asymmetric 3×3 matrix with an infinite row meets `WF`; its metrics. -/
def ex1 : DM := ⟨[0, 5, 2,  3, 0, 1,  9, 9, 0], 9, 3⟩
example : WF ex1 := ⟨by decide, by decide, by decide⟩
example : ecc ex1 = [5, 3, 9] ∧ diameter ex1 = 9 ∧ center ex1 = [1] ∧ periphery ex1 = [2] ∧
    isConnected ex1 = false := by decide
/-- ties among minima and maxima -/
example : center ⟨[0, 4, 4, 0], 9, 2⟩ = [0, 1] ∧ periphery ⟨[0, 4, 4, 0], 9, 2⟩ = [0, 1] := by decide
/-- all eccentricities infinite, 1×1 -/
example : WF ⟨[7], 7, 1⟩ ∧ center ⟨[7], 7, 1⟩ = [0] := ⟨⟨by decide, by decide, by decide⟩, by decide⟩
example : new 3 7 = .ok ⟨List.replicate 9 7, 7, 3⟩ := by decide

end GraafVerif.C18
