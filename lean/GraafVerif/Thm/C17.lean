/-! Property theorems for C17 (statements + proofs by reference to `Proof/`). Not built yet. -/
