import GraafVerif.Thm.C02
import GraafVerif.Thm.C11
import GraafVerif.Thm.C12
import GraafVerif.Thm.C14
import GraafVerif.Thm.C15
/-!
# C17 — results never depend on the number of worker threads or their interleaving

"Every operation that is not explicitly random returns the same result whatever number of CPUs the
process may use and however its worker threads are scheduled: `AdjacencyList::{complement, complete,
degree_sequence, is_semicomplete, union}` and `AdjacencyMap::union` equal their single-threaded
definitions for every thread count from 1 to the machine's maximum.  The seeded `AdjacencyMap`
generators, whose output is allowed to depend on the thread count, still return a valid tournament /
simple digraph and still repeat exactly within one configuration."

No new model: every parallel function is modelled in its own property's model with the thread count
`t` (= `available_parallelism()`) as an explicit parameter, the chunking literally as coded
(`Par.ranges`, `step_by`, `chunks`, merge-path partition), and the two functions with shared mutable
state as labelled transition systems over which the theorems quantify all schedules.  C17 is the
conjunction of those `∀ t ≥ 1` / `∀ schedule` theorems; they all rest on `Par.chunks_tile`
(Proof/Par.lean) and, for the map union, on `findPartition_monotone`.

What no model can exhibit and is only exercised by the tie (thread masks 1..16, repeated runs):
the OS scheduler, weak-memory effects of the `Relaxed` `AtomicBool` (the model's flag is
sequentially consistent; sound because the flag only falls, each store follows its own witness and
the final load happens after `scope` joined all workers), and that `join` happens before the result
is read.
-/
namespace GraafVerif.C17
open GraafVerif GraafVerif.Repr

/-- Full statement of C17 over the models. -/
def Statement : Prop :=
  -- AdjacencyList::complement: every thread count gives the single-threaded result
  (∀ (d : AdjList) (t : Nat), 0 < t → 0 < d.order → Ops.complementAL d t = some (Ops.complementSeqAL d)) ∧
  -- AdjacencyList::union
  (∀ (a b : AdjList) (t : Nat), 0 < t → 0 < max a.order b.order → Ops.unionAL a b t = some (Ops.unionSeqAL a b)) ∧
  -- AdjacencyMap::union, arbitrary key sets, wherever the merge-path boundaries fall
  (∀ (a b : AdjMap) (t : Nat), 0 < t → a.WF → b.WF → 0 < a.rows.length + b.rows.length →
      Ops.unionAM a b t = some (Ops.unionSeqAM a b)) ∧
  -- AdjacencyList::complete
  (∀ (n t : Nat), 1 ≤ t → Gen.AL.complete n t = Gen.AL.completeSeq n) ∧
  -- AdjacencyList::degree_sequence
  (∀ (d : AdjList) (t : Nat), d.WF → 0 < t → Query.AL.degreeSequence d t = Query.Spec.degreeSequence (Query.AL.abs d)) ∧
  -- AdjacencyList::is_semicomplete: every thread count AND every schedule of the workers sharing the flag
  (∀ (d : AdjList) (t : Nat) (sched : List Nat) (b : Bool), d.WF → 0 < t →
      Pred.AL.isSemicompleteSched d t sched = some b → (b = true ↔ Pred.Def.IsSemicomplete (Query.AL.abs d))) ∧
  -- seeded AdjacencyMap::random_tournament: valid for every thread count, and every interleaving of the
  -- workers' locked inserts ends in the same rows (so a configuration repeats exactly)
  (∀ (streams : Nat → Rand.Stream) (n t : Nat), 1 ≤ n → 1 ≤ t →
      ∃ g, Rand.tournamentAM streams n t = some g ∧ Rand.IsTournament n (Rand.viewAM g)) ∧
  (∀ (streams : Nat → Rand.Stream) (n t : Nat) (g : AdjMap), 2 ≤ n →
      C15.TournamentAMOutcome streams n t g → Rand.tournamentAM streams n t = some g) ∧
  -- seeded AdjacencyMap::erdos_renyi: a valid simple digraph for every thread count
  (∀ (streams : Nat → Rand.Stream) (n t : Nat) (p : Rand.F64), 1 ≤ n → 1 ≤ t → p.inUnit = true →
      ∃ g, Rand.erAM streams n t p = some g ∧ Rand.ErValid n p (Rand.viewAM g))

theorem statement : Statement :=
  ⟨fun d t ht hn => C11.complementAL_threads d t ht hn,
   fun a b t ht hn => C11.unionAL_threads a b t ht hn,
   fun a b t ht ha hb hn => C11.unionAM_threads a b t ht ha hb hn,
   fun n t ht => C14.al_complete_thread_independent n t ht,
   fun d t h ht => C02.al_degreeSequence_par d h t ht,
   fun d t sched b h ht hb => C12.semicomplete_all_schedules d h t ht sched b hb,
   fun streams n t hn ht => C15.tournament_valid_am streams n t hn ht,
   fun streams n t g hn h => C15.tournament_am_outcome_unique streams n t hn g h,
   fun streams n t p hn ht hp => C15.er_valid_am streams n t p hn ht hp⟩

end GraafVerif.C17
