import GraafVerif.Proof.Dfs
import GraafVerif.Proof.DfsSpec
/-!
# C06 — depth-first search visits exactly the reachable set in a depth-first preorder

Only statements and proofs by reference.  `dfs`, `dfsDist`, `dfsPred`, `predecessors`
(Model/Dfs.lean) are the model of TODAY's `Dfs`, `DfsDist`, `DfsPred`, `DfsPred::predecessors`
(tied to the code by the correspondence run); `dfsFixed` … are the same model with the one-line
repair (skip a stale stack entry instead of ending the iteration).  `DfsOK`, `DfsDistOK`,
`DfsPredOK` (Spec/Dfs.lean) are what the property demands of the yielded items.

The property FAILS on today's code (`dfs_statement_false`; known finding
`early-stop-on-stale-pop`); it HOLDS for the corrected variant (`statement_fixed`), and today's
output is the corrected output cut at the first stale pop (`dfs_prefix_of_fixed`).
-/
namespace GraafVerif.C06
open GraafVerif GraafVerif.Dfs

/-- The inputs the property quantifies over: arcs inside `0..order`, distinct in-range sources. -/
structure Inputs (g : Graph) (S : List Nat) : Prop where
  wf : g.WF
  nodup : S.Nodup
  inRange : ∀ s ∈ S, s < g.n

/-- The iteration came to an end by itself (no panic; `fuel` would mean the model's bound on the
number of `next` calls was too small). -/
def Terminated (e : Ending) : Prop := e = .done ∨ e = .stale

/-- C06 for a given quadruple of functions. -/
def StatementFor (dfs : Graph → List Nat → Out Unit) (dfsDist : Graph → List Nat → Out Nat)
    (dfsPred : Graph → List Nat → Out (Option Nat)) (preds : Graph → List Nat → List (Option Nat)) : Prop :=
  ∀ g S, Inputs g S →
    (Terminated (dfs g S).ending ∧ DfsOK g S (dfs g S).verts) ∧
    (Terminated (dfsDist g S).ending ∧ DfsDistOK g S (dfsDist g S).items) ∧
    (Terminated (dfsPred g S).ending ∧ DfsPredOK g S (dfsPred g S).items (preds g S))

/-- Full statement of C06 about (the model of) today's code.  It is FALSE: `dfs_statement_false`. -/
def Statement : Prop := StatementFor dfs dfsDist dfsPred predecessors

/-- The same statement about the corrected variant.  It is TRUE: `statement_fixed`. -/
def StatementFixed : Prop := StatementFor dfsFixed dfsDistFixed dfsPredFixed predecessorsFixed

/-! ## P0 — what does hold for today's code -/

/-- [P0] Fragment of C06 that today's code satisfies: the three iterators end without panic,
yield the same vertex sequence, no vertex twice, only reachable vertices, and — if the run ends on
an empty stack, i.e. without popping a stale entry — every reachable vertex.
MISSING w.r.t. `Statement`: completeness when a stale entry is popped (false, see below).
The preorder / predecessor / depth clauses are `dfs_valid_prefix`. -/
theorem dfs_partial (g : Graph) (S : List Nat) (h : Inputs g S) :
    Terminated (dfs g S).ending ∧
    (dfsDist g S).verts = (dfs g S).verts ∧ (dfsPred g S).verts = (dfs g S).verts ∧
    (dfsDist g S).ending = (dfs g S).ending ∧ (dfsPred g S).ending = (dfs g S).ending ∧
    (dfs g S).verts.Nodup ∧
    (∀ v ∈ (dfs g S).verts, ReachFrom g S v) ∧
    ((dfs g S).ending = .done → ∀ v, ReachFrom g S v → v ∈ (dfs g S).verts) := by
  obtain ⟨h1, h2, h3, h4⟩ := run_new_spec g h.wf childU S h.inRange ()
  refine ⟨h1, ?_, ?_, ?_, ?_, h2, h3, h4⟩
  · rw [dfsDist_eq_ann, dfs_eq_ann, Out.map_verts, Out.map_verts]
  · rw [dfsPred_eq_ann, dfs_eq_ann, Out.map_verts, Out.map_verts]
  · rw [dfsDist_eq_ann, dfs_eq_ann]; rfl
  · rw [dfsPred_eq_ann, dfs_eq_ann]; rfl

/-- [P0] Fuel adequacy: `order + 1` calls of `next` always suffice; more fuel changes nothing. -/
theorem dfs_fuel_adequate (g : Graph) (S : List Nat) (h : Inputs g S) (k : Nat) :
    run g childU (fuel g + k) (new g S ()) = dfs g S ∧
    run g childD (fuel g + k) (new g S 0) = dfsDist g S ∧
    run g childP (fuel g + k) (new g S none) = dfsPred g S :=
  ⟨run_new_fuel_indep g h.wf childU S h.inRange () k, run_new_fuel_indep g h.wf childD S h.inRange 0 k,
   run_new_fuel_indep g h.wf childP S h.inRange none k⟩

/-- The witness of DESIGN.md §7 row 2 (= first line of corpus/C06.txt): 0→1, 0→2, 0→3, 3→2. -/
def witness : Graph := ⟨4, fun u => if u = 0 then [1, 2, 3] else if u = 3 then [2] else []⟩

theorem witness_inputs : Inputs witness [0] := by
  refine ⟨?_, by simp, by simp [witness]⟩
  intro u v hv
  simp only [witness] at hv ⊢
  by_cases h0 : u = 0
  · subst h0; simp at hv; omega
  · by_cases h3 : u = 3
    · subst h3; simp at hv; omega
    · simp [h0, h3] at hv

/-- Today's model on the witness: 0, 3, 2 — vertex 1 is never yielded (the run ends at a stale pop). -/
theorem witness_run : (dfs witness [0]).verts = [0, 3, 2] ∧ (dfs witness [0]).ending = .stale := by decide

/-- [P0] C06 is false for today's code. -/
theorem dfs_statement_false : ¬ Statement := by
  intro h
  have hex := (h witness [0] witness_inputs).1.2.1.2 1
  rw [witness_run.1] at hex
  have : ReachFrom witness [0] 1 := ⟨0, by simp, Reach.step (Reach.refl 0) (by simp [Graph.A, witness])⟩
  have := hex.mpr this
  simp at this

/-! ## P1 — the corrected variant yields exactly the reachable set -/

/-- [P1] `dfsFixed` (and the `Dist` / `Pred` variants) end on an empty stack having yielded every
vertex reachable from a source exactly once and nothing else. -/
theorem dfsFixed_reachable (g : Graph) (S : List Nat) (h : Inputs g S) :
    ((dfsFixed g S).ending = .done ∧ Exact g S (dfsFixed g S).verts) ∧
    ((dfsDistFixed g S).ending = .done ∧ Exact g S (dfsDistFixed g S).verts) ∧
    ((dfsPredFixed g S).ending = .done ∧ Exact g S (dfsPredFixed g S).verts) :=
  ⟨runFixed_new_spec g h.wf childU S h.inRange (), runFixed_new_spec g h.wf childD S h.inRange 0,
   runFixed_new_spec g h.wf childP S h.inRange none⟩

/-- [P1] Fuel adequacy of the corrected variant: `|S| + Σ outdegree + 1` pops always suffice. -/
theorem dfsFixed_fuel_adequate (g : Graph) (S : List Nat) (h : Inputs g S) (k : Nat) :
    runFixed g childU (fuelFixed g S + k) (new g S ()) = dfsFixed g S ∧
    runFixed g childD (fuelFixed g S + k) (new g S 0) = dfsDistFixed g S ∧
    runFixed g childP (fuelFixed g S + k) (new g S none) = dfsPredFixed g S :=
  ⟨runFixed_new_fuel_indep g h.wf childU S h.inRange () k, runFixed_new_fuel_indep g h.wf childD S h.inRange 0 k,
   runFixed_new_fuel_indep g h.wf childP S h.inRange none k⟩

/-! ## P2 — preorder, and the relation between today's code and the corrected variant -/

/-- [P2] Today's output is a prefix of the corrected output (items, i.e. including depths and
predecessors), cut exactly where the corrected variant pops its first stale entry; and when
today's run ends on an empty stack the two coincide. This is the mechanical signature of the
known finding `early-stop-on-stale-pop` used by the driver. -/
theorem dfs_prefix_of_fixed (g : Graph) (S : List Nat) (h : Inputs g S) :
    (dfs g S).items <+: (dfsFixed g S).items ∧
    (dfsDist g S).items <+: (dfsDistFixed g S).items ∧
    (dfsPred g S).items <+: (dfsPredFixed g S).items ∧
    ((dfs g S).ending = .stale →
      staleAt g childU (fuelFixed g S + fuel g) (new g S ()) = some (dfs g S).items.length) ∧
    ((dfs g S).ending = .done →
      dfsFixed g S = dfs g S ∧ dfsDistFixed g S = dfsDist g S ∧ dfsPredFixed g S = dfsPred g S) := by
  refine ⟨run_new_prefix g h.wf childU S h.inRange (), run_new_prefix g h.wf childD S h.inRange 0,
    run_new_prefix g h.wf childP S h.inRange none, ?_, ?_⟩
  · intro hs; exact run_new_stale_at g childU S () _ (by omega) hs
  · intro hd
    have p := dfs_partial g S h
    exact ⟨run_new_done_eq g h.wf childU S h.inRange () hd,
      run_new_done_eq g h.wf childD S h.inRange 0 (by rw [← hd]; exact p.2.2.2.1),
      run_new_done_eq g h.wf childP S h.inRange none (by rw [← hd]; exact p.2.2.2.2.1)⟩

/-- [P2] Everything today's code yields is a valid depth-first step with the prescribed
predecessor and depth, and `predecessors()` is the forest of what was yielded — i.e. all of C06
except completeness. -/
theorem dfs_valid_prefix (g : Graph) (S : List Nat) (h : Inputs g S) :
    ValidDfsPreorder g S (dfs g S).verts ∧
    ∃ ann, annotate g S (dfs g S).verts = some ann ∧
      (dfsDist g S).items = ann.map (fun a => (a.1, a.2.2)) ∧
      (dfsPred g S).items = ann.map (fun a => (a.1, a.2.1)) ∧
      predecessors g S = forestOf g.n ann := by
  have ha := dfsAnn_annot g h.wf S h.inRange
  have hv : (dfs g S).verts = (dfsAnn g S).verts := by rw [dfs_eq_ann, Out.map_verts]
  have hnd : ((dfsAnn g S).items.map (·.1)).Nodup := by
    have := (dfs_partial g S h).2.2.2.2.2.1; rw [hv] at this; exact this
  refine ⟨by simp [ValidDfsPreorder, hv, ha], (dfsAnn g S).items, by rw [hv]; exact ha, ?_, ?_, ?_⟩
  · rw [dfsDist_eq_ann]; rfl
  · rw [dfsPred_eq_ann]; rfl
  · unfold predecessors; rw [dfsPred_eq_ann]; exact predFold_eq_forest g.n _ hnd

/-- [P2] `dfsFixed_preorder`: C06 holds in full for the corrected variant. -/
theorem statement_fixed : StatementFixed := by
  intro g S h
  have ha := dfsAnnFixed_annot g h.wf S h.inRange
  obtain ⟨⟨e1, x1⟩, ⟨e2, x2⟩, ⟨e3, x3⟩⟩ := dfsFixed_reachable g S h
  have hv1 : (dfsFixed g S).verts = (dfsAnnFixed g S).verts := by rw [dfsFixed_eq_ann, Out.map_verts]
  have hv2 : (dfsDistFixed g S).verts = (dfsAnnFixed g S).verts := by rw [dfsDistFixed_eq_ann, Out.map_verts]
  have hv3 : (dfsPredFixed g S).verts = (dfsAnnFixed g S).verts := by rw [dfsPredFixed_eq_ann, Out.map_verts]
  refine ⟨⟨Or.inl e1, x1, by simp [ValidDfsPreorder, hv1, ha]⟩, ⟨Or.inl e2, x2, ?_⟩, ⟨Or.inl e3, x3, ?_⟩⟩
  · refine ⟨(dfsAnnFixed g S).items, ?_, ?_⟩
    · have : (dfsDistFixed g S).items.map (·.1) = (dfsAnnFixed g S).verts := hv2
      rw [this]; exact ha
    · rw [dfsDistFixed_eq_ann]; rfl
  · refine ⟨(dfsAnnFixed g S).items, ?_, ?_, ?_⟩
    · have : (dfsPredFixed g S).items.map (·.1) = (dfsAnnFixed g S).verts := hv3
      rw [this]; exact ha
    · rw [dfsPredFixed_eq_ann]; rfl
    · unfold predecessorsFixed; rw [dfsPredFixed_eq_ann]
      refine predFold_eq_forest g.n _ ?_
      have := x3.1; rw [hv3] at this; exact this

/-- Corollary: on every input on which today's run pops no stale entry, today's code satisfies
the full property (the cases the driver classifies `OK`). -/
theorem dfs_statement_of_no_stale (g : Graph) (S : List Nat) (h : Inputs g S)
    (hd : (dfs g S).ending = .done) :
    DfsOK g S (dfs g S).verts ∧ DfsDistOK g S (dfsDist g S).items ∧
    DfsPredOK g S (dfsPred g S).items (predecessors g S) := by
  obtain ⟨q1, q2, q3⟩ := (dfs_prefix_of_fixed g S h).2.2.2.2 hd
  obtain ⟨⟨_, a⟩, ⟨_, b⟩, ⟨_, c⟩⟩ := statement_fixed g S h
  unfold predecessorsFixed at c
  rw [q1] at a; rw [q2] at b; rw [q3] at c
  exact ⟨a, b, c⟩

/-- The iterators are not fused: a caller that keeps polling after a `None` (model `pollTrace`,
tied to the code by the op `dfs_repoll`) receives exactly the items of the corrected variant, hence
(by `statement_fixed`) a complete depth-first preorder. -/
theorem repoll_is_fixed (g : Graph) (S : List Nat) :
    (pollTrace g childU (fuelFixed g S) (new g S ())).filterMap id = (dfsFixed g S).items ∧
    (pollTrace g childD (fuelFixed g S) (new g S 0)).filterMap id = (dfsDistFixed g S).items ∧
    (pollTrace g childP (fuelFixed g S) (new g S none)).filterMap id = (dfsPredFixed g S).items :=
  ⟨pollTrace_items g childU _ _, pollTrace_items g childD _ _, pollTrace_items g childP _ _⟩

/-! ## The reading of "depth-first preorder" -/

/-- Two independent readings of the property's preorder clause annotate every vertex sequence
identically: `annotate` (explicit search path: parent = deepest path vertex that still has an
unyielded out-neighbour) and `annotateLatest` (no path: parent = most recently yielded vertex that
still has an unyielded out-neighbour, root only when there is none, depth = parent's depth + 1). -/
theorem spec_coherent (g : Graph) (S : List Nat) (xs : List Nat) :
    annotateLatest g S xs = annotate g S xs := annotateLatest_eq g S xs

/-! ## Non-vacuity -/

/-- The documented multi-source example of dfs.rs:118-131 meets the hypotheses … -/
def doc : Graph := ⟨8, fun u => match u with
  | 0 => [1] | 1 => [4] | 2 => [3, 5, 6] | 3 => [0] | 6 => [5, 7] | 7 => [6] | _ => []⟩

example : (dfs doc [3, 7]).verts = [7, 6, 5, 3, 0, 1, 4] ∧ (dfs doc [3, 7]).ending = .done := by decide
example : (dfsDist doc [3, 7]).items = [(7, 0), (6, 1), (5, 2), (3, 0), (0, 1), (1, 2), (4, 3)] := by decide
example : (dfsPred doc [3, 7]).items =
    [(7, none), (6, some 7), (5, some 6), (3, none), (0, some 3), (1, some 0), (4, some 1)] := by decide
example : annotate doc [3, 7] [7, 6, 5, 3, 0, 1, 4] =
    some [(7, none, 0), (6, some 7, 1), (5, some 6, 2), (3, none, 0), (0, some 3, 1), (1, some 0, 2), (4, some 1, 3)] := by
  decide
/-- … and the oracle is not trivially true: it rejects a breadth-first order and a wrong root. -/
example : ¬ ValidDfsPreorder witness [0] [0, 3, 1] := by decide
example : ¬ ValidDfsPreorder witness [0] [1] := by decide
/-- It accepts ANY depth-first preorder, not only the neighbour order the code uses. -/
example : ValidDfsPreorder witness [0] [0, 1, 2, 3] ∧ ValidDfsPreorder witness [0] [0, 2, 1, 3] ∧
    ValidDfsPreorder witness [0] [0, 3, 2, 1] := by decide
/-- The corrected variant on the witness yields all four vertices; today's `[0, 3, 2]` is its prefix
of length `staleAt = 3`. -/
example : (dfsFixed witness [0]).verts = [0, 3, 2, 1] ∧
    staleAt witness childU (fuelFixed witness [0]) (new witness [0] ()) = some 3 := by decide
example : pollTrace witness childU (fuelFixed witness [0]) (new witness [0] ()) =
    [some (0, ()), some (3, ()), some (2, ()), none, some (1, ())] := by decide
example : predecessors witness [0] = [none, none, some 3, some 0] ∧
    predecessorsFixed witness [0] = [none, some 0, some 3, some 0] := by decide

end GraafVerif.C06
