/-! Property theorems for C06 (statements + proofs by reference to `Proof/`). Not built yet. -/
