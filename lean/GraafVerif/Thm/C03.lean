/-! Property theorems for C03 (statements + proofs by reference to `Proof/`). Not built yet. -/
