import GraafVerif.Proof.DijkstraMain
import GraafVerif.Proof.DijkstraNext
/-!
# C03 — Dijkstra reports exact shortest distances and visits each reachable vertex once

Only statements and their proofs by reference (`Proof/Dijkstra*.lean`).  `dijkstra`,
`dijkstraDist`, `distances` are the models of `Dijkstra`, `DijkstraDist` (item sequences) and
`DijkstraDist::distances` (Model/Dijkstra.lean; `none` = `usize::MAX`), tied to the code by the
correspondence run.  Hypotheses `Hyp g S`: arcs in range, weights ≥ 0, sources in range and
distinct.  "Path sums fit in `usize`" is what justifies reading `usize::MAX` as `none`.
-/
namespace GraafVerif.C03
open GraafVerif GraafVerif.Dijkstra

/-- Full statement of C03. -/
def Statement : Prop :=
  ∀ (g : WGraph) (S : List Nat), Hyp g S →
    -- `DijkstraDist`: every reachable vertex exactly once, never an unreachable one …
    ((dijkstraDist g S).map (·.1)).Nodup ∧
    (∀ v, v ∈ (dijkstraDist g S).map (·.1) ↔ WReachFrom g S v) ∧
    -- … each item carries the exact distance …
    (∀ p ∈ dijkstraDist g S, IsMinDist g S p.1 p.2) ∧
    -- … in non-decreasing distance order.
    ((dijkstraDist g S).map (·.2)).Pairwise (· ≤ ·) ∧
    -- `Dijkstra` yields the same vertices in the same order.
    dijkstra g S = (dijkstraDist g S).map (·.1) ∧
    -- `distances()[v]` is the minimum walk weight, and `usize::MAX` exactly when `v` is unreachable.
    (distances g S).length = g.n ∧
    (∀ v, v < g.n → ∀ d, (distances g S)[v]? = some (some d) ↔ IsMinDist g S v d) ∧
    (∀ v, v < g.n → ((distances g S)[v]? = some none ↔ ¬ WReachFrom g S v)) ∧
    -- the iteration terminates: the model's fuel is adequate (more fuel changes nothing)
    (∀ f, fuel g S ≤ f → run g (fun _ => none) f (init g.n S) = entries g (fun _ => none) S)

/-- [P0] Soundness: every emitted `(v, d)` has `d` = weight of a walk from a source to `v`, no
vertex is emitted twice, and the fuel of the model is adequate. -/
theorem dijkstra_sound (g : WGraph) (S : List Nat) (h : Hyp g S) :
    (∀ p ∈ dijkstraDist g S, ∃ s ∈ S, ∃ k, WWalk g s p.1 k p.2) ∧
    ((dijkstraDist g S).map (·.1)).Nodup ∧
    (∀ f, fuel g S ≤ f → run g (fun _ => none) f (init g.n S) = entries g (fun _ => none) S) :=
  dijkstraDist_sound g S h

/-- [P1] Exactness of the item sequence: emitted set = reachable set, keys are the minimum walk
weights, keys are non-decreasing. -/
theorem dijkstra_exact (g : WGraph) (S : List Nat) (h : Hyp g S) :
    (∀ v, v ∈ (dijkstraDist g S).map (·.1) ↔ WReachFrom g S v) ∧
    (∀ p ∈ dijkstraDist g S, IsMinDist g S p.1 p.2) ∧
    ((dijkstraDist g S).map (·.2)).Pairwise (· ≤ ·) :=
  dijkstraDist_exact g S h

/-- `Dijkstra` is `DijkstraDist` without the distances. -/
theorem dijkstra_eq_map_fst (g : WGraph) (S : List Nat) :
    dijkstra g S = (dijkstraDist g S).map (·.1) := by
  simp [dijkstra, dijkstraDist, Function.comp_def]

/-- `Dijkstra` in words of the property: each reachable vertex exactly once, no other, and later
items never have a smaller distance. -/
theorem dijkstra_iter (g : WGraph) (S : List Nat) (h : Hyp g S) :
    (dijkstra g S).Nodup ∧ (∀ v, v ∈ dijkstra g S ↔ WReachFrom g S v) ∧
    (dijkstra g S).Pairwise (fun a b => ∀ da db, IsMinDist g S a da → IsMinDist g S b db → da ≤ db) :=
  dijkstra_iter_spec g S h

/-- [P1] `distances()`: the minimum walk weight, `usize::MAX` (`none`) exactly when unreachable. -/
theorem distances_spec (g : WGraph) (S : List Nat) (h : Hyp g S) :
    (distances g S).length = g.n ∧
    (∀ v, v < g.n → ∀ d, (distances g S)[v]? = some (some d) ↔ IsMinDist g S v d) ∧
    (∀ v, v < g.n → ((distances g S)[v]? = some none ↔ ¬ WReachFrom g S v)) :=
  distances_vec_spec g S h

/-- C03 in full. -/
theorem dijkstra_correct : Statement := by
  intro g S h
  obtain ⟨_, hnd, hfu⟩ := dijkstra_sound g S h
  obtain ⟨h1, h2, h3⟩ := dijkstra_exact g S h
  obtain ⟨h4, h5, h6⟩ := distances_spec g S h
  exact ⟨hnd, h1, h2, h3, dijkstra_eq_map_fst g S, h4, h5, h6, hfu⟩

/-- Model refinement: the literal iterator (`next` = skip loop + relaxation scan, `collect` = call
`next` until `None`) yields exactly the entry sequence `entries` that the theorems above (tag
`fun _ => none`: `Dijkstra`, `DijkstraDist`) and C05's (tag `some`: `DijkstraPred`) speak about. -/
theorem dijkstra_next_collect (g : WGraph) (S : List Nat) (h : Hyp g S) :
    collect g (fun _ => none) (fuel g S) (init g.n S) = entries g (fun _ => none) S ∧
    collect g some (fuel g S) (init g.n S) = entries g some S :=
  ⟨collect_eq_entries h tagOK_none, collect_eq_entries h tagOK_some⟩

/-! Non-vacuity: the digraph on which the unrepaired code lost vertex 3 meets the hypotheses,
and the statement's objects are the expected non-trivial ones. -/
example : Hyp gStale [0] := by
  refine ⟨?_, ?_, by decide, by decide⟩
  · intro u v w h
    have hn : gStale.n = 4 := rfl
    rw [hn]
    unfold gStale at h
    dsimp only at h
    split at h <;> simp at h
    · rcases h with h | h | h <;> omega
    · omega
  · intro u v w h
    unfold WGraph.A gStale at h
    dsimp only at h
    split at h <;> simp at h
    · rcases h with h | h | h <;> omega
    · omega
example : dijkstraDist gStale [0] = [(0, 0), (2, 1), (1, 2), (3, 20)] := by decide
example : distances gStale [0] = [some 0, some 2, some 1, some 20] := by decide
/-- an unreachable vertex and a zero-weight cycle, two sources -/
example : distances ⟨5, fun u => match u with | 0 => [(1, 0)] | 1 => [(0, 0), (2, 3)] | 4 => [(2, 1)] | _ => []⟩ [0, 4]
    = [some 0, some 0, some 1, none, some 0] := by decide

end GraafVerif.C03
