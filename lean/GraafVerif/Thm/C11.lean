import GraafVerif.Proof.OpsAL
import GraafVerif.Proof.OpsEL
import GraafVerif.Proof.OpsMX
import GraafVerif.Proof.OpsW
import GraafVerif.Proof.OpsAMUnion
import GraafVerif.Proof.OpsPartition
import GraafVerif.Proof.OpsCanon
/-!
# C11 — complement, converse, union, filter_vertices compute their set definitions

Statements only; proofs by reference to `Proof/Ops*.lean`.  Models: `Model/Ops.lean` (tied to the
code by the correspondence run `ops_*`), spec: `Spec/Ops.lean` (`DG`, `specComplement`, …).
"The operands are unchanged" is immediate here (the models are pure functions); on the real code it
is checked by the tie (`unchanged` flag of every `ops_*` case).
-/
namespace GraafVerif.C11
open GraafVerif.Ops GraafVerif.Repr

/-- `res` returned normally with a well-formed representation of the digraph `spec`. -/
def Ok {R : Type} (WF : R → Prop) (abs : R → DG) (res : Option R) (spec : DG) : Prop :=
  ∃ r, res = some r ∧ WF r ∧ abs r = spec

/-- `g ∘ f` is the identity on the abstract digraph (`f`, `g` = the same operation, possibly run with
different thread counts). -/
def Involution {R : Type} (WF : R → Prop) (abs : R → DG) (f g : R → Option R) : Prop :=
  ∀ d, WF d → ∃ r r', f d = some r ∧ g r = some r' ∧ WF r' ∧ abs r' = abs d

/-- commutative, idempotent, associative at the abstract level. -/
def UnionAlgebra {R : Type} (WF : R → Prop) (abs : R → DG) (un : R → R → Option R) : Prop :=
  (∀ a b, WF a → WF b → ∃ r r', un a b = some r ∧ un b a = some r' ∧ abs r = abs r') ∧
  (∀ a, WF a → ∃ r, un a a = some r ∧ abs r = abs a) ∧
  (∀ a b c, WF a → WF b → WF c → ∃ ab bc l r, un a b = some ab ∧ un b c = some bc ∧
    un ab c = some l ∧ un a bc = some r ∧ abs l = abs r)

/-! ## The full statement, one block per representation -/

/-- `AdjacencyList` — for every number `ap ≥ 1` of worker threads. -/
def StatementAL : Prop :=
  (∀ d, AdjList.WF d → (absAL d).Valid) ∧
  (∀ d ap, 0 < ap → AdjList.WF d → Ok AdjList.WF absAL (complementAL d ap) (specComplement (absAL d))) ∧
  (∀ d, AdjList.WF d → Ok AdjList.WF absAL (converseAL d) (specConverse (absAL d))) ∧
  (∀ a b ap, 0 < ap → AdjList.WF a → AdjList.WF b →
    Ok AdjList.WF absAL (unionAL a b ap) (specUnion (absAL a) (absAL b))) ∧
  (∀ ap ap', 0 < ap → 0 < ap' → Involution AdjList.WF absAL (complementAL · ap) (complementAL · ap')) ∧
  Involution AdjList.WF absAL converseAL converseAL ∧
  (∀ ap, 0 < ap → UnionAlgebra AdjList.WF absAL (unionAL · · ap))

/-- `AdjacencyMatrix` (`order² < 2^64`: the matrix fits the address space, `empty` checks it). -/
def StatementMX : Prop :=
  let WF := fun d : AdjMatrix => d.WF ∧ d.order * d.order < 2 ^ 64
  (∀ d, AdjMatrix.WF d → (absMX d).Valid) ∧
  (∀ d, WF d → Ok WF absMX (complementMX d) (specComplement (absMX d))) ∧
  (∀ d, WF d → Ok WF absMX (converseMX d) (specConverse (absMX d))) ∧
  (∀ a b, WF a → WF b → Ok WF absMX (unionMX a b) (specUnion (absMX a) (absMX b))) ∧
  Involution WF absMX complementMX complementMX ∧
  Involution WF absMX converseMX converseMX ∧
  UnionAlgebra WF absMX unionMX

/-- `EdgeList`. -/
def StatementEL : Prop :=
  (∀ d, EdgeList.WF d → (absEL d).Valid) ∧
  (∀ d, EdgeList.WF d → Ok EdgeList.WF absEL (some (complementEL d)) (specComplement (absEL d))) ∧
  (∀ d, EdgeList.WF d → Ok EdgeList.WF absEL (some (converseEL d)) (specConverse (absEL d))) ∧
  (∀ a b, EdgeList.WF a → EdgeList.WF b → Ok EdgeList.WF absEL (unionEL a b) (specUnion (absEL a) (absEL b))) ∧
  Involution EdgeList.WF absEL (some ∘ complementEL) (some ∘ complementEL) ∧
  Involution EdgeList.WF absEL (some ∘ converseEL) (some ∘ converseEL) ∧
  UnionAlgebra EdgeList.WF absEL unionEL

/-- `AdjacencyListWeighted` implements `Converse` only; the weights are carried over. -/
def StatementW : Prop :=
  (∀ d, AdjListW.WF d → (absW d).Valid) ∧
  (∀ d, AdjListW.WF d → ∃ r, converseW d = some r ∧ r.WF ∧ absW r = specConverseW (absW d)) ∧
  (∀ d, AdjListW.WF d → ∃ r r', converseW d = some r ∧ converseW r = some r' ∧ r'.WF ∧ absW r' = absW d)

/-- `AdjacencyMap` — arbitrary (non-contiguous) key sets; `union` for every number `ap ≥ 1` of worker
threads.  `filter_vertices` exists for this representation only; its result may be empty
(then it is the empty vertex set with no arcs — not a digraph, but still the set definition). -/
def StatementAM : Prop :=
  let WF := fun d : AdjMap => d.WF ∧ 0 < d.order
  (∀ d, AdjMap.WF d → (absAM d).Valid) ∧
  (∀ d, WF d → Ok WF absAM (some (complementAM d)) (specComplement (absAM d))) ∧
  (∀ d, WF d → Ok WF absAM (some (converseAM d)) (specConverse (absAM d))) ∧
  (∀ a b ap, 0 < ap → WF a → WF b → Ok WF absAM (unionAM a b ap) (specUnion (absAM a) (absAM b))) ∧
  (∀ d p, AdjMap.WF d → Ok AdjMap.WF absAM (some (filterAM d p)) (specFilter p (absAM d))) ∧
  Involution WF absAM (some ∘ complementAM) (some ∘ complementAM) ∧
  Involution WF absAM (some ∘ converseAM) (some ∘ converseAM) ∧
  (∀ ap, 0 < ap → UnionAlgebra WF absAM (unionAM · · ap))

/-- The full property C11. -/
def Statement : Prop := StatementAL ∧ StatementAM ∧ StatementMX ∧ StatementEL ∧ StatementW

/-! ## Generic consequences of the spec-level algebra -/

theorem involution_of_ok {R : Type} {WF : R → Prop} {abs : R → DG} {f g : R → Option R} {S : DG → DG}
    (hf : ∀ d, WF d → Ok WF abs (f d) (S (abs d))) (hg : ∀ d, WF d → Ok WF abs (g d) (S (abs d)))
    (hv : ∀ d, WF d → (abs d).Valid) (hS : ∀ x : DG, x.Valid → S (S x) = x) :
    Involution WF abs f g := by
  intro d hd
  obtain ⟨r, h1, h2, h3⟩ := hf d hd
  obtain ⟨r', h4, h5, h6⟩ := hg r h2
  exact ⟨r, r', h1, h4, h5, by rw [h6, h3, hS _ (hv d hd)]⟩

theorem unionAlgebra_of_ok {R : Type} {WF : R → Prop} {abs : R → DG} {un : R → R → Option R}
    (h : ∀ a b, WF a → WF b → Ok WF abs (un a b) (specUnion (abs a) (abs b))) :
    UnionAlgebra WF abs un := by
  refine ⟨?_, ?_, ?_⟩
  · intro a b ha hb
    obtain ⟨r, h1, _, h3⟩ := h a b ha hb
    obtain ⟨r', h4, _, h6⟩ := h b a hb ha
    exact ⟨r, r', h1, h4, by rw [h3, h6, specUnion_comm]⟩
  · intro a ha
    obtain ⟨r, h1, _, h3⟩ := h a a ha ha
    exact ⟨r, h1, by rw [h3, specUnion_idem]⟩
  · intro a b c ha hb hc
    obtain ⟨ab, h1, h2, h3⟩ := h a b ha hb
    obtain ⟨bc, h4, h5, h6⟩ := h b c hb hc
    obtain ⟨l, h7, _, h9⟩ := h ab c h2 hc
    obtain ⟨r, h10, _, h12⟩ := h a bc ha h5
    exact ⟨ab, bc, l, r, h1, h4, h7, h10, by rw [h9, h12, h3, h6, specUnion_assoc]⟩

/-! ## Proved blocks -/

/-- C11 for `AdjacencyList`, every thread count (P0). -/
theorem statementAL : StatementAL := by
  have hc : ∀ d ap, 0 < ap → AdjList.WF d →
      Ok AdjList.WF absAL (complementAL d ap) (specComplement (absAL d)) :=
    fun d ap hap h => complementAL_spec d ap hap h
  have hv : ∀ d, AdjList.WF d → Ok AdjList.WF absAL (converseAL d) (specConverse (absAL d)) :=
    fun d h => converseAL_spec d h
  have hu : ∀ a b ap, 0 < ap → AdjList.WF a → AdjList.WF b →
      Ok AdjList.WF absAL (unionAL a b ap) (specUnion (absAL a) (absAL b)) :=
    fun a b ap hap ha hb => unionAL_spec a b ap hap ha hb
  refine ⟨fun d h => absAL_valid h, hc, hv, hu, ?_, ?_, ?_⟩
  · intro ap ap' h1 h2
    exact involution_of_ok (fun d h => hc d ap h1 h) (fun d h => hc d ap' h2 h)
      (fun d h => absAL_valid h) (fun x hx => specComplement_involutive hx)
  · exact involution_of_ok hv hv (fun d h => absAL_valid h) (fun x _ => specConverse_involutive x)
  · intro ap hap
    exact unionAlgebra_of_ok (fun a b ha hb => hu a b ap hap ha hb)

/-- C11 for `AdjacencyMatrix` (P0). -/
theorem statementMX : StatementMX := by
  have hord : ∀ {d r : AdjMatrix}, (∀ v, (absMX r).V v ↔ (absMX d).V v) → r.order = d.order := by
    intro d r h1
    have : ∀ v, v < r.order ↔ v < d.order := fun v => by rw [← absMX_V, ← absMX_V]; exact h1 v
    have a := (this d.order).mp
    have b := (this r.order).mpr
    omega
  have hc : ∀ d : AdjMatrix, d.WF ∧ d.order * d.order < 2 ^ 64 →
      Ok (fun d : AdjMatrix => d.WF ∧ d.order * d.order < 2 ^ 64) absMX (complementMX d)
        (specComplement (absMX d)) := by
    intro d h
    obtain ⟨r, h1, h2, h3⟩ := complementMX_spec d h.1 h.2
    have : r.order = d.order := hord (d := d) (DG.ext_iff'.mp h3).1
    exact ⟨r, h1, ⟨h2, by rw [this]; exact h.2⟩, h3⟩
  have hv : ∀ d : AdjMatrix, d.WF ∧ d.order * d.order < 2 ^ 64 →
      Ok (fun d : AdjMatrix => d.WF ∧ d.order * d.order < 2 ^ 64) absMX (converseMX d)
        (specConverse (absMX d)) := by
    intro d h
    obtain ⟨r, h1, h2, h3⟩ := converseMX_spec d h.1 h.2
    have : r.order = d.order := hord (d := d) (DG.ext_iff'.mp h3).1
    exact ⟨r, h1, ⟨h2, by rw [this]; exact h.2⟩, h3⟩
  have hu : ∀ a b : AdjMatrix, a.WF ∧ a.order * a.order < 2 ^ 64 → b.WF ∧ b.order * b.order < 2 ^ 64 →
      Ok (fun d : AdjMatrix => d.WF ∧ d.order * d.order < 2 ^ 64) absMX (unionMX a b)
        (specUnion (absMX a) (absMX b)) := by
    intro a b ha hb
    obtain ⟨r, h1, h2, h3⟩ := unionMX_spec a b ha.1 hb.1
    refine ⟨r, h1, ⟨h2, ?_⟩, h3⟩
    have hV := (DG.ext_iff'.mp h3).1
    have hmax : r.order = max a.order b.order := by
      have : ∀ v, v < r.order ↔ v < a.order ∨ v < b.order := fun v => by
        have := hV v; simp only [specUnion] at this; rw [absMX_V, absMX_V, absMX_V] at this; exact this
      have x := (this (max a.order b.order)).mp
      have y := (this r.order).mpr
      omega
    rw [hmax]
    rcases Nat.le_total a.order b.order with hle | hle
    · rw [Nat.max_eq_right hle]; exact hb.2
    · rw [Nat.max_eq_left hle]; exact ha.2
  refine ⟨fun d h => absMX_valid h, hc, hv, hu, ?_, ?_, ?_⟩
  · exact involution_of_ok hc hc (fun d h => absMX_valid h.1) (fun x hx => specComplement_involutive hx)
  · exact involution_of_ok hv hv (fun d h => absMX_valid h.1) (fun x _ => specConverse_involutive x)
  · exact unionAlgebra_of_ok hu

/-- C11 for `EdgeList` (P0). -/
theorem statementEL : StatementEL := by
  have hc : ∀ d, EdgeList.WF d → Ok EdgeList.WF absEL (some (complementEL d)) (specComplement (absEL d)) :=
    fun d h => ⟨_, rfl, complementEL_wf h, complementEL_abs d⟩
  have hv : ∀ d, EdgeList.WF d → Ok EdgeList.WF absEL (some (converseEL d)) (specConverse (absEL d)) :=
    fun d h => ⟨_, rfl, converseEL_wf h, converseEL_abs d⟩
  have hu : ∀ a b, EdgeList.WF a → EdgeList.WF b →
      Ok EdgeList.WF absEL (unionEL a b) (specUnion (absEL a) (absEL b)) :=
    fun a b ha hb => unionEL_spec a b ha hb
  refine ⟨fun d h => absEL_valid h, hc, hv, hu, ?_, ?_, ?_⟩
  · exact involution_of_ok (f := some ∘ complementEL) (g := some ∘ complementEL) hc hc
      (fun d h => absEL_valid h) (fun x hx => specComplement_involutive hx)
  · exact involution_of_ok (f := some ∘ converseEL) (g := some ∘ converseEL) hv hv
      (fun d h => absEL_valid h) (fun x _ => specConverse_involutive x)
  · exact unionAlgebra_of_ok hu

/-- C11 for `AdjacencyListWeighted::converse` (P0). -/
theorem statementW : StatementW := by
  refine ⟨fun d h => absW_valid h, fun d h => converseW_spec d h, ?_⟩
  intro d h
  obtain ⟨r, h1, h2, h3⟩ := converseW_spec d h
  obtain ⟨r', h4, h5, h6⟩ := converseW_spec r h2
  exact ⟨r, r', h1, h4, h5, by rw [h6, h3, specConverseW_involutive]⟩

/-- C11 for `AdjacencyMap`, arbitrary key sets, every thread count (P1). -/
theorem statementAM : StatementAM := by
  have hpos : ∀ {d r : AdjMap}, 0 < d.order → (∀ v, (absAM d).V v → (absAM r).V v) → 0 < r.order := by
    intro d r hd hV
    have hne : d.rows ≠ [] := by intro e; simp [AdjMap.order, e] at hd
    obtain ⟨e, es, he⟩ := List.exists_cons_of_ne_nil hne
    have : (absAM r).V e.1 := hV e.1 (by rw [absAM_V, he]; simp [keysAM])
    rw [absAM_V] at this
    cases hr : r.rows with
    | nil => rw [hr] at this; simp [keysAM] at this
    | cons x xs => simp [AdjMap.order, hr]
  have hc : ∀ d : AdjMap, d.WF ∧ 0 < d.order →
      Ok (fun d : AdjMap => d.WF ∧ 0 < d.order) absAM (some (complementAM d)) (specComplement (absAM d)) := by
    intro d h
    obtain ⟨h1, h2⟩ := complementAM_spec d h.1
    exact ⟨_, rfl, ⟨h1, hpos h.2 (fun v hv => by rw [h2]; exact hv)⟩, h2⟩
  have hv : ∀ d : AdjMap, d.WF ∧ 0 < d.order →
      Ok (fun d : AdjMap => d.WF ∧ 0 < d.order) absAM (some (converseAM d)) (specConverse (absAM d)) := by
    intro d h
    obtain ⟨h1, h2⟩ := converseAM_spec d h.1
    exact ⟨_, rfl, ⟨h1, hpos h.2 (fun v hv => by rw [h2]; exact hv)⟩, h2⟩
  have hu : ∀ (a b : AdjMap) (ap : Nat), 0 < ap → a.WF ∧ 0 < a.order → b.WF ∧ 0 < b.order →
      Ok (fun d : AdjMap => d.WF ∧ 0 < d.order) absAM (unionAM a b ap) (specUnion (absAM a) (absAM b)) := by
    intro a b ap hap ha hb
    obtain ⟨r, h1, h2, h3⟩ := unionAM_spec a b ap hap ha.1 hb.1 (by omega)
    exact ⟨r, h1, ⟨h2, hpos ha.2 (fun v hv => by rw [h3]; exact Or.inl hv)⟩, h3⟩
  refine ⟨fun d h => absAM_valid h, hc, hv, hu,
    fun d p h => ⟨_, rfl, (filterAM_spec d p h).1, (filterAM_spec d p h).2⟩, ?_, ?_, ?_⟩
  · exact involution_of_ok (f := some ∘ complementAM) (g := some ∘ complementAM) hc hc
      (fun d h => absAM_valid h.1) (fun x hx => specComplement_involutive hx)
  · exact involution_of_ok (f := some ∘ converseAM) (g := some ∘ converseAM) hv hv
      (fun d h => absAM_valid h.1) (fun x _ => specConverse_involutive x)
  · intro ap hap
    exact unionAlgebra_of_ok (fun a b ha hb => hu a b ap hap ha hb)

/-- **C11, full statement.** -/
theorem statement : Statement := ⟨statementAL, statementAM, statementMX, statementEL, statementW⟩

/-! ## The identities as equalities of representations (what `==` decides on the real results)

`WF` representations are canonical (`Proof/OpsCanon.lean`), so the abstract identities above are
structural equalities: `complement (complement d) = d` etc. — the flags `invol`, `comm`, `idem`,
`assoc` of the `ops_*` cases are these equalities evaluated on the real code. -/

def InvolutionEq {R : Type} (WF : R → Prop) (f g : R → Option R) : Prop :=
  ∀ d, WF d → ∃ r, f d = some r ∧ g r = some d

def UnionAlgebraEq {R : Type} (WF : R → Prop) (un : R → R → Option R) : Prop :=
  (∀ a b, WF a → WF b → ∃ r, un a b = some r ∧ un b a = some r) ∧
  (∀ a, WF a → un a a = some a) ∧
  (∀ a b c, WF a → WF b → WF c → ∃ ab bc r, un a b = some ab ∧ un b c = some bc ∧
    un ab c = some r ∧ un a bc = some r)

def StatementStructural : Prop :=
  let WFM := fun d : AdjMap => d.WF ∧ 0 < d.order
  let WFX := fun d : AdjMatrix => d.WF ∧ d.order * d.order < 2 ^ 64
  (∀ ap ap', 0 < ap → 0 < ap' → InvolutionEq AdjList.WF (complementAL · ap) (complementAL · ap')) ∧
  InvolutionEq AdjList.WF converseAL converseAL ∧
  (∀ ap, 0 < ap → UnionAlgebraEq AdjList.WF (unionAL · · ap)) ∧
  InvolutionEq WFM (some ∘ complementAM) (some ∘ complementAM) ∧
  InvolutionEq WFM (some ∘ converseAM) (some ∘ converseAM) ∧
  (∀ ap, 0 < ap → UnionAlgebraEq WFM (unionAM · · ap)) ∧
  InvolutionEq WFX complementMX complementMX ∧
  InvolutionEq WFX converseMX converseMX ∧
  UnionAlgebraEq WFX unionMX ∧
  InvolutionEq EdgeList.WF (some ∘ complementEL) (some ∘ complementEL) ∧
  InvolutionEq EdgeList.WF (some ∘ converseEL) (some ∘ converseEL) ∧
  UnionAlgebraEq EdgeList.WF unionEL ∧
  (∀ d : AdjListW, d.WF → ∃ r, converseW d = some r ∧ converseW r = some d)

theorem involutionEq_of {R : Type} {WF : R → Prop} {abs : R → DG} {f g : R → Option R}
    (h : Involution WF abs f g) (canon : ∀ a b, WF a → WF b → abs a = abs b → a = b) :
    InvolutionEq WF f g := by
  intro d hd
  obtain ⟨r, r', h1, h2, h3, h4⟩ := h d hd
  exact ⟨r, h1, by rw [h2, canon r' d h3 hd h4]⟩

theorem unionAlgebraEq_of {R : Type} {WF : R → Prop} {abs : R → DG} {un : R → R → Option R}
    (h : ∀ a b, WF a → WF b → Ok WF abs (un a b) (specUnion (abs a) (abs b)))
    (canon : ∀ a b, WF a → WF b → abs a = abs b → a = b) : UnionAlgebraEq WF un := by
  refine ⟨?_, ?_, ?_⟩
  · intro a b ha hb
    obtain ⟨r, h1, h2, h3⟩ := h a b ha hb
    obtain ⟨r', h4, h5, h6⟩ := h b a hb ha
    exact ⟨r, h1, by rw [h4, canon r' r h5 h2 (by rw [h6, h3, specUnion_comm])]⟩
  · intro a ha
    obtain ⟨r, h1, h2, h3⟩ := h a a ha ha
    rw [h1, canon r a h2 ha (by rw [h3, specUnion_idem])]
  · intro a b c ha hb hc
    obtain ⟨ab, h1, h2, h3⟩ := h a b ha hb
    obtain ⟨bc, h4, h5, h6⟩ := h b c hb hc
    obtain ⟨l, h7, h8, h9⟩ := h ab c h2 hc
    obtain ⟨r, h10, h11, h12⟩ := h a bc ha h5
    exact ⟨ab, bc, l, h1, h4, h7,
      by rw [h10, canon r l h11 h8 (by rw [h9, h12, h3, h6, specUnion_assoc])]⟩

/-- The algebraic identities hold as equalities of representations, every thread count. -/
theorem statementStructural : StatementStructural := by
  obtain ⟨_, _, _, huL, hcL, hvL, _⟩ := statementAL
  obtain ⟨_, _, _, huM, _, hcM, hvM, _⟩ := statementAM
  obtain ⟨_, _, _, huX, hcX, hvX, _⟩ := statementMX
  obtain ⟨_, _, _, huE, hcE, hvE, _⟩ := statementEL
  refine ⟨?_, ?_, ?_, ?_, ?_, ?_, ?_, ?_, ?_, ?_, ?_, ?_, ?_⟩
  · exact fun ap ap' h1 h2 => involutionEq_of (hcL ap ap' h1 h2) (fun a b => canonAL)
  · exact involutionEq_of hvL (fun a b => canonAL)
  · exact fun ap hap => unionAlgebraEq_of (fun a b ha hb => huL a b ap hap ha hb) (fun a b => canonAL)
  · exact involutionEq_of hcM (fun a b ha hb => canonAM ha.1 hb.1)
  · exact involutionEq_of hvM (fun a b ha hb => canonAM ha.1 hb.1)
  · exact fun ap hap => unionAlgebraEq_of (fun a b ha hb => huM a b ap hap ha hb)
      (fun a b ha hb => canonAM ha.1 hb.1)
  · exact involutionEq_of hcX (fun a b ha hb => canonMX ha.1 hb.1)
  · exact involutionEq_of hvX (fun a b ha hb => canonMX ha.1 hb.1)
  · exact unionAlgebraEq_of huX (fun a b ha hb => canonMX ha.1 hb.1)
  · exact involutionEq_of hcE (fun a b => canonEL)
  · exact involutionEq_of hvE (fun a b => canonEL)
  · exact unionAlgebraEq_of huE (fun a b => canonEL)
  · intro d hd
    obtain ⟨r, r', h1, h2, h3, h4⟩ := statementW.2.2 d hd
    exact ⟨r, h1, by rw [h2, canonW h3 hd h4]⟩

/-! ## `merge_two_sorted_spec` (P0) -/

theorem merge_two_sorted_spec (l r : List Nat) (hl : SortedS l) (hr : SortedS r) :
    SortedS (mergeTwoSorted l r) ∧ (∀ x, x ∈ mergeTwoSorted l r ↔ x ∈ l ∨ x ∈ r) ∧
    ∀ fuel, l.length + r.length ≤ fuel → mergeFuel fuel l r = mergeTwoSorted l r :=
  ⟨sorted_mergeTwoSorted hl hr, fun _ => mem_mergeTwoSorted, fun f h => mergeFuel_adequate f l r h⟩

/-! ## Thread-count independence (the C17 pieces) -/

theorem complementAL_threads (d : AdjList) (ap : Nat) (hap : 0 < ap) (hn : 0 < d.order) :
    complementAL d ap = some (complementSeqAL d) := complementAL_par_eq_seq d ap hap hn

theorem unionAL_threads (a b : AdjList) (ap : Nat) (hap : 0 < ap) (hn : 0 < max a.order b.order) :
    unionAL a b ap = some (unionSeqAL a b) := unionAL_par_eq_seq a b ap hap hn

/-- … and that single-threaded definition is the plain set expression, row by row. -/
theorem complementAL_threads_def (d : AdjList) (ap : Nat) (hap : 0 < ap) (h : d.WF) :
    complementAL d ap = some ⟨(List.range d.order).map (fun u =>
      (List.range d.order).filter (fun v => v != u && !(d.rows[u]?.getD []).contains v))⟩ := by
  rw [complementAL_par_eq_seq d ap hap h.1]
  unfold complementSeqAL
  congr 2
  apply List.map_congr_left
  intro u _
  exact complementRowAL_eq h u

/-- `mapUnion_spec`: wherever the partition boundaries fall. -/
theorem unionAM_threads (a b : AdjMap) (ap : Nat) (hap : 0 < ap) (ha : a.WF) (hb : b.WF)
    (hn : 0 < a.rows.length + b.rows.length) : unionAM a b ap = some (unionSeqAM a b) :=
  unionAM_par_eq_seq a b ap hap ha hb hn

/-- `mapUnion_spec` (P1), in the result form: for every thread count `AdjacencyMap::union` returns a
well-formed map whose abstract digraph is the union — arbitrary (non-contiguous) key sets. -/
theorem mapUnion_spec (a b : AdjMap) (ap : Nat) (hap : 0 < ap) (ha : a.WF) (hb : b.WF)
    (hn : 0 < a.order + b.order) :
    ∃ r, unionAM a b ap = some r ∧ r.WF ∧ absAM r = specUnion (absAM a) (absAM b) :=
  unionAM_spec a b ap hap ha hb hn

/-- `findPartition_monotone` (P1): for key-sorted inputs the merge-path boundaries are
non-decreasing in both coordinates along `r ≤ r' ≤ n1 + n2`, start at `(0,0)`, end at `(n1,n2)`,
stay inside the inputs and sum to the diagonal. -/
theorem findPartition_monotone (lhs rhs : List Entry) (hl : SortedK lhs) (hr : SortedK rhs)
    (r r' : Nat) (hrr : r ≤ r') (hrn : r' ≤ lhs.length + rhs.length) :
    findPartition 0 lhs rhs = (0, 0) ∧
    findPartition (lhs.length + rhs.length) lhs rhs = (lhs.length, rhs.length) ∧
    (findPartition r lhs rhs).1 ≤ (findPartition r' lhs rhs).1 ∧
    (findPartition r lhs rhs).2 ≤ (findPartition r' lhs rhs).2 ∧
    (findPartition r lhs rhs).1 + (findPartition r lhs rhs).2 = r ∧
    (findPartition r lhs rhs).1 ≤ lhs.length ∧ (findPartition r lhs rhs).2 ≤ rhs.length :=
  ⟨findPartition_zero lhs rhs, findPartition_end lhs rhs, Ops.findPartition_monotone hl hr hrr hrn⟩

/-- Consequently every input entry of `AdjacencyMap::union` is consumed by exactly one worker: the
workers' slices of `lhs` (and of `rhs`), concatenated in worker order, are `lhs` (resp. `rhs`).
(This is also the no-double-`ptr::read` obligation of C13.) -/
theorem unionAM_each_entry_once (lhs rhs : List Entry) (hl : SortedK lhs) (hr : SortedK rhs) (t : Nat)
    (ht : 0 < t) :
    (List.range t).flatMap (fun k =>
      (lhs.drop ((boundaries lhs rhs t)[k]?.getD (0, 0)).1).take
        (((boundaries lhs rhs t)[k + 1]?.getD (0, 0)).1 - ((boundaries lhs rhs t)[k]?.getD (0, 0)).1)) = lhs ∧
    (List.range t).flatMap (fun k =>
      (rhs.drop ((boundaries lhs rhs t)[k]?.getD (0, 0)).2).take
        (((boundaries lhs rhs t)[k + 1]?.getD (0, 0)).2 - ((boundaries lhs rhs t)[k]?.getD (0, 0)).2)) = rhs :=
  unionAM_slices_tile lhs rhs hl hr t ht

/-- The order `sort_unstable_by_key` gives to equal keys is irrelevant: with any function that sorts
by key the tail of `union` yields the same map. -/
theorem unionAM_sort_order_irrelevant (sort : List Entry → List Entry)
    (hmem : ∀ l e, e ∈ sort l ↔ e ∈ l) (hsorted : ∀ l, (sort l).Pairwise (fun a b => a.1 ≤ b.1))
    (a b : AdjMap) (t : Nat) (ht : 0 < t) (ha : a.WF) (hb : b.WF) :
    toMap (foldDup (sort (mergedAM a.rows b.rows t))) = (unionSeqAM a b).rows :=
  unionAM_tail_any_sort sort hmem hsorted a b t ht ha hb

/-! ## Non-vacuity -/

example : AdjList.WF ⟨[[1], [2], [0, 1]]⟩ := by
  refine ⟨by decide, ?_⟩
  intro u row h
  match u, h with
  | 0, h => cases h; simp [SortedS, AdjList.order]
  | 1, h => cases h; simp [SortedS, AdjList.order]
  | 2, h => cases h; simp [SortedS, AdjList.order]
  | n+3, h => simp at h
example : complementAL ⟨[[1], [2], [0, 1]]⟩ 2 = some ⟨[[2], [0], []]⟩ := by decide
example : unionAL ⟨[[1], [2], [0, 1]]⟩ ⟨[[1, 3], [], [], [0], [2]]⟩ 3 =
    some ⟨[[1, 3], [2], [0, 1], [0], [2]]⟩ := by decide
example : unionSeqAM ⟨[(0, [5]), (5, [])]⟩ ⟨[(0, [7]), (5, [0]), (7, [])]⟩ =
    ⟨[(0, [5, 7]), (5, [0]), (7, [])]⟩ := by decide
-- what three workers hand back before the final sort + fold (`sortByKey` is `List.mergeSort`,
-- which `decide` cannot unfold; the driver evaluates the whole `unionAM`)
example : mergedAM [(0, [5]), (5, [])] [(0, [7]), (5, [0]), (7, [])] 3 =
    [(0, [5]), (0, [7]), (5, []), (5, [0]), (7, [])] := by decide
-- equal keys straddle the partition boundaries here: worker 0 gets `lhs[0..1]` only
example : boundaries [(0, [5]), (5, [])] [(0, [7]), (5, [0]), (7, [])] 3 = [(0, 0), (1, 0), (2, 1), (2, 3)] := by
  decide
example : complementAM ⟨[(0, [5]), (5, [])]⟩ = ⟨[(0, []), (5, [0])]⟩ := by decide
example : filterAM ⟨[(0, [5]), (5, []), (7, [0, 5])]⟩ (fun v => v != 0) = ⟨[(5, []), (7, [5])]⟩ := by decide
example : converseW ⟨[[(1, 5), (2, -3)], [], [(0, 7)]]⟩ = some ⟨[[(2, 7)], [(0, 5)], [(0, -3)]]⟩ := by decide

end GraafVerif.C11
