/-! Property theorems for C11 (statements + proofs by reference to `Proof/`). Not built yet. -/
