import GraafVerif.Model.Johnson
import GraafVerif.Spec.Johnson
import GraafVerif.Proof.JohnsonSpec
import GraafVerif.Proof.JohnsonTop
import GraafVerif.Proof.JohnsonTop2
import GraafVerif.Proof.JohnsonTarjan3
import GraafVerif.Proof.JohnsonFuel
import GraafVerif.Proof.JohnsonDriverGraph
import GraafVerif.Proof.JohnsonRepeat
/-!
# C10 — Johnson75 enumerates every elementary circuit exactly once

Only statements and proofs-by-reference.  `circuits` is the model of `Johnson75::circuits`
(`Model/Johnson.lean`, `Model/JohnsonTarjan.lean`, `Model/JohnsonMap.lean`), tied to the code by
the correspondence run; `allCircuits` is the naive enumerator the driver uses as oracle.
-/
namespace GraafVerif.C10
open GraafVerif GraafVerif.Johnson

/-- Full statement of C10: on every simple digraph with vertex set `0..n` the model of
`Johnson75::circuits` returns a duplicate-free list whose members are exactly the canonical
elementary circuits (each elementary circuit exactly once, written from its smallest vertex,
and nothing else). -/
def Statement : Prop :=
  ∀ g : Graph, g.WF → NoLoops g → RowsNodup g →
    (circuits g).Nodup ∧ ∀ c, c ∈ circuits g ↔ IsCanonicalElemCircuit g c

/-- The `assert!` at the head of `circuits()` never fires on a vertex set `0..n`: the checked
model (`none` = panic) returns `circuits g`. -/
theorem circuitsChecked_ofGraph (g : Graph) : circuitsChecked (AM.ofGraph g) = some (circuits g) := by
  unfold circuitsChecked
  have : (AM.ofGraph g).verts.all (fun u => decide (u < (AM.ofGraph g).order)) = true := by
    simp [AM.ofGraph, AM.order]
  rw [if_pos this]
  rfl

/-! ## P0 — the oracle is verified -/

/-- The naive enumerator returns exactly the canonical elementary circuits … -/
theorem allCircuits_spec (g : Graph) (hwf : g.WF) (c : List Nat) :
    c ∈ allCircuits g ↔ IsCanonicalElemCircuit g c := Johnson.allCircuits_spec g hwf c

/-- … each exactly once. -/
theorem allCircuits_nodup (g : Graph) (hrows : RowsNodup g) : (allCircuits g).Nodup :=
  Johnson.allCircuits_nodup g hrows

/-! ## P1 — soundness of the model -/

/-- Every list the model of `Johnson75::circuits` returns is a canonical elementary circuit
(length ≥ 2, distinct vertices, consecutive arcs, closing arc, starts at its minimum) and no list
is returned twice.  (Invariant: the stack is a duplicate-free path of blocked vertices inside the
component, and no cascade of `unblock` started at a stack vertex reaches a vertex below it.) -/
theorem johnson_sound (g : Graph) (hwf : g.WF) (hloops : NoLoops g) (hrows : RowsNodup g) :
    (circuits g).Nodup ∧ ∀ c ∈ circuits g, IsCanonicalElemCircuit g c :=
  Johnson.circuits_sound g hwf hloops hrows

/-- Consequence: the model's output is a duplicate-free sub-multiset of the verified enumeration;
the two are permutations of each other as soon as their lengths agree (what the driver checks
per instance for the implementation). -/
theorem johnson_subset_allCircuits (g : Graph) (hwf : g.WF) (hloops : NoLoops g) (hrows : RowsNodup g) :
    ∀ c ∈ circuits g, c ∈ allCircuits g :=
  fun c hc => (allCircuits_spec g hwf c).2 ((johnson_sound g hwf hloops hrows).2 c hc)

/-! ## P2 — completeness of the model -/

/-- What Johnson's loop needs from Tarjan, proved for the Tarjan model: on the subgraph induced
by the vertices `≥ s`, every emitted component that contains `s` contains every vertex of every
canonical circuit starting at `s`.  (Classical Tarjan invariants, `Proof/JohnsonTarjan2.lean`:
stack indices increasing, indexed = stack ∪ popped, `low ≤ index`, every prefix of the emitted
components closed under arcs, components pairwise disjoint; fuel adequacy of `connect` is part of
the proof: the recursion is never cut short because every call indexes a new vertex.) -/
theorem tarjan_covers (g : Graph) (hwf : g.WF) : TarjanCovers g := Johnson.tarjanCovers g hwf

/-- Completeness relative to `TarjanCovers` (Johnson's blocked / B-list invariant: a blocked
vertex `x` that is not on the stack has no arc to `s`, all its out-neighbours `w` are blocked and
`x ∈ B[w]`; hence a vertex from which `s` can be reached avoiding the stack is never blocked). -/
theorem johnson_complete_of_tarjan (g : Graph) (hwf : g.WF) (hloops : NoLoops g) (hrows : RowsNodup g)
    (htc : TarjanCovers g) : ∀ c, IsCanonicalElemCircuit g c → c ∈ circuits g :=
  Johnson.circuits_complete_of_tarjan g hwf hloops hrows htc

/-- Every canonical elementary circuit is returned by the model of `Johnson75::circuits`. -/
theorem johnson_complete (g : Graph) (hwf : g.WF) (hloops : NoLoops g) (hrows : RowsNodup g) :
    ∀ c, IsCanonicalElemCircuit g c → c ∈ circuits g :=
  johnson_complete_of_tarjan g hwf hloops hrows (tarjan_covers g hwf)

/-! ## The full statement -/

/-- C10 for the model: each elementary circuit exactly once, in canonical form, nothing else. -/
theorem statement : Statement := fun g hwf hloops hrows =>
  ⟨(johnson_sound g hwf hloops hrows).1,
   fun c => ⟨(johnson_sound g hwf hloops hrows).2 c, johnson_complete g hwf hloops hrows c⟩⟩

/-- The model's output is a permutation of the verified naive enumeration (the relation the
driver checks between the IMPLEMENTATION's output and `allCircuits` on every instance). -/
theorem johnson_perm_allCircuits (g : Graph) (hwf : g.WF) (hloops : NoLoops g) (hrows : RowsNodup g) :
    (circuits g).Perm (allCircuits g) :=
  (List.perm_ext_iff_of_nodup (johnson_sound g hwf hloops hrows).1 (allCircuits_nodup g hrows)).2
    (fun c => ((statement g hwf hloops hrows).2 c).trans (allCircuits_spec g hwf c).symm)

/-- The digraph the driver builds from a description whose arcs are in range and loop-free (what
the handler checks before evaluating a case) satisfies the hypotheses of `statement`, so on every
evaluated instance the model output IS a permutation of `allCircuits` — a MISMATCH-free,
PROPFAIL-free case therefore shows that the implementation returned the model's list and that
list is exactly the set of canonical elementary circuits. -/
theorem statement_on_driver_graphs (n : Nat) (arcs : List (Nat × Nat))
    (hv : ∀ a ∈ arcs, a.1 < n ∧ a.2 < n ∧ a.1 ≠ a.2) :
    (circuits (Graph.ofRows (rowsOfArcs n arcs))).Perm (allCircuits (Graph.ofRows (rowsOfArcs n arcs))) := by
  obtain ⟨h1, h2, h3⟩ := Johnson.driver_graph_ok n arcs hv
  exact johnson_perm_allCircuits _ h1 h2 h3

/-! ## State carried between calls -/

/-- `circuits()` called `k` times on the SAME `Johnson75` value (`blocked`, `b`, `stack` survive a
call — e.g. the root of every trivial component stays blocked — only `result` is fresh): EVERY
call returns each elementary circuit exactly once, in canonical form, and nothing else.  The
per-root reset loop of `circuits` is what makes each round independent of the stale state. -/
theorem johnson_repeat_statement (g : Graph) (hwf : g.WF) (hloops : NoLoops g) (hrows : RowsNodup g)
    (k : Nat) : (circuitsRepeat (AM.ofGraph g) k (JState.new (AM.ofGraph g))).length = k ∧
    ∀ out ∈ circuitsRepeat (AM.ofGraph g) k (JState.new (AM.ofGraph g)),
      out.Nodup ∧ ∀ c, c ∈ out ↔ IsCanonicalElemCircuit g c :=
  ⟨Johnson.circuitsRepeat_length _ k _,
   Johnson.repeat_statement g hwf hloops hrows k _ (Johnson.GInv2.new g)⟩

/-- The first of the repeated calls is `circuits g`. -/
theorem johnson_repeat_first (g : Graph) (k : Nat) :
    (circuitsRepeat (AM.ofGraph g) (k+1) (JState.new (AM.ofGraph g))).head? = some (circuits g) := rfl

/-- Fuel adequacy of `unblock`: any fuel above the number of blocked vertices gives the same
result (each recursion level removes one vertex from `blocked`). -/
theorem unblock_fuel_adequate (f1 f2 : Nat) (st : JState) (u : Nat) (hnd : st.blocked.Nodup)
    (h1 : st.blocked.length < f1) (h2 : st.blocked.length < f2) : unblock f1 st u = unblock f2 st u :=
  Johnson.unblock_fuel_irrel f1 f2 st u hnd h1 h2

/-- Fuel adequacy of `circuit`: from any state satisfying the soundness invariant `Inv`, any two
fuels of at least (number of component vertices − stack height) give the same result — the
recursion depth is bounded because the stack stays duplicate-free inside the component. -/
theorem circuit_fuel_adequate (comp : AM) (s uf : Nat) (hrow : ∀ u, (comp.out u).Nodup)
    (hclosed : ∀ u ∈ comp.verts, ∀ w ∈ comp.out u, w ∈ comp.verts)
    (f1 f2 : Nat) (st : JState) (v : Nat) (hinv : Inv comp st) (hv : v ∉ st.blocked) (hvc : v ∈ comp.verts)
    (hwalk : IsWalk comp.gr (st.stack ++ [v])) (h1 : comp.verts.length ≤ f1 + st.stack.length)
    (h2 : comp.verts.length ≤ f2 + st.stack.length) :
    circuit comp s uf f1 st v = circuit comp s uf f2 st v :=
  Johnson.circuit_fuel_irrel comp s uf hrow hclosed f1 f2 st v hinv hv hvc hwalk h1 h2

/-- Fuel adequacy of the Tarjan model: every call of `connect` indexes a new vertex, so any fuel
above the number of unindexed vertices gives the same result, and `components` does not depend on
the fuel once it exceeds the order. -/
theorem connect_fuel_adequate (a : AM) (hcl : ∀ u ∈ a.verts, ∀ v ∈ a.out u, v ∈ a.verts)
    (f1 f2 : Nat) (st : TState) (u : Nat) (hgi : GI a st) (hu : st.index.lookup u = none) (hv : u ∈ a.verts)
    (h1 : unidx a st < f1) (h2 : unidx a st < f2) : connect a f1 st u = connect a f2 st u :=
  Johnson.connect_fuel_irrel a hcl f1 f2 st u hgi hu hv h1 h2

theorem tarjan_fuel_adequate (a : AM) (hcl : ∀ u ∈ a.verts, ∀ v ∈ a.out u, v ∈ a.verts) (f : Nat)
    (hf : a.order < f) : tarjanFuel a f = tarjanFuel a (a.order + 1) :=
  Johnson.tarjanFuel_irrel a hcl f hf

/-- Non-vacuity: two 2-circuits sharing vertex 0 and a triangle. -/
def gEx : Graph := ⟨3, fun u => match u with | 0 => [1, 2] | 1 => [0, 2] | 2 => [0] | _ => []⟩
theorem gEx_wf : gEx.WF := by
  intro u v h
  match u with
  | 0 | 1 | 2 => simp [gEx] at h; show _ < 3 ∧ _ < 3; omega
  | _+3 => simp [gEx] at h
example : allCircuits gEx = [[0, 1], [0, 1, 2], [0, 2]] := by decide
example : circuits gEx = [[0, 1], [0, 1, 2], [0, 2]] := by decide
theorem gEx_noloops : NoLoops gEx := by
  intro u
  match u with
  | 0 | 1 | 2 => simp [gEx]
  | _+3 => simp [gEx]
theorem gEx_rows : RowsNodup gEx := by
  intro u
  match u with
  | 0 | 1 | 2 => simp [gEx]
  | _+3 => simp [gEx]
example : IsCanonicalElemCircuit gEx [0, 1, 2] :=
  (johnson_sound gEx gEx_wf gEx_noloops gEx_rows).2 _ (by decide)
example : [0, 1, 2] ∈ circuits gEx :=
  johnson_complete gEx gEx_wf gEx_noloops gEx_rows _ ((allCircuits_spec gEx gEx_wf _).1 (by decide))
example : circuitsRepeat (AM.ofGraph gEx) 3 (JState.new (AM.ofGraph gEx)) =
    [[[0, 1], [0, 1, 2], [0, 2]], [[0, 1], [0, 1, 2], [0, 2]], [[0, 1], [0, 1, 2], [0, 2]]] := by decide
example : (circuits gEx).Perm (allCircuits gEx) := johnson_perm_allCircuits gEx gEx_wf gEx_noloops gEx_rows
example : IsCanonicalElemCircuit gEx [0, 1, 2] := (allCircuits_spec gEx gEx_wf _).1 (by decide)

end GraafVerif.C10
