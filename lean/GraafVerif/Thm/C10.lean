/-! Property theorems for C10 (statements + proofs by reference to `Proof/`). Not built yet. -/
