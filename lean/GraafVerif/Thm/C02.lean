/-! Property theorems for C02 (statements + proofs by reference to `Proof/`). Not built yet. -/
