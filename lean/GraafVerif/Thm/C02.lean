import GraafVerif.Proof.QueryALSeq
import GraafVerif.Proof.QueryMX
import GraafVerif.Proof.QueryAM
import GraafVerif.Proof.QueryEL
import GraafVerif.Proof.QueryWL
import GraafVerif.Proof.QueryFast
import GraafVerif.Proof.QueryIter
/-!
# C02 — every read-only query returns its textbook definition over `(V, A, w)`

Only statements and proofs by reference.  Vocabulary:

* `Query.Digraph` = `(V, A, w)` (`Spec/Query.lean`), `X.abs r` the digraph a representation
  denotes (`V = vertices r`, `A u v = hasArc r u v`, `Spec/QueryAbs.lean`);
* `Query.Spec.*` the textbook value of each query, defined from `(V, A, w)` alone;
* `X.core r : Core` the model of the queries coded per representation, `Core.*` the model of
  the blanket impls (`Model/Query.lean`), `none` = the call panics;
* `CoreCorrect q G` / `SeqCorrect q G` / `DerivedCorrect q G` : every core / sequence /
  derived query of `q` returns `some (Spec.… G …)` on every vertex of `G` (total queries: on
  every argument).

"Queries never change the digraph" holds by construction of the model (queries are pure
functions of the representation); it is checked ON THE CODE by the correspondence run
(`clone` before, `==` after, output `unchanged`).
-/
namespace GraafVerif.C02
open GraafVerif.Repr GraafVerif.Query

/-- Everything C02 says about one representation value `r` with query model `q` and abstract
digraph `G`. -/
structure ReprStatement (q : Core) (G : Digraph) : Prop where
  valid : G.Valid
  core : CoreCorrect q G
  seq : SeqCorrect q G
  derived : DerivedCorrect q G

/-- **Full statement of C02.**  For every well-formed value of each of the five
representations (every order, every arc set, `AdjacencyMap` with arbitrary ids) every query
equals its definition, for every thread count; the weighted queries of
`AdjacencyListWeighted`; and the total queries answer "absent" outside `V`
(for `has_arc / has_edge / has_walk / arc_weight` this is `Valid` + the equalities above,
see `totality`; for `remove_arc` it is stated per representation). -/
def Statement : Prop :=
  (∀ d : AdjList, d.WF → ReprStatement (AL.core d) (AL.abs d)) ∧
  (∀ d : AdjMap, d.WF → ReprStatement (AM.core d) (AM.abs d)) ∧
  (∀ d : AdjMatrix, d.WF → ReprStatement (MX.core d) (MX.abs d)) ∧
  (∀ d : EdgeList, d.WF → ReprStatement (EL.core d) (EL.abs d)) ∧
  (∀ d : AdjListW, d.WF → ReprStatement (WL.core d) (WL.abs d) ∧
      (∀ u v, d.arcWeight u v = Spec.arcWeight (WL.abs d) u v) ∧
      (∀ u ∈ (WL.abs d).verts, WL.outNeighborsWeighted d u = some (Spec.outNeighborsWeighted (WL.abs d) u))) ∧
  -- remove_arc is total: an absent arc (in particular an id outside V) answers false, nothing changes
  (∀ (d : AdjList) u v, d.hasArc u v = false → d.removeArc u v = (d, false)) ∧
  (∀ (d : AdjMap) u v, d.hasArc u v = false → d.removeArc u v = (d, false)) ∧
  (∀ (d : AdjMatrix) u v, d.hasArc u v = false → d.removeArc u v = (d, false)) ∧
  (∀ (d : EdgeList) u v, d.hasArc u v = false → d.removeArc u v = (d, false)) ∧
  (∀ (d : AdjListW) u v, d.hasArc u v = false → d.removeArc u v = (d, false))

/-! ## What the `Spec` values mean (the definitions are the textbook ones) -/

/-- `out_neighbors`: exactly the out-neighbours, ascending, no repeats. -/
theorem spec_outNeighbors {G : Digraph} (hG : G.Valid) (u : Nat) :
    IsAscEnum (Spec.outNeighbors G u) (fun v => G.adj u v = true) := outNeighbors_isAscEnum hG u
theorem spec_inNeighbors {G : Digraph} (hG : G.Valid) (v : Nat) :
    IsAscEnum (Spec.inNeighbors G v) (fun u => G.adj u v = true) := inNeighbors_isAscEnum hG v
/-- `out_neighbors_weighted`: the pairs `(v, w u v)` over the out-neighbours. -/
theorem spec_outNeighborsWeighted {G : Digraph} (hG : G.Valid) (u v : Nat) (w : Int) :
    (v, w) ∈ Spec.outNeighborsWeighted G u ↔ G.wt u v = some w := outNeighborsWeighted_mem hG u v w
/-- `has_walk`: at least two vertices and every consecutive pair is an arc. -/
theorem spec_hasWalk (G : Digraph) (w : List Nat) : Spec.hasWalk G w = true ↔ IsWalkSeq G w := hasWalk_iff G w
/-- `sinks` / `sources`: the vertices without out-arcs / in-arcs, ascending. -/
theorem spec_sinks {G : Digraph} (hG : G.Valid) :
    IsAscEnum (Spec.sinks G) (fun u => u ∈ G.verts ∧ ∀ v, G.adj u v = false) := sinks_isAscEnum hG
theorem spec_sources {G : Digraph} (hG : G.Valid) :
    IsAscEnum (Spec.sources G) (fun v => v ∈ G.verts ∧ ∀ u, G.adj u v = false) := sources_isAscEnum hG
/-- `size = |A|`: `Spec.arcs` enumerates `A`. -/
theorem spec_arcs {G : Digraph} (hG : G.Valid) (u v : Nat) : (u, v) ∈ Spec.arcs G ↔ G.adj u v = true := mem_arcs hG u v
/-- `max_*` / `min_*`: the maximum / minimum of the sequence, `0` for none. -/
theorem spec_max (l : List Nat) : IsMaxOf (Spec.maxL l) l := isMaxOf_maxL l
theorem spec_min (l : List Nat) : IsMinOf (Spec.minL l) l := isMinOf_minL l

/-- Totality: with an id outside `V` the total queries answer "absent". -/
theorem totality {G : Digraph} (hG : G.Valid) {u v : Nat} (h : u ∉ G.verts ∨ v ∉ G.verts) :
    Spec.hasArc G u v = false ∧ Spec.hasEdge G u v = false ∧ Spec.arcWeight G u v = none :=
  ⟨hasArc_outside hG h, hasEdge_outside hG h, arcWeight_outside hG h⟩
theorem totality_walk {G : Digraph} (hG : G.Valid) {w : List Nat} {x : Nat} (hx : x ∈ w) (hxV : x ∉ G.verts) :
    Spec.hasWalk G w = false := hasWalk_outside hG hx hxV

/-! ## The blanket impls, once for every representation [P0] -/
theorem derived_correct {q : Core} {G : Digraph} (h : CoreCorrect q G) : DerivedCorrect q G :=
  Query.derived_correct h

/-- The two coded forms of `has_walk`. -/
theorem hasWalkPtr_correct (G : Digraph) (has : Nat → Nat → Bool) (h : ∀ u v, has u v = G.adj u v) (w : List Nat) :
    hasWalkPtr has w = true ↔ IsWalkSeq G w := by rw [hasWalkPtr_eq G has h, hasWalk_iff]
theorem hasWalkZip_correct (G : Digraph) (has : Nat → Nat → Bool) (h : ∀ u v, has u v = G.adj u v) (w : List Nat) :
    hasWalkZip has w = true ↔ IsWalkSeq G w := by rw [hasWalkZip_eq G has h, hasWalk_iff]

/-! ## AdjacencyList [P0] (+ the threaded `degree_sequence` for every thread count [P1]) -/
theorem al_correct (d : AdjList) (h : d.WF) : ReprStatement (AL.core d) (AL.abs d) :=
  ⟨AL.abs_valid h, AL.core_correct h, AL.seq_correct h, Query.derived_correct (AL.core_correct h)⟩

/-- `∀ t ≥ 1`: the `t`-thread `degree_sequence` is the sequential definition. -/
theorem al_degreeSequence_par (d : AdjList) (h : d.WF) (t : Nat) (ht : 0 < t) :
    AL.degreeSequence d t = Spec.degreeSequence (AL.abs d) := AL.degreeSequence_par h t ht

/-- documented panics: exactly outside `V` -/
theorem al_panics (d : AdjList) (u : Nat) (hu : ¬ u < d.order) :
    (AL.core d).outNeighbors u = none ∧ (AL.core d).indegree u = none ∧ (AL.core d).outdegree u = none ∧
      (AL.core d).isSink u = none := AL.panics_outside hu

theorem al_removeArc_total (d : AdjList) (u v : Nat) (h : d.hasArc u v = false) : d.removeArc u v = (d, false) :=
  AL.removeArc_absent d h

/-- Non-vacuity: a well-formed 3-vertex list with a rejected-free history; its queries. -/
example : (⟨[[1, 2], [2], []]⟩ : AdjList).WF := by
  refine ⟨by decide, ?_⟩
  intro u row h
  match u, h with
  | 0, h => cases h; simp [SortedS, AdjList.order]
  | 1, h => cases h; simp [SortedS, AdjList.order]
  | 2, h => cases h; simp [SortedS, AdjList.order]
example : AL.degreeSequence ⟨[[1, 2], [2], []]⟩ 2 = [2, 2, 2] := by decide
example : (AL.core ⟨[[1, 2], [2], []]⟩).sinks = some [2] := by decide

/-! ## AdjacencyMatrix [P0] -/
theorem mx_correct (d : AdjMatrix) (h : d.WF) : ReprStatement (MX.core d) (MX.abs d) :=
  ⟨MX.abs_valid h, MX.core_correct h, MX.seq_correct h, Query.derived_correct (MX.core_correct h)⟩

/-- The matrix arc iterator (set cells below `order²`, as `(cell / order, cell % order)`) yields
`A` in lexicographic order. -/
theorem mx_arcs (d : AdjMatrix) (h : d.WF) : d.arcs = Spec.arcs (MX.abs d) := MX.arcs_spec h

theorem mx_panics (d : AdjMatrix) (u : Nat) (hu : ¬ u < d.order) :
    (MX.core d).outNeighbors u = none ∧ (MX.core d).indegree u = none ∧ (MX.core d).outdegree u = none ∧
      (MX.core d).isSink u = none := MX.panics_outside hu

theorem mx_removeArc_outside (d : AdjMatrix) (u v : Nat) (h : ¬ (u < d.order ∧ v < d.order)) :
    d.removeArc u v = (d, false) := MX.removeArc_outside d h

/-- Non-vacuity: order 3 (`order² = 9`, not a multiple of 64), arcs `0→1, 2→0`. -/
example : (MX.core ⟨[0b001000010#64], 3⟩).indegree 0 = some 1 := by decide
example : (MX.core ⟨[0b001000010#64], 3⟩).outNeighbors 0 = some [1] := by decide

theorem mx_removeArc_total (d : AdjMatrix) (u v : Nat) (h : d.hasArc u v = false) : d.removeArc u v = (d, false) :=
  MX.removeArc_absent d h

/-! ## AdjacencyMap — arbitrary (non-contiguous) vertex ids [P1] -/
theorem am_correct (d : AdjMap) (h : d.WF) : ReprStatement (AM.core d) (AM.abs d) :=
  ⟨AM.abs_valid h, AM.core_correct h, AM.seq_correct h, Query.derived_correct (AM.core_correct h)⟩
theorem am_panics (d : AdjMap) (u : Nat) (hu : u ∉ (AM.abs d).verts) :
    (AM.core d).outNeighbors u = none ∧ (AM.core d).indegree u = none ∧ (AM.core d).outdegree u = none ∧
      (AM.core d).isSink u = none := AM.panics_outside hu
theorem am_removeArc_total (d : AdjMap) (u v : Nat) (h : d.hasArc u v = false) : d.removeArc u v = (d, false) :=
  AM.removeArc_absent d h
/-- Non-vacuity: vertex ids `{2, 7, 1000}`, arcs `2→7, 1000→2`. -/
example : (AM.core ⟨[(2, [7]), (7, []), (1000, [2])]⟩).inNeighbors 2 = [1000] := by decide
example : (AM.core ⟨[(2, [7]), (7, []), (1000, [2])]⟩).sinks = some [7] := by decide
example : (AM.core ⟨[(2, [7]), (7, []), (1000, [2])]⟩).indegree 3 = none := by decide

/-! ## EdgeList [P1] -/
theorem el_correct (d : EdgeList) (h : d.WF) : ReprStatement (EL.core d) (EL.abs d) :=
  ⟨EL.abs_valid h, EL.core_correct h, EL.seq_correct h, Query.derived_correct (EL.core_correct h)⟩
theorem el_panics (d : EdgeList) (u : Nat) (hu : ¬ u < d.order) :
    (EL.core d).outNeighbors u = none ∧ (EL.core d).indegree u = none ∧ (EL.core d).outdegree u = none ∧
      (EL.core d).isSink u = none := EL.panics_outside hu
theorem el_removeArc_total (d : EdgeList) (u v : Nat) (h : d.hasArc u v = false) : d.removeArc u v = (d, false) :=
  EL.removeArc_absent d h
example : (EL.core ⟨[(0, 1), (0, 2), (2, 0)], 3⟩).outNeighbors 0 = some [1, 2] := by decide

/-! ## AdjacencyListWeighted [P1] — with `arc_weight` and `out_neighbors_weighted` -/
theorem wl_correct (d : AdjListW) (h : d.WF) : ReprStatement (WL.core d) (WL.abs d) ∧
    (∀ u v, d.arcWeight u v = Spec.arcWeight (WL.abs d) u v) ∧
    (∀ u ∈ (WL.abs d).verts, WL.outNeighborsWeighted d u = some (Spec.outNeighborsWeighted (WL.abs d) u)) :=
  ⟨⟨WL.abs_valid h, WL.core_correct h, WL.seq_correct h, Query.derived_correct (WL.core_correct h)⟩,
   fun _ _ => rfl,
   fun u hu => WL.outNeighborsWeighted_spec h (by simpa [WL.abs, AdjListW.vertices] using hu)⟩
theorem wl_panics (d : AdjListW) (u : Nat) (hu : ¬ u < d.order) :
    (WL.core d).outNeighbors u = none ∧ (WL.core d).indegree u = none ∧ (WL.core d).outdegree u = none ∧
      (WL.core d).isSink u = none := WL.panics_outside hu
theorem wl_removeArc_total (d : AdjListW) (u v : Nat) (h : d.hasArc u v = false) : d.removeArc u v = (d, false) :=
  WL.removeArc_absent d h
example : WL.outNeighborsWeighted ⟨[[(1, -3), (2, 5)], [], [(0, 7)]]⟩ 0 = some [(1, -3), (2, 5)] := by decide
example : (⟨[[(1, -3), (2, 5)], [], [(0, 7)]]⟩ : AdjListW).arcWeight 2 0 = some 7 := by decide

/-! ## The driver's `Array` twins (large orders) are the proved list models — no hypotheses -/
/-- `H02` runs `degreeSequenceFast` above order 300 (linear instead of quadratic in the order). -/
theorem al_degreeSequenceFast_eq (d : AdjList) (t : Nat) : AL.degreeSequenceFast d t = AL.degreeSequence d t :=
  AL.degreeSequenceFast_eq d t
theorem al_indegreeSequenceFast_eq (d : AdjList) : AL.indegreeSequenceFast d = AL.indegreeSequence d :=
  AL.indegreeSequenceFast_eq d
/-- … hence the twin, too, is the definition for every thread count. -/
theorem al_degreeSequenceFast_par (d : AdjList) (h : d.WF) (t : Nat) (ht : 0 < t) :
    AL.degreeSequenceFast d t = Spec.degreeSequence (AL.abs d) := by
  rw [AL.degreeSequenceFast_eq]; exact AL.degreeSequence_par h t ht
example : AL.degreeSequenceFast ⟨[[1, 2], [2], []]⟩ 2 = [2, 2, 2] := by decide

/-! ## One iterator value consumed partly with `next()` and then with a fold-based consumer (`q_iter`)

The sequence a query yields does not depend on how its iterator is consumed: `k` calls of `next()` give
`take k`, and `count / last / for_each / fold / skip(k).count()` then see exactly `drop k`. -/
theorem iter_observe_eq {α : Type} (val : α → Nat) (l : List α) (k : Nat) :
    Iter.observe val l k =
      { taken := l.take k, count := (l.drop k).length, last := (l.drop k).getLast?, rest := l.drop k,
        sum := ((l.drop k).map val).sum, skipCount := (l.drop k).length } := Iter.observe_eq val l k
/-- … and the record of every iterator-returning query is the record of its DEFINED sequence. -/
theorem iter_inNeighbors {q : Core} {G : Digraph} (h : CoreCorrect q G) (v k : Nat) :
    Iter.observe id (q.inNeighbors v) k = Iter.observe id (Spec.inNeighbors G v) k := observe_inNeighbors h v k
theorem iter_outNeighbors {q : Core} {G : Digraph} (h : CoreCorrect q G) {u : Nat} (hu : u ∈ G.verts) (k : Nat) :
    (q.outNeighbors u).map (fun l => Iter.observe id l k) = some (Iter.observe id (Spec.outNeighbors G u) k) :=
  observe_outNeighbors h hu k
theorem iter_sequences {q : Core} {G : Digraph} (h : CoreCorrect q G) (hs : SeqCorrect q G) (t : Nat) (ht : 0 < t) (k : Nat) :
    Iter.observe id q.vertices k = Iter.observe id G.verts k ∧
    Iter.observe id q.sources k = Iter.observe id (Spec.sources G) k ∧
    q.sinks.map (fun l => Iter.observe id l k) = some (Iter.observe id (Spec.sinks G) k) ∧
    q.outdegreeSequence.map (fun l => Iter.observe id l k) = some (Iter.observe id (Spec.outdegreeSequence G) k) ∧
    q.indegreeSequence.map (fun l => Iter.observe id l k) = some (Iter.observe id (Spec.indegreeSequence G) k) ∧
    (q.degreeSequence t).map (fun l => Iter.observe id l k) = some (Iter.observe id (Spec.degreeSequence G) k) ∧
    q.semidegreeSequence.map (fun l => Iter.observe (fun p => p.1 + p.2) l k)
      = some (Iter.observe (fun p => p.1 + p.2) (Spec.semidegreeSequence G) k) :=
  ⟨observe_vertices h k, observe_sources h k, observe_sinks h k, observe_outdegreeSequence h k,
   observe_indegreeSequence hs k, observe_degreeSequence hs t ht k, observe_semidegreeSequence h _ k⟩
/-- the matrix `arcs()` iterator (= `Spec.arcs`, `mx_arcs`) under the same protocol -/
theorem iter_mx_arcs (d : AdjMatrix) (h : d.WF) (k : Nat) :
    Iter.observe (fun p => p.1 + p.2) d.arcs k = Iter.observe (fun p => p.1 + p.2) (Spec.arcs (MX.abs d)) k := by
  rw [MX.arcs_spec h]
example : (Iter.observe id [0, 1] 1).count = 1 := by decide
example : Iter.observe id [3, 5, 8] 1 = ⟨[3], 2, some 8, [5, 8], 13, 2⟩ := by decide

/-- **C02, full statement.** -/
theorem statement : Statement :=
  ⟨al_correct, am_correct, mx_correct, el_correct, wl_correct,
   al_removeArc_total, am_removeArc_total, mx_removeArc_total, el_removeArc_total, wl_removeArc_total⟩

end GraafVerif.C02
