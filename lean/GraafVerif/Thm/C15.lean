import GraafVerif.Proof.RandAgree
/-!
# C15 — seeded random generators are deterministic and always structurally valid

Only statements and their proofs-by-reference live here.  The generators are the models of
`Model/Rand.lean` (tied to the code by the correspondence run); validity is stated on a `View`
(order, vertex list, `has_arc`) of the returned structure (`Spec/Rand.lean`).

* `Stream = Nat → UInt64` is an ARBITRARY sequence of PRNG outputs: every theorem below holds for
  every seed and for any PRNG.  The threaded `AdjacencyMap` variants take one arbitrary stream per
  worker and the thread count `t` (= `available_parallelism()`), and hold for every `t ≥ 1`.
* "Calling twice with equal arguments returns equal digraphs" is *functionality of the model*: each
  generator is a Lean function of (order, p, stream(s), t).  For the one generator whose workers
  share state (`AdjacencyMap::random_tournament`) functionality is a theorem: every interleaving
  of the locked inserts ends in the same digraph (`tournament_schedule_independent`).
  What the model cannot exhibit — that the OS reports the same `t` on both calls, and that the
  real scheduler/`Mutex`/`join` behave as the transition system — is an assumption (docs/C15.md).
* `FitsMatrix n` (`n² < 2^64`) is `AdjacencyMatrix::empty`'s overflow check (it panics otherwise).
-/
namespace GraafVerif.C15
open GraafVerif.Rand GraafVerif.Repr

/-- Every digraph the threaded tournament generator can return: the rows after ANY complete
interleaving of the workers' locked inserts, collected into the map. -/
def TournamentAMOutcome (streams : Nat → Stream) (n t : Nat) (g : AdjMap) : Prop :=
  ∃ sched st, (tournamentInit streams n t).run sched = some st ∧ st.terminal ∧ g = finishMap n st.rows

/-- Full statement of C15 on the model. -/
def Statement : Prop :=
  -- (1) random_tournament, sequential representations: a tournament for every stream
  (∀ (s : Stream) (n : Nat), 1 ≤ n →
    (∃ g, tournamentAL s n = some g ∧ IsTournament n (viewAL g)) ∧
    (FitsMatrix n → ∃ g, tournamentMX s n = some g ∧ IsTournament n (viewMX g)) ∧
    (∃ g, tournamentEL s n = some g ∧ IsTournament n (viewEL g))) ∧
  -- (2) AdjacencyMap::random_tournament: for every thread count and EVERY schedule there is exactly
  --     one outcome, it is the model function's value, and it is a tournament
  (∀ (streams : Nat → Stream) (n t : Nat), 2 ≤ n → 1 ≤ t →
    (∃ g, TournamentAMOutcome streams n t g) ∧
    (∀ g, TournamentAMOutcome streams n t g → tournamentAM streams n t = some g)) ∧
  (∀ (streams : Nat → Stream) (n t : Nat), 1 ≤ n → 1 ≤ t →
    ∃ g, tournamentAM streams n t = some g ∧ IsTournament n (viewAM g)) ∧
  -- (3) random_recursive_tree
  (∀ (s : Stream) (n : Nat), 1 ≤ n →
    (∃ g, rrtAL s n = some g ∧ IsRecursiveTree n (viewAL g)) ∧
    (∃ g, rrtAM s n = some g ∧ IsRecursiveTree n (viewAM g)) ∧
    (FitsMatrix n → ∃ g, rrtMX s n = some g ∧ IsRecursiveTree n (viewMX g)) ∧
    (∃ g, rrtEL s n = some g ∧ IsRecursiveTree n (viewEL g))) ∧
  -- (4) erdos_renyi for p ∈ [0,1] (map variant: every thread count, both the threaded rows and
  --     the complement path for p > 0.5)
  (∀ (s : Stream) (n : Nat) (p : F64), 1 ≤ n → p.inUnit = true →
    (∃ g, erAL s n p = some g ∧ ErValid n p (viewAL g)) ∧
    (FitsMatrix n → ∃ g, erMX s n p = some g ∧ ErValid n p (viewMX g)) ∧
    (∃ g, erEL s n p = some g ∧ ErValid n p (viewEL g))) ∧
  (∀ (streams : Nat → Stream) (n t : Nat) (p : F64), 1 ≤ n → 1 ≤ t → p.inUnit = true →
    ∃ g, erAM streams n t p = some g ∧ ErValid n p (viewAM g)) ∧
  -- (5) p outside [0,1] (NaN, infinities included): panic
  (∀ (s : Stream) (streams : Nat → Stream) (n t : Nat) (p : F64), p.inUnit = false →
    erAL s n p = none ∧ erMX s n p = none ∧ erEL s n p = none ∧ erAM streams n t p = none) ∧
  -- (6) next_f64 ∈ [0, 1)
  (∀ w : UInt64, 0 ≤ nextF64 w ∧ nextF64 w < 1)

/-! ## random_tournament -/

theorem tournament_valid_al (s : Stream) (n : Nat) (hn : 1 ≤ n) :
    ∃ g, tournamentAL s n = some g ∧ IsTournament n (viewAL g) := tournamentAL_valid s n hn

theorem tournament_valid_mx (s : Stream) (n : Nat) (hn : 1 ≤ n) (hb : FitsMatrix n) :
    ∃ g, tournamentMX s n = some g ∧ IsTournament n (viewMX g) := tournamentMX_valid s n hn hb

theorem tournament_valid_el (s : Stream) (n : Nat) (hn : 1 ≤ n) :
    ∃ g, tournamentEL s n = some g ∧ IsTournament n (viewEL g) := tournamentEL_valid s n hn

/-- C17 piece: valid for EVERY thread count `t ≥ 1` and arbitrary per-worker streams. -/
theorem tournament_valid_am (streams : Nat → Stream) (n t : Nat) (hn : 1 ≤ n) (ht : 1 ≤ t) :
    ∃ g, tournamentAM streams n t = some g ∧ IsTournament n (viewAM g) :=
  tournamentAM_valid streams n t hn ht

/-- P1 (C15/C17): for every interleaving of the workers' locked inserts, once all workers have
finished the shared rows are the rows of the join-order run the model function uses. -/
theorem tournament_schedule_independent (streams : Nat → Stream) (n t : Nat) (sched : List Nat) (st : TState)
    (hrun : (tournamentInit streams n t).run sched = some st) (hterm : st.terminal) :
    st.rows = (tournamentProgs streams n t).flatten.foldl rowInsert (List.replicate n []) :=
  schedule_independent streams n t sched st hrun hterm

/-- Some interleaving completes (the theorem above is not vacuous), from every state. -/
theorem tournament_schedule_exists (st : TState) : ∃ sched st', st.run sched = some st' ∧ st'.terminal :=
  exists_complete_schedule st

/-- Determinism of the threaded tournament: its outcome relation is a function, namely `tournamentAM`. -/
theorem tournament_am_outcome_unique (streams : Nat → Stream) (n t : Nat) (hn : 2 ≤ n) (g : AdjMap)
    (h : TournamentAMOutcome streams n t g) : tournamentAM streams n t = some g := by
  obtain ⟨sched, st, hrun, hterm, rfl⟩ := h
  have h0 : ¬ n = 0 := by omega
  have h1 : ¬ n = 1 := by omega
  simp only [tournamentAM, h0, h1, if_false]
  rw [schedule_independent streams n t sched st hrun hterm]

theorem tournament_am_outcome_exists (streams : Nat → Stream) (n t : Nat) :
    ∃ g, TournamentAMOutcome streams n t g := by
  obtain ⟨sched, st, h1, h2⟩ := exists_complete_schedule (tournamentInit streams n t)
  exact ⟨_, sched, st, h1, h2, rfl⟩

/-! ## random_recursive_tree -/

theorem rrt_valid_al (s : Stream) (n : Nat) (hn : 1 ≤ n) :
    ∃ g, rrtAL s n = some g ∧ IsRecursiveTree n (viewAL g) := rrtAL_valid s n hn
theorem rrt_valid_am (s : Stream) (n : Nat) (hn : 1 ≤ n) :
    ∃ g, rrtAM s n = some g ∧ IsRecursiveTree n (viewAM g) := rrtAM_valid s n hn
theorem rrt_valid_mx (s : Stream) (n : Nat) (hn : 1 ≤ n) (hb : FitsMatrix n) :
    ∃ g, rrtMX s n = some g ∧ IsRecursiveTree n (viewMX g) := rrtMX_valid s n hn hb
theorem rrt_valid_el (s : Stream) (n : Nat) (hn : 1 ≤ n) :
    ∃ g, rrtEL s n = some g ∧ IsRecursiveTree n (viewEL g) := rrtEL_valid s n hn

/-! ## erdos_renyi -/

theorem er_valid_al (s : Stream) (n : Nat) (p : F64) (hn : 1 ≤ n) (hp : p.inUnit = true) :
    ∃ g, erAL s n p = some g ∧ ErValid n p (viewAL g) := erAL_valid s n p hn hp
theorem er_valid_mx (s : Stream) (n : Nat) (p : F64) (hn : 1 ≤ n) (hb : FitsMatrix n) (hp : p.inUnit = true) :
    ∃ g, erMX s n p = some g ∧ ErValid n p (viewMX g) := erMX_valid s n p hn hb hp
theorem er_valid_el (s : Stream) (n : Nat) (p : F64) (hn : 1 ≤ n) (hp : p.inUnit = true) :
    ∃ g, erEL s n p = some g ∧ ErValid n p (viewEL g) := erEL_valid s n p hn hp

/-- C17 piece: valid for EVERY thread count `t ≥ 1`, for `p ≤ 0.5` (threaded rows) and for
`p > 0.5` (`complement` of the `1 - p` digraph; `1 - p` exact, see `F64.oneMinus`). -/
theorem er_valid_am (streams : Nat → Stream) (n t : Nat) (p : F64) (hn : 1 ≤ n) (ht : 1 ≤ t) (hp : p.inUnit = true) :
    ∃ g, erAM streams n t p = some g ∧ ErValid n p (viewAM g) := erAM_valid streams n t p hn ht hp

/-- `p ∉ [0,1]` (also NaN, ±∞): every representation panics. -/
theorem er_panics (s : Stream) (streams : Nat → Stream) (n t : Nat) (p : F64) (hp : p.inUnit = false) :
    erAL s n p = none ∧ erMX s n p = none ∧ erEL s n p = none ∧ erAM streams n t p = none :=
  ⟨erAL_panics s n p hp, erMX_panics s n p hp, erEL_panics s n p hp, erAM_panics streams n t p hp⟩

/-- Fuel adequacy of the `erdos_renyi(order, 1.0 - p, seed).complement()` recursion: depth ≤ 1. -/
theorem er_am_fuel (streams : Nat → Stream) (n t k : Nat) (p : F64) :
    erAMF streams n t (k + 2) p = erAMF streams n t 2 p := erAM_fuel streams n t k p

/-! ## next_f64 -/

/-- `Xoshiro256StarStar::next_f64` lies in `[0, 1)`, for every 64-bit draw. -/
theorem next_f64_range (w : UInt64) : 0 ≤ nextF64 w ∧ nextF64 w < 1 := nextF64_range w

/-- The model's integer comparison IS `next_f64() < p` on the exact rational values. -/
theorem next_f64_lt_iff (w : UInt64) (num : Int) :
    f64lt w (.fin num) = true ↔ nextF64 w < (num : Rat) / 2^1074 := f64lt_fin w num

/-! ## determinism -/

/-- Equal arguments (order, seed, `p`, thread count) give equal results: the generators are
functions.  (Stated for the exact PRNG streams the driver uses; trivially true of any function —
the content is that the MODEL is a function, schedule independence being the non-trivial part.) -/
theorem generators_deterministic (seed₁ seed₂ : UInt64) (n₁ n₂ t₁ t₂ : Nat) (p₁ p₂ : F64)
    (hs : seed₁ = seed₂) (hn : n₁ = n₂) (ht : t₁ = t₂) (hp : p₁ = p₂) :
    tournamentAL (xoStream seed₁) n₁ = tournamentAL (xoStream seed₂) n₂ ∧
    tournamentMX (xoStream seed₁) n₁ = tournamentMX (xoStream seed₂) n₂ ∧
    tournamentEL (xoStream seed₁) n₁ = tournamentEL (xoStream seed₂) n₂ ∧
    tournamentAM (xoStreams seed₁) n₁ t₁ = tournamentAM (xoStreams seed₂) n₂ t₂ ∧
    rrtAL (xoStream seed₁) n₁ = rrtAL (xoStream seed₂) n₂ ∧
    rrtAM (xoStream seed₁) n₁ = rrtAM (xoStream seed₂) n₂ ∧
    rrtMX (xoStream seed₁) n₁ = rrtMX (xoStream seed₂) n₂ ∧
    rrtEL (xoStream seed₁) n₁ = rrtEL (xoStream seed₂) n₂ ∧
    erAL (xoStream seed₁) n₁ p₁ = erAL (xoStream seed₂) n₂ p₂ ∧
    erMX (xoStream seed₁) n₁ p₁ = erMX (xoStream seed₂) n₂ p₂ ∧
    erEL (xoStream seed₁) n₁ p₁ = erEL (xoStream seed₂) n₂ p₂ ∧
    erAM (xoStreams seed₁) n₁ t₁ p₁ = erAM (xoStreams seed₂) n₂ t₂ p₂ := by
  subst hs hn ht hp
  exact ⟨rfl, rfl, rfl, rfl, rfl, rfl, rfl, rfl, rfl, rfl, rfl, rfl⟩

/-- The array-backed stream the driver runs the model on is the stream of the seed. -/
theorem driver_stream_exact (seed : UInt64) (k i : Nat) (h : i < k) :
    streamOfArray (xoTake seed k) i = xoStream seed i := streamOfArray_xoTake seed k i h

/-! ## agreement between representations (not part of the property text; the code makes them agree) -/

/-- The sequential representations consume the stream identically: equal arguments, same digraph. -/
theorem tournament_representations_agree (s : Stream) (n : Nat) (hn : 1 ≤ n) (hb : FitsMatrix n) :
    ∃ a m e, tournamentAL s n = some a ∧ tournamentMX s n = some m ∧ tournamentEL s n = some e ∧
      SameDigraph (viewAL a) (viewMX m) ∧ SameDigraph (viewAL a) (viewEL e) := tournament_agree s n hn hb

theorem rrt_representations_agree (s : Stream) (n : Nat) (hn : 1 ≤ n) (hb : FitsMatrix n) :
    ∃ a g m e, rrtAL s n = some a ∧ rrtAM s n = some g ∧ rrtMX s n = some m ∧ rrtEL s n = some e ∧
      SameDigraph (viewAL a) (viewAM g) ∧ SameDigraph (viewAL a) (viewMX m) ∧ SameDigraph (viewAL a) (viewEL e) :=
  rrt_agree s n hn hb

theorem er_representations_agree (s : Stream) (n : Nat) (p : F64) (hn : 1 ≤ n) (hb : FitsMatrix n)
    (hp : p.inUnit = true) :
    ∃ a m e, erAL s n p = some a ∧ erMX s n p = some m ∧ erEL s n p = some e ∧
      SameDigraph (viewAL a) (viewMX m) ∧ SameDigraph (viewAL a) (viewEL e) := er_agree s n p hn hb hp

/-- With a single worker (`t = 1`) the threaded map generators produce the sequential digraph of
worker 0's stream (tournament; Erdős–Rényi for `p ≤ 0.5`). -/
theorem tournament_am_single_worker (streams : Nat → Stream) (n : Nat) (hn : 1 ≤ n) :
    ∃ a g, tournamentAL (streams 0) n = some a ∧ tournamentAM streams n 1 = some g ∧
      SameDigraph (viewAL a) (viewAM g) := tournament_am_single streams n hn

theorem er_am_single_worker (streams : Nat → Stream) (n : Nat) (p : F64) (hn : 2 ≤ n) (hp : p.inUnit = true)
    (hh : p.gtHalf = false) :
    ∃ a, erAL (streams 0) n p = some a ∧ SameDigraph (viewAL a) (viewAM (erMapCore streams n 1 p)) ∧
      erAM streams n 1 p = some (erMapCore streams n 1 p) := er_am_single streams n p hn hp hh

/-! ## the full statement -/

theorem statement_holds : Statement :=
  ⟨fun s n hn => ⟨tournament_valid_al s n hn, tournament_valid_mx s n hn, tournament_valid_el s n hn⟩,
   fun streams n t hn _ => ⟨tournament_am_outcome_exists streams n t, tournament_am_outcome_unique streams n t hn⟩,
   tournament_valid_am,
   fun s n hn => ⟨rrt_valid_al s n hn, rrt_valid_am s n hn, rrt_valid_mx s n hn, rrt_valid_el s n hn⟩,
   fun s n p hn hp => ⟨er_valid_al s n p hn hp, fun hb => er_valid_mx s n p hn hb hp, er_valid_el s n p hn hp⟩,
   er_valid_am, er_panics, next_f64_range⟩

/-! ## non-vacuity -/

/-- the bit-exact PRNG reproduces the pinned outputs of the Rust unit test `first_3` -/
example : (List.range 3).map (fun i => (xoStream 0 i).toNat) =
    [0x99EC5F36CB75F2B4, 0xBF6E1F784956452A, 0x1A5F849D4933E6E0] := by decide
/-- concrete generated digraphs (also observed from the real code by the correspondence run) -/
example : tournamentAL (xoStream 5) 4 = some ⟨[[1], [2, 3], [0, 3], [0]]⟩ := by decide
example : tournamentAM (xoStreams 5) 5 3 =
    some ⟨[(0, [1, 4]), (1, [2, 3, 4]), (2, [0, 3, 4]), (3, [0]), (4, [3])]⟩ := by decide
example : (rrtAL (xoStream 7) 5).isSome = true := by decide
set_option exponentiation.threshold 1100
/-- hypotheses are satisfiable: p = 0.75 lies in [0,1] and takes the complement path -/
example : (F64.ofBits 0x3FE8000000000000).inUnit = true ∧ (F64.ofBits 0x3FE8000000000000).gtHalf = true := by decide
example : (erAM (xoStreams 5) 5 3 (F64.ofBits 0x3FE8000000000000)).isSome = true := by decide
/-- NaN, -0.1 and 1.5 are rejected; -0.0 and the smallest subnormal are accepted -/
example : (F64.ofBits 0x7FF8000000000000).inUnit = false ∧ (F64.ofBits 0xBFB999999999999A).inUnit = false ∧
    (F64.ofBits 0x3FF8000000000000).inUnit = false ∧ (F64.ofBits 0x8000000000000000).inUnit = true ∧
    (F64.ofBits 1).inUnit = true := by decide
/-- a complete schedule of a run with 3 workers (7, 3 and 0 inserts) that is NOT the join order ends in the model's rows -/
example : ((tournamentInit (xoStreams 5) 5 3).run [1, 0, 0, 1, 0, 0, 0, 1, 0, 0]).map (·.rows) =
    some ((tournamentProgs (xoStreams 5) 5 3).flatten.foldl rowInsert (List.replicate 5 [])) := by decide

end GraafVerif.C15
