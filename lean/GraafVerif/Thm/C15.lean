/-! Property theorems for C15 (statements + proofs by reference to `Proof/`). Not built yet. -/
