/-! Property theorems for C07 (statements + proofs by reference to `Proof/`). Not built yet. -/
