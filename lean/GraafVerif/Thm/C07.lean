import GraafVerif.Proof.Bfm
import GraafVerif.Proof.BfmRepeat
/-!
# C07 — Bellman-Ford-Moore: exact distances, or None on a reachable negative circuit

Only statements and their proofs-by-reference live here.  `Bfm.distances` is the model of
`BellmanFordMoore::new(&digraph, s).distances()` (Model/Bfm.lean), tied to the code by the
correspondence run.
-/
namespace GraafVerif.C07
open GraafVerif GraafVerif.Bfm

/-- **P0** The literally four times unrolled relaxation loop (with its `if i < arcs_len`
guards) is the plain left fold of `relax` over the arc vector — for EVERY arc count, hence for
every residue modulo 4, and for every fuel that is large enough (fuel adequacy). -/
theorem unrolled4_eq_foldl (arcs : List Arc) (fuel : Nat) (st : Dist × Bool)
    (h : arcs.length ≤ 4 * fuel) : roundLoop arcs fuel 0 st = arcs.foldl relax st := by
  rw [roundLoop_eq_foldl arcs fuel 0 st (by omega), List.drop_zero]

theorem round_eq_foldl (arcs : List Arc) (d : Dist) : round arcs d = arcs.foldl relax (d, false) :=
  Bfm.round_eq_foldl arcs d

/-- Non-vacuity: 5 arcs (residue 1), fuel 2 — the second trip takes only the first block. -/
example : roundLoop [(0,1,2),(1,2,-1),(0,2,5),(2,3,1),(3,1,-1)] 2 0 ([some 0, none, none, none], false)
    = ([some 0, some 1, some 1, some 2], true) := by decide

/-- **Exactness of `Some(d)`**: needs only the invariant "finite entries are walk weights" and
the final scan — not the number of rounds, not the early exit. -/
theorem bfm_some_exact (g : WGraph) (hwf : g.WF) (s : Nat) (d : Dist)
    (h : distances g s = .ret (some d)) : Exact g s d :=
  some_exact hwf h

/-- In an exact vector the sentinel stands exactly at the unreachable vertices (the "exactly
when" of the property; `Exact` has the direction sentinel ⇒ unreachable, the converse is here). -/
theorem exact_inf_iff (g : WGraph) (s : Nat) (d : Dist) (h : Exact g s d) (v : Nat) (hv : v < g.n) :
    d[v]? = some none ↔ ¬ WReachFrom g [s] v :=
  Bfm.exact_inf_iff h hv

/-- The `assert!(s < order)` of `new`: a panic exactly for an out-of-range source. -/
theorem bfm_panic_iff (g : WGraph) (s : Nat) : distances g s = .panic ↔ ¬ s < g.n :=
  Bfm.panic_iff g s

/-- **A negative circuit reachable from `s` ⇒ `None`.** -/
theorem bfm_negcycle_none (g : WGraph) (hwf : g.WF) (s : Nat) (hs : s < g.n)
    (h : NegReachable g s) : distances g s = .ret none := by
  obtain ⟨x, hr, hn⟩ := h
  exact negcycle_none hwf hs hr hn

/-- Non-vacuity: a 3-vertex digraph, source 0, vertex 2 unreachable; and the doc example with a
negative circuit. -/
example : distances ⟨3, fun u => if u = 0 then [(1, -2)] else if u = 2 then [(0, 1)] else []⟩ 0
    = .ret (some [some 0, some (-2), none]) := by decide
example : distances ⟨3, fun u => if u = 0 then [(1, -2)] else if u = 1 then [(2, -1)] else [(0, -1)]⟩ 0
    = .ret none := by decide
example : NegReachable ⟨3, fun u => if u = 0 then [(1, -2)] else if u = 1 then [(2, -1)] else [(0, -1)]⟩ 0 := by
  have w1 := WWalk.snoc (x := 1) (w := -2) (WWalk.nil (g := ⟨3, fun u => if u = 0 then [(1, -2)] else if u = 1 then [(2, -1)] else [(0, -1)]⟩) 0)
    (by simp [WGraph.A])
  have w2 := WWalk.snoc (x := 2) (w := -1) w1 (by simp [WGraph.A])
  have w3 := WWalk.snoc (x := 0) (w := -1) w2 (by simp [WGraph.A])
  exact ⟨0, ⟨0, List.mem_singleton_self 0, 0, 0, WWalk.nil 0⟩, 3, _, by omega, w3, by omega⟩

/-- **P1: no negative circuit reachable from `s` ⇒ `Some`** (in particular when the digraph has
no negative circuit at all).  Proof: after `k` in-place passes every walk with `≤ k` arcs bounds
the entry of its end; a pass without update is a fixpoint (sound early exit); without negative
circuits every walk dominates one without repeated vertices, i.e. with `≤ order - 1` arcs. -/
theorem bfm_no_negcycle_some (g : WGraph) (hwf : g.WF) (s : Nat) (hs : s < g.n)
    (h : ¬ NegReachable g s) : ∃ d, distances g s = .ret (some d) :=
  no_negcycle_some hwf hs (fun x hr hn => h ⟨x, hr, hn⟩)

/-- `None` exactly when a negative circuit is reachable from the source. -/
theorem bfm_none_iff (g : WGraph) (hwf : g.WF) (s : Nat) (hs : s < g.n) :
    distances g s = .ret none ↔ NegReachable g s := by
  refine ⟨fun hnone => ?_, bfm_negcycle_none g hwf s hs⟩
  apply Classical.byContradiction
  intro hn
  obtain ⟨d, hd⟩ := bfm_no_negcycle_some g hwf s hs hn
  rw [hd] at hnone
  cases hnone

/-- Two exact vectors are equal: `Exact` determines the output. -/
theorem exact_unique (g : WGraph) (s : Nat) (d d' : Dist) (h : Exact g s d) (h' : Exact g s d') :
    d = d' :=
  Bfm.exact_unique h h'

/-- **P1: agreement with Dijkstra on non-negative weights**, at spec level: on non-negative
weights the result is `Some`, and it equals ANY vector that is exact in the sense of `Exact`
— which is what C03 states of `DijkstraDist::distances` (with `usize::MAX` as the sentinel).
The agreement of the two REAL functions is checked by the correspondence run. -/
theorem bfm_nonneg_agrees (g : WGraph) (hwf : g.WF) (s : Nat) (hs : s < g.n) (hnn : g.NonNeg)
    (dj : Dist) (hdj : Exact g s dj) : distances g s = .ret (some dj) := by
  obtain ⟨d, hd⟩ := no_negcycle_some hwf hs (nonneg_noNegReach hnn s)
  rw [hd, exact_unique g s d dj (bfm_some_exact g hwf s d hd) hdj]

/-- **Full statement of C07** for the model: for every well-formed weighted digraph and every
in-range source (path sums fitting is built into the model: weights are unbounded integers and
the sentinel is a separate value). -/
def Statement : Prop :=
  ∀ (g : WGraph) (s : Nat), g.WF → s < g.n →
    -- `None` whenever a negative circuit is reachable from `s`
    (NegReachable g s → distances g s = .ret none) ∧
    -- `Some` whenever the digraph has no negative circuit
    ((∀ x, ¬ NegCycleAt g x) → ∃ d, distances g s = .ret (some d)) ∧
    -- `Some(d)`: `d[v]` is the minimum walk weight, the sentinel exactly at unreachable vertices
    (∀ d, distances g s = .ret (some d) →
      Exact g s d ∧ ∀ v, v < g.n → (d[v]? = some none ↔ ¬ WReachFrom g [s] v)) ∧
    -- on non-negative weights it agrees with every exact algorithm (Dijkstra, by C03)
    (g.NonNeg → ∀ dj, Exact g s dj → distances g s = .ret (some dj))

theorem statement : Statement := by
  intro g s hwf hs
  refine ⟨bfm_negcycle_none g hwf s hs, ?_, ?_, ?_⟩
  · intro hno
    exact bfm_no_negcycle_some g hwf s hs (fun ⟨x, _, hn⟩ => hno x hn)
  · intro d hd
    have he := bfm_some_exact g hwf s d hd
    exact ⟨he, exact_inf_iff g s d he⟩
  · exact bfm_nonneg_agrees g hwf s hs

/-- Non-vacuity of the hypotheses of `bfm_no_negcycle_some` / `bfm_nonneg_agrees`: a digraph
with a negative arc but no negative circuit, all rounds needed; a non-negative one. -/
example : distances ⟨4, fun u => if u = 0 then [(3, 5)] else if u = 2 then [(1, -2)] else if u = 3 then [(2, -1)] else []⟩ 0
    = .ret (some [some 0, some 2, some 4, some 5]) := by decide
example : WGraph.NonNeg ⟨2, fun u => if u = 0 then [(1, 3)] else []⟩ := by
  intro u v w h
  simp only [WGraph.A] at h
  split at h <;> simp at h
  omega

/-- **State carried between calls.**  `distances(&mut self)` works on `self.dist` and does not
re-initialise it; still, every one of `k` calls on the SAME object returns exactly what a single
call returns: a `Some(d)` is a fixpoint of the round loop and passes the scan again; after a
`None` the vector still consists of walk weights, so the scan fires again. -/
theorem bfm_repeat_const (g : WGraph) (hwf : g.WF) (s : Nat) (hs : s < g.n) (k : Nat) (r : Option Dist)
    (h : distances g s = .ret r) : distancesRepeat g s k = some (List.replicate k r) :=
  distancesRepeat_const hwf hs k r h

/-- Non-vacuity: three calls on the negative-circuit doc example, three on a `Some` case. -/
example : distancesRepeat ⟨3, fun u => if u = 0 then [(1, -2)] else if u = 1 then [(2, -1)] else [(0, -1)]⟩ 0 3
    = some [none, none, none] := by decide
example : distancesRepeat ⟨3, fun u => if u = 0 then [(1, -2)] else if u = 2 then [(0, 1)] else []⟩ 0 3
    = some (List.replicate 3 (some [some 0, some (-2), none])) := by decide

end GraafVerif.C07
