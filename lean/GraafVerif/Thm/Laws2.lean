import GraafVerif.Proof.Laws2Filter
import GraafVerif.Proof.Laws2Deg
import GraafVerif.Proof.Laws2W
/-!
# Laws2 — `filter_vertices` laws, exact degree / size facts of the generators, history laws

Second helping of `Thm/Laws.lean` (same reading: `=` of model values is `==` of the Rust structs, `x = some r` =
"the call returns `r`").  Only statements, proofs by reference, non-vacuity examples.

1. `filter_vertices` (C11's fourth operation; implemented for `AdjacencyMap` only — ARBITRARY key sets, the
   result may have no vertex at all).
2. `star / wheel / path / biclique`: `size`, `is_balanced`, and `is_regular` as an `⇔` in the parameters — for
   all four bundles of `Proof/LawsInst.lean`.
3. Laws over mutation histories (C01/C20): `add_arc_weighted` overwrite, commuting adds, idempotent `add_arc`
   / `remove_arc`.
-/
namespace GraafVerif.Laws2
open GraafVerif.Repr GraafVerif.Ops GraafVerif.Query GraafVerif.Pred GraafVerif.GenSpec GraafVerif.Gen GraafVerif.ReprSpec
open GraafVerif.Laws (alRep amRep mxRep elRep)

/-! ## 1. `AdjacencyMap::filter_vertices` -/

/-- The `filter_vertices` laws (every well-formed map, every predicate, every thread count of `union`). -/
def StatementFilter : Prop :=
  -- composition, commutation, idempotence
  (∀ (g : AdjMap) (p q : Nat → Bool), g.WF → filterAM (filterAM g q) p = filterAM g (fun v => p v && q v)) ∧
  (∀ (g : AdjMap) (p q : Nat → Bool), g.WF → filterAM (filterAM g q) p = filterAM (filterAM g p) q) ∧
  (∀ (g : AdjMap) (p : Nat → Bool), g.WF → filterAM (filterAM g p) p = filterAM g p) ∧
  -- identity: exactly when every vertex is kept
  (∀ (g : AdjMap), g.WF → filterAM g (fun _ => true) = g) ∧
  (∀ (g : AdjMap) (p : Nat → Bool), g.WF → (filterAM g p = g ↔ ∀ v ∈ g.vertices, p v = true)) ∧
  -- `vertices()`, `arcs()`, `has_arc()` of the result
  (∀ (g : AdjMap) (p : Nat → Bool), g.WF →
    (∀ v, v ∈ (filterAM g p).vertices ↔ v ∈ g.vertices ∧ p v = true) ∧
    (∀ u v, (u, v) ∈ (filterAM g p).arcs ↔ (u, v) ∈ g.arcs ∧ p u = true ∧ p v = true) ∧
    (∀ u v, (filterAM g p).hasArc u v = (g.hasArc u v && p u && p v))) ∧
  -- commutes with `converse` and with `complement`, distributes over `union`
  (∀ (g : AdjMap) (p : Nat → Bool), g.WF → converseAM (filterAM g p) = filterAM (converseAM g) p) ∧
  (∀ (g : AdjMap) (p : Nat → Bool), g.WF → complementAM (filterAM g p) = filterAM (complementAM g) p) ∧
  (∀ (g k : AdjMap) (p : Nat → Bool) (ap : Nat), 0 < ap → g.WF → k.WF →
    0 < (filterAM g p).order + (filterAM k p).order →
    ∃ r, unionAM g k ap = some r ∧ unionAM (filterAM g p) (filterAM k p) ap = some (filterAM r p)) ∧
  -- sub- / superdigraph; spanning exactly when nothing is removed
  (∀ (g : AdjMap) (p : Nat → Bool), g.WF →
    Blanket.isSubdigraph (Query.AM.core (filterAM g p)) (Query.AM.core g) = true ∧
    Blanket.isSuperdigraph (Query.AM.core g) (Query.AM.core (filterAM g p)) = true ∧
    (Blanket.isSpanningSubdigraph (Query.AM.core (filterAM g p)) (Query.AM.core g) = true ↔ filterAM g p = g)) ∧
  -- hereditary predicates
  (∀ (g : AdjMap) (p : Nat → Bool), g.WF →
    (Pred.AM.isComplete g = true → Pred.AM.isComplete (filterAM g p) = true) ∧
    (Pred.AM.isSemicomplete g = true → Pred.AM.isSemicomplete (filterAM g p) = true) ∧
    (Pred.AM.isTournament g = true → Pred.AM.isTournament (filterAM g p) = true) ∧
    (Blanket.isSymmetric (Query.AM.core g) = true → Blanket.isSymmetric (Query.AM.core (filterAM g p)) = true) ∧
    (Blanket.isOriented (Query.AM.core g) = true → Blanket.isOriented (Query.AM.core (filterAM g p)) = true))

theorem statementFilter : StatementFilter :=
  ⟨fun g p q h => filter_filter g p q h, fun g p q h => filter_comm g p q h, fun g p h => filter_idem g p h,
   fun g h => filter_true g h, fun g p h => filter_eq_iff g p h, fun g p h => filter_vertices_arcs g p h,
   fun g p h => filter_converse g p h, fun g p h => filter_complement g p h,
   fun g k p ap hap hg hk hne => filter_union g k p ap hap hg hk hne, fun g p h => filter_sub g p h,
   fun g p h => filter_hereditary g p h⟩

/-! ## 2. degrees and sizes of `star`, `wheel`, `path`, `biclique` -/

structure DegLawsOf {R : Type} (M : Laws.Rep R) : Prop where
  symmetric_balanced : ∀ g, M.WF g → M.isSymmetric g = true → M.isBalanced g = some true
  /-- `star n`: `2(n-1)` arcs, balanced, regular ⇔ `n ≤ 2` -/
  gen_star_degrees : ∀ n, 1 ≤ n → M.fits n → ∃ s, M.fam.star n = some s ∧ M.size s = 2 * (n - 1) ∧
    M.isBalanced s = some true ∧ (M.isRegular s = some true ↔ n ≤ 2)
  /-- `wheel n` (`n ≥ 4`): `4(n-1)` arcs, balanced, regular ⇔ `n = 4` ⇔ `wheel n == complete n` -/
  gen_wheel_degrees : ∀ n, 4 ≤ n → M.fits n → ∃ w k, M.fam.wheel n = some w ∧ M.fam.complete n = some k ∧
    M.size w = 4 * (n - 1) ∧ M.isBalanced w = some true ∧ (M.isRegular w = some true ↔ n = 4) ∧ (w = k ↔ n = 4)
  /-- `path n`: regular ⇔ balanced ⇔ `n = 1` (`size = n - 1` is `Laws.gen_path`) -/
  gen_path_degrees : ∀ n, 1 ≤ n → M.fits n → ∃ p, M.fam.path n = some p ∧
    (M.isRegular p = some true ↔ n = 1) ∧ (M.isBalanced p = some true ↔ n = 1)
  /-- `biclique m n`: balanced, regular ⇔ `m = n` (`size = 2mn` is `Laws.gen_biclique`) -/
  gen_biclique_degrees : ∀ m n, 1 ≤ m → 1 ≤ n → M.fits (m + n) → ∃ b, M.fam.biclique m n = some b ∧
    M.isBalanced b = some true ∧ (M.isRegular b = some true ↔ m = n)

theorem degLaws {R : Type} (M : Laws.Rep R) : DegLawsOf M where
  symmetric_balanced := fun _ hg h => Rep.symmetric_balanced' hg h
  gen_star_degrees := fun _ hn hf => Rep.gen_star_degrees hn hf
  gen_wheel_degrees := fun _ hn hf => Rep.gen_wheel_degrees hn hf
  gen_path_degrees := fun _ hn hf => Rep.gen_path_degrees hn hf
  gen_biclique_degrees := fun _ _ hm hn hf => Rep.gen_biclique_degrees hm hn hf

def StatementDeg : Prop :=
  (∀ ap (hap : 0 < ap), DegLawsOf (alRep ap hap)) ∧ (∀ ap (hap : 0 < ap), DegLawsOf (amRep ap hap)) ∧
  DegLawsOf mxRep ∧ DegLawsOf elRep

theorem statementDeg : StatementDeg := ⟨fun _ _ => degLaws _, fun _ _ => degLaws _, degLaws _, degLaws _⟩

/-- plain model terms: `AdjacencyList::star(n)` -/
theorem al_star_facts (n : Nat) (hn : 1 ≤ n) :
    ∃ s, Gen.AL.star n = some s ∧ s.size = 2 * (n - 1) ∧ Blanket.isBalanced (Query.AL.core s) = some true ∧
      (Blanket.isRegular (Query.AL.core s) = some true ↔ n ≤ 2) :=
  (degLaws (alRep 1 (by decide))).gen_star_degrees n hn trivial

/-- plain model terms: `AdjacencyMatrix::wheel(n)` -/
theorem mx_wheel_facts (n : Nat) (hn : 4 ≤ n) (hf : n * n < 2 ^ 64) :
    ∃ w, Gen.MX.wheel n = some w ∧ w.size = 4 * (n - 1) ∧ (Blanket.isRegular (Query.MX.core w) = some true ↔ n = 4) := by
  obtain ⟨w, _, e, _, h1, _, h3, _⟩ := (degLaws mxRep).gen_wheel_degrees n hn hf
  exact ⟨w, e, h1, h3⟩

/-! ## 3. history laws (C01 / C20) -/

def StatementHist : Prop :=
  -- spec level: any fixed-order weighted arc set
  (∀ (s : SpecState Int) (u v : Nat) (w1 w2 : Int),
    (run (specStep .fixed) s [.add u v w1, .add u v w2]).1 = (run (specStep .fixed) s [.add u v w2]).1) ∧
  -- `AdjacencyListWeighted`: overwrite (identical structure), last weight is read back, adds commute, remove idempotent
  (∀ (d : AdjListW), d.WF → ∀ u v w1 w2,
    (run AdjListW.step d [.add u v w1, .add u v w2]).1 = (run AdjListW.step d [.add u v w2]).1) ∧
  (∀ (d : AdjListW), d.WF → ∀ u v w1 w2, rejected .fixed d.abs u v = false →
    ((run AdjListW.step d [.add u v w1, .add u v w2]).1).arcWeight u v = some w2 ∧
    ((run AdjListW.step d [.add u v w1, .add u v w2]).1).WF) ∧
  (∀ (d : AdjListW), d.WF → ∀ u v x y w w', ¬ (u = x ∧ v = y) →
    (run AdjListW.step d [.add u v w, .add x y w']).1 = (run AdjListW.step d [.add x y w', .add u v w]).1) ∧
  (∀ (d : AdjListW), d.WF → ∀ u v,
    (run AdjListW.step d [.rem u v, .rem u v]).1 = (run AdjListW.step d [.rem u v]).1) ∧
  -- unweighted shadows
  (∀ (d : AdjList), d.WF → ∀ u v,
    (run AdjList.step d [.add u v (), .add u v ()]).1 = (run AdjList.step d [.add u v ()]).1) ∧
  (∀ (d : AdjList), d.WF → ∀ u v x y, ¬ (u = x ∧ v = y) →
    (run AdjList.step d [.add u v (), .add x y ()]).1 = (run AdjList.step d [.add x y (), .add u v ()]).1) ∧
  (∀ (d : EdgeList), d.WF → ∀ u v,
    (run EdgeList.step d [.add u v (), .add u v ()]).1 = (run EdgeList.step d [.add u v ()]).1) ∧
  (∀ (d : EdgeList), d.WF → ∀ u v x y, ¬ (u = x ∧ v = y) →
    (run EdgeList.step d [.add u v (), .add x y ()]).1 = (run EdgeList.step d [.add x y (), .add u v ()]).1)

theorem statementHist : StatementHist :=
  ⟨fun s u v w1 w2 => spec_add_add s u v w1 w2, fun d h u v w1 w2 => adjListW_add_overwrite d h u v w1 w2,
   fun d h u v w1 w2 hok => adjListW_overwrite_reads d h u v w1 w2 hok,
   fun d h u v x y w w' hne => adjListW_add_comm d h u v x y w w' hne, fun d h u v => adjListW_rem_rem d h u v,
   fun d h u v => adjList_add_idem d h u v, fun d h u v x y hne => adjList_add_comm d h u v x y hne,
   fun d h u v => edgeList_add_idem d h u v, fun d h u v x y hne => edgeList_add_comm d h u v x y hne⟩

/-- **Full statement.** -/
def Statement : Prop := StatementFilter ∧ StatementDeg ∧ StatementHist
theorem statement : Statement := ⟨statementFilter, statementDeg, statementHist⟩

/-! ## Non-vacuity -/

-- a map with sparse keys `{2, 5, 7, 9}`; keep the odd ids / the ids ≥ 5
example : filterAM (filterAM ⟨[(2, [5, 9]), (5, [2]), (7, [2, 9]), (9, [])]⟩ (fun v => decide (v ≥ 5))) (fun v => v % 2 == 1) =
    filterAM ⟨[(2, [5, 9]), (5, [2]), (7, [2, 9]), (9, [])]⟩ (fun v => v % 2 == 1 && decide (v ≥ 5)) := by decide
example : filterAM ⟨[(2, [5, 9]), (5, [2]), (7, [2, 9]), (9, [])]⟩ (fun v => v % 2 == 1) = ⟨[(5, []), (7, [9]), (9, [])]⟩ := by decide
example : filterAM ⟨[(2, [5, 9]), (5, [2]), (7, [2, 9]), (9, [])]⟩ (fun _ => true) = ⟨[(2, [5, 9]), (5, [2]), (7, [2, 9]), (9, [])]⟩ := by
  decide
example : converseAM (filterAM ⟨[(2, [5, 9]), (5, [2]), (7, [2, 9]), (9, [])]⟩ (fun v => decide (v ≥ 5))) =
    filterAM (converseAM ⟨[(2, [5, 9]), (5, [2]), (7, [2, 9]), (9, [])]⟩) (fun v => decide (v ≥ 5)) := by decide
example : complementAM (filterAM ⟨[(2, [5, 9]), (5, [2]), (7, [2, 9]), (9, [])]⟩ (fun v => decide (v ≥ 5))) =
    filterAM (complementAM ⟨[(2, [5, 9]), (5, [2]), (7, [2, 9]), (9, [])]⟩) (fun v => decide (v ≥ 5)) := by decide
example : Blanket.isSubdigraph (Query.AM.core (filterAM ⟨[(2, [5, 9]), (5, [2]), (7, [2, 9]), (9, [])]⟩ (fun v => v % 2 == 1)))
      (Query.AM.core ⟨[(2, [5, 9]), (5, [2]), (7, [2, 9]), (9, [])]⟩) = true ∧
    Blanket.isSpanningSubdigraph (Query.AM.core (filterAM ⟨[(2, [5, 9]), (5, [2]), (7, [2, 9]), (9, [])]⟩ (fun v => v % 2 == 1)))
      (Query.AM.core ⟨[(2, [5, 9]), (5, [2]), (7, [2, 9]), (9, [])]⟩) = false := by decide
/-- why `filter_union` needs a kept vertex: `union` of two vertex-less maps returns `trivial()` (vertex `0`),
while the filter of the union has no vertex -/
example : unionAM (filterAM ⟨[(2, [5]), (5, [])]⟩ (fun _ => false)) (filterAM ⟨[(7, [])]⟩ (fun _ => false)) 2 = some ⟨[(0, [])]⟩ ∧
    filterAM (unionSeqAM ⟨[(2, [5]), (5, [])]⟩ ⟨[(7, [])]⟩) (fun _ => false) = ⟨[]⟩ := by decide
-- a tournament on sparse ids stays one
example : Pred.AM.isTournament ⟨[(2, [7]), (7, [1000]), (1000, [2])]⟩ = true ∧
    Pred.AM.isTournament (filterAM ⟨[(2, [7]), (7, [1000]), (1000, [2])]⟩ (fun v => decide (v ≥ 7))) = true := by decide
-- degrees / sizes
example : (List.range 6).map (fun n => (Gen.AL.star n).map (fun s =>
      (s.size, Blanket.isRegular (Query.AL.core s), Blanket.isBalanced (Query.AL.core s)))) =
    [none, some (0, some true, some true), some (2, some true, some true), some (4, some false, some true),
     some (6, some false, some true), some (8, some false, some true)] := by decide
example : (List.range 7).map (fun n => (Gen.AL.wheel n).map (fun s => (s.size, Blanket.isRegular (Query.AL.core s)))) =
    [none, none, none, none, some (12, some true), some (16, some false), some (20, some false)] := by decide
example : Gen.AL.wheel 4 = Gen.AL.complete 4 3 := by decide
example : (List.range 4).map (fun n => (Gen.AL.path n).map (fun s =>
      (Blanket.isRegular (Query.AL.core s), Blanket.isBalanced (Query.AL.core s)))) =
    [none, some (some true, some true), some (some false, some false), some (some false, some false)] := by decide
example : ((Gen.AL.biclique 2 2).map (fun s => Blanket.isRegular (Query.AL.core s)),
    (Gen.AL.biclique 2 3).map (fun s => (Blanket.isRegular (Query.AL.core s), Blanket.isBalanced (Query.AL.core s)))) =
    (some (some true), some (some false, some true)) := by decide
-- histories on the weighted list
example :
    (do let d ← AdjListW.empty 3
        let a := (run AdjListW.step d [.add 0 1 5, .add 0 2 1, .add 0 1 (-2)]).1
        let b := (run AdjListW.step d [.add 0 2 1, .add 0 1 (-2)]).1
        pure (decide (a = b), a.arcWeight 0 1, a.arcs)) = some (true, some (-2), [(0, 1), (0, 2)]) := by decide

end GraafVerif.Laws2
