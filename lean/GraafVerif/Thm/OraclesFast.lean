import GraafVerif.Thm.Oracles
import GraafVerif.Proof.OracleFastArcs
import GraafVerif.Proof.OracleFastHop
import GraafVerif.Proof.OracleFastDrivers
import GraafVerif.Proof.OracleFastJudgeTop
/-!
# OraclesFast — the drivers' FAST oracles return what the proved naive oracles return

For the stress inputs (orders 130–1100, weights up to 2^62) the drivers judge the implementation's
output with `Array`-based early-exit oracles instead of the naive list oracles of
`Spec/Graph.lean`.  `Spec/OracleFast.lean` holds canonical versions (`wdistFast`,
`wdistFastFlag`, `wdistFastPair`, `wdistArcsFast`, `hopDistFastA`, `reachFast`); here each is proved

1. EQUAL to the naive oracle proved exact in `Thm/Oracles.lean`, for every well-formed digraph
   (`g.WF`) and in-range sources — so every theorem about `wdistB` / `hopDistB` / `reachSetB`
   transfers — and, as corollaries, exact against `IsMinDist` / `IsHopDist` / `ReachFrom`;
2. the SAME FUNCTION as the definition the driver runs (`H03.fastDist`, `H04.hopDistFast`,
   `H08.bfA`), so the drivers are covered without being edited.

Only statements, proofs by reference and non-vacuity examples; the proofs are in
`Proof/OracleFastWDist.lean`, `Proof/OracleFastArcs.lean`, `Proof/OracleFastHop.lean`,
`Proof/OracleFastDrivers.lean`; for the out-forest judge (section 5) in `Proof/OracleFastForest.lean`,
`Proof/OracleFastJudge.lean`, `Proof/OracleFastJudgeTop.lean`.
-/
namespace GraafVerif.OraclesFast
open GraafVerif GraafVerif.Driver

/-! ## Full statements -/

/-- The fast weighted oracle: same flag as `wdistB`; flag down ⇒ same labels. -/
def WDistFastStatement : Prop :=
  ∀ (g : WGraph) (S : List Nat), g.WF → (∀ s ∈ S, s < g.n) →
    wdistFastFlag g S = (wdistB g S).2 ∧
    ((wdistB g S).2 = false → wdistFast g S = (wdistB g S).1 ∧ wdistFastPair g S = wdistB g S)

/-- The arc-list oracle: same flag as `wdistB g [s]`; flag down ⇒ same pair. -/
def WDistArcsStatement : Prop :=
  ∀ (g : WGraph) (arcs : List (Nat × Nat × Int)) (s : Nat), g.WF → (∀ u v w, (u, v, w) ∈ arcs ↔ g.A u v w) →
    s < g.n →
    (wdistArcsFast g arcs s).2 = (wdistB g [s]).2 ∧
    ((wdistB g [s]).2 = false → wdistArcsFast g arcs s = wdistB g [s])

def HopFastStatement : Prop :=
  ∀ (g : Graph) (S : List Nat), g.WF → (∀ s ∈ S, s < g.n) → hopDistFastA g S = hopDistB g S

def ReachFastStatement : Prop :=
  ∀ (g : Graph) (S : List Nat), g.WF → (∀ s ∈ S, s < g.n) → reachFast g S = reachSetB g S

/-! ## 1. `wdistFast` (`H03.fastDist`) -/

/-- The negative-circuit flag of the fast oracle is the flag of `wdistB` (every source list). -/
theorem wdistFastFlag_eq {g : WGraph} (hwf : g.WF) (S : List Nat) : wdistFastFlag g S = (wdistB g S).2 :=
  OracleFastProof.wdistFastFlag_eq hwf S

/-- Flag down: the fast oracle returns the list `wdistB` returns (every source list). -/
theorem wdistFast_eq {g : WGraph} (hwf : g.WF) (S : List Nat) (hf : (wdistB g S).2 = false) :
    wdistFast g S = (wdistB g S).1 :=
  OracleFastProof.wdistFast_eq hwf S hf

/-- `wdistFastPair` is `wdistFast` with the flag (no hypothesis). -/
theorem wdistFastPair_fst (g : WGraph) (S : List Nat) : (wdistFastPair g S).1 = wdistFast g S :=
  OracleFastProof.wdistFastPair_fst g S

/-- Flag down: labels and flag in one run are `wdistB`'s pair. -/
theorem wdistFastPair_eq {g : WGraph} (hwf : g.WF) (S : List Nat) (hf : (wdistB g S).2 = false) :
    wdistFastPair g S = wdistB g S :=
  Prod.ext ((wdistFastPair_fst g S).trans (wdistFast_eq hwf S hf)) (wdistFastFlag_eq hwf S)

theorem wdistFast_statement_holds : WDistFastStatement :=
  fun _ S hwf _ => ⟨wdistFastFlag_eq hwf S, fun hf => ⟨wdistFast_eq hwf S hf, wdistFastPair_eq hwf S hf⟩⟩

/-- Flag `true` ⇔ a negative circuit is reachable from `S`. -/
theorem wdistFastFlag_iff {g : WGraph} (hwf : g.WF) {S : List Nat} (hS : ∀ s ∈ S, s < g.n) :
    wdistFastFlag g S = true ↔ ∃ x, WReachFrom g S x ∧ NegCycleAt g x := by
  rw [wdistFastFlag_eq hwf S]; exact Oracles.wdistB_flag hwf hS

/-- Flag `false` ⇒ the entries of the fast oracle are exact. -/
theorem wdistFast_spec {g : WGraph} (hwf : g.WF) {S : List Nat} (hS : ∀ s ∈ S, s < g.n)
    (hf : wdistFastFlag g S = false) :
    (wdistFast g S).length = g.n ∧
    (∀ v d, (wdistFast g S)[v]?.getD none = some d ↔ IsMinDist g S v d) ∧
    (∀ v, (wdistFast g S)[v]?.getD none = none ↔ ¬ WReachFrom g S v) := by
  rw [wdistFastFlag_eq hwf S] at hf
  rw [wdistFast_eq hwf S hf]
  exact Oracles.wdistB_spec hwf hS hf

/-- Non-negative weights (Dijkstra's precondition, the only use in H03): equal and exact
unconditionally. -/
theorem wdistFast_nonneg {g : WGraph} (hwf : g.WF) (hnn : g.NonNeg) {S : List Nat} (hS : ∀ s ∈ S, s < g.n) :
    wdistFast g S = (wdistB g S).1 ∧
    (wdistFast g S).length = g.n ∧
    (∀ v d, (wdistFast g S)[v]?.getD none = some d ↔ IsMinDist g S v d) ∧
    (∀ v, (wdistFast g S)[v]?.getD none = none ↔ ¬ WReachFrom g S v) := by
  have hf := OracleProof.wdistB_nonneg_flag hwf hnn hS
  refine ⟨wdistFast_eq hwf S hf, ?_⟩
  rw [wdistFast_eq hwf S hf]
  exact Oracles.wdistB_spec hwf hS hf

/-- **The driver's definition is the canonical one.** -/
theorem h03_fastDist_eq : H03.fastDist = wdistFast := OracleFastProof.h03_fastDist_eq

/-- **H03 as it runs**: the distances `H03.oracleDist` hands to every Dijkstra check (`wdistB` up to
order 60, `fastDist` above) are `wdistB`'s for every order, hence exact (`Oracles.wdistB_nonneg`). -/
theorem h03_oracleDist_eq {g : WGraph} (hwf : g.WF) (hnn : g.NonNeg) {S : List Nat} (hS : ∀ s ∈ S, s < g.n) :
    H03.oracleDist g S = (wdistB g S).1 := by
  unfold H03.oracleDist
  split
  · rfl
  · rw [h03_fastDist_eq]; exact (wdistFast_nonneg hwf hnn hS).1

/-! ## 2. `wdistArcsFast` (`H08.bfA`) -/

/-- Same flag as `wdistB g [s]`, negative circuits or not. -/
theorem wdistArcsFast_flag {g : WGraph} (hwf : g.WF) {arcs : List (Nat × Nat × Int)}
    (harcs : ∀ u v w, (u, v, w) ∈ arcs ↔ g.A u v w) {s : Nat} (hs : s < g.n) :
    (wdistArcsFast g arcs s).2 = (wdistB g [s]).2 :=
  OracleFastProof.wdistArcsFast_flag hwf harcs hs

/-- Flag down: the same pair as `wdistB g [s]`. -/
theorem wdistArcsFast_eq {g : WGraph} (hwf : g.WF) {arcs : List (Nat × Nat × Int)}
    (harcs : ∀ u v w, (u, v, w) ∈ arcs ↔ g.A u v w) {s : Nat} (hs : s < g.n)
    (hf : (wdistB g [s]).2 = false) : wdistArcsFast g arcs s = wdistB g [s] :=
  OracleFastProof.wdistArcsFast_eq hwf harcs hs hf

theorem wdistArcs_statement_holds : WDistArcsStatement :=
  fun _ _ _ hwf harcs hs => ⟨wdistArcsFast_flag hwf harcs hs, wdistArcsFast_eq hwf harcs hs⟩

/-- The flat arc list of a well-formed digraph (`wgraphArcs g`, the same list as
`Fw.arcsWeighted g`) lists exactly its arcs. -/
theorem wgraphArcs_mem {g : WGraph} (hwf : g.WF) (u v : Nat) (w : Int) :
    (u, v, w) ∈ wgraphArcs g ↔ g.A u v w :=
  OracleFastProof.wgraphArcs_mem hwf u v w

/-- **The driver's definition is the canonical one.** -/
theorem h08_bfA_eq : H08.bfA = wdistArcsFast := OracleFastProof.h08_bfA_eq

/-- **H08 as it runs**: the single-source oracle `H08.ssOracle` (`wdistB` up to order 40, `bfA` on
`Fw.arcsWeighted g` above) has the flag of `wdistB g [s]` for every order … -/
theorem h08_ssOracle_flag {g : WGraph} (hwf : g.WF) {s : Nat} (hs : s < g.n) :
    (H08.ssOracle g s).2 = (wdistB g [s]).2 := by
  unfold H08.ssOracle
  split
  · rfl
  · show (H08.bfA g (Fw.arcsWeighted g) s).2 = _
    rw [h08_bfA_eq, OracleFastProof.fw_arcsWeighted_eq]
    exact wdistArcsFast_flag hwf (wgraphArcs_mem hwf) hs

/-- … and, flag down, returns the pair `wdistB g [s]` returns (exact by `Oracles.wdistB_spec`). -/
theorem h08_ssOracle_eq {g : WGraph} (hwf : g.WF) {s : Nat} (hs : s < g.n) (hf : (wdistB g [s]).2 = false) :
    H08.ssOracle g s = wdistB g [s] := by
  unfold H08.ssOracle
  split
  · rfl
  · show H08.bfA g (Fw.arcsWeighted g) s = _
    rw [h08_bfA_eq, OracleFastProof.fw_arcsWeighted_eq]
    exact wdistArcsFast_eq hwf (wgraphArcs_mem hwf) hs hf

/-- H08's skip test on the results it computed (`res.any (·.2)`) is `Oracles.anyFlag_iff`'s test:
`true` ⇔ the digraph has a negative circuit. -/
theorem h08_skip_iff {g : WGraph} (hwf : g.WF) :
    ((List.range g.n).map (H08.ssOracle g)).any (·.2) = true ↔ ∃ x, NegCycleAt g x := by
  rw [← Oracles.anyFlag_iff hwf, List.any_map, List.any_eq_true, List.any_eq_true]
  constructor
  · rintro ⟨s, hs, h⟩
    exact ⟨s, hs, by rw [← h08_ssOracle_flag hwf (List.mem_range.mp hs)]; exact h⟩
  · rintro ⟨s, hs, h⟩
    exact ⟨s, hs, by rw [Function.comp_apply, h08_ssOracle_flag hwf (List.mem_range.mp hs)]; exact h⟩

/-- When H08 does not skip, the rows it compares with are `wdistB`'s rows. -/
theorem h08_wants_eq {g : WGraph} (hwf : g.WF)
    (hno : ((List.range g.n).map (H08.ssOracle g)).any (·.2) = false) :
    (List.range g.n).map (H08.ssOracle g) = (List.range g.n).map (fun s => wdistB g [s]) := by
  apply List.map_congr_left
  intro s hs
  have hlt := List.mem_range.mp hs
  apply h08_ssOracle_eq hwf hlt
  rw [← h08_ssOracle_flag hwf hlt]
  cases h : (H08.ssOracle g s).2 with
  | false => rfl
  | true =>
    have : ((List.range g.n).map (H08.ssOracle g)).any (·.2) = true :=
      List.any_eq_true.mpr ⟨_, List.mem_map.mpr ⟨s, hs, rfl⟩, h⟩
    rw [this] at hno; cases hno

/-! ## 3. `hopDistFastA` (`H04.hopDistFast`) -/

/-- The fast hop-distance oracle returns the list `hopDistB` returns. -/
theorem hopDistFastA_eq {g : Graph} (hwf : g.WF) {S : List Nat} (hS : ∀ s ∈ S, s < g.n) :
    hopDistFastA g S = hopDistB g S :=
  OracleFastProof.hopDistFastA_eq hwf hS

theorem hopFast_statement_holds : HopFastStatement := fun _ _ hwf hS => hopDistFastA_eq hwf hS

/-- Exactness, proved directly from the frontier invariant (not through `hopDistB`). -/
theorem hopDistFastA_spec {g : Graph} (hwf : g.WF) {S : List Nat} (hS : ∀ s ∈ S, s < g.n) (v d : Nat) :
    (hopDistFastA g S)[v]?.getD none = some d ↔ IsHopDist g S v d :=
  ⟨(OracleFastProof.hopDistFastA_done hwf hS).sound v d, (OracleFastProof.hopDistFastA_done hwf hS).compl v d⟩

theorem hopDistFastA_none {g : Graph} (hwf : g.WF) {S : List Nat} (hS : ∀ s ∈ S, s < g.n) (v : Nat) :
    (hopDistFastA g S)[v]?.getD none = none ↔ ¬ ReachFrom g S v := by
  rw [hopDistFastA_eq hwf hS]; exact Oracles.hopDistB_none hwf hS v

theorem hopDistFastA_length {g : Graph} (hwf : g.WF) {S : List Nat} (hS : ∀ s ∈ S, s < g.n) :
    (hopDistFastA g S).length = g.n :=
  (OracleFastProof.hopDistFastA_done hwf hS).len

/-- **The driver's definition is the canonical one.** -/
theorem h04_hopDistFast_eq : H04.hopDistFast = hopDistFastA := OracleFastProof.h04_hopDistFast_eq

/-- **H04 / H05 as they run**: the hop distances `mkCtx` computes (`hopDistB` up to order 130,
`hopDistFast` above) are `hopDistB`'s for every order. -/
theorem h04_hd_eq {g : Graph} (hwf : g.WF) {S : List Nat} (hS : ∀ s ∈ S, s < g.n) (order : Nat) :
    (if order ≤ 130 then hopDistB g S else H04.hopDistFast g S) = hopDistB g S := by
  split
  · rfl
  · rw [h04_hopDistFast_eq]; exact hopDistFastA_eq hwf hS

/-! ## 4. `reachFast` -/

/-- The fast reachability oracle returns the list `reachSetB` returns. -/
theorem reachFast_eq {g : Graph} (hwf : g.WF) {S : List Nat} (hS : ∀ s ∈ S, s < g.n) :
    reachFast g S = reachSetB g S :=
  OracleFastProof.reachFast_eq hwf hS

theorem reachFast_statement_holds : ReachFastStatement := fun _ _ hwf hS => reachFast_eq hwf hS

theorem reachFast_spec {g : Graph} (hwf : g.WF) {S : List Nat} (hS : ∀ s ∈ S, s < g.n) (v : Nat) :
    (reachFast g S)[v]?.getD false = true ↔ ReachFrom g S v := by
  rw [reachFast_eq hwf hS]; exact Oracles.reachSetB_spec hwf hS v

/-- It is the `isSome` image of the hop search on EVERY input (no hypothesis). -/
theorem reachFast_eq_hop (g : Graph) (S : List Nat) : reachFast g S = (hopDistFastA g S).map Option.isSome :=
  OracleFastProof.reachFast_eq_hop g S

/-! ## 5. Out-forest judge (`forestParentsRec`, `forestJudgeRec`; replacement for H06's light path)

`H06.forestParents` / `H06.forestJudge` are `Id.run do` loops and are NOT proved.  The
recursion-based versions below do the same job and are proved against `Spec/Dfs.lean`. -/

/-- The out-forest shape: duplicate-free rows, `v ∈ g.out u ↔ par[v] = some u` for `u < n`, sources
distinct, in range and without parent. -/
abbrev IsForest := @OracleFastProof.IsForest

/-- "if reported, equal to" -/
abbrev OptEq {β : Type} := @OracleFastProof.OptEq β

/-- The out-forest judge, full statement: on a certified out-forest it accepts exactly the
sequences `Spec/Dfs.lean` annotates, with the reported depths / predecessors / forest, that yield
exactly the reachable set once each. -/
def ForestJudgeStatement : Prop :=
  ∀ (g : Graph) (S : List Nat) (par : Array (Option Nat)), g.WF → forestParentsRec g S = some par →
    ∀ (xs : List Nat) (depths : Option (List Nat)) (preds tree : Option (List (Option Nat))),
      forestJudgeRec g S par xs depths preds tree = none ↔
      ∃ ann, Dfs.annotate g S xs = some ann ∧ OptEq depths (ann.map (·.2.2)) ∧ OptEq preds (ann.map (·.2.1)) ∧
        OptEq tree (Dfs.forestOf g.n ann) ∧ Dfs.Exact g S xs

/-- `forestParentsRec` certifies the out-forest shape. -/
theorem forestParentsRec_sound {g : Graph} {S : List Nat} {par : Array (Option Nat)}
    (h : forestParentsRec g S = some par) : IsForest g S par :=
  OracleFastProof.forestParentsRec_sound h

/-- The digraphs the drivers build (`Graph.ofRows …`) are well formed once certified: no separate
`WF` hypothesis is needed on the light path. -/
theorem forest_wf_ofRows {rows : Array (List Nat)} {S : List Nat} {par : Array (Option Nat)}
    (h : forestParentsRec (Graph.ofRows rows) S = some par) : (Graph.ofRows rows).WF :=
  (forestParentsRec_sound h).wf (OracleFastProof.ofRows_out_ge rows)

theorem forestJudgeRec_iff {g : Graph} (hwf : g.WF) {S : List Nat} {par : Array (Option Nat)}
    (hF : IsForest g S par) (xs : List Nat) (depths : Option (List Nat)) (preds tree : Option (List (Option Nat))) :
    forestJudgeRec g S par xs depths preds tree = none ↔
    ∃ ann, Dfs.annotate g S xs = some ann ∧ OptEq depths (ann.map (·.2.2)) ∧ OptEq preds (ann.map (·.2.1)) ∧
      OptEq tree (Dfs.forestOf g.n ann) ∧ Dfs.Exact g S xs :=
  OracleFastProof.forestJudgeRec_iff hwf hF xs depths preds tree

theorem forestJudge_statement_holds : ForestJudgeStatement :=
  fun _ _ _ hwf hp xs depths preds tree => forestJudgeRec_iff hwf (forestParentsRec_sound hp) xs depths preds tree

/-- In the shapes H06 calls the judge (`parseObs`): `Dfs` items … -/
theorem forestJudgeRec_dfs {g : Graph} (hwf : g.WF) {S : List Nat} {par : Array (Option Nat)}
    (hp : forestParentsRec g S = some par) (xs : List Nat) :
    forestJudgeRec g S par xs none none none = none ↔ Dfs.DfsOK g S xs :=
  OracleFastProof.forestJudgeRec_dfs hwf (forestParentsRec_sound hp) xs

/-- … `DfsDist` items `(v, depth)` … -/
theorem forestJudgeRec_dist {g : Graph} (hwf : g.WF) {S : List Nat} {par : Array (Option Nat)}
    (hp : forestParentsRec g S = some par) (items : List (Nat × Nat)) :
    forestJudgeRec g S par (items.map (·.1)) (some (items.map (·.2))) none none = none ↔ Dfs.DfsDistOK g S items :=
  OracleFastProof.forestJudgeRec_dist hwf (forestParentsRec_sound hp) items

/-- … `DfsPred` items `(v, pred)` and `predecessors()`. -/
theorem forestJudgeRec_pred {g : Graph} (hwf : g.WF) {S : List Nat} {par : Array (Option Nat)}
    (hp : forestParentsRec g S = some par) (items : List (Nat × Option Nat)) (tree : List (Option Nat)) :
    forestJudgeRec g S par (items.map (·.1)) none (some (items.map (·.2))) (some tree) = none ↔
      Dfs.DfsPredOK g S items tree :=
  OracleFastProof.forestJudgeRec_pred hwf (forestParentsRec_sound hp) items tree

/-- Non-vacuity: the broom `0 → 2`, `2 → 1, 3, 4` (order 5), built like the driver builds it. -/
def broom : Graph := Graph.ofRows (rowsOfArcs 5 [(0,2),(2,1),(2,3),(2,4)])
theorem broom_wf : broom.WF := (Oracles.driverGraph_hyps 5 _ (by decide)).2
def broomPar : Array (Option Nat) := #[none, some 2, some 0, some 2, some 2]
theorem broom_par : forestParentsRec broom [0] = some broomPar := by decide

example : forestJudgeRec broom [0] broomPar [0, 2, 3, 1, 4] none none none = none := by decide
example : Dfs.DfsOK broom [0] [0, 2, 3, 1, 4] := (forestJudgeRec_dfs broom_wf broom_par _).mp (by decide)
example : Dfs.DfsDistOK broom [0] [(0,0), (2,1), (4,2), (1,2), (3,2)] :=
  (forestJudgeRec_dist broom_wf broom_par _).mp (by decide)
example : Dfs.DfsPredOK broom [0] [(0,none), (2,some 0), (1,some 2), (3,some 2), (4,some 2)]
    [none, some 2, some 0, some 2, some 2] := (forestJudgeRec_pred broom_wf broom_par _ _).mp (by decide)
/-- Rejections: a child before its parent, a missing vertex, a wrong depth, a wrong predecessor,
a wrong forest, a vertex twice. -/
example : (forestJudgeRec broom [0] broomPar [0, 1, 2, 3, 4] none none none).isSome = true := by decide
example : (forestJudgeRec broom [0] broomPar [0, 2, 3, 1] none none none).isSome = true := by decide
example : (forestJudgeRec broom [0] broomPar [0, 2, 3, 1, 4] (some [0, 1, 2, 2, 1]) none none).isSome = true := by decide
example : (forestJudgeRec broom [0] broomPar [0, 2, 3, 1, 4] none (some [none, some 0, some 2, some 0, some 2]) none).isSome
    = true := by decide
example : (forestJudgeRec broom [0] broomPar [0, 2, 3, 1, 4] none none (some [none, some 2, some 0, some 2, none])).isSome
    = true := by decide
example : (forestJudgeRec broom [0] broomPar [0, 2, 3, 3, 4] none none none).isSome = true := by decide
example : ¬ Dfs.DfsOK broom [0] [0, 2, 3, 1] :=
  fun h => absurd ((forestJudgeRec_dfs broom_wf broom_par _).mpr h) (by decide)
/-- Not an out-forest (vertex `1` has two in-arcs; a source with an in-arc): no certificate. -/
example : forestParentsRec (Graph.ofRows (rowsOfArcs 3 [(0,1),(2,1)])) [0] = none := by decide
example : forestParentsRec broom [2] = none := by decide

/-! ## Non-vacuity: the digraphs of `Thm/Oracles.lean`, built the way the drivers build them -/

example : wdistFast Oracles.wEx [0] = [some 0, some (-1), some 1, some 0, none] := by decide
example : wdistFastPair Oracles.wEx [0] = ([some 0, some (-1), some 1, some 0, none], false) := by decide
example : wdistFastFlag Oracles.wEx [0] = false := by decide
example : H03.fastDist Oracles.wEx [0] = (wdistB Oracles.wEx [0]).1 := by decide
/-- … so the theorems certify, e.g., the minimum walk weight `-1` of `0 → 2 → 1`. -/
example : IsMinDist Oracles.wEx [0] 1 (-1) := ((wdistFast_spec Oracles.wEx_wf Oracles.wEx_src (by decide)).2.1 1 (-1)).mp (by decide)
example : ¬ WReachFrom Oracles.wEx [0] 4 := ((wdistFast_spec Oracles.wEx_wf Oracles.wEx_src (by decide)).2.2 4).mp (by decide)

/-- A reachable negative circuit: the flag goes up (and the labels are then NOT `wdistB`'s: the
early-exit loop ran one more round — the equality needs the flag down). -/
example : wdistFastFlag Oracles.wNeg [0] = true := by decide
example : wdistFast Oracles.wNeg [0] ≠ (wdistB Oracles.wNeg [0]).1 := by decide
example : ∃ x, WReachFrom Oracles.wNeg [0] x ∧ NegCycleAt Oracles.wNeg x :=
  (wdistFastFlag_iff Oracles.wNeg_wf (S := [0]) (by decide)).mp (by decide)
example : wdistFastFlag Oracles.wNegUnreach [0] = false := by decide

/-- Early exit happens: one round suffices on a path scanned in arc order (fuel is `n + 1 = 5`). -/
example : OracleFast.wfGoF (WGraph.ofRows (wrowsOfArcs 4 [(0,1,1),(1,2,1),(2,3,1)])) 2
    (OracleFast.wfInit 4 [0]) = (#[some 0, some 1, some 2, some 3], false) := by decide

example : wdistArcsFast Oracles.wEx (wgraphArcs Oracles.wEx) 0 = wdistB Oracles.wEx [0] := by decide
example : H08.bfA Oracles.wEx (Fw.arcsWeighted Oracles.wEx) 0 = ([some 0, some (-1), some 1, some 0, none], false) := by decide
example : (wdistArcsFast Oracles.wNeg (wgraphArcs Oracles.wNeg) 0).2 = true := by decide
example : (wdistArcsFast Oracles.wNegUnreach (wgraphArcs Oracles.wNegUnreach) 0).2 = false := by decide
example : (wdistArcsFast Oracles.wNegUnreach (wgraphArcs Oracles.wNegUnreach) 1).2 = true := by decide
/-- Negative self-loop-free example where the relaxation ORDER matters inside a round, not for the result. -/
example : wdistArcsFast Oracles.wEx [(4,0,1),(1,3,1),(2,1,-2),(0,2,1),(0,1,4)] 0 = wdistB Oracles.wEx [0] := by decide

example : hopDistFastA Oracles.gEx [0] = [some 0, some 1, some 2, none, none] := by decide
example : H04.hopDistFast Oracles.gEx [0] = hopDistB Oracles.gEx [0] := by decide
example : hopDistFastA Oracles.gEx [3, 0] = [some 0, some 1, some 2, some 0, none] := by decide
example : IsHopDist Oracles.gEx [0] 2 2 := (hopDistFastA_spec Oracles.gEx_wf Oracles.gEx_src 2 2).mp (by decide)
example : ¬ ReachFrom Oracles.gEx [0] 3 := (hopDistFastA_none Oracles.gEx_wf Oracles.gEx_src 3).mp (by decide)

example : reachFast Oracles.gEx [0] = [true, true, true, false, false] := by decide
example : ReachFrom Oracles.gEx [0] 2 := (reachFast_spec Oracles.gEx_wf Oracles.gEx_src 2).mp (by decide)
example : ¬ ReachFrom Oracles.gEx [0] 3 := fun h => absurd ((reachFast_spec Oracles.gEx_wf Oracles.gEx_src 3).mpr h) (by decide)

end GraafVerif.OraclesFast
