import GraafVerif.Proof.ValueRoundTrip
import GraafVerif.Proof.VerdictGlue
/-!
# Correspondence glue: the value syntax of the line protocol (all 20 checks)

Every check compares the real code with the model through case lines written in one value syntax
(`Data/Value.lean`).  These theorems take the structural half of that parser out of the trusted base:
what is printed as tokens is parsed back as the same values, in every context and at every nesting
depth, and the typed accessors invert the encoders.  They are audited (`#print axioms`) by every
check, next to the property's own theorems.  Still trusted: the character-level tokeniser.
-/
namespace GraafVerif.Glue
open GraafVerif.V

/-- Tokens printed for a sequence of printable values parse back to that sequence. -/
theorem line_roundtrip (vs : List V) (h : PrintableL vs) : parseToks (toToksL vs) [] [] = some vs :=
  parseToks_roundtrip vs h

/-- The same inside any context (enclosing open lists `stack`, values already read `cur`, tokens
still to come `rest`). -/
theorem value_roundtrip_in_context (v : V) (hv : Printable v) (rest : List String)
    (stack : List (List V)) (cur : List V) :
    parseToks (toToks v ++ rest) stack cur = parseToks rest stack (v :: cur) :=
  parseToks_toToks v hv rest stack cur

/-- Unbalanced input is rejected, never repaired. -/
theorem unbalanced_rejected (ts : List String) (up : List V) (stack : List (List V)) (cur : List V) :
    parseToks ("]" :: ts) [] cur = none ∧ parseToks [] (up :: stack) cur = none :=
  ⟨parseToks_unbalanced_close ts cur, parseToks_unclosed up stack cur⟩

/-- A numeral is read as that integer and never as a bracket or an atom. -/
theorem numeral_read_back (n : Int) :
    atomOrInt (toString n) = .i n ∧ toString n ≠ "[" ∧ toString n ≠ "]" :=
  ⟨atomOrInt_int n, toString_int_ne_lb n, toString_int_ne_rb n⟩

/-- Accessors invert encoders (naturals, lists, arcs, `Option`, `bool`). -/
theorem accessors_invert_encoders :
    (∀ n : Nat, nat? (ofNat n) = some n) ∧
    (∀ xs : List Nat, listOf? nat? (ofNats xs) = some xs) ∧
    (∀ xs : List Int, listOf? int? (ofInts xs) = some xs) ∧
    (∀ xs : List (Nat × Nat), listOf? (pair? nat? nat?) (ofPairs xs) = some xs) ∧
    (∀ o : Option Nat, opt? nat? (ofOptNat o) = some o) ∧
    (∀ b : Bool, bool? (ofBool b) = some b) :=
  ⟨nat?_ofNat, listOf?_ofNats, listOf?_ofInts, pairs_roundtrip, opt?_ofOptNat, bool?_ofBool⟩

/-- End to end for an arc list. -/
theorem arcs_roundtrip (arcs : List (Nat × Nat)) :
    (parseToks (toToks (ofPairs arcs)) [] []).bind (fun vs => vs.head?.bind (listOf? (pair? nat? nat?)))
      = some arcs :=
  V.arcs_roundtrip arcs

/-- A case is accepted (`OK`) exactly when the oracle on the implementation's output is silent AND
that output equals the model's; an oracle objection is always `PROPFAIL`; the rest is `MISMATCH`. -/
theorem verdict_sound (obs mdl : List V) (pf : Option String) (nt : Bool) (tags : List String) :
    ((Driver.classify obs mdl pf nt tags).status = "OK" ↔ pf = none ∧ (obs == mdl) = true) ∧
    ((Driver.classify obs mdl pf nt tags).status = "PROPFAIL" ↔ pf.isSome = true) ∧
    ((Driver.classify obs mdl pf nt tags).status = "MISMATCH" ↔ pf = none ∧ (obs == mdl) = false) :=
  ⟨Driver.classify_ok_iff .., Driver.classify_propfail_iff .., Driver.classify_mismatch_iff ..⟩

end GraafVerif.Glue
