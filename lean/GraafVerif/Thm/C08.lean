/-! Property theorems for C08 (statements + proofs by reference to `Proof/`). Not built yet. -/
