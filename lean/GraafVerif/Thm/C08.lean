import GraafVerif.Proof.Fw
import GraafVerif.Proof.FwDesc
import GraafVerif.Proof.FwTwice
import GraafVerif.Proof.FwFast
/-!
# C08 — Floyd-Warshall returns the exact all-pairs matrix

"For every arc-weighted digraph without negative-weight circuits,
`FloydWarshall::distances()[(u, v)]` is the minimum weight of a walk from `u` to `v`, `0` on the
diagonal, and `isize::MAX` exactly when `v` is unreachable from `u`.  Row `s` therefore equals
BellmanFordMoore from `s`, and on non-negative weights equals Dijkstra from `s`."

Only statements and proofs by reference live here.  `Fw.distances` (Model/Fw.lean) is the literal
model of `FloydWarshall::distances` (flat matrix, `i` outermost, in place), `Fw.get` the
`(u, v)` index of `DistanceMatrix`; `none` is `isize::MAX`.  The digraph is any `WGraph` that is
well formed (`WF`: arcs join vertices `< n`) and has at most one weight per ordered pair
(`Functional`: rows of `AdjacencyListWeighted` are maps).  Path sums are unbounded `Int`s
(overflow is excluded by the property, DESIGN §4.1).
-/
namespace GraafVerif.C08
open GraafVerif GraafVerif.Fw

/-! ## Full statement -/

/-- Full statement of C08. -/
def Statement : Prop :=
  ∀ g : WGraph, g.WF → g.Functional → g.NoNegCycle →
    ∀ u v, u < g.n → v < g.n →
      -- the pair index reads the flat vector row-major
      get g.n (distances g) u v = ((distances g)[u * g.n + v]?).getD none ∧
      -- a finite entry is exactly the minimum walk weight
      (∀ d, get g.n (distances g) u v = some d ↔ IsMinDist g [u] v d) ∧
      -- `isize::MAX` exactly when unreachable
      (get g.n (distances g) u v = none ↔ ¬ WReachFrom g [u] v) ∧
      -- zero diagonal
      get g.n (distances g) u u = some 0 ∧
      -- row `u` equals ANY exact single-source distance vector (what C07 proves of
      -- BellmanFordMoore and C03 of Dijkstra on non-negative weights)
      (∀ r : List (Option Int), r.length = g.n →
        (∀ x, x < g.n → ∀ d, r[x]? = some (some d) ↔ IsMinDist g [u] x d) →
        row g.n (distances g) u = r)

/-! ## P0 -/

/-- `dist[(u, v)]` reads the flat vector at `u * order + v` (row-major: `u` selects the row). -/
theorem fw_index (n : Nat) (m : Mat) (u v : Nat) : get n m u v = (m[u * n + v]?).getD none := rfl

/-- … for in-range pairs that index is in bounds and determines the pair (no two cells alias;
in particular `(u, v)` and `(v, u)` are different cells for `u ≠ v`), and the matrix the
algorithm returns has exactly `order * order` cells. -/
theorem fw_index_inj {n u v u' v' : Nat} (hu : u < n) (hv : v < n) (hv' : v' < n) :
    u * n + v < n * n ∧ (u * n + v = u' * n + v' → u = u' ∧ v = v') :=
  ⟨idx_lt hu hv, idx_inj hv hv'⟩

theorem fw_length (g : WGraph) (hwf : g.WF) : (distances g).length = g.n * g.n :=
  (InvK.loopTo (init_invK hwf) g.n (Nat.le_refl _)).1

/-- Every finite entry `(u, v)` is the weight of a walk `u → v` — at EVERY point of the loop
nest (`stateAt g I J Kc`: outer iterations `0..I`, rows `0..J` of iteration `I` and cells
`0..Kc` of row `J` done), with or without negative circuits.  More precisely the walk's
interior vertices are `≤ I`. -/
theorem fw_entries_walks (g : WGraph) (hwf : g.WF) {I J Kc : Nat} (hI : I < g.n) (hJ : J < g.n)
    (hKc : Kc ≤ g.n) {u v : Nat} (hu : u < g.n) (hv : v < g.n) {x : Int}
    (h : get g.n (stateAt g I J Kc) u v = some x) :
    WalkIn g (I+1) u v x ∧ ∃ k, WWalk g u v k x :=
  have hw := (stateAt_invK hwf hI hJ hKc).2 u v hu hv x h
  ⟨hw, hw.toWWalk⟩

/-- What "path sums fit" is about: the only sums the loop ever forms — `s = a + b` with `a` read
at the start of row `J` and `b` read when cell `(J, Kc)` is reached — are weights of walks
`J → I → Kc` of the digraph (interior `≤ I`). -/
theorem fw_sums_walks (g : WGraph) (hwf : g.WF) {I J Kc : Nat} (hI : I < g.n) (hJ : J < g.n)
    (hKc : Kc < g.n) {a b : Int} (ha : get g.n (stateAt g I J 0) J I = some a)
    (hb : get g.n (stateAt g I J Kc) I Kc = some b) : WalkIn g (I+1) J Kc (a + b) :=
  have h1 := (stateAt_invK hwf hI hJ (Nat.zero_le _)).2 J I hJ hI a ha
  have h2 := (stateAt_invK hwf hI hJ (Nat.le_of_lt hKc)).2 I Kc hI hKc b hb
  h2.append h1 (Nat.lt_succ_self I)

/-- `stateAt` enumerates the states of the loop nest and ends in `distances`. -/
theorem fw_stateAt_end (g : WGraph) (hn : 0 < g.n) : stateAt g (g.n - 1) (g.n - 1) g.n = distances g :=
  stateAt_end g hn

/-- The result: every finite entry is a walk weight (no hypothesis on circuits). -/
theorem fw_result_walks (g : WGraph) (hwf : g.WF) {u v : Nat} (hu : u < g.n) (hv : v < g.n) {x : Int}
    (h : get g.n (distances g) u v = some x) : ∃ k, WWalk g u v k x :=
  ((InvK.loopTo (init_invK hwf) g.n (Nat.le_refl _)).2 u v hu hv x h).toWWalk

/-! ## P1 -/

/-- The textbook invariant, on the IN-PLACE loop: after the outer iterations for the
intermediate vertices `0..K` (i.e. after the iteration for `i = K-1`), entry `(u, v)` is exactly
the minimum weight of a walk `u → v` whose interior vertices are `< K`, and `isize::MAX` exactly
when there is none. -/
theorem fw_intermediate (g : WGraph) (hwf : g.WF) (hfun : g.Functional) (hnc : g.NoNegCycle)
    {K : Nat} (hK : K ≤ g.n) {u v : Nat} (hu : u < g.n) (hv : v < g.n) :
    (∀ d, get g.n (loopTo g.n (init g) K) u v = some d ↔ IsMinIn g K u v d) ∧
    (get g.n (loopTo g.n (init g) K) u v = none ↔ ¬ ∃ wt, WalkIn g K u v wt) :=
  (Inv.loopTo hnc (init_inv hwf hfun hnc) K hK).isMinIn hu hv

theorem isMinIn_iff_isMinDist {g : WGraph} (hwf : g.WF) (u v : Nat) (d : Int) :
    IsMinIn g g.n u v d ↔ IsMinDist g [u] v d := by
  constructor
  · rintro ⟨hw, hmin⟩
    obtain ⟨k, hk⟩ := hw.toWWalk
    refine ⟨⟨u, List.mem_singleton.mpr rfl, k, hk⟩, ?_⟩
    intro s hs k' wt hwalk
    cases List.mem_singleton.mp hs
    exact hmin wt (WalkIn.ofWWalk hwf hwalk)
  · rintro ⟨⟨s, hs, k, hk⟩, hmin⟩
    cases List.mem_singleton.mp hs
    refine ⟨WalkIn.ofWWalk hwf hk, ?_⟩
    intro wt hw
    obtain ⟨k', hk'⟩ := hw.toWWalk
    exact hmin u (List.mem_singleton.mpr rfl) k' wt hk'

theorem walkIn_iff_reach {g : WGraph} (hwf : g.WF) (u v : Nat) :
    (∃ wt, WalkIn g g.n u v wt) ↔ WReachFrom g [u] v := by
  constructor
  · rintro ⟨wt, hw⟩
    obtain ⟨k, hk⟩ := hw.toWWalk
    exact ⟨u, List.mem_singleton.mpr rfl, k, wt, hk⟩
  · rintro ⟨s, hs, k, wt, hk⟩
    cases List.mem_singleton.mp hs
    exact ⟨wt, WalkIn.ofWWalk hwf hk⟩

/-- Exactness of the returned matrix. -/
theorem fw_exact (g : WGraph) (hwf : g.WF) (hfun : g.Functional) (hnc : g.NoNegCycle)
    {u v : Nat} (hu : u < g.n) (hv : v < g.n) :
    (∀ d, get g.n (distances g) u v = some d ↔ IsMinDist g [u] v d) ∧
    (get g.n (distances g) u v = none ↔ ¬ WReachFrom g [u] v) := by
  obtain ⟨h1, h2⟩ := fw_intermediate g hwf hfun hnc (Nat.le_refl g.n) hu hv
  exact ⟨fun d => (h1 d).trans (isMinIn_iff_isMinDist hwf u v d),
    h2.trans (not_congr (walkIn_iff_reach hwf u v))⟩

/-- Zero diagonal. -/
theorem fw_diag (g : WGraph) (hwf : g.WF) (hfun : g.Functional) (hnc : g.NoNegCycle)
    {u : Nat} (hu : u < g.n) : get g.n (distances g) u u = some 0 := by
  have hinv := Inv.loopTo hnc (init_inv hwf hfun hnc) g.n (Nat.le_refl _)
  obtain ⟨x, hx, hle⟩ := hinv.2 u u hu hu 0 (.nil u) 0 rfl
  have h0 : 0 ≤ x := (hinv.1.2 u u hu hu x hx).closed_nonneg hnc
  have : x = 0 := by omega
  rw [← this]; exact hx

/-- Row `u` equals any exact single-source distance vector from `u` — the spec-level form of
"row `s` equals BellmanFordMoore from `s` and, on non-negative weights, Dijkstra from `s`"
(both are characterised by `IsMinDist` in C07 / C03; agreement with the REAL implementations
is checked by the harness on every generated case). -/
theorem fw_row_eq_exact (g : WGraph) (hwf : g.WF) (hfun : g.Functional) (hnc : g.NoNegCycle)
    {u : Nat} (hu : u < g.n) (r : List (Option Int)) (hlen : r.length = g.n)
    (hr : ∀ x, x < g.n → ∀ d, r[x]? = some (some d) ↔ IsMinDist g [u] x d) :
    row g.n (distances g) u = r := by
  apply List.ext_getElem
  · simp [row, hlen]
  · intro x h1 h2
    have hx : x < g.n := by simpa [row] using h1
    have hex := (fw_exact g hwf hfun hnc hu hx).1
    simp only [row, List.getElem_map, List.getElem_range]
    cases hg : get g.n (distances g) u x with
    | some d =>
      have := (hr x hx d).mpr ((hex d).mp hg)
      rw [List.getElem?_eq_getElem h2] at this
      exact (Option.some.inj this).symm
    | none =>
      cases hrx : r[x] with
      | none => rfl
      | some d =>
        have h3 : r[x]? = some (some d) := by rw [List.getElem?_eq_getElem h2, hrx]
        have := (hex d).mpr ((hr x hx d).mp h3)
        rw [hg] at this; cases this

/-- The full statement holds. -/
theorem fw_statement : Statement := by
  intro g hwf hfun hnc u v hu hv
  exact ⟨rfl, (fw_exact g hwf hfun hnc hu hv).1, (fw_exact g hwf hfun hnc hu hv).2,
    fw_diag g hwf hfun hnc hu, fw_row_eq_exact g hwf hfun hnc hu⟩

/-- The hypotheses `WF` and `Functional` are not assumptions about the inputs of the
correspondence run: every description `[wi n arcs]` with heads in range (anything
`add_arc_weighted` accepts) yields a model digraph that satisfies them, so the statement applies
to every digraph the harness can build. -/
theorem fw_desc_hyps (n : Nat) (arcs : List (Nat × Nat × Int)) (harcs : ∀ a ∈ arcs, a.2.1 < n) :
    (WGraph.ofRows (wrowsOfArcs n arcs)).n = n ∧ (WGraph.ofRows (wrowsOfArcs n arcs)).WF ∧
    (WGraph.ofRows (wrowsOfArcs n arcs)).Functional :=
  ofRows_hyps n arcs harcs

/-- State carried between calls: `distances()` keeps its matrix in the object and does not
re-initialise it; a SECOND call on the same object (`distances2`: arc cells and diagonal
overwritten, triple loop re-run on the previous result) returns exactly the same matrix.
`call g (distances g) = distances g` is a fixed point, so every later call does too; the
statement above therefore holds of every call. -/
theorem fw_twice (g : WGraph) (hwf : g.WF) (hfun : g.Functional) (hnc : g.NoNegCycle) :
    distances2 g = distances g :=
  distances2_eq hwf hfun hnc

/-- Any call on an object whose matrix holds walk weights (e.g. after any number of earlier
calls) yields the matrix of minima. -/
theorem fw_call_again (g : WGraph) (hwf : g.WF) (hfun : g.Functional) (hnc : g.NoNegCycle)
    (m : Mat) (hm : InvK g g.n m) : call g m = distances g :=
  have h1 := distances_inv hwf hfun hnc
  have h2 := call_inv hwf hfun hnc hm
  mat_ext h2.1.1 h1.1.1 (fun _ _ hu hv => h2.get_eq h1 hu hv)

/-- The compiled driver runs an `Array` twin of the model (`Model/FwFast.lean`); it computes the
same lists, for every digraph (no hypotheses). -/
theorem fw_fast_eq (g : WGraph) :
    (distancesA g).toList = distances g ∧ (distances2A g).toList = distances2 g :=
  ⟨distancesA_toList g, distances2A_toList g⟩

/-- `run` is `distances` on every digraph with at least one vertex (order 0 panics in
`DistanceMatrix::new`). -/
theorem fw_run_ok (g : WGraph) (hn : 0 < g.n) : run g = .ok (distances g) := by
  simp [run, Nat.ne_of_gt hn]

/-! ## Non-vacuity: the doctest digraph of `FloydWarshall` (negative arcs, a circuit
`1 → 2 → 3 → 1` of weight 4, no negative circuit) meets all hypotheses. -/

/-- Potentials certify the absence of negative circuits. -/
theorem noNegCycle_of_potential (g : WGraph) (p : Nat → Int)
    (h : ∀ u v w, g.A u v w → 0 ≤ w + p u - p v) : g.NoNegCycle := by
  have key : ∀ u v k wt, WWalk g u v k wt → 0 ≤ wt + p u - p v := by
    intro u v k wt hw
    induction hw with
    | nil => omega
    | snoc _ a ih => have := h _ _ _ a; omega
  rintro x ⟨k, wt, _, hw, hneg⟩
  have := key x x k wt hw
  omega

def ex : WGraph := ⟨4, fun u => match u with
  | 0 => [(2, -2)] | 1 => [(0, 4), (2, 3)] | 2 => [(3, 2)] | 3 => [(1, -1)] | _ => []⟩

example : ex.WF := by
  intro u v w h
  change (v, w) ∈ ex.out u at h
  show _ < 4 ∧ _ < 4
  rcases u with _ | _ | _ | _ | u <;> simp [ex] at h <;> omega

example : ex.Functional := by
  intro u v w₁ w₂ h₁ h₂
  change (v, w₁) ∈ ex.out u at h₁
  change (v, w₂) ∈ ex.out u at h₂
  rcases u with _ | _ | _ | _ | u <;> simp [ex] at h₁ h₂ <;> omega

example : ex.NoNegCycle :=
  noNegCycle_of_potential ex (fun u => match u with | 0 => 4 | 1 => 0 | 2 => 2 | 3 => 4 | _ => 0) (by
    intro u v w h
    change (v, w) ∈ ex.out u at h
    rcases u with _ | _ | _ | _ | u <;> simp [ex] at h
    · obtain ⟨rfl, rfl⟩ := h; decide
    · rcases h with ⟨rfl, rfl⟩ | ⟨rfl, rfl⟩ <;> decide
    · obtain ⟨rfl, rfl⟩ := h; decide
    · obtain ⟨rfl, rfl⟩ := h; decide)

/-- The matrix of the doctest (`dist[(0,1)] = -1`, … `dist[(3,0)] = 3`). -/
example : distances ex =
    [some 0, some (-1), some (-2), some 0,
     some 4, some 0, some 2, some 4,
     some 5, some 1, some 0, some 2,
     some 3, some (-1), some 1, some 0] := by decide

set_option maxRecDepth 10000 in
/-- Second call on the doctest digraph, evaluated. -/
example : distances2 ex = distances ex := by decide

/-- An unreachable pair yields `none`. -/
example : get 2 (distances ⟨2, fun u => if u = 0 then [(1, 5)] else []⟩) 1 0 = none := by decide

end GraafVerif.C08
