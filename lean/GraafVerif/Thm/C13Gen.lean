import GraafVerif.Proof.ChkGenBfs
import GraafVerif.Proof.ChkGenDfs
import GraafVerif.Proof.ChkGenDijkstra
import GraafVerif.Proof.ChkGenBfmFw
import GraafVerif.Proof.ChkGenRepr
import GraafVerif.Proof.ChkGen5
import GraafVerif.Thm.AlgoGen6
/-!
# C13 on the SOURCE-REGENERATED definitions (`Model/AlgoGen{,2,3,4}.lean`)

`tools/translate_algo.py` regenerates these definitions from `/repo/src` on every run; every
`*ptr.add(i)` / `get_unchecked(i)` / `ptr::read` / `ptr::write` / `unwrap_unchecked` of the source is in
them a CHECKED access with the distinct outcome `Fault.ub site`.  The theorems below say, for the same
input classes as the hand-model theorems of `Thm/C13.lean`, that the GENERATED function never yields `ub`.
A change of a covered function changes the generated definition, so these proofs are re-checked against
what the code says NOW (set 1: direct proofs with the calculus of `Proof/ChkGenRt.lean`; sets 2–4:
transported through the equality theorems of `Thm/AlgoGen{2,3,4}.lean`).

Every function of graaf that contains an unsafe site is regenerated (sets 1–6).  What the regenerated
reading cannot see: the DROP discipline of `AdjacencyMap::union` (the translator reads `ptr::read` as a copy),
more than one schedule of the workers, and — `DistanceMatrix::new` — a `set_len` that precedes the writes is
accepted as long as nothing uses the vector in between (docs/C13.md §11).
-/
namespace GraafVerif.C13Gen
open GraafVerif GraafVerif.AlgoGen GraafVerif.Repr

/-- States a generated iterator can be in: produced by `new`, then any number of `next` calls. -/
inductive Reachable {σ ι : Type} (new : Res σ) (next : σ → Res (Option ι × σ)) : σ → Prop
  | init {st} : new = .ok st → Reachable new next st
  | step {st o st'} : Reachable new next st → next st = .ok (o, st') → Reachable new next st'

/-- constructor + `next` in every reachable state never end in `ub` -/
def IterSafe {σ ι : Type} (new : Res σ) (next : σ → Res (Option ι × σ)) : Prop :=
  NoUB new ∧ ∀ st, Reachable new next st → NoUB (next st)

theorem reach_inv {σ ι : Type} {new : Res σ} {next : σ → Res (Option ι × σ)} (I : σ → Prop) {P : Option ι × σ → Prop}
    (hnew : RSafe new I) (hnext : ∀ s, I s → RSafe (next s) (fun r => I r.2 ∧ P r)) :
    ∀ st, Reachable new next st → I st := by
  intro st h
  induction h with
  | init e => exact hnew.ok e
  | step _ e ih => exact ((hnext _ ih).ok e).1

theorem iterSafe_of {σ ι : Type} {new : Res σ} {next : σ → Res (Option ι × σ)} (I : σ → Prop) {P : Option ι × σ → Prop}
    (hnew : RSafe new I) (hnext : ∀ s, I s → RSafe (next s) (fun r => I r.2 ∧ P r)) : IterSafe new next :=
  ⟨hnew.noUB, fun st h => (hnext st (reach_inv I hnew hnext st h)).noUB⟩

/-! ## Set 1 — the nine traversals (every digraph: `g.out` arbitrary, every source list) -/

theorem bfs_noUB (g : Graph) (S : List Nat) : IterSafe (AlgoGen.Bfs.new g S) (AlgoGen.Bfs.next g) :=
  iterSafe_of (Bfs.Inv g.n) (Bfs.new_safe g S) (fun s h => Bfs.next_safe g g.n s h)
theorem bfsDist_noUB (g : Graph) (S : List Nat) : IterSafe (AlgoGen.BfsDist.new g S) (AlgoGen.BfsDist.next g) :=
  iterSafe_of (BfsDist.Inv g.n) (BfsDist.new_safe g S) (fun s h => BfsDist.next_safe g g.n s h)
theorem bfsPred_noUB (g : Graph) (S : List Nat) : IterSafe (AlgoGen.BfsPred.new g S) (AlgoGen.BfsPred.next g) :=
  iterSafe_of (BfsPred.Inv g.n) (BfsPred.new_safe g S) (fun s h => BfsPred.next_safe g g.n s h)

/-- the breadth-first and depth-first `next` are safe in EVERY state, reachable or not -/
theorem bfsDfsNext_noUB_any (g : Graph) :
    (∀ s, NoUB (AlgoGen.Bfs.next g s)) ∧ (∀ s, NoUB (AlgoGen.BfsDist.next g s)) ∧ (∀ s, NoUB (AlgoGen.BfsPred.next g s)) ∧
    (∀ s, NoUB (AlgoGen.Dfs.next g s)) ∧ (∀ s, NoUB (AlgoGen.DfsDist.next g s)) ∧ (∀ s, NoUB (AlgoGen.DfsPred.next g s)) :=
  ⟨fun s => (Bfs.next_safe_any g s).noUB, fun s => (BfsDist.next_safe_any g s).noUB, fun s => (BfsPred.next_safe_any g s).noUB,
   fun s => (Dfs.next_safe_any g s).noUB, fun s => (DfsDist.next_safe_any g s).noUB, fun s => (DfsPred.next_safe_any g s).noUB⟩

theorem dfs_noUB (g : Graph) (S : List Nat) : IterSafe (AlgoGen.Dfs.new g S) (AlgoGen.Dfs.next g) :=
  ⟨(Dfs.new_len g S).noUB, fun st _ => (Dfs.next_safe_any g st).noUB⟩
theorem dfsDist_noUB (g : Graph) (S : List Nat) : IterSafe (AlgoGen.DfsDist.new g S) (AlgoGen.DfsDist.next g) :=
  ⟨(DfsDist.new_len g S).noUB, fun st _ => (DfsDist.next_safe_any g st).noUB⟩
theorem dfsPred_noUB (g : Graph) (S : List Nat) : IterSafe (AlgoGen.DfsPred.new g S) (AlgoGen.DfsPred.next g) :=
  ⟨(DfsPred.new_len g S).noUB, fun st _ => (DfsPred.next_safe_any g st).noUB⟩

/-- Dijkstra: for every weighted digraph, sentinel and source list (no "path sums fit" hypothesis) -/
theorem dijkstra_noUB (g : WGraph) (inf : Int) (S : List Nat) :
    IterSafe (AlgoGen.Dijkstra.new g inf S) (AlgoGen.Dijkstra.next g) :=
  iterSafe_of (Dijkstra.Inv g.n) (Dijkstra.new_safe g inf S) (fun s h => Dijkstra.next_safe g g.n s h)
theorem dijkstraDist_noUB (g : WGraph) (inf : Int) (S : List Nat) :
    IterSafe (AlgoGen.DijkstraDist.new g inf S) (AlgoGen.DijkstraDist.next g) :=
  iterSafe_of (DijkstraDist.Inv g.n) (DijkstraDist.new_safe g inf S) (fun s h => DijkstraDist.next_safe g g.n s h)
theorem dijkstraPred_noUB (g : WGraph) (inf : Int) (S : List Nat) :
    IterSafe (AlgoGen.DijkstraPred.new g inf S) (AlgoGen.DijkstraPred.next g) :=
  iterSafe_of (DijkstraPred.Inv g.n) (DijkstraPred.new_safe g inf S) (fun s h => DijkstraPred.next_safe g g.n s h)

/-! ### derived entry points: on every state `new` / `next` can produce, for every fuel -/

theorem bfsDist_distances_noUB (g : Graph) (S : List Nat) (inf fuel : Nat) (st : AlgoGen.BfsDist)
    (h : Reachable (AlgoGen.BfsDist.new g S) (AlgoGen.BfsDist.next g) st) : NoUB (AlgoGen.BfsDist.distances g inf fuel st) :=
  (BfsDist.distances_safe g inf fuel st
    (reach_inv (BfsDist.Inv g.n) (BfsDist.new_safe g S) (fun s h => BfsDist.next_safe g g.n s h) st h)).noUB

theorem bfsPred_derived_noUB (g : Graph) (S : List Nat) (fuel : Nat) (isT : Nat → Bool) (st : AlgoGen.BfsPred)
    (h : Reachable (AlgoGen.BfsPred.new g S) (AlgoGen.BfsPred.next g) st) :
    NoUB (AlgoGen.BfsPred.predecessors g fuel st) ∧ NoUB (AlgoGen.BfsPred.shortestPath g fuel st isT) ∧
    NoUB (AlgoGen.BfsPred.cycles g fuel st) := by
  have hi := reach_inv (BfsPred.Inv g.n) (BfsPred.new_safe g S) (fun s h => BfsPred.next_safe g g.n s h) st h
  exact ⟨(BfsPred.predecessors_safe g fuel st hi).noUB, (BfsPred.shortestPath_safe g fuel st isT hi).noUB,
    (BfsPred.cycles_safe g fuel st hi).noUB⟩

theorem dfsPred_predecessors_noUB (g : Graph) (S : List Nat) (fuel : Nat) (st : AlgoGen.DfsPred)
    (h : Reachable (AlgoGen.DfsPred.new g S) (AlgoGen.DfsPred.next g) st) : NoUB (AlgoGen.DfsPred.predecessors g fuel st) := by
  have hi : st.visited.length = g.n := by
    refine reach_inv (P := fun _ => True) (fun (s : AlgoGen.DfsPred) => s.visited.length = g.n) (DfsPred.new_len g S) ?_ st h
    intro s hs
    exact (DfsPred.next_safe_any g s).mono (fun r hr => ⟨by rw [hr.1]; exact hs, trivial⟩)
  exact (DfsPred.predecessors_safe g fuel st hi).noUB

theorem dijkstraDist_distances_noUB (g : WGraph) (inf : Int) (S : List Nat) (fuel : Nat) (st : AlgoGen.DijkstraDist)
    (h : Reachable (AlgoGen.DijkstraDist.new g inf S) (AlgoGen.DijkstraDist.next g) st) :
    NoUB (AlgoGen.DijkstraDist.distances g inf fuel st) :=
  (DijkstraDist.distances_safe g inf fuel st
    (reach_inv (DijkstraDist.Inv g.n) (DijkstraDist.new_safe g inf S) (fun s h => DijkstraDist.next_safe g g.n s h) st h)).noUB

theorem dijkstraPred_derived_noUB (g : WGraph) (inf : Int) (S : List Nat) (fuel : Nat) (isT : Nat → Bool)
    (st : AlgoGen.DijkstraPred) (h : Reachable (AlgoGen.DijkstraPred.new g inf S) (AlgoGen.DijkstraPred.next g) st) :
    NoUB (AlgoGen.DijkstraPred.predecessors g fuel st) ∧ NoUB (AlgoGen.DijkstraPred.shortestPath g fuel st isT) := by
  have hi := reach_inv (DijkstraPred.Inv g.n) (DijkstraPred.new_safe g inf S)
    (fun s h => DijkstraPred.next_safe g g.n s h) st h
  exact ⟨(DijkstraPred.predecessors_safe g fuel st hi).noUB, (DijkstraPred.shortestPath_safe g fuel st isT hi).noUB⟩

/-! ### `PredecessorTree::{search_by, search}`: every predecessor vector, start, predicate, fuel -/

theorem searchBy_noUB (fuel : Nat) (t : AlgoGen.PredecessorTree) (s : Nat) (isT : Nat → Option Nat → Bool) :
    NoUB (AlgoGen.PredecessorTree.searchBy fuel t s isT) := (PredecessorTree.searchBy_safe fuel t s isT).noUB
theorem search_noUB (fuel : Nat) (t : AlgoGen.PredecessorTree) (s x : Nat) :
    NoUB (AlgoGen.PredecessorTree.search fuel t s x) := (PredecessorTree.search_safe fuel t s x).noUB

/-! ### `BellmanFordMoore`, `FloydWarshall::distances`: every well-formed weighted digraph -/

/-- `new` for every source; `distances` on every object whose vector has `order` entries — the one
`new` returns, and again after every call (`distances` does not change the length). -/
theorem bellmanFordMoore_noUB (g : WGraph) (hwf : g.WF) (inf : Int) (s : Nat) :
    NoUB (AlgoGen.BellmanFordMoore.new g inf s) ∧
    NoUB (AlgoGen.BellmanFordMoore.new g inf s >>= fun b => AlgoGen.BellmanFordMoore.distances g inf b) ∧
    ∀ b : AlgoGen.BellmanFordMoore, b.dist.length = g.n → NoUB (AlgoGen.BellmanFordMoore.distances g inf b) :=
  ⟨(BellmanFordMoore.new_safe g inf s).noUB,
   ((BellmanFordMoore.new_safe g inf s).bind (fun b hb => BellmanFordMoore.distances_safe g hwf inf b hb)).noUB,
   fun b hb => (BellmanFordMoore.distances_safe g hwf inf b hb).noUB⟩

theorem floydWarshall_noUB (g : WGraph) (hwf : g.WF) (inf : Int) (self : AlgoGen.FloydWarshall)
    (h : self.dist.dist.length = g.n * g.n) : NoUB (AlgoGen.FloydWarshall.distances g inf self) :=
  (FloydWarshall.distances_safe g hwf inf self h).noUB

/-- The hypothesis `g.WF` is what `AdjacencyListWeighted`'s representation invariant gives (and that
invariant is what `From`, `empty`, `add_arc_weighted` establish: C01 / C16 on the regenerated `From` impls). -/
theorem weightedList_wf (d : AdjListW) (h : d.WF) : (d.toWGraph).WF := toWGraph_wf d h

/-! ## Set 2 — `Johnson75` -/

theorem johnson75_noUB (a : GraafVerif.Johnson.AM) (hclosed : ∀ u ∈ a.verts, ∀ v ∈ a.out u, v ∈ a.verts)
    (F : Nat) (hF : F ≤ a.order + 1) :
    NoUB (AlgoGen.Johnson75.new a >>= fun s => AlgoGen.Johnson75.circuits a F s) :=
  johnsonNewCircuits_noUB a hclosed F hF

/-- also for every further call on the same object (`JInv` is kept) and for the two recursive helpers -/
theorem johnson75_state_noUB (a : GraafVerif.Johnson.AM) (hclosed : ∀ u ∈ a.verts, ∀ v ∈ a.out u, v ∈ a.verts)
    (F : Nat) (hF : F ≤ a.order + 1) (st : GraafVerif.Johnson.JState) (hinv : AlgoGenThm.Johnson75.JInv a.order st) :
    NoUB (AlgoGen.Johnson75.circuits a F (AlgoGenThm.Johnson75.ofH st)) ∧
    (∀ u F', NoUB (AlgoGen.Johnson75.unblock F' (AlgoGenThm.Johnson75.ofH st) u)) :=
  ⟨johnsonCircuits_noUB a hclosed F hF st hinv, fun u F' => johnsonUnblock_noUB a.order F' st u hinv⟩

theorem johnson75_circuit_noUB (n : Nat) (comp : GraafVerif.Johnson.AM) (hc : AlgoGenThm.Johnson75.CompOk n comp) (s F : Nat)
    (st : GraafVerif.Johnson.JState) (v : Nat) (hinv : AlgoGenThm.Johnson75.JInv n st) (hvm : v ∈ comp.verts) (hv : v < n) :
    NoUB (AlgoGen.Johnson75.circuit F (AlgoGenThm.Johnson75.ofH st) v s comp st.result) :=
  johnsonCircuit_noUB n comp hc s F st v hinv hvm hv

/-! ## Set 3 — PRNG, sequential generators and operations with unsafe sites -/

theorem xoshiro_noUB (x : Rand.Xo) : NoUB (AlgoGen.Xoshiro256StarStar.next (AlgoGenThm.Xoshiro256StarStar.ofX x)) :=
  xoshiroNext_noUB x
theorem adjList_converse_noUB (d : AdjList) (h : d.WF) : NoUB (AlgoGen.AdjacencyList.converse d) := alConverse_noUB d h
theorem adjList_randomTournament_noUB (n : Nat) (seed : UInt64) : NoUB (AlgoGen.AdjacencyList.randomTournament n seed) :=
  alRandomTournament_noUB n seed
/-- the `unwrap_unchecked`s of `AdjacencyMap::random_recursive_tree` (tie-only on the hand side) -/
theorem adjMap_randomRecursiveTree_noUB (n : Nat) (seed : UInt64) : NoUB (AlgoGen.AdjacencyMap.randomRecursiveTree n seed) :=
  amRandomRecursiveTree_noUB n seed

/-! ## Set 4 — the parallel functions, every thread count `ap ≥ 1` -/

theorem adjList_complement_noUB (ap : Nat) (d : AdjList) : NoUB (AlgoGen.AdjacencyList.complement ap d) := alComplement_noUB ap d
theorem adjList_complete_noUB (ap n : Nat) (hap : 0 < ap) : NoUB (AlgoGen.AdjacencyList.complete ap n) := alComplete_noUB ap n hap
theorem adjList_degreeSequence_noUB (ap : Nat) (d : AdjList) (h : d.WF) (hap : 0 < ap) :
    NoUB (AlgoGen.AdjacencyList.degreeSequence ap d) := alDegreeSequence_noUB ap d h hap
theorem adjList_isSemicomplete_noUB (ap : Nat) (d : AdjList) (hap : 0 < ap) (hn : 0 < d.order) :
    NoUB (AlgoGen.AdjacencyList.isSemicomplete ap d) := alIsSemicomplete_noUB ap d hap hn
theorem adjList_union_noUB (ap : Nat) (a b : AdjList) : NoUB (AlgoGen.AdjacencyList.union ap a b) := alUnion_noUB ap a b
theorem mergeTwoSorted_noUB (l r : List Nat) :
    NoUB (AlgoGen.AdjacencyList.mergeTwoSorted l r) ∧ NoUB (AlgoGen.AdjacencyMap.mergeTwoSorted l r) ∧
    NoUB (AlgoGen.AdjacencyMap.unionSets l r) := ⟨alMergeTwoSorted_noUB l r, amMergeTwoSorted_noUB l r, amUnionSets_noUB l r⟩
theorem adjMap_randomTournament_noUB (ap n : Nat) (seed : UInt64) (hap : 0 < ap) :
    NoUB (AlgoGen.AdjacencyMap.randomTournament ap n seed) := amRandomTournament_noUB ap n seed hap
theorem adjMap_erdosRenyi_noUB (ap fuel n : Nat) (p : Rand.F64) (seed : UInt64) (hap : 0 < ap) :
    NoUB (AlgoGen.AdjacencyMap.erdosRenyi ap (fuel + 2) n p seed) := amErdosRenyi_noUB ap fuel n p seed hap
theorem findPartition_noUB (r : Nat) (lhs rhs : List (Nat × List Nat)) : NoUB (AlgoGen.AdjacencyMap.findPartition r lhs rhs) :=
  amFindPartition_noUB r lhs rhs
/-- spatial safety of `AdjacencyMap::union` on the regenerated code, every two maps, every thread count
(the drop discipline of its `ManuallyDrop` vectors is NOT visible here: `C13.mapUnion_linear_sorted`) -/
theorem adjMap_union_noUB (ap : Nat) (a b : AdjMap) : NoUB (AlgoGen.AdjacencyMap.union ap a b) := amUnion_noUB ap a b

/-! ## Set 5 — the remaining functions with unchecked accesses -/

/-- The three private iterators: `next` in EVERY state — in particular on every re-poll after `None`. -/
theorem iterators_next_noUB_any :
    (∀ s, NoUB (AlgoGen.MxArcsIterator.next s)) ∧ (∀ s, NoUB (AlgoGen.AlArcsIterator.next s)) ∧
    (∀ s, InNeighborsIterator.Inv s → NoUB (AlgoGen.InNeighborsIterator.next s)) :=
  ⟨fun s => (MxArcsIterator.next_safe_any s).noUB, fun s => (AlArcsIterator.next_safe_any s).noUB,
   fun s h => (InNeighborsIterator.next_safe s h).noUB⟩

theorem adjMatrix_arcs_noUB (d : AdjMatrix) : IterSafe (AlgoGen.AdjacencyMatrix.arcsIter d) AlgoGen.MxArcsIterator.next := by
  refine ⟨?_, fun st _ => (MxArcsIterator.next_safe_any st).noUB⟩
  rw [AlgoGenThm.AdjacencyMatrix.arcsIter_eq]; exact noUB_ok _
theorem adjList_arcs_noUB (d : AdjList) : IterSafe (AlgoGen.AdjacencyList.arcsIter d) AlgoGen.AlArcsIterator.next := by
  refine ⟨?_, fun st _ => (AlArcsIterator.next_safe_any st).noUB⟩
  rw [AlgoGenThm.AdjacencyList.arcsIter_eq]; exact noUB_ok _
/-- `in_neighbors(v)`: the raw pointer + `len` of the iterator stay consistent (`len ≤` the slice's length) -/
theorem adjList_inNeighbors_noUB (d : AdjList) (v : Nat) :
    IterSafe (AlgoGen.AdjacencyList.inNeighborsIter d v) AlgoGen.InNeighborsIterator.next :=
  iterSafe_of (P := fun _ => True) InNeighborsIterator.Inv (InNeighborsIterator.new_safe d v)
    (fun s h => (InNeighborsIterator.next_safe s h).mono (fun r hr => ⟨hr, trivial⟩))

/-- `AdjacencyMatrix::{toggle, add_arc}` for ALL `u`, `v` under the block-count invariant … -/
theorem adjMatrix_toggle_addArc_noUB (d : AdjMatrix) (u v : Nat) (hlen : d.order * d.order ≤ 64 * d.blocks.length) :
    NoUB (AlgoGen.AdjacencyMatrix.toggle d u v) ∧ NoUB (AlgoGen.AdjacencyMatrix.addArc d u v) :=
  ⟨mxToggle_noUB d u v hlen, mxAddArc_noUB d u v hlen⟩
/-- … which `empty` establishes (every matrix of the public API comes from `empty`; `toggle`, `add_arc`,
`remove_arc` keep `blocks.len()`) and which is part of `AdjMatrix.WF`. -/
theorem adjMatrix_blocks_invariant :
    (∀ n d, AdjMatrix.empty n = some d → d.order * d.order ≤ 64 * d.blocks.length) ∧
    (∀ d : AdjMatrix, d.WF → d.order * d.order ≤ 64 * d.blocks.length) := ⟨mxEmpty_blocks, mxWF_blocks⟩

theorem adjList_addArc_noUB (d : AdjList) (u v : Nat) : NoUB (AlgoGen.AdjacencyList.addArc d u v) := alAddArc_noUB d u v
theorem adjList_outNeighbors_noUB (d : AdjList) (u : Nat) : NoUB (AlgoGen.AdjacencyList.outNeighbors d u) := alOutNeighbors_noUB d u
theorem hasWalk_noUB (w : List Nat) :
    (∀ d : AdjList, NoUB (AlgoGen.AdjacencyList.hasWalk d w)) ∧ (∀ d : AdjMap, NoUB (AlgoGen.AdjacencyMap.hasWalk d w)) :=
  ⟨fun d => alHasWalk_noUB d w, fun d => amHasWalk_noUB d w⟩
theorem adjList_isTournament_noUB (d : AdjList) (hn : 0 < d.order) : NoUB (AlgoGen.AdjacencyList.isTournament d) :=
  alIsTournament_noUB d hn
theorem adjMap_outNeighbors_noUB (d : AdjMap) (u : Nat) : NoUB (AlgoGen.AdjacencyMap.outNeighbors d u) := amOutNeighbors_noUB d u
/-- `DistanceMatrix::new` for EVERY order (raw-buffer reading: capacity, `set_len`, every slot written) and
the two `IndexMut` impls (checked indexing) -/
theorem distanceMatrix_noUB (order : Nat) (inf : Int) :
    NoUB (AlgoGen.DistanceMatrix.new order inf) ∧ ∀ m i, NoUB (AlgoGen.DistanceMatrix.indexMut m i) :=
  ⟨dmNew_noUB order inf, fun m i => dmIndexMut_noUB m i⟩

/-- a matrix value with too few blocks (not constructible through the public API) -/
example : AlgoGen.AdjacencyMatrix.addArc ⟨[], 2⟩ 0 1 =
    .error (.fault (.ub "repr/adjacency_matrix/mod.rs:add_arc:self.blocks.get_unchecked_mut(i >> 6)")) := by decide

/-! ## Set 6 — `AdjacencyList::indegree_sequence` (`*ptr.add(v) += 1` for every head `v`) -/

/-- on every well-formed list the generated `indegree_sequence` never ends in `ub` (it returns) -/
theorem adjList_indegreeSequence_noUB (d : AdjList) (h : d.WF) : NoUB (AlgoGen.AdjacencyList.indegreeSequence d) := by
  rw [AlgoGenThm.c02_generated_indegree_sequence d h]; exact noUB_ok _

/-- outside `WF` (a head `≥ order`, rejected by every constructor) the generated code DOES answer `ub` -/
example : AlgoGen.AdjacencyList.indegreeSequence ⟨[[5], []]⟩ =
    .error (.fault (.ub "repr/adjacency_list/mod.rs:indegree_sequence:ptr.add(v)")) := by decide
example : AlgoGen.AdjacencyList.indegreeSequence ⟨[[1, 2], [2], [0]]⟩ = .ok [1, 1, 2] := by decide

/-- **The `join().unwrap_unchecked()` / `lock().unwrap_unchecked()` sites.**  They are UB exactly when a
worker panicked.  Under the translator's reading (a worker runs to completion at its spawn point; its panic
would be the panic of the call) the four functions that contain such a site RETURN on every input that
passes the asserts of the calling thread, for every thread count: so no worker panicked, every `join()` was
`Ok` and no `Mutex` was poisoned.  (That reading — one schedule — is trusted; the sanitizer runs of the
tie exercise the real schedules.) -/
theorem workers_do_not_panic :
    (∀ (d : AdjList) (ap : Nat), 0 < ap → 0 < d.order → ∃ r, AlgoGen.AdjacencyList.complement ap d = .ok r) ∧
    (∀ (n ap : Nat), 0 < ap → 0 < n → ∃ r, AlgoGen.AdjacencyList.complete ap n = .ok r) ∧
    (∀ (n ap : Nat) (seed : UInt64), 0 < n → 0 < ap → ∃ r, AlgoGen.AdjacencyMap.randomTournament ap n seed = .ok r) ∧
    (∀ (n ap fuel : Nat) (p : Rand.F64) (seed : UInt64), 0 < n → 0 < ap → p.inUnit = true →
      ∃ r, AlgoGen.AdjacencyMap.erdosRenyi ap (fuel + 2) n p seed = .ok r) := by
  obtain ⟨h1, _, _, h4, _, _, h7, h8⟩ := AlgoGenThm.c17_generated
  refine ⟨fun d ap hap hn => ⟨_, h1 d ap hap hn⟩, ?_, ?_, ?_⟩
  · intro n ap hap hn
    obtain ⟨d, hd, _⟩ := Gen.AL.completeSeq_spec (n := n) hn
    exact ⟨d, by rw [h4 n ap hap, hd]; rfl⟩
  · intro n ap seed hn hap
    obtain ⟨g, hg, _⟩ := h7 n ap seed hn hap
    exact ⟨g, hg⟩
  · intro n ap fuel p seed hn hap hp
    obtain ⟨g, hg, _⟩ := h8 n ap fuel p seed hn hap hp
    exact ⟨g, hg⟩

/-! ## The generated code DOES answer `ub` outside the invariants (the hypotheses are the exact boundary) -/

/-- a hand-crafted BFS state with a queued vertex `≥ order` (no public call builds it) -/
example : AlgoGen.BfsDist.distances ⟨8, fun _ => []⟩ 0 1 ⟨[(9, 0)], List.replicate 10 false⟩ =
    .error (.fault (.ub "bfs_dist.rs:distances:ptr.add(u)")) := by decide
/-- a Dijkstra state whose heap holds a vertex `≥ dist.len()` -/
example : AlgoGen.Dijkstra.next ⟨1, fun _ => []⟩ ⟨[0], [⟨0, none, 5⟩]⟩ =
    .error (.fault (.ub "dijkstra.rs:next:dist_ptr.add(u)")) := by decide
/-- `AdjacencyList::converse` with a head `≥ order` (rejected by every constructor) -/
example : AlgoGen.AdjacencyList.converse ⟨[[5], []]⟩ =
    .error (.fault (.ub "repr/adjacency_list/mod.rs:converse:conv_ptr.add(v)")) := by decide
/-- and the same calls inside the invariants return -/
example : AlgoGen.AdjacencyList.converse ⟨[[1], []]⟩ = .ok ⟨[[], [0]]⟩ := by decide
def wg2 : WGraph := ⟨2, fun u => if u = 0 then [(1, 3)] else []⟩
example : (AlgoGen.Dijkstra.new wg2 1000 [0] >>= AlgoGen.Dijkstra.next wg2).toOption.map (·.1) = some (some 0) := by decide
example : AlgoGen.Bfs.new ⟨3, fun _ => []⟩ [1000] = .error (.fault .panic) := by decide

end GraafVerif.C13Gen
