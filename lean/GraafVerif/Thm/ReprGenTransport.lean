import GraafVerif.Thm.ReprGen
import GraafVerif.Thm.C02
/-!
# The C02 statement, transported onto the GENERATED definitions (tag ReprGen)

`Thm/ReprGen.lean` proves `generated = hand model`; here the equalities are used once, for the two
fully covered representations: the whole C02 statement (`C02.ReprStatement`: validity of the
abstract digraph, every core / sequence / derived query returns its textbook value) holds for the
record of queries assembled from the generated definitions alone.
-/
namespace GraafVerif.ReprGenThm
open GraafVerif GraafVerif.Repr

theorem el_generated_correct (d : EdgeList) (h : d.WF) : C02.ReprStatement (EL.genCore d) (Query.EL.abs d) := by
  rw [EL.genCore_eq]; exact C02.el_correct d h

theorem wl_generated_correct (d : AdjListW) (h : d.WF) : C02.ReprStatement (WL.genCore d) (Query.WL.abs d) := by
  rw [WL.genCore_eq]; exact (C02.wl_correct d h).1

end GraafVerif.ReprGenThm
