import GraafVerif.Proof.CrossModels
/-!
# Cross — the cross-algorithm clauses of C07 and C08, between the MODELS

C07 ends with "on non-negative weights it agrees with Dijkstra"; C08 ends with "Row `s`
therefore equals BellmanFordMoore from `s`, and on non-negative weights equals Dijkstra from
`s`".  C03 / C07 / C08 each prove their own model exact against `IsMinDist` (C07 and C08 state
the cross clause only against "any exact vector").  Here the clauses are stated between the
models themselves:

* `Dijkstra.distances g [s]`          — model of `DijkstraDist::new(g, [s]).distances()` (C03)
* `Bfm.distances g s`                 — model of `BellmanFordMoore::new(g, s).distances()` (C07)
* `Fw.row g.n (Fw.distances g) s`     — row `s` of the model of `FloydWarshall::distances()` (C08)
* `Bfs.distances g S inf`             — model of `BfsDist::new(g, S).distances()` (C04)

All three weighted models return a `List (Option Int)` in which `none` is the `MAX` sentinel
(`isize::MAX` for BFM / FW, `usize::MAX` for Dijkstra), so "equal modulo the representation of
the sentinel" is plain equality of lists (`…_entry` gives the entrywise reading).  BFS returns
`List Nat` with the sentinel `inf = usize::MAX` inside; `hopToOpt inf` maps it to `none`.

Only statements, proofs by reference (`Proof/Cross.lean`, `Proof/CrossModels.lean`) and
non-vacuity examples.
-/
namespace GraafVerif.Cross
open GraafVerif

/-! ## Uniqueness at spec level -/

/-- `IsMinDist` determines the distance. -/
theorem minDist_unique (g : WGraph) (S : List Nat) (v : Nat) (d d' : Int)
    (h : IsMinDist g S v d) (h' : IsMinDist g S v d') : d = d' :=
  isMinDist_unique h h'

/-- `IsHopDist` determines the distance. -/
theorem hopDist_unique (g : Graph) (S : List Nat) (v d d' : Nat)
    (h : IsHopDist g S v d) (h' : IsHopDist g S v d') : d = d' :=
  isHopDist_unique h h'

/-- At most one list is the distance vector from `S` (one entry per vertex; finite entry iff
minimum walk weight; sentinel iff unreachable). -/
theorem distVec_unique (g : WGraph) (S : List Nat) (d d' : List (Option Int))
    (h : IsDistVec g S d) (h' : IsDistVec g S d') : d = d' :=
  isDistVec_unique h h'

/-- C07's `Exact` is `IsDistVec` for one source (so C07/C08's "any exact vector" clauses and the
theorems below speak about the same thing). -/
theorem distVec_iff_exact (g : WGraph) (s : Nat) (d : List (Option Int)) :
    IsDistVec g [s] d ↔ Bfm.Exact g s d :=
  isDistVec_iff_exact

/-! ## Each model computes the distance vector -/

theorem dijkstra_distVec (g : WGraph) (S : List Nat) (h : Dijkstra.Hyp g S) :
    IsDistVec g S (Dijkstra.distances g S) :=
  dijkstra_isDistVec g S h

theorem bfm_distVec (g : WGraph) (hwf : g.WF) (s : Nat) (d : Bfm.Dist)
    (h : Bfm.distances g s = .ret (some d)) : IsDistVec g [s] d :=
  bfm_isDistVec hwf h

theorem fw_row_distVec (g : WGraph) (hwf : g.WF) (hfun : g.Functional) (hnc : g.NoNegCycle)
    (s : Nat) (hs : s < g.n) : IsDistVec g [s] (Fw.row g.n (Fw.distances g) s) :=
  fw_row_isDistVec g hwf hfun hnc hs

/-! ## 1. BFM = Dijkstra on non-negative weights (last clause of C07) -/

/-- For every well-formed digraph with non-negative weights and every in-range source, the BFM
model returns `Some(d)` and `d` IS the vector the `DijkstraDist` model's `distances` returns for
the sources `[s]`.  (`Functional` is not needed.) -/
theorem bfm_eq_dijkstra (g : WGraph) (hwf : g.WF) (hnn : g.NonNeg) (s : Nat) (hs : s < g.n) :
    Bfm.distances g s = .ret (some (Dijkstra.distances g [s])) :=
  bfm_dijkstra_agree g hwf hnn s hs

/-- Entrywise reading: both vectors have one entry per vertex and agree at every vertex
(`some x` = the number `x` in both, `none` = `isize::MAX` in BFM, `usize::MAX` in Dijkstra). -/
theorem bfm_eq_dijkstra_entry (g : WGraph) (hwf : g.WF) (hnn : g.NonNeg) (s : Nat) (hs : s < g.n) :
    ∃ d, Bfm.distances g s = .ret (some d) ∧ d.length = g.n ∧
      (Dijkstra.distances g [s]).length = g.n ∧
      ∀ v, v < g.n → ∃ o, d[v]? = some o ∧ (Dijkstra.distances g [s])[v]? = some o := by
  have hdj := dijkstra_isDistVec g [s] (hyp_single hwf hnn hs)
  refine ⟨_, bfm_dijkstra_agree g hwf hnn s hs, hdj.1, hdj.1, fun v hv => ?_⟩
  obtain ⟨o, ho⟩ := getElem?_cases (Dijkstra.distances g [s]) v (by rw [hdj.1]; exact hv)
  exact ⟨o, ho, ho⟩

/-! ## 2. Row `s` of Floyd-Warshall = BFM from `s` (C08, first half of the last clause) -/

/-- No negative circuit ⇒ for every `s < n` the BFM model returns `Some`, namely row `s` of the
Floyd-Warshall matrix. -/
theorem fw_row_eq_bfm (g : WGraph) (hwf : g.WF) (hfun : g.Functional) (hnc : g.NoNegCycle)
    (s : Nat) (hs : s < g.n) :
    Bfm.distances g s = .ret (some (Fw.row g.n (Fw.distances g) s)) :=
  fw_row_bfm_agree g hwf hfun hnc s hs

/-! ## 3. Row `s` of Floyd-Warshall = Dijkstra from `[s]` (C08, second half) -/

theorem fw_row_eq_dijkstra (g : WGraph) (hwf : g.WF) (hfun : g.Functional) (hnn : g.NonNeg)
    (s : Nat) (hs : s < g.n) :
    Fw.row g.n (Fw.distances g) s = Dijkstra.distances g [s] :=
  fw_row_dijkstra_agree g hwf hfun hnn s hs

/-- Cell form: `dist[(s, v)]` of Floyd-Warshall is entry `v` of Dijkstra from `[s]`. -/
theorem fw_get_eq_dijkstra (g : WGraph) (hwf : g.WF) (hfun : g.Functional) (hnn : g.NonNeg)
    (s v : Nat) (hs : s < g.n) (hv : v < g.n) :
    (Dijkstra.distances g [s])[v]? = some (Fw.get g.n (Fw.distances g) s v) := by
  rw [← fw_row_dijkstra_agree g hwf hfun hnn s hs]
  exact row_getElem? _ _ _ hv

/-! ## 4. The unweighted bridge: BFS = Dijkstra / BFM / Floyd-Warshall over unit weights -/

/-- Hop distance = minimum walk weight when every arc weighs 1. -/
theorem hopDist_iff_minDist (g : Graph) (S : List Nat) (v d : Nat) :
    IsHopDist g S v d ↔ IsMinDist (unitWeights g) S v (d : Int) :=
  isHopDist_iff_isMinDist

/-- … and reachability is reachability by weighted walks. -/
theorem reach_iff_wreach (g : Graph) (S : List Nat) (v : Nat) :
    ReachFrom g S v ↔ WReachFrom (unitWeights g) S v :=
  reachFrom_iff_wreachFrom

/-- `unitWeights g` is a legitimate input of all three weighted algorithms, and forgetting the
weights gives `g` back. -/
theorem unitWeights_hyps (g : Graph) (hg : g.WF) :
    (unitWeights g).WF ∧ (unitWeights g).Functional ∧ (unitWeights g).NonNeg ∧
    (unitWeights g).NoNegCycle ∧ (unitWeights g).toGraph = g :=
  ⟨unitWeights_wf hg, unitWeights_functional g, unitWeights_nonneg g,
    nonneg_noNegCycle (unitWeights_nonneg g), unitWeights_toGraph g⟩

/-- `BfsDist::distances()` (sentinel `inf = usize::MAX` ↦ `none`) is Dijkstra's `distances()` on
the unit-weight view, for every list of distinct in-range sources. -/
theorem bfs_eq_dijkstra (g : Graph) (hg : g.WF) (S : List Nat) (hS : ∀ s ∈ S, s < g.n) (hnd : S.Nodup)
    (inf : Nat) (hinf : g.n ≤ inf) :
    ∃ d, Bfs.distances g S inf = .ok d ∧
      Dijkstra.distances (unitWeights g) S = d.map (hopToOpt inf) :=
  bfs_dijkstra_agree g hg S hS hnd inf hinf

/-- … and, for one source, BFM's result and row `s` of Floyd-Warshall. -/
theorem bfs_eq_bfm_fw (g : Graph) (hg : g.WF) (s : Nat) (hs : s < g.n) (inf : Nat) (hinf : g.n ≤ inf) :
    ∃ d, Bfs.distances g [s] inf = .ok d ∧
      Bfm.distances (unitWeights g) s = .ret (some (d.map (hopToOpt inf))) ∧
      Fw.row g.n (Fw.distances (unitWeights g)) s = d.map (hopToOpt inf) :=
  bfs_bfm_fw_agree g hg s hs inf hinf

/-! ## The clauses together -/

/-- The cross-algorithm clauses of C07 and C08 (and the unweighted bridge) for the models. -/
def Statement : Prop :=
  (∀ (g : WGraph) (s : Nat), g.WF → s < g.n →
    -- C07: "on non-negative weights it agrees with Dijkstra"
    (g.NonNeg → Bfm.distances g s = .ret (some (Dijkstra.distances g [s]))) ∧
    -- C08: "Row s therefore equals BellmanFordMoore from s, …
    (g.Functional → g.NoNegCycle →
      Bfm.distances g s = .ret (some (Fw.row g.n (Fw.distances g) s))) ∧
    -- … and on non-negative weights equals Dijkstra from s"
    (g.Functional → g.NonNeg → Fw.row g.n (Fw.distances g) s = Dijkstra.distances g [s])) ∧
  (∀ (g : Graph) (S : List Nat) (inf : Nat), g.WF → (∀ s ∈ S, s < g.n) → S.Nodup → g.n ≤ inf →
    ∃ d, Bfs.distances g S inf = .ok d ∧ Dijkstra.distances (unitWeights g) S = d.map (hopToOpt inf))

theorem statement : Statement :=
  ⟨fun g s hwf hs =>
    ⟨fun hnn => bfm_dijkstra_agree g hwf hnn s hs,
     fun hfun hnc => fw_row_bfm_agree g hwf hfun hnc s hs,
     fun hfun hnn => fw_row_dijkstra_agree g hwf hfun hnn s hs⟩,
   fun g S inf hg hS hnd hinf => bfs_dijkstra_agree g hg S hS hnd inf hinf⟩

/-! ## Non-vacuity

`gx`: 5 vertices, non-negative weights with a zero-weight arc, the "late shortcut" diamond
`0 → 1 : 10`, `0 → 2 : 1`, `2 → 1 : 1`, and vertex 4 which reaches everything but is reached by
nothing.  It meets `WF`, `Functional`, `NonNeg`; the three models are evaluated by the kernel. -/

def gx : WGraph := ⟨5, fun u => match u with
  | 0 => [(1, 10), (2, 1), (3, 20)] | 1 => [(3, 0)] | 2 => [(1, 1)] | 4 => [(0, 2)] | _ => []⟩

theorem gx_wf : gx.WF := by
  intro u v w h
  change (v, w) ∈ gx.out u at h
  show _ < 5 ∧ _ < 5
  rcases u with _ | _ | _ | _ | _ | u <;> simp [gx] at h <;> omega

theorem gx_functional : gx.Functional := by
  intro u v w₁ w₂ h₁ h₂
  change (v, w₁) ∈ gx.out u at h₁
  change (v, w₂) ∈ gx.out u at h₂
  rcases u with _ | _ | _ | _ | _ | u <;> simp [gx] at h₁ h₂ <;> omega

theorem gx_nonneg : gx.NonNeg := by
  intro u v w h
  change (v, w) ∈ gx.out u at h
  rcases u with _ | _ | _ | _ | _ | u <;> simp [gx] at h <;> omega

example : Dijkstra.distances gx [0] = [some 0, some 2, some 1, some 2, none] := by decide
example : Bfm.distances gx 0 = .ret (some [some 0, some 2, some 1, some 2, none]) := by decide
example : Fw.row 5 (Fw.distances gx) 0 = [some 0, some 2, some 1, some 2, none] := by decide
example : Dijkstra.distances gx [4] = [some 2, some 4, some 3, some 4, some 0] := by decide
example : Bfm.distances gx 4 = .ret (some [some 2, some 4, some 3, some 4, some 0]) := by decide
example : Fw.row 5 (Fw.distances gx) 4 = [some 2, some 4, some 3, some 4, some 0] := by decide

/-- The theorems apply to `gx` (hypotheses discharged, not assumed). -/
example : Bfm.distances gx 0 = .ret (some (Dijkstra.distances gx [0])) :=
  bfm_eq_dijkstra gx gx_wf gx_nonneg 0 (by decide)
example : Fw.row gx.n (Fw.distances gx) 4 = Dijkstra.distances gx [4] :=
  fw_row_eq_dijkstra gx gx_wf gx_functional gx_nonneg 4 (by decide)

/-- `fw_row_eq_bfm` with NEGATIVE arcs: C08's doctest digraph `C08.ex` (no negative circuit, so
Dijkstra is out of scope but BFM and Floyd-Warshall agree). -/
theorem ex_wf : C08.ex.WF := by
  intro u v w h
  change (v, w) ∈ C08.ex.out u at h
  show _ < 4 ∧ _ < 4
  rcases u with _ | _ | _ | _ | u <;> simp [C08.ex] at h <;> omega

theorem ex_functional : C08.ex.Functional := by
  intro u v w₁ w₂ h₁ h₂
  change (v, w₁) ∈ C08.ex.out u at h₁
  change (v, w₂) ∈ C08.ex.out u at h₂
  rcases u with _ | _ | _ | _ | u <;> simp [C08.ex] at h₁ h₂ <;> omega

theorem ex_noNegCycle : C08.ex.NoNegCycle :=
  C08.noNegCycle_of_potential C08.ex (fun u => match u with | 0 => 4 | 1 => 0 | 2 => 2 | 3 => 4 | _ => 0) (by
    intro u v w h
    change (v, w) ∈ C08.ex.out u at h
    rcases u with _ | _ | _ | _ | u <;> simp [C08.ex] at h
    · obtain ⟨rfl, rfl⟩ := h; decide
    · rcases h with ⟨rfl, rfl⟩ | ⟨rfl, rfl⟩ <;> decide
    · obtain ⟨rfl, rfl⟩ := h; decide
    · obtain ⟨rfl, rfl⟩ := h; decide)

example : Bfm.distances C08.ex 1 = .ret (some [some 4, some 0, some 2, some 4]) := by decide
example : Fw.row 4 (Fw.distances C08.ex) 1 = [some 4, some 0, some 2, some 4] := by decide
example : Bfm.distances C08.ex 1 = .ret (some (Fw.row C08.ex.n (Fw.distances C08.ex) 1)) :=
  fw_row_eq_bfm C08.ex ex_wf ex_functional ex_noNegCycle 1 (by decide)

/-- The unweighted bridge on C04's doc digraph `Bfs.g0` (8 vertices), sources `[1]` and `[6]`
(from 6 only 5, 6, 7 are reachable: `usize::MAX` ↦ `none`). -/
example : Bfs.distances Bfs.g0 [1] 18446744073709551615 = .ok [3, 0, 1, 2, 1, 2, 2, 3] := by decide
example : Dijkstra.distances (unitWeights Bfs.g0) [1]
    = [3, 0, 1, 2, 1, 2, 2, 3].map (hopToOpt 18446744073709551615) := by decide
example : Dijkstra.distances (unitWeights Bfs.g0) [6]
    = [none, none, none, none, none, some 1, some 0, some 1] := by decide
example : Bfm.distances (unitWeights Bfs.g0) 6
    = .ret (some [none, none, none, none, none, some 1, some 0, some 1]) := by decide
example : ∃ d, Bfs.distances Bfs.g0 [3, 7] 18446744073709551615 = .ok d ∧
    Dijkstra.distances (unitWeights Bfs.g0) [3, 7] = d.map (hopToOpt 18446744073709551615) :=
  bfs_eq_dijkstra Bfs.g0 C04.g0_wf [3, 7] (by decide) (by decide) _ (by decide)

end GraafVerif.Cross
