/-! Property theorems for C16 (statements + proofs by reference to `Proof/`). Not built yet. -/
