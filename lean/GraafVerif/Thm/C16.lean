import GraafVerif.Proof.Conv
import GraafVerif.Proof.ConvFrom
import GraafVerif.Proof.ConvInj
import GraafVerif.Model.ConvChain
import GraafVerif.Proof.ConvEq
/-!
# C16 — conversions between representations preserve the digraph

Only statements and proofs by reference.  Model: `Model/Conv.lean` (the macro-generated `From`
impls and the `From<rows>` / `From<arcs>` impls as coded, tied to the code by the
correspondence run).  `none` = the Rust code panics.
-/
namespace GraafVerif.C16
open GraafVerif.Repr GraafVerif.Conv GraafVerif.Gen

/-- same order, same arc set -/
def Same (o₁ : Nat) (a₁ : List (Nat × Nat)) (o₂ : Nat) (a₂ : List (Nat × Nat)) : Prop :=
  o₂ = o₁ ∧ ∀ u v, (u, v) ∈ a₂ ↔ (u, v) ∈ a₁

/-- A valid digraph with vertex set `0..order`, per representation (for the map contiguity is a
hypothesis; the others have it by construction). -/
def OkAL (d : AdjList) : Prop := d.WF
/-- `order * order` fits a `usize` (else `AdjacencyMatrix::empty` panics; a real matrix always
satisfies it, so it is part of the matrix's validity) -/
def Fits (n : Nat) : Prop := n * n < 2 ^ 64
def OkAM (d : AdjMap) : Prop := d.WF ∧ Gen.AM.Contiguous d ∧ 1 ≤ d.order
def OkMX (d : AdjMatrix) : Prop := d.WF ∧ d.order * d.order < 2 ^ 64
def OkEL (d : EdgeList) : Prop := d.WF
/-- … and for the weighted list: valid with every weight 1 -/
def OkWL1 (d : AdjListW) : Prop := d.WF ∧ Gen.WL.AllOne d

/-- The conversion result `r` is a valid digraph with the order `o` and the arc set `a` of the source. -/
def GoodAL (o : Nat) (a : List (Nat × Nat)) (r : Option AdjList) : Prop :=
  ∃ t, r = some t ∧ OkAL t ∧ Same o a t.order t.arcs
def GoodAM (o : Nat) (a : List (Nat × Nat)) (r : Option AdjMap) : Prop :=
  ∃ t, r = some t ∧ OkAM t ∧ Same o a t.order t.arcs
def GoodMX (o : Nat) (a : List (Nat × Nat)) (r : Option AdjMatrix) : Prop :=
  ∃ t, r = some t ∧ OkMX t ∧ Same o a t.order t.arcs
def GoodEL (o : Nat) (a : List (Nat × Nat)) (r : Option EdgeList) : Prop :=
  ∃ t, r = some t ∧ OkEL t ∧ Same o a t.order t.arcs
/-- … and additionally every arc has weight 1 -/
def GoodWL (o : Nat) (a : List (Nat × Nat)) (r : Option AdjListW) : Prop :=
  ∃ t, r = some t ∧ OkWL1 t ∧ Same o a t.order t.arcs

/-- **Full statement of C16.** -/
def Statement : Prop :=
  -- (a) the 12 + 4(×2 weight types) `From<other representation>` impls preserve order and arcs
  (∀ d : AdjList, OkAL d → GoodAM d.order d.arcs (alToAM d) ∧ (Fits d.order → GoodMX d.order d.arcs (alToMX d)) ∧
    GoodEL d.order d.arcs (alToEL d) ∧ GoodWL d.order d.arcs (alToWL d)) ∧
  (∀ d : AdjMap, OkAM d → GoodAL d.order d.arcs (amToAL d) ∧ (Fits d.order → GoodMX d.order d.arcs (amToMX d)) ∧
    GoodEL d.order d.arcs (amToEL d) ∧ GoodWL d.order d.arcs (amToWL d)) ∧
  (∀ d : AdjMatrix, OkMX d → GoodAL d.order d.arcs (mxToAL d) ∧ GoodAM d.order d.arcs (mxToAM d) ∧
    GoodEL d.order d.arcs (mxToEL d) ∧ GoodWL d.order d.arcs (mxToWL d)) ∧
  (∀ d : EdgeList, OkEL d → GoodAL d.order d.arcs (elToAL d) ∧ GoodAM d.order d.arcs (elToAM d) ∧
    (Fits d.order → GoodMX d.order d.arcs (elToMX d)) ∧ GoodWL d.order d.arcs (elToWL d)) ∧
  -- (b) every round trip is the identity (on the structure, not only on the abstract digraph)
  (∀ d : AdjList, OkAL d →
    (∀ t, alToAM d = some t → amToAL t = some d) ∧ (∀ t, alToMX d = some t → mxToAL t = some d) ∧
    (∀ t, alToEL d = some t → elToAL t = some d)) ∧
  (∀ d : AdjMap, OkAM d →
    (∀ t, amToAL d = some t → alToAM t = some d) ∧ (∀ t, amToMX d = some t → mxToAM t = some d) ∧
    (∀ t, amToEL d = some t → elToAM t = some d)) ∧
  (∀ d : AdjMatrix, OkMX d →
    (∀ t, mxToAL d = some t → alToMX t = some d) ∧ (∀ t, mxToAM d = some t → amToMX t = some d) ∧
    (∀ t, mxToEL d = some t → elToMX t = some d)) ∧
  (∀ d : EdgeList, OkEL d →
    (∀ t, elToAL d = some t → alToEL t = some d) ∧ (∀ t, elToAM d = some t → amToEL t = some d) ∧
    (∀ t, elToMX d = some t → mxToEL t = some d)) ∧
  -- (c) rows of out-neighbour sets / weight maps: exactly those rows, or a panic
  (∀ rows, (RowsValid rows → Conv.AL.fromRows rows = some ⟨rows⟩ ∧ ((∀ r ∈ rows, SortedS r) → OkAL ⟨rows⟩)) ∧
           (¬ RowsValid rows → Conv.AL.fromRows rows = none)) ∧
  (∀ rows, (RowsValid rows → Conv.AM.fromRows rows = some ⟨enumRows rows⟩ ∧
              ((∀ r ∈ rows, SortedS r) → OkAM ⟨enumRows rows⟩)) ∧
           (¬ RowsValid rows → Conv.AM.fromRows rows = none)) ∧
  (∀ rows, (RowsValidW rows → Conv.WL.fromRows rows = some ⟨rows⟩ ∧ ((∀ r ∈ rows, SortedK r) → AdjListW.WF ⟨rows⟩)) ∧
           (¬ RowsValidW rows → Conv.WL.fromRows rows = none)) ∧
  -- (d) iterator of arcs: order = largest id + 1 and exactly those arcs; self-loop ⇒ panic;
  --     no arc ⇒ the matrix panics, the edge list has order 1
  (∀ arcs, (arcs ≠ [] → (∀ a ∈ arcs, a.1 ≠ a.2) → Fits (maxId arcs + 1) →
              ∃ d, Conv.MX.fromArcs arcs = some d ∧ OkMX d ∧ Same (maxId arcs + 1) arcs d.order d.arcs) ∧
           ((∀ a ∈ arcs, a.1 ≠ a.2) →
              ∃ d, Conv.EL.fromArcs arcs = some d ∧ OkEL d ∧ Same (maxId arcs + 1) arcs d.order d.arcs) ∧
           ((∃ a ∈ arcs, a.1 = a.2) → Conv.MX.fromArcs arcs = none ∧ Conv.EL.fromArcs arcs = none) ∧
           (arcs ≠ [] → ∃ a ∈ arcs, a.1 = maxId arcs ∨ a.2 = maxId arcs)) ∧
  Conv.MX.fromArcs [] = none

/-! ## (a) conversions -/

private theorem same_of {o : Nat} {arcs a : List (Nat × Nat)} {o' : Nat}
    (h1 : o' = o) (h2 : ∀ u v, (u, v) ∈ a ↔ (u, v) ∈ arcs) : Same o arcs o' a := ⟨h1, h2⟩

/-- All conversions out of a valid source `s` (generic in the source). -/
theorem converts_src (s : Src) :
    GoodAL s.order s.arcs (toAL s.order s.arcs) ∧ GoodAM s.order s.arcs (toAM s.order s.arcs) ∧
    (Fits s.order → GoodMX s.order s.arcs (toMX s.order s.arcs)) ∧
    GoodEL s.order s.arcs (toEL s.order s.arcs) ∧ GoodWL s.order s.arcs (toWL s.order s.arcs) := by
  refine ⟨?_, ?_, ?_, ?_, ?_⟩
  · obtain ⟨t, h, hw, ho, ha⟩ := toAL_spec s; exact ⟨t, h, hw, same_of ho ha⟩
  · obtain ⟨t, h, hw, ho, ha⟩ := toAM_spec s
    exact ⟨t, h, ⟨hw.1, hw.2, by rw [ho]; exact s.pos⟩, same_of ho ha⟩
  · intro hf; obtain ⟨t, h, hw, ho, ha⟩ := toMX_spec s hf
    exact ⟨t, h, ⟨hw, by rw [ho]; exact hf⟩, same_of ho ha⟩
  · obtain ⟨t, h, hw, ho, ha⟩ := toEL_spec s; exact ⟨t, h, hw, same_of ho ha⟩
  · obtain ⟨t, h, hw, ho, ha⟩ := toWL_spec s; exact ⟨t, h, hw, same_of ho ha⟩

theorem converts_from_al (d : AdjList) (h : OkAL d) :
    GoodAM d.order d.arcs (alToAM d) ∧ (Fits d.order → GoodMX d.order d.arcs (alToMX d)) ∧
    GoodEL d.order d.arcs (alToEL d) ∧ GoodWL d.order d.arcs (alToWL d) :=
  (converts_src (srcAL d h)).2

theorem converts_from_am (d : AdjMap) (h : OkAM d) :
    GoodAL d.order d.arcs (amToAL d) ∧ (Fits d.order → GoodMX d.order d.arcs (amToMX d)) ∧
    GoodEL d.order d.arcs (amToEL d) ∧ GoodWL d.order d.arcs (amToWL d) :=
  have c := converts_src (srcAM d h.1 h.2.1 h.2.2)
  ⟨c.1, c.2.2⟩

theorem converts_from_mx (d : AdjMatrix) (h : OkMX d) :
    GoodAL d.order d.arcs (mxToAL d) ∧ GoodAM d.order d.arcs (mxToAM d) ∧
    GoodEL d.order d.arcs (mxToEL d) ∧ GoodWL d.order d.arcs (mxToWL d) :=
  have c := converts_src (srcMX d h.1)
  ⟨c.1, c.2.1, c.2.2.2⟩

theorem converts_from_el (d : EdgeList) (h : OkEL d) :
    GoodAL d.order d.arcs (elToAL d) ∧ GoodAM d.order d.arcs (elToAM d) ∧
    (Fits d.order → GoodMX d.order d.arcs (elToMX d)) ∧ GoodWL d.order d.arcs (elToWL d) :=
  have c := converts_src (srcEL d h)
  ⟨c.1, c.2.1, c.2.2.1, c.2.2.2.2⟩

/-- An invalid source (a self-loop or a head `≥ order` among its arcs, or order 0) makes every
`From<digraph>` impl panic — no invalid digraph is produced. -/
theorem conversion_panics_on_invalid {T : Type} (empty : Nat → Option T) (addArc : T → Nat → Nat → Option T)
    (o : Nat) (arcs : List (Nat × Nat)) (h : o = 0 ∨ ∃ a ∈ arcs, a.1 = a.2 ∨ ¬ a.2 < o) :
    fromDigraph empty addArc o arcs = none := by
  rcases h with rfl | h
  · exact fromDigraph_zero empty addArc arcs
  · exact fromDigraph_panics empty addArc o arcs h

/-! ## (b) round trips -/

/-- if the conversion into the matrix succeeded, the order fits -/
theorem fits_of_toMX {o : Nat} {arcs : List (Nat × Nat)} {t : AdjMatrix}
    (ht : toMX o arcs = some t) : o * o < 2 ^ 64 := by
  unfold toMX fromDigraph at ht
  by_cases h0 : o = 0
  · simp [h0] at ht
  · by_cases hf : o * o ≥ 2 ^ 64
    · simp [h0, AdjMatrix.empty, hf] at ht
    · omega


theorem roundtrip_al (d : AdjList) (h : OkAL d) :
    (∀ t, alToAM d = some t → amToAL t = some d) ∧ (∀ t, alToMX d = some t → mxToAL t = some d) ∧
    (∀ t, alToEL d = some t → elToAL t = some d) := by
  refine ⟨?_, ?_, ?_⟩
  · intro t ht
    obtain ⟨t', ht', hw, ho, ha⟩ := toAM_spec (srcAL d h)
    have : t = t' := Option.some.inj (ht.symm.trans ht'); subst this
    obtain ⟨b, hb, hbw, hbo, hba⟩ := toAL_spec (srcAM t hw.1 hw.2 (by rw [ho]; exact h.1))
    have : b = d := roundtrip_AL h hbw ⟨ho, ha⟩ ⟨hbo, hba⟩
    rw [← this]; exact hb
  · intro t ht
    have hwt : t.WF ∧ t.order = d.order ∧ ∀ u v, (u, v) ∈ t.arcs ↔ (u, v) ∈ d.arcs := by
      obtain ⟨t', ht', hw, ho, ha⟩ := toMX_spec (srcAL d h) (fits_of_toMX ht)
      have : t = t' := Option.some.inj (ht.symm.trans ht'); subst this
      exact ⟨hw, ho, ha⟩
    obtain ⟨b, hb, hbw, hbo, hba⟩ := toAL_spec (srcMX t hwt.1)
    have : b = d := roundtrip_AL h hbw ⟨hwt.2.1, hwt.2.2⟩ ⟨hbo, hba⟩
    rw [← this]; exact hb
  · intro t ht
    obtain ⟨t', ht', hw, ho, ha⟩ := toEL_spec (srcAL d h)
    have : t = t' := Option.some.inj (ht.symm.trans ht'); subst this
    obtain ⟨b, hb, hbw, hbo, hba⟩ := toAL_spec (srcEL t hw)
    have : b = d := roundtrip_AL h hbw ⟨ho, ha⟩ ⟨hbo, hba⟩
    rw [← this]; exact hb

theorem roundtrip_am (d : AdjMap) (h : OkAM d) :
    (∀ t, amToAL d = some t → alToAM t = some d) ∧ (∀ t, amToMX d = some t → mxToAM t = some d) ∧
    (∀ t, amToEL d = some t → elToAM t = some d) := by
  have s := srcAM d h.1 h.2.1 h.2.2
  refine ⟨?_, ?_, ?_⟩
  · intro t ht
    obtain ⟨t', ht', hw, ho, ha⟩ := toAL_spec (srcAM d h.1 h.2.1 h.2.2)
    have : t = t' := Option.some.inj (ht.symm.trans ht'); subst this
    obtain ⟨b, hb, hbw, hbo, hba⟩ := toAM_spec (srcAL t hw)
    have : b = d := roundtrip_AM h.1 h.2.1 hbw.1 hbw.2 ⟨ho, ha⟩ ⟨hbo, hba⟩
    rw [← this]; exact hb
  · intro t ht
    obtain ⟨t', ht', hw, ho, ha⟩ := toMX_spec (srcAM d h.1 h.2.1 h.2.2) (fits_of_toMX ht)
    have : t = t' := Option.some.inj (ht.symm.trans ht'); subst this
    obtain ⟨b, hb, hbw, hbo, hba⟩ := toAM_spec (srcMX t hw)
    have : b = d := roundtrip_AM h.1 h.2.1 hbw.1 hbw.2 ⟨ho, ha⟩ ⟨hbo, hba⟩
    rw [← this]; exact hb
  · intro t ht
    obtain ⟨t', ht', hw, ho, ha⟩ := toEL_spec (srcAM d h.1 h.2.1 h.2.2)
    have : t = t' := Option.some.inj (ht.symm.trans ht'); subst this
    obtain ⟨b, hb, hbw, hbo, hba⟩ := toAM_spec (srcEL t hw)
    have : b = d := roundtrip_AM h.1 h.2.1 hbw.1 hbw.2 ⟨ho, ha⟩ ⟨hbo, hba⟩
    rw [← this]; exact hb

theorem roundtrip_mx (d : AdjMatrix) (h : OkMX d) :
    (∀ t, mxToAL d = some t → alToMX t = some d) ∧ (∀ t, mxToAM d = some t → amToMX t = some d) ∧
    (∀ t, mxToEL d = some t → elToMX t = some d) := by
  refine ⟨?_, ?_, ?_⟩
  · intro t ht
    obtain ⟨t', ht', hw, ho, ha⟩ := toAL_spec (srcMX d h.1)
    have : t = t' := Option.some.inj (ht.symm.trans ht'); subst this
    have hf : t.order * t.order < 2 ^ 64 := by rw [ho]; exact h.2
    obtain ⟨b, hb, hbw, hbo, hba⟩ := toMX_spec (srcAL t hw) hf
    have : b = d := roundtrip_MX h.1 hbw ⟨ho, ha⟩ ⟨hbo, hba⟩
    rw [← this]; exact hb
  · intro t ht
    obtain ⟨t', ht', hw, ho, ha⟩ := toAM_spec (srcMX d h.1)
    have : t = t' := Option.some.inj (ht.symm.trans ht'); subst this
    have hf : t.order * t.order < 2 ^ 64 := by rw [ho]; exact h.2
    obtain ⟨b, hb, hbw, hbo, hba⟩ := toMX_spec (srcAM t hw.1 hw.2 (by rw [ho]; exact h.1.1)) hf
    have : b = d := roundtrip_MX h.1 hbw ⟨ho, ha⟩ ⟨hbo, hba⟩
    rw [← this]; exact hb
  · intro t ht
    obtain ⟨t', ht', hw, ho, ha⟩ := toEL_spec (srcMX d h.1)
    have : t = t' := Option.some.inj (ht.symm.trans ht'); subst this
    have hf : t.order * t.order < 2 ^ 64 := by rw [ho]; exact h.2
    obtain ⟨b, hb, hbw, hbo, hba⟩ := toMX_spec (srcEL t hw) hf
    have : b = d := roundtrip_MX h.1 hbw ⟨ho, ha⟩ ⟨hbo, hba⟩
    rw [← this]; exact hb

theorem roundtrip_el (d : EdgeList) (h : OkEL d) :
    (∀ t, elToAL d = some t → alToEL t = some d) ∧ (∀ t, elToAM d = some t → amToEL t = some d) ∧
    (∀ t, elToMX d = some t → mxToEL t = some d) := by
  refine ⟨?_, ?_, ?_⟩
  · intro t ht
    obtain ⟨t', ht', hw, ho, ha⟩ := toAL_spec (srcEL d h)
    have : t = t' := Option.some.inj (ht.symm.trans ht'); subst this
    obtain ⟨b, hb, hbw, hbo, hba⟩ := toEL_spec (srcAL t hw)
    have : b = d := roundtrip_EL h hbw ⟨ho, ha⟩ ⟨hbo, hba⟩
    rw [← this]; exact hb
  · intro t ht
    obtain ⟨t', ht', hw, ho, ha⟩ := toAM_spec (srcEL d h)
    have : t = t' := Option.some.inj (ht.symm.trans ht'); subst this
    obtain ⟨b, hb, hbw, hbo, hba⟩ := toEL_spec (srcAM t hw.1 hw.2 (by rw [ho]; exact h.1))
    have : b = d := roundtrip_EL h hbw ⟨ho, ha⟩ ⟨hbo, hba⟩
    rw [← this]; exact hb
  · intro t ht
    obtain ⟨t', ht', hw, ho, ha⟩ := toMX_spec (srcEL d h) (fits_of_toMX ht)
    have : t = t' := Option.some.inj (ht.symm.trans ht'); subst this
    obtain ⟨b, hb, hbw, hbo, hba⟩ := toEL_spec (srcMX t hw)
    have : b = d := roundtrip_EL h hbw ⟨ho, ha⟩ ⟨hbo, hba⟩
    rw [← this]; exact hb

/-! ## (c), (d) rows and arcs -/

theorem from_rows_al (rows : List (List Nat)) :
    (RowsValid rows → Conv.AL.fromRows rows = some ⟨rows⟩ ∧ ((∀ r ∈ rows, SortedS r) → OkAL ⟨rows⟩)) ∧
    (¬ RowsValid rows → Conv.AL.fromRows rows = none) :=
  ⟨fun hv => ⟨(Conv.AL.fromRows_spec rows).1 hv, fun hs => Conv.AL.fromRows_wf hs hv⟩,
   (Conv.AL.fromRows_spec rows).2⟩

theorem from_rows_am (rows : List (List Nat)) :
    (RowsValid rows → Conv.AM.fromRows rows = some ⟨enumRows rows⟩ ∧
        ((∀ r ∈ rows, SortedS r) → OkAM ⟨enumRows rows⟩)) ∧
    (¬ RowsValid rows → Conv.AM.fromRows rows = none) := by
  refine ⟨fun hv => ⟨(Conv.AM.fromRows_spec rows).1 hv, fun hs => ?_⟩, (Conv.AM.fromRows_spec rows).2⟩
  have := Conv.AM.fromRows_wf hs hv
  refine ⟨this.1, this.2, ?_⟩
  show 1 ≤ (enumRows rows).length
  have : 0 < rows.length := List.length_pos_iff.mpr hv.1
  simp only [enumRows, List.length_map, List.length_zipIdx]; omega

theorem from_rows_wl (rows : List (List (Nat × Int))) :
    (RowsValidW rows → Conv.WL.fromRows rows = some ⟨rows⟩ ∧ ((∀ r ∈ rows, SortedK r) → AdjListW.WF ⟨rows⟩)) ∧
    (¬ RowsValidW rows → Conv.WL.fromRows rows = none) :=
  ⟨fun hv => ⟨(Conv.WL.fromRows_spec rows).1 hv, fun hs => Conv.WL.fromRows_wf hs hv⟩,
   (Conv.WL.fromRows_spec rows).2⟩

theorem from_arcs (arcs : List (Nat × Nat)) :
    (arcs ≠ [] → (∀ a ∈ arcs, a.1 ≠ a.2) → Fits (maxId arcs + 1) →
        ∃ d, Conv.MX.fromArcs arcs = some d ∧ OkMX d ∧ Same (maxId arcs + 1) arcs d.order d.arcs) ∧
    ((∀ a ∈ arcs, a.1 ≠ a.2) →
        ∃ d, Conv.EL.fromArcs arcs = some d ∧ OkEL d ∧ Same (maxId arcs + 1) arcs d.order d.arcs) ∧
    ((∃ a ∈ arcs, a.1 = a.2) → Conv.MX.fromArcs arcs = none ∧ Conv.EL.fromArcs arcs = none) ∧
    (arcs ≠ [] → ∃ a ∈ arcs, a.1 = maxId arcs ∨ a.2 = maxId arcs) := by
  refine ⟨?_, ?_, ?_, fun hne => maxId_attained hne⟩
  · intro hne hnl hf
    obtain ⟨d, hd, hw, ho, ha⟩ := Conv.MX.fromArcs_spec hne hnl hf
    exact ⟨d, hd, ⟨hw, by rw [ho]; exact hf⟩, ho, ha⟩
  · intro hnl
    obtain ⟨d, hd, hw, ho, ha⟩ := Conv.EL.fromArcs_spec hnl
    exact ⟨d, hd, hw, ho, ha⟩
  · rintro ⟨a, ha, hl⟩
    have : arcs.any (fun a => a.1 == a.2) = true := List.any_eq_true.mpr ⟨a, ha, by simp [hl]⟩
    simp [Conv.MX.fromArcs, Conv.EL.fromArcs, this]

/-! ## chains of conversions (what the `conv_chain` op of the driver replays) -/

/-- validity of a digraph in whichever representation (weighted: every weight 1) -/
def OkAny : Any → Prop
  | .al d => OkAL d | .am d => OkAM d | .mx d => OkMX d | .el d => OkEL d | .wl d => OkWL1 d

theorem convert_preserves (src : Any) (tag : String) (h : OkAny src) (hf : Fits src.order)
    (r : Option Any) (hc : convert src tag = some r) :
    ∃ nxt, r = some nxt ∧ OkAny nxt ∧ Same src.order src.arcs nxt.order nxt.arcs := by
  have lift : ∀ {T : Type} (mk : T → Any) (ok : T → Prop) (ord : T → Nat) (arcs : T → List (Nat × Nat))
      (res : Option T), (∃ t, res = some t ∧ ok t ∧ Same src.order src.arcs (ord t) (arcs t)) →
      (∀ t, ok t → OkAny (mk t)) → (∀ t, (mk t).order = ord t) → (∀ t, (mk t).arcs = arcs t) →
      ∃ nxt, res.map mk = some nxt ∧ OkAny nxt ∧ Same src.order src.arcs nxt.order nxt.arcs := by
    intro T mk ok ord arcs res ⟨t, ht, hok, hs⟩ h1 h2 h3
    exact ⟨mk t, by rw [ht]; rfl, h1 t hok, by rw [h2, h3]; exact hs⟩
  unfold convert at hc
  split at hc <;> first
    | (cases hc; rename_i d
       first
        | exact lift Any.am OkAM AdjMap.order AdjMap.arcs _ (converts_src (srcAL d h)).2.1 (fun _ h => h) (fun _ => rfl) (fun _ => rfl)
        | exact lift Any.mx OkMX AdjMatrix.order AdjMatrix.arcs _ ((converts_src (srcAL d h)).2.2.1 hf) (fun _ h => h) (fun _ => rfl) (fun _ => rfl)
        | exact lift Any.el OkEL EdgeList.order EdgeList.arcs _ (converts_src (srcAL d h)).2.2.2.1 (fun _ h => h) (fun _ => rfl) (fun _ => rfl)
        | exact lift Any.wl OkWL1 AdjListW.order AdjListW.arcs _ (converts_src (srcAL d h)).2.2.2.2 (fun _ h => h) (fun _ => rfl) (fun _ => rfl)
        | exact lift Any.al OkAL AdjList.order AdjList.arcs _ (converts_src (srcAM d h.1 h.2.1 h.2.2)).1 (fun _ h => h) (fun _ => rfl) (fun _ => rfl)
        | exact lift Any.mx OkMX AdjMatrix.order AdjMatrix.arcs _ ((converts_src (srcAM d h.1 h.2.1 h.2.2)).2.2.1 hf) (fun _ h => h) (fun _ => rfl) (fun _ => rfl)
        | exact lift Any.el OkEL EdgeList.order EdgeList.arcs _ (converts_src (srcAM d h.1 h.2.1 h.2.2)).2.2.2.1 (fun _ h => h) (fun _ => rfl) (fun _ => rfl)
        | exact lift Any.wl OkWL1 AdjListW.order AdjListW.arcs _ (converts_src (srcAM d h.1 h.2.1 h.2.2)).2.2.2.2 (fun _ h => h) (fun _ => rfl) (fun _ => rfl)
        | exact lift Any.al OkAL AdjList.order AdjList.arcs _ (converts_src (srcMX d h.1)).1 (fun _ h => h) (fun _ => rfl) (fun _ => rfl)
        | exact lift Any.am OkAM AdjMap.order AdjMap.arcs _ (converts_src (srcMX d h.1)).2.1 (fun _ h => h) (fun _ => rfl) (fun _ => rfl)
        | exact lift Any.el OkEL EdgeList.order EdgeList.arcs _ (converts_src (srcMX d h.1)).2.2.2.1 (fun _ h => h) (fun _ => rfl) (fun _ => rfl)
        | exact lift Any.wl OkWL1 AdjListW.order AdjListW.arcs _ (converts_src (srcMX d h.1)).2.2.2.2 (fun _ h => h) (fun _ => rfl) (fun _ => rfl)
        | exact lift Any.al OkAL AdjList.order AdjList.arcs _ (converts_src (srcEL d h)).1 (fun _ h => h) (fun _ => rfl) (fun _ => rfl)
        | exact lift Any.am OkAM AdjMap.order AdjMap.arcs _ (converts_src (srcEL d h)).2.1 (fun _ h => h) (fun _ => rfl) (fun _ => rfl)
        | exact lift Any.mx OkMX AdjMatrix.order AdjMatrix.arcs _ ((converts_src (srcEL d h)).2.2.1 hf) (fun _ h => h) (fun _ => rfl) (fun _ => rfl)
        | exact lift Any.wl OkWL1 AdjListW.order AdjListW.arcs _ (converts_src (srcEL d h)).2.2.2.2 (fun _ h => h) (fun _ => rfl) (fun _ => rfl))
    | cases hc

/-- **Every chain of conversions** starting from a valid contiguous digraph: no step panics and
every digraph along the chain is valid with the order and arc set of the first one. -/
theorem chain_preserves (tags : List String) : ∀ (src : Any), OkAny src → Fits src.order →
    ∀ rs, runChain src tags = some rs →
      ∀ r ∈ rs, ∃ d, r = some d ∧ OkAny d ∧ Same src.order src.arcs d.order d.arcs := by
  induction tags with
  | nil => intro src _ _ rs h r hr; cases h; cases hr
  | cons tag rest ih =>
    intro src hok hf rs h r hr
    unfold runChain at h
    split at h
    · cases h
    · rename_i hc
      obtain ⟨nxt, hn, _, _⟩ := convert_preserves src tag hok hf _ hc
      cases hn
    · rename_i nxt hc
      obtain ⟨nxt', hn, hok', hs⟩ := convert_preserves src tag hok hf _ hc
      have e : nxt = nxt' := Option.some.inj hn
      subst e
      cases hrest : runChain nxt rest with
      | none => rw [hrest] at h; cases h
      | some rs' =>
        rw [hrest] at h
        cases h
        rcases List.mem_cons.mp hr with rfl | hr'
        · exact ⟨nxt, rfl, hok', hs⟩
        · have hf' : Fits nxt.order := by rw [hs.1]; exact hf
          obtain ⟨d, hd, hdok, hds⟩ := ih nxt hok' hf' rs' hrest r hr'
          refine ⟨d, hd, hdok, ?_⟩
          exact ⟨by rw [hds.1, hs.1], fun u v => by rw [hds.2, hs.2]⟩

/-! ## structural identity as the implementation's `==` sees it (round 4)

The model representation is canonical (`*.ext_arcs`): a valid digraph equals the one rebuilt by
`empty(order)` + `add_arc` over its own arcs, and equals its round trip through every other
representation.  `eqChecks` (Model/ConvEq.lean) is what the harness observes with `==`. -/

theorem rebuild_al (d : AdjList) (h : OkAL d) : Conv.AL.rebuild d = some d := Conv.AL.rebuild_eq h
theorem rebuild_am (d : AdjMap) (h : OkAM d) : Conv.AM.rebuild d = some d := Conv.AM.rebuild_eq h.1 h.2.1 h.2.2
theorem rebuild_mx (d : AdjMatrix) (h : OkMX d) : Conv.MX.rebuild d = some d := Conv.MX.rebuild_eq h.1 h.2
theorem rebuild_el (d : EdgeList) (h : OkEL d) : Conv.EL.rebuild d = some d := Conv.EL.rebuild_eq h
/-- weighted list with arbitrary weights (`add_arc_weighted` over `arcs_weighted()`) -/
theorem rebuild_wl (d : AdjListW) (h : d.WF) : Conv.WL.rebuild d = some d := Conv.WL.rebuild_eq h

private theorem bind_rt {S T : Type} {f : Option S} {g : S → Option T} {d : T}
    (hex : ∃ t, f = some t) (hrt : ∀ t, f = some t → g t = some d) : f.bind g = some d := by
  obtain ⟨t, ht⟩ := hex
  rw [ht]; exact hrt t ht

/-- **Every `==` check the harness makes on a valid digraph is `true`.** -/
theorem eqChecks_true (x : Any) (h : OkAny x) (hf : Fits x.order) : ∀ b ∈ eqChecks x, b = true := by
  cases x with
  | al d =>
    have c := converts_from_al d h
    have r := roundtrip_al d h
    have e1 := rebuild_al d h
    have e2 := bind_rt (let ⟨t, ht, _⟩ := c.1; ⟨t, ht⟩) r.1
    have e3 := bind_rt (let ⟨t, ht, _⟩ := c.2.1 hf; ⟨t, ht⟩) r.2.1
    have e4 := bind_rt (let ⟨t, ht, _⟩ := c.2.2.1; ⟨t, ht⟩) r.2.2
    intro b hb; simp only [eqChecks, e1, e2, e3, e4, decide_true, List.mem_cons, List.not_mem_nil, or_false, or_self] at hb
    exact hb
  | am d =>
    have c := converts_from_am d h
    have r := roundtrip_am d h
    have e1 := rebuild_am d h
    have e2 := bind_rt (let ⟨t, ht, _⟩ := c.1; ⟨t, ht⟩) r.1
    have e3 := bind_rt (let ⟨t, ht, _⟩ := c.2.1 hf; ⟨t, ht⟩) r.2.1
    have e4 := bind_rt (let ⟨t, ht, _⟩ := c.2.2.1; ⟨t, ht⟩) r.2.2
    intro b hb; simp only [eqChecks, e1, e2, e3, e4, decide_true, List.mem_cons, List.not_mem_nil, or_false, or_self] at hb
    exact hb
  | mx d =>
    have c := converts_from_mx d h
    have r := roundtrip_mx d h
    have e1 := rebuild_mx d h
    have e2 := bind_rt (let ⟨t, ht, _⟩ := c.1; ⟨t, ht⟩) r.1
    have e3 := bind_rt (let ⟨t, ht, _⟩ := c.2.1; ⟨t, ht⟩) r.2.1
    have e4 := bind_rt (let ⟨t, ht, _⟩ := c.2.2.1; ⟨t, ht⟩) r.2.2
    intro b hb; simp only [eqChecks, e1, e2, e3, e4, decide_true, List.mem_cons, List.not_mem_nil, or_false, or_self] at hb
    exact hb
  | el d =>
    have c := converts_from_el d h
    have r := roundtrip_el d h
    have e1 := rebuild_el d h
    have e2 := bind_rt (let ⟨t, ht, _⟩ := c.1; ⟨t, ht⟩) r.1
    have e3 := bind_rt (let ⟨t, ht, _⟩ := c.2.1; ⟨t, ht⟩) r.2.1
    have e4 := bind_rt (let ⟨t, ht, _⟩ := c.2.2.1 hf; ⟨t, ht⟩) r.2.2
    intro b hb; simp only [eqChecks, e1, e2, e3, e4, decide_true, List.mem_cons, List.not_mem_nil, or_false, or_self] at hb
    exact hb
  | wl d =>
    have e1 := rebuild_wl d h.1
    intro b hb; simp only [eqChecks, e1, decide_true, List.mem_cons, List.not_mem_nil, or_false] at hb
    exact hb

/-- … in particular for everything `From<arcs>` returns (the matrix of the round-4 seed). -/
theorem from_arcs_eqChecks (arcs : List (Nat × Nat)) (hne : arcs ≠ []) (hnl : ∀ a ∈ arcs, a.1 ≠ a.2)
    (hf : Fits (maxId arcs + 1)) :
    (∃ d, Conv.MX.fromArcs arcs = some d ∧ ∀ b ∈ eqChecks (.mx d), b = true) ∧
    (∃ d, Conv.EL.fromArcs arcs = some d ∧ ∀ b ∈ eqChecks (.el d), b = true) := by
  obtain ⟨d, hd, hok, hs⟩ := (from_arcs arcs).1 hne hnl hf
  obtain ⟨e, he, hoke, hse⟩ := (from_arcs arcs).2.1 hnl
  exact ⟨⟨d, hd, eqChecks_true (.mx d) hok (by show Fits d.order; rw [hs.1]; exact hf)⟩,
         ⟨e, he, eqChecks_true (.el e) hoke (by show Fits e.order; rw [hse.1]; exact hf)⟩⟩

/-- **C16, full statement.** -/
theorem statement_holds : Statement :=
  ⟨converts_from_al, converts_from_am, converts_from_mx, converts_from_el,
   roundtrip_al, roundtrip_am, roundtrip_mx, roundtrip_el,
   from_rows_al, from_rows_am, from_rows_wl, from_arcs, by decide⟩

/-! ## Non-vacuity -/

/-- a concrete valid source: the directed triangle plus a chord, as an adjacency list -/
def exAL : AdjList := ⟨[[1, 2], [2], [0]]⟩
example : OkAL exAL := by
  refine ⟨by decide, ?_⟩
  intro u row h
  have hu : u < 3 := by
    have := List.getElem?_eq_some_iff.mp h; obtain ⟨hlt, _⟩ := this; exact hlt
  match u, hu with
  | 0, _ => cases h; exact ⟨by simp [SortedS], by decide⟩
  | 1, _ => cases h; exact ⟨by simp [SortedS], by decide⟩
  | 2, _ => cases h; exact ⟨by simp [SortedS], by decide⟩
example : (alToMX exAL).map (·.arcs) = some [(0,1),(0,2),(1,2),(2,0)] := by decide
example : (alToWL exAL).map (·.arcsWeighted) = some [(0,1,1),(0,2,1),(1,2,1),(2,0,1)] := by decide
example : (alToEL exAL).bind elToAL = some exAL := by decide
example : ((runChain (.al exAL) ["am", "mx", "el", "al", "wu"]).map (·.map (·.map (·.arcs)))) =
    some (List.replicate 5 (some [(0,1),(0,2),(1,2),(2,0)])) := by decide
example : eqChecks (.al exAL) = [true, true, true, true] := by decide
example : (Conv.MX.fromArcs [(7, 0)]).map (fun d => eqChecks (.mx d)) = some [true, true, true, true] := by decide
example : Conv.AL.fromRows [[1], [1]] = none := by decide       -- self-loop
example : Conv.AM.fromRows [[1], [2]] = none := by decide       -- head out of range
example : (Conv.EL.fromArcs [(3,1),(1,3),(3,1)]).map (fun d => (d.order, d.arcs)) = some (4, [(1,3),(3,1)]) := by decide
example : RowsValid [[1, 2], [2], [0]] := by
  refine ⟨by simp, ?_⟩
  intro u row h
  have hu : u < 3 := by
    have := List.getElem?_eq_some_iff.mp h; obtain ⟨hlt, _⟩ := this; exact hlt
  match u, hu with
  | 0, _ => cases h; decide
  | 1, _ => cases h; decide
  | 2, _ => cases h; decide

end GraafVerif.C16
